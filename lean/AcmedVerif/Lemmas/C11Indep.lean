/-
Lemmas for `Props/C11Indep.lean` about `Model/AccountMulti.lean`.

1. the association list (`lookupEp`, `modFirst`);
2. normal forms: what `register_account` / `update_account_key` / `update_account_contacts` do to
   the account after a 2xx answer is ONE assignment `modEndpoint e (G shared)`;
3. a small framework (`Law`/`Sat`/`mwalk`, as in `Lemmas/Flow.lean`) and the laws: frame, requests,
   held keys, known endpoint; the two-run law `NI` (non-interference);
4. run equations and the refinement to `Flow.synchronize`.
-/
import AcmedVerif.Model.AccountMulti
import AcmedVerif.Lemmas.Flow

namespace AcmedVerif.AccountMulti
open AcmedVerif.Flow (KeyId ErrClass Step Variant ReqKind HookKind Auth)

/-! ### 1. The map -/

theorem lookupEp_modFirst_same (e : EpName) (g : EpRec → EpRec) (l : List (EpName × EpRec)) :
    lookupEp e (modFirst e g l) = (lookupEp e l).map g := by
  induction l with
  | nil => rfl
  | cons p rest ih =>
    obtain ⟨n, r⟩ := p
    by_cases h : (n == e) = true
    · simp [lookupEp, modFirst, h]
    · simp [lookupEp, modFirst, h, ih]

theorem lookupEp_modFirst_other {e e' : EpName} (h : e' ≠ e) (g : EpRec → EpRec)
    (l : List (EpName × EpRec)) : lookupEp e' (modFirst e g l) = lookupEp e' l := by
  induction l with
  | nil => rfl
  | cons p rest ih =>
    obtain ⟨n, r⟩ := p
    by_cases hn : (n == e) = true
    · have hne : (n == e') = false := by
        have : n = e := by simpa using hn
        subst this
        simpa using fun h' => h h'.symm
      simp [lookupEp, modFirst, hn, hne]
    · simp [lookupEp, modFirst, hn, ih]

theorem modFirst_modFirst (e : EpName) (g1 g2 : EpRec → EpRec) (l : List (EpName × EpRec)) :
    modFirst e g2 (modFirst e g1 l) = modFirst e (fun r => g2 (g1 r)) l := by
  induction l with
  | nil => rfl
  | cons p rest ih =>
    obtain ⟨n, r⟩ := p
    by_cases h : (n == e) = true
    · simp [modFirst, h]
    · simp [modFirst, h, ih]

theorem modFirst_id (e : EpName) (l : List (EpName × EpRec)) : modFirst e (fun r => r) l = l := by
  induction l with
  | nil => rfl
  | cons p rest ih =>
    obtain ⟨n, r⟩ := p
    by_cases h : (n == e) = true
    · simp [modFirst, h]
    · simp [modFirst, h, ih]

/-- Only what `g` does to the record found matters. -/
theorem modFirst_congr (e : EpName) (g g' : EpRec → EpRec) (l : List (EpName × EpRec))
    (h : ∀ r, lookupEp e l = some r → g r = g' r) : modFirst e g l = modFirst e g' l := by
  induction l with
  | nil => rfl
  | cons p rest ih =>
    obtain ⟨n, r⟩ := p
    by_cases hn : (n == e) = true
    · have := h r (by simp [lookupEp, hn])
      simp [modFirst, hn, this]
    · have hrest : ∀ r, lookupEp e rest = some r → g r = g' r := by
        intro r' hr'
        exact h r' (by simpa [lookupEp, hn] using hr')
      simp [modFirst, hn, ih hrest]

theorem modFirst_of_lookup_none (e : EpName) (g : EpRec → EpRec) (l : List (EpName × EpRec))
    (h : lookupEp e l = none) : modFirst e g l = l := by
  rw [modFirst_congr e g (fun r => r) l (by intro r hr; rw [h] at hr; cases hr), modFirst_id]

/-- The other entries are literally untouched (position, name, record). -/
theorem modFirst_length (e : EpName) (g : EpRec → EpRec) (l : List (EpName × EpRec)) :
    (modFirst e g l).length = l.length := by
  induction l with
  | nil => rfl
  | cons p rest ih =>
    obtain ⟨n, r⟩ := p
    by_cases h : (n == e) = true
    · simp [modFirst, h]
    · simp [modFirst, h, ih]

theorem modFirst_names (e : EpName) (g : EpRec → EpRec) (l : List (EpName × EpRec)) :
    (modFirst e g l).map (·.1) = l.map (·.1) := by
  induction l with
  | nil => rfl
  | cons p rest ih =>
    obtain ⟨n, r⟩ := p
    by_cases h : (n == e) = true
    · simp [modFirst, h]
    · simp [modFirst, h, ih]

theorem modFirst_mem_other {e : EpName} (g : EpRec → EpRec) {l : List (EpName × EpRec)}
    {n : EpName} {r : EpRec} (hn : n ≠ e) : (n, r) ∈ modFirst e g l ↔ (n, r) ∈ l := by
  induction l with
  | nil => simp [modFirst]
  | cons p rest ih =>
    obtain ⟨n', r'⟩ := p
    by_cases h : (n' == e) = true
    · have : n' = e := by simpa using h
      subst this
      simp [modFirst, hn]
    · simp [modFirst, h, ih]

/-! ### 2. Normal forms -/

/-- The record after a successful `register_account` (`acme_proto/account.rs:58-74`). -/
def regUpd (sh : Shared) (loc : Url) (orders : Option Url) (existing : Bool) (r : EpRec) : EpRec :=
  { r with accountUrl := loc, ordersUrl := orders.getD 0, keyHash := some sh.currentKey,
           contactsHash := some sh.contacts,
           eabHash := match sh.eab with
             | some b => some b
             | none => r.eabHash,
           ca := { key := sh.currentKey,
                   contacts := if existing then r.ca.contacts else some sh.contacts } }

/-- The record after a successful roll-over. -/
def keyUpd (sh : Shared) (r : EpRec) : EpRec :=
  { r with keyHash := some sh.currentKey, ca := { r.ca with key := sh.currentKey } }

/-- The record after a successful contact update. -/
def contactsUpd (sh : Shared) (r : EpRec) : EpRec :=
  { r with contactsHash := some sh.contacts, ca := { r.ca with contacts := some sh.contacts } }

theorem registered_eq (a : Account) (e : EpName) (loc : Url) (orders : Option Url) (ex : Bool) :
    a.registered e loc orders ex = a.modEndpoint e (regUpd a.shared loc orders ex) := by
  unfold Account.registered Account.setAccountUrl Account.setOrdersUrl Account.updateKeyHash
    Account.updateContactsHash Account.updateExternalAccountHash Account.ghostRegistered
    Account.modEndpoint Account.getEndpoint
  rcases hl : lookupEp e a.endpoints with _ | r
  · simp [lookupEp_modFirst_same, hl]
  · rcases hb : a.shared.eab with _ | b
    · simp only [lookupEp_modFirst_same, hl, hb, modFirst_modFirst, Option.map_some,
        Option.bind_eq_bind, Option.bind_some]
      congr 3; funext r'; simp [regUpd, hb]
    · simp only [lookupEp_modFirst_same, hl, hb, modFirst_modFirst, Option.map_some,
        Option.bind_eq_bind, Option.bind_some]
      congr 3; funext r'; simp [regUpd, hb]

theorem keyRolled_eq (a : Account) (e : EpName) :
    a.keyRolled e = a.modEndpoint e (keyUpd a.shared) := by
  unfold Account.keyRolled Account.updateKeyHash Account.ghostKeyChanged Account.modEndpoint
    Account.getEndpoint
  rcases hl : lookupEp e a.endpoints with _ | r
  · simp [lookupEp_modFirst_same, hl]
  · simp only [lookupEp_modFirst_same, hl, modFirst_modFirst, Option.map_some]
    congr 3

theorem contactsUpdated_eq (a : Account) (e : EpName) :
    a.contactsUpdated e = a.modEndpoint e (contactsUpd a.shared) := by
  unfold Account.contactsUpdated Account.updateContactsHash Account.ghostContactsUpdated
    Account.modEndpoint Account.getEndpoint
  rcases hl : lookupEp e a.endpoints with _ | r
  · simp [lookupEp_modFirst_same, hl]
  · simp only [lookupEp_modFirst_same, hl, modFirst_modFirst, Option.map_some]
    congr 3

/-- The one state-writing step: `modEndpoint e (G shared)`. -/
def modEpM (e : EpName) (G : Shared → EpRec → EpRec) : MM Unit :=
  liftAcct fun a => a.modEndpoint e (G a.shared)

theorem liftAcct_registered (e : EpName) (loc : Url) (orders : Option Url) (ex : Bool) :
    liftAcct (fun a => a.registered e loc orders ex) = modEpM e fun sh => regUpd sh loc orders ex := by
  unfold modEpM; congr; funext a; exact registered_eq a e loc orders ex

theorem liftAcct_keyRolled (e : EpName) :
    liftAcct (fun a => a.keyRolled e) = modEpM e keyUpd := by
  unfold modEpM; congr; funext a; exact keyRolled_eq a e

theorem liftAcct_contactsUpdated (e : EpName) :
    liftAcct (fun a => a.contactsUpdated e) = modEpM e contactsUpd := by
  unfold modEpM; congr; funext a; exact contactsUpdated_eq a e

/-! ### 3. Framework -/

theorem bind_run (m : MM α) (f : α → MM β) (s : MWorld) :
    (m >>= f) s = match m s with
      | (.val a, s1) => f a s1
      | (.fail st, s1) => (.fail st, s1)
      | (.unknownEndpoint, s1) => (.unknownEndpoint, s1)
      | (.stuck, s1) => (.stuck, s1) := rfl

theorem pure_run (a : α) (s : MWorld) : (pure a : MM α) s = (.val a, s) := rfl

@[simp] theorem MOut.tag_val (a : α) : (MOut.val a).tag = .ok := rfl
@[simp] theorem MOut.tag_fail (st : Step) : (MOut.fail st : MOut α).tag = .failed st := rfl
@[simp] theorem MOut.tag_unknown : (MOut.unknownEndpoint : MOut α).tag = .unknownEndpoint := rfl
@[simp] theorem MOut.tag_stuck : (MOut.stuck : MOut α).tag = .stuck := rfl

theorem bind_cases (m : MM α) (f : α → MM β) (s : MWorld) :
    (∃ a s1, m s = (.val a, s1) ∧ (m >>= f) s = f a s1) ∨
    ((m s).1.tag ≠ .ok ∧ ((m >>= f) s).1.tag = (m s).1.tag ∧ ((m >>= f) s).2 = (m s).2) := by
  rw [bind_run]
  rcases h : m s with ⟨o, s1⟩
  cases o with
  | val a => exact .inl ⟨a, s1, rfl, rfl⟩
  | fail st => exact .inr ⟨by simp, rfl, rfl⟩
  | unknownEndpoint => exact .inr ⟨by simp, rfl, rfl⟩
  | stuck => exact .inr ⟨by simp, rfl, rfl⟩

theorem bind_val_inv {m : MM α} {f : α → MM β} {s s' : MWorld} {b : β}
    (h : (m >>= f) s = (.val b, s')) : ∃ a s1, m s = (.val a, s1) ∧ f a s1 = (.val b, s') := by
  rcases bind_cases m f s with ⟨a, s1, h1, h2⟩ | ⟨h1, h2, _⟩
  · exact ⟨a, s1, h1, by rw [← h2, h]⟩
  · rw [h] at h2; simp at h2; exact absurd h2.symm h1

/-- A relation between the state before, the outcome and the state after that composes. -/
structure MLaw (R : MWorld → Tag → MWorld → Prop) : Prop where
  refl : ∀ t s, t ≠ .unknownEndpoint → R s t s
  trans : ∀ {s1 s2 s3 t}, R s1 .ok s2 → R s2 t s3 → R s1 t s3

structure MSat (R : MWorld → Tag → MWorld → Prop) (m : MM α) : Prop where
  run : ∀ s, R s (m s).1.tag (m s).2

theorem MSat.pure {R} (L : MLaw R) (a : α) : MSat R (pure a : MM α) :=
  ⟨fun s => L.refl _ s (by simp [pure_run])⟩

theorem MSat.failAt {R} (L : MLaw R) (st : Step) : MSat R (failAt st : MM α) :=
  ⟨fun s => L.refl _ s (by simp [AccountMulti.failAt])⟩

theorem MSat.getShared {R} (L : MLaw R) : MSat R getShared :=
  ⟨fun s => L.refl _ s (by simp [AccountMulti.getShared])⟩

theorem MSat.bind {R} (L : MLaw R) {m : MM α} {f : α → MM β} (hm : MSat R m)
    (hf : ∀ a, MSat R (f a)) : MSat R (m >>= f) := by
  constructor
  intro s
  have h1 := hm.run s
  rcases bind_cases m f s with ⟨a, s1, e1, e2⟩ | ⟨_, e2, e3⟩
  · rw [e2]; rw [e1] at h1; exact L.trans h1 ((hf a).run s1)
  · rw [e2, e3]; exact h1

theorem MSat.mono {R R' : MWorld → Tag → MWorld → Prop} {m : MM α}
    (h : ∀ s t s', R s t s' → R' s t s') (hm : MSat R m) : MSat R' m :=
  ⟨fun s => h _ _ _ (hm.run s)⟩

/-- Walk a monadic definition: the given lemmas, then the generic ones. -/
syntax "mwalk " "[" term,* "]" "[" term,* "]" term : tactic
macro_rules
  | `(tactic| mwalk [$ts,*] [$ps,*] $L) =>
    `(tactic| repeat' (first
        | intro _
        $[| exact $ts]*
        $[| exact $ps]*
        $[| apply $ts]*
        $[| apply $ps]*
        | exact MSat.pure $L _
        | exact MSat.failAt $L _
        | exact MSat.getShared $L
        | apply MSat.bind $L
        | trivial
        | split))

/-- The three request functions with the state-writing groups in normal form. -/
theorem registerAccount_nf (e : EpName) : registerAccount e = (do
    let sh ← getShared
    let r ← exchange e .newAccount (.dirNewAccount e) sh.currentKey 0
    match r with
    | .account ⟨some loc, orders, existing⟩ => do
      modEpM e fun sh => regUpd sh loc orders existing
      saveAccount
    | _ => failAt .register) := by
  unfold registerAccount
  simp only [liftAcct_registered]
  rfl

theorem updateAccountContacts_nf (e : EpName) : updateAccountContacts e = (do
    let sh ← getShared
    let er ← getEndpointM e
    let r ← exchange e .accountUpdate (.url er.accountUrl) sh.currentKey er.accountUrl
    match r with
    | .account _ | .okOther => do
      modEpM e contactsUpd
      saveAccount
    | .acmeErr .accountDoesNotExist => registerAccount e
    | _ => failAt .accountUpdate) := by
  unfold updateAccountContacts
  simp only [liftAcct_contactsUpdated]
  rfl

theorem checkNewKey_nf (e : EpName) (url : Url) : checkNewKey e url = (do
    let sh ← getShared
    let p ← exchange e .accountProbe (.url url) sh.currentKey url
    match p with
    | .account _ | .okOther => do
      modEpM e keyUpd
      saveAccount
    | _ => failAt .keyChange) := by
  unfold checkNewKey
  simp only [liftAcct_keyRolled]
  rfl

theorem keyChangeStep_nf (ca : Bool) (e : EpName) (old : KeyId) (url : Url) :
    keyChangeStep ca e old url = (do
    let r ← exchange e .keyChange (.dirKeyChange e) old url
    match r with
    | .account _ | .okOther => do
      modEpM e keyUpd
      saveAccount
    | .acmeErr .accountDoesNotExist => registerAccount e
    | .acmeErr _ => if ca then checkNewKey e url else failAt .keyChange
    | _ => failAt .keyChange) := by
  unfold keyChangeStep
  simp only [liftAcct_keyRolled]
  rfl

theorem modEpM_run (e : EpName) (G : Shared → EpRec → EpRec) (s : MWorld) :
    modEpM e G s = match s.acct.getEndpoint e with
      | none => (.unknownEndpoint, s)
      | some _ => (.val (), { s with acct :=
          { s.acct with endpoints := modFirst e (G s.acct.shared) s.acct.endpoints } }) := by
  unfold modEpM liftAcct Account.modEndpoint
  cases h : s.acct.getEndpoint e <;> simp only [h]

/-- GHOST: the record after the CA processed a request whose answer was lost. -/
def lostUpd (k : ReqKind) (sh : Shared) (r : EpRec) : EpRec :=
  match k with
  | .keyChange => { r with ca := { r.ca with key := sh.currentKey } }
  | .accountUpdate => { r with ca := { r.ca with contacts := some sh.contacts } }
  | _ => r

/-- What `exchange` writes into the record of `ep`: the ghost effect of a lost answer, else
nothing. -/
def exchUpd (k : ReqKind) (a : Ans) (sh : Shared) : EpRec → EpRec :=
  match a with
  | .lost => lostUpd k sh
  | _ => fun r => r

theorem lostUpd_id {k : ReqKind} (h1 : k ≠ .keyChange) (h2 : k ≠ .accountUpdate) (sh : Shared) :
    lostUpd k sh = fun r => r := by
  funext r
  cases k <;> simp_all [lostUpd]

def Account.withEndpoints (a : Account) (l : List (EpName × EpRec)) : Account :=
  { a with endpoints := l }

theorem ghostLost_eq (a : Account) (ep : EpName) (k : ReqKind) :
    a.ghostLost ep k = a.withEndpoints (modFirst ep (lostUpd k a.shared) a.endpoints) := by
  by_cases h1 : k = .keyChange
  · subst h1; rfl
  · by_cases h2 : k = .accountUpdate
    · subst h2; rfl
    · rw [lostUpd_id h1 h2, modFirst_id]
      cases k <;> first | rfl | exact absurd rfl h1 | exact absurd rfl h2

/-- The state after one exchange answered `r`. -/
def MWorld.afterExch (s : MWorld) (ev : MEv) (rest : List Ans) (g : EpRec → EpRec) (ep : EpName) :
    MWorld :=
  { s with exs := rest, log := s.log ++ [ev],
           acct := s.acct.withEndpoints (modFirst ep g s.acct.endpoints) }

/-- `exchange` in closed form. -/
theorem exchange_run (ep : EpName) (k : ReqKind) (tg : Target) (sg : KeyId) (kid : Url)
    (s : MWorld) :
    exchange ep k tg sg kid s = match s.exs with
      | [] => (.stuck, s)
      | r :: rest => (.val r,
          s.afterExch (.req ep k tg sg kid r) rest (exchUpd k r s.acct.shared) ep) := by
  unfold exchange
  rcases s.exs with _ | ⟨r, rest⟩
  · rfl
  · cases r with
    | lost => simp only [ghostLost_eq]; rfl
    | _ => simp only [MWorld.afterExch, exchUpd, modFirst_id]; rfl

/-! #### Law 1: the frame -/

/-- `synchronize … e` may only: leave the shared fields alone, replace the FIRST entry named `e`
by a function of itself, and write to disk an account of that same form. -/
def FrameR (e : EpName) : MWorld → Tag → MWorld → Prop := fun s _ s' =>
  s'.acct.shared = s.acct.shared ∧
  (∃ g, s'.acct.endpoints = modFirst e g s.acct.endpoints) ∧
  (s'.disk = s.disk ∨ ∃ a g, s'.disk = some a ∧ a.shared = s.acct.shared ∧
    a.endpoints = modFirst e g s.acct.endpoints)

theorem FrameR.refl' (e : EpName) (t : Tag) (s : MWorld) : FrameR e s t s :=
  ⟨rfl, ⟨fun r => r, (modFirst_id e _).symm⟩, .inl rfl⟩

theorem FrameR.of_eq (e : EpName) {t : Tag} {s s' : MWorld} (h1 : s'.acct = s.acct)
    (h2 : s'.disk = s.disk) : FrameR e s t s' :=
  ⟨by rw [h1], ⟨fun r => r, by rw [h1, modFirst_id]⟩, .inl h2⟩

theorem FrameR.law (e : EpName) : MLaw (FrameR e) where
  refl := fun t s _ => FrameR.refl' e t s
  trans := by
    rintro s1 s2 s3 t ⟨a1, ⟨g1, a2⟩, a3⟩ ⟨b1, ⟨g2, b2⟩, b3⟩
    refine ⟨b1.trans a1, ⟨fun r => g2 (g1 r), by rw [b2, a2, modFirst_modFirst]⟩, ?_⟩
    rcases b3 with b3 | ⟨a, g, h1, h2, h3⟩
    · rw [b3]; exact a3
    · exact .inr ⟨a, fun r => g (g1 r), h1, h2.trans a1, by rw [h3, a2, modFirst_modFirst]⟩

theorem FrameR.getEndpointM (e e' : EpName) : MSat (FrameR e) (getEndpointM e') := by
  constructor; intro s; unfold AccountMulti.getEndpointM
  cases s.acct.getEndpoint e' <;> exact FrameR.refl' e _ s

theorem FrameR.exchange (e : EpName) (k : ReqKind) (tg : Target) (sg : KeyId) (kid : Url) :
    MSat (FrameR e) (exchange e k tg sg kid) := by
  constructor; intro s; rw [exchange_run]
  rcases s.exs with _ | ⟨r, rest⟩
  · exact FrameR.of_eq e rfl rfl
  · exact ⟨rfl, ⟨exchUpd k r s.acct.shared, rfl⟩, .inl rfl⟩

theorem FrameR.hookGroup (e : EpName) (ty : HookKind) : MSat (FrameR e) (hookGroup ty) := by
  constructor; intro s; unfold AccountMulti.hookGroup
  cases s.hks <;> exact FrameR.of_eq e rfl rfl

theorem FrameR.writeAccount (e : EpName) : MSat (FrameR e) writeAccount :=
  ⟨fun s => ⟨rfl, ⟨fun r => r, (modFirst_id e _).symm⟩,
    .inr ⟨s.acct, fun r => r, rfl, rfl, (modFirst_id e _).symm⟩⟩⟩

theorem FrameR.modEpM (e : EpName) (G : Shared → EpRec → EpRec) : MSat (FrameR e) (modEpM e G) := by
  constructor; intro s
  unfold AccountMulti.modEpM liftAcct Account.modEndpoint
  cases h : s.acct.getEndpoint e
  · simp only [h]; exact FrameR.refl' e _ s
  · simp only [h]; exact ⟨rfl, ⟨G s.acct.shared, rfl⟩, .inl rfl⟩

section FrameWalk
local macro "fw" "[" ts:term,* "]" : tactic =>
  `(tactic| mwalk [$ts,*] [FrameR.exchange _ _ _ _ _, FrameR.hookGroup _, FrameR.writeAccount _,
                  FrameR.modEpM _ _, FrameR.getEndpointM _ _] (FrameR.law _))

theorem FrameR.saveAccount (e : EpName) : MSat (FrameR e) saveAccount := by
  unfold AccountMulti.saveAccount; fw []
theorem FrameR.registerAccount (e : EpName) : MSat (FrameR e) (registerAccount e) := by
  rw [registerAccount_nf]; fw [FrameR.saveAccount e]
theorem FrameR.updateAccountContacts (e : EpName) :
    MSat (FrameR e) (updateAccountContacts e) := by
  rw [updateAccountContacts_nf]; fw [FrameR.saveAccount e, FrameR.registerAccount e]
theorem FrameR.checkNewKey (e : EpName) (u : Url) : MSat (FrameR e) (checkNewKey e u) := by
  rw [checkNewKey_nf]; fw [FrameR.saveAccount e]
theorem FrameR.keyChangeStep (ca : Bool) (e : EpName) (old : KeyId) (u : Url) :
    MSat (FrameR e) (keyChangeStep ca e old u) := by
  rw [keyChangeStep_nf]; fw [FrameR.saveAccount e, FrameR.registerAccount e, FrameR.checkNewKey e]
theorem FrameR.keyChangeChecked (e : EpName) (old : KeyId) (u : Url) :
    MSat (FrameR e) (keyChangeChecked e old u) := by
  unfold AccountMulti.keyChangeChecked
  fw [FrameR.keyChangeStep _ e, FrameR.checkNewKey e]
theorem FrameR.updateAccountKey (v : Variant) (e : EpName) :
    MSat (FrameR e) (updateAccountKey v e) := by
  unfold AccountMulti.updateAccountKey
  fw [FrameR.keyChangeStep _ e, FrameR.keyChangeChecked e]
theorem FrameR.synchronize (v : Variant) (e : EpName) : MSat (FrameR e) (synchronize v e) := by
  unfold AccountMulti.synchronize
  fw [FrameR.registerAccount e, FrameR.updateAccountContacts e, FrameR.updateAccountKey v e]
end FrameWalk

/-! #### Law 2: every event added satisfies a predicate -/

def EvR (P : MEv → Prop) : MWorld → Tag → MWorld → Prop := fun s _ s' =>
  ∃ es, s'.log = s.log ++ es ∧ ∀ ev ∈ es, P ev

theorem EvR.of_log_eq (P : MEv → Prop) {t : Tag} {s s' : MWorld} (h : s'.log = s.log) :
    EvR P s t s' := ⟨[], by simp [h], by simp⟩

theorem EvR.one (P : MEv → Prop) {t : Tag} {s s' : MWorld} {ev : MEv} (h : s'.log = s.log ++ [ev])
    (hp : P ev) : EvR P s t s' := ⟨[ev], h, by simpa using hp⟩

theorem EvR.law (P : MEv → Prop) : MLaw (EvR P) where
  refl := fun _ _ _ => EvR.of_log_eq P rfl
  trans := by
    rintro s1 s2 s3 t ⟨a, ha, pa⟩ ⟨b, hb, pb⟩
    refine ⟨a ++ b, by rw [hb, ha, List.append_assoc], ?_⟩
    intro ev hev
    rcases List.mem_append.mp hev with h | h
    · exact pa ev h
    · exact pb ev h

theorem EvR.getEndpointM (P : MEv → Prop) (e : EpName) : MSat (EvR P) (getEndpointM e) := by
  constructor; intro s; unfold AccountMulti.getEndpointM
  cases s.acct.getEndpoint e <;> exact EvR.of_log_eq P rfl

theorem EvR.exchange (P : MEv → Prop) (ep : EpName) (k : ReqKind) (tg : Target) (sg : KeyId)
    (kid : Url) (h : ∀ r, P (.req ep k tg sg kid r)) : MSat (EvR P) (exchange ep k tg sg kid) := by
  constructor; intro s; unfold AccountMulti.exchange
  cases s.exs with
  | nil => exact EvR.of_log_eq P rfl
  | cons r rest => exact EvR.one P rfl (h r)

theorem EvR.hookGroup (P : MEv → Prop) (ty : HookKind) (h : ∀ b, P (.hooks ty b)) :
    MSat (EvR P) (hookGroup ty) := by
  constructor; intro s; unfold AccountMulti.hookGroup
  cases s.hks with
  | nil => exact EvR.of_log_eq P rfl
  | cons r rest => exact EvR.one P rfl (h r)

theorem EvR.writeAccount (P : MEv → Prop) (h : P .saveAccount) : MSat (EvR P) writeAccount :=
  ⟨fun _ => EvR.one P rfl h⟩

theorem EvR.modEpM (P : MEv → Prop) (e : EpName) (G : Shared → EpRec → EpRec) :
    MSat (EvR P) (modEpM e G) := by
  constructor; intro s
  unfold AccountMulti.modEpM liftAcct
  cases h : s.acct.modEndpoint e (G s.acct.shared) <;> simp only [h] <;> exact EvR.of_log_eq P rfl

/-- (a) Through which `Endpoint` object and to which URL a request of the synchronisation of `e`
goes: through `e`; creation to `e`'s `newAccount` with the key as `jwk`; roll-over to `e`'s
`keyChange`; contact update, and the queries of the account made by the roll-over block, to the URL
used as `kid`. -/
def ReqOk (e : EpName) : MEv → Prop
  | .req ep k tg _ kid _ =>
    ep = e ∧ ((k = .newAccount ∧ tg = .dirNewAccount e ∧ kid = 0) ∨
              (k = .keyChange ∧ tg = .dirKeyChange e) ∨
              (k = .accountUpdate ∧ tg = .url kid) ∨
              (k = .accountProbe ∧ tg = .url kid))
  | _ => True

/-- Not a key roll-over request. -/
def NotKeyChange : MEv → Prop
  | .req _ k _ _ _ _ => k ≠ .keyChange
  | _ => True

section EvWalk
local macro "ew" "[" ts:term,* "]" P:term : tactic =>
  `(tactic| mwalk [$ts,*] [EvR.getEndpointM $P _, EvR.modEpM $P _ _,
      EvR.hookGroup $P _ (fun _ => trivial), EvR.writeAccount $P trivial] (EvR.law $P))

theorem ReqOk.saveAccount (e : EpName) : MSat (EvR (ReqOk e)) saveAccount := by
  unfold AccountMulti.saveAccount; ew [] (ReqOk e)
theorem ReqOk.registerAccount (e : EpName) : MSat (EvR (ReqOk e)) (registerAccount e) := by
  rw [registerAccount_nf]
  ew [ReqOk.saveAccount e,
    EvR.exchange (ReqOk e) _ _ _ _ _ (fun _ => ⟨rfl, .inl ⟨rfl, rfl, rfl⟩⟩)] (ReqOk e)
theorem ReqOk.updateAccountContacts (e : EpName) :
    MSat (EvR (ReqOk e)) (updateAccountContacts e) := by
  rw [updateAccountContacts_nf]
  ew [ReqOk.saveAccount e, ReqOk.registerAccount e,
    EvR.exchange (ReqOk e) _ _ _ _ _ (fun _ => ⟨rfl, .inr (.inr (.inl ⟨rfl, rfl⟩))⟩)] (ReqOk e)
theorem ReqOk.checkNewKey (e : EpName) (u : Url) : MSat (EvR (ReqOk e)) (checkNewKey e u) := by
  rw [checkNewKey_nf]
  ew [ReqOk.saveAccount e,
    EvR.exchange (ReqOk e) _ _ _ _ _ (fun _ => ⟨rfl, .inr (.inr (.inr ⟨rfl, rfl⟩))⟩)] (ReqOk e)
theorem ReqOk.keyChangeStep (ca : Bool) (e : EpName) (old : KeyId) (u : Url) :
    MSat (EvR (ReqOk e)) (keyChangeStep ca e old u) := by
  rw [keyChangeStep_nf]
  ew [ReqOk.saveAccount e, ReqOk.registerAccount e, ReqOk.checkNewKey e,
    EvR.exchange (ReqOk e) _ _ _ _ _ (fun _ => ⟨rfl, .inr (.inl ⟨rfl, rfl⟩)⟩)] (ReqOk e)
theorem ReqOk.keyChangeChecked (e : EpName) (old : KeyId) (u : Url) :
    MSat (EvR (ReqOk e)) (keyChangeChecked e old u) := by
  unfold AccountMulti.keyChangeChecked
  ew [ReqOk.keyChangeStep _ e, ReqOk.checkNewKey e,
    EvR.exchange (ReqOk e) _ _ _ _ _ (fun _ => ⟨rfl, .inr (.inr (.inr ⟨rfl, rfl⟩))⟩)] (ReqOk e)
theorem ReqOk.updateAccountKey (v : Variant) (e : EpName) :
    MSat (EvR (ReqOk e)) (updateAccountKey v e) := by
  unfold AccountMulti.updateAccountKey
  ew [ReqOk.keyChangeStep _ e, ReqOk.keyChangeChecked e, MSat.getShared (EvR.law (ReqOk e))] (ReqOk e)
theorem ReqOk.synchronize (v : Variant) (e : EpName) :
    MSat (EvR (ReqOk e)) (synchronize v e) := by
  unfold AccountMulti.synchronize
  ew [ReqOk.registerAccount e, ReqOk.updateAccountContacts e, ReqOk.updateAccountKey v e] (ReqOk e)

theorem NotKeyChange.saveAccount : MSat (EvR NotKeyChange) saveAccount := by
  unfold AccountMulti.saveAccount; ew [] NotKeyChange
theorem NotKeyChange.registerAccount (e : EpName) :
    MSat (EvR NotKeyChange) (registerAccount e) := by
  rw [registerAccount_nf]
  ew [NotKeyChange.saveAccount,
    EvR.exchange NotKeyChange _ _ _ _ _ (fun _ => by simp [NotKeyChange])] NotKeyChange
theorem NotKeyChange.updateAccountContacts (e : EpName) :
    MSat (EvR NotKeyChange) (updateAccountContacts e) := by
  rw [updateAccountContacts_nf]
  ew [NotKeyChange.saveAccount, NotKeyChange.registerAccount e,
    EvR.exchange NotKeyChange _ _ _ _ _ (fun _ => by simp [NotKeyChange])] NotKeyChange
theorem NotKeyChange.checkNewKey (e : EpName) (u : Url) :
    MSat (EvR NotKeyChange) (checkNewKey e u) := by
  rw [checkNewKey_nf]
  ew [NotKeyChange.saveAccount, MSat.getShared (EvR.law NotKeyChange),
    EvR.exchange NotKeyChange _ _ _ _ _ (fun _ => by simp [NotKeyChange])] NotKeyChange
end EvWalk

/-! #### Law 3: the key each CA holds is the one on record, and the account still has it -/

/-- For a record with an account URL: a key fingerprint is recorded, the CA holds exactly that
key, and the account still has it (as current key or among the past keys). -/
def Held (sh : Shared) (r : EpRec) : Prop :=
  r.accountUrl ≠ 0 → ∃ k, r.keyHash = some k ∧ r.ca.key = k ∧ (k = sh.currentKey ∨ k ∈ sh.pastKeys)

def HeldAll (a : Account) : Prop := ∀ e r, a.getEndpoint e = some r → Held a.shared r

/-- No answer of the script is "processed, answer lost". -/
def NoLost (l : List Ans) : Prop := Ans.lost ∉ l

/-- `HeldAll` is kept as long as no answer is lost after the CA processed the request (the only way
the CA's record can move without the client being told). -/
def HeldR : MWorld → Tag → MWorld → Prop := fun s _ s' =>
  NoLost s.exs → HeldAll s.acct → HeldAll s'.acct ∧ NoLost s'.exs

theorem HeldR.law : MLaw HeldR where
  refl := fun _ _ _ hn h => ⟨h, hn⟩
  trans := fun h1 h2 hn h => h2 (h1 hn h).2 (h1 hn h).1

theorem HeldR.of_eq {t : Tag} {s s' : MWorld} (h : s'.acct = s.acct) (hx : s'.exs = s.exs) :
    HeldR s t s' := by
  intro hn hh; rw [h, hx]; exact ⟨hh, hn⟩

theorem HeldAll.modFirst {a : Account} (h : HeldAll a) (e : EpName) (g : EpRec → EpRec)
    (hg : ∀ r, Held a.shared r → Held a.shared (g r)) :
    HeldAll { a with endpoints := modFirst e g a.endpoints } := by
  intro e' r' hr'
  unfold Account.getEndpoint at hr'
  simp only at hr'
  by_cases he : e' = e
  · subst he
    rw [lookupEp_modFirst_same] at hr'
    rcases hl : lookupEp e' a.endpoints with _ | r
    · rw [hl] at hr'; cases hr'
    · rw [hl] at hr'
      simp only [Option.map_some, Option.some.injEq] at hr'
      rw [← hr']
      exact hg r (h e' r hl)
  · rw [lookupEp_modFirst_other he] at hr'
    exact h e' r' hr'

theorem Held.regUpd (sh : Shared) (loc : Url) (o : Option Url) (ex : Bool) (r : EpRec) :
    Held sh (regUpd sh loc o ex r) := fun _ => ⟨sh.currentKey, rfl, rfl, .inl rfl⟩

theorem Held.keyUpd (sh : Shared) (r : EpRec) : Held sh (keyUpd sh r) :=
  fun _ => ⟨sh.currentKey, rfl, rfl, .inl rfl⟩

theorem Held.contactsUpd (sh : Shared) (r : EpRec) (h : Held sh r) : Held sh (contactsUpd sh r) :=
  fun hu => h hu

theorem HeldR.getEndpointM (e : EpName) : MSat HeldR (getEndpointM e) := by
  constructor; intro s; unfold AccountMulti.getEndpointM
  cases s.acct.getEndpoint e <;> exact HeldR.of_eq rfl rfl

theorem HeldR.exchange (ep : EpName) (k : ReqKind) (tg : Target) (sg : KeyId) (kid : Url) :
    MSat HeldR (exchange ep k tg sg kid) := by
  constructor; intro s; rw [exchange_run]
  rcases hx : s.exs with _ | ⟨r, rest⟩
  · exact HeldR.of_eq rfl rfl
  · intro hn hh
    rw [hx] at hn
    have hr : r ≠ .lost := fun h => hn (by rw [h]; exact List.mem_cons_self)
    have hrest : NoLost rest := fun h => hn (List.mem_cons_of_mem _ h)
    refine ⟨?_, hrest⟩
    have : exchUpd k r s.acct.shared = fun r => r := by
      cases r <;> first | rfl | exact absurd rfl hr
    simp only [MWorld.afterExch, this, modFirst_id]
    exact hh

theorem HeldR.hookGroup (ty : HookKind) : MSat HeldR (hookGroup ty) := by
  constructor; intro s; unfold AccountMulti.hookGroup
  cases s.hks <;> exact HeldR.of_eq rfl rfl

theorem HeldR.writeAccount : MSat HeldR writeAccount := ⟨fun _ => HeldR.of_eq rfl rfl⟩

theorem HeldR.modEpM (e : EpName) (G : Shared → EpRec → EpRec)
    (hG : ∀ sh r, Held sh r → Held sh (G sh r)) : MSat HeldR (modEpM e G) := by
  constructor; intro s
  unfold AccountMulti.modEpM liftAcct Account.modEndpoint
  cases h : s.acct.getEndpoint e
  · simp only [h]; exact HeldR.of_eq rfl rfl
  · simp only [h]
    intro hn hh
    exact ⟨hh.modFirst e _ (hG _), hn⟩

section HeldWalk
local macro "hw" "[" ts:term,* "]" : tactic =>
  `(tactic| mwalk [$ts,*] [HeldR.exchange _ _ _ _ _, HeldR.hookGroup _, HeldR.writeAccount,
      HeldR.getEndpointM _,
      HeldR.modEpM _ _ (fun sh r _ => Held.regUpd sh _ _ _ r),
      HeldR.modEpM _ _ (fun sh r _ => Held.keyUpd sh r),
      HeldR.modEpM _ _ Held.contactsUpd] HeldR.law)

theorem HeldR.saveAccount : MSat HeldR saveAccount := by
  unfold AccountMulti.saveAccount; hw []
theorem HeldR.registerAccount (e : EpName) : MSat HeldR (registerAccount e) := by
  rw [registerAccount_nf]; hw [HeldR.saveAccount]
theorem HeldR.updateAccountContacts (e : EpName) : MSat HeldR (updateAccountContacts e) := by
  rw [updateAccountContacts_nf]; hw [HeldR.saveAccount, HeldR.registerAccount e]
theorem HeldR.checkNewKey (e : EpName) (u : Url) : MSat HeldR (checkNewKey e u) := by
  rw [checkNewKey_nf]; hw [HeldR.saveAccount]
theorem HeldR.keyChangeStep (ca : Bool) (e : EpName) (old : KeyId) (u : Url) :
    MSat HeldR (keyChangeStep ca e old u) := by
  rw [keyChangeStep_nf]; hw [HeldR.saveAccount, HeldR.registerAccount e, HeldR.checkNewKey e]
theorem HeldR.keyChangeChecked (e : EpName) (old : KeyId) (u : Url) :
    MSat HeldR (keyChangeChecked e old u) := by
  unfold AccountMulti.keyChangeChecked
  hw [HeldR.keyChangeStep _ e, HeldR.checkNewKey e]
theorem HeldR.updateAccountKey (v : Variant) (e : EpName) : MSat HeldR (updateAccountKey v e) := by
  unfold AccountMulti.updateAccountKey
  hw [HeldR.keyChangeStep _ e, HeldR.keyChangeChecked e]
theorem HeldR.synchronize (v : Variant) (e : EpName) : MSat HeldR (synchronize v e) := by
  unfold AccountMulti.synchronize
  hw [HeldR.registerAccount e, HeldR.updateAccountContacts e, HeldR.updateAccountKey v e]
end HeldWalk

/-! #### Law 3′: with lost answers — the CA holds the recorded key OR the current one -/

/-- For a record with an account URL: a key fingerprint is recorded, the account still has that
key, and the CA holds that key — or the account's CURRENT key (a roll-over it processed whose answer
was lost: the client still records the superseded key). -/
def HeldP (sh : Shared) (r : EpRec) : Prop :=
  r.accountUrl ≠ 0 → ∃ k, r.keyHash = some k ∧ (r.ca.key = k ∨ r.ca.key = sh.currentKey) ∧
    (k = sh.currentKey ∨ k ∈ sh.pastKeys)

def HeldPAll (a : Account) : Prop := ∀ e r, a.getEndpoint e = some r → HeldP a.shared r

theorem Held.toP {sh : Shared} {r : EpRec} (h : Held sh r) : HeldP sh r := by
  intro hu
  obtain ⟨k, h1, h2, h3⟩ := h hu
  exact ⟨k, h1, .inl h2, h3⟩

theorem HeldAll.toP {a : Account} (h : HeldAll a) : HeldPAll a := fun e r hr => (h e r hr).toP

def HeldPR : MWorld → Tag → MWorld → Prop := fun s _ s' => HeldPAll s.acct → HeldPAll s'.acct

theorem HeldPR.law : MLaw HeldPR where
  refl := fun _ _ _ h => h
  trans := fun h1 h2 h => h2 (h1 h)

theorem HeldPR.of_eq {t : Tag} {s s' : MWorld} (h : s'.acct = s.acct) : HeldPR s t s' := by
  intro hh; rw [h]; exact hh

theorem HeldPAll.modFirst {a : Account} (h : HeldPAll a) (e : EpName) (g : EpRec → EpRec)
    (hg : ∀ r, HeldP a.shared r → HeldP a.shared (g r)) :
    HeldPAll { a with endpoints := modFirst e g a.endpoints } := by
  intro e' r' hr'
  unfold Account.getEndpoint at hr'
  simp only at hr'
  by_cases he : e' = e
  · subst he
    rw [lookupEp_modFirst_same] at hr'
    rcases hl : lookupEp e' a.endpoints with _ | r
    · rw [hl] at hr'; cases hr'
    · rw [hl] at hr'
      simp only [Option.map_some, Option.some.injEq] at hr'
      rw [← hr']
      exact hg r (h e' r hl)
  · rw [lookupEp_modFirst_other he] at hr'
    exact h e' r' hr'

theorem HeldP.regUpd (sh : Shared) (loc : Url) (o : Option Url) (ex : Bool) (r : EpRec) :
    HeldP sh (regUpd sh loc o ex r) := fun _ => ⟨sh.currentKey, rfl, .inl rfl, .inl rfl⟩

theorem HeldP.keyUpd (sh : Shared) (r : EpRec) : HeldP sh (keyUpd sh r) :=
  fun _ => ⟨sh.currentKey, rfl, .inl rfl, .inl rfl⟩

theorem HeldP.contactsUpd (sh : Shared) (r : EpRec) (h : HeldP sh r) :
    HeldP sh (contactsUpd sh r) := fun hu => h hu

theorem HeldP.exchUpd (k : ReqKind) (a : Ans) (sh : Shared) (r : EpRec) (h : HeldP sh r) :
    HeldP sh (exchUpd k a sh r) := by
  cases a with
  | lost =>
    by_cases h1 : k = .keyChange
    · subst h1
      intro hu
      obtain ⟨k', g1, _, g3⟩ := h hu
      exact ⟨k', g1, .inr rfl, g3⟩
    · by_cases h2 : k = .accountUpdate
      · subst h2; exact fun hu => h hu
      · simp only [AccountMulti.exchUpd, lostUpd_id h1 h2]; exact h
  | _ => exact h

theorem HeldPR.getEndpointM (e : EpName) : MSat HeldPR (getEndpointM e) := by
  constructor; intro s; unfold AccountMulti.getEndpointM
  cases s.acct.getEndpoint e <;> exact HeldPR.of_eq rfl

theorem HeldPR.exchange (ep : EpName) (k : ReqKind) (tg : Target) (sg : KeyId) (kid : Url) :
    MSat HeldPR (exchange ep k tg sg kid) := by
  constructor; intro s; rw [exchange_run]
  rcases s.exs with _ | ⟨r, rest⟩
  · exact HeldPR.of_eq rfl
  · intro hh
    exact hh.modFirst ep _ (HeldP.exchUpd k r _)

theorem HeldPR.hookGroup (ty : HookKind) : MSat HeldPR (hookGroup ty) := by
  constructor; intro s; unfold AccountMulti.hookGroup
  cases s.hks <;> exact HeldPR.of_eq rfl

theorem HeldPR.writeAccount : MSat HeldPR writeAccount := ⟨fun _ => HeldPR.of_eq rfl⟩

theorem HeldPR.modEpM (e : EpName) (G : Shared → EpRec → EpRec)
    (hG : ∀ sh r, HeldP sh r → HeldP sh (G sh r)) : MSat HeldPR (modEpM e G) := by
  constructor; intro s
  unfold AccountMulti.modEpM liftAcct Account.modEndpoint
  cases h : s.acct.getEndpoint e
  · simp only [h]; exact HeldPR.of_eq rfl
  · simp only [h]
    intro hh
    exact hh.modFirst e _ (hG _)

section HeldPWalk
local macro "pw" "[" ts:term,* "]" : tactic =>
  `(tactic| mwalk [$ts,*] [HeldPR.exchange _ _ _ _ _, HeldPR.hookGroup _, HeldPR.writeAccount,
      HeldPR.getEndpointM _,
      HeldPR.modEpM _ _ (fun sh r _ => HeldP.regUpd sh _ _ _ r),
      HeldPR.modEpM _ _ (fun sh r _ => HeldP.keyUpd sh r),
      HeldPR.modEpM _ _ HeldP.contactsUpd] HeldPR.law)

theorem HeldPR.saveAccount : MSat HeldPR saveAccount := by
  unfold AccountMulti.saveAccount; pw []
theorem HeldPR.registerAccount (e : EpName) : MSat HeldPR (registerAccount e) := by
  rw [registerAccount_nf]; pw [HeldPR.saveAccount]
theorem HeldPR.updateAccountContacts (e : EpName) : MSat HeldPR (updateAccountContacts e) := by
  rw [updateAccountContacts_nf]; pw [HeldPR.saveAccount, HeldPR.registerAccount e]
theorem HeldPR.checkNewKey (e : EpName) (u : Url) : MSat HeldPR (checkNewKey e u) := by
  rw [checkNewKey_nf]; pw [HeldPR.saveAccount]
theorem HeldPR.keyChangeStep (ca : Bool) (e : EpName) (old : KeyId) (u : Url) :
    MSat HeldPR (keyChangeStep ca e old u) := by
  rw [keyChangeStep_nf]; pw [HeldPR.saveAccount, HeldPR.registerAccount e, HeldPR.checkNewKey e]
theorem HeldPR.keyChangeChecked (e : EpName) (old : KeyId) (u : Url) :
    MSat HeldPR (keyChangeChecked e old u) := by
  unfold AccountMulti.keyChangeChecked
  pw [HeldPR.keyChangeStep _ e, HeldPR.checkNewKey e]
theorem HeldPR.updateAccountKey (v : Variant) (e : EpName) :
    MSat HeldPR (updateAccountKey v e) := by
  unfold AccountMulti.updateAccountKey
  pw [HeldPR.keyChangeStep _ e, HeldPR.keyChangeChecked e]
theorem HeldPR.synchronize (v : Variant) (e : EpName) : MSat HeldPR (synchronize v e) := by
  unfold AccountMulti.synchronize
  pw [HeldPR.registerAccount e, HeldPR.updateAccountContacts e, HeldPR.updateAccountKey v e]
end HeldPWalk

/-! #### Law 4: a known endpoint stays known and is never reported unknown -/

def Known (e : EpName) (a : Account) : Prop := (a.getEndpoint e).isSome = true

def KnownR (e : EpName) : MWorld → Tag → MWorld → Prop := fun s t s' =>
  Known e s.acct → t ≠ .unknownEndpoint ∧ Known e s'.acct

theorem KnownR.law (e : EpName) : MLaw (KnownR e) where
  refl := fun _ _ ht hk => ⟨ht, hk⟩
  trans := fun h1 h2 hk => h2 (h1 hk).2

theorem KnownR.getEndpointM (e : EpName) : MSat (KnownR e) (getEndpointM e) := by
  constructor; intro s hk; unfold AccountMulti.getEndpointM
  unfold Known at hk
  rcases h : s.acct.getEndpoint e with _ | r
  · rw [h] at hk; cases hk
  · exact ⟨by simp, by simp [Known, h]⟩

theorem KnownR.exchange (e ep : EpName) (k : ReqKind) (tg : Target) (sg : KeyId) (kid : Url) :
    MSat (KnownR e) (exchange ep k tg sg kid) := by
  constructor; intro s hk; rw [exchange_run]
  rcases s.exs with _ | ⟨r, rest⟩
  · exact ⟨by simp, hk⟩
  · refine ⟨by simp, ?_⟩
    unfold Known Account.getEndpoint at hk ⊢
    simp only [MWorld.afterExch, Account.withEndpoints]
    by_cases he : e = ep
    · subst he
      rw [lookupEp_modFirst_same]
      cases h : lookupEp e s.acct.endpoints
      · rw [h] at hk; cases hk
      · rfl
    · rw [lookupEp_modFirst_other he]; exact hk

theorem KnownR.hookGroup (e : EpName) (ty : HookKind) : MSat (KnownR e) (hookGroup ty) := by
  constructor; intro s hk; unfold AccountMulti.hookGroup
  cases s.hks <;> exact ⟨by simp, hk⟩

theorem KnownR.writeAccount (e : EpName) : MSat (KnownR e) writeAccount :=
  ⟨fun _ hk => ⟨by simp [AccountMulti.writeAccount], hk⟩⟩

theorem KnownR.modEpM (e : EpName) (G : Shared → EpRec → EpRec) : MSat (KnownR e) (modEpM e G) := by
  constructor; intro s hk
  unfold AccountMulti.modEpM liftAcct Account.modEndpoint
  unfold Known at hk
  rcases h : s.acct.getEndpoint e with _ | r
  · rw [h] at hk; cases hk
  · simp only [h]
    refine ⟨by simp, ?_⟩
    unfold Known Account.getEndpoint
    simp only [lookupEp_modFirst_same]
    unfold Account.getEndpoint at h
    simp [h]

section KnownWalk
local macro "kw" "[" ts:term,* "]" : tactic =>
  `(tactic| mwalk [$ts,*] [KnownR.exchange _ _ _ _ _ _, KnownR.hookGroup _ _, KnownR.writeAccount _,
      KnownR.getEndpointM _, KnownR.modEpM _ _] (KnownR.law _))

theorem KnownR.saveAccount (e : EpName) : MSat (KnownR e) saveAccount := by
  unfold AccountMulti.saveAccount; kw []
theorem KnownR.registerAccount (e : EpName) : MSat (KnownR e) (registerAccount e) := by
  rw [registerAccount_nf]; kw [KnownR.saveAccount e]
theorem KnownR.updateAccountContacts (e : EpName) : MSat (KnownR e) (updateAccountContacts e) := by
  rw [updateAccountContacts_nf]; kw [KnownR.saveAccount e, KnownR.registerAccount e]
theorem KnownR.checkNewKey (e : EpName) (u : Url) : MSat (KnownR e) (checkNewKey e u) := by
  rw [checkNewKey_nf]; kw [KnownR.saveAccount e]
theorem KnownR.keyChangeStep (ca : Bool) (e : EpName) (old : KeyId) (u : Url) :
    MSat (KnownR e) (keyChangeStep ca e old u) := by
  rw [keyChangeStep_nf]; kw [KnownR.saveAccount e, KnownR.registerAccount e, KnownR.checkNewKey e]
theorem KnownR.keyChangeChecked (e : EpName) (old : KeyId) (u : Url) :
    MSat (KnownR e) (keyChangeChecked e old u) := by
  unfold AccountMulti.keyChangeChecked
  kw [KnownR.keyChangeStep _ e, KnownR.checkNewKey e]
theorem KnownR.updateAccountKey (v : Variant) (e : EpName) :
    MSat (KnownR e) (updateAccountKey v e) := by
  unfold AccountMulti.updateAccountKey
  kw [KnownR.keyChangeStep _ e, KnownR.keyChangeChecked e]
theorem KnownR.synchronize (v : Variant) (e : EpName) : MSat (KnownR e) (synchronize v e) := by
  unfold AccountMulti.synchronize
  kw [KnownR.registerAccount e, KnownR.updateAccountContacts e, KnownR.updateAccountKey v e]
end KnownWalk

/-! #### Two runs side by side (non-interference) -/

/-- From two states related by `Q`, `m` gives the same outcome (and value) and related states. -/
structure NI2 (Q : MWorld → MWorld → Prop) (m : MM α) : Prop where
  run : ∀ s1 s2, Q s1 s2 → (m s1).1 = (m s2).1 ∧ Q (m s1).2 (m s2).2

theorem NI2.pure {Q} (a : α) : NI2 Q (pure a : MM α) := ⟨fun _ _ h => ⟨rfl, h⟩⟩

theorem NI2.failAt {Q} (st : Step) : NI2 Q (failAt st : MM α) := ⟨fun _ _ h => ⟨rfl, h⟩⟩

theorem NI2.bind {Q} {m : MM α} {f : α → MM β} (hm : NI2 Q m) (hf : ∀ a, NI2 Q (f a)) :
    NI2 Q (m >>= f) := by
  constructor
  intro s1 s2 hq
  obtain ⟨ho, hq'⟩ := hm.run s1 s2 hq
  rw [bind_run, bind_run]
  rcases h1 : m s1 with ⟨o1, t1⟩
  rcases h2 : m s2 with ⟨o2, t2⟩
  rw [h1, h2] at ho hq'
  simp only at ho hq'
  subst ho
  cases o1 with
  | val a => exact (hf a).run t1 t2 hq'
  | fail st => exact ⟨rfl, hq'⟩
  | unknownEndpoint => exact ⟨rfl, hq'⟩
  | stuck => exact ⟨rfl, hq'⟩

/-- `G` does not look at the ghost: the visible part of its result depends on the visible part of
its argument only. -/
def Obliv (G : Shared → EpRec → EpRec) : Prop :=
  ∀ sh r r', r.stored = r'.stored → (G sh r).stored = (G sh r').stored

theorem stored_fields {r r' : EpRec} (h : r.stored = r'.stored) :
    r.creation = r'.creation ∧ r.accountUrl = r'.accountUrl ∧ r.ordersUrl = r'.ordersUrl ∧
    r.keyHash = r'.keyHash ∧ r.contactsHash = r'.contactsHash ∧ r.eabHash = r'.eabHash :=
  by
  unfold EpRec.stored at h
  injection h with a b c d e f
  exact ⟨a, b, c, d, e, f⟩

theorem Obliv.regUpd (loc : Url) (o : Option Url) (ex : Bool) :
    Obliv fun sh => regUpd sh loc o ex := by
  intro sh r r' h
  obtain ⟨h1, _, _, _, _, h6⟩ := stored_fields h
  simp [AccountMulti.regUpd, EpRec.stored, h1, h6]

theorem Obliv.keyUpd : Obliv keyUpd := by
  intro sh r r' h
  obtain ⟨h1, h2, h3, _, h5, h6⟩ := stored_fields h
  simp [AccountMulti.keyUpd, EpRec.stored, h1, h2, h3, h5, h6]

theorem Obliv.contactsUpd : Obliv contactsUpd := by
  intro sh r r' h
  obtain ⟨h1, h2, h3, h4, _, h6⟩ := stored_fields h
  simp [AccountMulti.contactsUpd, EpRec.stored, h1, h2, h3, h4, h6]

/-- What a relation between two states must satisfy for `synchronize … e` to respect it. -/
structure QPrims (Q : MWorld → MWorld → Prop) (e : EpName) : Prop where
  shared : NI2 Q getShared
  getE : NI2 Q (getEndpointM e)
  exch : ∀ ep k tg sg kid, NI2 Q (exchange ep k tg sg kid)
  hooks : ∀ ty, NI2 Q (hookGroup ty)
  write : NI2 Q writeAccount
  modEp : ∀ G, Obliv G → NI2 Q (modEpM e G)

syntax "nwalk " "[" term,* "]" term : tactic
macro_rules
  | `(tactic| nwalk [$ts,*] $H) =>
    `(tactic| repeat' (first
        | intro _
        $[| exact $ts]*
        | exact NI2.pure _
        | exact NI2.failAt _
        | exact QPrims.shared $H
        | exact QPrims.getE $H
        | exact QPrims.exch $H _ _ _ _ _
        | exact QPrims.hooks $H _
        | exact QPrims.write $H
        | exact QPrims.modEp $H _ (Obliv.regUpd _ _ _)
        | exact QPrims.modEp $H _ Obliv.keyUpd
        | exact QPrims.modEp $H _ Obliv.contactsUpd
        | apply NI2.bind
        | split))

section NIWalk
variable {Q : MWorld → MWorld → Prop} {e : EpName} (H : QPrims Q e)
include H

theorem NI2.saveAccount : NI2 Q saveAccount := by
  unfold AccountMulti.saveAccount; nwalk [] H
theorem NI2.registerAccount : NI2 Q (registerAccount e) := by
  rw [registerAccount_nf]; nwalk [NI2.saveAccount H] H
theorem NI2.updateAccountContacts : NI2 Q (updateAccountContacts e) := by
  rw [updateAccountContacts_nf]; nwalk [NI2.saveAccount H, NI2.registerAccount H] H
theorem NI2.checkNewKey (u : Url) : NI2 Q (checkNewKey e u) := by
  rw [checkNewKey_nf]; nwalk [NI2.saveAccount H] H
theorem NI2.keyChangeStep (ca : Bool) (old : KeyId) (u : Url) :
    NI2 Q (keyChangeStep ca e old u) := by
  rw [keyChangeStep_nf]; nwalk [NI2.saveAccount H, NI2.registerAccount H, NI2.checkNewKey H _] H
theorem NI2.keyChangeChecked (old : KeyId) (u : Url) : NI2 Q (keyChangeChecked e old u) := by
  unfold AccountMulti.keyChangeChecked
  nwalk [NI2.keyChangeStep H _ _ _, NI2.checkNewKey H _] H
theorem NI2.updateAccountKey (v : Variant) : NI2 Q (updateAccountKey v e) := by
  unfold AccountMulti.updateAccountKey
  nwalk [NI2.keyChangeStep H _ _ _, NI2.keyChangeChecked H _ _] H
theorem NI2.synchronize (v : Variant) : NI2 Q (synchronize v e) := by
  unfold AccountMulti.synchronize
  nwalk [NI2.registerAccount H, NI2.updateAccountContacts H, NI2.updateAccountKey H v] H
end NIWalk

/-- (c) Two states that differ only in the records of endpoints other than `e` (and in what is on
disk). -/
def RelE (e : EpName) (s1 s2 : MWorld) : Prop :=
  s1.exs = s2.exs ∧ s1.hks = s2.hks ∧ s1.log = s2.log ∧ s1.acct.shared = s2.acct.shared ∧
  s1.acct.getEndpoint e = s2.acct.getEndpoint e

theorem RelE.prims (e : EpName) : QPrims (RelE e) e where
  shared := ⟨fun s1 s2 h => ⟨by simp [getShared, h.2.2.2.1], h⟩⟩
  getE := by
    constructor
    intro s1 s2 h
    unfold getEndpointM
    rw [h.2.2.2.2]
    cases s2.acct.getEndpoint e <;> exact ⟨rfl, h⟩
  exch := by
    intro ep k tg sg kid
    constructor
    intro s1 s2 h
    obtain ⟨h1, h2, h3, h4, h5⟩ := h
    rw [exchange_run, exchange_run, h1]
    cases s2.exs with
    | nil => exact ⟨rfl, h1, h2, h3, h4, h5⟩
    | cons r rest =>
      refine ⟨rfl, rfl, h2, by simp [MWorld.afterExch, h3], h4, ?_⟩
      simp only [MWorld.afterExch, Account.withEndpoints, Account.getEndpoint, h4]
      unfold Account.getEndpoint at h5
      by_cases he : e = ep
      · subst he
        rw [lookupEp_modFirst_same, lookupEp_modFirst_same, h5]
      · rw [lookupEp_modFirst_other he, lookupEp_modFirst_other he, h5]
  hooks := by
    intro ty
    constructor
    intro s1 s2 h
    obtain ⟨h1, h2, h3, h4, h5⟩ := h
    unfold hookGroup
    rw [h2]
    cases s2.hks with
    | nil => exact ⟨rfl, h1, h2, h3, h4, h5⟩
    | cons r rest => exact ⟨rfl, h1, rfl, by simp [h3], h4, h5⟩
  write := by
    constructor
    intro s1 s2 h
    obtain ⟨h1, h2, h3, h4, h5⟩ := h
    exact ⟨rfl, h1, h2, by simp [writeAccount, h3], h4, h5⟩
  modEp := by
    intro G _
    constructor
    intro s1 s2 h
    obtain ⟨h1, h2, h3, h4, h5⟩ := h
    rw [modEpM_run, modEpM_run, h5, h4]
    rcases hl : s2.acct.getEndpoint e with _ | r
    · rw [hl] at h5
      exact ⟨rfl, h1, h2, h3, h4, by rw [h5, hl]⟩
    · refine ⟨rfl, h1, h2, h3, h4, ?_⟩
      rw [hl] at h5
      unfold Account.getEndpoint at h5 hl ⊢
      simp only [lookupEp_modFirst_same, h5, hl]

/-- Two states that differ only in the ghost (and in what is on disk). -/
def scrub (p : EpName × EpRec) : EpName × EpRec := (p.1, p.2.stored)

def RelG (s1 s2 : MWorld) : Prop :=
  s1.exs = s2.exs ∧ s1.hks = s2.hks ∧ s1.log = s2.log ∧ s1.acct.shared = s2.acct.shared ∧
  s1.acct.endpoints.map scrub = s2.acct.endpoints.map scrub

theorem lookup_scrub (e : EpName) : ∀ (l1 l2 : List (EpName × EpRec)),
    l1.map scrub = l2.map scrub →
    (lookupEp e l1).map EpRec.stored = (lookupEp e l2).map EpRec.stored := by
  intro l1
  induction l1 with
  | nil =>
    intro l2 h
    cases l2 with
    | nil => rfl
    | cons p t => simp at h
  | cons p1 t1 ih =>
    intro l2 h
    cases l2 with
    | nil => simp at h
    | cons p2 t2 =>
      obtain ⟨n1, r1⟩ := p1
      obtain ⟨n2, r2⟩ := p2
      simp only [List.map_cons, List.cons.injEq, scrub, Prod.mk.injEq] at h
      obtain ⟨⟨hn, hr⟩, ht⟩ := h
      subst hn
      by_cases hne : (n1 == e) = true
      · simp [lookupEp, hne, hr]
      · simp only [lookupEp, hne, Bool.false_eq_true, if_false]
        exact ih t2 ht

theorem modFirst_scrub (e : EpName) (g : EpRec → EpRec)
    (hg : ∀ r r', r.stored = r'.stored → (g r).stored = (g r').stored) :
    ∀ (l1 l2 : List (EpName × EpRec)), l1.map scrub = l2.map scrub →
    (modFirst e g l1).map scrub = (modFirst e g l2).map scrub := by
  intro l1
  induction l1 with
  | nil =>
    intro l2 h
    cases l2 with
    | nil => rfl
    | cons p t => simp at h
  | cons p1 t1 ih =>
    intro l2 h
    cases l2 with
    | nil => simp at h
    | cons p2 t2 =>
      obtain ⟨n1, r1⟩ := p1
      obtain ⟨n2, r2⟩ := p2
      simp only [List.map_cons, List.cons.injEq, scrub, Prod.mk.injEq] at h
      obtain ⟨⟨hn, hr⟩, ht⟩ := h
      subst hn
      by_cases hne : (n1 == e) = true
      · simp [modFirst, hne, scrub, hg r1 r2 hr, ht]
      · simp [modFirst, hne, scrub, hr, ih t2 ht]

theorem RelG.prims (e : EpName) : QPrims RelG e where
  shared := ⟨fun s1 s2 h => ⟨by simp [getShared, h.2.2.2.1], h⟩⟩
  getE := by
    constructor
    intro s1 s2 h
    have hl := lookup_scrub e _ _ h.2.2.2.2
    unfold getEndpointM Account.getEndpoint
    rcases h1 : lookupEp e s1.acct.endpoints with _ | r1 <;>
      rcases h2 : lookupEp e s2.acct.endpoints with _ | r2 <;>
      rw [h1, h2] at hl <;> simp at hl
    · exact ⟨rfl, h⟩
    · exact ⟨by simp [hl], h⟩
  exch := by
    intro ep k tg sg kid
    constructor
    intro s1 s2 h
    obtain ⟨h1, h2, h3, h4, h5⟩ := h
    rw [exchange_run, exchange_run, h1]
    cases s2.exs with
    | nil => exact ⟨rfl, h1, h2, h3, h4, h5⟩
    | cons r rest =>
      refine ⟨rfl, rfl, h2, by simp [MWorld.afterExch, h3], h4, ?_⟩
      simp only [MWorld.afterExch, Account.withEndpoints, h4]
      refine modFirst_scrub ep _ ?_ _ _ h5
      intro r1 r2 hr
      obtain ⟨g1, g2, g3, g4, g5, g6⟩ := stored_fields hr
      cases r with
      | lost =>
        by_cases hk1 : k = .keyChange
        · subst hk1; simp [exchUpd, lostUpd, EpRec.stored, g1, g2, g3, g4, g5, g6]
        · by_cases hk2 : k = .accountUpdate
          · subst hk2; simp [exchUpd, lostUpd, EpRec.stored, g1, g2, g3, g4, g5, g6]
          · simp only [exchUpd, lostUpd_id hk1 hk2]; exact hr
      | _ => exact hr
  hooks := by
    intro ty
    constructor
    intro s1 s2 h
    obtain ⟨h1, h2, h3, h4, h5⟩ := h
    unfold hookGroup
    rw [h2]
    cases s2.hks with
    | nil => exact ⟨rfl, h1, h2, h3, h4, h5⟩
    | cons r rest => exact ⟨rfl, h1, rfl, by simp [h3], h4, h5⟩
  write := by
    constructor
    intro s1 s2 h
    obtain ⟨h1, h2, h3, h4, h5⟩ := h
    exact ⟨rfl, h1, h2, by simp [writeAccount, h3], h4, h5⟩
  modEp := by
    intro G hG
    constructor
    intro s1 s2 h
    obtain ⟨h1, h2, h3, h4, h5⟩ := h
    have hl := lookup_scrub e _ _ h5
    rw [modEpM_run, modEpM_run]
    unfold Account.getEndpoint
    rcases g1 : lookupEp e s1.acct.endpoints with _ | r1 <;>
      rcases g2 : lookupEp e s2.acct.endpoints with _ | r2 <;>
      rw [g1, g2] at hl <;> simp at hl
    · exact ⟨rfl, h1, h2, h3, h4, h5⟩
    · refine ⟨rfl, h1, h2, h3, h4, ?_⟩
      simp only
      rw [h4]
      exact modFirst_scrub e _ (hG _) _ _ h5

/-! ### 4. Run equations -/

def MWorld.afterReq (s : MWorld) (ev : MEv) (rest : List Ans) : MWorld :=
  { s with exs := rest, log := s.log ++ [ev] }

def MWorld.setEp (s : MWorld) (e : EpName) (g : EpRec → EpRec) : MWorld :=
  { s with acct := { s.acct with endpoints := modFirst e g s.acct.endpoints } }

theorem setEp_id (s : MWorld) (e : EpName) : s.setEp e (fun r => r) = s := by
  unfold MWorld.setEp
  rw [modFirst_id]

theorem exchUpd_ne_lost {k : ReqKind} {a : Ans} (h : a ≠ .lost) (sh : Shared) :
    exchUpd k a sh = fun r => r := by
  cases a <;> first | rfl | exact absurd rfl h

/-- `exchange` in terms of `afterReq` / `setEp`. -/
theorem exchange_run2 (ep : EpName) (k : ReqKind) (tg : Target) (sg : KeyId) (kid : Url)
    (s : MWorld) :
    exchange ep k tg sg kid s = match s.exs with
      | [] => (.stuck, s)
      | a :: rest => (.val a,
          (s.afterReq (.req ep k tg sg kid a) rest).setEp ep (exchUpd k a s.acct.shared)) := by
  rw [exchange_run]
  rcases s.exs with _ | ⟨a, rest⟩ <;> rfl

/-- After an exchange whose answer is not `lost` (or whose kind has no ghost effect) the account is
the one before. -/
theorem afterReq_setEp_id {s : MWorld} {ev : MEv} {rest : List Ans} {e : EpName} {k : ReqKind}
    {a : Ans} (h : a ≠ .lost ∨ (k ≠ .keyChange ∧ k ≠ .accountUpdate)) :
    (s.afterReq ev rest).setEp e (exchUpd k a s.acct.shared) = s.afterReq ev rest := by
  have : exchUpd k a s.acct.shared = fun r => r := by
    rcases h with h | ⟨h1, h2⟩
    · exact exchUpd_ne_lost h _
    · cases a with
      | lost => exact lostUpd_id h1 h2 _
      | _ => rfl
  rw [this, setEp_id]

theorem saveAccount_run (s : MWorld) : saveAccount s = match s.hks with
    | [] => (.stuck, s)
    | false :: rest =>
      (.fail .saveAccount, { s with hks := rest, log := s.log ++ [.hooks .filePre false] })
    | true :: rest =>
      match rest with
      | [] => (.stuck, { s with hks := [], log := s.log ++ [.hooks .filePre true] ++ [.saveAccount],
                                disk := some s.acct })
      | b :: rest' => (if b then .val () else .fail .saveAccount,
          { s with hks := rest', disk := some s.acct,
                   log := s.log ++ [.hooks .filePre true] ++ [.saveAccount] ++ [.hooks .filePost b] }) := by
  unfold saveAccount
  simp only [bind_run, hookGroup]
  rcases s.hks with _ | ⟨b, _ | ⟨b2, rest⟩⟩
  · rfl
  · cases b <;> rfl
  · cases b <;> cases b2 <;> rfl

theorem modEpM_known {e : EpName} {s : MWorld} {r0 : EpRec} (hk : s.acct.getEndpoint e = some r0)
    (G : Shared → EpRec → EpRec) : modEpM e G s = (.val (), s.setEp e (G s.acct.shared)) := by
  rw [modEpM_run, hk]; rfl

theorem afterReq_known {e : EpName} {s : MWorld} {r0 : EpRec} (hk : s.acct.getEndpoint e = some r0)
    (ev : MEv) (rest : List Ans) : (s.afterReq ev rest).acct.getEndpoint e = some r0 := hk

theorem registerAccount_run (e : EpName) (s : MWorld) (r0 : EpRec)
    (hk : s.acct.getEndpoint e = some r0) :
    registerAccount e s = match s.exs with
      | [] => (.stuck, s)
      | a :: rest =>
        match a with
        | .account ⟨some loc, o, ex⟩ =>
          saveAccount ((s.afterReq (.req e .newAccount (.dirNewAccount e) s.acct.shared.currentKey 0 a)
            rest).setEp e (regUpd s.acct.shared loc o ex))
        | _ => (.fail .register,
            s.afterReq (.req e .newAccount (.dirNewAccount e) s.acct.shared.currentKey 0 a) rest) := by
  rw [registerAccount_nf]
  simp only [bind_run, getShared, exchange_run2]
  rcases s.exs with _ | ⟨a, rest⟩
  · rfl
  · simp only
    rw [afterReq_setEp_id (.inr ⟨by simp, by simp⟩)]
    split
    · rename_i loc o ex
      rw [bind_run, modEpM_known (afterReq_known hk _ _)]
      rfl
    · rfl

theorem getEndpointM_known {e : EpName} {s : MWorld} {r0 : EpRec}
    (hk : s.acct.getEndpoint e = some r0) : getEndpointM e s = (.val r0.stored, s) := by
  unfold getEndpointM; rw [hk]

theorem updateAccountContacts_run (e : EpName) (s : MWorld) (r0 : EpRec)
    (hk : s.acct.getEndpoint e = some r0) :
    updateAccountContacts e s = match s.exs with
      | [] => (.stuck, s)
      | a :: rest =>
        match a with
        | .account _ | .okOther =>
          saveAccount ((s.afterReq (.req e .accountUpdate (.url r0.accountUrl)
            s.acct.shared.currentKey r0.accountUrl a) rest).setEp e (contactsUpd s.acct.shared))
        | .acmeErr .accountDoesNotExist =>
          registerAccount e (s.afterReq (.req e .accountUpdate (.url r0.accountUrl)
            s.acct.shared.currentKey r0.accountUrl a) rest)
        | .lost => (.fail .accountUpdate, (s.afterReq (.req e .accountUpdate (.url r0.accountUrl)
            s.acct.shared.currentKey r0.accountUrl a) rest).setEp e
              (lostUpd .accountUpdate s.acct.shared))
        | _ => (.fail .accountUpdate, s.afterReq (.req e .accountUpdate (.url r0.accountUrl)
            s.acct.shared.currentKey r0.accountUrl a) rest) := by
  rw [updateAccountContacts_nf]
  simp only [bind_run, getShared, getEndpointM_known hk, exchange_run2]
  rcases s.exs with _ | ⟨a, rest⟩
  · rfl
  · have hst : r0.stored.accountUrl = r0.accountUrl := rfl
    simp only [hst]
    cases a with
    | lost => rfl
    | account x =>
      rw [afterReq_setEp_id (.inl (by simp))]
      simp only
      rw [bind_run, modEpM_known (afterReq_known hk _ _)]; rfl
    | okOther =>
      rw [afterReq_setEp_id (.inl (by simp))]
      simp only
      rw [bind_run, modEpM_known (afterReq_known hk _ _)]; rfl
    | acmeErr ty =>
      rw [afterReq_setEp_id (.inl (by simp))]
      cases ty <;> rfl
    | otherErr =>
      rw [afterReq_setEp_id (.inl (by simp))]
      rfl

theorem checkNewKey_run (e : EpName) (u : Url) (s : MWorld) (r0 : EpRec)
    (hk : s.acct.getEndpoint e = some r0) :
    checkNewKey e u s = match s.exs with
      | [] => (.stuck, s)
      | a :: rest =>
        match a with
        | .account _ | .okOther =>
          saveAccount ((s.afterReq (.req e .accountProbe (.url u) s.acct.shared.currentKey u a)
            rest).setEp e (keyUpd s.acct.shared))
        | _ => (.fail .keyChange,
            s.afterReq (.req e .accountProbe (.url u) s.acct.shared.currentKey u a) rest) := by
  rw [checkNewKey_nf]
  simp only [bind_run, getShared, exchange_run2]
  rcases s.exs with _ | ⟨a, rest⟩
  · rfl
  · simp only
    rw [afterReq_setEp_id (.inr ⟨by simp, by simp⟩)]
    cases a with
    | account x => simp only; rw [bind_run, modEpM_known (afterReq_known hk _ _)]; rfl
    | okOther => simp only; rw [bind_run, modEpM_known (afterReq_known hk _ _)]; rfl
    | _ => rfl

theorem keyChangeStep_run (ca : Bool) (e : EpName) (old : KeyId) (u : Url) (s : MWorld) (r0 : EpRec)
    (hk : s.acct.getEndpoint e = some r0) :
    keyChangeStep ca e old u s = match s.exs with
      | [] => (.stuck, s)
      | a :: rest =>
        match a with
        | .account _ | .okOther =>
          saveAccount ((s.afterReq (.req e .keyChange (.dirKeyChange e) old u a)
            rest).setEp e (keyUpd s.acct.shared))
        | .acmeErr .accountDoesNotExist =>
          registerAccount e (s.afterReq (.req e .keyChange (.dirKeyChange e) old u a) rest)
        | .acmeErr _ =>
          if ca = true then
            checkNewKey e u (s.afterReq (.req e .keyChange (.dirKeyChange e) old u a) rest)
          else (.fail .keyChange, s.afterReq (.req e .keyChange (.dirKeyChange e) old u a) rest)
        | .lost => (.fail .keyChange, (s.afterReq (.req e .keyChange (.dirKeyChange e) old u a)
            rest).setEp e (lostUpd .keyChange s.acct.shared))
        | .otherErr =>
          (.fail .keyChange, s.afterReq (.req e .keyChange (.dirKeyChange e) old u a) rest) := by
  rw [keyChangeStep_nf]
  simp only [bind_run, exchange_run2]
  rcases s.exs with _ | ⟨a, rest⟩
  · rfl
  · simp only
    cases a with
    | lost => rfl
    | account x =>
      rw [afterReq_setEp_id (.inl (by simp))]
      simp only
      rw [bind_run, modEpM_known (afterReq_known hk _ _)]; rfl
    | okOther =>
      rw [afterReq_setEp_id (.inl (by simp))]
      simp only
      rw [bind_run, modEpM_known (afterReq_known hk _ _)]; rfl
    | acmeErr ty =>
      rw [afterReq_setEp_id (.inl (by simp))]
      cases ty <;> cases ca <;> rfl
    | otherErr =>
      rw [afterReq_setEp_id (.inl (by simp))]
      rfl

theorem keyChangeChecked_run (e : EpName) (old : KeyId) (u : Url) (s : MWorld) :
    keyChangeChecked e old u s = match s.exs with
      | [] => (.stuck, s)
      | a :: rest =>
        match a with
        | .account _ | .okOther =>
          keyChangeStep false e old u (s.afterReq (.req e .accountProbe (.url u) old u a) rest)
        | .acmeErr .accountDoesNotExist =>
          keyChangeStep false e old u (s.afterReq (.req e .accountProbe (.url u) old u a) rest)
        | .acmeErr .sigRefused =>
          checkNewKey e u (s.afterReq (.req e .accountProbe (.url u) old u a) rest)
        | _ => (.fail .keyChange, s.afterReq (.req e .accountProbe (.url u) old u a) rest) := by
  unfold keyChangeChecked
  simp only [bind_run, exchange_run2]
  rcases s.exs with _ | ⟨a, rest⟩
  · rfl
  · simp only
    rw [afterReq_setEp_id (.inr ⟨by simp, by simp⟩)]
    cases a with
    | acmeErr ty => cases ty <;> rfl
    | _ => rfl

theorem updateAccountKey_run (v : Variant) (e : EpName) (s : MWorld) (r0 : EpRec)
    (hk : s.acct.getEndpoint e = some r0) :
    updateAccountKey v e s = match s.acct.shared.getPastKey r0.keyHash with
      | none => (.fail .pastKey, s)
      | some old =>
        match v.rolloverCheck with
        | .first => keyChangeChecked e old r0.accountUrl s
        | .afterRefusal => keyChangeStep true e old r0.accountUrl s
        | .none => keyChangeStep false e old r0.accountUrl s := by
  unfold updateAccountKey
  simp only [bind_run, getShared, getEndpointM_known hk]
  have hst : r0.stored.keyHash = r0.keyHash := rfl
  have hsu : r0.stored.accountUrl = r0.accountUrl := rfl
  rw [hst, hsu]
  rcases s.acct.shared.getPastKey r0.keyHash with _ | old
  · rfl
  · cases v.rolloverCheck <;> rfl

/-! ### 5. Refinement: the view of `synchronize v e` is `Flow.synchronize v` -/

/-- `Flow.Acc.pastKeyKnown` is an input flag of `Model/Flow.lean` that no step refreshes; it is
compared only where it is read (before the first step). -/
def forgetPk (a : Flow.Acc) : Flow.Acc := { a with pastKeyKnown := false }

theorem forgetPk_fields {a b : Flow.Acc} (h : forgetPk a = forgetPk b) :
    a.hasUrl = b.hasUrl ∧ a.contactsInSync = b.contactsInSync ∧ a.bindingInSync = b.bindingInSync ∧
    a.curKey = b.curKey ∧ a.recKey = b.recKey ∧ a.caKey = b.caKey ∧
    a.caContactsOk = b.caContactsOk := by
  unfold forgetPk at h
  injection h with h1 h2 h3 _ h5 h6 h7 h8
  exact ⟨h1, h2, h3, h5, h6, h7, h8⟩

/-- The state of `Model/Flow.lean` that corresponds to endpoint `e` of a state of this model. -/
structure SimR (e : EpName) (s : MWorld) (w : Flow.World) : Prop where
  ep : ∃ r, s.acct.getEndpoint e = some r ∧ forgetPk w.acc = forgetPk (viewAcc s.acct.shared r)
  exs : w.exs = s.exs.map Ans.abs
  hks : w.hks = s.hks
  trace : w.trace = s.log.map MEv.abs
  noEmpty : ∀ o ex, Ans.account ⟨some 0, o, ex⟩ ∉ s.exs

def SimOut (o : MOut Unit) (o' : Flow.Out Unit) : Prop :=
  o.tag.abs = o'.tag ∧ o.tag ≠ .unknownEndpoint

theorem flow_saveAccount_run (w : Flow.World) : Flow.saveAccount w = match w.hks with
    | [] => (.stuck, w)
    | false :: rest =>
      (.fail .saveAccount, { w with hks := rest, trace := w.trace ++ [.hooks .filePre false] })
    | true :: rest =>
      match rest with
      | [] => (.stuck, { w with hks := [],
                                trace := w.trace ++ [.hooks .filePre true] ++ [.saveAccount] })
      | b :: rest' => (if b then .val () else .fail .saveAccount,
          { w with hks := rest',
                   trace := w.trace ++ [.hooks .filePre true] ++ [.saveAccount] ++ [.hooks .filePost b] }) := by
  unfold Flow.saveAccount Flow.writeFileHooks
  simp only [Flow.bind_run, Flow.hookGroup]
  rcases w.hks with _ | ⟨b, _ | ⟨b2, rest⟩⟩
  · rfl
  · cases b <;> rfl
  · cases b <;> cases b2 <;> rfl

theorem saveAccount_sim {e : EpName} {s : MWorld} {w : Flow.World} (h : SimR e s w) :
    SimOut (saveAccount s).1 (Flow.saveAccount w).1 ∧
    SimR e (saveAccount s).2 (Flow.saveAccount w).2 := by
  rw [saveAccount_run, flow_saveAccount_run, h.hks]
  obtain ⟨hr, hx, hh, ht, hn⟩ := h
  rcases s.hks with _ | ⟨b, _ | ⟨b2, rest⟩⟩
  · exact ⟨⟨rfl, by simp⟩, ⟨hr, hx, hh, ht, hn⟩⟩
  · cases b
    · exact ⟨⟨rfl, by simp⟩, ⟨hr, hx, rfl, by simp [ht, MEv.abs], hn⟩⟩
    · exact ⟨⟨rfl, by simp⟩, ⟨hr, hx, rfl, by simp [ht, MEv.abs], hn⟩⟩
  · cases b
    · exact ⟨⟨rfl, by simp⟩, ⟨hr, hx, rfl, by simp [ht, MEv.abs], hn⟩⟩
    · cases b2
      · exact ⟨⟨rfl, by simp⟩, ⟨hr, hx, rfl, by simp [ht, MEv.abs], hn⟩⟩
      · exact ⟨⟨rfl, by simp⟩, ⟨hr, hx, rfl, by simp [ht, MEv.abs], hn⟩⟩

theorem view_regUpd {a : Flow.Acc} {sh : Shared} {r0 : EpRec} (loc : Url) (o : Option Url)
    (ex : Bool) (h : forgetPk a = forgetPk (viewAcc sh r0)) (hl : loc ≠ 0) :
    forgetPk (Flow.regAcc ex a) = forgetPk (viewAcc sh (regUpd sh loc o ex r0)) := by
  obtain ⟨h1, h2, h3, h4, h5, h6, h7⟩ := forgetPk_fields h
  simp only [viewAcc] at h1 h2 h3 h4 h5 h6 h7
  unfold forgetPk Flow.regAcc viewAcc regUpd bindingChanged
  simp only [Flow.Acc.mk.injEq, h4, true_and]
  refine ⟨by simp [hl], by simp, ?_, ?_⟩
  · cases sh.eab <;> simp
  · cases ex <;> simp [h7]

theorem view_keyUpd {a : Flow.Acc} {sh : Shared} {r0 : EpRec}
    (h : forgetPk a = forgetPk (viewAcc sh r0)) :
    forgetPk (Flow.keyAcc a) = forgetPk (viewAcc sh (keyUpd sh r0)) := by
  obtain ⟨h1, h2, h3, h4, h5, h6, h7⟩ := forgetPk_fields h
  simp only [viewAcc] at h1 h2 h3 h4 h5 h6 h7
  unfold forgetPk Flow.keyAcc viewAcc keyUpd bindingChanged
  simp only [Flow.Acc.mk.injEq, h1, h2, h4, h7, true_and, and_true]
  simpa [bindingChanged] using h3

theorem view_contactsUpd {a : Flow.Acc} {sh : Shared} {r0 : EpRec}
    (h : forgetPk a = forgetPk (viewAcc sh r0)) :
    forgetPk (Flow.contactsAcc a) = forgetPk (viewAcc sh (contactsUpd sh r0)) := by
  obtain ⟨h1, h2, h3, h4, h5, h6, h7⟩ := forgetPk_fields h
  simp only [viewAcc] at h1 h2 h3 h4 h5 h6 h7
  unfold forgetPk Flow.contactsAcc viewAcc contactsUpd bindingChanged
  simp only [Flow.Acc.mk.injEq, h1, h4, h5, h6, true_and]
  refine ⟨by simp, ?_, by simp⟩
  simpa [bindingChanged] using h3

theorem getEndpoint_setEp {e : EpName} {s : MWorld} {r0 : EpRec}
    (hk : s.acct.getEndpoint e = some r0) (g : EpRec → EpRec) :
    (s.setEp e g).acct.getEndpoint e = some (g r0) := by
  unfold Account.getEndpoint at hk ⊢
  simp [MWorld.setEp, lookupEp_modFirst_same, hk]

/-- The state after one exchange, on both sides. -/
theorem SimR.afterReq {e : EpName} {s : MWorld} {w : Flow.World} (h : SimR e s w)
    {a : Ans} {rest : List Ans} (hx : s.exs = a :: rest) (k : ReqKind) (hk : k ≠ .directory)
    (tg : Target) (sg : KeyId) (kid : Url) :
    SimR e (s.afterReq (.req e k tg sg kid a) rest) (w.afterExch k sg a.abs (rest.map Ans.abs)) := by
  obtain ⟨hr, _, hh, ht, hn⟩ := h
  refine ⟨hr, rfl, hh, ?_, ?_⟩
  · simp only [Flow.World.afterExch, MWorld.afterReq, ht, List.map_append, List.map_cons,
      List.map_nil, MEv.abs]
    cases k <;> first | rfl | exact absurd rfl hk
  · intro o ex hm
    exact hn o ex (by rw [hx]; exact List.mem_cons_of_mem _ hm)

theorem registerAccount_sim {e : EpName} {s : MWorld} {w : Flow.World} (h : SimR e s w) :
    SimOut (registerAccount e s).1 (Flow.register w).1 ∧
    SimR e (registerAccount e s).2 (Flow.register w).2 := by
  obtain ⟨r0, hk, hacc⟩ := h.ep
  have hcur : w.acc.curKey = s.acct.shared.currentKey := (forgetPk_fields hacc).2.2.2.1
  rw [registerAccount_run e s r0 hk, Flow.register_run, h.exs]
  rcases hx : s.exs with _ | ⟨a, rest⟩
  · exact ⟨⟨rfl, by simp⟩, h⟩
  · have hs := h.afterReq hx .newAccount (by simp) (.dirNewAccount e) s.acct.shared.currentKey 0
    rw [← hcur] at hs
    simp only [List.map_cons]
    rcases a with ⟨_ | loc, o, ex⟩ | _ | ty | _ | _
    · exact ⟨⟨rfl, by simp⟩, by rw [hcur] at hs ⊢; exact hs⟩
    · have hl : loc ≠ 0 := by
        rintro rfl
        exact h.noEmpty o ex (by rw [hx]; exact List.mem_cons_self)
      simp only [Ans.abs, Option.isSome_some]
      apply saveAccount_sim
      obtain ⟨_, hx', hh', ht', hn'⟩ := hs
      refine ⟨⟨_, getEndpoint_setEp (s := s.afterReq _ rest) hk _, ?_⟩, hx', hh', ?_, hn'⟩
      · exact view_regUpd loc o ex hacc hl
      · rw [hcur] at ht' ⊢; exact ht'
    · exact ⟨⟨rfl, by simp⟩, by rw [hcur] at hs ⊢; exact hs⟩
    · exact ⟨⟨rfl, by simp⟩, by rw [hcur] at hs ⊢; exact hs⟩
    · exact ⟨⟨rfl, by simp⟩, by rw [hcur] at hs ⊢; exact hs⟩
    · exact ⟨⟨rfl, by simp⟩, by rw [hcur] at hs ⊢; exact hs⟩

theorem view_keyLost {a : Flow.Acc} {sh : Shared} {r0 : EpRec}
    (h : forgetPk a = forgetPk (viewAcc sh r0)) :
    forgetPk (Flow.keyLostAcc a) = forgetPk (viewAcc sh (lostUpd .keyChange sh r0)) := by
  obtain ⟨h1, h2, h3, h4, h5, h6, h7⟩ := forgetPk_fields h
  simp only [viewAcc] at h1 h2 h3 h4 h5 h6 h7
  unfold forgetPk Flow.keyLostAcc viewAcc lostUpd bindingChanged
  simp only [Flow.Acc.mk.injEq, h1, h2, h4, h5, h7, true_and, and_true]
  simpa [bindingChanged] using h3

theorem view_contactsLost {a : Flow.Acc} {sh : Shared} {r0 : EpRec}
    (h : forgetPk a = forgetPk (viewAcc sh r0)) :
    forgetPk (Flow.contactsLostAcc a) = forgetPk (viewAcc sh (lostUpd .accountUpdate sh r0)) := by
  obtain ⟨h1, h2, h3, h4, h5, h6, h7⟩ := forgetPk_fields h
  simp only [viewAcc] at h1 h2 h3 h4 h5 h6 h7
  unfold forgetPk Flow.contactsLostAcc viewAcc lostUpd bindingChanged
  simp only [Flow.Acc.mk.injEq, h1, h2, h4, h5, h6, true_and]
  refine ⟨?_, by simp⟩
  simpa [bindingChanged] using h3

/-- A ghost-only write on both sides. -/
theorem SimR.setGhost {e : EpName} {s : MWorld} {w : Flow.World} (h : SimR e s w) {r0 : EpRec}
    (hk : s.acct.getEndpoint e = some r0) (g : EpRec → EpRec) (f : Flow.Acc)
    (hv : forgetPk f = forgetPk (viewAcc s.acct.shared (g r0))) :
    SimR e (s.setEp e g) (w.withAcc f) := by
  obtain ⟨_, hx, hh, ht, hn⟩ := h
  exact ⟨⟨_, getEndpoint_setEp hk g, hv⟩, hx, hh, ht, hn⟩

theorem updateAccountContacts_sim {e : EpName} {s : MWorld} {w : Flow.World} (h : SimR e s w) :
    SimOut (updateAccountContacts e s).1 (Flow.updateContacts w).1 ∧
    SimR e (updateAccountContacts e s).2 (Flow.updateContacts w).2 := by
  obtain ⟨r0, hk, hacc⟩ := h.ep
  have hcur : w.acc.curKey = s.acct.shared.currentKey := (forgetPk_fields hacc).2.2.2.1
  rw [updateAccountContacts_run e s r0 hk, Flow.updateContacts_run, h.exs]
  rcases hx : s.exs with _ | ⟨a, rest⟩
  · exact ⟨⟨rfl, by simp⟩, h⟩
  · have hs := h.afterReq hx .accountUpdate (by simp) (.url r0.accountUrl)
      s.acct.shared.currentKey r0.accountUrl
    rw [← hcur] at hs
    simp only [List.map_cons]
    have hsave : ∀ b, a.abs = .ok b →
        SimOut (saveAccount ((s.afterReq (.req e .accountUpdate (.url r0.accountUrl)
          s.acct.shared.currentKey r0.accountUrl a) rest).setEp e (contactsUpd s.acct.shared))).1
          (Flow.saveAccount ((w.afterExch .accountUpdate w.acc.curKey a.abs
            (rest.map Ans.abs)).withAcc (Flow.contactsAcc w.acc))).1 ∧
        SimR e (saveAccount ((s.afterReq (.req e .accountUpdate (.url r0.accountUrl)
          s.acct.shared.currentKey r0.accountUrl a) rest).setEp e (contactsUpd s.acct.shared))).2
          (Flow.saveAccount ((w.afterExch .accountUpdate w.acc.curKey a.abs
            (rest.map Ans.abs)).withAcc (Flow.contactsAcc w.acc))).2 := by
      intro b _
      apply saveAccount_sim
      obtain ⟨_, hx', hh', ht', hn'⟩ := hs
      exact ⟨⟨_, getEndpoint_setEp (s := s.afterReq _ rest) hk _, view_contactsUpd hacc⟩,
        hx', hh', by rw [hcur] at ht' ⊢; exact ht', hn'⟩
    rcases a with acc | _ | ty | _ | _
    · exact hsave _ rfl
    · exact hsave _ rfl
    · cases ty
      · rw [hcur] at hs ⊢
        exact registerAccount_sim hs
      · exact ⟨⟨rfl, by simp⟩, by rw [hcur] at hs ⊢; exact hs⟩
      · exact ⟨⟨rfl, by simp⟩, by rw [hcur] at hs ⊢; exact hs⟩
    · exact ⟨⟨rfl, by simp⟩, by rw [hcur] at hs ⊢; exact hs⟩
    · refine ⟨⟨rfl, by simp⟩, ?_⟩
      rw [hcur] at hs ⊢
      exact hs.setGhost (afterReq_known hk _ _) _ _ (view_contactsLost hacc)

theorem getPastKey_some {sh : Shared} {h : Option KeyId} {old : KeyId}
    (hp : sh.getPastKey h = some old) : h = some old ∧ old ∈ sh.pastKeys := by
  unfold Shared.getPastKey at hp
  rcases h with _ | k
  · cases hp
  · simp only at hp
    have h1 := List.find?_some hp
    have h2 := List.mem_of_find?_eq_some hp
    have : old = k := by simpa using h1
    exact ⟨by rw [this], h2⟩

theorem checkNewKey_sim {e : EpName} {s : MWorld} {w : Flow.World} (h : SimR e s w) (u : Url) :
    SimOut (checkNewKey e u s).1 (Flow.checkNewKey w).1 ∧
    SimR e (checkNewKey e u s).2 (Flow.checkNewKey w).2 := by
  obtain ⟨r0, hk, hacc⟩ := h.ep
  have hcur : w.acc.curKey = s.acct.shared.currentKey := (forgetPk_fields hacc).2.2.2.1
  rw [checkNewKey_run e u s r0 hk, Flow.checkNewKey_run, h.exs]
  rcases hx : s.exs with _ | ⟨a, rest⟩
  · exact ⟨⟨rfl, by simp⟩, h⟩
  · have hs := h.afterReq hx .accountProbe (by simp) (.url u) s.acct.shared.currentKey u
    rw [← hcur] at hs
    simp only [List.map_cons]
    have hsave : ∀ b, a.abs = .ok b →
        SimOut (saveAccount ((s.afterReq (.req e .accountProbe (.url u)
          s.acct.shared.currentKey u a) rest).setEp e (keyUpd s.acct.shared))).1
          (Flow.saveAccount ((w.afterExch .accountProbe w.acc.curKey a.abs
            (rest.map Ans.abs)).withAcc (Flow.keyAcc w.acc))).1 ∧
        SimR e (saveAccount ((s.afterReq (.req e .accountProbe (.url u)
          s.acct.shared.currentKey u a) rest).setEp e (keyUpd s.acct.shared))).2
          (Flow.saveAccount ((w.afterExch .accountProbe w.acc.curKey a.abs
            (rest.map Ans.abs)).withAcc (Flow.keyAcc w.acc))).2 := by
      intro b _
      apply saveAccount_sim
      obtain ⟨_, hx', hh', ht', hn'⟩ := hs
      exact ⟨⟨_, getEndpoint_setEp (s := s.afterReq _ rest) hk _, view_keyUpd hacc⟩,
        hx', hh', by rw [hcur] at ht' ⊢; exact ht', hn'⟩
    rcases a with acc | _ | ty | _ | _
    · exact hsave _ rfl
    · exact hsave _ rfl
    · exact ⟨⟨rfl, by simp⟩, by rw [hcur] at hs ⊢; exact hs⟩
    · exact ⟨⟨rfl, by simp⟩, by rw [hcur] at hs ⊢; exact hs⟩
    · exact ⟨⟨rfl, by simp⟩, by rw [hcur] at hs ⊢; exact hs⟩

theorem keyChangeStep_sim {e : EpName} {s : MWorld} {w : Flow.World} (h : SimR e s w)
    (ca : Bool) (old : KeyId) (u : Url) (hold : w.acc.recKey = old) :
    SimOut (keyChangeStep ca e old u s).1 (Flow.keyChangeStep ca w).1 ∧
    SimR e (keyChangeStep ca e old u s).2 (Flow.keyChangeStep ca w).2 := by
  obtain ⟨r0, hk, hacc⟩ := h.ep
  rw [keyChangeStep_run ca e old u s r0 hk, Flow.keyChangeStep_run, h.exs, hold]
  rcases hx : s.exs with _ | ⟨a, rest⟩
  · exact ⟨⟨rfl, by simp⟩, h⟩
  · have hs := h.afterReq hx .keyChange (by simp) (.dirKeyChange e) old u
    simp only [List.map_cons]
    have hsave : ∀ b, a.abs = .ok b →
        SimOut (saveAccount ((s.afterReq (.req e .keyChange (.dirKeyChange e) old
          u a) rest).setEp e (keyUpd s.acct.shared))).1
          (Flow.saveAccount ((w.afterExch .keyChange old a.abs
            (rest.map Ans.abs)).withAcc (Flow.keyAcc w.acc))).1 ∧
        SimR e (saveAccount ((s.afterReq (.req e .keyChange (.dirKeyChange e) old
          u a) rest).setEp e (keyUpd s.acct.shared))).2
          (Flow.saveAccount ((w.afterExch .keyChange old a.abs
            (rest.map Ans.abs)).withAcc (Flow.keyAcc w.acc))).2 := by
      intro b _
      apply saveAccount_sim
      obtain ⟨_, hx', hh', ht', hn'⟩ := hs
      exact ⟨⟨_, getEndpoint_setEp (s := s.afterReq _ rest) hk _, view_keyUpd hacc⟩,
        hx', hh', ht', hn'⟩
    rcases a with acc | _ | ty | _ | _
    · exact hsave _ rfl
    · exact hsave _ rfl
    · cases ty
      · exact registerAccount_sim hs
      · cases ca
        · exact ⟨⟨rfl, by simp⟩, hs⟩
        · exact checkNewKey_sim hs u
      · cases ca
        · exact ⟨⟨rfl, by simp⟩, hs⟩
        · exact checkNewKey_sim hs u
    · exact ⟨⟨rfl, by simp⟩, hs⟩
    · exact ⟨⟨rfl, by simp⟩, hs.setGhost (afterReq_known hk _ _) _ _ (view_keyLost hacc)⟩

theorem keyChangeChecked_sim {e : EpName} {s : MWorld} {w : Flow.World} (h : SimR e s w)
    (old : KeyId) (u : Url) (hold : w.acc.recKey = old) :
    SimOut (keyChangeChecked e old u s).1 (Flow.keyChangeChecked w).1 ∧
    SimR e (keyChangeChecked e old u s).2 (Flow.keyChangeChecked w).2 := by
  rw [keyChangeChecked_run e old u s, Flow.keyChangeChecked_run, h.exs, hold]
  rcases hx : s.exs with _ | ⟨a, rest⟩
  · exact ⟨⟨rfl, by simp⟩, h⟩
  · have hs := h.afterReq hx .accountProbe (by simp) (.url u) old u
    simp only [List.map_cons]
    rcases a with acc | _ | ty | _ | _
    · exact keyChangeStep_sim hs false old u hold
    · exact keyChangeStep_sim hs false old u hold
    · cases ty
      · exact keyChangeStep_sim hs false old u hold
      · exact checkNewKey_sim hs u
      · exact ⟨⟨rfl, by simp⟩, hs⟩
    · exact ⟨⟨rfl, by simp⟩, hs⟩
    · exact ⟨⟨rfl, by simp⟩, hs⟩

theorem updateAccountKey_sim (v : Variant) {e : EpName} {s : MWorld} {w : Flow.World}
    (h : SimR e s w)
    (hpk : ∀ r, s.acct.getEndpoint e = some r →
      w.acc.pastKeyKnown = (s.acct.shared.getPastKey r.keyHash).isSome) :
    SimOut (updateAccountKey v e s).1 (Flow.updateKey v w).1 ∧
    SimR e (updateAccountKey v e s).2 (Flow.updateKey v w).2 := by
  obtain ⟨r0, hk, hacc⟩ := h.ep
  have hrec : w.acc.recKey = (viewAcc s.acct.shared r0).recKey := (forgetPk_fields hacc).2.2.2.2.1
  rw [updateAccountKey_run v e s r0 hk, Flow.updateKey_run, hpk r0 hk]
  rcases hp : s.acct.shared.getPastKey r0.keyHash with _ | old
  · exact ⟨⟨rfl, by simp⟩, h⟩
  · simp only [Option.isSome_some, if_true]
    have hold : w.acc.recKey = old := by
      rw [hrec]
      have := (getPastKey_some hp).1
      simp [viewAcc, this]
    cases v.rolloverCheck with
    | first => exact keyChangeChecked_sim h old r0.accountUrl hold
    | afterRefusal => exact keyChangeStep_sim h true old r0.accountUrl hold
    | none => exact keyChangeStep_sim h false old r0.accountUrl hold

theorem sim_bind {e : EpName} {m m' : MM Unit} {fm fm' : Flow.M Unit} {s : MWorld}
    {w : Flow.World} (h1 : SimOut (m s).1 (fm w).1 ∧ SimR e (m s).2 (fm w).2)
    (h2 : ∀ s1 w1, SimR e s1 w1 → SimOut (m' s1).1 (fm' w1).1 ∧ SimR e (m' s1).2 (fm' w1).2) :
    SimOut ((m >>= fun _ => m') s).1 ((fm >>= fun _ => fm') w).1 ∧
    SimR e ((m >>= fun _ => m') s).2 ((fm >>= fun _ => fm') w).2 := by
  rw [bind_run, Flow.bind_run]
  rcases hm : m s with ⟨o, s1⟩
  rcases hf : fm w with ⟨o', w1⟩
  rw [hm, hf] at h1
  obtain ⟨⟨ht, hne⟩, hr⟩ := h1
  cases o <;> cases o' <;> simp [Tag.abs] at ht hne
  · exact h2 s1 w1 hr
  · subst ht; exact ⟨⟨rfl, by simp⟩, hr⟩
  · exact ⟨⟨rfl, by simp⟩, hr⟩

theorem sim_pure {e : EpName} {s : MWorld} {w : Flow.World} (h : SimR e s w) :
    SimOut ((pure () : MM Unit) s).1 ((pure () : Flow.M Unit) w).1 ∧
    SimR e ((pure () : MM Unit) s).2 ((pure () : Flow.M Unit) w).2 :=
  ⟨⟨rfl, by simp [pure_run]⟩, h⟩

theorem view_keyInSync (sh : Shared) (r : EpRec) :
    (viewAcc sh r).keyInSync = !(r.keyHash != some sh.currentKey) := by
  unfold Flow.Acc.keyInSync viewAcc
  rcases r.keyHash with _ | k
  · simp [bne]
  · simp [bne]

theorem synchronize_run (v : Variant) (e : EpName) (s : MWorld) (r0 : EpRec)
    (hk : s.acct.getEndpoint e = some r0) :
    synchronize v e s =
      (if (r0.accountUrl != 0) = true then
        if bindingChanged s.acct.shared r0 = true then
          (registerAccount e >>= fun _ =>
            if (v.bindingThenContacts && ((r0.contactsHash != some s.acct.shared.contacts) &&
                !(r0.keyHash != some s.acct.shared.currentKey))) = true
            then updateAccountContacts e else pure ())
        else if v.keyFirst = true then
          ((if (r0.keyHash != some s.acct.shared.currentKey) = true then updateAccountKey v e
            else pure ()) >>= fun _ =>
           if (r0.contactsHash != some s.acct.shared.contacts) = true then updateAccountContacts e
           else pure ())
        else
          ((if (r0.contactsHash != some s.acct.shared.contacts) = true then updateAccountContacts e
            else pure ()) >>= fun _ =>
           if (r0.keyHash != some s.acct.shared.currentKey) = true then updateAccountKey v e
           else pure ())
      else registerAccount e) s := by
  unfold synchronize
  rw [bind_run]
  simp only [getShared]
  rw [bind_run, getEndpointM_known hk]
  rfl

theorem synchronize_sim (v : Variant) (hv : v.keyFirst = true) {e : EpName} {s : MWorld}
    {w : Flow.World} (h : SimR e s w)
    (hpk : ∀ r, s.acct.getEndpoint e = some r →
      w.acc.pastKeyKnown = (s.acct.shared.getPastKey r.keyHash).isSome) :
    SimOut (synchronize v e s).1 (Flow.synchronize v w).1 ∧
    SimR e (synchronize v e s).2 (Flow.synchronize v w).2 := by
  obtain ⟨r0, hk, hacc⟩ := h.ep
  obtain ⟨f1, f2, f3, f4, f5, f6, f7⟩ := forgetPk_fields hacc
  have hkis : w.acc.keyInSync = !(r0.keyHash != some s.acct.shared.currentKey) := by
    rw [← view_keyInSync]
    unfold Flow.Acc.keyInSync
    rw [f5, f4]
  have hu : w.acc.hasUrl = (r0.accountUrl != 0) := f1
  have hb : w.acc.bindingInSync = !bindingChanged s.acct.shared r0 := f3
  have hc : w.acc.contactsInSync = !(r0.contactsHash != some s.acct.shared.contacts) := by
    rw [f2]; simp [viewAcc, bne]
  rw [synchronize_run v e s r0 hk]
  by_cases c1 : (r0.accountUrl != 0) = true
  · rw [if_pos c1]
    rw [c1] at hu
    by_cases c2 : bindingChanged s.acct.shared r0 = true
    · rw [if_pos c2]
      rw [c2] at hb
      rw [Flow.sync_eq_binding v w hu (by simpa using hb), hc, hkis]
      apply sim_bind (registerAccount_sim h)
      intro s1 w1 h1
      simp only [Bool.not_not]
      split
      · exact updateAccountContacts_sim h1
      · exact sim_pure h1
    · rw [if_neg c2, if_pos hv]
      have c2' : bindingChanged s.acct.shared r0 = false := by simpa using c2
      rw [c2'] at hb
      rw [Flow.sync_eq_keyFirst v w hu (by simpa using hb) hv, hc, hkis]
      simp only [Bool.not_not]
      refine sim_bind ?_ ?_
      · split
        · exact updateAccountKey_sim v h hpk
        · exact sim_pure h
      · intro s1 w1 h1
        split
        · exact updateAccountContacts_sim h1
        · exact sim_pure h1
  · rw [if_neg c1]
    have c1' : (r0.accountUrl != 0) = false := by simpa using c1
    rw [c1'] at hu
    rw [Flow.sync_eq_noUrl v w hu]
    exact registerAccount_sim h

/-- The `Model/Flow.lean` world seen from endpoint `e` (record `r`); the fields the account
synchronisation does not use are fixed. -/
def viewWorld (s : MWorld) (r : EpRec) : Flow.World :=
  { exs := s.exs.map Ans.abs, hks := s.hks, scheds := [], files := ⟨none, none⟩, nextKey := 0,
    keyReadable := true, acc := viewAcc s.acct.shared r, trace := s.log.map MEv.abs }

theorem simR_view {e : EpName} {s : MWorld} {r : EpRec} (hk : s.acct.getEndpoint e = some r)
    (hn : ∀ o ex, Ans.account ⟨some 0, o, ex⟩ ∉ s.exs) : SimR e s (viewWorld s r) :=
  ⟨⟨r, hk, rfl⟩, rfl, rfl, rfl, hn⟩

/-! ### 6. Start-up and new endpoint names keep `HeldAll` -/

theorem Held.mono {sh sh' : Shared} {r : EpRec} (h : Held sh r)
    (hk : ∀ k, (k = sh.currentKey ∨ k ∈ sh.pastKeys) → (k = sh'.currentKey ∨ k ∈ sh'.pastKeys)) :
    Held sh' r := by
  intro hu
  obtain ⟨k, h1, h2, h3⟩ := h hu
  exact ⟨k, h1, h2, hk k h3⟩

theorem HeldAll.updateKeys {a : Account} (h : HeldAll a) (c : Bool) (fresh : KeyId) :
    HeldAll (a.updateKeys c fresh) := by
  cases c
  · exact h
  · intro e r hr
    have hr' : a.getEndpoint e = some r := hr
    refine (h e r hr').mono ?_
    intro k hk
    right
    show k ∈ a.shared.pastKeys ++ [a.shared.currentKey]
    rcases hk with rfl | hk
    · simp
    · simp [hk]

theorem HeldAll.load {a : Account} (h : HeldAll a) (contacts : Nat) (c : Bool) (fresh : KeyId)
    (eab : Option Nat) : HeldAll (a.load contacts c fresh eab) := by
  intro e r hr
  have h1 := h.updateKeys c fresh
  have hr' : (a.updateKeys c fresh).getEndpoint e = some r := hr
  exact (h1 e r hr').mono fun k hk => hk

theorem lookupEp_append (e' e : EpName) (r : EpRec) (l : List (EpName × EpRec)) :
    lookupEp e' (l ++ [(e, r)]) = match lookupEp e' l with
      | some x => some x
      | none => if e == e' then some r else none := by
  induction l with
  | nil => simp [lookupEp]
  | cons p rest ih =>
    obtain ⟨n, x⟩ := p
    by_cases h : (n == e') = true
    · simp [lookupEp, h]
    · simp [lookupEp, h, ih]

theorem HeldAll.addEndpointName {a : Account} (h : HeldAll a) (e : EpName) :
    HeldAll (a.addEndpointName e) := by
  unfold Account.addEndpointName
  rcases hl : a.getEndpoint e with _ | r0
  · intro e' r hr
    unfold Account.getEndpoint at hr
    simp only [lookupEp_append] at hr
    rcases hl' : lookupEp e' a.endpoints with _ | x
    · rw [hl'] at hr
      by_cases he : (e == e') = true
      · simp only [he, if_true, Option.some.injEq] at hr
        rw [← hr]
        intro hu
        exact absurd rfl hu
      · simp [he] at hr
    · rw [hl'] at hr
      simp only [Option.some.injEq] at hr
      rw [← hr]
      exact h e' x hl'
  · exact h

/-! ### 7. Where the roll-over request stands and who signs it -/

theorem log_of_bind {m m' : MM Unit} {s : MWorld} {es1 : List MEv} {P : MEv → Prop}
    (h1 : (m s).2.log = s.log ++ es1) (h2 : MSat (EvR P) m') :
    ∃ es2, ((m >>= fun _ => m') s).2.log = s.log ++ (es1 ++ es2) ∧ ∀ ev ∈ es2, P ev := by
  rcases bind_cases m (fun _ => m') s with ⟨a, s1, e1, e2⟩ | ⟨_, _, e3⟩
  · obtain ⟨es2, hl, hp⟩ := h2.run s1
    rw [e1] at h1
    exact ⟨es2, by rw [e2, hl, h1, List.append_assoc], hp⟩
  · exact ⟨[], by rw [e3, h1]; simp, by simp⟩

/-- Events of the roll-over request and what follows: nothing, or the keyChange request through `e`
to `e`'s `keyChange` URL, signed by `old`, `kid` = `u`, followed by no other keyChange request. -/
theorem keyChangeStep_shape (ca : Bool) (e : EpName) (old : KeyId) (u : Url) (s : MWorld)
    (r0 : EpRec) (hk : s.acct.getEndpoint e = some r0) :
    ∃ es, (keyChangeStep ca e old u s).2.log = s.log ++ es ∧
      (es = [] ∨ ∃ a rest, es = .req e .keyChange (.dirKeyChange e) old u a :: rest ∧
        ∀ ev ∈ rest, NotKeyChange ev) := by
  rw [keyChangeStep_run ca e old u s r0 hk]
  rcases s.exs with _ | ⟨a, rest⟩
  · exact ⟨[], by simp, .inl rfl⟩
  · simp only
    have key : ∀ (m : MM Unit) (s1 : MWorld), MSat (EvR NotKeyChange) m →
        s1.log = s.log ++ [.req e .keyChange (.dirKeyChange e) old u a] →
        ∃ es, (m s1).2.log = s.log ++ es ∧
          (es = [] ∨ ∃ a rest, es = .req e .keyChange (.dirKeyChange e) old u a :: rest ∧
            ∀ ev ∈ rest, NotKeyChange ev) := by
      intro m s1 hm1 hl
      obtain ⟨es, he, hp⟩ := hm1.run s1
      exact ⟨_ :: es, by rw [he, hl]; simp, .inr ⟨a, es, rfl, hp⟩⟩
    have one : ∀ s1 : MWorld, s1.log = s.log ++ [.req e .keyChange (.dirKeyChange e) old u a] →
        ∃ es, s1.log = s.log ++ es ∧
          (es = [] ∨ ∃ a rest, es = .req e .keyChange (.dirKeyChange e) old u a :: rest ∧
            ∀ ev ∈ rest, NotKeyChange ev) :=
      fun s1 hl => ⟨[_], hl, .inr ⟨a, [], rfl, by simp⟩⟩
    rcases a with acc | _ | ty | _ | _
    · exact key saveAccount _ NotKeyChange.saveAccount rfl
    · exact key saveAccount _ NotKeyChange.saveAccount rfl
    · cases ty
      · exact key (registerAccount e) _ (NotKeyChange.registerAccount e) rfl
      · cases ca
        · exact one _ rfl
        · exact key (checkNewKey e u) _ (NotKeyChange.checkNewKey e u) rfl
      · cases ca
        · exact one _ rfl
        · exact key (checkNewKey e u) _ (NotKeyChange.checkNewKey e u) rfl
    · exact one _ rfl
    · exact one _ rfl

/-- Events of `update_account_key`: no keyChange request at all, or exactly one — through `e` to
`e`'s `keyChange` URL, signed by the key whose fingerprint the record carries (a past key of the
account), `kid` = the recorded account URL — preceded by nothing, or (since 1fb1c1a) by the query of
the account signed by that same key (through `e`, to the recorded account URL, which is also its
`kid`), and followed by no other keyChange request. -/
theorem updateAccountKey_shape (v : Variant) (e : EpName) (s : MWorld) (r0 : EpRec)
    (hk : s.acct.getEndpoint e = some r0) :
    ∃ es, (updateAccountKey v e s).2.log = s.log ++ es ∧
      ((∀ ev ∈ es, NotKeyChange ev) ∨ ∃ old a pre rest, r0.keyHash = some old ∧
        old ∈ s.acct.shared.pastKeys ∧
        es = pre ++ .req e .keyChange (.dirKeyChange e) old r0.accountUrl a :: rest ∧
        (pre = [] ∨ ∃ p, pre = [.req e .accountProbe (.url r0.accountUrl) old r0.accountUrl p]) ∧
        ∀ ev ∈ rest, NotKeyChange ev) := by
  rw [updateAccountKey_run v e s r0 hk]
  rcases hp : s.acct.shared.getPastKey r0.keyHash with _ | old
  · exact ⟨[], by simp, .inl (by simp)⟩
  · obtain ⟨hh, hm⟩ := getPastKey_some hp
    have hstep : ∀ ca, ∃ es, (keyChangeStep ca e old r0.accountUrl s).2.log = s.log ++ es ∧
        ((∀ ev ∈ es, NotKeyChange ev) ∨ ∃ old a pre rest, r0.keyHash = some old ∧
          old ∈ s.acct.shared.pastKeys ∧
          es = pre ++ .req e .keyChange (.dirKeyChange e) old r0.accountUrl a :: rest ∧
          (pre = [] ∨ ∃ p, pre = [.req e .accountProbe (.url r0.accountUrl) old r0.accountUrl p]) ∧
          ∀ ev ∈ rest, NotKeyChange ev) := by
      intro ca
      obtain ⟨es, he, hs⟩ := keyChangeStep_shape ca e old r0.accountUrl s r0 hk
      refine ⟨es, he, ?_⟩
      rcases hs with rfl | ⟨a, rest, rfl, hr⟩
      · exact .inl (by simp)
      · exact .inr ⟨old, a, [], rest, hh, hm, rfl, .inl rfl, hr⟩
    simp only
    cases v.rolloverCheck with
    | afterRefusal => exact hstep true
    | none => exact hstep false
    | first =>
      simp only
      rw [keyChangeChecked_run]
      rcases s.exs with _ | ⟨p, rest0⟩
      · exact ⟨[], by simp, .inl (by simp)⟩
      · simp only
        have hk1 : (s.afterReq (.req e .accountProbe (.url r0.accountUrl) old r0.accountUrl p)
            rest0).acct.getEndpoint e = some r0 := hk
        have viaStep : ∃ es, (keyChangeStep false e old r0.accountUrl (s.afterReq
              (.req e .accountProbe (.url r0.accountUrl) old r0.accountUrl p) rest0)).2.log
              = s.log ++ es ∧
            ((∀ ev ∈ es, NotKeyChange ev) ∨ ∃ old a pre rest, r0.keyHash = some old ∧
              old ∈ s.acct.shared.pastKeys ∧
              es = pre ++ .req e .keyChange (.dirKeyChange e) old r0.accountUrl a :: rest ∧
              (pre = [] ∨ ∃ p, pre = [.req e .accountProbe (.url r0.accountUrl) old r0.accountUrl p]) ∧
              ∀ ev ∈ rest, NotKeyChange ev) := by
          obtain ⟨es, he, hs⟩ := keyChangeStep_shape false e old r0.accountUrl _ r0 hk1
          refine ⟨.req e .accountProbe (.url r0.accountUrl) old r0.accountUrl p :: es,
            by rw [he]; simp [MWorld.afterReq], ?_⟩
          rcases hs with rfl | ⟨a, rest, rfl, hr⟩
          · exact .inl (by simp [NotKeyChange])
          · exact .inr ⟨old, a, [_], rest, hh, hm, rfl, .inr ⟨p, rfl⟩, hr⟩
        have viaNew : ∃ es, (checkNewKey e r0.accountUrl (s.afterReq
              (.req e .accountProbe (.url r0.accountUrl) old r0.accountUrl p) rest0)).2.log
              = s.log ++ es ∧ ∀ ev ∈ es, NotKeyChange ev := by
          obtain ⟨es, he, hp⟩ := (NotKeyChange.checkNewKey e r0.accountUrl).run (s.afterReq
            (.req e .accountProbe (.url r0.accountUrl) old r0.accountUrl p) rest0)
          refine ⟨.req e .accountProbe (.url r0.accountUrl) old r0.accountUrl p :: es,
            by rw [he]; simp [MWorld.afterReq], ?_⟩
          intro ev hev
          rcases List.mem_cons.mp hev with rfl | h
          · simp [NotKeyChange]
          · exact hp ev h
        rcases p with acc | _ | ty | _ | _
        · exact viaStep
        · exact viaStep
        · cases ty
          · exact viaStep
          · obtain ⟨es, he, hp⟩ := viaNew
            exact ⟨es, he, .inl hp⟩
          · exact ⟨[_], rfl, .inl (by simp [NotKeyChange])⟩
        · exact ⟨[_], rfl, .inl (by simp [NotKeyChange])⟩
        · exact ⟨[_], rfl, .inl (by simp [NotKeyChange])⟩

theorem NotKeyChange.optContacts (e : EpName) (c : Bool) :
    MSat (EvR NotKeyChange) (if c = true then AccountMulti.updateAccountContacts e else pure ()) := by
  split
  · exact NotKeyChange.updateAccountContacts e
  · exact MSat.pure (EvR.law _) _

/-- Events of a whole synchronisation (current order of the updates): no keyChange request at all,
or exactly one, preceded at most by the query of the account signed by the same key, as in
`updateAccountKey_shape`. -/
theorem synchronize_shape (v : Variant) (hv : v.keyFirst = true) (e : EpName) (s : MWorld)
    (r0 : EpRec) (hk : s.acct.getEndpoint e = some r0) :
    ∃ es, (synchronize v e s).2.log = s.log ++ es ∧
      ((∀ ev ∈ es, NotKeyChange ev) ∨ ∃ old a pre rest, r0.keyHash = some old ∧
        old ∈ s.acct.shared.pastKeys ∧ old ≠ s.acct.shared.currentKey ∧ r0.accountUrl ≠ 0 ∧
        es = pre ++ .req e .keyChange (.dirKeyChange e) old r0.accountUrl a :: rest ∧
        (pre = [] ∨ ∃ p, pre = [.req e .accountProbe (.url r0.accountUrl) old r0.accountUrl p]) ∧
        ∀ ev ∈ rest, NotKeyChange ev) := by
  rw [synchronize_run v e s r0 hk]
  by_cases c1 : (r0.accountUrl != 0) = true
  · rw [if_pos c1]
    by_cases c2 : bindingChanged s.acct.shared r0 = true
    · rw [if_pos c2]
      have : MSat (EvR NotKeyChange) (registerAccount e >>= fun _ =>
          if (v.bindingThenContacts && ((r0.contactsHash != some s.acct.shared.contacts) &&
              !(r0.keyHash != some s.acct.shared.currentKey))) = true
          then updateAccountContacts e else pure ()) :=
        MSat.bind (EvR.law _) (NotKeyChange.registerAccount e)
          (fun _ => NotKeyChange.optContacts e _)
      obtain ⟨es, he, hp⟩ := this.run s
      exact ⟨es, he, .inl hp⟩
    · rw [if_neg c2, if_pos hv]
      by_cases c3 : (r0.keyHash != some s.acct.shared.currentKey) = true
      · rw [if_pos c3]
        obtain ⟨es1, h1, hs1⟩ := updateAccountKey_shape v e s r0 hk
        obtain ⟨es2, h2, hp2⟩ := log_of_bind h1 (NotKeyChange.optContacts e
          (r0.contactsHash != some s.acct.shared.contacts))
        refine ⟨es1 ++ es2, h2, ?_⟩
        rcases hs1 with hs1 | ⟨old, a, pre, rest, g1, g2, g3, g5, g4⟩
        · left
          intro ev hev
          rcases List.mem_append.mp hev with h | h
          · exact hs1 ev h
          · exact hp2 ev h
        · refine .inr ⟨old, a, pre, rest ++ es2, g1, g2, ?_, by simpa using c1,
            by rw [g3]; simp, g5, ?_⟩
          · rintro rfl
            rw [g1] at c3
            simp at c3
          · intro ev hev
            rcases List.mem_append.mp hev with h | h
            · exact g4 ev h
            · exact hp2 ev h
      · rw [if_neg c3]
        have : MSat (EvR NotKeyChange) ((pure () : MM Unit) >>= fun _ =>
            if (r0.contactsHash != some s.acct.shared.contacts) = true
            then updateAccountContacts e else pure ()) :=
          MSat.bind (EvR.law _) (MSat.pure (EvR.law _) _) (fun _ => NotKeyChange.optContacts e _)
        obtain ⟨es, he, hp⟩ := this.run s
        exact ⟨es, he, .inl hp⟩
  · rw [if_neg c1]
    obtain ⟨es, he, hp⟩ := (NotKeyChange.registerAccount e).run s
    exact ⟨es, he, .inl hp⟩

theorem synchronize_unknown (v : Variant) (e : EpName) (s : MWorld)
    (h : s.acct.getEndpoint e = none) : synchronize v e s = (.unknownEndpoint, s) := by
  unfold synchronize
  rw [bind_run]
  simp only [getShared]
  rw [bind_run]
  unfold getEndpointM
  rw [h]

/-! ### 8. Histories -/

/-- What can happen to an account between two synchronisations of an endpoint: a (re)start with
any configuration edit (`Account::load`), a new endpoint name, the synchronisation of any endpoint
with any answers and hook exits (the in-memory account carries on whatever the outcome). -/
inductive Op
  | load (contacts : Nat) (keyChanged : Bool) (fresh : KeyId) (eab : Option Nat)
  | addEndpoint (e : EpName)
  | sync (v : Variant) (e : EpName) (exs : List Ans) (hks : List Bool)

def Op.run : Op → Account → Account
  | .load c k f b, a => a.load c k f b
  | .addEndpoint e, a => a.addEndpointName e
  | .sync v e exs hks, a => (synchronize v e ⟨a, exs, hks, [], none⟩).2.acct

def runOps : List Op → Account → Account
  | [], a => a
  | op :: rest, a => runOps rest (op.run a)

/-- No synchronisation of the history gets an answer "processed, answer lost". -/
def Op.noLost : Op → Prop
  | .sync _ _ exs _ => NoLost exs
  | _ => True

theorem HeldAll.runOps {a : Account} (h : HeldAll a) (ops : List Op)
    (hn : ∀ op ∈ ops, op.noLost) : HeldAll (runOps ops a) := by
  induction ops generalizing a with
  | nil => exact h
  | cons op rest ih =>
    apply ih _ (fun o ho => hn o (List.mem_cons_of_mem _ ho))
    have h0 := hn op List.mem_cons_self
    cases op with
    | load c k f b => exact h.load c k f b
    | addEndpoint e => exact h.addEndpointName e
    | sync v e exs hks => exact ((HeldR.synchronize v e).run ⟨a, exs, hks, [], none⟩ h0 h).1

/-! ### 9. A checker for `HeldAll` (for concrete accounts) -/

def heldB (sh : Shared) (r : EpRec) : Bool :=
  r.accountUrl == 0 ||
    match r.keyHash with
    | some k => r.ca.key == k && (k == sh.currentKey || sh.pastKeys.contains k)
    | none => false

theorem heldB_sound {sh : Shared} {r : EpRec} (h : heldB sh r = true) : Held sh r := by
  intro hu
  unfold heldB at h
  rcases hk : r.keyHash with _ | k
  · rw [hk] at h; simp [hu] at h
  · rw [hk] at h
    simp only [Bool.or_eq_true, beq_iff_eq, Bool.and_eq_true, List.contains_eq_mem,
      decide_eq_true_eq] at h
    rcases h with h | ⟨h1, h2⟩
    · exact absurd h hu
    · exact ⟨k, rfl, h1, h2⟩

def heldAllB (a : Account) : Bool := a.endpoints.all fun p => heldB a.shared p.2

theorem lookupEp_mem {e : EpName} {l : List (EpName × EpRec)} {r : EpRec}
    (h : lookupEp e l = some r) : ∃ n, (n, r) ∈ l := by
  induction l with
  | nil => cases h
  | cons p rest ih =>
    obtain ⟨n, x⟩ := p
    by_cases hn : (n == e) = true
    · simp only [lookupEp, hn, if_true, Option.some.injEq] at h
      exact ⟨n, by rw [h]; exact List.mem_cons_self⟩
    · simp only [lookupEp, hn, Bool.false_eq_true, if_false] at h
      obtain ⟨m, hm⟩ := ih h
      exact ⟨m, List.mem_cons_of_mem _ hm⟩

theorem heldAllB_sound {a : Account} (h : heldAllB a = true) : HeldAll a := by
  intro e r hr
  obtain ⟨n, hm⟩ := lookupEp_mem hr
  unfold heldAllB at h
  rw [List.all_eq_true] at h
  exact heldB_sound (h (n, r) hm)

end AcmedVerif.AccountMulti
