/-
Helper lemmas for C18 (`Model/Trust.lean`).
-/
import AcmedVerif.Model.Trust

namespace AcmedVerif.Trust

/-! ## Root list -/

theorem rootList_eq (cli ep gl : List Path) (es gs : Bool) :
    rootList cli ep gl es gs = cli ++ (if es then ep else []) ++ (if gs then gl else []) := by
  cases es <;> cases gs <;> simp [rootList, rootListOpt]

/-! ## `get_client` -/

theorem loadRoots_some_iff (roots : List (Path × RootFile)) (ps : List Path) :
    loadRoots roots = some ps ↔
      (∀ r ∈ roots, r.2 = RootFile.readablePem) ∧ ps = roots.map Prod.fst := by
  induction roots generalizing ps with
  | nil => simp [loadRoots, eq_comm]
  | cons r rest ih =>
    obtain ⟨p, f⟩ := r
    cases f with
    | readablePem =>
      cases h : loadRoots rest with
      | none =>
        simp only [loadRoots, h, List.mem_cons, List.map_cons, false_iff, not_and, reduceCtorEq]
        intro hall _
        have := (ih (rest.map Prod.fst)).2 ⟨fun r hr => hall r (Or.inr hr), rfl⟩
        simp [h] at this
      | some qs =>
        have hq := (ih qs).1 h
        simp only [loadRoots, h, Option.some.injEq, List.mem_cons, List.map_cons]
        constructor
        · intro e
          subst e
          refine ⟨?_, by rw [hq.2]⟩
          intro r hr
          rcases hr with rfl | hr
          · rfl
          · exact hq.1 r hr
        · intro ⟨_, e⟩
          rw [e, hq.2]
    | unreadable =>
      simp only [loadRoots, List.mem_cons, false_iff, not_and, reduceCtorEq]
      intro hall
      have := hall (p, .unreadable) (Or.inl rfl)
      simp at this
    | malformed =>
      simp only [loadRoots, List.mem_cons, false_iff, not_and, reduceCtorEq]
      intro hall
      have := hall (p, .malformed) (Or.inl rfl)
      simp at this

theorem getClient_some_iff (roots : List (Path × RootFile)) (st : Store) :
    getClient roots = some st ↔
      (∀ r ∈ roots, r.2 = RootFile.readablePem) ∧
        st = { builtin := true, added := roots.map Prod.fst } := by
  unfold getClient
  cases h : loadRoots roots with
  | none =>
    simp only [false_iff, not_and, reduceCtorEq]
    intro hall _
    have := (loadRoots_some_iff roots _).2 ⟨hall, rfl⟩
    simp [h] at this
  | some ps =>
    have hp := (loadRoots_some_iff roots ps).1 h
    simp only [Option.some.injEq]
    constructor
    · intro e
      exact ⟨hp.1, by rw [← e, hp.2]⟩
    · intro ⟨_, e⟩
      rw [e, hp.2]

theorem getClient_none_of_bad (roots : List (Path × RootFile))
    (hbad : ∃ r ∈ roots, r.2 ≠ RootFile.readablePem) : getClient roots = none := by
  cases h : getClient roots with
  | none => rfl
  | some st =>
    obtain ⟨r, hr, hne⟩ := hbad
    exact absurd (((getClient_some_iff roots st).1 h).1 r hr) hne

theorem rootFilesOk_iff (roots : List (Path × RootFile)) :
    rootFilesOk roots = true ↔ ∀ r ∈ roots, r.2 = RootFile.readablePem := by
  simp [rootFilesOk]

theorem getClient_isSome_iff (roots : List (Path × RootFile)) :
    (getClient roots).isSome = rootFilesOk roots := by
  cases hok : rootFilesOk roots with
  | true =>
    have h := (rootFilesOk_iff roots).1 hok
    have := (getClient_some_iff roots _).2 ⟨h, rfl⟩
    simp [this]
  | false =>
    have : ∃ r ∈ roots, r.2 ≠ RootFile.readablePem := by
      apply Classical.byContradiction
      intro hn
      have hall : ∀ r ∈ roots, r.2 = RootFile.readablePem := by
        intro r hr
        apply Classical.byContradiction
        intro hne
        exact hn ⟨r, hr, hne⟩
      have := (rootFilesOk_iff roots).2 hall
      simp [hok] at this
    simp [getClient_none_of_bad roots this]

theorem withFs_map_fst (fs : Path → RootFile) (paths : List Path) :
    (withFs fs paths).map Prod.fst = paths := by
  simp [withFs, Function.comp_def]

/-! ## Trace shape: every request directly follows a validated handshake on the same connection -/

section
variable {Chain Host : Type}

/-- A trace is a concatenation of blocks `[handshakeOk c, requestSent c s]` with `P c`, and of
single events that are neither a handshake success nor a transmission. -/
inductive Blocks (P : Conn Chain Host → Prop) : List (Ev Chain Host) → Prop where
  | nil : Blocks P []
  | skip (e : Ev Chain Host) (t : List (Ev Chain Host)) :
      e.isSent = false → (∀ c, e ≠ .handshakeOk c) → Blocks P t → Blocks P (e :: t)
  | pair (c : Conn Chain Host) (s : Bool) (t : List (Ev Chain Host)) :
      P c → Blocks P t → Blocks P (.handshakeOk c :: .requestSent c s :: t)

theorem Blocks.append {P : Conn Chain Host → Prop} {a b : List (Ev Chain Host)}
    (ha : Blocks P a) (hb : Blocks P b) : Blocks P (a ++ b) := by
  induction ha with
  | nil => exact hb
  | skip e t h1 h2 _ ih => exact Blocks.skip e _ h1 h2 ih
  | pair c s t hp _ ih => exact Blocks.pair c s _ hp ih

/-- In a `Blocks` trace a transmission is immediately preceded by the successful handshake of the same
connection, and that connection satisfies `P`. -/
theorem Blocks.sent_preceded {P : Conn Chain Host → Prop} {l : List (Ev Chain Host)}
    (hl : Blocks P l) :
    ∀ (pre post : List (Ev Chain Host)) (c : Conn Chain Host) (s : Bool),
      l = pre ++ .requestSent c s :: post →
      ∃ pre', pre = pre' ++ [.handshakeOk c] ∧ P c := by
  induction hl with
  | nil =>
    intro pre post c s h
    cases pre <;> simp at h
  | skip e t h1 h2 _ ih =>
    intro pre post c s h
    cases pre with
    | nil =>
      simp only [List.nil_append, List.cons.injEq] at h
      rw [h.1] at h1
      simp [Ev.isSent] at h1
    | cons x pre2 =>
      simp only [List.cons_append, List.cons.injEq] at h
      obtain ⟨pre', hp, hc⟩ := ih pre2 post c s h.2
      exact ⟨x :: pre', by rw [hp]; rfl, hc⟩
  | pair c0 s0 t hp _ ih =>
    intro pre post c s h
    cases pre with
    | nil => simp at h
    | cons x pre2 =>
      simp only [List.cons_append, List.cons.injEq] at h
      cases pre2 with
      | nil =>
        simp only [List.nil_append, List.cons.injEq, Ev.requestSent.injEq] at h
        obtain ⟨hx, ⟨hc, _⟩, _⟩ := h
        subst hc
        exact ⟨[], by rw [← hx]; rfl, hp⟩
      | cons y pre3 =>
        simp only [List.cons_append, List.cons.injEq] at h
        obtain ⟨pre', hp', hc⟩ := ih pre3 post c s h.2.2
        exact ⟨x :: y :: pre', by rw [hp']; rfl, hc⟩

theorem Blocks.mono {P Q : Conn Chain Host → Prop} (hpq : ∀ c, P c → Q c)
    {l : List (Ev Chain Host)} (hl : Blocks P l) : Blocks Q l := by
  induction hl with
  | nil => exact Blocks.nil
  | skip e t h1 h2 _ ih => exact Blocks.skip e t h1 h2 ih
  | pair c s t hp _ ih => exact Blocks.pair c s t (hpq c hp) ih

variable (validates : Chain → Host → Store → Bool)

/-- "Validated against `store`". -/
def Valid (store : Store) (c : Conn Chain Host) : Prop :=
  validates c.chain c.host store = true

theorem transfer_blocks (store : Store) (c : Conn Chain Host) (signed : Bool) :
    Blocks (Valid validates store) (transfer validates store c signed).1 := by
  unfold transfer
  by_cases h : validates c.chain c.host store = true
  · simp only [h, if_true]
    exact Blocks.pair c signed [] h Blocks.nil
  · simp only [h]
    exact Blocks.skip _ [] rfl (by intro c'; simp) Blocks.nil

theorem jws_cons_blocks {P : Conn Chain Host → Prop} {t : List (Ev Chain Host)}
    (ht : Blocks P t) : Blocks P (Ev.jwsBuilt :: t) :=
  Blocks.skip _ t rfl (by intro c'; simp) ht

theorem postLoop_blocks (store : Store) (rs : List (Round Chain Host)) :
    Blocks (Valid validates store) (postLoop validates store rs).1 := by
  induction rs with
  | nil => exact Blocks.nil
  | cons r rest ih =>
    have hN : Blocks (Valid validates store) (nonceStep validates store r).1 := by
      unfold nonceStep
      split
      · exact transfer_blocks validates store _ _
      · exact Blocks.nil
    have hP := transfer_blocks validates store r.postConn true
    have hNP := Blocks.append hN (jws_cons_blocks hP)
    unfold postLoop
    generalize nonceStep validates store r = n at hN hNP
    generalize transfer validates store r.postConn true = p at hP hNP
    simp only []
    split
    · exact hN
    · split
      · exact hN
      · split
        · exact hNP
        · split
          · exact hNP
          · split
            · exact Blocks.append hNP ih
            · exact hNP

theorem call_blocks (maxRounds : Nat) (roots : List (Path × RootFile)) (store : Store)
    (hs : getClient roots = some store) (cl : Call Chain Host) :
    Blocks (Valid validates store) (call validates maxRounds roots cl).1 := by
  cases cl with
  | get c =>
    simp only [call, hs]
    exact Blocks.skip _ _ rfl (by intro c'; simp) (transfer_blocks validates store c false)
  | post rs =>
    simp only [call, hs]
    exact Blocks.skip _ _ rfl (by intro c'; simp) (postLoop_blocks validates store _)

theorem call_noClient (maxRounds : Nat) (roots : List (Path × RootFile))
    (hs : getClient roots = none) (cl : Call Chain Host) :
    call validates maxRounds roots cl = ([.clientFailed], false) := by
  cases cl <;> simp [call, hs]

theorem attempt_blocks (maxRounds : Nat) (roots : List (Path × RootFile)) (store : Store)
    (hs : getClient roots = some store) (cs : List (Call Chain Host)) :
    Blocks (Valid validates store) (attempt validates maxRounds roots cs).1 := by
  induction cs with
  | nil => exact Blocks.nil
  | cons c rest ih =>
    have hc := call_blocks validates maxRounds roots store hs c
    unfold attempt
    simp only []
    split
    · exact Blocks.append hc ih
    · exact hc

theorem attempt_noClient (maxRounds : Nat) (roots : List (Path × RootFile))
    (hs : getClient roots = none) (cs : List (Call Chain Host)) :
    attempt validates maxRounds roots cs =
      (match cs with
       | [] => ([], true)
       | _ :: _ => ([.clientFailed], false)) := by
  cases cs with
  | nil => rfl
  | cons c rest => simp [attempt, call_noClient validates maxRounds roots hs c]

/-- A trace in which nothing was ever transmitted and no handshake succeeded. -/
def Silent (l : List (Ev Chain Host)) : Prop :=
  ∀ e ∈ l, e.isSent = false ∧ ∀ c, e ≠ .handshakeOk c

theorem Silent.sentCount {l : List (Ev Chain Host)} (h : Silent l) : sentCount l = 0 := by
  unfold Trust.sentCount
  rw [List.countP_eq_zero]
  intro e he
  simp [(h e he).1]

theorem signedSent_le_sent (l : List (Ev Chain Host)) : signedSentCount l ≤ sentCount l := by
  unfold signedSentCount sentCount
  apply List.countP_mono_left
  intro e _ h
  cases e with
  | requestSent c s => rfl
  | _ => simp [Ev.isSignedSent] at h

theorem attempts_noClient_silent (maxRounds : Nat) (roots : List (Path × RootFile))
    (hs : getClient roots = none) (as : List (List (Call Chain Host))) :
    Silent (attempts validates maxRounds roots as) := by
  induction as with
  | nil => intro e he; simp [attempts] at he
  | cons a rest ih =>
    intro e he
    simp only [attempts, List.mem_append] at he
    rcases he with he | he
    · rw [attempt_noClient validates maxRounds roots hs a] at he
      cases a with
      | nil => simp at he
      | cons c cs =>
        simp only [List.mem_singleton] at he
        subst he
        exact ⟨rfl, by intro c'; simp⟩
    · exact ih e he

theorem attempts_blocks (maxRounds : Nat) (roots : List (Path × RootFile)) (store : Store)
    (hs : getClient roots = some store) (as : List (List (Call Chain Host))) :
    Blocks (Valid validates store) (attempts validates maxRounds roots as) := by
  induction as with
  | nil => exact Blocks.nil
  | cons a rest ih => exact Blocks.append (attempt_blocks validates maxRounds roots store hs a) ih

/-- Silent traces are `Blocks` for any `P` (used to treat the no-client case uniformly). -/
theorem Silent.blocks {P : Conn Chain Host → Prop} {l : List (Ev Chain Host)} (h : Silent l) :
    Blocks P l := by
  induction l with
  | nil => exact Blocks.nil
  | cons e t ih =>
    have he := h e (List.mem_cons_self)
    exact Blocks.skip e t he.1 he.2 (ih (fun x hx => h x (List.mem_cons_of_mem _ hx)))

/-- If no connection that can be opened validates, nothing is transmitted. -/
theorem Blocks.silent_of_false {P : Conn Chain Host → Prop} {l : List (Ev Chain Host)}
    (hl : Blocks P l) (hP : ∀ c, Ev.handshakeOk c ∈ l → ¬ P c) : sentCount l = 0 := by
  induction hl with
  | nil => rfl
  | skip e t h1 _ _ ih =>
    have := ih (fun c hc => hP c (List.mem_cons_of_mem _ hc))
    simp only [sentCount, List.countP_cons, h1] at this ⊢
    simpa using this
  | pair c s t hp _ _ =>
    exact absurd hp (hP c (List.mem_cons_self))

/-! ## Untrusted connections: the call fails after a failed handshake, nothing is sent -/

variable (maxRounds : Nat)

theorem transfer_invalid (store : Store) (c : Conn Chain Host) (s : Bool)
    (h : validates c.chain c.host store = false) :
    transfer validates store c s = ([Ev.handshakeFailed c], false) := by
  simp [transfer, h]

theorem postLoop_invalid (store : Store) (rs : List (Round Chain Host))
    (h : ∀ r ∈ rs, ∀ c ∈ r.conns, validates c.chain c.host store = false) :
    Silent (postLoop validates store rs).1 ∧ (postLoop validates store rs).2 = false := by
  cases rs with
  | nil => exact ⟨by intro e he; simp [postLoop] at he, rfl⟩
  | cons r rest =>
    have hp : validates r.postConn.chain r.postConn.host store = false :=
      h r List.mem_cons_self r.postConn (by simp [Round.conns])
    cases hn : r.needNonce with
    | true =>
      have hc : validates r.nonceConn.chain r.nonceConn.host store = false :=
        h r List.mem_cons_self r.nonceConn (by simp [Round.conns, hn])
      simp only [postLoop, nonceStep, hn, if_true, transfer_invalid validates store _ _ hc]
      refine ⟨?_, by simp⟩
      intro e he
      simp only [Bool.not_false, if_true, List.mem_singleton] at he
      subst he
      exact ⟨rfl, by intro c'; simp⟩
    | false =>
      cases hb : r.builderOk with
      | false =>
        simp only [postLoop, nonceStep, hn, hb]
        exact ⟨by intro e he; simp at he, by simp⟩
      | true =>
        simp only [postLoop, nonceStep, hn, hb, transfer_invalid validates store _ _ hp, hp]
        refine ⟨?_, by simp⟩
        intro e he
        simp only [Bool.false_eq_true, if_false, Bool.not_true, Bool.not_false, if_true,
          List.nil_append, List.mem_cons, List.not_mem_nil, or_false] at he
        rcases he with he | he <;> subst he <;> exact ⟨rfl, by intro c'; simp⟩

theorem call_invalid (roots : List (Path × RootFile)) (store : Store)
    (hs : getClient roots = some store) (cl : Call Chain Host)
    (h : ∀ c ∈ cl.conns, validates c.chain c.host store = false) :
    Silent (call validates maxRounds roots cl).1 ∧ (call validates maxRounds roots cl).2 = false := by
  cases cl with
  | get c =>
    have hc := h c (by simp [Call.conns])
    simp only [call, hs, transfer_invalid validates store c false hc]
    refine ⟨?_, trivial⟩
    intro e he
    simp only [List.mem_cons, List.not_mem_nil, or_false] at he
    rcases he with he | he <;> subst he <;> exact ⟨rfl, by intro c'; simp⟩
  | post rs =>
    have hr : ∀ r ∈ rs.take maxRounds, ∀ c ∈ r.conns, validates c.chain c.host store = false := by
      intro r hr c hc
      exact h c (by
        simp only [Call.conns, List.mem_flatMap]
        exact ⟨r, List.mem_of_mem_take hr, hc⟩)
    obtain ⟨h1, h2⟩ := postLoop_invalid validates store _ hr
    simp only [call, hs]
    refine ⟨?_, h2⟩
    intro e he
    simp only [List.mem_cons] at he
    rcases he with he | he
    · subst he; exact ⟨rfl, by intro c'; simp⟩
    · exact h1 e he

theorem attempt_invalid (roots : List (Path × RootFile)) (store : Store)
    (hs : getClient roots = some store) (a : List (Call Chain Host))
    (h : ∀ cl ∈ a, ∀ c ∈ cl.conns, validates c.chain c.host store = false) :
    Silent (attempt validates maxRounds roots a).1 ∧
      (a ≠ [] → (attempt validates maxRounds roots a).2 = false) := by
  cases a with
  | nil => exact ⟨by intro e he; simp [attempt] at he, fun hne => absurd rfl hne⟩
  | cons cl rest =>
    obtain ⟨h1, h2⟩ := call_invalid validates maxRounds roots store hs cl (h cl List.mem_cons_self)
    unfold attempt
    simp only [h2]
    exact ⟨h1, fun _ => by simp⟩

end

end AcmedVerif.Trust
