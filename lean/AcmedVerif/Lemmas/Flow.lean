/-
Proof framework for `Model/Flow.lean` (DESIGN Appendix E5).

* `Law R` / `Sat R m`: a relation `R w tag w'` between the world before, the outcome tag
  (`Result`: ok | failed step | stuck) and the world after, that is reflexive and composes through
  `ok`; `Sat R m` = every run of `m` satisfies it.  `Sat.bind` glues pieces.
* `TLaw Φ` / trace relations: `R w t w' := ∃ es, w'.trace = w.trace ++ es ∧ Φ es t`.
* `walk [lemmas]`: walks a definition along `>>=`, `match`, `if`.
-/
import AcmedVerif.Model.Flow

namespace AcmedVerif.Flow

/-! ### Outcome tags, basic run lemmas -/

def Out.tag : Out α → Result
  | .val _ => .ok
  | .fail s => .failed s
  | .stuck => .stuck

@[simp] theorem Out.tag_val (a : α) : (Out.val a).tag = .ok := rfl
@[simp] theorem Out.tag_fail (s : Step) : (Out.fail s : Out α).tag = .failed s := rfl
@[simp] theorem Out.tag_stuck : (Out.stuck : Out α).tag = .stuck := rfl

theorem Out.result_eq_tag (o : Out Unit) : o.result = o.tag := by cases o <;> rfl

theorem bind_run (m : M α) (f : α → M β) (w : World) :
    (m >>= f) w = match m w with
      | (.val a, w1) => f a w1
      | (.fail s, w1) => (.fail s, w1)
      | (.stuck, w1) => (.stuck, w1) := rfl

theorem pure_run (a : α) (w : World) : (pure a : M α) w = (.val a, w) := rfl

/-- Inversion of a bind: either the first part did not return (same tag, same world), or it
returned `a` in world `w1` and the whole is the continuation from there. -/
theorem bind_cases (m : M α) (f : α → M β) (w : World) :
    (∃ a w1, m w = (.val a, w1) ∧ (m >>= f) w = f a w1) ∨
    ((m w).1.tag ≠ .ok ∧ ((m >>= f) w).1.tag = (m w).1.tag ∧ ((m >>= f) w).2 = (m w).2) := by
  rw [bind_run]
  rcases h : m w with ⟨o, w1⟩
  cases o with
  | val a => exact .inl ⟨a, w1, rfl, rfl⟩
  | fail s => exact .inr ⟨by simp, rfl, rfl⟩
  | stuck => exact .inr ⟨by simp, rfl, rfl⟩

theorem bind_val_inv {m : M α} {f : α → M β} {w w' : World} {b : β}
    (h : (m >>= f) w = (.val b, w')) : ∃ a w1, m w = (.val a, w1) ∧ f a w1 = (.val b, w') := by
  rcases bind_cases m f w with ⟨a, w1, h1, h2⟩ | ⟨h1, h2, _⟩
  · exact ⟨a, w1, h1, by rw [← h2, h]⟩
  · rw [h] at h2; simp at h2; exact absurd h2.symm h1

/-! ### Relations that compose -/

structure Law (R : World → Result → World → Prop) : Prop where
  refl : ∀ t w, R w t w
  trans : ∀ {w1 w2 w3 t}, R w1 .ok w2 → R w2 t w3 → R w1 t w3

structure Sat (R : World → Result → World → Prop) (m : M α) : Prop where
  run : ∀ w, R w (m w).1.tag (m w).2

theorem Sat.pure {R} (L : Law R) (a : α) : Sat R (pure a : M α) := ⟨fun w => L.refl _ w⟩

theorem Sat.failAt {R} (L : Law R) (s : Step) : Sat R (failAt s : M α) := ⟨fun w => L.refl _ w⟩

theorem Sat.getW {R} (L : Law R) : Sat R getW := ⟨fun w => L.refl _ w⟩

theorem Sat.bind {R} (L : Law R) {m : M α} {f : α → M β} (hm : Sat R m)
    (hf : ∀ a, Sat R (f a)) : Sat R (m >>= f) := by
  constructor
  intro w
  have h1 := hm.run w
  rcases bind_cases m f w with ⟨a, w1, e1, e2⟩ | ⟨_, e2, e3⟩
  · rw [e2]; rw [e1] at h1; exact L.trans h1 ((hf a).run w1)
  · rw [e2, e3]; exact h1

/-- Walk a monadic definition: try the given lemmas, then the generic ones. -/
syntax "walk " "[" term,* "]" "[" term,* "]" term : tactic
macro_rules
  | `(tactic| walk [$ts,*] [$ps,*] $L) =>
    `(tactic| repeat' (first
        | intro _
        $[| exact $ts]*
        $[| exact $ps]*
        $[| apply $ts]*
        $[| apply $ps]*
        | exact Sat.pure $L _
        | exact Sat.failAt $L _
        | exact Sat.getW $L
        | apply Sat.bind $L
        | trivial
        | split))

/-! ### Trace relations -/

structure TLaw (Φ : List Ev → Result → Prop) : Prop where
  nil : ∀ t, Φ [] t
  app : ∀ {a b t}, Φ a .ok → Φ b t → Φ (a ++ b) t

def TR (Φ : List Ev → Result → Prop) : World → Result → World → Prop :=
  fun w t w' => ∃ es, w'.trace = w.trace ++ es ∧ Φ es t

theorem TLaw.law {Φ} (T : TLaw Φ) : Law (TR Φ) where
  refl := fun t w => ⟨[], by simp, T.nil t⟩
  trans := by
    rintro w1 w2 w3 t ⟨a, ha, pa⟩ ⟨b, hb, pb⟩
    exact ⟨a ++ b, by rw [hb, ha, List.append_assoc], T.app pa pb⟩

theorem TR.emit {Φ} (e : Ev) (h : Φ [e] .ok) : Sat (TR Φ) (emit e) :=
  ⟨fun _ => ⟨[e], rfl, h⟩⟩

theorem TR.modAcc {Φ} (T : TLaw Φ) (f : Acc → Acc) : Sat (TR Φ) (modAcc f) :=
  ⟨fun _ => ⟨[], by simp [Flow.modAcc], T.nil _⟩⟩

theorem TR.modFiles {Φ} (T : TLaw Φ) (f : Files → Files) : Sat (TR Φ) (modFiles f) :=
  ⟨fun _ => ⟨[], by simp [Flow.modFiles], T.nil _⟩⟩

theorem TR.freshKey {Φ} (T : TLaw Φ) : Sat (TR Φ) freshKey :=
  ⟨fun _ => ⟨[], by simp [Flow.freshKey], T.nil _⟩⟩

theorem TR.exchange {Φ} (T : TLaw Φ) (kind : ReqKind) (signer : KeyId)
    (h : ∀ r, Φ [.exch kind (authOf kind) signer r] .ok) : Sat (TR Φ) (exchange kind signer) := by
  constructor
  intro w
  unfold Flow.exchange
  cases hx : w.exs with
  | nil => exact ⟨[], by simp, T.nil _⟩
  | cons r rest => exact ⟨[_], rfl, h r⟩

theorem TR.hookGroup {Φ} (T : TLaw Φ) (ty : HookKind)
    (h : ∀ b, Φ [.hooks ty b] .ok) : Sat (TR Φ) (hookGroup ty) := by
  constructor
  intro w
  unfold Flow.hookGroup
  cases hx : w.hks with
  | nil => exact ⟨[], by simp, T.nil _⟩
  | cons r rest => exact ⟨[_], rfl, h r⟩

/-- Trace relations given by a predicate on single events. -/
def AllEv (P : Ev → Prop) : List Ev → Result → Prop := fun es _ => ∀ e ∈ es, P e

theorem AllEv.tlaw (P : Ev → Prop) : TLaw (AllEv P) where
  nil := by intro t e he; cases he
  app := by
    intro a b t ha hb e he
    rcases List.mem_append.mp he with h | h
    · exact ha e h
    · exact hb e h

theorem AllEv.single {P : Ev → Prop} {e : Ev} {t : Result} (h : P e) : AllEv P [e] t := by
  intro e' he; rw [List.mem_singleton] at he; rw [he]; exact h

theorem Sat.mono {R R' : World → Result → World → Prop} {m : M α}
    (h : ∀ w t w', R w t w' → R' w t w') (hm : Sat R m) : Sat R' m :=
  ⟨fun w => h _ _ _ (hm.run w)⟩

theorem AllEv.mono {P Q : Ev → Prop} (h : ∀ e, P e → Q e) {m : M α}
    (hm : Sat (TR (AllEv P)) m) : Sat (TR (AllEv Q)) m :=
  hm.mono fun _ _ _ ⟨es, he, hp⟩ => ⟨es, he, fun e hx => h e (hp e hx)⟩

/-! ### Frame: what only the two file writes (and `freshKey`) may change -/

def Frame : World → Result → World → Prop := fun w _ w' =>
  w'.files = w.files ∧ w'.keyReadable = w.keyReadable ∧ w'.acc.curKey = w.acc.curKey ∧
  w'.scheds = w.scheds

theorem Frame.law : Law Frame where
  refl := fun _ _ => ⟨rfl, rfl, rfl, rfl⟩
  trans := by
    rintro w1 w2 w3 t ⟨a1, a2, a3, a4⟩ ⟨b1, b2, b3, b4⟩
    exact ⟨b1.trans a1, b2.trans a2, b3.trans a3, b4.trans a4⟩

theorem Frame.exchange (k : ReqKind) (s : KeyId) : Sat Frame (exchange k s) := by
  constructor; intro w; unfold Flow.exchange
  cases w.exs <;> exact ⟨rfl, rfl, rfl, rfl⟩

theorem Frame.hookGroup (ty : HookKind) : Sat Frame (hookGroup ty) := by
  constructor; intro w; unfold Flow.hookGroup
  cases w.hks <;> exact ⟨rfl, rfl, rfl, rfl⟩

theorem Frame.emit (e : Ev) : Sat Frame (emit e) := ⟨fun _ => ⟨rfl, rfl, rfl, rfl⟩⟩

theorem Frame.freshKey : Sat Frame freshKey := ⟨fun _ => ⟨rfl, rfl, rfl, rfl⟩⟩

theorem Frame.modAcc (f : Acc → Acc) (h : ∀ a, (f a).curKey = a.curKey) : Sat Frame (modAcc f) :=
  ⟨fun w => ⟨rfl, rfl, h w.acc, rfl⟩⟩

section FrameWalk
local macro "fw" "[" ts:term,* "]" : tactic =>
  `(tactic| walk [$ts,*] [Frame.exchange, Frame.hookGroup, Frame.emit, Frame.freshKey,
                  Frame.modAcc] Frame.law)

theorem Frame.saveAccount : Sat Frame saveAccount := by
  unfold Flow.saveAccount writeFileHooks; fw []
theorem Frame.register : Sat Frame register := by
  unfold Flow.register; fw [Frame.saveAccount]
theorem Frame.updateContacts : Sat Frame updateContacts := by
  unfold Flow.updateContacts; fw [Frame.saveAccount, Frame.register]
theorem Frame.updateKey : Sat Frame updateKey := by
  unfold Flow.updateKey; fw [Frame.saveAccount, Frame.register]
theorem Frame.synchronize (v : Variant) : Sat Frame (synchronize v) := by
  unfold Flow.synchronize; fw [Frame.updateContacts, Frame.updateKey, Frame.register]
theorem Frame.newOrder : Sat Frame newOrder := by
  unfold Flow.newOrder decodeNewOrder; fw [Frame.register]
theorem Frame.solveChallenges (ty : ChalType) (l : List (ChalType × Nat)) :
    Sat Frame (solveChallenges ty l) := by
  induction l with
  | nil => unfold Flow.solveChallenges; fw []
  | cons x rest ih => unfold Flow.solveChallenges; fw [ih]
theorem Frame.pollAuthz (a n : Nat) : Sat Frame (pollAuthz a n) := by
  induction n with
  | zero => unfold Flow.pollAuthz; fw []
  | succ n ih => unfold Flow.pollAuthz; fw [ih]
theorem Frame.cleanHooks (l : List Nat) : Sat Frame (cleanHooks l) := by
  induction l with
  | nil => unfold Flow.cleanHooks; fw []
  | cons x rest ih => unfold Flow.cleanHooks; fw [ih]
theorem Frame.processAuthz (cfg : Cfg) (a : Nat) : Sat Frame (processAuthz cfg a) := by
  unfold Flow.processAuthz
  fw [Frame.solveChallenges, Frame.pollAuthz, Frame.cleanHooks]
theorem Frame.processAuthzs (cfg : Cfg) (l : List Nat) : Sat Frame (processAuthzs cfg l) := by
  induction l with
  | nil => unfold Flow.processAuthzs; fw []
  | cons x rest ih => unfold Flow.processAuthzs; fw [ih, Frame.processAuthz]
theorem Frame.pollOrder (want : OrderStatus) (st : Step) (n : Nat) :
    Sat Frame (pollOrder want st n) := by
  induction n with
  | zero => unfold Flow.pollOrder; fw []
  | succ n ih => unfold Flow.pollOrder; fw [ih]
theorem Frame.refreshDirectory : Sat Frame refreshDirectory := by
  unfold Flow.refreshDirectory; fw []
theorem Frame.prepareM (v : Variant) (cfg : Cfg) : Sat Frame (prepareM v cfg) := by
  unfold Flow.prepareM
  fw [Frame.refreshDirectory, Frame.synchronize, Frame.newOrder, Frame.processAuthzs,
      Frame.pollOrder]
theorem Frame.getKeyPair (cfg : Cfg) : Sat Frame (getKeyPair cfg) := by
  unfold Flow.getKeyPair genKey; fw []
theorem Frame.fetchPre (v : Variant) (hv : v.keyWriteEarly = false) (k : KeyId) (isNew : Bool) :
    Sat Frame (fetchPre v k isNew) := by
  unfold Flow.fetchPre
  simp only [hv, Bool.and_false, Bool.false_eq_true, if_false]
  fw [Frame.pollOrder]
theorem Frame.downloadCert : Sat Frame downloadCert := by
  unfold Flow.downloadCert; fw []
theorem Frame.checkBody (v : Variant) (k : KeyId) (cb : CertBody) : Sat Frame (checkBody v k cb) := by
  unfold Flow.checkBody; fw []
theorem Frame.obtainM (v : Variant) (hv : v.keyWriteEarly = false) (cfg : Cfg) :
    Sat Frame (obtainM v cfg) := by
  unfold Flow.obtainM
  fw [Frame.prepareM, Frame.getKeyPair, Frame.fetchPre v hv, Frame.downloadCert, Frame.checkBody]
end FrameWalk

/-! ### Direct run lemmas for the small pieces -/

theorem writeFileHooks_run (step : Step) (act : M Unit) (g : World → World)
    (hact : ∀ w, act w = (.val (), g w)) (hg : ∀ w, (g w).hks = w.hks) (w : World) :
    writeFileHooks step act w =
      match w.hks with
      | [] => (.stuck, w)
      | false :: rest => (.fail step, { w with hks := rest, trace := w.trace ++ [.hooks .filePre false] })
      | true :: rest =>
        let w1 := g { w with hks := rest, trace := w.trace ++ [.hooks .filePre true] }
        match rest with
        | [] => (.stuck, w1)
        | b :: rest' =>
          (if b then .val () else .fail step,
           { w1 with hks := rest', trace := w1.trace ++ [.hooks .filePost b] }) := by
  unfold writeFileHooks
  simp only [bind_run, hookGroup]
  rcases hh : w.hks with _ | ⟨b, rest⟩
  · simp
  · cases b
    · simp [failAt]
    · simp only [if_true]
      have := hg { w with hks := rest, trace := w.trace ++ [.hooks .filePre true] }
      simp only at this
      rcases rest with _ | ⟨b2, rest'⟩
      · simp [bind_run, hact, hookGroup, this]
      · cases b2 <;> simp [bind_run, hact, hookGroup, this, failAt, pure_run]

/-- Outcome of one file write through `write_file` with file update `upd` and event `e`. -/
def WriteOut (step : Step) (upd : Files → Files) (e : Ev) (w : World) (o : Out Unit) (w' : World) :
    Prop :=
  w'.acc = w.acc ∧ w'.exs = w.exs ∧ w'.keyReadable = w.keyReadable ∧ w'.nextKey = w.nextKey ∧
  w'.scheds = w.scheds ∧
  ((o = .stuck ∧ w' = w) ∨
   (o = .fail step ∧ w'.files = w.files ∧ w'.trace = w.trace ++ [.hooks .filePre false]) ∨
   (o = .stuck ∧ w'.files = upd w.files ∧ w'.trace = w.trace ++ [.hooks .filePre true, e]) ∨
   (∃ b, o = (if b then .val () else .fail step) ∧ w'.files = upd w.files ∧
      w'.trace = w.trace ++ [.hooks .filePre true, e, .hooks .filePost b]))

theorem writeKey_spec (k : KeyId) (w : World) :
    WriteOut .writeKey (fun f => { f with keyFile := some k }) (.writeKey k) w
      (writeKey k w).1 (writeKey k w).2 := by
  unfold writeKey
  rw [writeFileHooks_run .writeKey
    (do modFiles fun f => { f with keyFile := some k }
        emit (.writeKey k))
    (fun w => { w with files := { w.files with keyFile := some k }, trace := w.trace ++ [.writeKey k] })
    (fun w => rfl) (fun w => rfl) w]
  unfold WriteOut
  rcases w.hks with _ | ⟨b, _ | ⟨b2, rest⟩⟩
  · simp
  · cases b <;> simp
  · cases b <;> simp

theorem writeCert_spec (c : CertContent) (w : World) :
    WriteOut .writeCert (fun f => { f with certFile := some c }) (.writeCert c) w
      (writeCert c w).1 (writeCert c w).2 := by
  unfold writeCert
  rw [writeFileHooks_run .writeCert
    (do modFiles fun f => { f with certFile := some c }
        emit (.writeCert c))
    (fun w => { w with files := { w.files with certFile := some c }, trace := w.trace ++ [.writeCert c] })
    (fun w => rfl) (fun w => rfl) w]
  unfold WriteOut
  rcases w.hks with _ | ⟨b, _ | ⟨b2, rest⟩⟩
  · simp
  · cases b <;> simp
  · cases b <;> simp

theorem install_out (v : Variant) (k : KeyId) (isNew : Bool) (c : CertContent) (w : World) :
    ((isNew && !v.keyWriteEarly) = false ∧
      WriteOut .writeCert (fun f => { f with certFile := some c }) (.writeCert c) w
        (install v k isNew c w).1 (install v k isNew c w).2) ∨
    ((isNew && !v.keyWriteEarly) = true ∧ ∃ o1 w1,
      WriteOut .writeKey (fun f => { f with keyFile := some k }) (.writeKey k) w o1 w1 ∧
      ((o1 = .val () ∧
        WriteOut .writeCert (fun f => { f with certFile := some c }) (.writeCert c) w1
          (install v k isNew c w).1 (install v k isNew c w).2) ∨
       (o1.tag ≠ .ok ∧ (install v k isNew c w).1.tag = o1.tag ∧ (install v k isNew c w).2 = w1))) := by
  unfold install
  cases hn : (isNew && !v.keyWriteEarly)
  · left
    refine ⟨rfl, ?_⟩
    simp only [Bool.false_eq_true, if_false, bind_run, pure_run]
    exact writeCert_spec c w
  · right
    refine ⟨rfl, (writeKey k w).1, (writeKey k w).2, writeKey_spec k w, ?_⟩
    simp only [if_true]
    rcases bind_cases (writeKey k) (fun _ => writeCert c) w with ⟨a, w1, h1, h2⟩ | ⟨h1, h2, h3⟩
    · left
      rw [h2, h1]
      exact ⟨rfl, writeCert_spec c w1⟩
    · right
      exact ⟨h1, h2, h3⟩

/-! ### Alphabets: which events each piece can emit -/

theorem AllEv.exchange (P : Ev → Prop) (k : ReqKind) (s : KeyId)
    (h : ∀ r, P (.exch k (authOf k) s r)) : Sat (TR (AllEv P)) (exchange k s) :=
  TR.exchange (AllEv.tlaw P) k s fun r => AllEv.single (h r)
theorem AllEv.hookGroup (P : Ev → Prop) (ty : HookKind) (h : ∀ b, P (.hooks ty b)) :
    Sat (TR (AllEv P)) (hookGroup ty) :=
  TR.hookGroup (AllEv.tlaw P) ty fun b => AllEv.single (h b)
theorem AllEv.emit (P : Ev → Prop) (e : Ev) (h : P e) : Sat (TR (AllEv P)) (emit e) :=
  TR.emit e (AllEv.single h)
theorem AllEv.modAcc (P : Ev → Prop) (f : Acc → Acc) : Sat (TR (AllEv P)) (modAcc f) :=
  TR.modAcc (AllEv.tlaw P) f
theorem AllEv.modFiles (P : Ev → Prop) (f : Files → Files) : Sat (TR (AllEv P)) (modFiles f) :=
  TR.modFiles (AllEv.tlaw P) f
theorem AllEv.freshKey (P : Ev → Prop) : Sat (TR (AllEv P)) freshKey :=
  TR.freshKey (AllEv.tlaw P)

/-- Events of `prepareM`: authenticated as `authOf` says, no finalize / download, only challenge,
clean and file hooks, account saves; no key or certificate event. -/
def APrep : Ev → Prop
  | .exch k a _ _ => a = authOf k ∧ k ≠ .finalize ∧ k ≠ .certDownload
  | .hooks ty _ => ty ≠ .postOperation
  | .saveAccount => True
  | _ => False

section PrepWalk
local macro "pw" "[" ts:term,* "]" : tactic =>
  `(tactic| (walk [$ts,*] [AllEv.exchange APrep, AllEv.hookGroup APrep, AllEv.emit APrep,
                  AllEv.freshKey APrep, AllEv.modAcc APrep, AllEv.modFiles APrep]
                  (AllEv.tlaw APrep).law
             all_goals simp [APrep, authOf]))

theorem APrep.saveAccount : Sat (TR (AllEv APrep)) saveAccount := by
  unfold Flow.saveAccount writeFileHooks; pw []
theorem APrep.register : Sat (TR (AllEv APrep)) register := by
  unfold Flow.register; pw [APrep.saveAccount]
theorem APrep.updateContacts : Sat (TR (AllEv APrep)) updateContacts := by
  unfold Flow.updateContacts; pw [APrep.saveAccount, APrep.register]
theorem APrep.updateKey : Sat (TR (AllEv APrep)) updateKey := by
  unfold Flow.updateKey; pw [APrep.saveAccount, APrep.register]
theorem APrep.synchronize (v : Variant) : Sat (TR (AllEv APrep)) (synchronize v) := by
  unfold Flow.synchronize; pw [APrep.updateContacts, APrep.updateKey, APrep.register]
theorem APrep.newOrder : Sat (TR (AllEv APrep)) newOrder := by
  unfold Flow.newOrder decodeNewOrder; pw [APrep.register]
theorem APrep.solveChallenges (ty : ChalType) (l : List (ChalType × Nat)) :
    Sat (TR (AllEv APrep)) (solveChallenges ty l) := by
  induction l with
  | nil => unfold Flow.solveChallenges; pw []
  | cons x rest ih => unfold Flow.solveChallenges; pw [ih]
theorem APrep.pollAuthz (a n : Nat) : Sat (TR (AllEv APrep)) (pollAuthz a n) := by
  induction n with
  | zero => unfold Flow.pollAuthz; pw []
  | succ n ih => unfold Flow.pollAuthz; pw [ih]
theorem APrep.cleanHooks (l : List Nat) : Sat (TR (AllEv APrep)) (cleanHooks l) := by
  induction l with
  | nil => unfold Flow.cleanHooks; pw []
  | cons x rest ih => unfold Flow.cleanHooks; pw [ih]
theorem APrep.processAuthz (cfg : Cfg) (a : Nat) : Sat (TR (AllEv APrep)) (processAuthz cfg a) := by
  unfold Flow.processAuthz
  pw [APrep.solveChallenges, APrep.pollAuthz, APrep.cleanHooks]
theorem APrep.processAuthzs (cfg : Cfg) (l : List Nat) :
    Sat (TR (AllEv APrep)) (processAuthzs cfg l) := by
  induction l with
  | nil => unfold Flow.processAuthzs; pw []
  | cons x rest ih => unfold Flow.processAuthzs; pw [ih, APrep.processAuthz]
theorem APrep.pollOrder (want : OrderStatus) (st : Step) (n : Nat) :
    Sat (TR (AllEv APrep)) (pollOrder want st n) := by
  induction n with
  | zero => unfold Flow.pollOrder; pw []
  | succ n ih => unfold Flow.pollOrder; pw [ih]
theorem APrep.refreshDirectory : Sat (TR (AllEv APrep)) refreshDirectory := by
  unfold Flow.refreshDirectory; pw []
theorem APrep.prepareM (v : Variant) (cfg : Cfg) : Sat (TR (AllEv APrep)) (prepareM v cfg) := by
  unfold Flow.prepareM
  pw [APrep.refreshDirectory, APrep.synchronize, APrep.newOrder, APrep.processAuthzs,
      APrep.pollOrder]
end PrepWalk

/-- Events of `fetchPre v k isNew`. -/
def AFetch (v : Variant) (k : KeyId) (isNew : Bool) : Ev → Prop
  | .exch kd a _ _ => a = authOf kd ∧ (kd = .finalize ∨ kd = .orderPoll)
  | .hooks ty _ => (ty = .filePre ∨ ty = .filePost) ∧ isNew = true ∧ v.keyWriteEarly = true
  | .csr k' => k' = k
  | .writeKey k' => k' = k ∧ isNew = true ∧ v.keyWriteEarly = true
  | _ => False

theorem AllEv.pollOrder (P : Ev → Prop) (h : ∀ s r, P (.exch .orderPoll .kid s r))
    (want : OrderStatus) (st : Step) (n : Nat) : Sat (TR (AllEv P)) (pollOrder want st n) := by
  induction n with
  | zero => unfold Flow.pollOrder; exact Sat.failAt (AllEv.tlaw P).law _
  | succ n ih =>
    unfold Flow.pollOrder
    walk [ih] [AllEv.exchange P] (AllEv.tlaw P).law
    exact h _ _

theorem AFetch.writeKey (v : Variant) (k : KeyId) (hv : v.keyWriteEarly = true) :
    Sat (TR (AllEv (AFetch v k true))) (writeKey k) := by
  unfold Flow.writeKey writeFileHooks
  walk [] [AllEv.exchange (AFetch v k true), AllEv.hookGroup (AFetch v k true),
    AllEv.emit (AFetch v k true), AllEv.modFiles (AFetch v k true)] (AllEv.tlaw (AFetch v k true)).law
  all_goals simp [AFetch, hv]

theorem AFetch.fetchPre (v : Variant) (k : KeyId) (isNew : Bool) :
    Sat (TR (AllEv (AFetch v k isNew))) (fetchPre v k isNew) := by
  unfold Flow.fetchPre
  have hp := AllEv.pollOrder (AFetch v k isNew) (by intro s r; simp [AFetch, authOf])
  have hw : (isNew && v.keyWriteEarly) = true → Sat (TR (AllEv (AFetch v k isNew))) (Flow.writeKey k) := by
    intro h
    simp only [Bool.and_eq_true] at h
    rw [h.1]
    exact AFetch.writeKey v k h.2
  walk [hp, hw] [AllEv.exchange (AFetch v k isNew), AllEv.emit (AFetch v k isNew)]
    (AllEv.tlaw (AFetch v k isNew)).law
  all_goals simp [AFetch, authOf]

/-! ### Key pair, download, check: exact behaviour -/

theorem getKeyPair_run (cfg : Cfg) (w : World) :
    ∃ k isNew, getKeyPair cfg w = (.val (k, isNew),
        { w with nextKey := if isNew then w.nextKey + 1 else w.nextKey,
                 trace := w.trace ++ [if isNew then .keygen k else .readKey k] }) ∧
      (isNew = false → cfg.kpReuse = true ∧ w.files.keyFile = some k ∧ w.keyReadable = true) ∧
      (isNew = true → k = w.nextKey) := by
  have hg : genKey w = (.val (w.nextKey, true),
      { w with nextKey := w.nextKey + 1, trace := w.trace ++ [.keygen w.nextKey] }) := rfl
  unfold getKeyPair
  simp only [bind_run, Flow.getW]
  by_cases hr : cfg.kpReuse = true
  · simp only [hr, if_true]
    rcases hk : w.files.keyFile with _ | k <;> cases hrd : w.keyReadable
    · exact ⟨w.nextKey, true, by simp [hg, hrd], by simp, fun _ => rfl⟩
    · exact ⟨w.nextKey, true, by simp [hg, hrd], by simp, fun _ => rfl⟩
    · exact ⟨w.nextKey, true, by simp [hg, hrd], by simp, fun _ => rfl⟩
    · exact ⟨k, false, by simp [bind_run, Flow.emit, pure_run, hrd], fun _ => ⟨trivial, rfl, rfl⟩,
        by simp⟩
  · simp only [hr]
    exact ⟨w.nextKey, true, by simp [hg], by simp, fun _ => rfl⟩

theorem downloadCert_val {w w' : World} {cb : CertBody} (h : downloadCert w = (.val cb, w')) :
    ∃ body rest, w.exs = .ok body :: rest ∧ cb = body.certClass ∧
      w' = { w with exs := rest,
                    trace := w.trace ++ [.exch .certDownload .kid w.acc.curKey (.ok body)] } := by
  unfold downloadCert at h
  simp only [bind_run, Flow.getW, Flow.exchange] at h
  rcases hx : w.exs with _ | ⟨r, rest⟩
  · simp [hx] at h
  · simp only [hx] at h
    cases r with
    | ok body =>
      simp only [pure_run, Prod.mk.injEq, Out.val.injEq] at h
      exact ⟨body, rest, rfl, h.1.symm, h.2.symm⟩
    | acmeErr ty => simp [Flow.failAt] at h
    | otherErr => simp [Flow.failAt] at h

theorem checkBody_snd (v : Variant) (k : KeyId) (cb : CertBody) (w : World) :
    (checkBody v k cb w).2 = w := by
  unfold checkBody
  split
  · split
    · rfl
    · split <;> rfl
  · rfl

theorem checkBody_val {v : Variant} {k : KeyId} {cb : CertBody} {w w' : World} {c : CertContent}
    (h : checkBody v k cb w = (.val c, w')) :
    w' = w ∧ (v.parseBody = true → cb = .chainFor k ∧ c = .chain k) ∧
      (v.parseBody = false → c = cb.content) := by
  have h2 := checkBody_snd v k cb w
  rw [h] at h2
  refine ⟨h2, ?_, ?_⟩
  · intro hp
    unfold checkBody at h
    simp only [hp, if_true] at h
    cases cb with
    | unparseable => simp [Flow.failAt] at h
    | chainFor k' =>
      simp only at h
      by_cases hk : (k' == k) = true
      · simp only [hk, if_true, pure_run, Prod.mk.injEq, Out.val.injEq] at h
        have : k' = k := by simpa using hk
        subst this
        exact ⟨rfl, h.1.symm⟩
      · simp [hk, Flow.failAt] at h
  · intro hp
    unfold checkBody at h
    simp only [hp, Bool.false_eq_true, if_false, pure_run, Prod.mk.injEq, Out.val.injEq] at h
    exact h.1.symm

/-- Anatomy of a run of `obtainM` that returned. -/
theorem obtain_val_inv {v : Variant} {cfg : Cfg} {w w' : World} {k : KeyId} {isNew : Bool}
    {c : CertContent} (h : obtainM v cfg w = (.val (k, isNew, c), w')) :
    ∃ w1 w2 w3 w4 cb, prepareM v cfg w = (.val (), w1) ∧ getKeyPair cfg w1 = (.val (k, isNew), w2) ∧
      fetchPre v k isNew w2 = (.val (), w3) ∧ downloadCert w3 = (.val cb, w4) ∧
      checkBody v k cb w4 = (.val c, w') := by
  unfold obtainM at h
  obtain ⟨_, w1, h1, h⟩ := bind_val_inv h
  obtain ⟨p, w2, h2, h⟩ := bind_val_inv h
  obtain ⟨_, w3, h3, h⟩ := bind_val_inv h
  obtain ⟨cb, w4, h4, h⟩ := bind_val_inv h
  obtain ⟨c', w5, h5, h⟩ := bind_val_inv h
  simp only [pure_run, Prod.mk.injEq, Out.val.injEq] at h
  obtain ⟨⟨rfl, rfl, rfl⟩, rfl⟩ := h
  exact ⟨w1, w2, w3, w4, cb, h1, by rw [h2], h3, h4, h5⟩

theorem attempt_cases (v : Variant) (cfg : Cfg) (w : World) :
    (∃ k isNew c w1, obtainM v cfg w = (.val (k, isNew, c), w1) ∧
        attemptM v cfg w = install v k isNew c w1) ∨
    ((obtainM v cfg w).1.tag ≠ .ok ∧ (attemptM v cfg w).1.tag = (obtainM v cfg w).1.tag ∧
        (attemptM v cfg w).2 = (obtainM v cfg w).2) := by
  unfold attemptM
  rcases bind_cases (obtainM v cfg) (fun q => install v q.1 q.2.1 q.2.2) w with
    ⟨⟨k, isNew, c⟩, w1, h1, h2⟩ | h
  · exact .inl ⟨k, isNew, c, w1, h1, h2⟩
  · exact .inr h

/-- The trace only grows. -/
def Grow : World → Result → World → Prop := TR (AllEv fun _ => True)

theorem Grow.of {P : Ev → Prop} {m : M α} (h : Sat (TR (AllEv P)) m) : Sat Grow m :=
  AllEv.mono (fun _ _ => trivial) h

theorem Grow.ext {m : M α} (h : Sat Grow m) (w : World) : ∃ es, (m w).2.trace = w.trace ++ es := by
  obtain ⟨es, he, _⟩ := h.run w
  exact ⟨es, he⟩

theorem Grow.finalizeOrder : Sat Grow finalizeOrder := by
  unfold Flow.finalizeOrder
  walk [AllEv.pollOrder (fun _ => True) (fun _ _ => trivial)] [AllEv.exchange (fun _ => True)]
    (AllEv.tlaw (fun _ => True)).law

theorem WriteOut.grow {step upd e w o w'} (h : WriteOut step upd e w o w') :
    ∃ es, w'.trace = w.trace ++ es := by
  obtain ⟨_, _, _, _, _, h | h | h | ⟨b, h⟩⟩ := h
  · exact ⟨[], by rw [h.2]; simp⟩
  · exact ⟨_, h.2.2⟩
  · exact ⟨_, h.2.2⟩
  · exact ⟨_, h.2.2⟩

/-- `fetchPre` that returned has put `csr k` in the trace. -/
theorem fetchPre_csr {v : Variant} {k : KeyId} {isNew : Bool} {w w' : World}
    (h : fetchPre v k isNew w = (.val (), w')) : ∃ a b, w'.trace = w.trace ++ (a ++ .csr k :: b) := by
  unfold fetchPre at h
  obtain ⟨_, w1, h1, h⟩ := bind_val_inv h
  obtain ⟨_, w2, h2, h⟩ := bind_val_inv h
  have e2 : w2.trace = w1.trace ++ [.csr k] := by
    simp only [Flow.emit, Prod.mk.injEq] at h2; rw [← h2.2]
  obtain ⟨b, hb⟩ := Grow.ext Grow.finalizeOrder w2
  rw [h] at hb
  have e1 : ∃ a, w1.trace = w.trace ++ a := by
    split at h1
    · have := (writeKey_spec k w).grow
      rw [h1] at this
      exact this
    · simp only [pure_run, Prod.mk.injEq] at h1
      exact ⟨[], by rw [← h1.2]; simp⟩
  obtain ⟨a, ha⟩ := e1
  exact ⟨a, b, by rw [hb, e2, ha]; simp⟩

theorem WriteOut.tag {step upd e w o w'} (h : WriteOut step upd e w o w') :
    o.tag = .ok ∨ o.tag = .failed step ∨ o.tag = .stuck := by
  obtain ⟨_, _, _, _, _, h | h | h | ⟨b, h⟩⟩ := h
  · rw [h.1]; simp
  · rw [h.1]; simp
  · rw [h.1]; simp
  · rw [h.1]; cases b <;> simp

/-- A file write that returned: pre and post hooks succeeded, file updated. -/
theorem WriteOut.val {step upd e w w'} {u : Unit} (h : WriteOut step upd e w (.val u) w') :
    w'.files = upd w.files ∧
      w'.trace = w.trace ++ [.hooks .filePre true, e, .hooks .filePost true] ∧ w'.acc = w.acc := by
  obtain ⟨ha, _, _, _, _, h | h | h | ⟨b, h⟩⟩ := h
  · simp at h
  · simp at h
  · simp at h
  · cases b
    · simp at h
    · exact ⟨h.2.1, h.2.2, ha⟩

theorem install_tag (v : Variant) (k : KeyId) (isNew : Bool) (c : CertContent) (w : World) :
    (install v k isNew c w).1.tag = .ok ∨ (install v k isNew c w).1.tag = .failed .writeKey ∨
    (install v k isNew c w).1.tag = .failed .writeCert ∨ (install v k isNew c w).1.tag = .stuck := by
  rcases install_out v k isNew c w with ⟨_, h⟩ | ⟨_, o1, w1, h1, ⟨_, h2⟩ | ⟨_, h2, _⟩⟩
  · rcases h.tag with h | h | h <;> simp [h]
  · rcases h2.tag with h | h | h <;> simp [h]
  · rw [h2]; rcases h1.tag with h | h | h <;> simp [h]

theorem install_grow (v : Variant) (k : KeyId) (isNew : Bool) (c : CertContent) (w : World) :
    ∃ es, (install v k isNew c w).2.trace = w.trace ++ es := by
  rcases install_out v k isNew c w with ⟨_, h⟩ | ⟨_, o1, w1, h1, ⟨_, h2⟩ | ⟨_, _, h2⟩⟩
  · exact h.grow
  · obtain ⟨a, ha⟩ := h1.grow
    obtain ⟨b, hb⟩ := h2.grow
    exact ⟨a ++ b, by rw [hb, ha]; simp⟩
  · rw [h2]; exact h1.grow

theorem install_val {v : Variant} {k : KeyId} {isNew : Bool} {c : CertContent} {w w' : World}
    (h : install v k isNew c w = (.val (), w')) :
    w'.files.certFile = some c ∧
    w'.files.keyFile = (if (isNew && !v.keyWriteEarly) = true then some k else w.files.keyFile) ∧
    w'.acc = w.acc ∧
    ∃ pre, w'.trace = w.trace ++ (pre ++ [.writeCert c, .hooks .filePost true]) ∧
      ((isNew && !v.keyWriteEarly) = true → .writeKey k ∈ pre) := by
  rcases install_out v k isNew c w with ⟨hn, h1⟩ | ⟨hn, o1, w1, h1, ⟨ho, h2⟩ | ⟨hne, h2, _⟩⟩
  · rw [h] at h1
    obtain ⟨hf, ht, ha⟩ := h1.val
    refine ⟨by rw [hf], by rw [hf, hn]; simp, ha, [.hooks .filePre true], by rw [ht]; simp, ?_⟩
    intro hc; rw [hn] at hc; cases hc
  · rw [h] at h2
    rw [ho] at h1
    obtain ⟨hf1, ht1, ha1⟩ := h1.val
    obtain ⟨hf, ht, ha⟩ := h2.val
    refine ⟨by rw [hf], by rw [hf, hf1, hn]; simp, by rw [ha, ha1],
      [.hooks .filePre true, .writeKey k, .hooks .filePost true, .hooks .filePre true],
      by rw [ht, ht1]; simp, fun _ => by simp⟩
  · rw [h] at h2
    simp at h2
    exact absurd h2.symm hne

/-- Anatomy of an attempt that returned. -/
theorem attempt_ok_anatomy {v : Variant} {cfg : Cfg} {w w' : World}
    (h : attemptM v cfg w = (.val (), w')) :
    ∃ k isNew c cb w1 w2 w3 w4, prepareM v cfg w = (.val (), w1) ∧
      getKeyPair cfg w1 = (.val (k, isNew), w2) ∧ fetchPre v k isNew w2 = (.val (), w3) ∧
      downloadCert w3 = (.val cb, w4) ∧ checkBody v k cb w4 = (.val c, w4) ∧
      install v k isNew c w4 = (.val (), w') := by
  rcases attempt_cases v cfg w with ⟨k, isNew, c, w5, ho, ha⟩ | ⟨hne, ht, _⟩
  · obtain ⟨w1, w2, w3, w4, cb, h1, h2, h3, h4, h5⟩ := obtain_val_inv ho
    have := (checkBody_val h5).1
    subst this
    exact ⟨k, isNew, c, cb, w1, w2, w3, _, h1, h2, h3, h4, h5, by rw [← ha, h]⟩
  · rw [h] at ht
    simp at ht
    exact absurd ht.symm hne

/-- Any event predicate that covers the alphabets of the pieces holds of every event of `obtainM`. -/
theorem AllEv.obtainM (Q : Ev → Prop) (v : Variant) (cfg : Cfg) (h1 : ∀ e, APrep e → Q e)
    (h2 : ∀ k n e, AFetch v k n e → Q e) (h3 : ∀ k, Q (.keygen k)) (h4 : ∀ k, Q (.readKey k))
    (h5 : ∀ s r, Q (.exch .certDownload .kid s r)) : Sat (TR (AllEv Q)) (obtainM v cfg) := by
  have L := (AllEv.tlaw Q).law
  have p1 : Sat (TR (AllEv Q)) (prepareM v cfg) := AllEv.mono h1 (APrep.prepareM v cfg)
  have p2 : Sat (TR (AllEv Q)) (getKeyPair cfg) := by
    unfold Flow.getKeyPair genKey
    walk [] [AllEv.emit Q, AllEv.freshKey Q] L
    · exact h4 _
    · exact h3 _
    · exact h3 _
  have p3 : ∀ k n, Sat (TR (AllEv Q)) (fetchPre v k n) :=
    fun k n => AllEv.mono (h2 k n) (AFetch.fetchPre v k n)
  have p4 : Sat (TR (AllEv Q)) downloadCert := by
    unfold Flow.downloadCert
    walk [] [AllEv.exchange Q] L
    exact h5 _ _
  have p5 : ∀ k cb, Sat (TR (AllEv Q)) (checkBody v k cb) := by
    intro k cb
    unfold Flow.checkBody
    walk [] [] L
  unfold Flow.obtainM
  walk [p1, p2, p3, p4, p5] [] L

/-! ### Counting exchanges (C07 `attempt_bounded`) -/

def isExch : Ev → Bool
  | .exch .. => true
  | _ => false

def exCount (es : List Ev) : Nat := es.countP isExch

@[simp] theorem exCount_nil : exCount [] = 0 := rfl
@[simp] theorem exCount_append (a b : List Ev) : exCount (a ++ b) = exCount a + exCount b :=
  List.countP_append

/-- Size constraints on the bodies the CA may serve: an order lists at most `A` authorisations, an
authorisation offers at most `c` challenges (of known type). -/
def SizeOk (A c : Nat) : ExRes → Prop
  | .ok (.order o) => o.authzs.length ≤ A
  | .ok (.authz b) => b.challenges.length ≤ c
  | _ => True

def Inv (A c : Nat) (w : World) : Prop := ∀ r ∈ w.exs, SizeOk A c r

/-- Under the size invariant: `m` keeps it, emits at most `n` exchanges, and a returned value
satisfies `Q`. -/
structure SatB (A c n : Nat) (Q : α → Prop) (m : M α) : Prop where
  run : ∀ w, Inv A c w → Inv A c (m w).2 ∧
    (∃ es, (m w).2.trace = w.trace ++ es ∧ exCount es ≤ n) ∧ ∀ a, (m w).1 = .val a → Q a

abbrev T {α : Type} : α → Prop := fun _ => True

theorem SatB.le {A c n n' : Nat} {Q : α → Prop} {m : M α} (h : SatB A c n Q m) (hn : n ≤ n') :
    SatB A c n' Q m :=
  ⟨fun w hi => by
    obtain ⟨h1, ⟨es, he, hc⟩, h3⟩ := h.run w hi
    exact ⟨h1, ⟨es, he, Nat.le_trans hc hn⟩, h3⟩⟩

theorem SatB.weaken {A c n : Nat} {Q : α → Prop} {m : M α} (h : SatB A c n Q m) :
    SatB A c n T m :=
  ⟨fun w hi => by
    obtain ⟨h1, h2, _⟩ := h.run w hi
    exact ⟨h1, h2, fun _ _ => trivial⟩⟩

theorem SatB.pure {A c : Nat} (a : α) : SatB A c 0 T (pure a : M α) :=
  ⟨fun w hi => ⟨hi, ⟨[], by simp [pure_run], by simp⟩, fun _ _ => trivial⟩⟩

theorem SatB.pureQ {A c : Nat} {Q : α → Prop} (a : α) (h : Q a) :
    SatB A c 0 Q (Pure.pure a : M α) :=
  ⟨fun w hi => ⟨hi, ⟨[], by simp [pure_run], by simp⟩, fun b hb => by
    simp only [pure_run, Out.val.injEq] at hb; rw [← hb]; exact h⟩⟩

theorem SatB.failAt {A c : Nat} {Q : α → Prop} (s : Step) : SatB A c 0 Q (failAt s : M α) :=
  ⟨fun w hi => ⟨hi, ⟨[], by simp [Flow.failAt], by simp⟩, fun _ hb => by simp [Flow.failAt] at hb⟩⟩

theorem SatB.getW {A c : Nat} : SatB A c 0 T getW :=
  ⟨fun w hi => ⟨hi, ⟨[], by simp [Flow.getW], by simp⟩, fun _ _ => trivial⟩⟩

theorem SatB.emit {A c : Nat} (e : Ev) (h : isExch e = false) : SatB A c 0 T (emit e) :=
  ⟨fun w hi => ⟨hi, ⟨[e], rfl, by simp [exCount, h]⟩, fun _ _ => trivial⟩⟩

theorem SatB.modAcc {A c : Nat} (f : Acc → Acc) : SatB A c 0 T (modAcc f) :=
  ⟨fun w hi => ⟨hi, ⟨[], by simp [Flow.modAcc], by simp⟩, fun _ _ => trivial⟩⟩

theorem SatB.modFiles {A c : Nat} (f : Files → Files) : SatB A c 0 T (modFiles f) :=
  ⟨fun w hi => ⟨hi, ⟨[], by simp [Flow.modFiles], by simp⟩, fun _ _ => trivial⟩⟩

theorem SatB.freshKey {A c : Nat} : SatB A c 0 T freshKey :=
  ⟨fun w hi => ⟨hi, ⟨[], by simp [Flow.freshKey], by simp⟩, fun _ _ => trivial⟩⟩

theorem SatB.hookGroup {A c : Nat} (ty : HookKind) : SatB A c 0 T (hookGroup ty) :=
  ⟨fun w hi => by
    unfold Flow.hookGroup
    cases w.hks with
    | nil => exact ⟨hi, ⟨[], by simp, by simp⟩, fun _ _ => trivial⟩
    | cons b rest => exact ⟨hi, ⟨[_], rfl, by simp [exCount, isExch]⟩, fun _ _ => trivial⟩⟩

theorem SatB.exchange {A c : Nat} (k : ReqKind) (s : KeyId) :
    SatB A c 1 (SizeOk A c) (exchange k s) :=
  ⟨fun w hi => by
    unfold Flow.exchange
    cases hx : w.exs with
    | nil => exact ⟨hi, ⟨[], by simp, by simp⟩, fun _ hb => by simp at hb⟩
    | cons r rest =>
      refine ⟨?_, ⟨[_], rfl, by simp [exCount, isExch]⟩, ?_⟩
      · intro r' hr'
        exact hi r' (by rw [hx]; exact List.mem_cons_of_mem _ hr')
      · intro a ha
        simp only [Out.val.injEq] at ha
        rw [← ha]
        exact hi r (by rw [hx]; exact List.mem_cons_self)⟩

theorem SatB.bind {A c n1 n2 : Nat} {Q1 : α → Prop} {Q2 : β → Prop} {m : M α} {f : α → M β}
    (hm : SatB A c n1 Q1 m) (hf : ∀ a, Q1 a → SatB A c n2 Q2 (f a)) :
    SatB A c (n1 + n2) Q2 (m >>= f) := by
  constructor
  intro w hi
  obtain ⟨i1, ⟨e1, he1, hc1⟩, q1⟩ := hm.run w hi
  rcases bind_cases m f w with ⟨a, w1, x1, x2⟩ | ⟨x1, x2, x3⟩
  · rw [x2]
    rw [x1] at i1 he1 q1
    obtain ⟨i2, ⟨e2, he2, hc2⟩, q2⟩ := (hf a (q1 a rfl)).run w1 i1
    refine ⟨i2, ⟨e1 ++ e2, by rw [he2, he1]; simp, ?_⟩, q2⟩
    rw [exCount_append]
    exact Nat.add_le_add hc1 hc2
  · rw [x3]
    refine ⟨i1, ⟨e1, he1, Nat.le_trans hc1 (Nat.le_add_right _ _)⟩, ?_⟩
    intro b hb
    rw [hb] at x2
    simp at x2
    exact absurd x2.symm x1

section Bounds
variable {A c : Nat}

theorem SatB.ite {n : Nat} {Q : α → Prop} {p : Prop} [Decidable p] {a b : M α}
    (ha : SatB A c n Q a) (hb : SatB A c n Q b) : SatB A c n Q (if p then a else b) := by
  split
  · exact ha
  · exact hb

theorem SatB.writeFileHooks (step : Step) (act : M Unit) (h : SatB A c 0 T act) :
    SatB A c 0 T (writeFileHooks step act) := by
  unfold Flow.writeFileHooks
  refine .le (.bind (.hookGroup _) fun pre _ => .ite ?_ (.failAt _)) (Nat.le_refl 0)
  exact .le (.bind h fun _ _ => .bind (.hookGroup _) fun post _ =>
    .ite (.pure _) (.failAt _)) (Nat.le_refl 0)

theorem SatB.saveAccount : SatB A c 0 T saveAccount :=
  .writeFileHooks _ _ (.emit _ rfl)

theorem SatB.writeKey (k : KeyId) : SatB A c 0 T (writeKey k) :=
  .writeFileHooks _ _ (.le (.bind (.modFiles _) fun _ _ => .emit _ rfl) (Nat.le_refl 0))

theorem SatB.writeCert (x : CertContent) : SatB A c 0 T (writeCert x) :=
  .writeFileHooks _ _ (.le (.bind (.modFiles _) fun _ _ => .emit _ rfl) (Nat.le_refl 0))

theorem SatB.register : SatB A c 1 T register := by
  unfold Flow.register
  refine .le (.bind .getW fun w _ => .bind (.exchange _ _) fun r _ => (?_ : SatB A c 0 T _))
    (Nat.le_refl 1)
  split
  · exact .ite (.le (.bind (.modAcc _) fun _ _ => .saveAccount) (Nat.le_refl 0)) (.failAt _)
  · exact .failAt _

theorem SatB.updateContacts : SatB A c 2 T updateContacts := by
  unfold Flow.updateContacts
  refine .le (.bind .getW fun w _ => .bind (.exchange _ _) fun r _ => (?_ : SatB A c 1 T _))
    (Nat.le_refl 2)
  split
  · exact .le (.bind (.modAcc _) fun _ _ => .saveAccount) (by omega)
  · exact .register
  · exact .le (.failAt _) (by omega)

theorem SatB.updateKey : SatB A c 2 T updateKey := by
  unfold Flow.updateKey
  refine .le (.bind .getW fun w _ => (?_ : SatB A c 2 T _)) (Nat.le_refl 2)
  refine .ite ?_ (.le (.failAt _) (by omega))
  refine .le (.bind (.exchange _ _) fun r _ => (?_ : SatB A c 1 T _)) (Nat.le_refl 2)
  split
  · exact .le (.bind (.modAcc _) fun _ _ => .saveAccount) (by omega)
  · exact .register
  · exact .le (.failAt _) (by omega)

theorem SatB.synchronize (v : Variant) : SatB A c 4 T (synchronize v) := by
  unfold Flow.synchronize
  have hk : ∀ p : Prop, ∀ [Decidable p], SatB A c 2 T (if p then Flow.updateKey else Pure.pure ()) :=
    fun p _ => .ite .updateKey (.le (.pure _) (by omega))
  have hc : ∀ p : Prop, ∀ [Decidable p], SatB A c 2 T (if p then Flow.updateContacts else Pure.pure ()) :=
    fun p _ => .ite .updateContacts (.le (.pure _) (by omega))
  refine .le (.bind .getW fun w _ => (?_ : SatB A c 4 T _)) (by omega)
  refine .ite (.ite (.ite ?_ ?_) ?_) (.le .register (by omega))
  · exact .le (.bind (hk _) fun _ _ => hc _) (by omega)
  · exact .le (.bind (hc _) fun _ _ => hk _) (by omega)
  · exact .le (.bind .register fun _ _ => hc _) (by omega)

theorem SatB.decodeNewOrder (r : ExRes) (hr : SizeOk A c r) :
    SatB A c 0 (fun o : OrderBody => o.authzs.length ≤ A) (decodeNewOrder r) := by
  unfold Flow.decodeNewOrder
  split
  · exact .ite (.pureQ _ hr) (.failAt _)
  · exact .failAt _

theorem SatB.newOrder : SatB A c 3 (fun o : OrderBody => o.authzs.length ≤ A) newOrder := by
  unfold Flow.newOrder
  refine .le (.bind .getW fun w _ => .bind (.exchange _ _) fun r hr =>
    (?_ : SatB A c 2 _ _)) (by omega)
  split
  · exact .le (.bind .register fun _ _ => .bind .getW fun w2 _ => .bind (.exchange _ _)
      fun r2 hr2 => .decodeNewOrder r2 hr2) (by omega)
  · exact .le (.decodeNewOrder r hr) (by omega)

theorem SatB.solveChallenges (ty : ChalType) (l : List (ChalType × Nat)) :
    SatB A c l.length T (solveChallenges ty l) := by
  induction l with
  | nil => unfold Flow.solveChallenges; exact .pure _
  | cons x rest ih =>
    obtain ⟨t, ch⟩ := x
    unfold Flow.solveChallenges
    refine .ite ?_ (.le ih (by simp))
    refine .le (.bind (.hookGroup _) fun ok _ => (?_ : SatB A c (rest.length + 1) T _)) (by simp)
    refine .ite ?_ (.le (.failAt _) (by omega))
    refine .le (.bind .getW fun w _ => .bind (.exchange _ _) fun r _ =>
      (?_ : SatB A c rest.length T _)) (by omega)
    split
    · exact .le (.bind ih fun cs _ => .pure _) (by omega)
    · exact .le (.failAt _) (by omega)

theorem SatB.pollAuthz (a n : Nat) : SatB A c n T (pollAuthz a n) := by
  induction n with
  | zero => unfold Flow.pollAuthz; exact .failAt _
  | succ n ih =>
    unfold Flow.pollAuthz
    refine .le (.bind .getW fun w _ => .bind (.exchange _ _) fun r _ =>
      (?_ : SatB A c n T _)) (by omega)
    split
    · exact .ite (.le (.pure _) (by omega)) ih
    · exact .le (.failAt _) (by omega)

theorem SatB.cleanHooks (l : List Nat) : SatB A c 0 T (cleanHooks l) := by
  induction l with
  | nil => unfold Flow.cleanHooks; exact .pure _
  | cons x rest ih =>
    unfold Flow.cleanHooks
    exact .le (.bind (.hookGroup _) fun ok _ => .ite ih (.failAt _)) (Nat.le_refl 0)

theorem SatB.pollOrder (want : OrderStatus) (st : Step) (n : Nat) :
    SatB A c n T (pollOrder want st n) := by
  induction n with
  | zero => unfold Flow.pollOrder; exact .failAt _
  | succ n ih =>
    unfold Flow.pollOrder
    refine .le (.bind .getW fun w _ => .bind (.exchange _ _) fun r _ =>
      (?_ : SatB A c n T _)) (by omega)
    split
    · exact .ite (.le (.pure _) (by omega)) ih
    · exact .le (.failAt _) (by omega)

/-- Per authorisation: the fetch, one "ready" POST per offered challenge at most, the poll. -/
theorem SatB.processAuthz (cfg : Cfg) (a : Nat) :
    SatB A c (1 + c + Gen.DEFAULT_POOL_NB_TRIES) T (processAuthz cfg a) := by
  unfold Flow.processAuthz
  refine .le (.bind .getW fun w _ => .bind (.exchange _ _) fun r hr =>
    (?_ : SatB A c (c + Gen.DEFAULT_POOL_NB_TRIES) T _)) (by omega)
  split
  · rename_i b
    refine .ite (.le (.pure _) (by omega)) (.ite (.le (.failAt _) (by omega)) ?_)
    split
    · exact .le (.failAt _) (by omega)
    · have hb : b.challenges.length ≤ c := hr
      exact .le (.bind (.solveChallenges _ b.challenges) fun cs _ =>
        .bind (.pollAuthz a _) fun _ _ => .cleanHooks cs) (by omega)
  · exact .le (.failAt _) (by omega)

theorem SatB.processAuthzs (cfg : Cfg) (l : List Nat) :
    SatB A c (l.length * (1 + c + Gen.DEFAULT_POOL_NB_TRIES)) T (processAuthzs cfg l) := by
  induction l with
  | nil => unfold Flow.processAuthzs; exact .le (.pure _) (by omega)
  | cons x rest ih =>
    unfold Flow.processAuthzs
    refine .le (.bind (.processAuthz cfg x) fun _ _ => ih) ?_
    simp only [List.length_cons, Nat.succ_mul]
    omega

theorem SatB.refreshDirectory : SatB A c 1 T refreshDirectory := by
  unfold Flow.refreshDirectory
  refine .le (.bind (.exchange _ _) fun r _ => (?_ : SatB A c 0 T _)) (Nat.le_refl 1)
  split
  · exact .pure _
  · exact .failAt _

theorem SatB.prepareM (v : Variant) (cfg : Cfg) :
    SatB A c (8 + Gen.DEFAULT_POOL_NB_TRIES + A * (1 + c + Gen.DEFAULT_POOL_NB_TRIES)) T
      (prepareM v cfg) := by
  unfold Flow.prepareM
  refine .le (.bind .refreshDirectory fun _ _ => .bind (.synchronize v) fun _ _ =>
    .bind .newOrder fun o ho => (?_ : SatB A c (A * (1 + c + Gen.DEFAULT_POOL_NB_TRIES)
      + Gen.DEFAULT_POOL_NB_TRIES) T _)) (by omega)
  refine .le (.bind (.processAuthzs cfg o.authzs) fun _ _ =>
    .bind (.pollOrder _ _ _) fun _ _ => .pure _) ?_
  have := Nat.mul_le_mul_right (1 + c + Gen.DEFAULT_POOL_NB_TRIES) ho
  omega

theorem SatB.getKeyPair (cfg : Cfg) : SatB A c 0 T (getKeyPair cfg) := by
  have hg : SatB A c 0 T genKey :=
    .le (.bind .freshKey fun k _ => .bind (.emit _ rfl) fun _ _ => .pure _) (Nat.le_refl 0)
  unfold Flow.getKeyPair
  refine .le (.bind .getW fun w _ => (?_ : SatB A c 0 T _)) (Nat.le_refl 0)
  refine .ite ?_ hg
  split
  · exact .le (.bind (.emit _ rfl) fun _ _ => .pure _) (Nat.le_refl 0)
  · exact hg

theorem SatB.finalizeOrder : SatB A c (1 + Gen.DEFAULT_POOL_NB_TRIES) T finalizeOrder := by
  unfold Flow.finalizeOrder
  refine .le (.bind .getW fun w _ => .bind (.exchange _ _) fun r _ =>
    (?_ : SatB A c Gen.DEFAULT_POOL_NB_TRIES T _)) (by omega)
  split
  · exact .le (.bind (.pollOrder _ _ _) fun o _ => .ite (.pure _) (.failAt _)) (by omega)
  · exact .le (.failAt _) (by omega)

theorem SatB.fetchPre (v : Variant) (k : KeyId) (isNew : Bool) :
    SatB A c (1 + Gen.DEFAULT_POOL_NB_TRIES) T (fetchPre v k isNew) := by
  unfold Flow.fetchPre
  exact .le (.bind (.ite (.writeKey k) (.pure _)) fun _ _ => .bind (.emit _ rfl) fun _ _ =>
    .finalizeOrder) (by omega)

theorem SatB.downloadCert : SatB A c 1 T downloadCert := by
  unfold Flow.downloadCert
  refine .le (.bind .getW fun w _ => .bind (.exchange _ _) fun r _ => (?_ : SatB A c 0 T _))
    (Nat.le_refl 1)
  split
  · exact .pure _
  · exact .failAt _

theorem SatB.checkBody (v : Variant) (k : KeyId) (cb : CertBody) :
    SatB A c 0 T (checkBody v k cb) := by
  unfold Flow.checkBody
  refine .ite ?_ (.pure _)
  split
  · exact .failAt _
  · exact .ite (.pure _) (.failAt _)

theorem SatB.install (v : Variant) (k : KeyId) (isNew : Bool) (x : CertContent) :
    SatB A c 0 T (install v k isNew x) := by
  unfold Flow.install
  exact .le (.bind (.ite (.writeKey k) (.pure _)) fun _ _ => .writeCert x) (Nat.le_refl 0)

/-- The bound: `10 + 2·P + A·(1 + c + P)` exchanges, `P` = `DEFAULT_POOL_NB_TRIES`. -/
def attemptBound (A c : Nat) : Nat :=
  10 + 2 * Gen.DEFAULT_POOL_NB_TRIES + A * (1 + c + Gen.DEFAULT_POOL_NB_TRIES)

theorem SatB.attemptM (v : Variant) (cfg : Cfg) :
    SatB A c (attemptBound A c) T (attemptM v cfg) := by
  unfold Flow.attemptM obtainM attemptBound
  exact .le (.bind (.bind (.prepareM v cfg) fun _ _ => .bind (.getKeyPair cfg) fun p _ =>
    .bind (.fetchPre v p.1 p.2) fun _ _ => .bind .downloadCert fun cb _ =>
    .bind (.checkBody v p.1 cb) fun x _ => .pure _) fun q _ => .install v q.1 q.2.1 q.2.2)
    (by omega)
end Bounds

/-! ### Installation seen on the trace (C07 `success_iff_installed`) -/

def NoCertWrite : Ev → Prop
  | .writeCert _ => False
  | _ => True

theorem NoCertWrite.obtainM (v : Variant) (cfg : Cfg) :
    Sat (TR (AllEv NoCertWrite)) (obtainM v cfg) :=
  AllEv.obtainM NoCertWrite v cfg
    (fun e h => by cases e <;> simp_all [APrep, NoCertWrite])
    (fun k n e h => by cases e <;> simp_all [AFetch, NoCertWrite])
    (fun _ => trivial) (fun _ => trivial) (fun _ _ => trivial)

/-- A file write that failed ends the trace with a failed file hook. -/
theorem WriteOut.failed_last {step upd e w o w' s} (h : WriteOut step upd e w o w')
    (ho : o.tag = .failed s) :
    w'.trace.getLast? = some (.hooks .filePre false) ∨
    w'.trace.getLast? = some (.hooks .filePost false) := by
  obtain ⟨_, _, _, _, _, h | h | h | ⟨b, h⟩⟩ := h
  · rw [h.1] at ho; simp at ho
  · left; rw [h.2.2]; simp
  · rw [h.1] at ho; simp at ho
  · cases b
    · right; rw [h.2.2]; simp
    · rw [h.1] at ho; simp at ho

theorem install_failed_last (v : Variant) (k : KeyId) (isNew : Bool) (c : CertContent) (w : World)
    (s : Step) (ho : (install v k isNew c w).1.tag = .failed s) :
    (install v k isNew c w).2.trace.getLast? ≠ some (.hooks .filePost true) := by
  have key : ∀ tr : List Ev, (tr.getLast? = some (.hooks .filePre false) ∨
      tr.getLast? = some (.hooks .filePost false)) → tr.getLast? ≠ some (.hooks .filePost true) := by
    intro tr h
    rcases h with h | h <;> rw [h] <;> simp
  rcases install_out v k isNew c w with ⟨_, h⟩ | ⟨_, o1, w1, h1, ⟨_, h2⟩ | ⟨_, h2, h3⟩⟩
  · exact key _ (h.failed_last ho)
  · exact key _ (h2.failed_last ho)
  · rw [h3]
    rw [h2] at ho
    exact key _ (h1.failed_last ho)

/-! ### The per-certificate loop -/

def isSched : LoopEv → Bool
  | .scheduled _ => true
  | .scheduleErr _ => true
  | _ => false

theorem scheduleLoop_events (files : Files) (ins : List SchedIn) :
    ∀ retries evs rest, scheduleLoop files retries ins = some (evs, rest) →
      ∀ e ∈ evs, isSched e = true := by
  induction ins with
  | nil =>
    intro retries evs rest h
    unfold scheduleLoop at h
    split at h
    · simp only [Option.some.injEq, Prod.mk.injEq] at h
      rw [← h.1]; simp [isSched]
    · simp at h
  | cons i tl ih =>
    intro retries evs rest h
    unfold scheduleLoop at h
    split at h
    · simp only [Option.some.injEq, Prod.mk.injEq] at h
      rw [← h.1]; simp [isSched]
    · simp only at h
      split at h
      · simp only [Option.some.injEq, Prod.mk.injEq] at h
        rw [← h.1]; simp [isSched]
      · split at h
        · simp at h
        · rename_i evs' rest' hrec
          simp only [Option.some.injEq, Prod.mk.injEq] at h
          rw [← h.1]
          intro e he
          rcases List.mem_cons.mp he with rfl | he
          · rfl
          · exact ih _ _ _ hrec e he

/-- Shape of one round of `renew_certificate`. -/
theorem renewOnce_shape {v : Variant} {fw : Nat} {cfg : Cfg} {w w' : World} {evs : List LoopEv}
    (h : renewOnce v fw cfg w = some (evs, w')) :
    ∃ sevs scheds' r tr w1 hk hks',
      scheduleLoop w.files 0 w.scheds = some (sevs, scheds') ∧
      attempt v cfg { w with scheds := scheds' } = (r, tr, w1) ∧
      r ≠ .stuck ∧ w1.hks = hk :: hks' ∧ w' = { w1 with hks := hks' } ∧
      evs = sevs ++ [.attempt r tr, .postOp (r == .ok) hk] ++
        (if (!(r == .ok) && v.pauseAfterFail) = true then [.pause fw] else []) := by
  unfold renewOnce at h
  split at h
  · simp at h
  · rename_i sevs scheds' hs
    rcases ha : attempt v cfg { w with scheds := scheds' } with ⟨r, tr, w1⟩
    simp only [ha] at h
    split at h
    · simp at h
    · rename_i hne
      split at h
      · simp at h
      · rename_i hk hks' hh
        simp only [Option.some.injEq, Prod.mk.injEq] at h
        exact ⟨sevs, scheds', r, tr, w1, hk, hks', hs, ha, fun e => hne e, hh, h.2.symm, h.1.symm⟩

theorem renewLoop_mem {v : Variant} {fw : Nat} {cfg : Cfg} {round : List LoopEv} :
    ∀ n w, round ∈ renewLoop v fw cfg n w → ∃ w0 w', renewOnce v fw cfg w0 = some (round, w') := by
  intro n
  induction n with
  | zero => intro w h; simp [renewLoop] at h
  | succ n ih =>
    intro w h
    unfold renewLoop at h
    split at h
    · simp at h
    · rename_i evs w' hr
      rcases List.mem_cons.mp h with rfl | h
      · exact ⟨w, w', hr⟩
      · exact ih w' h

theorem attempt_result_tag (v : Variant) (cfg : Cfg) (w : World) :
    (attempt v cfg w).1 = (attemptM v cfg { w with trace := [] }).1.tag :=
  Out.result_eq_tag _

end AcmedVerif.Flow
