/-
Proof framework for `Model/Flow.lean` (DESIGN Appendix E5).

* `Law R` / `Sat R m`: a relation `R w tag w'` between the world before, the outcome tag
  (`Result`: ok | failed step | stuck) and the world after, that is reflexive and composes through
  `ok`; `Sat R m` = every run of `m` satisfies it.  `Sat.bind` glues pieces.
* `TLaw Φ` / trace relations: `R w t w' := ∃ es, w'.trace = w.trace ++ es ∧ Φ es t`.
* `walk [lemmas]`: walks a definition along `>>=`, `match`, `if`.
-/
import AcmedVerif.Model.Flow

namespace AcmedVerif.Flow

/-! ### Outcome tags, basic run lemmas -/

def Out.tag : Out α → Result
  | .val _ => .ok
  | .fail s => .failed s
  | .stuck => .stuck

@[simp] theorem Out.tag_val (a : α) : (Out.val a).tag = .ok := rfl
@[simp] theorem Out.tag_fail (s : Step) : (Out.fail s : Out α).tag = .failed s := rfl
@[simp] theorem Out.tag_stuck : (Out.stuck : Out α).tag = .stuck := rfl

theorem Out.result_eq_tag (o : Out Unit) : o.result = o.tag := by cases o <;> rfl

theorem bind_run (m : M α) (f : α → M β) (w : World) :
    (m >>= f) w = match m w with
      | (.val a, w1) => f a w1
      | (.fail s, w1) => (.fail s, w1)
      | (.stuck, w1) => (.stuck, w1) := rfl

theorem pure_run (a : α) (w : World) : (pure a : M α) w = (.val a, w) := rfl

/-- Inversion of a bind: either the first part did not return (same tag, same world), or it
returned `a` in world `w1` and the whole is the continuation from there. -/
theorem bind_cases (m : M α) (f : α → M β) (w : World) :
    (∃ a w1, m w = (.val a, w1) ∧ (m >>= f) w = f a w1) ∨
    ((m w).1.tag ≠ .ok ∧ ((m >>= f) w).1.tag = (m w).1.tag ∧ ((m >>= f) w).2 = (m w).2) := by
  rw [bind_run]
  rcases h : m w with ⟨o, w1⟩
  cases o with
  | val a => exact .inl ⟨a, w1, rfl, rfl⟩
  | fail s => exact .inr ⟨by simp, rfl, rfl⟩
  | stuck => exact .inr ⟨by simp, rfl, rfl⟩

theorem bind_val_inv {m : M α} {f : α → M β} {w w' : World} {b : β}
    (h : (m >>= f) w = (.val b, w')) : ∃ a w1, m w = (.val a, w1) ∧ f a w1 = (.val b, w') := by
  rcases bind_cases m f w with ⟨a, w1, h1, h2⟩ | ⟨h1, h2, _⟩
  · exact ⟨a, w1, h1, by rw [← h2, h]⟩
  · rw [h] at h2; simp at h2; exact absurd h2.symm h1

/-! ### Relations that compose -/

structure Law (R : World → Result → World → Prop) : Prop where
  refl : ∀ t w, R w t w
  trans : ∀ {w1 w2 w3 t}, R w1 .ok w2 → R w2 t w3 → R w1 t w3

structure Sat (R : World → Result → World → Prop) (m : M α) : Prop where
  run : ∀ w, R w (m w).1.tag (m w).2

theorem Sat.pure {R} (L : Law R) (a : α) : Sat R (pure a : M α) := ⟨fun w => L.refl _ w⟩

theorem Sat.failAt {R} (L : Law R) (s : Step) : Sat R (failAt s : M α) := ⟨fun w => L.refl _ w⟩

theorem Sat.getW {R} (L : Law R) : Sat R getW := ⟨fun w => L.refl _ w⟩

theorem Sat.bind {R} (L : Law R) {m : M α} {f : α → M β} (hm : Sat R m)
    (hf : ∀ a, Sat R (f a)) : Sat R (m >>= f) := by
  constructor
  intro w
  have h1 := hm.run w
  rcases bind_cases m f w with ⟨a, w1, e1, e2⟩ | ⟨_, e2, e3⟩
  · rw [e2]; rw [e1] at h1; exact L.trans h1 ((hf a).run w1)
  · rw [e2, e3]; exact h1

/-- Walk a monadic definition: try the given lemmas, then the generic ones. -/
syntax "walk " "[" term,* "]" "[" term,* "]" term : tactic
macro_rules
  | `(tactic| walk [$ts,*] [$ps,*] $L) =>
    `(tactic| repeat' (first
        | intro _
        $[| exact $ts]*
        $[| exact $ps]*
        $[| apply $ts]*
        $[| apply $ps]*
        | exact Sat.pure $L _
        | exact Sat.failAt $L _
        | exact Sat.getW $L
        | apply Sat.bind $L
        | trivial
        | split))

/-! ### Trace relations -/

structure TLaw (Φ : List Ev → Result → Prop) : Prop where
  nil : ∀ t, Φ [] t
  app : ∀ {a b t}, Φ a .ok → Φ b t → Φ (a ++ b) t

def TR (Φ : List Ev → Result → Prop) : World → Result → World → Prop :=
  fun w t w' => ∃ es, w'.trace = w.trace ++ es ∧ Φ es t

theorem TLaw.law {Φ} (T : TLaw Φ) : Law (TR Φ) where
  refl := fun t w => ⟨[], by simp, T.nil t⟩
  trans := by
    rintro w1 w2 w3 t ⟨a, ha, pa⟩ ⟨b, hb, pb⟩
    exact ⟨a ++ b, by rw [hb, ha, List.append_assoc], T.app pa pb⟩

theorem TR.emit {Φ} (e : Ev) (h : Φ [e] .ok) : Sat (TR Φ) (emit e) :=
  ⟨fun _ => ⟨[e], rfl, h⟩⟩

theorem TR.modAcc {Φ} (T : TLaw Φ) (f : Acc → Acc) : Sat (TR Φ) (modAcc f) :=
  ⟨fun _ => ⟨[], by simp [Flow.modAcc], T.nil _⟩⟩

theorem TR.modFiles {Φ} (T : TLaw Φ) (f : Files → Files) : Sat (TR Φ) (modFiles f) :=
  ⟨fun _ => ⟨[], by simp [Flow.modFiles], T.nil _⟩⟩

theorem TR.freshKey {Φ} (T : TLaw Φ) : Sat (TR Φ) freshKey :=
  ⟨fun _ => ⟨[], by simp [Flow.freshKey], T.nil _⟩⟩

theorem TR.exchange {Φ} (T : TLaw Φ) (kind : ReqKind) (signer : KeyId)
    (h : ∀ r, Φ [.exch kind (authOf kind) signer r] .ok) : Sat (TR Φ) (exchange kind signer) := by
  constructor
  intro w
  unfold Flow.exchange
  cases hx : w.exs with
  | nil => exact ⟨[], by simp, T.nil _⟩
  | cons r rest => exact ⟨[_], rfl, h r⟩

theorem TR.hookGroup {Φ} (T : TLaw Φ) (ty : HookKind)
    (h : ∀ b, Φ [.hooks ty b] .ok) : Sat (TR Φ) (hookGroup ty) := by
  constructor
  intro w
  unfold Flow.hookGroup
  cases hx : w.hks with
  | nil => exact ⟨[], by simp, T.nil _⟩
  | cons r rest => exact ⟨[_], rfl, h r⟩

/-- Trace relations given by a predicate on single events. -/
def AllEv (P : Ev → Prop) : List Ev → Result → Prop := fun es _ => ∀ e ∈ es, P e

theorem AllEv.tlaw (P : Ev → Prop) : TLaw (AllEv P) where
  nil := by intro t e he; cases he
  app := by
    intro a b t ha hb e he
    rcases List.mem_append.mp he with h | h
    · exact ha e h
    · exact hb e h

theorem AllEv.single {P : Ev → Prop} {e : Ev} {t : Result} (h : P e) : AllEv P [e] t := by
  intro e' he; rw [List.mem_singleton] at he; rw [he]; exact h

theorem Sat.mono {R R' : World → Result → World → Prop} {m : M α}
    (h : ∀ w t w', R w t w' → R' w t w') (hm : Sat R m) : Sat R' m :=
  ⟨fun w => h _ _ _ (hm.run w)⟩

theorem AllEv.mono {P Q : Ev → Prop} (h : ∀ e, P e → Q e) {m : M α}
    (hm : Sat (TR (AllEv P)) m) : Sat (TR (AllEv Q)) m :=
  hm.mono fun _ _ _ ⟨es, he, hp⟩ => ⟨es, he, fun e hx => h e (hp e hx)⟩

/-! ### Frame: what only the two file writes (and `freshKey`) may change -/

def Frame : World → Result → World → Prop := fun w _ w' =>
  w'.files = w.files ∧ w'.keyReadable = w.keyReadable ∧ w'.acc.curKey = w.acc.curKey ∧
  w'.scheds = w.scheds

theorem Frame.law : Law Frame where
  refl := fun _ _ => ⟨rfl, rfl, rfl, rfl⟩
  trans := by
    rintro w1 w2 w3 t ⟨a1, a2, a3, a4⟩ ⟨b1, b2, b3, b4⟩
    exact ⟨b1.trans a1, b2.trans a2, b3.trans a3, b4.trans a4⟩

theorem Frame.exchange (k : ReqKind) (s : KeyId) : Sat Frame (exchange k s) := by
  constructor; intro w; unfold Flow.exchange
  cases w.exs <;> exact ⟨rfl, rfl, rfl, rfl⟩

theorem Frame.hookGroup (ty : HookKind) : Sat Frame (hookGroup ty) := by
  constructor; intro w; unfold Flow.hookGroup
  cases w.hks <;> exact ⟨rfl, rfl, rfl, rfl⟩

theorem Frame.emit (e : Ev) : Sat Frame (emit e) := ⟨fun _ => ⟨rfl, rfl, rfl, rfl⟩⟩

theorem Frame.freshKey : Sat Frame freshKey := ⟨fun _ => ⟨rfl, rfl, rfl, rfl⟩⟩

theorem Frame.modAcc (f : Acc → Acc) (h : ∀ a, (f a).curKey = a.curKey) : Sat Frame (modAcc f) :=
  ⟨fun w => ⟨rfl, rfl, h w.acc, rfl⟩⟩

section FrameWalk
local macro "fw" "[" ts:term,* "]" : tactic =>
  `(tactic| walk [$ts,*] [Frame.exchange, Frame.hookGroup, Frame.emit, Frame.freshKey,
                  Frame.modAcc] Frame.law)

theorem Frame.saveAccount : Sat Frame saveAccount := by
  unfold Flow.saveAccount writeFileHooks; fw []
theorem Frame.register : Sat Frame register := by
  unfold Flow.register; fw [Frame.saveAccount]
theorem Frame.updateContacts : Sat Frame updateContacts := by
  unfold Flow.updateContacts; fw [Frame.saveAccount, Frame.register]
theorem Frame.checkNewKey : Sat Frame checkNewKey := by
  unfold Flow.checkNewKey; fw [Frame.saveAccount]
theorem Frame.keyChangeStep (ca : Bool) : Sat Frame (keyChangeStep ca) := by
  unfold Flow.keyChangeStep; fw [Frame.saveAccount, Frame.register, Frame.checkNewKey]
theorem Frame.keyChangeChecked : Sat Frame keyChangeChecked := by
  unfold Flow.keyChangeChecked; fw [Frame.keyChangeStep, Frame.checkNewKey]
theorem Frame.updateKey (v : Variant) : Sat Frame (updateKey v) := by
  unfold Flow.updateKey; fw [Frame.keyChangeStep, Frame.keyChangeChecked]
theorem Frame.synchronize (v : Variant) : Sat Frame (synchronize v) := by
  unfold Flow.synchronize; fw [Frame.updateContacts, Frame.updateKey, Frame.register]
theorem Frame.newOrder : Sat Frame newOrder := by
  unfold Flow.newOrder decodeNewOrder; fw [Frame.register]
theorem Frame.solveChallenges (ty : ChalType) (l : List (ChalType × Nat)) :
    Sat Frame (solveChallenges ty l) := by
  induction l with
  | nil => unfold Flow.solveChallenges; fw []
  | cons x rest ih => unfold Flow.solveChallenges; fw [ih]
theorem Frame.pollAuthz (a n : Nat) : Sat Frame (pollAuthz a n) := by
  induction n with
  | zero => unfold Flow.pollAuthz; fw []
  | succ n ih => unfold Flow.pollAuthz; fw [ih]
theorem Frame.cleanHooks (l : List Nat) : Sat Frame (cleanHooks l) := by
  induction l with
  | nil => unfold Flow.cleanHooks; fw []
  | cons x rest ih => unfold Flow.cleanHooks; fw [ih]
theorem Frame.processAuthz (cfg : Cfg) (a : Nat) : Sat Frame (processAuthz cfg a) := by
  unfold Flow.processAuthz
  fw [Frame.solveChallenges, Frame.pollAuthz, Frame.cleanHooks]
theorem Frame.processAuthzs (cfg : Cfg) (l : List Nat) : Sat Frame (processAuthzs cfg l) := by
  induction l with
  | nil => unfold Flow.processAuthzs; fw []
  | cons x rest ih => unfold Flow.processAuthzs; fw [ih, Frame.processAuthz]
theorem Frame.pollOrder (want : OrderStatus) (st : Step) (n : Nat) :
    Sat Frame (pollOrder want st n) := by
  induction n with
  | zero => unfold Flow.pollOrder; fw []
  | succ n ih => unfold Flow.pollOrder; fw [ih]
theorem Frame.refreshDirectory : Sat Frame refreshDirectory := by
  unfold Flow.refreshDirectory; fw []
theorem Frame.prepareM (v : Variant) (cfg : Cfg) : Sat Frame (prepareM v cfg) := by
  unfold Flow.prepareM
  fw [Frame.refreshDirectory, Frame.synchronize, Frame.newOrder, Frame.processAuthzs,
      Frame.pollOrder]
theorem Frame.getKeyPair (cfg : Cfg) : Sat Frame (getKeyPair cfg) := by
  unfold Flow.getKeyPair genKey; fw []
theorem Frame.fetchPre (v : Variant) (hv : v.keyWriteEarly = false) (k : KeyId) (isNew : Bool) :
    Sat Frame (fetchPre v k isNew) := by
  unfold Flow.fetchPre
  simp only [hv, Bool.and_false, Bool.false_eq_true, if_false]
  fw [Frame.pollOrder]
theorem Frame.downloadCert : Sat Frame downloadCert := by
  unfold Flow.downloadCert; fw []
theorem Frame.checkBody (v : Variant) (k : KeyId) (cb : CertBody) : Sat Frame (checkBody v k cb) := by
  unfold Flow.checkBody; fw []
theorem Frame.obtainM (v : Variant) (hv : v.keyWriteEarly = false) (cfg : Cfg) :
    Sat Frame (obtainM v cfg) := by
  unfold Flow.obtainM
  fw [Frame.prepareM, Frame.getKeyPair, Frame.fetchPre v hv, Frame.downloadCert, Frame.checkBody]
end FrameWalk

/-! ### Direct run lemmas for the small pieces -/

theorem writeFileHooks_run (step : Step) (act : M Unit) (g : World → World)
    (hact : ∀ w, act w = (.val (), g w)) (hg : ∀ w, (g w).hks = w.hks) (w : World) :
    writeFileHooks step act w =
      match w.hks with
      | [] => (.stuck, w)
      | false :: rest => (.fail step, { w with hks := rest, trace := w.trace ++ [.hooks .filePre false] })
      | true :: rest =>
        let w1 := g { w with hks := rest, trace := w.trace ++ [.hooks .filePre true] }
        match rest with
        | [] => (.stuck, w1)
        | b :: rest' =>
          (if b then .val () else .fail step,
           { w1 with hks := rest', trace := w1.trace ++ [.hooks .filePost b] }) := by
  unfold writeFileHooks
  simp only [bind_run, hookGroup]
  rcases hh : w.hks with _ | ⟨b, rest⟩
  · simp
  · cases b
    · simp [failAt]
    · simp only [if_true]
      have := hg { w with hks := rest, trace := w.trace ++ [.hooks .filePre true] }
      simp only at this
      rcases rest with _ | ⟨b2, rest'⟩
      · simp [bind_run, hact, hookGroup, this]
      · cases b2 <;> simp [bind_run, hact, hookGroup, this, failAt, pure_run]

/-- Outcome of one file write through `write_file` with file update `upd` and event `e`. -/
def WriteOut (step : Step) (upd : Files → Files) (e : Ev) (w : World) (o : Out Unit) (w' : World) :
    Prop :=
  w'.acc = w.acc ∧ w'.exs = w.exs ∧ w'.keyReadable = w.keyReadable ∧ w'.nextKey = w.nextKey ∧
  w'.scheds = w.scheds ∧
  ((o = .stuck ∧ w' = w) ∨
   (o = .fail step ∧ w'.files = w.files ∧ w'.trace = w.trace ++ [.hooks .filePre false]) ∨
   (o = .stuck ∧ w'.files = upd w.files ∧ w'.trace = w.trace ++ [.hooks .filePre true, e]) ∨
   (∃ b, o = (if b then .val () else .fail step) ∧ w'.files = upd w.files ∧
      w'.trace = w.trace ++ [.hooks .filePre true, e, .hooks .filePost b]))

theorem writeKey_spec (k : KeyId) (w : World) :
    WriteOut .writeKey (fun f => { f with keyFile := some k }) (.writeKey k) w
      (writeKey k w).1 (writeKey k w).2 := by
  unfold writeKey
  rw [writeFileHooks_run .writeKey
    (do modFiles fun f => { f with keyFile := some k }
        emit (.writeKey k))
    (fun w => { w with files := { w.files with keyFile := some k }, trace := w.trace ++ [.writeKey k] })
    (fun w => rfl) (fun w => rfl) w]
  unfold WriteOut
  rcases w.hks with _ | ⟨b, _ | ⟨b2, rest⟩⟩
  · simp
  · cases b <;> simp
  · cases b <;> simp

theorem writeCert_spec (c : CertContent) (w : World) :
    WriteOut .writeCert (fun f => { f with certFile := some c }) (.writeCert c) w
      (writeCert c w).1 (writeCert c w).2 := by
  unfold writeCert
  rw [writeFileHooks_run .writeCert
    (do modFiles fun f => { f with certFile := some c }
        emit (.writeCert c))
    (fun w => { w with files := { w.files with certFile := some c }, trace := w.trace ++ [.writeCert c] })
    (fun w => rfl) (fun w => rfl) w]
  unfold WriteOut
  rcases w.hks with _ | ⟨b, _ | ⟨b2, rest⟩⟩
  · simp
  · cases b <;> simp
  · cases b <;> simp

theorem install_out (v : Variant) (k : KeyId) (isNew : Bool) (c : CertContent) (w : World) :
    ((isNew && !v.keyWriteEarly) = false ∧
      WriteOut .writeCert (fun f => { f with certFile := some c }) (.writeCert c) w
        (install v k isNew c w).1 (install v k isNew c w).2) ∨
    ((isNew && !v.keyWriteEarly) = true ∧ ∃ o1 w1,
      WriteOut .writeKey (fun f => { f with keyFile := some k }) (.writeKey k) w o1 w1 ∧
      ((o1 = .val () ∧
        WriteOut .writeCert (fun f => { f with certFile := some c }) (.writeCert c) w1
          (install v k isNew c w).1 (install v k isNew c w).2) ∨
       (o1.tag ≠ .ok ∧ (install v k isNew c w).1.tag = o1.tag ∧ (install v k isNew c w).2 = w1))) := by
  unfold install
  cases hn : (isNew && !v.keyWriteEarly)
  · left
    refine ⟨rfl, ?_⟩
    simp only [Bool.false_eq_true, if_false, bind_run, pure_run]
    exact writeCert_spec c w
  · right
    refine ⟨rfl, (writeKey k w).1, (writeKey k w).2, writeKey_spec k w, ?_⟩
    simp only [if_true]
    rcases bind_cases (writeKey k) (fun _ => writeCert c) w with ⟨a, w1, h1, h2⟩ | ⟨h1, h2, h3⟩
    · left
      rw [h2, h1]
      exact ⟨rfl, writeCert_spec c w1⟩
    · right
      exact ⟨h1, h2, h3⟩

/-! ### Alphabets: which events each piece can emit -/

theorem AllEv.exchange (P : Ev → Prop) (k : ReqKind) (s : KeyId)
    (h : ∀ r, P (.exch k (authOf k) s r)) : Sat (TR (AllEv P)) (exchange k s) :=
  TR.exchange (AllEv.tlaw P) k s fun r => AllEv.single (h r)
theorem AllEv.hookGroup (P : Ev → Prop) (ty : HookKind) (h : ∀ b, P (.hooks ty b)) :
    Sat (TR (AllEv P)) (hookGroup ty) :=
  TR.hookGroup (AllEv.tlaw P) ty fun b => AllEv.single (h b)
theorem AllEv.emit (P : Ev → Prop) (e : Ev) (h : P e) : Sat (TR (AllEv P)) (emit e) :=
  TR.emit e (AllEv.single h)
theorem AllEv.modAcc (P : Ev → Prop) (f : Acc → Acc) : Sat (TR (AllEv P)) (modAcc f) :=
  TR.modAcc (AllEv.tlaw P) f
theorem AllEv.modFiles (P : Ev → Prop) (f : Files → Files) : Sat (TR (AllEv P)) (modFiles f) :=
  TR.modFiles (AllEv.tlaw P) f
theorem AllEv.freshKey (P : Ev → Prop) : Sat (TR (AllEv P)) freshKey :=
  TR.freshKey (AllEv.tlaw P)

/-- Events of `prepareM`: authenticated as `authOf` says, no finalize / download, only challenge,
clean and file hooks, account saves; no key or certificate event. -/
def APrep : Ev → Prop
  | .exch k a _ _ => a = authOf k ∧ k ≠ .finalize ∧ k ≠ .certDownload
  | .hooks ty _ => ty ≠ .postOperation
  | .saveAccount => True
  | _ => False

section PrepWalk
local macro "pw" "[" ts:term,* "]" : tactic =>
  `(tactic| (walk [$ts,*] [AllEv.exchange APrep, AllEv.hookGroup APrep, AllEv.emit APrep,
                  AllEv.freshKey APrep, AllEv.modAcc APrep, AllEv.modFiles APrep]
                  (AllEv.tlaw APrep).law
             all_goals simp [APrep, authOf]))

theorem APrep.saveAccount : Sat (TR (AllEv APrep)) saveAccount := by
  unfold Flow.saveAccount writeFileHooks; pw []
theorem APrep.register : Sat (TR (AllEv APrep)) register := by
  unfold Flow.register; pw [APrep.saveAccount]
theorem APrep.updateContacts : Sat (TR (AllEv APrep)) updateContacts := by
  unfold Flow.updateContacts; pw [APrep.saveAccount, APrep.register]
theorem APrep.checkNewKey : Sat (TR (AllEv APrep)) checkNewKey := by
  unfold Flow.checkNewKey; pw [APrep.saveAccount]
theorem APrep.keyChangeStep (ca : Bool) : Sat (TR (AllEv APrep)) (keyChangeStep ca) := by
  unfold Flow.keyChangeStep; pw [APrep.saveAccount, APrep.register, APrep.checkNewKey]
theorem APrep.keyChangeChecked : Sat (TR (AllEv APrep)) keyChangeChecked := by
  unfold Flow.keyChangeChecked; pw [APrep.keyChangeStep, APrep.checkNewKey]
theorem APrep.updateKey (v : Variant) : Sat (TR (AllEv APrep)) (updateKey v) := by
  unfold Flow.updateKey; pw [APrep.keyChangeStep, APrep.keyChangeChecked]
theorem APrep.synchronize (v : Variant) : Sat (TR (AllEv APrep)) (synchronize v) := by
  unfold Flow.synchronize; pw [APrep.updateContacts, APrep.updateKey, APrep.register]
theorem APrep.newOrder : Sat (TR (AllEv APrep)) newOrder := by
  unfold Flow.newOrder decodeNewOrder; pw [APrep.register]
theorem APrep.solveChallenges (ty : ChalType) (l : List (ChalType × Nat)) :
    Sat (TR (AllEv APrep)) (solveChallenges ty l) := by
  induction l with
  | nil => unfold Flow.solveChallenges; pw []
  | cons x rest ih => unfold Flow.solveChallenges; pw [ih]
theorem APrep.pollAuthz (a n : Nat) : Sat (TR (AllEv APrep)) (pollAuthz a n) := by
  induction n with
  | zero => unfold Flow.pollAuthz; pw []
  | succ n ih => unfold Flow.pollAuthz; pw [ih]
theorem APrep.cleanHooks (l : List Nat) : Sat (TR (AllEv APrep)) (cleanHooks l) := by
  induction l with
  | nil => unfold Flow.cleanHooks; pw []
  | cons x rest ih => unfold Flow.cleanHooks; pw [ih]
theorem APrep.processAuthz (cfg : Cfg) (a : Nat) : Sat (TR (AllEv APrep)) (processAuthz cfg a) := by
  unfold Flow.processAuthz
  pw [APrep.solveChallenges, APrep.pollAuthz, APrep.cleanHooks]
theorem APrep.processAuthzs (cfg : Cfg) (l : List Nat) :
    Sat (TR (AllEv APrep)) (processAuthzs cfg l) := by
  induction l with
  | nil => unfold Flow.processAuthzs; pw []
  | cons x rest ih => unfold Flow.processAuthzs; pw [ih, APrep.processAuthz]
theorem APrep.pollOrder (want : OrderStatus) (st : Step) (n : Nat) :
    Sat (TR (AllEv APrep)) (pollOrder want st n) := by
  induction n with
  | zero => unfold Flow.pollOrder; pw []
  | succ n ih => unfold Flow.pollOrder; pw [ih]
theorem APrep.refreshDirectory : Sat (TR (AllEv APrep)) refreshDirectory := by
  unfold Flow.refreshDirectory; pw []
theorem APrep.prepareM (v : Variant) (cfg : Cfg) : Sat (TR (AllEv APrep)) (prepareM v cfg) := by
  unfold Flow.prepareM
  pw [APrep.refreshDirectory, APrep.synchronize, APrep.newOrder, APrep.processAuthzs,
      APrep.pollOrder]
end PrepWalk

/-- Events of `fetchPre v k isNew`. -/
def AFetch (v : Variant) (k : KeyId) (isNew : Bool) : Ev → Prop
  | .exch kd a _ _ => a = authOf kd ∧ (kd = .finalize ∨ kd = .orderPoll)
  | .hooks ty _ => (ty = .filePre ∨ ty = .filePost) ∧ isNew = true ∧ v.keyWriteEarly = true
  | .csr k' => k' = k
  | .writeKey k' => k' = k ∧ isNew = true ∧ v.keyWriteEarly = true
  | _ => False

theorem AllEv.pollOrder (P : Ev → Prop) (h : ∀ s r, P (.exch .orderPoll .kid s r))
    (want : OrderStatus) (st : Step) (n : Nat) : Sat (TR (AllEv P)) (pollOrder want st n) := by
  induction n with
  | zero => unfold Flow.pollOrder; exact Sat.failAt (AllEv.tlaw P).law _
  | succ n ih =>
    unfold Flow.pollOrder
    walk [ih] [AllEv.exchange P] (AllEv.tlaw P).law
    exact h _ _

theorem AFetch.writeKey (v : Variant) (k : KeyId) (hv : v.keyWriteEarly = true) :
    Sat (TR (AllEv (AFetch v k true))) (writeKey k) := by
  unfold Flow.writeKey writeFileHooks
  walk [] [AllEv.exchange (AFetch v k true), AllEv.hookGroup (AFetch v k true),
    AllEv.emit (AFetch v k true), AllEv.modFiles (AFetch v k true)] (AllEv.tlaw (AFetch v k true)).law
  all_goals simp [AFetch, hv]

theorem AFetch.fetchPre (v : Variant) (k : KeyId) (isNew : Bool) :
    Sat (TR (AllEv (AFetch v k isNew))) (fetchPre v k isNew) := by
  unfold Flow.fetchPre
  have hp := AllEv.pollOrder (AFetch v k isNew) (by intro s r; simp [AFetch, authOf])
  have hw : (isNew && v.keyWriteEarly) = true → Sat (TR (AllEv (AFetch v k isNew))) (Flow.writeKey k) := by
    intro h
    simp only [Bool.and_eq_true] at h
    rw [h.1]
    exact AFetch.writeKey v k h.2
  walk [hp, hw] [AllEv.exchange (AFetch v k isNew), AllEv.emit (AFetch v k isNew)]
    (AllEv.tlaw (AFetch v k isNew)).law
  all_goals simp [AFetch, authOf]

/-! ### Key pair, download, check: exact behaviour -/

theorem getKeyPair_run (cfg : Cfg) (w : World) :
    ∃ k isNew, getKeyPair cfg w = (.val (k, isNew),
        { w with nextKey := if isNew then w.nextKey + 1 else w.nextKey,
                 trace := w.trace ++ [if isNew then .keygen k else .readKey k] }) ∧
      (isNew = false → cfg.kpReuse = true ∧ w.files.keyFile = some k ∧ w.keyReadable = true) ∧
      (isNew = true → k = w.nextKey) := by
  have hg : genKey w = (.val (w.nextKey, true),
      { w with nextKey := w.nextKey + 1, trace := w.trace ++ [.keygen w.nextKey] }) := rfl
  unfold getKeyPair
  simp only [bind_run, Flow.getW]
  by_cases hr : cfg.kpReuse = true
  · simp only [hr, if_true]
    rcases hk : w.files.keyFile with _ | k <;> cases hrd : w.keyReadable
    · exact ⟨w.nextKey, true, by simp [hg, hrd], by simp, fun _ => rfl⟩
    · exact ⟨w.nextKey, true, by simp [hg, hrd], by simp, fun _ => rfl⟩
    · exact ⟨w.nextKey, true, by simp [hg, hrd], by simp, fun _ => rfl⟩
    · exact ⟨k, false, by simp [bind_run, Flow.emit, pure_run, hrd], fun _ => ⟨trivial, rfl, rfl⟩,
        by simp⟩
  · simp only [hr]
    exact ⟨w.nextKey, true, by simp [hg], by simp, fun _ => rfl⟩

theorem downloadCert_val {w w' : World} {cb : CertBody} (h : downloadCert w = (.val cb, w')) :
    ∃ body rest, w.exs = .ok body :: rest ∧ cb = body.certClass ∧
      w' = { w with exs := rest,
                    trace := w.trace ++ [.exch .certDownload .kid w.acc.curKey (.ok body)] } := by
  unfold downloadCert at h
  simp only [bind_run, Flow.getW, Flow.exchange] at h
  rcases hx : w.exs with _ | ⟨r, rest⟩
  · simp [hx] at h
  · simp only [hx] at h
    cases r with
    | ok body =>
      simp only [pure_run, Prod.mk.injEq, Out.val.injEq] at h
      exact ⟨body, rest, rfl, h.1.symm, h.2.symm⟩
    | acmeErr ty => simp [Flow.failAt] at h
    | otherErr => simp [Flow.failAt] at h
    | lost => simp [Flow.failAt] at h

theorem checkBody_snd (v : Variant) (k : KeyId) (cb : CertBody) (w : World) :
    (checkBody v k cb w).2 = w := by
  unfold checkBody
  split
  · split
    · rfl
    · split <;> rfl
  · rfl

theorem checkBody_val {v : Variant} {k : KeyId} {cb : CertBody} {w w' : World} {c : CertContent}
    (h : checkBody v k cb w = (.val c, w')) :
    w' = w ∧ (v.parseBody = true → cb = .chainFor k ∧ c = .chain k) ∧
      (v.parseBody = false → c = cb.content) := by
  have h2 := checkBody_snd v k cb w
  rw [h] at h2
  refine ⟨h2, ?_, ?_⟩
  · intro hp
    unfold checkBody at h
    simp only [hp, if_true] at h
    cases cb with
    | unparseable => simp [Flow.failAt] at h
    | chainFor k' =>
      simp only at h
      by_cases hk : (k' == k) = true
      · simp only [hk, if_true, pure_run, Prod.mk.injEq, Out.val.injEq] at h
        have : k' = k := by simpa using hk
        subst this
        exact ⟨rfl, h.1.symm⟩
      · simp [hk, Flow.failAt] at h
  · intro hp
    unfold checkBody at h
    simp only [hp, Bool.false_eq_true, if_false, pure_run, Prod.mk.injEq, Out.val.injEq] at h
    exact h.1.symm

/-- Anatomy of a run of `obtainM` that returned. -/
theorem obtain_val_inv {v : Variant} {cfg : Cfg} {w w' : World} {k : KeyId} {isNew : Bool}
    {c : CertContent} (h : obtainM v cfg w = (.val (k, isNew, c), w')) :
    ∃ w1 w2 w3 w4 cb, prepareM v cfg w = (.val (), w1) ∧ getKeyPair cfg w1 = (.val (k, isNew), w2) ∧
      fetchPre v k isNew w2 = (.val (), w3) ∧ downloadCert w3 = (.val cb, w4) ∧
      checkBody v k cb w4 = (.val c, w') := by
  unfold obtainM at h
  obtain ⟨_, w1, h1, h⟩ := bind_val_inv h
  obtain ⟨p, w2, h2, h⟩ := bind_val_inv h
  obtain ⟨_, w3, h3, h⟩ := bind_val_inv h
  obtain ⟨cb, w4, h4, h⟩ := bind_val_inv h
  obtain ⟨c', w5, h5, h⟩ := bind_val_inv h
  simp only [pure_run, Prod.mk.injEq, Out.val.injEq] at h
  obtain ⟨⟨rfl, rfl, rfl⟩, rfl⟩ := h
  exact ⟨w1, w2, w3, w4, cb, h1, by rw [h2], h3, h4, h5⟩

theorem attempt_cases (v : Variant) (cfg : Cfg) (w : World) :
    (∃ k isNew c w1, obtainM v cfg w = (.val (k, isNew, c), w1) ∧
        attemptM v cfg w = install v k isNew c w1) ∨
    ((obtainM v cfg w).1.tag ≠ .ok ∧ (attemptM v cfg w).1.tag = (obtainM v cfg w).1.tag ∧
        (attemptM v cfg w).2 = (obtainM v cfg w).2) := by
  unfold attemptM
  rcases bind_cases (obtainM v cfg) (fun q => install v q.1 q.2.1 q.2.2) w with
    ⟨⟨k, isNew, c⟩, w1, h1, h2⟩ | h
  · exact .inl ⟨k, isNew, c, w1, h1, h2⟩
  · exact .inr h

/-- The trace only grows. -/
def Grow : World → Result → World → Prop := TR (AllEv fun _ => True)

theorem Grow.of {P : Ev → Prop} {m : M α} (h : Sat (TR (AllEv P)) m) : Sat Grow m :=
  AllEv.mono (fun _ _ => trivial) h

theorem Grow.ext {m : M α} (h : Sat Grow m) (w : World) : ∃ es, (m w).2.trace = w.trace ++ es := by
  obtain ⟨es, he, _⟩ := h.run w
  exact ⟨es, he⟩

theorem Grow.finalizeOrder : Sat Grow finalizeOrder := by
  unfold Flow.finalizeOrder
  walk [AllEv.pollOrder (fun _ => True) (fun _ _ => trivial)] [AllEv.exchange (fun _ => True)]
    (AllEv.tlaw (fun _ => True)).law

theorem WriteOut.grow {step upd e w o w'} (h : WriteOut step upd e w o w') :
    ∃ es, w'.trace = w.trace ++ es := by
  obtain ⟨_, _, _, _, _, h | h | h | ⟨b, h⟩⟩ := h
  · exact ⟨[], by rw [h.2]; simp⟩
  · exact ⟨_, h.2.2⟩
  · exact ⟨_, h.2.2⟩
  · exact ⟨_, h.2.2⟩

/-- `fetchPre` that returned has put `csr k` in the trace. -/
theorem fetchPre_csr {v : Variant} {k : KeyId} {isNew : Bool} {w w' : World}
    (h : fetchPre v k isNew w = (.val (), w')) : ∃ a b, w'.trace = w.trace ++ (a ++ .csr k :: b) := by
  unfold fetchPre at h
  obtain ⟨_, w1, h1, h⟩ := bind_val_inv h
  obtain ⟨_, w2, h2, h⟩ := bind_val_inv h
  have e2 : w2.trace = w1.trace ++ [.csr k] := by
    simp only [Flow.emit, Prod.mk.injEq] at h2; rw [← h2.2]
  obtain ⟨b, hb⟩ := Grow.ext Grow.finalizeOrder w2
  rw [h] at hb
  have e1 : ∃ a, w1.trace = w.trace ++ a := by
    split at h1
    · have := (writeKey_spec k w).grow
      rw [h1] at this
      exact this
    · simp only [pure_run, Prod.mk.injEq] at h1
      exact ⟨[], by rw [← h1.2]; simp⟩
  obtain ⟨a, ha⟩ := e1
  exact ⟨a, b, by rw [hb, e2, ha]; simp⟩

theorem WriteOut.tag {step upd e w o w'} (h : WriteOut step upd e w o w') :
    o.tag = .ok ∨ o.tag = .failed step ∨ o.tag = .stuck := by
  obtain ⟨_, _, _, _, _, h | h | h | ⟨b, h⟩⟩ := h
  · rw [h.1]; simp
  · rw [h.1]; simp
  · rw [h.1]; simp
  · rw [h.1]; cases b <;> simp

/-- A file write that returned: pre and post hooks succeeded, file updated. -/
theorem WriteOut.val {step upd e w w'} {u : Unit} (h : WriteOut step upd e w (.val u) w') :
    w'.files = upd w.files ∧
      w'.trace = w.trace ++ [.hooks .filePre true, e, .hooks .filePost true] ∧ w'.acc = w.acc := by
  obtain ⟨ha, _, _, _, _, h | h | h | ⟨b, h⟩⟩ := h
  · simp at h
  · simp at h
  · simp at h
  · cases b
    · simp at h
    · exact ⟨h.2.1, h.2.2, ha⟩

theorem install_tag (v : Variant) (k : KeyId) (isNew : Bool) (c : CertContent) (w : World) :
    (install v k isNew c w).1.tag = .ok ∨ (install v k isNew c w).1.tag = .failed .writeKey ∨
    (install v k isNew c w).1.tag = .failed .writeCert ∨ (install v k isNew c w).1.tag = .stuck := by
  rcases install_out v k isNew c w with ⟨_, h⟩ | ⟨_, o1, w1, h1, ⟨_, h2⟩ | ⟨_, h2, _⟩⟩
  · rcases h.tag with h | h | h <;> simp [h]
  · rcases h2.tag with h | h | h <;> simp [h]
  · rw [h2]; rcases h1.tag with h | h | h <;> simp [h]

theorem install_grow (v : Variant) (k : KeyId) (isNew : Bool) (c : CertContent) (w : World) :
    ∃ es, (install v k isNew c w).2.trace = w.trace ++ es := by
  rcases install_out v k isNew c w with ⟨_, h⟩ | ⟨_, o1, w1, h1, ⟨_, h2⟩ | ⟨_, _, h2⟩⟩
  · exact h.grow
  · obtain ⟨a, ha⟩ := h1.grow
    obtain ⟨b, hb⟩ := h2.grow
    exact ⟨a ++ b, by rw [hb, ha]; simp⟩
  · rw [h2]; exact h1.grow

theorem install_val {v : Variant} {k : KeyId} {isNew : Bool} {c : CertContent} {w w' : World}
    (h : install v k isNew c w = (.val (), w')) :
    w'.files.certFile = some c ∧
    w'.files.keyFile = (if (isNew && !v.keyWriteEarly) = true then some k else w.files.keyFile) ∧
    w'.acc = w.acc ∧
    ∃ pre, w'.trace = w.trace ++ (pre ++ [.writeCert c, .hooks .filePost true]) ∧
      ((isNew && !v.keyWriteEarly) = true → .writeKey k ∈ pre) := by
  rcases install_out v k isNew c w with ⟨hn, h1⟩ | ⟨hn, o1, w1, h1, ⟨ho, h2⟩ | ⟨hne, h2, _⟩⟩
  · rw [h] at h1
    obtain ⟨hf, ht, ha⟩ := h1.val
    refine ⟨by rw [hf], by rw [hf, hn]; simp, ha, [.hooks .filePre true], by rw [ht]; simp, ?_⟩
    intro hc; rw [hn] at hc; cases hc
  · rw [h] at h2
    rw [ho] at h1
    obtain ⟨hf1, ht1, ha1⟩ := h1.val
    obtain ⟨hf, ht, ha⟩ := h2.val
    refine ⟨by rw [hf], by rw [hf, hf1, hn]; simp, by rw [ha, ha1],
      [.hooks .filePre true, .writeKey k, .hooks .filePost true, .hooks .filePre true],
      by rw [ht, ht1]; simp, fun _ => by simp⟩
  · rw [h] at h2
    simp at h2
    exact absurd h2.symm hne

/-- Anatomy of an attempt that returned. -/
theorem attempt_ok_anatomy {v : Variant} {cfg : Cfg} {w w' : World}
    (h : attemptM v cfg w = (.val (), w')) :
    ∃ k isNew c cb w1 w2 w3 w4, prepareM v cfg w = (.val (), w1) ∧
      getKeyPair cfg w1 = (.val (k, isNew), w2) ∧ fetchPre v k isNew w2 = (.val (), w3) ∧
      downloadCert w3 = (.val cb, w4) ∧ checkBody v k cb w4 = (.val c, w4) ∧
      install v k isNew c w4 = (.val (), w') := by
  rcases attempt_cases v cfg w with ⟨k, isNew, c, w5, ho, ha⟩ | ⟨hne, ht, _⟩
  · obtain ⟨w1, w2, w3, w4, cb, h1, h2, h3, h4, h5⟩ := obtain_val_inv ho
    have := (checkBody_val h5).1
    subst this
    exact ⟨k, isNew, c, cb, w1, w2, w3, _, h1, h2, h3, h4, h5, by rw [← ha, h]⟩
  · rw [h] at ht
    simp at ht
    exact absurd ht.symm hne

/-- Any event predicate that covers the alphabets of the pieces holds of every event of `obtainM`. -/
theorem AllEv.obtainM (Q : Ev → Prop) (v : Variant) (cfg : Cfg) (h1 : ∀ e, APrep e → Q e)
    (h2 : ∀ k n e, AFetch v k n e → Q e) (h3 : ∀ k, Q (.keygen k)) (h4 : ∀ k, Q (.readKey k))
    (h5 : ∀ s r, Q (.exch .certDownload .kid s r)) : Sat (TR (AllEv Q)) (obtainM v cfg) := by
  have L := (AllEv.tlaw Q).law
  have p1 : Sat (TR (AllEv Q)) (prepareM v cfg) := AllEv.mono h1 (APrep.prepareM v cfg)
  have p2 : Sat (TR (AllEv Q)) (getKeyPair cfg) := by
    unfold Flow.getKeyPair genKey
    walk [] [AllEv.emit Q, AllEv.freshKey Q] L
    · exact h4 _
    · exact h3 _
    · exact h3 _
  have p3 : ∀ k n, Sat (TR (AllEv Q)) (fetchPre v k n) :=
    fun k n => AllEv.mono (h2 k n) (AFetch.fetchPre v k n)
  have p4 : Sat (TR (AllEv Q)) downloadCert := by
    unfold Flow.downloadCert
    walk [] [AllEv.exchange Q] L
    exact h5 _ _
  have p5 : ∀ k cb, Sat (TR (AllEv Q)) (checkBody v k cb) := by
    intro k cb
    unfold Flow.checkBody
    walk [] [] L
  unfold Flow.obtainM
  walk [p1, p2, p3, p4, p5] [] L

/-! ### Counting exchanges (C07 `attempt_bounded`) -/

def isExch : Ev → Bool
  | .exch .. => true
  | _ => false

def exCount (es : List Ev) : Nat := es.countP isExch

@[simp] theorem exCount_nil : exCount [] = 0 := rfl
@[simp] theorem exCount_append (a b : List Ev) : exCount (a ++ b) = exCount a + exCount b :=
  List.countP_append

/-- Size constraints on the bodies the CA may serve: an order lists at most `A` authorisations, an
authorisation offers at most `c` challenges (of known type). -/
def SizeOk (A c : Nat) : ExRes → Prop
  | .ok (.order o) => o.authzs.length ≤ A
  | .ok (.authz b) => b.challenges.length ≤ c
  | _ => True

def Inv (A c : Nat) (w : World) : Prop := ∀ r ∈ w.exs, SizeOk A c r

/-- Under the size invariant: `m` keeps it, emits at most `n` exchanges, and a returned value
satisfies `Q`. -/
structure SatB (A c n : Nat) (Q : α → Prop) (m : M α) : Prop where
  run : ∀ w, Inv A c w → Inv A c (m w).2 ∧
    (∃ es, (m w).2.trace = w.trace ++ es ∧ exCount es ≤ n) ∧ ∀ a, (m w).1 = .val a → Q a

abbrev T {α : Type} : α → Prop := fun _ => True

theorem SatB.le {A c n n' : Nat} {Q : α → Prop} {m : M α} (h : SatB A c n Q m) (hn : n ≤ n') :
    SatB A c n' Q m :=
  ⟨fun w hi => by
    obtain ⟨h1, ⟨es, he, hc⟩, h3⟩ := h.run w hi
    exact ⟨h1, ⟨es, he, Nat.le_trans hc hn⟩, h3⟩⟩

theorem SatB.weaken {A c n : Nat} {Q : α → Prop} {m : M α} (h : SatB A c n Q m) :
    SatB A c n T m :=
  ⟨fun w hi => by
    obtain ⟨h1, h2, _⟩ := h.run w hi
    exact ⟨h1, h2, fun _ _ => trivial⟩⟩

theorem SatB.pure {A c : Nat} (a : α) : SatB A c 0 T (pure a : M α) :=
  ⟨fun w hi => ⟨hi, ⟨[], by simp [pure_run], by simp⟩, fun _ _ => trivial⟩⟩

theorem SatB.pureQ {A c : Nat} {Q : α → Prop} (a : α) (h : Q a) :
    SatB A c 0 Q (Pure.pure a : M α) :=
  ⟨fun w hi => ⟨hi, ⟨[], by simp [pure_run], by simp⟩, fun b hb => by
    simp only [pure_run, Out.val.injEq] at hb; rw [← hb]; exact h⟩⟩

theorem SatB.failAt {A c : Nat} {Q : α → Prop} (s : Step) : SatB A c 0 Q (failAt s : M α) :=
  ⟨fun w hi => ⟨hi, ⟨[], by simp [Flow.failAt], by simp⟩, fun _ hb => by simp [Flow.failAt] at hb⟩⟩

theorem SatB.getW {A c : Nat} : SatB A c 0 T getW :=
  ⟨fun w hi => ⟨hi, ⟨[], by simp [Flow.getW], by simp⟩, fun _ _ => trivial⟩⟩

theorem SatB.emit {A c : Nat} (e : Ev) (h : isExch e = false) : SatB A c 0 T (emit e) :=
  ⟨fun w hi => ⟨hi, ⟨[e], rfl, by simp [exCount, h]⟩, fun _ _ => trivial⟩⟩

theorem SatB.modAcc {A c : Nat} (f : Acc → Acc) : SatB A c 0 T (modAcc f) :=
  ⟨fun w hi => ⟨hi, ⟨[], by simp [Flow.modAcc], by simp⟩, fun _ _ => trivial⟩⟩

theorem SatB.modFiles {A c : Nat} (f : Files → Files) : SatB A c 0 T (modFiles f) :=
  ⟨fun w hi => ⟨hi, ⟨[], by simp [Flow.modFiles], by simp⟩, fun _ _ => trivial⟩⟩

theorem SatB.freshKey {A c : Nat} : SatB A c 0 T freshKey :=
  ⟨fun w hi => ⟨hi, ⟨[], by simp [Flow.freshKey], by simp⟩, fun _ _ => trivial⟩⟩

theorem SatB.hookGroup {A c : Nat} (ty : HookKind) : SatB A c 0 T (hookGroup ty) :=
  ⟨fun w hi => by
    unfold Flow.hookGroup
    cases w.hks with
    | nil => exact ⟨hi, ⟨[], by simp, by simp⟩, fun _ _ => trivial⟩
    | cons b rest => exact ⟨hi, ⟨[_], rfl, by simp [exCount, isExch]⟩, fun _ _ => trivial⟩⟩

theorem SatB.exchange {A c : Nat} (k : ReqKind) (s : KeyId) :
    SatB A c 1 (SizeOk A c) (exchange k s) :=
  ⟨fun w hi => by
    unfold Flow.exchange
    cases hx : w.exs with
    | nil => exact ⟨hi, ⟨[], by simp, by simp⟩, fun _ hb => by simp at hb⟩
    | cons r rest =>
      refine ⟨?_, ⟨[_], rfl, by simp [exCount, isExch]⟩, ?_⟩
      · intro r' hr'
        exact hi r' (by rw [hx]; exact List.mem_cons_of_mem _ hr')
      · intro a ha
        simp only [Out.val.injEq] at ha
        rw [← ha]
        exact hi r (by rw [hx]; exact List.mem_cons_self)⟩

theorem SatB.bind {A c n1 n2 : Nat} {Q1 : α → Prop} {Q2 : β → Prop} {m : M α} {f : α → M β}
    (hm : SatB A c n1 Q1 m) (hf : ∀ a, Q1 a → SatB A c n2 Q2 (f a)) :
    SatB A c (n1 + n2) Q2 (m >>= f) := by
  constructor
  intro w hi
  obtain ⟨i1, ⟨e1, he1, hc1⟩, q1⟩ := hm.run w hi
  rcases bind_cases m f w with ⟨a, w1, x1, x2⟩ | ⟨x1, x2, x3⟩
  · rw [x2]
    rw [x1] at i1 he1 q1
    obtain ⟨i2, ⟨e2, he2, hc2⟩, q2⟩ := (hf a (q1 a rfl)).run w1 i1
    refine ⟨i2, ⟨e1 ++ e2, by rw [he2, he1]; simp, ?_⟩, q2⟩
    rw [exCount_append]
    exact Nat.add_le_add hc1 hc2
  · rw [x3]
    refine ⟨i1, ⟨e1, he1, Nat.le_trans hc1 (Nat.le_add_right _ _)⟩, ?_⟩
    intro b hb
    rw [hb] at x2
    simp at x2
    exact absurd x2.symm x1

section Bounds
variable {A c : Nat}

theorem SatB.ite {n : Nat} {Q : α → Prop} {p : Prop} [Decidable p] {a b : M α}
    (ha : SatB A c n Q a) (hb : SatB A c n Q b) : SatB A c n Q (if p then a else b) := by
  split
  · exact ha
  · exact hb

theorem SatB.writeFileHooks (step : Step) (act : M Unit) (h : SatB A c 0 T act) :
    SatB A c 0 T (writeFileHooks step act) := by
  unfold Flow.writeFileHooks
  refine .le (.bind (.hookGroup _) fun pre _ => .ite ?_ (.failAt _)) (Nat.le_refl 0)
  exact .le (.bind h fun _ _ => .bind (.hookGroup _) fun post _ =>
    .ite (.pure _) (.failAt _)) (Nat.le_refl 0)

theorem SatB.saveAccount : SatB A c 0 T saveAccount :=
  .writeFileHooks _ _ (.emit _ rfl)

theorem SatB.writeKey (k : KeyId) : SatB A c 0 T (writeKey k) :=
  .writeFileHooks _ _ (.le (.bind (.modFiles _) fun _ _ => .emit _ rfl) (Nat.le_refl 0))

theorem SatB.writeCert (x : CertContent) : SatB A c 0 T (writeCert x) :=
  .writeFileHooks _ _ (.le (.bind (.modFiles _) fun _ _ => .emit _ rfl) (Nat.le_refl 0))

theorem SatB.register : SatB A c 1 T register := by
  unfold Flow.register
  refine .le (.bind .getW fun w _ => .bind (.exchange _ _) fun r _ => (?_ : SatB A c 0 T _))
    (Nat.le_refl 1)
  split
  · exact .ite (.le (.bind (.modAcc _) fun _ _ => .saveAccount) (Nat.le_refl 0)) (.failAt _)
  · exact .failAt _

theorem SatB.updateContacts : SatB A c 2 T updateContacts := by
  unfold Flow.updateContacts
  refine .le (.bind .getW fun w _ => .bind (.exchange _ _) fun r _ => (?_ : SatB A c 1 T _))
    (Nat.le_refl 2)
  split
  · exact .le (.bind (.modAcc _) fun _ _ => .saveAccount) (by omega)
  · exact .register
  · exact .le (.bind (.modAcc _) fun _ _ => (.failAt _ : SatB A c 0 T _)) (by omega)
  · exact .le (.failAt _) (by omega)

theorem SatB.checkNewKey : SatB A c 1 T checkNewKey := by
  unfold Flow.checkNewKey
  refine .le (.bind .getW fun w _ => .bind (.exchange _ _) fun r _ => (?_ : SatB A c 0 T _))
    (Nat.le_refl 1)
  split
  · exact .le (.bind (.modAcc _) fun _ _ => .saveAccount) (by omega)
  · exact .failAt _

theorem SatB.keyChangeStep (ca : Bool) : SatB A c 2 T (keyChangeStep ca) := by
  unfold Flow.keyChangeStep
  refine .le (.bind .getW fun w _ => .bind (.exchange _ _) fun r _ => (?_ : SatB A c 1 T _))
    (Nat.le_refl 2)
  split
  · exact .le (.bind (.modAcc _) fun _ _ => .saveAccount) (by omega)
  · exact .register
  · exact .ite .checkNewKey (.le (.failAt _) (by omega))
  · exact .le (.bind (.modAcc _) fun _ _ => (.failAt _ : SatB A c 0 T _)) (by omega)
  · exact .le (.failAt _) (by omega)

theorem SatB.keyChangeChecked : SatB A c 3 T keyChangeChecked := by
  unfold Flow.keyChangeChecked
  refine .le (.bind .getW fun w _ => .bind (.exchange _ _) fun r _ => (?_ : SatB A c 2 T _))
    (Nat.le_refl 3)
  split
  · exact .keyChangeStep _
  · exact .keyChangeStep _
  · exact .le .checkNewKey (by omega)
  · exact .le (.failAt _) (by omega)

/-- One more exchange than before 1fb1c1a: the check, the roll-over, the re-registration. -/
theorem SatB.updateKey (v : Variant) : SatB A c 3 T (updateKey v) := by
  unfold Flow.updateKey
  refine .le (.bind .getW fun w _ => (?_ : SatB A c 3 T _)) (Nat.le_refl 3)
  refine .ite ?_ (.le (.failAt _) (by omega))
  split
  · exact .keyChangeChecked
  · exact .le (.keyChangeStep _) (by omega)
  · exact .le (.keyChangeStep _) (by omega)

theorem SatB.synchronize (v : Variant) : SatB A c 5 T (synchronize v) := by
  unfold Flow.synchronize
  have hk : ∀ p : Prop, ∀ [Decidable p], SatB A c 3 T (if p then Flow.updateKey v else Pure.pure ()) :=
    fun p _ => .ite (.updateKey v) (.le (.pure _) (by omega))
  have hc : ∀ p : Prop, ∀ [Decidable p], SatB A c 2 T (if p then Flow.updateContacts else Pure.pure ()) :=
    fun p _ => .ite .updateContacts (.le (.pure _) (by omega))
  refine .le (.bind .getW fun w _ => (?_ : SatB A c 5 T _)) (by omega)
  refine .ite (.ite (.ite ?_ ?_) ?_) (.le .register (by omega))
  · exact .le (.bind (hk _) fun _ _ => hc _) (by omega)
  · exact .le (.bind (hc _) fun _ _ => hk _) (by omega)
  · exact .le (.bind .register fun _ _ => hc _) (by omega)

theorem SatB.decodeNewOrder (r : ExRes) (hr : SizeOk A c r) :
    SatB A c 0 (fun o : OrderBody => o.authzs.length ≤ A) (decodeNewOrder r) := by
  unfold Flow.decodeNewOrder
  split
  · exact .ite (.pureQ _ hr) (.failAt _)
  · exact .failAt _

theorem SatB.newOrder : SatB A c 3 (fun o : OrderBody => o.authzs.length ≤ A) newOrder := by
  unfold Flow.newOrder
  refine .le (.bind .getW fun w _ => .bind (.exchange _ _) fun r hr =>
    (?_ : SatB A c 2 _ _)) (by omega)
  split
  · exact .le (.bind .register fun _ _ => .bind .getW fun w2 _ => .bind (.exchange _ _)
      fun r2 hr2 => .decodeNewOrder r2 hr2) (by omega)
  · exact .le (.decodeNewOrder r hr) (by omega)

theorem SatB.solveChallenges (ty : ChalType) (l : List (ChalType × Nat)) :
    SatB A c l.length T (solveChallenges ty l) := by
  induction l with
  | nil => unfold Flow.solveChallenges; exact .pure _
  | cons x rest ih =>
    obtain ⟨t, ch⟩ := x
    unfold Flow.solveChallenges
    refine .ite ?_ (.le ih (by simp))
    refine .le (.bind (.hookGroup _) fun ok _ => (?_ : SatB A c (rest.length + 1) T _)) (by simp)
    refine .ite ?_ (.le (.failAt _) (by omega))
    refine .le (.bind .getW fun w _ => .bind (.exchange _ _) fun r _ =>
      (?_ : SatB A c rest.length T _)) (by omega)
    split
    · exact .le (.bind ih fun cs _ => .pure _) (by omega)
    · exact .le (.failAt _) (by omega)

theorem SatB.pollAuthz (a n : Nat) : SatB A c n T (pollAuthz a n) := by
  induction n with
  | zero => unfold Flow.pollAuthz; exact .failAt _
  | succ n ih =>
    unfold Flow.pollAuthz
    refine .le (.bind .getW fun w _ => .bind (.exchange _ _) fun r _ =>
      (?_ : SatB A c n T _)) (by omega)
    split
    · exact .ite (.le (.pure _) (by omega)) ih
    · exact .le (.failAt _) (by omega)

theorem SatB.cleanHooks (l : List Nat) : SatB A c 0 T (cleanHooks l) := by
  induction l with
  | nil => unfold Flow.cleanHooks; exact .pure _
  | cons x rest ih =>
    unfold Flow.cleanHooks
    exact .le (.bind (.hookGroup _) fun ok _ => .ite ih (.failAt _)) (Nat.le_refl 0)

theorem SatB.pollOrder (want : OrderStatus) (st : Step) (n : Nat) :
    SatB A c n T (pollOrder want st n) := by
  induction n with
  | zero => unfold Flow.pollOrder; exact .failAt _
  | succ n ih =>
    unfold Flow.pollOrder
    refine .le (.bind .getW fun w _ => .bind (.exchange _ _) fun r _ =>
      (?_ : SatB A c n T _)) (by omega)
    split
    · exact .ite (.le (.pure _) (by omega)) ih
    · exact .le (.failAt _) (by omega)

/-- Per authorisation: the fetch, one "ready" POST per offered challenge at most, the poll. -/
theorem SatB.processAuthz (cfg : Cfg) (a : Nat) :
    SatB A c (1 + c + Gen.DEFAULT_POOL_NB_TRIES) T (processAuthz cfg a) := by
  unfold Flow.processAuthz
  refine .le (.bind .getW fun w _ => .bind (.exchange _ _) fun r hr =>
    (?_ : SatB A c (c + Gen.DEFAULT_POOL_NB_TRIES) T _)) (by omega)
  split
  · rename_i b
    refine .ite (.le (.pure _) (by omega)) (.ite (.le (.failAt _) (by omega)) ?_)
    split
    · exact .le (.failAt _) (by omega)
    · have hb : b.challenges.length ≤ c := hr
      exact .le (.bind (.solveChallenges _ b.challenges) fun cs _ =>
        .bind (.pollAuthz a _) fun _ _ => .cleanHooks cs) (by omega)
  · exact .le (.failAt _) (by omega)

theorem SatB.processAuthzs (cfg : Cfg) (l : List Nat) :
    SatB A c (l.length * (1 + c + Gen.DEFAULT_POOL_NB_TRIES)) T (processAuthzs cfg l) := by
  induction l with
  | nil => unfold Flow.processAuthzs; exact .le (.pure _) (by omega)
  | cons x rest ih =>
    unfold Flow.processAuthzs
    refine .le (.bind (.processAuthz cfg x) fun _ _ => ih) ?_
    simp only [List.length_cons, Nat.succ_mul]
    omega

theorem SatB.refreshDirectory : SatB A c 1 T refreshDirectory := by
  unfold Flow.refreshDirectory
  refine .le (.bind (.exchange _ _) fun r _ => (?_ : SatB A c 0 T _)) (Nat.le_refl 1)
  split
  · exact .pure _
  · exact .failAt _

theorem SatB.prepareM (v : Variant) (cfg : Cfg) :
    SatB A c (9 + Gen.DEFAULT_POOL_NB_TRIES + A * (1 + c + Gen.DEFAULT_POOL_NB_TRIES)) T
      (prepareM v cfg) := by
  unfold Flow.prepareM
  refine .le (.bind .refreshDirectory fun _ _ => .bind (.synchronize v) fun _ _ =>
    .bind .newOrder fun o ho => (?_ : SatB A c (A * (1 + c + Gen.DEFAULT_POOL_NB_TRIES)
      + Gen.DEFAULT_POOL_NB_TRIES) T _)) (by omega)
  refine .le (.bind (.processAuthzs cfg o.authzs) fun _ _ =>
    .bind (.pollOrder _ _ _) fun _ _ => .pure _) ?_
  have := Nat.mul_le_mul_right (1 + c + Gen.DEFAULT_POOL_NB_TRIES) ho
  omega

theorem SatB.getKeyPair (cfg : Cfg) : SatB A c 0 T (getKeyPair cfg) := by
  have hg : SatB A c 0 T genKey :=
    .le (.bind .freshKey fun k _ => .bind (.emit _ rfl) fun _ _ => .pure _) (Nat.le_refl 0)
  unfold Flow.getKeyPair
  refine .le (.bind .getW fun w _ => (?_ : SatB A c 0 T _)) (Nat.le_refl 0)
  refine .ite ?_ hg
  split
  · exact .le (.bind (.emit _ rfl) fun _ _ => .pure _) (Nat.le_refl 0)
  · exact hg

theorem SatB.finalizeOrder : SatB A c (1 + Gen.DEFAULT_POOL_NB_TRIES) T finalizeOrder := by
  unfold Flow.finalizeOrder
  refine .le (.bind .getW fun w _ => .bind (.exchange _ _) fun r _ =>
    (?_ : SatB A c Gen.DEFAULT_POOL_NB_TRIES T _)) (by omega)
  split
  · exact .le (.bind (.pollOrder _ _ _) fun o _ => .ite (.pure _) (.failAt _)) (by omega)
  · exact .le (.failAt _) (by omega)

theorem SatB.fetchPre (v : Variant) (k : KeyId) (isNew : Bool) :
    SatB A c (1 + Gen.DEFAULT_POOL_NB_TRIES) T (fetchPre v k isNew) := by
  unfold Flow.fetchPre
  exact .le (.bind (.ite (.writeKey k) (.pure _)) fun _ _ => .bind (.emit _ rfl) fun _ _ =>
    .finalizeOrder) (by omega)

theorem SatB.downloadCert : SatB A c 1 T downloadCert := by
  unfold Flow.downloadCert
  refine .le (.bind .getW fun w _ => .bind (.exchange _ _) fun r _ => (?_ : SatB A c 0 T _))
    (Nat.le_refl 1)
  split
  · exact .pure _
  · exact .failAt _

theorem SatB.checkBody (v : Variant) (k : KeyId) (cb : CertBody) :
    SatB A c 0 T (checkBody v k cb) := by
  unfold Flow.checkBody
  refine .ite ?_ (.pure _)
  split
  · exact .failAt _
  · exact .ite (.pure _) (.failAt _)

theorem SatB.install (v : Variant) (k : KeyId) (isNew : Bool) (x : CertContent) :
    SatB A c 0 T (install v k isNew x) := by
  unfold Flow.install
  exact .le (.bind (.ite (.writeKey k) (.pure _)) fun _ _ => .writeCert x) (Nat.le_refl 0)

/-- The bound: `11 + 2·P + A·(1 + c + P)` exchanges, `P` = `DEFAULT_POOL_NB_TRIES` (one more than
before 1fb1c1a: the check that precedes a key roll-over). -/
def attemptBound (A c : Nat) : Nat :=
  11 + 2 * Gen.DEFAULT_POOL_NB_TRIES + A * (1 + c + Gen.DEFAULT_POOL_NB_TRIES)

theorem SatB.attemptM (v : Variant) (cfg : Cfg) :
    SatB A c (attemptBound A c) T (attemptM v cfg) := by
  unfold Flow.attemptM obtainM attemptBound
  exact .le (.bind (.bind (.prepareM v cfg) fun _ _ => .bind (.getKeyPair cfg) fun p _ =>
    .bind (.fetchPre v p.1 p.2) fun _ _ => .bind .downloadCert fun cb _ =>
    .bind (.checkBody v p.1 cb) fun x _ => .pure _) fun q _ => .install v q.1 q.2.1 q.2.2)
    (by omega)
end Bounds

/-! ### Installation seen on the trace (C07 `success_iff_installed`) -/

def NoCertWrite : Ev → Prop
  | .writeCert _ => False
  | _ => True

theorem NoCertWrite.obtainM (v : Variant) (cfg : Cfg) :
    Sat (TR (AllEv NoCertWrite)) (obtainM v cfg) :=
  AllEv.obtainM NoCertWrite v cfg
    (fun e h => by cases e <;> simp_all [APrep, NoCertWrite])
    (fun k n e h => by cases e <;> simp_all [AFetch, NoCertWrite])
    (fun _ => trivial) (fun _ => trivial) (fun _ _ => trivial)

/-- A file write that failed ends the trace with a failed file hook. -/
theorem WriteOut.failed_last {step upd e w o w' s} (h : WriteOut step upd e w o w')
    (ho : o.tag = .failed s) :
    w'.trace.getLast? = some (.hooks .filePre false) ∨
    w'.trace.getLast? = some (.hooks .filePost false) := by
  obtain ⟨_, _, _, _, _, h | h | h | ⟨b, h⟩⟩ := h
  · rw [h.1] at ho; simp at ho
  · left; rw [h.2.2]; simp
  · rw [h.1] at ho; simp at ho
  · cases b
    · right; rw [h.2.2]; simp
    · rw [h.1] at ho; simp at ho

theorem install_failed_last (v : Variant) (k : KeyId) (isNew : Bool) (c : CertContent) (w : World)
    (s : Step) (ho : (install v k isNew c w).1.tag = .failed s) :
    (install v k isNew c w).2.trace.getLast? ≠ some (.hooks .filePost true) := by
  have key : ∀ tr : List Ev, (tr.getLast? = some (.hooks .filePre false) ∨
      tr.getLast? = some (.hooks .filePost false)) → tr.getLast? ≠ some (.hooks .filePost true) := by
    intro tr h
    rcases h with h | h <;> rw [h] <;> simp
  rcases install_out v k isNew c w with ⟨_, h⟩ | ⟨_, o1, w1, h1, ⟨_, h2⟩ | ⟨_, h2, h3⟩⟩
  · exact key _ (h.failed_last ho)
  · exact key _ (h2.failed_last ho)
  · rw [h3]
    rw [h2] at ho
    exact key _ (h1.failed_last ho)

/-! ### The per-certificate loop -/

def isSched : LoopEv → Bool
  | .scheduled _ => true
  | .scheduleErr _ => true
  | _ => false

theorem scheduleLoop_events (files : Files) (ins : List SchedIn) :
    ∀ retries evs rest, scheduleLoop files retries ins = some (evs, rest) →
      ∀ e ∈ evs, isSched e = true := by
  induction ins with
  | nil =>
    intro retries evs rest h
    unfold scheduleLoop at h
    split at h
    · simp only [Option.some.injEq, Prod.mk.injEq] at h
      rw [← h.1]; simp [isSched]
    · simp at h
  | cons i tl ih =>
    intro retries evs rest h
    unfold scheduleLoop at h
    split at h
    · simp only [Option.some.injEq, Prod.mk.injEq] at h
      rw [← h.1]; simp [isSched]
    · simp only at h
      split at h
      · simp only [Option.some.injEq, Prod.mk.injEq] at h
        rw [← h.1]; simp [isSched]
      · split at h
        · simp at h
        · rename_i evs' rest' hrec
          simp only [Option.some.injEq, Prod.mk.injEq] at h
          rw [← h.1]
          intro e he
          rcases List.mem_cons.mp he with rfl | he
          · rfl
          · exact ih _ _ _ hrec e he

/-- Shape of one round of `renew_certificate`. -/
theorem renewOnce_shape {v : Variant} {fw : Nat} {cfg : Cfg} {w w' : World} {evs : List LoopEv}
    (h : renewOnce v fw cfg w = some (evs, w')) :
    ∃ sevs scheds' r tr w1 hk hks',
      scheduleLoop w.files 0 w.scheds = some (sevs, scheds') ∧
      attempt v cfg { w with scheds := scheds' } = (r, tr, w1) ∧
      r ≠ .stuck ∧ w1.hks = hk :: hks' ∧ w' = { w1 with hks := hks' } ∧
      evs = sevs ++ [.attempt r tr, .postOp (r == .ok) hk] ++
        (if (!(r == .ok) && v.pauseAfterFail) = true then [.pause fw] else []) := by
  unfold renewOnce at h
  split at h
  · simp at h
  · rename_i sevs scheds' hs
    rcases ha : attempt v cfg { w with scheds := scheds' } with ⟨r, tr, w1⟩
    simp only [ha] at h
    split at h
    · simp at h
    · rename_i hne
      split at h
      · simp at h
      · rename_i hk hks' hh
        simp only [Option.some.injEq, Prod.mk.injEq] at h
        exact ⟨sevs, scheds', r, tr, w1, hk, hks', hs, ha, fun e => hne e, hh, h.2.symm, h.1.symm⟩

theorem renewLoop_mem {v : Variant} {fw : Nat} {cfg : Cfg} {round : List LoopEv} :
    ∀ n w, round ∈ renewLoop v fw cfg n w → ∃ w0 w', renewOnce v fw cfg w0 = some (round, w') := by
  intro n
  induction n with
  | zero => intro w h; simp [renewLoop] at h
  | succ n ih =>
    intro w h
    unfold renewLoop at h
    split at h
    · simp at h
    · rename_i evs w' hr
      rcases List.mem_cons.mp h with rfl | h
      · exact ⟨w, w', hr⟩
      · exact ih w' h

theorem attempt_result_tag (v : Variant) (cfg : Cfg) (w : World) :
    (attempt v cfg w).1 = (attemptM v cfg { w with trace := [] }).1.tag :=
  Out.result_eq_tag _

/-! ### Account functions: exact runs and trace shapes (C11) -/

def NoExch : Ev → Prop
  | .exch .. => False
  | _ => True

def isOkRes : ExRes → Bool
  | .ok _ => true
  | _ => false

def isADNE : ExRes → Bool
  | .acmeErr .accountDoesNotExist => true
  | _ => false

/-- An ACME problem document other than accountDoesNotExist. -/
def isRefusal : ExRes → Bool
  | .acmeErr .accountDoesNotExist => false
  | .acmeErr _ => true
  | _ => false

theorem isRefusal_notOk {r : ExRes} (h : isRefusal r = true) : isOkRes r = false := by
  cases r with
  | ok b => cases h
  | _ => rfl

theorem isRefusal_notADNE {r : ExRes} (h : isRefusal r = true) : isADNE r = false := by
  cases r with
  | acmeErr ty =>
    cases ty with
    | accountDoesNotExist => cases h
    | _ => rfl
  | _ => rfl

theorem saveAccount_spec (w : World) :
    WriteOut .saveAccount id .saveAccount w (saveAccount w).1 (saveAccount w).2 := by
  unfold saveAccount
  rw [writeFileHooks_run .saveAccount (emit .saveAccount)
    (fun w => { w with trace := w.trace ++ [.saveAccount] }) (fun w => rfl) (fun w => rfl) w]
  unfold WriteOut
  rcases w.hks with _ | ⟨b, _ | ⟨b2, rest⟩⟩
  · simp
  · cases b <;> simp
  · cases b <;> simp

/-- Events of an account save: no exchange; if it returned, the save happened. -/
def SaveShape (es : List Ev) (t : Result) : Prop :=
  (∀ e ∈ es, NoExch e) ∧ (t = .ok → .saveAccount ∈ es)

theorem saveAccount_shape (w : World) :
    ∃ es, (saveAccount w).2.trace = w.trace ++ es ∧ SaveShape es (saveAccount w).1.tag ∧
      (saveAccount w).2.acc = w.acc ∧ (saveAccount w).2.exs = w.exs := by
  obtain ⟨ha, hx, _, _, _, h | h | h | ⟨b, h⟩⟩ := saveAccount_spec w
  · exact ⟨[], by rw [h.2]; simp, ⟨by simp, by rw [h.1]; simp⟩, ha, hx⟩
  · exact ⟨_, h.2.2, ⟨by simp [NoExch], by rw [h.1]; simp⟩, ha, hx⟩
  · exact ⟨_, h.2.2, ⟨by simp [NoExch], by rw [h.1]; simp⟩, ha, hx⟩
  · exact ⟨_, h.2.2, ⟨by simp [NoExch], by simp⟩, ha, hx⟩

/-- Shape of `register`: nothing (script exhausted), or the newAccount exchange followed by
events that are not exchanges, among them the save whenever it returned. -/
def RegShape (signer : KeyId) (es : List Ev) (t : Result) : Prop :=
  (es = [] ∧ t = .stuck) ∨
  ∃ r rest, es = .exch .newAccount .jwk signer r :: rest ∧ SaveShape rest t ∧
    (t = .ok → isOkRes r = true)

def World.afterExch (w : World) (k : ReqKind) (s : KeyId) (r : ExRes) (rest : List ExRes) : World :=
  { w with exs := rest, trace := w.trace ++ [.exch k (authOf k) s r] }

def World.withAcc (w : World) (a : Acc) : World := { w with acc := a }

def regAcc (ex : Bool) (a : Acc) : Acc :=
  { a with hasUrl := true, contactsInSync := true, bindingInSync := true,
           recKey := a.curKey, caKey := a.curKey, caContactsOk := !ex || a.caContactsOk }

theorem register_run (w : World) :
    register w = match w.exs with
      | [] => (.stuck, w)
      | r :: rest =>
        match r with
        | .ok (.account _ true ex) =>
          saveAccount ((w.afterExch .newAccount w.acc.curKey r rest).withAcc (regAcc ex w.acc))
        | _ => (.fail .register, w.afterExch .newAccount w.acc.curKey r rest) := by
  unfold register
  simp only [bind_run, getW, exchange]
  rcases w.exs with _ | ⟨r, rest⟩
  · rfl
  · simp only
    split
    · rename_i ho hl ex
      cases hl <;> rfl
    · split
      · rename_i h; exact absurd rfl (h _ _ _)
      · rfl

theorem register_shape (w : World) :
    ∃ es, (register w).2.trace = w.trace ++ es ∧ RegShape w.acc.curKey es (register w).1.tag := by
  rw [register_run]
  rcases hx : w.exs with _ | ⟨r, rest⟩
  · exact ⟨[], by simp, .inl ⟨rfl, rfl⟩⟩
  · simp only
    split
    · rename_i ho ex
      obtain ⟨es, he, hs, _, _⟩ := saveAccount_shape
        ((w.afterExch .newAccount w.acc.curKey (.ok (.account ho true ex)) rest).withAcc
          (regAcc ex w.acc))
      refine ⟨.exch .newAccount .jwk w.acc.curKey (.ok (.account ho true ex)) :: es, ?_,
        .inr ⟨_, es, rfl, hs, fun _ => rfl⟩⟩
      rw [he]; simp [World.afterExch, World.withAcc, authOf]
    · refine ⟨[_], rfl, .inr ⟨_, [], rfl, ⟨by simp, by simp⟩, by simp⟩⟩

def contactsAcc (a : Acc) : Acc := { a with contactsInSync := true, caContactsOk := true }
def keyAcc (a : Acc) : Acc := { a with recKey := a.curKey, caKey := a.curKey }
/-- GHOST effect of a contact update / roll-over that was processed but not answered. -/
def contactsLostAcc (a : Acc) : Acc := { a with caContactsOk := true }
def keyLostAcc (a : Acc) : Acc := { a with caKey := a.curKey }

theorem updateContacts_run (w : World) :
    updateContacts w = match w.exs with
      | [] => (.stuck, w)
      | r :: rest =>
        match r with
        | .ok _ =>
          saveAccount ((w.afterExch .accountUpdate w.acc.curKey r rest).withAcc (contactsAcc w.acc))
        | .acmeErr .accountDoesNotExist => register (w.afterExch .accountUpdate w.acc.curKey r rest)
        | .lost => (.fail .accountUpdate,
            (w.afterExch .accountUpdate w.acc.curKey r rest).withAcc (contactsLostAcc w.acc))
        | _ => (.fail .accountUpdate, w.afterExch .accountUpdate w.acc.curKey r rest) := by
  unfold updateContacts
  simp only [bind_run, getW, exchange]
  rcases w.exs with _ | ⟨r, rest⟩
  · rfl
  · cases r with
    | ok b => rfl
    | acmeErr ty => cases ty <;> rfl
    | otherErr => rfl
    | lost => rfl

theorem checkNewKey_run (w : World) :
    checkNewKey w = match w.exs with
      | [] => (.stuck, w)
      | r :: rest =>
        match r with
        | .ok _ =>
          saveAccount ((w.afterExch .accountProbe w.acc.curKey r rest).withAcc (keyAcc w.acc))
        | _ => (.fail .keyChange, w.afterExch .accountProbe w.acc.curKey r rest) := by
  unfold checkNewKey
  simp only [bind_run, getW, exchange]
  rcases w.exs with _ | ⟨r, rest⟩
  · rfl
  · cases r with
    | ok b => rfl
    | acmeErr ty => rfl
    | otherErr => rfl
    | lost => rfl

theorem keyChangeStep_run (ca : Bool) (w : World) :
    keyChangeStep ca w =
      match w.exs with
      | [] => (.stuck, w)
      | r :: rest =>
        match r with
        | .ok _ =>
          saveAccount ((w.afterExch .keyChange w.acc.recKey r rest).withAcc (keyAcc w.acc))
        | .acmeErr .accountDoesNotExist => register (w.afterExch .keyChange w.acc.recKey r rest)
        | .acmeErr _ =>
          if ca = true then checkNewKey (w.afterExch .keyChange w.acc.recKey r rest)
          else (.fail .keyChange, w.afterExch .keyChange w.acc.recKey r rest)
        | .lost => (.fail .keyChange,
            (w.afterExch .keyChange w.acc.recKey r rest).withAcc (keyLostAcc w.acc))
        | .otherErr => (.fail .keyChange, w.afterExch .keyChange w.acc.recKey r rest) := by
  unfold keyChangeStep
  simp only [bind_run, getW, exchange]
  rcases w.exs with _ | ⟨r, rest⟩
  · rfl
  · cases r with
    | ok b => rfl
    | acmeErr ty =>
      cases ty with
      | accountDoesNotExist => rfl
      | sigRefused => cases ca <;> rfl
      | other => cases ca <;> rfl
    | otherErr => rfl
    | lost => rfl

theorem keyChangeChecked_run (w : World) :
    keyChangeChecked w =
      match w.exs with
      | [] => (.stuck, w)
      | p :: rest =>
        match p with
        | .ok _ => keyChangeStep false (w.afterExch .accountProbe w.acc.recKey p rest)
        | .acmeErr .accountDoesNotExist =>
          keyChangeStep false (w.afterExch .accountProbe w.acc.recKey p rest)
        | .acmeErr .sigRefused => checkNewKey (w.afterExch .accountProbe w.acc.recKey p rest)
        | _ => (.fail .keyChange, w.afterExch .accountProbe w.acc.recKey p rest) := by
  unfold keyChangeChecked
  simp only [bind_run, getW, exchange]
  rcases w.exs with _ | ⟨r, rest⟩
  · rfl
  · cases r with
    | ok b => rfl
    | acmeErr ty => cases ty <;> rfl
    | otherErr => rfl
    | lost => rfl

theorem updateKey_run (v : Variant) (w : World) :
    updateKey v w = if w.acc.pastKeyKnown = true then
      (match v.rolloverCheck with
       | .first => keyChangeChecked w
       | .afterRefusal => keyChangeStep true w
       | .none => keyChangeStep false w)
      else (.fail .pastKey, w) := by
  unfold updateKey
  simp only [bind_run, getW]
  by_cases hp : w.acc.pastKeyKnown = true
  · simp only [hp, if_true]
    cases v.rolloverCheck <;> rfl
  · simp only [hp]
    rfl

/-- Shape of the check after a refused roll-over, once sent: the POST-as-GET of the account signed
by the current key followed by events that are not exchanges, among them the save whenever it
returned. -/
def ProbeShape (cur : KeyId) (es : List Ev) (t : Result) : Prop :=
  ∃ p rest, es = .exch .accountProbe .kid cur p :: rest ∧ SaveShape rest t ∧
    (t = .ok → isOkRes p = true)

/-- Shape of a contact update / key roll-over with its re-registration fallback and (roll-over
only, since 5ce05e3) the check after a refusal. -/
def UpdShape (k : ReqKind) (signer cur : KeyId) (es : List Ev) (t : Result) : Prop :=
  (es = [] ∧ (t = .stuck ∨ t = .failed .pastKey)) ∨
  ∃ r rest, es = .exch k .kid signer r :: rest ∧
    ((isADNE r = true ∧ RegShape cur rest t) ∨
     (isADNE r = false ∧ SaveShape rest t ∧ (t = .ok → isOkRes r = true)) ∨
     (k = .keyChange ∧ isRefusal r = true ∧ ProbeShape cur rest t))

/-- No check after a refused roll-over among the events. -/
def NoProbe (es : List Ev) : Prop := ∀ a s r, Ev.exch .accountProbe a s r ∉ es

theorem updateContacts_shape (w : World) :
    ∃ es, (updateContacts w).2.trace = w.trace ++ es ∧
      UpdShape .accountUpdate w.acc.curKey w.acc.curKey es (updateContacts w).1.tag := by
  rw [updateContacts_run]
  rcases hx : w.exs with _ | ⟨r, rest⟩
  · exact ⟨[], by simp, .inl ⟨rfl, .inl rfl⟩⟩
  · simp only
    split
    · rename_i b
      obtain ⟨es, he, hs, _, _⟩ := saveAccount_shape
        ((w.afterExch .accountUpdate w.acc.curKey (.ok b) rest).withAcc (contactsAcc w.acc))
      refine ⟨.exch .accountUpdate .kid w.acc.curKey (.ok b) :: es, ?_,
        .inr ⟨_, es, rfl, .inr (.inl ⟨rfl, hs, fun _ => rfl⟩)⟩⟩
      rw [he]; simp [World.afterExch, World.withAcc, authOf]
    · obtain ⟨es, he, hs⟩ := register_shape
        (w.afterExch .accountUpdate w.acc.curKey (.acmeErr .accountDoesNotExist) rest)
      refine ⟨.exch .accountUpdate .kid w.acc.curKey (.acmeErr .accountDoesNotExist) :: es, ?_,
        .inr ⟨_, es, rfl, .inl ⟨rfl, hs⟩⟩⟩
      rw [he]; simp [World.afterExch, authOf]
    · exact ⟨[.exch .accountUpdate .kid w.acc.curKey .lost], rfl,
        .inr ⟨.lost, [], rfl, .inr (.inl ⟨rfl, ⟨by simp, by simp⟩, by simp⟩)⟩⟩
    · rename_i h1 h2 h3
      refine ⟨[.exch .accountUpdate .kid w.acc.curKey r], rfl,
        .inr ⟨r, [], rfl, .inr (.inl ⟨?_, ⟨by simp, by simp⟩, by simp⟩)⟩⟩
      cases r with
      | ok b => exact absurd rfl (h1 b)
      | acmeErr ty => cases ty with
        | accountDoesNotExist => exact absurd rfl h2
        | sigRefused => rfl
        | other => rfl
      | otherErr => rfl
      | lost => rfl

theorem checkNewKey_shape (w : World) :
    ∃ es, (checkNewKey w).2.trace = w.trace ++ es ∧
      ((es = [] ∧ (checkNewKey w).1.tag = .stuck) ∨
       ProbeShape w.acc.curKey es (checkNewKey w).1.tag) := by
  rw [checkNewKey_run]
  rcases hx : w.exs with _ | ⟨r, rest⟩
  · exact ⟨[], by simp, .inl ⟨rfl, rfl⟩⟩
  · simp only
    split
    · rename_i b
      obtain ⟨es, he, hs, _, _⟩ := saveAccount_shape
        ((w.afterExch .accountProbe w.acc.curKey (.ok b) rest).withAcc (keyAcc w.acc))
      refine ⟨.exch .accountProbe .kid w.acc.curKey (.ok b) :: es, ?_,
        .inr ⟨_, es, rfl, hs, fun _ => rfl⟩⟩
      rw [he]; simp [World.afterExch, World.withAcc, authOf]
    · rename_i h1
      refine ⟨[.exch .accountProbe .kid w.acc.curKey r], rfl,
        .inr ⟨r, [], rfl, ⟨by simp, by simp⟩, by simp⟩⟩

/-- The roll-over request and what follows; `NoProbe` unless the tree has the check after a refusal
(5ce05e3) and the first answer is a refusal that triggers it. -/
theorem keyChangeStep_shape (ca : Bool) (w : World) :
    ∃ es, (keyChangeStep ca w).2.trace = w.trace ++ es ∧
      UpdShape .keyChange w.acc.recKey w.acc.curKey es (keyChangeStep ca w).1.tag ∧
      ((ca = false ∨ (w.exs.head?.map isRefusal) ≠ some true) → NoProbe es) := by
  rw [keyChangeStep_run]
  rcases hx : w.exs with _ | ⟨r, rest⟩
  · exact ⟨[], by simp, .inl ⟨rfl, .inl rfl⟩, fun _ => by simp [NoProbe]⟩
  · have hfail : ∀ r : ExRes, isADNE r = false → isOkRes r = false →
        ∃ es, (w.afterExch .keyChange w.acc.recKey r rest).trace = w.trace ++ es ∧
          UpdShape .keyChange w.acc.recKey w.acc.curKey es (.failed .keyChange) ∧ NoProbe es :=
      fun r h1 h2 => ⟨[.exch .keyChange .kid w.acc.recKey r], rfl,
        .inr ⟨r, [], rfl, .inr (.inl ⟨h1, ⟨by simp, by simp⟩, by simp⟩)⟩, by simp [NoProbe]⟩
    have hsave : ∀ {es : List Ev} {t : Result}, SaveShape es t → NoProbe es :=
      fun hs a s r hm => hs.1 _ hm
    simp only
    split
    · rename_i b
      obtain ⟨es, he, hs, _, _⟩ := saveAccount_shape
        ((w.afterExch .keyChange w.acc.recKey (.ok b) rest).withAcc (keyAcc w.acc))
      refine ⟨.exch .keyChange .kid w.acc.recKey (.ok b) :: es, ?_,
        .inr ⟨_, es, rfl, .inr (.inl ⟨rfl, hs, fun _ => rfl⟩)⟩, fun _ => ?_⟩
      · rw [he]; simp [World.afterExch, World.withAcc, authOf]
      · intro a s r hm
        rcases List.mem_cons.mp hm with h | h
        · cases h
        · exact hsave hs a s r h
    · obtain ⟨es, he, hs⟩ := register_shape
        (w.afterExch .keyChange w.acc.recKey (.acmeErr .accountDoesNotExist) rest)
      refine ⟨.exch .keyChange .kid w.acc.recKey (.acmeErr .accountDoesNotExist) :: es, ?_,
        .inr ⟨_, es, rfl, .inl ⟨rfl, hs⟩⟩, fun _ => ?_⟩
      · rw [he]; simp [World.afterExch, authOf]
      · intro a s r hm
        rcases List.mem_cons.mp hm with h | h
        · cases h
        · rcases hs with ⟨rfl, _⟩ | ⟨r', rest', rfl, hs', _⟩
          · cases h
          · rcases List.mem_cons.mp h with h | h
            · cases h
            · exact hsave hs' a s r h
    · rename_i ty hty
      have hr : isRefusal (.acmeErr ty) = true := by
        cases ty with
        | accountDoesNotExist => exact absurd rfl hty
        | _ => rfl
      have hna : isADNE (.acmeErr ty) = false := by
        cases ty with
        | accountDoesNotExist => exact absurd rfl hty
        | _ => rfl
      split
      · rename_i hv
        obtain ⟨es, he, hs⟩ := checkNewKey_shape (w.afterExch .keyChange w.acc.recKey (.acmeErr ty) rest)
        rcases hs with ⟨rfl, ht⟩ | hs
        · -- the script ends after the refusal: stuck before the check is sent
          refine ⟨[.exch .keyChange .kid w.acc.recKey (.acmeErr ty)], ?_,
            .inr ⟨_, [], rfl, .inr (.inl ⟨hna, ⟨by simp, by rw [ht]; simp⟩, by rw [ht]; simp⟩)⟩,
            fun _ => by simp [NoProbe]⟩
          rw [he]; simp [World.afterExch, authOf]
        · refine ⟨.exch .keyChange .kid w.acc.recKey (.acmeErr ty) :: es, ?_,
            .inr ⟨_, es, rfl, .inr (.inr ⟨rfl, hr, hs⟩)⟩, fun hn => ?_⟩
          · rw [he]; simp [World.afterExch, authOf]
          · rcases hn with hn | hn
            · rw [hv] at hn; cases hn
            · simp [hr] at hn
      · obtain ⟨es, he, hs, hn⟩ := hfail (.acmeErr ty) hna rfl
        exact ⟨es, he, hs, fun _ => hn⟩
    · exact ⟨[.exch .keyChange .kid w.acc.recKey .lost], rfl,
        .inr ⟨.lost, [], rfl, .inr (.inl ⟨rfl, ⟨by simp, by simp⟩, by simp⟩)⟩,
        fun _ => by simp [NoProbe]⟩
    · obtain ⟨es, he, hs, hn⟩ := hfail .otherErr rfl rfl
      exact ⟨es, he, hs, fun _ => hn⟩

/-- Shape of the whole roll-over block `update_account_key`.
* trees without the first check: an `UpdShape` (roll-over request first);
* since 1fb1c1a: the check signed by the RECORDED key `rec`, then — answered 2xx or
  accountDoesNotExist — the roll-over request with its fallback (no further check), or — answered
  with an error a failed signature verification produces (`sigRefused`) — the check signed by the
  CURRENT key, or — anything else — nothing. -/
def KeyShape (rec cur : KeyId) (es : List Ev) (t : Result) : Prop :=
  UpdShape .keyChange rec cur es t ∨
  ∃ p rest, es = .exch .accountProbe .kid rec p :: rest ∧
    ((p = .acmeErr .sigRefused ∧ ((rest = [] ∧ t = .stuck) ∨ ProbeShape cur rest t)) ∨
     ((isOkRes p = true ∨ isADNE p = true) ∧ UpdShape .keyChange rec cur rest t ∧ NoProbe rest) ∨
     (rest = [] ∧ t = .failed .keyChange))

/-- **The class of the known finding `rollover-probe-at-deactivated-account`**: a roll-over is due
and the CA answers the FIRST request of the block — since 1fb1c1a the account query signed by the
recorded key — with an error a failed signature verification produces (`sigRefused`).  When the CA
in fact holds the recorded key (a deactivated account), the query signed by the current key that
follows does not verify. -/
def rolloverProbeAtDeactivatedAccount (w : World) : Bool :=
  w.exs.head? == some (.acmeErr .sigRefused)

/-- Whether the roll-over block of tree `v` may send a POST-as-GET signed by the CURRENT key from
world `w`: working tree — the first answer is of class `sigRefused`; 5ce05e3 — the first answer
(to the roll-over request) is any refusal; before — never. -/
def mayAskCur (v : Variant) (w : World) : Bool :=
  match v.rolloverCheck with
  | .first => rolloverProbeAtDeactivatedAccount w
  | .afterRefusal => (w.exs.head?.map isRefusal) == some true
  | .none => false

/-- Events in which every `accountProbe` is signed by `rec`. -/
def ProbesBy (rec : KeyId) (es : List Ev) : Prop :=
  ∀ a s r, Ev.exch .accountProbe a s r ∈ es → s = rec

theorem updateKey_shape (v : Variant) (w : World) :
    ∃ es, (updateKey v w).2.trace = w.trace ++ es ∧
      KeyShape w.acc.recKey w.acc.curKey es (updateKey v w).1.tag ∧
      (v.rolloverCheck ≠ .first →
        UpdShape .keyChange w.acc.recKey w.acc.curKey es (updateKey v w).1.tag) ∧
      (mayAskCur v w = false → ProbesBy w.acc.recKey es) := by
  have hnp : ∀ {es : List Ev} {k : KeyId}, NoProbe es → ProbesBy k es :=
    fun h a s r hm => absurd hm (h a s r)
  rw [updateKey_run]
  split
  · cases hv : v.rolloverCheck with
    | none =>
      obtain ⟨es, he, hs, hn⟩ := keyChangeStep_shape false w
      exact ⟨es, he, .inl hs, fun _ => hs, fun _ => hnp (hn (.inl rfl))⟩
    | afterRefusal =>
      obtain ⟨es, he, hs, hn⟩ := keyChangeStep_shape true w
      refine ⟨es, he, .inl hs, fun _ => hs, fun h => hnp (hn (.inr ?_))⟩
      intro hx
      simp [mayAskCur, hv, hx] at h
    | first =>
      simp only
      rw [keyChangeChecked_run]
      rcases hx : w.exs with _ | ⟨p, rest⟩
      · exact ⟨[], by simp, .inl (.inl ⟨rfl, .inl rfl⟩), (fun h => absurd rfl h),
          (fun _ => by intro a s r hm; cases hm)⟩
      · have hstep : ∀ p : ExRes, (isOkRes p = true ∨ isADNE p = true) → ∃ es,
            (keyChangeStep false (w.afterExch .accountProbe w.acc.recKey p rest)).2.trace
              = w.trace ++ es ∧
            KeyShape w.acc.recKey w.acc.curKey es
              (keyChangeStep false (w.afterExch .accountProbe w.acc.recKey p rest)).1.tag ∧
            ProbesBy w.acc.recKey es := by
          intro p hp
          obtain ⟨es, he, hs, hn⟩ := keyChangeStep_shape false
            (w.afterExch .accountProbe w.acc.recKey p rest)
          have hn' := hn (.inl rfl)
          refine ⟨.exch .accountProbe .kid w.acc.recKey p :: es, ?_,
            .inr ⟨p, es, rfl, .inr (.inl ⟨hp, hs, hn'⟩)⟩, ?_⟩
          · rw [he]; simp [World.afterExch, authOf]
          · intro a s r hm
            rcases List.mem_cons.mp hm with h | h
            · cases h; rfl
            · exact absurd h (hn' a s r)
        simp only
        split
        · rename_i b
          obtain ⟨es, he, hs, hp⟩ := hstep (.ok b) (.inl rfl)
          exact ⟨es, he, hs, (fun h => absurd rfl h), fun _ => hp⟩
        · obtain ⟨es, he, hs, hp⟩ := hstep (.acmeErr .accountDoesNotExist) (.inr rfl)
          exact ⟨es, he, hs, (fun h => absurd rfl h), fun _ => hp⟩
        · obtain ⟨es, he, hs⟩ := checkNewKey_shape
            (w.afterExch .accountProbe w.acc.recKey (.acmeErr .sigRefused) rest)
          refine ⟨.exch .accountProbe .kid w.acc.recKey (.acmeErr .sigRefused) :: es, ?_,
            .inr ⟨_, es, rfl, .inl ⟨rfl, ?_⟩⟩, (fun h => absurd rfl h), fun h => ?_⟩
          · rw [he]; simp [World.afterExch, authOf]
          · rcases hs with ⟨rfl, ht⟩ | hs
            · exact .inl ⟨rfl, ht⟩
            · exact .inr hs
          · simp [mayAskCur, hv, rolloverProbeAtDeactivatedAccount, hx] at h
        · refine ⟨[.exch .accountProbe .kid w.acc.recKey p], rfl,
            .inr ⟨p, [], rfl, .inr (.inr ⟨rfl, rfl⟩)⟩, (fun h => absurd rfl h), ?_⟩
          intro _ a s r hm
          rcases List.mem_cons.mp hm with h | h
          · cases h; rfl
          · cases h
  · exact ⟨[], by simp, .inl (.inl ⟨rfl, .inr rfl⟩), (fun _ => .inl ⟨rfl, .inr rfl⟩),
      (fun _ => by intro a s r hm; cases hm)⟩

/-! ### From alphabets to monitors -/

/-- If every single event of an alphabet is harmless for `Φ`, every trace over it satisfies `Φ`. -/
theorem TLaw.of_all {Φ : List Ev → Result → Prop} (T : TLaw Φ) {P : Ev → Prop}
    (h : ∀ e, P e → Φ [e] .ok) : ∀ (es : List Ev) (t : Result), AllEv P es t → Φ es t := by
  intro es
  induction es with
  | nil => intro t _; exact T.nil t
  | cons e tl ih =>
    intro t hall
    have h1 : Φ [e] .ok := h e (hall e List.mem_cons_self)
    have h2 : Φ tl t := ih t (fun x hx => hall x (List.mem_cons_of_mem _ hx))
    exact T.app h1 h2

theorem Sat.of_all {Φ : List Ev → Result → Prop} (T : TLaw Φ) {P : Ev → Prop}
    (h : ∀ e, P e → Φ [e] .ok) {m : M α} (hm : Sat (TR (AllEv P)) m) : Sat (TR Φ) m :=
  hm.mono fun _ t _ ⟨es, he, hp⟩ => ⟨es, he, T.of_all h es t hp⟩

/-- Events of everything that follows the newOrder step: authorisations, polls, key pair,
finalize, download, the two file writes. No account request, no account save. -/
def ARest : Ev → Prop
  | .exch k a _ _ => a = .kid ∧
      ((∃ x, k = .authz x) ∨ (∃ x, k = .challengeReady x) ∨ (∃ x, k = .authzPoll x) ∨
       k = .orderPoll ∨ k = .finalize ∨ k = .certDownload)
  | .hooks ty _ => ty ≠ .postOperation
  | .saveAccount => False
  | _ => True

section RestWalk
local macro "rw'" "[" ts:term,* "]" : tactic =>
  `(tactic| (walk [$ts,*] [AllEv.exchange ARest, AllEv.hookGroup ARest, AllEv.emit ARest,
                  AllEv.freshKey ARest, AllEv.modAcc ARest, AllEv.modFiles ARest]
                  (AllEv.tlaw ARest).law
             all_goals simp [ARest, authOf]))

theorem ARest.solveChallenges (ty : ChalType) (l : List (ChalType × Nat)) :
    Sat (TR (AllEv ARest)) (solveChallenges ty l) := by
  induction l with
  | nil => unfold Flow.solveChallenges; rw' []
  | cons x rest ih => unfold Flow.solveChallenges; rw' [ih]
theorem ARest.pollAuthz (a n : Nat) : Sat (TR (AllEv ARest)) (pollAuthz a n) := by
  induction n with
  | zero => unfold Flow.pollAuthz; rw' []
  | succ n ih => unfold Flow.pollAuthz; rw' [ih]
theorem ARest.cleanHooks (l : List Nat) : Sat (TR (AllEv ARest)) (cleanHooks l) := by
  induction l with
  | nil => unfold Flow.cleanHooks; rw' []
  | cons x rest ih => unfold Flow.cleanHooks; rw' [ih]
theorem ARest.processAuthz (cfg : Cfg) (a : Nat) : Sat (TR (AllEv ARest)) (processAuthz cfg a) := by
  unfold Flow.processAuthz
  rw' [ARest.solveChallenges, ARest.pollAuthz, ARest.cleanHooks]
theorem ARest.processAuthzs (cfg : Cfg) (l : List Nat) :
    Sat (TR (AllEv ARest)) (processAuthzs cfg l) := by
  induction l with
  | nil => unfold Flow.processAuthzs; rw' []
  | cons x rest ih => unfold Flow.processAuthzs; rw' [ih, ARest.processAuthz]
theorem ARest.pollOrder (want : OrderStatus) (st : Step) (n : Nat) :
    Sat (TR (AllEv ARest)) (pollOrder want st n) :=
  AllEv.pollOrder ARest (by intro s r; simp [ARest]) want st n
theorem ARest.getKeyPair (cfg : Cfg) : Sat (TR (AllEv ARest)) (getKeyPair cfg) := by
  unfold Flow.getKeyPair genKey; rw' []
theorem ARest.fetchPre (v : Variant) (k : KeyId) (n : Bool) :
    Sat (TR (AllEv ARest)) (fetchPre v k n) :=
  AllEv.mono (fun e h => by
    cases e with
    | exch kd a s r =>
      obtain ⟨h1, h2 | h2⟩ := h <;> subst h2 <;> simp [ARest, h1, authOf]
    | hooks ty b =>
      obtain ⟨h1 | h1, _⟩ := h <;> subst h1 <;> simp [ARest]
    | saveAccount => exact h
    | _ => trivial)
    (AFetch.fetchPre v k n)
theorem ARest.downloadCert : Sat (TR (AllEv ARest)) downloadCert := by
  unfold Flow.downloadCert; rw' []
theorem ARest.checkBody (v : Variant) (k : KeyId) (cb : CertBody) :
    Sat (TR (AllEv ARest)) (checkBody v k cb) := by
  unfold Flow.checkBody; rw' []
theorem ARest.install (v : Variant) (k : KeyId) (n : Bool) (x : CertContent) :
    Sat (TR (AllEv ARest)) (install v k n x) := by
  unfold Flow.install Flow.writeKey Flow.writeCert writeFileHooks; rw' []
end RestWalk

/-! ### Re-association of the attempt -/

theorem M.bind_assoc (m : M α) (f : α → M β) (g : β → M γ) :
    (m >>= f) >>= g = m >>= fun a => f a >>= g := by
  funext w
  simp only [bind_run]
  rcases m w with ⟨o, w1⟩
  cases o <;> rfl

theorem M.pure_bind (a : α) (f : α → M β) : (pure a : M α) >>= f = f a := by
  funext w; rfl

/-- Everything after the account synchronisation. -/
def afterSync (v : Variant) (cfg : Cfg) : M Unit :=
  newOrder >>= fun o =>
  processAuthzs cfg o.authzs >>= fun _ =>
  pollOrder .ready .orderReadyPoll Gen.DEFAULT_POOL_NB_TRIES >>= fun _ =>
  getKeyPair cfg >>= fun p =>
  fetchPre v p.1 p.2 >>= fun _ =>
  downloadCert >>= fun cb =>
  checkBody v p.1 cb >>= fun c =>
  install v p.1 p.2 c

theorem attemptM_eq (v : Variant) (cfg : Cfg) :
    attemptM v cfg = refreshDirectory >>= fun _ => synchronize v >>= fun _ => afterSync v cfg := by
  unfold attemptM obtainM prepareM afterSync
  simp only [M.bind_assoc]
  have hp : ∀ {α β : Type} (a : α) (f : α → M β), (Pure.pure a : M α) >>= f = f a :=
    fun a f => M.pure_bind a f
  simp only [hp]

/-- Glue: a relation that holds of the newOrder step and of every event of the rest holds of
everything after the synchronisation. -/
theorem afterSync_sat {Φ : List Ev → Result → Prop} (T : TLaw Φ) (v : Variant) (cfg : Cfg)
    (hno : Sat (TR Φ) newOrder) (hrest : ∀ e, ARest e → Φ [e] .ok) :
    Sat (TR Φ) (afterSync v cfg) := by
  have L := T.law
  have h1 := fun l => Sat.of_all T hrest (ARest.processAuthzs cfg l)
  have h2 := fun a b c => Sat.of_all T hrest (ARest.pollOrder a b c)
  have h3 := Sat.of_all T hrest (ARest.getKeyPair cfg)
  have h4 := fun k n => Sat.of_all T hrest (ARest.fetchPre v k n)
  have h5 := Sat.of_all T hrest ARest.downloadCert
  have h6 := fun k cb => Sat.of_all T hrest (ARest.checkBody v k cb)
  have h7 := fun k n x => Sat.of_all T hrest (ARest.install v k n x)
  unfold afterSync
  walk [hno, h1, h2, h3, h4, h5, h6, h7] [] L

/-! ### Monitor: an account is created only when allowed (C11 `register_only_when`) -/

/-- Replays the signed requests (the directory GET is skipped): a newAccount request is accepted
only while `allow` holds; after every request `allow` becomes "that request was answered
accountDoesNotExist". -/
def regMon : Bool → List Ev → Bool
  | _, [] => true
  | p, .exch k _ _ r :: es =>
    if k = .directory then regMon p es
    else (k != .newAccount || p) && regMon (isADNE r) es
  | p, _ :: es => regMon p es

theorem regMon_noexch {es : List Ev} (h : ∀ e ∈ es, NoExch e) (p : Bool) : regMon p es = true := by
  induction es with
  | nil => rfl
  | cons e tl ih =>
    have he := h e List.mem_cons_self
    have := ih (fun x hx => h x (List.mem_cons_of_mem _ hx))
    cases e <;> simp_all [NoExch, regMon]

theorem regMon_append {a b : List Ev} (hb : ∀ q, regMon q b = true) :
    ∀ p, regMon p a = true → regMon p (a ++ b) = true := by
  induction a with
  | nil => intro p _; exact hb p
  | cons e tl ih =>
    intro p h
    cases e with
    | exch k au s r =>
      simp only [List.cons_append, regMon] at h ⊢
      split
      · rename_i hk; simp only [hk, if_true] at h; exact ih p h
      · rename_i hk
        simp only [hk, if_false, Bool.and_eq_true] at h
        simp only [Bool.and_eq_true]
        exact ⟨h.1, ih _ h.2⟩
    | _ => exact ih p h

def ΦReg : List Ev → Result → Prop := fun es _ => ∀ p, regMon p es = true

theorem ΦReg.tlaw : TLaw ΦReg where
  nil := fun _ _ => rfl
  app := fun ha hb p => regMon_append hb p (ha p)

theorem RegShape.regMon {s : KeyId} {es : List Ev} {t : Result} (h : RegShape s es t) :
    regMon true es = true := by
  rcases h with ⟨rfl, _⟩ | ⟨r, rest, rfl, hs, _⟩
  · rfl
  · simp [Flow.regMon, regMon_noexch hs.1]

theorem UpdShape.regMon {k : ReqKind} {s c : KeyId} {es : List Ev} {t : Result}
    (h : UpdShape k s c es t) (hk : k ≠ .newAccount) (hd : k ≠ .directory) :
    ∀ p, regMon p es = true := by
  intro p
  rcases h with ⟨rfl, _⟩ | ⟨r, rest, rfl, ⟨ha, hr⟩ | ⟨_, hs, _⟩ | ⟨_, _, q, rest', rfl, hs, _⟩⟩
  · rfl
  · simp [Flow.regMon, hk, hd, ha, hr.regMon]
  · simp [Flow.regMon, hk, hd, regMon_noexch hs.1]
  · simp [Flow.regMon, hk, hd, regMon_noexch hs.1]

theorem regMon_updateContacts : Sat (TR ΦReg) updateContacts :=
  ⟨fun w => by
    obtain ⟨es, he, hs⟩ := updateContacts_shape w
    exact ⟨es, he, hs.regMon (by simp) (by simp)⟩⟩

theorem KeyShape.regMon {s c : KeyId} {es : List Ev} {t : Result} (h : KeyShape s c es t) :
    ∀ p, regMon p es = true := by
  intro p
  rcases h with h | ⟨q, rest, rfl, ⟨_, ⟨rfl, _⟩ | ⟨q', rest', rfl, hs, _⟩⟩ | ⟨_, hu, _⟩ | ⟨rfl, _⟩⟩
  · exact h.regMon (by simp) (by simp) p
  · simp [Flow.regMon]
  · simp [Flow.regMon, regMon_noexch hs.1]
  · simp [Flow.regMon, hu.regMon (by simp) (by simp)]
  · simp [Flow.regMon]

theorem regMon_updateKey (v : Variant) : Sat (TR ΦReg) (updateKey v) :=
  ⟨fun w => by
    obtain ⟨es, he, hs, _⟩ := updateKey_shape v w
    exact ⟨es, he, hs.regMon⟩⟩

theorem regMon_of_rest (e : Ev) (h : ARest e) : ΦReg [e] .ok := by
  intro p
  cases e with
  | exch k a s r =>
    obtain ⟨_, ⟨x, rfl⟩ | ⟨x, rfl⟩ | ⟨x, rfl⟩ | rfl | rfl | rfl⟩ := h <;> simp [regMon]
  | _ => simp [regMon]

/-- Second round of the newOrder loop. -/
def newOrder2 : M OrderBody :=
  getW >>= fun w2 => exchange .newOrder w2.acc.curKey >>= fun r2 => decodeNewOrder r2

theorem newOrder_run (w : World) :
    Flow.newOrder w = match w.exs with
      | [] => (.stuck, w)
      | r :: rest =>
        match r with
        | .acmeErr .accountDoesNotExist =>
          (register >>= fun _ => newOrder2) (w.afterExch .newOrder w.acc.curKey r rest)
        | _ => decodeNewOrder r (w.afterExch .newOrder w.acc.curKey r rest) := by
  unfold Flow.newOrder
  simp only [bind_run, getW, exchange]
  rcases w.exs with _ | ⟨r, rest⟩
  · rfl
  · cases r with
    | ok b => rfl
    | acmeErr ty => cases ty <;> rfl
    | otherErr => rfl
    | lost => rfl

/-- The newOrder step: a re-registration happens only right after `accountDoesNotExist`. -/
theorem regMon_newOrder : Sat (TR ΦReg) Flow.newOrder := by
  have hd : ∀ r, Sat (TR ΦReg) (decodeNewOrder r) := by
    intro r; unfold decodeNewOrder; walk [] [] ΦReg.tlaw.law
  have hx : ∀ s, Sat (TR ΦReg) (exchange .newOrder s) :=
    fun s => TR.exchange ΦReg.tlaw _ _ (fun r p => by simp [regMon])
  have htail : Sat (TR ΦReg) newOrder2 := by
    unfold newOrder2; walk [hd, hx] [] ΦReg.tlaw.law
  constructor
  intro w
  rw [newOrder_run]
  rcases hx' : w.exs with _ | ⟨r, rest⟩
  · exact ⟨[], by simp, fun _ => rfl⟩
  · simp only
    split
    · obtain ⟨es1, he1, hs1⟩ := register_shape
        (w.afterExch .newOrder w.acc.curKey (.acmeErr .accountDoesNotExist) rest)
      rcases bind_cases register (fun _ => newOrder2)
          (w.afterExch .newOrder w.acc.curKey (.acmeErr .accountDoesNotExist) rest) with
        ⟨a, w2, e1, e2⟩ | ⟨_, e2, e3⟩
      · obtain ⟨es2, he2, hs2⟩ := htail.run w2
        rw [e1] at he1
        refine ⟨.exch .newOrder .kid w.acc.curKey (.acmeErr .accountDoesNotExist) :: (es1 ++ es2),
          ?_, ?_⟩
        · rw [e2, he2, he1]; simp [World.afterExch, authOf]
        · intro p
          simp only [regMon, isADNE]
          simp
          exact regMon_append hs2 true hs1.regMon
      · refine ⟨.exch .newOrder .kid w.acc.curKey (.acmeErr .accountDoesNotExist) :: es1, ?_, ?_⟩
        · rw [e3, he1]; simp [World.afterExch, authOf]
        · intro p
          simp only [regMon, isADNE]
          simp
          exact hs1.regMon
    · obtain ⟨es2, he2, hs2⟩ := (hd r).run (w.afterExch .newOrder w.acc.curKey r rest)
      refine ⟨.exch .newOrder .kid w.acc.curKey r :: es2, ?_, ?_⟩
      · rw [he2]; simp [World.afterExch, authOf]
      · intro p
        simp [regMon, hs2 _]

theorem refreshDirectory_run (w : World) :
    refreshDirectory w = match w.exs with
      | [] => (.stuck, w)
      | r :: rest =>
        (match r with
          | .ok (.directory true) => .val ()
          | _ => .fail .directory, w.afterExch .directory 0 r rest) := by
  unfold refreshDirectory
  simp only [bind_run, exchange]
  rcases w.exs with _ | ⟨r, rest⟩
  · rfl
  · cases r with
    | ok b =>
      cases b with
      | directory ok => cases ok <;> rfl
      | _ => rfl
    | _ => rfl

/-- State of `regMon` after a list of events: unchanged if it contains no signed request, else
whether the last signed request was answered `accountDoesNotExist`. -/
def regState : Bool → List Ev → Bool
  | p, [] => p
  | p, .exch k _ _ r :: es => if k = .directory then regState p es else regState (isADNE r) es
  | p, _ :: es => regState p es

/-- What `regMon` accepting a trace means for each newAccount request in it. -/
theorem regMon_sound {pre post : List Ev} {a : Auth} {s : KeyId} {r : ExRes} :
    ∀ p, regMon p (pre ++ .exch .newAccount a s r :: post) = true → regState p pre = true := by
  induction pre with
  | nil =>
    intro p h
    simp [regMon] at h
    simpa [regState] using h.1
  | cons e tl ih =>
    intro p h
    cases e with
    | exch k au s' r' =>
      simp only [List.cons_append, regMon, regState] at h ⊢
      split
      · rename_i hk; simp only [hk, if_true] at h; exact ih p h
      · rename_i hk
        simp only [hk, if_false, Bool.and_eq_true] at h
        exact ih _ h.2
    | _ => exact ih p h

theorem regMon_skip_dir (p : Bool) (s : KeyId) (r : ExRes) (es : List Ev) (a : Auth) :
    regMon p (.exch .directory a s r :: es) = regMon p es := by
  simp [regMon]

/-- The synchronisation creates an account only when no URL is stored or the binding changed;
otherwise only right after `accountDoesNotExist`. -/
theorem sync_regMon (v : Variant) (w : World) :
    ∃ es, (synchronize v w).2.trace = w.trace ++ es ∧
      regMon (!w.acc.hasUrl || !w.acc.bindingInSync) es = true := by
  have L := ΦReg.tlaw.law
  have hk : ∀ c : Prop, ∀ [Decidable c], Sat (TR ΦReg) (if c then updateKey v else pure ()) := by
    intro c _; walk [regMon_updateKey v] [] L
  have hc : ∀ c : Prop, ∀ [Decidable c], Sat (TR ΦReg) (if c then updateContacts else pure ()) := by
    intro c _; walk [regMon_updateContacts] [] L
  unfold synchronize
  simp only [bind_run, getW]
  by_cases hu : w.acc.hasUrl = true
  · by_cases hb : w.acc.bindingInSync = true
    · simp only [hu, hb, if_true]
      have : Sat (TR ΦReg) (if v.keyFirst = true then
          ((if (!w.acc.keyInSync) = true then updateKey v else pure ()) >>= fun _ =>
            if (!w.acc.contactsInSync) = true then updateContacts else pure ())
          else ((if (!w.acc.contactsInSync) = true then updateContacts else pure ()) >>= fun _ =>
            if (!w.acc.keyInSync) = true then updateKey v else pure ())) := by
        walk [hk, hc] [] L
      obtain ⟨es, he, hs⟩ := this.run w
      exact ⟨es, he, by simpa using hs false⟩
    · simp only [hu, hb, if_true]
      obtain ⟨es1, he1, hs1⟩ := register_shape w
      rcases bind_cases register (fun _ =>
          if (v.bindingThenContacts && (!w.acc.contactsInSync && w.acc.keyInSync)) = true
          then updateContacts else pure ()) w with ⟨a, w2, e1, e2⟩ | ⟨_, _, e3⟩
      · obtain ⟨es2, he2, hs2⟩ := (hc ((v.bindingThenContacts &&
            (!w.acc.contactsInSync && w.acc.keyInSync)) = true)).run w2
        rw [e1] at he1
        refine ⟨es1 ++ es2, ?_, ?_⟩
        · show ((register >>= _) w).2.trace = _
          rw [e2, he2, he1]; simp
        · exact regMon_append hs2 true hs1.regMon
      · refine ⟨es1, ?_, ?_⟩
        · show ((register >>= _) w).2.trace = _
          rw [e3, he1]
        · exact hs1.regMon
  · simp only [hu]
    obtain ⟨es1, he1, hs1⟩ := register_shape w
    exact ⟨es1, he1, by simpa [hu] using hs1.regMon⟩

/-! ### Monitor: account state is saved before the next request (C11 `state_saved_before_use`) -/

def isAcctKind : ReqKind → Bool
  | .newAccount | .accountUpdate | .keyChange => true
  | _ => false

/-- `pend` = an account request (creation, contact update, roll-over) was answered 2xx and the
account has not been saved since.  (The POST-as-GETs of the roll-over block are not account
requests in this sense: the one signed by the recorded key changes nothing; that the one signed by
the current key is followed by a save is part of `KeyShape`.)  No request may be sent while `pend`. -/
def savedMon : Bool → List Ev → Bool
  | _, [] => true
  | pend, .exch k _ _ r :: es => !pend && savedMon (isAcctKind k && isOkRes r) es
  | _, .saveAccount :: es => savedMon false es
  | pend, _ :: es => savedMon pend es

def savedState : Bool → List Ev → Bool
  | pend, [] => pend
  | _, .exch k _ _ r :: es => savedState (isAcctKind k && isOkRes r) es
  | _, .saveAccount :: es => savedState false es
  | pend, _ :: es => savedState pend es

theorem savedMon_append (a b : List Ev) :
    ∀ p, savedMon p (a ++ b) = (savedMon p a && savedMon (savedState p a) b) := by
  induction a with
  | nil => intro p; simp [savedMon, savedState]
  | cons e tl ih =>
    intro p
    cases e <;> simp [savedMon, savedState, ih, Bool.and_assoc]

theorem savedState_append (a b : List Ev) :
    ∀ p, savedState p (a ++ b) = savedState (savedState p a) b := by
  induction a with
  | nil => intro p; rfl
  | cons e tl ih => intro p; cases e <;> simp [savedState, ih]

theorem savedMon_noexch {es : List Ev} (h : ∀ e ∈ es, NoExch e) (p : Bool) :
    savedMon p es = true := by
  induction es generalizing p with
  | nil => rfl
  | cons e tl ih =>
    have he := h e List.mem_cons_self
    have ih' := fun q => ih (fun x hx => h x (List.mem_cons_of_mem _ hx)) q
    cases e with
    | exch => exact he.elim
    | saveAccount => simpa [savedMon] using ih' false
    | _ => simpa [savedMon] using ih' p

theorem savedState_noexch_false {es : List Ev} (h : ∀ e ∈ es, NoExch e) :
    savedState false es = false := by
  induction es with
  | nil => rfl
  | cons e tl ih =>
    have he := h e List.mem_cons_self
    have := ih (fun x hx => h x (List.mem_cons_of_mem _ hx))
    cases e <;> simp_all [NoExch, savedState]

theorem savedState_saved {es : List Ev} (h : ∀ e ∈ es, NoExch e) (hs : .saveAccount ∈ es)
    (p : Bool) : savedState p es = false := by
  induction es generalizing p with
  | nil => cases hs
  | cons e tl ih =>
    have he := h e List.mem_cons_self
    have htl : ∀ x ∈ tl, NoExch x := fun x hx => h x (List.mem_cons_of_mem _ hx)
    rcases List.mem_cons.mp hs with rfl | hs'
    · simp [savedState, savedState_noexch_false htl]
    · cases e with
      | exch => exact he.elim
      | saveAccount => simp [savedState, savedState_noexch_false htl]
      | _ => simpa [savedState] using ih htl hs' p

def ΦSaved : List Ev → Result → Prop := fun es t =>
  savedMon false es = true ∧ (t = .ok → savedState false es = false)

theorem ΦSaved.tlaw : TLaw ΦSaved where
  nil := fun _ => ⟨rfl, fun _ => rfl⟩
  app := by
    rintro a b t ⟨a1, a2⟩ ⟨b1, b2⟩
    have ha := a2 rfl
    exact ⟨by rw [savedMon_append, a1, ha, b1]; rfl, fun ht => by rw [savedState_append, ha, b2 ht]⟩

theorem SaveShape.saved {es : List Ev} {t : Result} (h : SaveShape es t) (p : Bool) :
    savedMon p es = true ∧ (t = .ok → savedState p es = false) :=
  ⟨savedMon_noexch h.1 p, fun ht => savedState_saved h.1 (h.2 ht) p⟩

theorem RegShape.saved {s : KeyId} {es : List Ev} {t : Result} (h : RegShape s es t) :
    ΦSaved es t := by
  rcases h with ⟨rfl, rfl⟩ | ⟨r, rest, rfl, hs, _⟩
  · exact ⟨rfl, by simp⟩
  · obtain ⟨h1, h2⟩ := hs.saved (isAcctKind .newAccount && isOkRes r)
    exact ⟨by simp [savedMon, h1], fun ht => by simp [savedState, h2 ht]⟩

theorem UpdShape.saved {k : ReqKind} {s c : KeyId} {es : List Ev} {t : Result}
    (h : UpdShape k s c es t) : ΦSaved es t := by
  rcases h with ⟨rfl, ht⟩ | ⟨r, rest, rfl, ⟨ha, hr⟩ | ⟨_, hs, _⟩ | ⟨_, hrf, q, rest', rfl, hs, _⟩⟩
  · exact ⟨rfl, fun h => by rcases ht with rfl | rfl <;> simp at h⟩
  · have hno : isOkRes r = false := by
      cases r with
      | ok b => simp [isADNE] at ha
      | _ => rfl
    obtain ⟨h1, h2⟩ := hr.saved
    exact ⟨by simp [savedMon, hno, h1], fun ht => by simp [savedState, hno, h2 ht]⟩
  · obtain ⟨h1, h2⟩ := hs.saved (isAcctKind k && isOkRes r)
    exact ⟨by simp [savedMon, h1], fun ht => by simp [savedState, h2 ht]⟩
  · obtain ⟨h1, h2⟩ := hs.saved (isAcctKind .accountProbe && isOkRes q)
    have hf : isOkRes r = false := isRefusal_notOk hrf
    exact ⟨by simp only [savedMon, hf, Bool.and_false, Bool.not_false, Bool.true_and, h1],
      fun ht => by simp only [savedState, h2 ht]⟩

theorem KeyShape.saved {s c : KeyId} {es : List Ev} {t : Result} (h : KeyShape s c es t) :
    ΦSaved es t := by
  rcases h with h | ⟨q, rest, rfl, ⟨_, ⟨rfl, ht⟩ | ⟨q', rest', rfl, hs, _⟩⟩ | ⟨_, hu, _⟩ | ⟨rfl, ht⟩⟩
  · exact h.saved
  · exact ⟨by simp [savedMon], fun h => by rw [ht] at h; cases h⟩
  · obtain ⟨h1, h2⟩ := hs.saved false
    exact ⟨by simp [savedMon, isAcctKind, h1], fun ht => by simp [savedState, isAcctKind, h2 ht]⟩
  · obtain ⟨h1, h2⟩ := hu.saved
    exact ⟨by simpa [savedMon, isAcctKind] using h1, fun ht => by simpa [savedState, isAcctKind] using h2 ht⟩
  · exact ⟨by simp [savedMon], fun h => by rw [ht] at h; cases h⟩

theorem saved_register : Sat (TR ΦSaved) register :=
  ⟨fun w => by obtain ⟨es, he, hs⟩ := register_shape w; exact ⟨es, he, hs.saved⟩⟩
theorem saved_updateContacts : Sat (TR ΦSaved) updateContacts :=
  ⟨fun w => by obtain ⟨es, he, hs⟩ := updateContacts_shape w; exact ⟨es, he, hs.saved⟩⟩
theorem saved_updateKey (v : Variant) : Sat (TR ΦSaved) (updateKey v) :=
  ⟨fun w => by obtain ⟨es, he, hs, _⟩ := updateKey_shape v w; exact ⟨es, he, hs.saved⟩⟩

theorem saved_exchange (k : ReqKind) (s : KeyId) (hk : isAcctKind k = false) :
    Sat (TR ΦSaved) (exchange k s) :=
  TR.exchange ΦSaved.tlaw k s fun r => ⟨by simp [savedMon], fun _ => by simp [savedState, hk]⟩

theorem saved_of_rest (e : Ev) (h : ARest e) : ΦSaved [e] .ok := by
  cases e with
  | exch k a s r =>
    obtain ⟨_, ⟨x, rfl⟩ | ⟨x, rfl⟩ | ⟨x, rfl⟩ | rfl | rfl | rfl⟩ := h <;>
      exact ⟨by simp [savedMon], fun _ => by simp [savedState, isAcctKind]⟩
  | saveAccount => exact absurd h (by simp [ARest])
  | _ => exact ⟨by simp [savedMon], fun _ => by simp [savedState]⟩

theorem saved_synchronize (v : Variant) : Sat (TR ΦSaved) (synchronize v) := by
  unfold synchronize
  walk [saved_register, saved_updateContacts, saved_updateKey v] [] ΦSaved.tlaw.law

theorem saved_newOrder : Sat (TR ΦSaved) Flow.newOrder := by
  unfold Flow.newOrder decodeNewOrder
  walk [saved_register] [saved_exchange] ΦSaved.tlaw.law
  all_goals rfl

theorem saved_attemptM (v : Variant) (cfg : Cfg) : Sat (TR ΦSaved) (attemptM v cfg) := by
  rw [attemptM_eq]
  have h1 : Sat (TR ΦSaved) refreshDirectory := by
    unfold refreshDirectory
    walk [] [saved_exchange] ΦSaved.tlaw.law
    all_goals rfl
  have h3 := afterSync_sat ΦSaved.tlaw v cfg saved_newOrder saved_of_rest
  walk [h1, saved_synchronize v, h3] [] ΦSaved.tlaw.law

/-- What `savedMon` accepting a trace means: between a successful account request and the next
request there is an account save. -/
theorem savedMon_sound {mid post : List Ev} {k k' : ReqKind} {a a' : Auth} {s s' : KeyId}
    {r r' : ExRes} (hk : isAcctKind k = true) (hr : isOkRes r = true) :
    ∀ (pre : List Ev) (p : Bool),
      savedMon p (pre ++ .exch k a s r :: (mid ++ .exch k' a' s' r' :: post)) = true →
      .saveAccount ∈ mid := by
  have key : ∀ mid : List Ev, savedMon true (mid ++ .exch k' a' s' r' :: post) = true →
      .saveAccount ∈ mid := by
    intro mid
    induction mid with
    | nil => intro h; simp [savedMon] at h
    | cons e tl ih =>
      intro h
      cases e with
      | exch => simp [savedMon] at h
      | saveAccount => exact List.mem_cons_self
      | _ => exact List.mem_cons_of_mem _ (ih h)
  intro pre p h
  rw [savedMon_append] at h
  simp only [Bool.and_eq_true] at h
  have h2 := h.2
  simp only [savedMon, hk, hr, Bool.and_self, Bool.and_eq_true] at h2
  exact key mid h2.2

/-! ### Monitor: every `kid` request is signed by the key the CA holds (C11 `sync_order_current`) -/

/-- The `kid` requests whose 2xx answer means "the CA now holds `cur` for this account": the key
change itself, and a POST-as-GET of the account made by the roll-over block and signed by `cur`
(the CA verified that signature). -/
def setsCur (cur : KeyId) (k : ReqKind) (s : KeyId) (r : ExRes) : Bool :=
  (k == .keyChange || (k == .accountProbe && s == cur)) && isOkRes r

/-- Replays what the CA holds for the account (`ca`): a `jwk` request answered 2xx makes it hold
the signer's key; a key change answered 2xx makes it hold the new key `cur`; every `kid` request
must be signed by the key held at that moment. -/
def heldMon (cur : KeyId) : KeyId → List Ev → Bool
  | _, [] => true
  | ca, .exch k a s r :: es =>
    match a with
    | .none => heldMon cur ca es
    | .jwk => heldMon cur (if isOkRes r then s else ca) es
    | .kid => (s == ca) && heldMon cur (if setsCur cur k s r then cur else ca) es
  | ca, _ :: es => heldMon cur ca es

/-- As `heldMon`, except that a POST-as-GET of the account made by the roll-over block
(`accountProbe`) may also be signed by `cur` while the CA holds another key: after a refusal the
client cannot tell which of the two keys the CA holds, and asks. -/
def heldMonP (cur : KeyId) : KeyId → List Ev → Bool
  | _, [] => true
  | ca, .exch k a s r :: es =>
    match a with
    | .none => heldMonP cur ca es
    | .jwk => heldMonP cur (if isOkRes r then s else ca) es
    | .kid => (s == ca || (k == .accountProbe && s == cur)) &&
        heldMonP cur (if setsCur cur k s r then cur else ca) es
  | ca, _ :: es => heldMonP cur ca es

def heldEnd (cur : KeyId) : KeyId → List Ev → KeyId
  | ca, [] => ca
  | ca, .exch k a s r :: es =>
    match a with
    | .none => heldEnd cur ca es
    | .jwk => heldEnd cur (if isOkRes r then s else ca) es
    | .kid => heldEnd cur (if setsCur cur k s r then cur else ca) es
  | ca, _ :: es => heldEnd cur ca es

theorem heldMon_append (cur : KeyId) (a b : List Ev) :
    ∀ ca, heldMon cur ca (a ++ b) = (heldMon cur ca a && heldMon cur (heldEnd cur ca a) b) := by
  induction a with
  | nil => intro ca; simp [heldMon, heldEnd]
  | cons e tl ih =>
    intro ca
    cases e with
    | exch k au s r => cases au <;> simp [heldMon, heldEnd, ih, Bool.and_assoc]
    | _ => simp [heldMon, heldEnd, ih]

theorem heldMonP_append (cur : KeyId) (a b : List Ev) :
    ∀ ca, heldMonP cur ca (a ++ b) = (heldMonP cur ca a && heldMonP cur (heldEnd cur ca a) b) := by
  induction a with
  | nil => intro ca; simp [heldMonP, heldEnd]
  | cons e tl ih =>
    intro ca
    cases e with
    | exch k au s r => cases au <;> simp [heldMonP, heldEnd, ih, Bool.and_assoc]
    | _ => simp [heldMonP, heldEnd, ih]

theorem heldEnd_append (cur : KeyId) (a b : List Ev) :
    ∀ ca, heldEnd cur ca (a ++ b) = heldEnd cur (heldEnd cur ca a) b := by
  induction a with
  | nil => intro ca; rfl
  | cons e tl ih =>
    intro ca
    cases e with
    | exch k au s r => cases au <;> simp [heldEnd, ih]
    | _ => simp [heldEnd, ih]

/-- The strict monitor implies the one that admits the check. -/
theorem heldMonP_of_heldMon (cur : KeyId) : ∀ (es : List Ev) (ca : KeyId),
    heldMon cur ca es = true → heldMonP cur ca es = true := by
  intro es
  induction es with
  | nil => intro _ _; rfl
  | cons e tl ih =>
    intro ca h
    cases e with
    | exch k au s r =>
      cases au with
      | none => exact ih _ h
      | jwk => exact ih _ h
      | kid =>
        simp only [heldMon, Bool.and_eq_true] at h
        simp only [heldMonP, Bool.and_eq_true, Bool.or_eq_true]
        exact ⟨.inl h.1, ih _ h.2⟩
    | _ => exact ih _ h

/-- When no POST-as-GET of the roll-over block is signed by `cur` the two monitors agree. -/
theorem heldMon_of_heldMonP (cur : KeyId) : ∀ (es : List Ev) (ca : KeyId),
    (∀ a s r, Ev.exch .accountProbe a s r ∈ es → s ≠ cur) →
    heldMonP cur ca es = true → heldMon cur ca es = true := by
  intro es
  induction es with
  | nil => intro _ _ _; rfl
  | cons e tl ih =>
    intro ca hn h
    have hn' : ∀ a s r, Ev.exch .accountProbe a s r ∈ tl → s ≠ cur :=
      fun a s r hm => hn a s r (List.mem_cons_of_mem _ hm)
    cases e with
    | exch k au s r =>
      cases au with
      | none => exact ih _ hn' h
      | jwk => exact ih _ hn' h
      | kid =>
        simp only [heldMonP, Bool.and_eq_true, Bool.or_eq_true, beq_iff_eq] at h
        simp only [heldMon, Bool.and_eq_true, beq_iff_eq]
        refine ⟨?_, ih _ hn' h.2⟩
        rcases h.1 with h1 | h1
        · exact h1
        · exact absurd h1.2 (hn .kid s r (by rw [h1.1]; exact List.mem_cons_self))
    | _ => exact ih _ hn' h

theorem NoProbe.signers {es : List Ev} (h : NoProbe es) (cur : KeyId) :
    ∀ a s r, Ev.exch .accountProbe a s r ∈ es → s ≠ cur :=
  fun a s r hm => absurd hm (h a s r)

theorem held_noexch (cur : KeyId) {es : List Ev} (h : ∀ e ∈ es, NoExch e) (ca : KeyId) :
    heldMon cur ca es = true ∧ heldEnd cur ca es = ca := by
  induction es with
  | nil => exact ⟨rfl, rfl⟩
  | cons e tl ih =>
    have he := h e List.mem_cons_self
    have ih' := ih (fun x hx => h x (List.mem_cons_of_mem _ hx))
    cases e with
    | exch => exact he.elim
    | _ => simpa [heldMon, heldEnd] using ih'

/-- What `heldMon` accepting a trace means for each `kid` request in it. -/
theorem heldMon_sound (cur : KeyId) {pre post : List Ev} {k : ReqKind} {s : KeyId} {r : ExRes}
    (ca : KeyId) (h : heldMon cur ca (pre ++ .exch k .kid s r :: post) = true) :
    s = heldEnd cur ca pre := by
  rw [heldMon_append] at h
  simp only [Bool.and_eq_true, heldMon, beq_iff_eq] at h
  exact h.2.1

/-- What `heldMonP` accepting a trace means for each `kid` request in it: signed by the key held,
or it is a POST-as-GET of the roll-over block signed by the new key. -/
theorem heldMonP_sound (cur : KeyId) {pre post : List Ev} {k : ReqKind} {s : KeyId} {r : ExRes}
    (ca : KeyId) (h : heldMonP cur ca (pre ++ .exch k .kid s r :: post) = true) :
    s = heldEnd cur ca pre ∨ (k = .accountProbe ∧ s = cur) := by
  rw [heldMonP_append] at h
  simp only [Bool.and_eq_true, heldMonP, Bool.or_eq_true, beq_iff_eq] at h
  exact h.2.1

theorem RegShape.held (cur : KeyId) {s : KeyId} {es : List Ev} {t : Result} (h : RegShape s es t)
    (ca : KeyId) : heldMon cur ca es = true ∧ (t = .ok → heldEnd cur ca es = s) := by
  rcases h with ⟨rfl, rfl⟩ | ⟨r, rest, rfl, hs, hr⟩
  · exact ⟨rfl, by simp⟩
  · have hn := held_noexch cur hs.1
    refine ⟨by simp [heldMon, (hn _).1], fun ht => ?_⟩
    simp [heldEnd, hr ht, (hn _).2]

/-- A POST-as-GET signed by the current key and what follows: accepted by the admitting monitor
whatever the CA holds; if it returned, the CA holds the current key. -/
theorem ProbeShape.heldP {c : KeyId} {es : List Ev} {t : Result} (h : ProbeShape c es t)
    (ca : KeyId) : heldMonP c ca es = true ∧ (t = .ok → heldEnd c ca es = c) := by
  obtain ⟨q, rest, rfl, hs, hok⟩ := h
  have hn := held_noexch c hs.1
  refine ⟨by simp [heldMonP, heldMonP_of_heldMon _ _ _ (hn _).1], fun ht => ?_⟩
  simp [heldEnd, setsCur, hok ht, (hn _).2]

/-- The admitting monitor accepts every roll-over / contact-update block, and a block that
returned ends with the CA holding the current key. -/
theorem UpdShape.heldP {k : ReqKind} {s c : KeyId} {es : List Ev} {t : Result}
    (h : UpdShape k s c es t) (hk : k = .keyChange ∨ s = c) :
    heldMonP c s es = true ∧ (t = .ok → heldEnd c s es = c) := by
  rcases h with ⟨rfl, ht⟩ | ⟨r, rest, rfl, ⟨ha, hr⟩ | ⟨_, hs, hok⟩ | ⟨_, hrf, hp⟩⟩
  · exact ⟨rfl, fun h => by rcases ht with rfl | rfl <;> simp at h⟩
  · have hno : isOkRes r = false := by
      cases r with
      | ok b => simp [isADNE] at ha
      | _ => rfl
    obtain ⟨h1, h2⟩ := hr.held c s
    exact ⟨by simp [heldMonP, setsCur, hno, heldMonP_of_heldMon _ _ _ h1],
      fun ht => by simp [heldEnd, setsCur, hno, h2 ht]⟩
  · have hn := held_noexch c hs.1
    refine ⟨by simp [heldMonP, heldMonP_of_heldMon _ _ _ (hn _).1], fun ht => ?_⟩
    simp only [heldEnd, (hn _).2, setsCur, hok ht, Bool.and_true]
    rcases hk with rfl | rfl
    · simp
    · simp
  · have hf : isOkRes r = false := isRefusal_notOk hrf
    obtain ⟨h1, h2⟩ := hp.heldP s
    exact ⟨by simp [heldMonP, setsCur, hf, h1], fun ht => by simp [heldEnd, setsCur, hf, h2 ht]⟩

/-- The strict monitor accepts a block without a POST-as-GET signed by the current key. -/
theorem UpdShape.held {k : ReqKind} {s c : KeyId} {es : List Ev} {t : Result}
    (h : UpdShape k s c es t) (hk : k = .keyChange ∨ s = c)
    (hn : NoProbe es) :
    heldMon c s es = true ∧ (t = .ok → heldEnd c s es = c) :=
  ⟨heldMon_of_heldMonP _ _ _ (hn.signers c) (h.heldP hk).1, (h.heldP hk).2⟩

/-- The whole roll-over block, replayed from "the CA holds the recorded key". -/
theorem KeyShape.heldP {s c : KeyId} {es : List Ev} {t : Result} (h : KeyShape s c es t) :
    heldMonP c s es = true ∧ (t = .ok → heldEnd c s es = c) := by
  have hst : ∀ q : ExRes, (if setsCur c .accountProbe s q then c else s) = s := by
    intro q
    by_cases hq : setsCur c .accountProbe s q = true
    · simp only [hq, if_true]
      simp only [setsCur, Bool.and_eq_true, Bool.or_eq_true, beq_iff_eq] at hq
      rcases hq.1 with h | h
      · cases h
      · exact h.2.symm
    · simp [hq]
  rcases h with h | ⟨q, rest, rfl, ⟨_, ⟨rfl, ht⟩ | hp⟩ | ⟨_, hu, _⟩ | ⟨rfl, ht⟩⟩
  · exact h.heldP (.inl rfl)
  · exact ⟨by simp [heldMonP], fun h => by rw [ht] at h; cases h⟩
  · obtain ⟨h1, h2⟩ := hp.heldP s
    exact ⟨by simp [heldMonP, hst, h1], fun ht => by simp [heldEnd, hst, h2 ht]⟩
  · obtain ⟨h1, h2⟩ := hu.heldP (.inl rfl)
    exact ⟨by simp [heldMonP, hst, h1], fun ht => by simp [heldEnd, hst, h2 ht]⟩
  · exact ⟨by simp [heldMonP], fun h => by rw [ht] at h; cases h⟩

/-- A contact-update block contains no POST-as-GET of the roll-over block. -/
theorem UpdShape.noProbe_of_accountUpdate {s c : KeyId} {es : List Ev} {t : Result}
    (h : UpdShape .accountUpdate s c es t) : NoProbe es := by
  intro a s' r' hm
  rcases h with ⟨rfl, _⟩ | ⟨r, rest, rfl, ⟨_, hr⟩ | ⟨_, hs, _⟩ | ⟨hk, _⟩⟩
  · cases hm
  · rcases List.mem_cons.mp hm with h | h
    · cases h
    · rcases hr with ⟨rfl, _⟩ | ⟨r2, rest2, rfl, hs, _⟩
      · cases h
      · rcases List.mem_cons.mp h with h | h
        · cases h
        · exact hs.1 _ h
  · rcases List.mem_cons.mp hm with h | h
    · cases h
    · exact hs.1 _ h
  · cases hk

/-- The roll-over block contains no contact update. -/
theorem KeyShape.no_accountUpdate {s c : KeyId} {es : List Ev} {t : Result}
    (h : KeyShape s c es t) {a : Auth} {s' : KeyId} {r : ExRes} :
    Ev.exch .accountUpdate a s' r ∉ es := by
  intro hm
  have hu : ∀ {es t}, UpdShape .keyChange s c es t → Ev.exch .accountUpdate a s' r ∈ es → False := by
    intro es t h hm
    rcases h with ⟨rfl, _⟩ | ⟨r0, rest, rfl, ⟨_, hr⟩ | ⟨_, hs, _⟩ | ⟨_, _, q, rest', rfl, hs, _⟩⟩
    · cases hm
    · rcases List.mem_cons.mp hm with h | h
      · cases h
      · rcases hr with ⟨rfl, _⟩ | ⟨r2, rest2, rfl, hs, _⟩
        · cases h
        · rcases List.mem_cons.mp h with h | h
          · cases h
          · exact hs.1 _ h
    · rcases List.mem_cons.mp hm with h | h
      · cases h
      · exact hs.1 _ h
    · rcases List.mem_cons.mp hm with h | h
      · cases h
      · rcases List.mem_cons.mp h with h | h
        · cases h
        · exact hs.1 _ h
  rcases h with h | ⟨q, rest, rfl, ⟨_, ⟨rfl, _⟩ | ⟨q', rest', rfl, hs, _⟩⟩ | ⟨_, hu', _⟩ | ⟨rfl, _⟩⟩
  · exact hu h hm
  · rcases List.mem_cons.mp hm with h | h <;> cases h
  · rcases List.mem_cons.mp hm with h | h
    · cases h
    · rcases List.mem_cons.mp h with h | h
      · cases h
      · exact hs.1 _ h
  · rcases List.mem_cons.mp hm with h | h
    · cases h
    · exact hu hu' h
  · rcases List.mem_cons.mp hm with h | h <;> cases h

/-- Events of the shapes: contact updates are `kid` requests signed by `signer`. -/
theorem UpdShape.accountUpdate_events {k : ReqKind} {s c : KeyId} {es : List Ev} {t : Result}
    (h : UpdShape k s c es t) {a : Auth} {s' : KeyId} {r : ExRes}
    (he : .exch .accountUpdate a s' r ∈ es) : k = .accountUpdate ∧ a = .kid ∧ s' = s := by
  have hreg : ∀ {sg rest t}, RegShape sg rest t → .exch .accountUpdate a s' r ∈ rest → False := by
    intro sg rest t hr hm
    rcases hr with ⟨rfl, _⟩ | ⟨r2, rest2, rfl, hs, _⟩
    · cases hm
    · rcases List.mem_cons.mp hm with h | h
      · cases h
      · exact hs.1 _ h
  rcases h with ⟨rfl, _⟩ | ⟨r0, rest, rfl, ⟨_, hr⟩ | ⟨_, hs, _⟩ | ⟨_, _, q, rest', rfl, hs, _⟩⟩
  · cases he
  · rcases List.mem_cons.mp he with h | h
    · cases h; exact ⟨rfl, rfl, rfl⟩
    · exact (hreg hr h).elim
  · rcases List.mem_cons.mp he with h | h
    · cases h; exact ⟨rfl, rfl, rfl⟩
    · exact (hs.1 _ h).elim
  · rcases List.mem_cons.mp he with h | h
    · cases h; exact ⟨rfl, rfl, rfl⟩
    · rcases List.mem_cons.mp h with h | h
      · cases h
      · exact (hs.1 _ h).elim

/-! ### Account functions that returned: effect on the account record -/

theorem saveAccount_val {w w' : World} {u : Unit} (h : saveAccount w = (.val u, w')) :
    w'.acc = w.acc ∧ w'.exs = w.exs ∧
      w'.trace = w.trace ++ [.hooks .filePre true, .saveAccount, .hooks .filePost true] := by
  have hs := saveAccount_spec w
  rw [h] at hs
  exact ⟨hs.val.2.2, hs.2.1, hs.val.2.1⟩

theorem register_val {w w' : World} {u : Unit} (h : register w = (.val u, w')) :
    ∃ ho ex rest, w.exs = .ok (.account ho true ex) :: rest ∧ w'.exs = rest ∧
      w'.acc = regAcc ex w.acc ∧
      w'.trace = w.trace ++ [.exch .newAccount .jwk w.acc.curKey (.ok (.account ho true ex)),
        .hooks .filePre true, .saveAccount, .hooks .filePost true] := by
  rw [register_run] at h
  rcases hx : w.exs with _ | ⟨r, rest⟩
  · rw [hx] at h; simp at h
  · rw [hx] at h
    simp only at h
    split at h
    · rename_i ho ex
      obtain ⟨h1, h2, h3⟩ := saveAccount_val h
      exact ⟨ho, ex, rest, rfl, by rw [h2]; rfl, by rw [h1]; rfl,
        by rw [h3]; simp [World.afterExch, World.withAcc, authOf]⟩
    · simp at h

theorem updateContacts_val {w w' : World} {u : Unit} (h : updateContacts w = (.val u, w')) :
    (∃ b rest, w.exs = .ok b :: rest ∧ w'.exs = rest ∧ w'.acc = contactsAcc w.acc ∧
      w'.trace = w.trace ++ [.exch .accountUpdate .kid w.acc.curKey (.ok b),
        .hooks .filePre true, .saveAccount, .hooks .filePost true]) ∨
    (∃ rest, w.exs = .acmeErr .accountDoesNotExist :: rest ∧
      register (w.afterExch .accountUpdate w.acc.curKey (.acmeErr .accountDoesNotExist) rest)
        = (.val u, w')) := by
  rw [updateContacts_run] at h
  rcases hx : w.exs with _ | ⟨r, rest⟩
  · rw [hx] at h; simp at h
  · rw [hx] at h
    simp only at h
    split at h
    · rename_i b
      obtain ⟨h1, h2, h3⟩ := saveAccount_val h
      exact .inl ⟨b, rest, rfl, by rw [h2]; rfl, by rw [h1]; rfl,
        by rw [h3]; simp [World.afterExch, World.withAcc, authOf]⟩
    · exact .inr ⟨rest, rfl, h⟩
    · simp at h
    · simp at h

theorem checkNewKey_val {w w' : World} {u : Unit} (h : checkNewKey w = (.val u, w')) :
    ∃ b rest, w.exs = .ok b :: rest ∧ w'.exs = rest ∧ w'.acc = keyAcc w.acc ∧
      w'.trace = w.trace ++ [.exch .accountProbe .kid w.acc.curKey (.ok b),
        .hooks .filePre true, .saveAccount, .hooks .filePost true] := by
  rw [checkNewKey_run] at h
  rcases hx : w.exs with _ | ⟨r, rest⟩
  · rw [hx] at h; simp at h
  · rw [hx] at h
    simp only at h
    split at h
    · rename_i b
      obtain ⟨h1, h2, h3⟩ := saveAccount_val h
      exact ⟨b, rest, rfl, by rw [h2]; rfl, by rw [h1]; rfl,
        by rw [h3]; simp [World.afterExch, World.withAcc, authOf]⟩
    · simp at h

/-- The roll-over request returned: it was answered 2xx; or it was answered `accountDoesNotExist`
and the re-registration returned; or (5ce05e3 only) it was REFUSED and the check that followed was
answered 2xx. -/
theorem keyChangeStep_val {ca : Bool} {w w' : World} {u : Unit}
    (h : keyChangeStep ca w = (.val u, w')) :
    (∃ b rest, w.exs = .ok b :: rest ∧ w'.exs = rest ∧ w'.acc = keyAcc w.acc ∧
      w'.trace = w.trace ++ [.exch .keyChange .kid w.acc.recKey (.ok b),
        .hooks .filePre true, .saveAccount, .hooks .filePost true]) ∨
    (∃ rest, w.exs = .acmeErr .accountDoesNotExist :: rest ∧
      register (w.afterExch .keyChange w.acc.recKey (.acmeErr .accountDoesNotExist) rest)
        = (.val u, w')) ∨
    (ca = true ∧ ∃ r b rest, isRefusal r = true ∧ w.exs = r :: .ok b :: rest ∧
      w'.exs = rest ∧ w'.acc = keyAcc w.acc ∧
      w'.trace = w.trace ++ [.exch .keyChange .kid w.acc.recKey r,
        .exch .accountProbe .kid w.acc.curKey (.ok b),
        .hooks .filePre true, .saveAccount, .hooks .filePost true]) := by
  rw [keyChangeStep_run] at h
  rcases hx : w.exs with _ | ⟨r, rest⟩
  · rw [hx] at h; simp at h
  · rw [hx] at h
    simp only at h
    split at h
    · rename_i b
      obtain ⟨h1, h2, h3⟩ := saveAccount_val h
      exact .inl ⟨b, rest, rfl, by rw [h2]; rfl, by rw [h1]; rfl,
        by rw [h3]; simp [World.afterExch, World.withAcc, authOf]⟩
    · exact .inr (.inl ⟨rest, rfl, h⟩)
    · rename_i ty hty
      split at h
      · rename_i hv
        obtain ⟨b, rest2, h1, h2, h3, h4⟩ := checkNewKey_val h
        refine .inr (.inr ⟨hv, .acmeErr ty, b, rest2, ?_, ?_, h2, ?_, ?_⟩)
        · cases ty with
          | accountDoesNotExist => exact absurd rfl hty
          | _ => rfl
        · simp only [World.afterExch] at h1; rw [h1]
        · rw [h3]; rfl
        · rw [h4]; simp [World.afterExch, authOf]
      · simp at h
    · simp at h
    · simp at h

/-- The checked roll-over (1fb1c1a) returned: the first check was answered 2xx or
accountDoesNotExist and the roll-over request that followed returned; or it was answered with a
`sigRefused` error and the check signed by the current key was answered 2xx. -/
theorem keyChangeChecked_val {w w' : World} {u : Unit} (h : keyChangeChecked w = (.val u, w')) :
    ∃ p rest, w.exs = p :: rest ∧
      ((p = .acmeErr .sigRefused ∧
        checkNewKey (w.afterExch .accountProbe w.acc.recKey p rest) = (.val u, w')) ∨
       ((isOkRes p = true ∨ isADNE p = true) ∧
        keyChangeStep false (w.afterExch .accountProbe w.acc.recKey p rest) = (.val u, w'))) := by
  rw [keyChangeChecked_run] at h
  rcases hx : w.exs with _ | ⟨p, rest⟩
  · rw [hx] at h; simp at h
  · rw [hx] at h
    simp only at h
    refine ⟨p, rest, rfl, ?_⟩
    split at h
    · exact .inr ⟨.inl rfl, h⟩
    · exact .inr ⟨.inr rfl, h⟩
    · exact .inl ⟨rfl, h⟩
    · simp at h

theorem updateKey_val {v : Variant} {w w' : World} {u : Unit} (h : updateKey v w = (.val u, w')) :
    (v.rolloverCheck = .first ∧ keyChangeChecked w = (.val u, w')) ∨
    (v.rolloverCheck ≠ .first ∧
      keyChangeStep (v.rolloverCheck == .afterRefusal) w = (.val u, w')) := by
  rw [updateKey_run] at h
  split at h
  · cases hv : v.rolloverCheck with
    | first => rw [hv] at h; exact .inl ⟨rfl, h⟩
    | afterRefusal => rw [hv] at h; exact .inr ⟨by simp, h⟩
    | none => rw [hv] at h; exact .inr ⟨by simp, h⟩
  · simp at h

/-! ### The synchronisation, current order, URL stored and binding unchanged -/

/-- Decomposition of `synchronize` (key first) when the key is out of sync: the roll-over block,
then — only if it returned — the contact block (or nothing when the contacts are in sync). -/
theorem sync_keyFirst_keyChanged (v : Variant) (hv : v.keyFirst = true) (w : World)
    (hu : w.acc.hasUrl = true) (hb : w.acc.bindingInSync = true) (hk : w.acc.keyInSync = false) :
    ∃ es1 es2 t1, (synchronize v w).2.trace = w.trace ++ (es1 ++ es2) ∧
      KeyShape w.acc.recKey w.acc.curKey es1 t1 ∧
      (v.rolloverCheck ≠ .first → UpdShape .keyChange w.acc.recKey w.acc.curKey es1 t1) ∧
      (mayAskCur v w = false → ProbesBy w.acc.recKey es1) ∧
      ((t1 = .ok ∧ ((w.acc.contactsInSync = false ∧
            UpdShape .accountUpdate w.acc.curKey w.acc.curKey es2 (synchronize v w).1.tag) ∨
          (w.acc.contactsInSync = true ∧ es2 = [] ∧ (synchronize v w).1.tag = .ok))) ∨
       (t1 ≠ .ok ∧ es2 = [] ∧ (synchronize v w).1.tag = t1)) := by
  have hsync : synchronize v w = (updateKey v >>= fun _ =>
      if (!w.acc.contactsInSync) = true then updateContacts else pure ()) w := by
    unfold synchronize
    simp only [bind_run, getW, hu, hb, hv, hk, if_true, Bool.not_false]
  rw [hsync]
  obtain ⟨es1, he1, hs1, hus, hnp⟩ := updateKey_shape v w
  rcases bind_cases (updateKey v) (fun _ =>
      if (!w.acc.contactsInSync) = true then updateContacts else pure ()) w with
    ⟨u, w1, e1, e2⟩ | ⟨hne, e2, e3⟩
  · rw [e2]
    rw [e1] at he1 hs1 hus
    have hcur : w1.acc.curKey = w.acc.curKey := by
      have := ((Frame.updateKey v).run w).2.2.1
      rw [e1] at this; exact this
    cases hc : w.acc.contactsInSync
    · simp only [Bool.not_false, if_true]
      obtain ⟨es2, he2, hs2⟩ := updateContacts_shape w1
      rw [hcur] at hs2
      exact ⟨es1, es2, .ok, by rw [he2, he1]; simp, hs1, hus, hnp, .inl ⟨rfl, .inl ⟨trivial, hs2⟩⟩⟩
    · simp only [Bool.not_true, Bool.false_eq_true, if_false]
      exact ⟨es1, [], .ok, by simpa [pure_run] using he1, hs1, hus, hnp, .inl ⟨rfl, .inr ⟨trivial, rfl, rfl⟩⟩⟩
  · exact ⟨es1, [], _, by rw [e3, he1]; simp, hs1, hus, hnp, .inr ⟨hne, rfl, e2⟩⟩

/-! ### Effect of the account functions on the record, when they return -/

/-- `w'` is reached from `w` by consuming a prefix of the script. -/
def Consumed (w w' : World) : Prop := ∃ pre, w.exs = pre ++ w'.exs

theorem Consumed.refl (w : World) : Consumed w w := ⟨[], rfl⟩
theorem Consumed.trans {a b c : World} (h1 : Consumed a b) (h2 : Consumed b c) : Consumed a c := by
  obtain ⟨p1, e1⟩ := h1
  obtain ⟨p2, e2⟩ := h2
  exact ⟨p1 ++ p2, by rw [e1, e2, List.append_assoc]⟩
theorem Consumed.mem {a b : World} (h : Consumed a b) {r : ExRes} (hr : r ∈ b.exs) : r ∈ a.exs := by
  obtain ⟨p, e⟩ := h
  rw [e]; exact List.mem_append_right _ hr

theorem register_acc {w w' : World} {u : Unit} (h : register w = (.val u, w')) :
    Consumed w w' ∧ ∃ ho ex, .ok (.account ho true ex) ∈ w.exs ∧ w'.acc = regAcc ex w.acc := by
  obtain ⟨ho, ex, rest, h1, h2, h3, _⟩ := register_val h
  exact ⟨⟨[_], by rw [h1, h2]; rfl⟩, ho, ex, by rw [h1]; exact List.mem_cons_self, h3⟩

theorem updateContacts_acc {w w' : World} {u : Unit} (h : updateContacts w = (.val u, w')) :
    Consumed w w' ∧ ((.acmeErr .accountDoesNotExist ∉ w.exs → w'.acc = contactsAcc w.acc) ∧
      (w'.acc = contactsAcc w.acc ∨
        ∃ ho ex, .ok (.account ho true ex) ∈ w.exs ∧ w'.acc = regAcc ex w.acc)) := by
  rcases updateContacts_val h with ⟨b, rest, h1, h2, h3, _⟩ | ⟨rest, h1, h2⟩
  · exact ⟨⟨[_], by rw [h1, h2]; rfl⟩, fun _ => h3, .inl h3⟩
  · obtain ⟨hc, ho, ex, hm, ha⟩ := register_acc h2
    have hc' : Consumed w w' := by
      obtain ⟨p, e⟩ := hc
      exact ⟨_ :: p, by rw [h1]; simp only [List.cons_append]; congr 1⟩
    refine ⟨hc', fun hn => absurd (by rw [h1]; exact List.mem_cons_self) hn, .inr ⟨ho, ex, ?_, ha⟩⟩
    rw [h1]; exact List.mem_cons_of_mem _ hm

theorem checkNewKey_acc {w w' : World} {u : Unit} (h : checkNewKey w = (.val u, w')) :
    Consumed w w' ∧ w'.acc = keyAcc w.acc := by
  obtain ⟨b, rest, h1, h2, h3, _⟩ := checkNewKey_val h
  exact ⟨⟨[_], by rw [h1, h2]; rfl⟩, h3⟩

theorem keyChangeStep_acc {ca : Bool} {w w' : World} {u : Unit}
    (h : keyChangeStep ca w = (.val u, w')) :
    Consumed w w' ∧ ((.acmeErr .accountDoesNotExist ∉ w.exs → w'.acc = keyAcc w.acc) ∧
      (w'.acc = keyAcc w.acc ∨
        ∃ ho ex, .ok (.account ho true ex) ∈ w.exs ∧ w'.acc = regAcc ex w.acc)) := by
  rcases keyChangeStep_val h with ⟨b, rest, h1, h2, h3, _⟩ | ⟨rest, h1, h2⟩ |
    ⟨_, r, b, rest, _, h1, h2, h3, _⟩
  · exact ⟨⟨[_], by rw [h1, h2]; rfl⟩, fun _ => h3, .inl h3⟩
  · obtain ⟨hc, ho, ex, hm, ha⟩ := register_acc h2
    have hc' : Consumed w w' := by
      obtain ⟨p, e⟩ := hc
      exact ⟨_ :: p, by rw [h1]; simp only [List.cons_append]; congr 1⟩
    refine ⟨hc', fun hn => absurd (by rw [h1]; exact List.mem_cons_self) hn, .inr ⟨ho, ex, ?_, ha⟩⟩
    rw [h1]; exact List.mem_cons_of_mem _ hm
  · exact ⟨⟨[_, _], by rw [h1, h2]; rfl⟩, fun _ => h3, .inl h3⟩

theorem updateKey_acc {v : Variant} {w w' : World} {u : Unit} (h : updateKey v w = (.val u, w')) :
    Consumed w w' ∧ ((.acmeErr .accountDoesNotExist ∉ w.exs → w'.acc = keyAcc w.acc) ∧
      (w'.acc = keyAcc w.acc ∨
        ∃ ho ex, .ok (.account ho true ex) ∈ w.exs ∧ w'.acc = regAcc ex w.acc)) := by
  rcases updateKey_val h with ⟨_, h⟩ | ⟨_, h⟩
  · obtain ⟨p, rest, hx, ⟨_, h1⟩ | ⟨_, h1⟩⟩ := keyChangeChecked_val h
    · obtain ⟨⟨pre, hc⟩, ha⟩ := checkNewKey_acc h1
      exact ⟨⟨p :: pre, by rw [hx]; simp only [List.cons_append]; congr 1⟩,
        fun _ => ha, .inl ha⟩
    · obtain ⟨⟨pre, hc⟩, ha1, ha2⟩ := keyChangeStep_acc h1
      refine ⟨⟨p :: pre, by rw [hx]; simp only [List.cons_append]; congr 1⟩, fun hn => ?_, ?_⟩
      · exact ha1 fun hm => hn (by rw [hx]; exact List.mem_cons_of_mem _ hm)
      · rcases ha2 with ha | ⟨ho, ex, hm, ha⟩
        · exact .inl ha
        · exact .inr ⟨ho, ex, by rw [hx]; exact List.mem_cons_of_mem _ hm, ha⟩
  · exact keyChangeStep_acc h

/-- The four shapes of `synchronize`. -/
theorem sync_eq_noUrl (v : Variant) (w : World) (hu : w.acc.hasUrl = false) :
    synchronize v w = register w := by
  unfold synchronize
  simp only [bind_run, getW, hu, Bool.false_eq_true, if_false]

theorem sync_eq_binding (v : Variant) (w : World) (hu : w.acc.hasUrl = true)
    (hb : w.acc.bindingInSync = false) :
    synchronize v w = (register >>= fun _ =>
      if (v.bindingThenContacts && (!w.acc.contactsInSync && w.acc.keyInSync)) = true
      then updateContacts else pure ()) w := by
  unfold synchronize
  simp only [bind_run, getW, hu, hb, Bool.false_eq_true, if_true, if_false]

theorem sync_eq_keyFirst (v : Variant) (w : World) (hu : w.acc.hasUrl = true)
    (hb : w.acc.bindingInSync = true) (hv : v.keyFirst = true) :
    synchronize v w = ((if (!w.acc.keyInSync) = true then updateKey v else pure ()) >>= fun _ =>
      if (!w.acc.contactsInSync) = true then updateContacts else pure ()) w := by
  unfold synchronize
  simp only [bind_run, getW, hu, hb, hv, if_true]

theorem sync_eq_contactsFirst (v : Variant) (w : World) (hu : w.acc.hasUrl = true)
    (hb : w.acc.bindingInSync = true) (hv : v.keyFirst = false) :
    synchronize v w = ((if (!w.acc.contactsInSync) = true then updateContacts else pure ()) >>= fun _ =>
      if (!w.acc.keyInSync) = true then updateKey v else pure ()) w := by
  unfold synchronize
  simp only [bind_run, getW, hu, hb, hv, if_true, Bool.false_eq_true, if_false]

/-- Possible effects of one account step on the record. -/
def StepEff (w w' : World) : Prop :=
  Consumed w w' ∧ (w'.acc = w.acc ∨ w'.acc = keyAcc w.acc ∨ w'.acc = contactsAcc w.acc ∨
    ∃ ho ex, .ok (.account ho true ex) ∈ w.exs ∧ w'.acc = regAcc ex w.acc)

theorem optKey_eff {v : Variant} {c : Prop} [Decidable c] {w w' : World} {u : Unit}
    (h : (if c then updateKey v else pure ()) w = (.val u, w')) :
    (¬c ∧ w' = w) ∨ (c ∧ Consumed w w' ∧
      ((.acmeErr .accountDoesNotExist ∉ w.exs → w'.acc = keyAcc w.acc) ∧
       (w'.acc = keyAcc w.acc ∨
        ∃ ho ex, .ok (.account ho true ex) ∈ w.exs ∧ w'.acc = regAcc ex w.acc))) := by
  by_cases hc : c
  · simp only [hc, if_true] at h
    exact .inr ⟨hc, updateKey_acc h⟩
  · simp only [hc, if_false, pure_run, Prod.mk.injEq] at h
    exact .inl ⟨hc, h.2.symm⟩

theorem optContacts_eff {c : Prop} [Decidable c] {w w' : World} {u : Unit}
    (h : (if c then updateContacts else pure ()) w = (.val u, w')) :
    (¬c ∧ w' = w) ∨ (c ∧ Consumed w w' ∧
      ((.acmeErr .accountDoesNotExist ∉ w.exs → w'.acc = contactsAcc w.acc) ∧
       (w'.acc = contactsAcc w.acc ∨
        ∃ ho ex, .ok (.account ho true ex) ∈ w.exs ∧ w'.acc = regAcc ex w.acc))) := by
  by_cases hc : c
  · simp only [hc, if_true] at h
    exact .inr ⟨hc, updateContacts_acc h⟩
  · simp only [hc, if_false, pure_run, Prod.mk.injEq] at h
    exact .inl ⟨hc, h.2.symm⟩

/-! ### Generic alphabets for the small pieces; glue with a special treatment of the challenges -/

theorem AllEv.pollAuthz (P : Ev → Prop) (h : ∀ a s r, P (.exch (.authzPoll a) .kid s r))
    (a n : Nat) : Sat (TR (AllEv P)) (pollAuthz a n) := by
  induction n with
  | zero => unfold Flow.pollAuthz; exact Sat.failAt (AllEv.tlaw P).law _
  | succ n ih =>
    unfold Flow.pollAuthz
    walk [ih] [AllEv.exchange P] (AllEv.tlaw P).law
    exact h _ _ _

theorem AllEv.cleanHooks (P : Ev → Prop) (h : ∀ c b, P (.hooks (.clean c) b)) (l : List Nat) :
    Sat (TR (AllEv P)) (cleanHooks l) := by
  induction l with
  | nil => unfold Flow.cleanHooks; exact Sat.pure (AllEv.tlaw P).law _
  | cons x rest ih =>
    unfold Flow.cleanHooks
    walk [ih] [AllEv.hookGroup P] (AllEv.tlaw P).law
    exact h _ _

theorem AllEv.getKeyPair (P : Ev → Prop) (h3 : ∀ k, P (.keygen k)) (h4 : ∀ k, P (.readKey k))
    (cfg : Cfg) : Sat (TR (AllEv P)) (getKeyPair cfg) := by
  unfold Flow.getKeyPair genKey
  walk [] [AllEv.emit P, AllEv.freshKey P] (AllEv.tlaw P).law
  · exact h4 _
  · exact h3 _
  · exact h3 _

theorem AllEv.downloadCert (P : Ev → Prop) (h : ∀ s r, P (.exch .certDownload .kid s r)) :
    Sat (TR (AllEv P)) downloadCert := by
  unfold Flow.downloadCert
  walk [] [AllEv.exchange P] (AllEv.tlaw P).law
  exact h _ _

theorem AllEv.checkBody (P : Ev → Prop) (v : Variant) (k : KeyId) (cb : CertBody) :
    Sat (TR (AllEv P)) (checkBody v k cb) := by
  unfold Flow.checkBody
  walk [] [] (AllEv.tlaw P).law

theorem AllEv.install (P : Ev → Prop) (hh : ∀ b, P (.hooks .filePre b) ∧ P (.hooks .filePost b))
    (hk : ∀ k, P (.writeKey k)) (hc : ∀ c, P (.writeCert c)) (v : Variant) (k : KeyId) (n : Bool)
    (x : CertContent) : Sat (TR (AllEv P)) (install v k n x) := by
  unfold Flow.install Flow.writeKey Flow.writeCert writeFileHooks
  walk [] [AllEv.hookGroup P, AllEv.emit P, AllEv.modFiles P] (AllEv.tlaw P).law
  all_goals first | exact (hh _).1 | exact (hh _).2 | exact hk _ | exact hc _

/-- `ARest` without what only `solveChallenges` emits. -/
def ATail (e : Ev) : Prop :=
  ARest e ∧ (∀ c a s r, e ≠ .exch (.challengeReady c) a s r) ∧ (∀ c b, e ≠ .hooks (.challenge c) b)

/-- Glue for monitors that need their own treatment of `solveChallenges`. -/
theorem afterSync_sat2 {Φ : List Ev → Result → Prop} (T : TLaw Φ) (v : Variant) (cfg : Cfg)
    (hno : Sat (TR Φ) newOrder) (hsolve : ∀ ty l, Sat (TR Φ) (solveChallenges ty l))
    (htail : ∀ e, ATail e → Φ [e] .ok) : Sat (TR Φ) (afterSync v cfg) := by
  have L := T.law
  have hx : ∀ a s, Sat (TR Φ) (exchange (.authz a) s) := fun a s =>
    TR.exchange T _ _ fun r => htail _ ⟨by simp [ARest, authOf], by simp, by simp⟩
  have hpa := fun a n => Sat.of_all T htail (AllEv.pollAuthz ATail
    (fun a s r => ⟨by simp [ARest], by simp, by simp⟩) a n)
  have hcl := fun l => Sat.of_all T htail (AllEv.cleanHooks ATail
    (fun c b => ⟨by simp [ARest], by simp, by simp⟩) l)
  have h0 : ∀ a, Sat (TR Φ) (processAuthz cfg a) := by
    intro a
    unfold processAuthz
    walk [hsolve, hpa, hcl, hx] [] L
  have h1 : ∀ l, Sat (TR Φ) (processAuthzs cfg l) := by
    intro l
    induction l with
    | nil => unfold processAuthzs; walk [] [] L
    | cons x rest ih => unfold processAuthzs; walk [ih, h0] [] L
  have h2 := fun a b c => Sat.of_all T htail (AllEv.pollOrder ATail
    (fun s r => ⟨by simp [ARest], by simp, by simp⟩) a b c)
  have h3 := Sat.of_all T htail (AllEv.getKeyPair ATail
    (fun k => ⟨by simp [ARest], by simp, by simp⟩) (fun k => ⟨by simp [ARest], by simp, by simp⟩) cfg)
  have h4 := fun k n => Sat.of_all T htail (AllEv.mono (Q := ATail) (fun e h => by
      cases e with
      | exch kd a s r =>
        obtain ⟨h1, h2 | h2⟩ := h <;> subst h2 <;>
          exact ⟨by simp [ARest, h1, authOf], by simp, by simp⟩
      | hooks ty b =>
        obtain ⟨h1 | h1, _⟩ := h <;> subst h1 <;> exact ⟨by simp [ARest], by simp, by simp⟩
      | saveAccount => exact h.elim
      | keygen => exact h.elim
      | readKey => exact h.elim
      | writeCert => exact h.elim
      | csr => exact ⟨by simp [ARest], by simp, by simp⟩
      | writeKey => exact ⟨by simp [ARest], by simp, by simp⟩) (AFetch.fetchPre v k n))
  have h5 := Sat.of_all T htail (AllEv.downloadCert ATail
    (fun s r => ⟨by simp [ARest], by simp, by simp⟩))
  have h6 := fun k cb => Sat.of_all T htail (AllEv.checkBody ATail v k cb)
  have h7 := fun k n x => Sat.of_all T htail (AllEv.install ATail
    (fun b => ⟨⟨by simp [ARest], by simp, by simp⟩, ⟨by simp [ARest], by simp, by simp⟩⟩)
    (fun k => ⟨by simp [ARest], by simp, by simp⟩) (fun c => ⟨by simp [ARest], by simp, by simp⟩)
    v k n x)
  unfold afterSync
  walk [hno, h1, h2, h3, h4, h5, h6, h7] [] L

/-- Events of the directory / account / newOrder part. -/
def AAcct : Ev → Prop
  | .exch k a _ _ => a = authOf k ∧
      (k = .directory ∨ k = .newAccount ∨ k = .accountUpdate ∨ k = .keyChange ∨ k = .newOrder ∨
       k = .accountProbe)
  | .hooks ty _ => ty = .filePre ∨ ty = .filePost
  | .saveAccount => True
  | _ => False

section AcctWalk
local macro "aw" "[" ts:term,* "]" : tactic =>
  `(tactic| (walk [$ts,*] [AllEv.exchange AAcct, AllEv.hookGroup AAcct, AllEv.emit AAcct,
                  AllEv.modAcc AAcct] (AllEv.tlaw AAcct).law
             all_goals simp [AAcct, authOf]))

theorem AAcct.saveAccount : Sat (TR (AllEv AAcct)) saveAccount := by
  unfold Flow.saveAccount writeFileHooks; aw []
theorem AAcct.register : Sat (TR (AllEv AAcct)) register := by
  unfold Flow.register; aw [AAcct.saveAccount]
theorem AAcct.updateContacts : Sat (TR (AllEv AAcct)) updateContacts := by
  unfold Flow.updateContacts; aw [AAcct.saveAccount, AAcct.register]
theorem AAcct.checkNewKey : Sat (TR (AllEv AAcct)) checkNewKey := by
  unfold Flow.checkNewKey; aw [AAcct.saveAccount]
theorem AAcct.keyChangeStep (ca : Bool) : Sat (TR (AllEv AAcct)) (keyChangeStep ca) := by
  unfold Flow.keyChangeStep; aw [AAcct.saveAccount, AAcct.register, AAcct.checkNewKey]
theorem AAcct.keyChangeChecked : Sat (TR (AllEv AAcct)) keyChangeChecked := by
  unfold Flow.keyChangeChecked; aw [AAcct.keyChangeStep, AAcct.checkNewKey]
theorem AAcct.updateKey (v : Variant) : Sat (TR (AllEv AAcct)) (updateKey v) := by
  unfold Flow.updateKey; aw [AAcct.keyChangeStep, AAcct.keyChangeChecked]
theorem AAcct.synchronize (v : Variant) : Sat (TR (AllEv AAcct)) (synchronize v) := by
  unfold Flow.synchronize; aw [AAcct.updateContacts, AAcct.updateKey, AAcct.register]
theorem AAcct.newOrder : Sat (TR (AllEv AAcct)) newOrder := by
  unfold Flow.newOrder decodeNewOrder; aw [AAcct.register]
theorem AAcct.refreshDirectory : Sat (TR (AllEv AAcct)) refreshDirectory := by
  unfold Flow.refreshDirectory; aw []
end AcctWalk

/-- A monitor for which every event of the account part and of the tail is harmless, and which
holds of `solveChallenges`, holds of the whole attempt. -/
theorem attempt_sat2 {Φ : List Ev → Result → Prop} (T : TLaw Φ) (v : Variant) (cfg : Cfg)
    (hacct : ∀ e, AAcct e → Φ [e] .ok) (hsolve : ∀ ty l, Sat (TR Φ) (solveChallenges ty l))
    (htail : ∀ e, ATail e → Φ [e] .ok) : Sat (TR Φ) (attemptM v cfg) := by
  rw [attemptM_eq]
  have h1 := Sat.of_all T hacct AAcct.refreshDirectory
  have h2 := Sat.of_all T hacct (AAcct.synchronize v)
  have h3 := afterSync_sat2 T v cfg (Sat.of_all T hacct AAcct.newOrder) hsolve htail
  walk [h1, h2, h3] [] T.law

/-! ### Monitor: "ready" only right after that challenge's successful hooks (C05) -/

def readyMon : Option Nat → List Ev → Bool
  | _, [] => true
  | st, .exch (.challengeReady c) _ _ _ :: es => (st == some c) && readyMon none es
  | _, .hooks (.challenge c) true :: es => readyMon (some c) es
  | _, _ :: es => readyMon none es

def hookFailed (es : List Ev) : Prop := ∃ c, .hooks (.challenge c) false ∈ es

def ΦReady : List Ev → Result → Prop := fun es t =>
  (∀ st, readyMon st es = true) ∧ (hookFailed es → t = .failed .challengeHooks)

theorem readyMon_append {a b : List Ev} (hb : ∀ st, readyMon st b = true) :
    ∀ st, readyMon st a = true → readyMon st (a ++ b) = true := by
  induction a with
  | nil => intro st _; exact hb st
  | cons e tl ih =>
    intro st h
    cases e with
    | exch k au s r =>
      cases k with
      | challengeReady c =>
        simp only [List.cons_append, readyMon, Bool.and_eq_true] at h ⊢
        exact ⟨h.1, ih _ h.2⟩
      | _ => exact ih _ h
    | hooks ty ok =>
      cases ty with
      | challenge c => cases ok <;> exact ih _ h
      | _ => exact ih _ h
    | _ => exact ih _ h

theorem ΦReady.tlaw : TLaw ΦReady where
  nil := fun _ => ⟨fun _ => rfl, fun ⟨_, h⟩ => by cases h⟩
  app := by
    rintro a b t ⟨a1, a2⟩ ⟨b1, b2⟩
    refine ⟨fun st => readyMon_append b1 st (a1 st), ?_⟩
    rintro ⟨c, hc⟩
    rcases List.mem_append.mp hc with h | h
    · have := a2 ⟨c, h⟩; cases this
    · exact b2 ⟨c, h⟩

theorem ready_single (e : Ev) (h1 : ∀ c a s r, e ≠ .exch (.challengeReady c) a s r)
    (h2 : ∀ c b, e ≠ .hooks (.challenge c) b) : ΦReady [e] .ok := by
  constructor
  · intro st
    cases e with
    | exch k au s r =>
      cases k with
      | challengeReady c => exact absurd rfl (h1 c au s r)
      | _ => rfl
    | hooks ty ok =>
      cases ty with
      | challenge c => exact absurd rfl (h2 c ok)
      | _ => rfl
    | _ => rfl
  · rintro ⟨c, hc⟩
    rw [List.mem_singleton] at hc
    exact absurd hc.symm (h2 c false)

def World.afterHook (w : World) (ty : HookKind) (b : Bool) (rest : List Bool) : World :=
  { w with hks := rest, trace := w.trace ++ [Ev.hooks ty b] }

/-- Continuation of `solveChallenges` after the "ready" POST of challenge `c`. -/
def solveCont (ty : ChalType) (c : Nat) (rest : List (ChalType × Nat)) (r : ExRes) : M (List Nat) :=
  match r with
  | .ok _ => solveChallenges ty rest >>= fun cs => pure (c :: cs)
  | _ => failAt .challengeReady

theorem solve_cons_run (ty t : ChalType) (c : Nat) (rest : List (ChalType × Nat)) (w : World) :
    solveChallenges ty ((t, c) :: rest) w =
      if (t == ty) = true then
        match w.hks with
        | [] => (.stuck, w)
        | false :: h => (.fail .challengeHooks, w.afterHook (.challenge c) false h)
        | true :: h =>
          match w.exs with
          | [] => (.stuck, w.afterHook (.challenge c) true h)
          | r :: x => solveCont ty c rest r
              ((w.afterHook (.challenge c) true h).afterExch (.challengeReady c) w.acc.curKey r x)
      else solveChallenges ty rest w := by
  rw [solveChallenges]
  split
  · simp only [bind_run, hookGroup]
    rcases w.hks with _ | ⟨ok, h⟩
    · rfl
    · cases ok
      · rfl
      · simp only [if_true, World.afterHook]
        rcases w.exs with _ | ⟨r, x⟩
        · rfl
        · cases r <;> rfl
  · rfl

/-- The block: hooks of a challenge, then its "ready" POST; a failed hook group ends the attempt
with no POST. -/
theorem ready_solveChallenges (ty : ChalType) (l : List (ChalType × Nat)) :
    Sat (TR ΦReady) (solveChallenges ty l) := by
  induction l with
  | nil => unfold solveChallenges; exact Sat.pure ΦReady.tlaw.law _
  | cons x rest ih =>
    obtain ⟨t, c⟩ := x
    constructor
    intro w
    rw [solve_cons_run]
    split
    · rcases hh : w.hks with _ | ⟨ok, h⟩
      · exact ⟨[], by simp, ΦReady.tlaw.nil _⟩
      · cases ok
        · exact ⟨[.hooks (.challenge c) false], rfl, ⟨fun st => rfl, fun _ => rfl⟩⟩
        · simp only
          rcases hx : w.exs with _ | ⟨r, x⟩
          · refine ⟨[.hooks (.challenge c) true], rfl, ⟨fun st => rfl, ?_⟩⟩
            rintro ⟨c', hc'⟩
            simp at hc'
          · simp only
            have hcont : Sat (TR ΦReady) (solveCont ty c rest r) := by
              unfold solveCont
              walk [ih] [] ΦReady.tlaw.law
            obtain ⟨es, he, hs⟩ := hcont.run
              ((w.afterHook (.challenge c) true h).afterExch (.challengeReady c) w.acc.curKey r x)
            refine ⟨[.hooks (.challenge c) true, .exch (.challengeReady c) .kid w.acc.curKey r] ++ es,
              ?_, ?_⟩
            · rw [he]; simp [World.afterHook, World.afterExch, authOf]
            · have hblock : ΦReady [.hooks (.challenge c) true,
                  .exch (.challengeReady c) .kid w.acc.curKey r] .ok := by
                refine ⟨fun st => by simp [readyMon], ?_⟩
                rintro ⟨c', hc'⟩
                simp at hc'
              exact ΦReady.tlaw.app hblock hs
    · exact ih.run w

theorem ready_attemptM (v : Variant) (cfg : Cfg) : Sat (TR ΦReady) (attemptM v cfg) :=
  attempt_sat2 ΦReady.tlaw v cfg
    (fun e h => ready_single e (by cases e <;> simp_all [AAcct] ; rename_i k _ _ _; intro c; rcases h.2 with h | h | h | h | h | h <;> simp [h])
      (by cases e <;> simp_all [AAcct]; rename_i ty _; intro c; rcases h with h | h <;> simp [h]))
    ready_solveChallenges
    (fun e h => ready_single e h.2.1 h.2.2)

/-- What `readyMon` accepting a trace means: a "ready" POST for challenge `c` is immediately
preceded by the successful hook group of challenge `c`. -/
theorem readyMon_sound {post : List Ev} {c : Nat} {a : Auth} {s : KeyId} {r : ExRes} :
    ∀ (pre : List Ev) (st : Option Nat),
      readyMon st (pre ++ .exch (.challengeReady c) a s r :: post) = true →
      (pre = [] ∧ st = some c) ∨ ∃ pre', pre = pre' ++ [.hooks (.challenge c) true] := by
  intro pre
  induction pre with
  | nil =>
    intro st h
    simp only [List.nil_append, readyMon, Bool.and_eq_true, beq_iff_eq] at h
    exact .inl ⟨rfl, h.1⟩
  | cons e tl ih =>
    intro st h
    right
    have step : ∀ st', readyMon st' (tl ++ .exch (.challengeReady c) a s r :: post) = true →
        (st' = some c → e = .hooks (.challenge c) true) →
        ∃ pre', e :: tl = pre' ++ [.hooks (.challenge c) true] := by
      intro st' h' hst
      rcases ih st' h' with ⟨rfl, hs⟩ | ⟨pre', rfl⟩
      · exact ⟨[], by rw [hst hs]; rfl⟩
      · exact ⟨e :: pre', rfl⟩
    cases e with
    | exch k au s' r' =>
      cases k with
      | challengeReady c' =>
        simp only [List.cons_append, readyMon, Bool.and_eq_true] at h
        exact step none h.2 (fun hh => by cases hh)
      | _ => exact step none h (fun hh => by cases hh)
    | hooks ty ok =>
      cases ty with
      | challenge c' =>
        cases ok
        · exact step none h (fun hh => by cases hh)
        · exact step (some c') h (fun hh => by cases hh; rfl)
      | _ => exact step none h (fun hh => by cases hh)
    | _ => exact step none h (fun hh => by cases hh)

/-! ### The authorisation step, exactly (C05) -/

theorem processAuthz_valid (cfg : Cfg) (a : Nat) (w : World) (b : AuthzBody) (rest : List ExRes)
    (hx : w.exs = .ok (.authz b) :: rest) (hv : b.status = .valid) :
    processAuthz cfg a w = (.val (), w.afterExch (.authz a) w.acc.curKey (.ok (.authz b)) rest) := by
  unfold processAuthz
  simp only [bind_run, getW, exchange, hx, hv]
  rfl

theorem processAuthz_pending (cfg : Cfg) (a : Nat) (w : World) (b : AuthzBody) (rest : List ExRes)
    (d : Ident) (hx : w.exs = .ok (.authz b) :: rest) (hp : b.status = .pending)
    (hl : lookup cfg.ids b.ident b.wildcard = some d) :
    processAuthz cfg a w =
      (solveChallenges d.chal b.challenges >>= fun cs =>
        pollAuthz a Gen.DEFAULT_POOL_NB_TRIES >>= fun _ => cleanHooks cs)
        (w.afterExch (.authz a) w.acc.curKey (.ok (.authz b)) rest) := by
  unfold processAuthz
  simp only [bind_run, getW, exchange, hx, hp, hl]
  rfl

/-- Ids of the "ready" POSTs answered 2xx in a trace. -/
def readyIds : List Ev → List Nat
  | [] => []
  | .exch (.challengeReady c) _ _ (.ok _) :: es => c :: readyIds es
  | _ :: es => readyIds es

theorem readyIds_append (a b : List Ev) : readyIds (a ++ b) = readyIds a ++ readyIds b := by
  induction a with
  | nil => rfl
  | cons e tl ih =>
    cases e with
    | exch k au s r =>
      cases k with
      | challengeReady c => cases r <;> simp [readyIds, ih]
      | _ => simp [readyIds, ih]
    | _ => simp [readyIds, ih]

/-- `solveChallenges` that returned: the collected list is exactly the offered challenges of the
configured type, in order, each with its hooks run and its "ready" POST answered 2xx. -/
theorem solve_val (ty : ChalType) : ∀ (l : List (ChalType × Nat)) (w w' : World) (cs : List Nat),
    solveChallenges ty l w = (.val cs, w') →
      cs = (l.filter fun x => x.1 == ty).map (·.2) ∧
      ∃ es, w'.trace = w.trace ++ es ∧ readyIds es = cs := by
  intro l
  induction l with
  | nil =>
    intro w w' cs h
    rw [solveChallenges] at h
    simp only [pure_run, Prod.mk.injEq, Out.val.injEq] at h
    exact ⟨by rw [← h.1]; rfl, [], by rw [← h.2]; simp, by rw [← h.1]; rfl⟩
  | cons x rest ih =>
    obtain ⟨t, c⟩ := x
    intro w w' cs h
    rw [solve_cons_run] at h
    by_cases ht : (t == ty) = true
    · simp only [ht, if_true] at h
      rcases hh : w.hks with _ | ⟨ok, hk⟩
      · rw [hh] at h; simp at h
      · rw [hh] at h
        cases ok
        · simp at h
        · simp only at h
          rcases hx : w.exs with _ | ⟨r, x⟩
          · rw [hx] at h; simp at h
          · rw [hx] at h
            simp only [solveCont] at h
            cases r with
            | ok body =>
              simp only at h
              obtain ⟨cs', w2, h1, h2⟩ := bind_val_inv h
              simp only [pure_run, Prod.mk.injEq, Out.val.injEq] at h2
              obtain ⟨hcs, es, he, hr⟩ := ih _ _ _ h1
              refine ⟨by rw [← h2.1, hcs]; simp [List.filter, ht], ?_⟩
              refine ⟨[.hooks (.challenge c) true,
                .exch (.challengeReady c) .kid w.acc.curKey (.ok body)] ++ es, ?_, ?_⟩
              · rw [← h2.2, he]; simp [World.afterHook, World.afterExch, authOf]
              · rw [readyIds_append, hr, ← h2.1]; rfl
            | acmeErr ty' => simp [failAt] at h
            | otherErr => simp [failAt] at h
            | lost => simp [failAt] at h
    · simp only [ht] at h
      obtain ⟨hcs, es, he, hr⟩ := ih _ _ _ h
      exact ⟨by rw [hcs]; simp [List.filter, ht], es, he, hr⟩

/-- `cleanHooks` that returned ran exactly one successful clean hook group per collected challenge,
in order. -/
theorem cleanHooks_val : ∀ (cs : List Nat) (w w' : World) (u : Unit),
    cleanHooks cs w = (.val u, w') →
      w'.trace = w.trace ++ cs.map fun c => .hooks (.clean c) true := by
  intro cs
  induction cs with
  | nil =>
    intro w w' u h
    rw [cleanHooks] at h
    simp only [pure_run, Prod.mk.injEq] at h
    rw [← h.2]; simp
  | cons c rest ih =>
    intro w w' u h
    rw [cleanHooks] at h
    simp only [bind_run, hookGroup] at h
    rcases hh : w.hks with _ | ⟨ok, hk⟩
    · rw [hh] at h; simp at h
    · rw [hh] at h
      cases ok
      · simp [failAt] at h
      · simp only [if_true] at h
        rw [ih _ _ _ h]
        simp

/-- Whatever happens, `cleanHooks` emits only clean hook events, for a prefix of the collected
challenges in order. -/
def cleanIds : List Ev → List Nat
  | [] => []
  | .hooks (.clean c) _ :: es => c :: cleanIds es
  | _ :: es => cleanIds es

theorem cleanHooks_prefix : ∀ (cs : List Nat) (w : World),
    ∃ es, (cleanHooks cs w).2.trace = w.trace ++ es ∧ cleanIds es <+: cs ∧
      ∀ e ∈ es, ∃ c b, e = .hooks (.clean c) b := by
  intro cs
  induction cs with
  | nil =>
    intro w
    exact ⟨[], by rw [cleanHooks]; simp [pure_run], List.prefix_refl _, by simp⟩
  | cons c rest ih =>
    intro w
    rw [cleanHooks]
    simp only [bind_run, hookGroup]
    rcases hh : w.hks with _ | ⟨ok, hk⟩
    · exact ⟨[], by simp, List.nil_prefix, by simp⟩
    · cases ok
      · refine ⟨[.hooks (.clean c) false], rfl, ?_, by simp⟩
        exact ⟨rest, rfl⟩
      · simp only [if_true]
        obtain ⟨es, he, hp, hall⟩ := ih { w with hks := hk, trace := w.trace ++ [Ev.hooks (HookKind.clean c) true] }
        refine ⟨.hooks (.clean c) true :: es, by rw [he]; simp, ?_, ?_⟩
        · simp only [cleanIds]
          obtain ⟨t, ht⟩ := hp
          exact ⟨t, by rw [← ht]; rfl⟩
        · intro e he'
          rcases List.mem_cons.mp he' with rfl | h
          · exact ⟨c, true, rfl⟩
          · exact hall e h

/-! ### Anatomy of a successful attempt, with its trace (C01 / C02 flow clauses) -/

def AInst : Ev → Prop
  | .hooks _ _ => True
  | .writeKey _ => True
  | .writeCert _ => True
  | _ => False

theorem attempt_ok_trace {v : Variant} {cfg : Cfg} {w w' : World}
    (h : attemptM v cfg w = (.val (), w')) :
    ∃ k isNew body s es1 es3 esI,
      w'.trace = w.trace ++ (es1 ++ (if isNew then Ev.keygen k else Ev.readKey k) :: es3 ++
        .exch .certDownload .kid s (.ok body) :: esI) ∧
      (∀ e ∈ es1, APrep e) ∧ (∀ e ∈ es3, AFetch v k isNew e) ∧ (∀ e ∈ esI, AInst e) ∧
      w'.files.certFile = some (body.certClass.content) ∧
      (v.parseBody = true → body.certClass = .chainFor k) := by
  obtain ⟨k, isNew, c, cb, w1, w2, w3, w4, h1, h2, h3, h4, h5, h6⟩ := attempt_ok_anatomy h
  obtain ⟨es1, he1, ha1⟩ := (APrep.prepareM v cfg).run w
  rw [h1] at he1 ha1
  obtain ⟨k', isNew', hg, _, _⟩ := getKeyPair_run cfg w1
  rw [hg] at h2
  simp only [Prod.mk.injEq, Out.val.injEq] at h2
  obtain ⟨⟨rfl, rfl⟩, rfl⟩ := h2
  obtain ⟨es3, he3, ha3⟩ := (AFetch.fetchPre v k' isNew').run _
  rw [h3] at he3 ha3
  obtain ⟨body, rest, _, hcb, hw4⟩ := downloadCert_val h4
  obtain ⟨esI, heI, haI⟩ := (AllEv.install AInst (fun _ => ⟨trivial, trivial⟩) (fun _ => trivial)
    (fun _ => trivial) v k' isNew' c).run w4
  rw [h6] at heI haI
  obtain ⟨_, hp1, hp2⟩ := checkBody_val h5
  obtain ⟨hcert, _⟩ := install_val h6
  refine ⟨k', isNew', body, w3.acc.curKey, es1, es3, esI, ?_, ha1, ha3, haI, ?_, ?_⟩
  · show w'.trace = _
    rw [heI, hw4]
    simp only
    rw [he3]
    simp only
    rw [he1]
    simp
  · rw [hcert]
    cases hpb : v.parseBody
    · rw [hp2 hpb, hcb]
    · obtain ⟨e1, e2⟩ := hp1 hpb
      rw [e2, ← hcb, e1]; rfl
  · intro hpb
    rw [← hcb]
    exact (hp1 hpb).1

end AcmedVerif.Flow
