/-
Helper lemmas for C20 (`Model/HooksWorld.lean` run on `Gen/DefaultHooks.lean`).
-/
import AcmedVerif.Model.HooksWorld
import AcmedVerif.Gen.DefaultHooks
import AcmedVerif.Spec.C20

namespace AcmedVerif.HooksWorld
open AcmedVerif.Gen

/-! ## Association lists -/

section assoc
variable {β : Type}

theorem lookup_erase_self (k : String) (l : List (String × β)) : lookup k (erase k l) = none := by
  induction l with
  | nil => rfl
  | cons e r ih =>
    obtain ⟨k', v⟩ := e
    by_cases h : k' = k
    · simpa [erase, h] using ih
    · simpa [erase, h, lookup] using ih

theorem lookup_erase_ne (k k' : String) (l : List (String × β)) (hne : k' ≠ k) :
    lookup k' (erase k l) = lookup k' l := by
  induction l with
  | nil => rfl
  | cons e r ih =>
    obtain ⟨k2, v⟩ := e
    by_cases h : k2 = k
    · subst h
      have : ¬ k2 = k' := fun e => hne e.symm
      simpa [erase, lookup, this] using ih
    · by_cases h2 : k2 = k'
      · subst h2
        simp [erase, lookup, hne]
      · simpa [erase, h, lookup, h2] using ih

theorem lookup_insert_self (k : String) (v : β) (l : List (String × β)) :
    lookup k (insert k v l) = some v := by
  simp [insert, lookup]

theorem lookup_insert_ne (k k' : String) (v : β) (l : List (String × β)) (hne : k' ≠ k) :
    lookup k' (insert k v l) = lookup k' l := by
  have : k ≠ k' := fun e => hne e.symm
  simp [insert, lookup, this, lookup_erase_ne k k' l hne]

end assoc

/-! ## Character lists: splitting at the last separator -/

theorem dropWhile_append_sep (f : Char → Bool) (l r : List Char) (x : Char)
    (hl : ∀ c ∈ l, f c = true) (hx : f x = false) :
    (l ++ x :: r).dropWhile f = x :: r := by
  induction l with
  | nil => simp [hx]
  | cons a t ih =>
    have ha := hl a List.mem_cons_self
    simp only [List.cons_append, List.dropWhile, ha]
    exact ih (fun c hc => hl c (List.mem_cons_of_mem _ hc))

theorem takeWhile_append_sep (f : Char → Bool) (l r : List Char) (x : Char)
    (hl : ∀ c ∈ l, f c = true) (hx : f x = false) :
    (l ++ x :: r).takeWhile f = l := by
  induction l with
  | nil => simp [hx]
  | cons a t ih =>
    have ha := hl a List.mem_cons_self
    simp only [List.cons_append, List.takeWhile, ha]
    rw [ih (fun c hc => hl c (List.mem_cons_of_mem _ hc))]

theorem dropWhile_all (f : Char → Bool) (l : List Char) (hl : ∀ c ∈ l, f c = true) :
    l.dropWhile f = [] := by
  induction l with
  | nil => rfl
  | cons a t ih =>
    simp only [List.dropWhile, hl a List.mem_cons_self]
    exact ih (fun c hc => hl c (List.mem_cons_of_mem _ hc))

theorem dirnameL_append (d t : List Char) (ht : '/' ∉ t) : dirnameL (d ++ '/' :: t) = d := by
  unfold dirnameL
  have h1 : (d ++ '/' :: t).reverse = t.reverse ++ '/' :: d.reverse := by simp
  rw [h1, dropWhile_append_sep (fun c => c != '/') t.reverse d.reverse '/' ?_ (by simp)]
  · simp
  · intro c hc
    have : c ≠ '/' := by
      intro e; subst e; exact ht (List.mem_reverse.1 hc)
    simp [this]

theorem rsplitColon_append (h p : List Char) (hp : ':' ∉ p) :
    rsplitColon (h ++ ':' :: p) = some (h, p) := by
  unfold rsplitColon
  have h1 : (h ++ ':' :: p).reverse = p.reverse ++ ':' :: h.reverse := by simp
  have hall : ∀ c ∈ p.reverse, (fun c => c != ':') c = true := by
    intro c hc
    have : c ≠ ':' := by
      intro e; subst e; exact hp (List.mem_reverse.1 hc)
    simp [this]
  simp only [h1]
  rw [dropWhile_append_sep (fun c => c != ':') p.reverse h.reverse ':' hall (by simp),
    takeWhile_append_sep (fun c => c != ':') p.reverse h.reverse ':' hall (by simp)]
  simp

theorem rsplitColon_none (cs : List Char) (h : ':' ∉ cs) : rsplitColon cs = none := by
  unfold rsplitColon
  have hall : ∀ c ∈ cs.reverse, (fun c => c != ':') c = true := by
    intro c hc
    have : c ≠ ':' := by
      intro e; subst e; exact h (List.mem_reverse.1 hc)
    simp [this]
  simp only [dropWhile_all _ _ hall]

/-! ## Rendering -/

theorem renderTok_envLit (vars env : String → Option String) (n d : String) :
    renderTok vars env (.envDefault n (.lit d)) = envOr env n d := by
  simp only [renderTok, envOr, renderDflt]

theorem renderTok_envVar (vars env : String → Option String) (n v : String) :
    renderTok vars env (.envDefault n (.var v)) = envOr env n ((vars v).getD "") := by
  simp only [renderTok, envOr, renderDflt]

/-- The directory the mkdir hook creates. -/
def httpDocDir (env : String → Option String) (c : Challenge) : String :=
  envOr env "HTTP_ROOT" "/var/www" ++ "/" ++ c.identifier ++ "/.well-known/acme-challenge"

theorem httpDocPath_eq (env : String → Option String) (c : Challenge) :
    httpDocPath env c = httpDocDir env c ++ "/" ++ c.fileName := by
  have : "/.well-known/acme-challenge/" = "/.well-known/acme-challenge" ++ "/" := by decide
  simp only [httpDocPath, httpDocDir, this, String.append_assoc]

/-! ## The shipped hooks, one by one -/

def hookNamed (n : String) : GHook := (defaultHooks.find? fun h => h.name == n).getD default


theorem renderTok_lit (vars env : String → Option String) (s : String) :
    renderTok vars env (.lit s) = s := rfl
theorem renderTok_var (vars env : String → Option String) (s : String) :
    renderTok vars env (.var s) = (vars s).getD "" := rfl

set_option linter.unusedSimpArgs false

set_option maxRecDepth 4000 in
theorem hookNamed_all :
    hookNamed "http-01-echo-mkdir" = defaultHooks[0] ∧ hookNamed "http-01-echo-echo" = defaultHooks[1] ∧
    hookNamed "http-01-echo-chmod" = defaultHooks[2] ∧ hookNamed "http-01-echo-clean" = defaultHooks[3] ∧
    hookNamed "tls-alpn-01-tacd-start-tcp" = defaultHooks[4] ∧
    hookNamed "tls-alpn-01-tacd-start-unix" = defaultHooks[5] ∧
    hookNamed "tls-alpn-01-tacd-kill" = defaultHooks[6] ∧ hookNamed "tls-alpn-01-tacd-rm" = defaultHooks[7] ∧
    hookNamed "tls-alpn-01-tacd-rm-sock" = defaultHooks[8] ∧ hookNamed "git-init" = defaultHooks[9] ∧
    hookNamed "git-add" = defaultHooks[10] ∧ hookNamed "git-commit" = defaultHooks[11] := by
  decide

/-! ### Which hooks a group runs for an event (resolved from the generated tables by evaluation) -/

def httpGroup : List GHook := groupHooks defaultHooks defaultGroups "http-01-echo"
def tcpGroup : List GHook := groupHooks defaultHooks defaultGroups "tls-alpn-01-tacd-tcp"
def unixGroup : List GHook := groupHooks defaultHooks defaultGroups "tls-alpn-01-tacd-unix"
def gitGroup : List GHook := groupHooks defaultHooks defaultGroups "git"
def oldTcpGroup : List GHook :=
  groupHooks (oldDefaultHooks defaultHooks) (oldDefaultGroups defaultGroups) "tls-alpn-01-tacd-tcp"
def oldUnixGroupHooks : List GHook :=
  groupHooks (oldDefaultHooks defaultHooks) (oldDefaultGroups defaultGroups) "tls-alpn-01-tacd-unix"

set_option maxRecDepth 8000 in
theorem group_tables :
    ofType httpGroup "challenge-http-01" =
      [hookNamed "http-01-echo-mkdir", hookNamed "http-01-echo-echo", hookNamed "http-01-echo-chmod"] ∧
    ofType httpGroup "challenge-http-01-clean" = [hookNamed "http-01-echo-clean"] ∧
    ofType tcpGroup "challenge-tls-alpn-01" = [hookNamed "tls-alpn-01-tacd-start-tcp"] ∧
    ofType tcpGroup "challenge-tls-alpn-01-clean" =
      [hookNamed "tls-alpn-01-tacd-kill", hookNamed "tls-alpn-01-tacd-rm"] ∧
    ofType unixGroup "challenge-tls-alpn-01" = [hookNamed "tls-alpn-01-tacd-start-unix"] ∧
    ofType unixGroup "challenge-tls-alpn-01-clean" =
      [hookNamed "tls-alpn-01-tacd-kill", hookNamed "tls-alpn-01-tacd-rm",
       hookNamed "tls-alpn-01-tacd-rm-sock"] ∧
    ofType gitGroup "file-pre-create" = [hookNamed "git-init"] ∧
    ofType gitGroup "file-pre-edit" = [hookNamed "git-init"] ∧
    ofType gitGroup "file-post-create" = [hookNamed "git-add", hookNamed "git-commit"] ∧
    ofType gitGroup "file-post-edit" = [hookNamed "git-add", hookNamed "git-commit"] ∧
    ofType oldTcpGroup "challenge-tls-alpn-01" = [oldStartTcp] ∧
    ofType oldTcpGroup "challenge-tls-alpn-01-clean" =
      [hookNamed "tls-alpn-01-tacd-kill", hookNamed "tls-alpn-01-tacd-rm"] ∧
    ofType oldUnixGroupHooks "challenge-tls-alpn-01" = [hookNamed "tls-alpn-01-tacd-start-unix"] ∧
    ofType oldUnixGroupHooks "challenge-tls-alpn-01-clean" =
      [hookNamed "tls-alpn-01-tacd-kill", hookNamed "tls-alpn-01-tacd-rm"] := by
  decide

/-! ### What each hook does (rendered arguments, parsed command line, allow_failure) -/

theorem run_mkdir (w : World) (c : Challenge) (env : String → Option String) :
    runHook w (hookNamed "http-01-echo-mkdir") c.vars env =
      ((exec w (.mkdirP "0755" (httpDocDir env c))).1, true) := by
  rw [hookNamed_all.1]
  simp [defaultHooks, runHook, render, renderTok_envLit, renderTok_envVar, renderTok_lit,
    renderTok_var, parseCmd, Challenge.vars, httpDocDir, String.append_assoc]

theorem run_echo (w : World) (c : Challenge) (env : String → Option String) :
    runHook w (hookNamed "http-01-echo-echo") c.vars env =
      (match createFile w (httpDocPath env c) with
       | none => (w, false)
       | some w1 => (writeContent w1 (httpDocPath env c) (c.proof ++ "\n"), true)) := by
  rw [hookNamed_all.2.1]
  simp [defaultHooks, runHook, render, renderTok_envLit, renderTok_envVar, renderTok_lit,
    renderTok_var, parseCmd, Challenge.vars, httpDocPath, String.append_assoc, exec]
  split <;> simp_all

theorem run_chmod (w : World) (c : Challenge) (env : String → Option String) :
    runHook w (hookNamed "http-01-echo-chmod") c.vars env =
      ((exec w (.chmodAR (httpDocPath env c))).1, true) := by
  rw [hookNamed_all.2.2.1]
  simp [defaultHooks, runHook, render, renderTok_envLit, renderTok_envVar, renderTok_lit,
    renderTok_var, parseCmd, Challenge.vars, httpDocPath, String.append_assoc]

theorem run_httpClean (w : World) (c : Challenge) (env : String → Option String) :
    runHook w (hookNamed "http-01-echo-clean") c.vars env =
      ((exec w (.rmF (httpDocPath env c))).1, true) := by
  rw [hookNamed_all.2.2.2.1]
  simp [defaultHooks, runHook, render, renderTok_envLit, renderTok_envVar, renderTok_lit,
    renderTok_var, parseCmd, Challenge.vars, httpDocPath, String.append_assoc]

theorem run_startTcp (w : World) (c : Challenge) (env : String → Option String) :
    runHook w (hookNamed "tls-alpn-01-tacd-start-tcp") c.vars env =
      (tacdStart w (pidDocPath env c) c.identifierTlsAlpn c.proof (tcpDocListen env c), true) := by
  rw [hookNamed_all.2.2.2.2.1]
  simp [defaultHooks, runHook, render, renderTok_envLit, renderTok_envVar, renderTok_lit,
    renderTok_var, parseCmd, Challenge.vars, pidDocPath, tcpDocListen, String.append_assoc, exec]

theorem run_oldStartTcp (w : World) (c : Challenge) (env : String → Option String) :
    runHook w oldStartTcp c.vars env =
      (tacdStart w (pidDocPath env c) c.identifierTlsAlpn c.proof (envOr env "TACD_PORT" "5001"),
        true) := by
  simp [oldStartTcp, runHook, render, renderTok_envLit, renderTok_envVar, renderTok_lit,
    renderTok_var, parseCmd, Challenge.vars, pidDocPath, String.append_assoc, exec]

theorem run_startUnix (w : World) (c : Challenge) (env : String → Option String) :
    runHook w (hookNamed "tls-alpn-01-tacd-start-unix") c.vars env =
      (tacdStart w (pidDocPath env c) c.identifierTlsAlpn c.proof ("unix:" ++ unixDocSock env c),
        true) := by
  rw [hookNamed_all.2.2.2.2.2.1]
  simp [defaultHooks, runHook, render, renderTok_envLit, renderTok_envVar, renderTok_lit,
    renderTok_var, parseCmd, Challenge.vars, pidDocPath, unixDocSock, String.append_assoc, exec]

theorem run_kill (w : World) (c : Challenge) (env : String → Option String) :
    runHook w (hookNamed "tls-alpn-01-tacd-kill") c.vars env =
      ((exec w (.pkillF (pidDocPath env c))).1, true) := by
  rw [hookNamed_all.2.2.2.2.2.2.1]
  simp [defaultHooks, runHook, render, renderTok_envLit, renderTok_envVar, renderTok_lit,
    renderTok_var, parseCmd, Challenge.vars, pidDocPath, String.append_assoc]

theorem run_rmPid (w : World) (c : Challenge) (env : String → Option String) :
    runHook w (hookNamed "tls-alpn-01-tacd-rm") c.vars env =
      ((exec w (.rmF (pidDocPath env c))).1, true) := by
  rw [hookNamed_all.2.2.2.2.2.2.2.1]
  simp [defaultHooks, runHook, render, renderTok_envLit, renderTok_envVar, renderTok_lit,
    renderTok_var, parseCmd, Challenge.vars, pidDocPath, String.append_assoc]

theorem run_rmSock (w : World) (c : Challenge) (env : String → Option String) :
    runHook w (hookNamed "tls-alpn-01-tacd-rm-sock") c.vars env =
      ((exec w (.rmF (unixDocSock env c))).1, true) := by
  rw [hookNamed_all.2.2.2.2.2.2.2.2.1]
  simp [defaultHooks, runHook, render, renderTok_envLit, renderTok_envVar, renderTok_lit,
    renderTok_var, parseCmd, Challenge.vars, unixDocSock, String.append_assoc]

theorem run_gitInit (w : World) (d n : String) (env : String → Option String) :
    runHook w (hookNamed "git-init") (fileVars d n) env =
      ((exec w (.gitInit d)).1, (exec w (.gitInit d)).2.2) := by
  rw [hookNamed_all.2.2.2.2.2.2.2.2.2.1]
  simp [defaultHooks, runHook, render, renderTok_envLit, renderTok_envVar, renderTok_lit,
    renderTok_var, parseCmd, fileVars, String.append_assoc]

theorem run_gitAdd (w : World) (d n : String) (env : String → Option String) :
    runHook w (hookNamed "git-add") (fileVars d n) env = ((exec w (.gitAdd d n)).1, true) := by
  rw [hookNamed_all.2.2.2.2.2.2.2.2.2.2.1]
  simp [defaultHooks, runHook, render, renderTok_envLit, renderTok_envVar, renderTok_lit,
    renderTok_var, parseCmd, fileVars, String.append_assoc]

theorem run_gitCommit (w : World) (d n : String) (env : String → Option String) :
    runHook w (hookNamed "git-commit") (fileVars d n) env =
      ((exec w (.gitCommit d n n)).1, true) := by
  rw [hookNamed_all.2.2.2.2.2.2.2.2.2.2.2]
  simp [defaultHooks, runHook, render, renderTok_envLit, renderTok_envVar, renderTok_lit,
    renderTok_var, parseCmd, fileVars, String.append_assoc]


/-! ## http-01-echo -/

theorem getLast?_append_ne_nil {α : Type} (a b : List α) (h : b ≠ []) :
    (a ++ b).getLast? = b.getLast? := by
  rw [List.getLast?_append]
  cases hb : b.getLast? with
  | none => rw [List.getLast?_eq_none_iff] at hb; exact absurd hb h
  | some x => rfl


theorem isBlocked_of_prefix (w : World) (p q : String) (hpq : p.toList <+: q.toList)
    (hq : isBlocked w q = false) : isBlocked w p = false := by
  unfold isBlocked at hq ⊢
  rw [Bool.eq_false_iff] at hq ⊢
  intro hp
  apply hq
  rw [List.any_eq_true] at hp ⊢
  obtain ⟨b, hb, hbp⟩ := hp
  refine ⟨b, hb, ?_⟩
  rw [List.isPrefixOf_iff_prefix] at hbp ⊢
  exact hbp.trans hpq

/-- The token is a non-empty file name: no '/' (ACME tokens are base64url). -/
def TokenOk (c : Challenge) : Prop := c.fileName ≠ "" ∧ '/' ∉ c.fileName.toList

/-- What must hold of the machine for the http-01-echo hooks to work: the proof path can be created
(its directory is not under an unwritable prefix), nothing that is not a regular file sits at the
proof path, and the challenge directory either exists or nothing else sits at its path. -/
structure HttpReady (w : World) (env : String → Option String) (c : Challenge) : Prop where
  notBlocked : isBlocked w (httpDocPath env c) = false
  notDir : httpDocPath env c ∉ w.dirs
  notSock : httpDocPath env c ∉ w.socks
  dirOk : httpDocDir env c ∈ w.dirs ∨ existsPath w (httpDocDir env c) = false

theorem httpDir_prefix (env : String → Option String) (c : Challenge) :
    (httpDocDir env c).toList <+: (httpDocPath env c).toList := by
  rw [httpDocPath_eq]
  simp only [String.toList_append, List.append_assoc]
  exact List.prefix_append _ _

theorem httpPath_ne_dir (env : String → Option String) (c : Challenge) :
    httpDocPath env c ≠ httpDocDir env c := by
  intro h
  have := congrArg String.length h
  rw [httpDocPath_eq] at this
  simp only [String.length_append] at this
  have h1 : ("/" : String).length = 1 := by decide
  omega

theorem dirname_httpPath (env : String → Option String) (c : Challenge) (ht : TokenOk c) :
    dirname (httpDocPath env c) = httpDocDir env c := by
  rw [httpDocPath_eq]
  unfold dirname
  have : (httpDocDir env c ++ "/" ++ c.fileName).toList =
      (httpDocDir env c).toList ++ '/' :: c.fileName.toList := by
    simp [String.toList_append]
  rw [this, dirnameL_append _ _ ht.2, String.ofList_toList]

theorem httpPath_last (env : String → Option String) (c : Challenge) (ht : TokenOk c) :
    ((httpDocPath env c).toList.getLast? == some '/') = false := by
  rw [httpDocPath_eq]
  have hne : c.fileName.toList ≠ [] := by
    intro h
    apply ht.1
    rw [← String.toList_inj]; simpa using h
  simp only [String.toList_append]
  rw [getLast?_append_ne_nil _ _ hne]
  rw [Bool.eq_false_iff]
  intro h
  have h2 : c.fileName.toList.getLast? = some '/' := by simpa using h
  exact ht.2 (List.mem_of_getLast? h2)


theorem exec_mkdir (w : World) (m d : String) (hb : isBlocked w d = false)
    (hd : d ∈ w.dirs ∨ existsPath w d = false) :
    (exec w (.mkdirP m d)).1 = { w with dirs := if d ∈ w.dirs then w.dirs else d :: w.dirs } := by
  by_cases h : d ∈ w.dirs
  · simp [exec, h]
  · have he : existsPath w d = false := by
      rcases hd with hd | hd
      · exact absurd hd h
      · exact hd
    simp [exec, h, hb, he]

theorem createFile_some (w : World) (f : String) (hb : isBlocked w f = false) (hd : f ∉ w.dirs)
    (hs : f ∉ w.socks) (hl : (f.toList.getLast? == some '/') = false) (hp : dirname f ∈ w.dirs) :
    ∃ e0, createFile w f = some { w with files := insert f e0 w.files } := by
  unfold createFile
  simp only [hb, hd, hs, hl, hp, decide_false, decide_true, Bool.or_false, Bool.or_true,
    Bool.not_true, Bool.false_eq_true, if_false]
  cases getFile w f with
  | none => exact ⟨_, rfl⟩
  | some e => exact ⟨_, rfl⟩

theorem http_challenge_spec (w : World) (env : String → Option String) (c : Challenge)
    (hr : HttpReady w env c) (ht : TokenOk c) :
    (runHooks w httpGroup "challenge-http-01" c.vars env).2 = true ∧
    getFile (runHooks w httpGroup "challenge-http-01" c.vars env).1 (httpDocPath env c)
      = some ⟨c.proof ++ "\n", true⟩ ∧
    (runHooks w httpGroup "challenge-http-01" c.vars env).1.blocked = w.blocked ∧
    (runHooks w httpGroup "challenge-http-01" c.vars env).1.socks = w.socks ∧
    httpDocDir env c ∈ (runHooks w httpGroup "challenge-http-01" c.vars env).1.dirs ∧
    (∀ p ∈ (runHooks w httpGroup "challenge-http-01" c.vars env).1.dirs,
      p = httpDocDir env c ∨ p ∈ w.dirs) := by
  have hbd : isBlocked w (httpDocDir env c) = false :=
    isBlocked_of_prefix w _ _ (httpDir_prefix env c) hr.notBlocked
  have h1 := exec_mkdir w "0755" (httpDocDir env c) hbd hr.dirOk
  generalize hw1 : (exec w (.mkdirP "0755" (httpDocDir env c))).1 = w1 at h1
  have hd1 : httpDocDir env c ∈ w1.dirs := by
    rw [h1]; by_cases h : httpDocDir env c ∈ w.dirs <;> simp [h]
  have hsub : ∀ p ∈ w1.dirs, p = httpDocDir env c ∨ p ∈ w.dirs := by
    rw [h1]; intro p hp
    by_cases h : httpDocDir env c ∈ w.dirs
    · simp only [h, if_true] at hp; exact Or.inr hp
    · simp only [h, if_false, List.mem_cons] at hp; exact hp
  have hnd1 : httpDocPath env c ∉ w1.dirs := by
    intro h
    rcases hsub _ h with h | h
    · exact httpPath_ne_dir env c h
    · exact hr.notDir h
  have hb1 : isBlocked w1 (httpDocPath env c) = false := by
    rw [h1]; exact hr.notBlocked
  have hs1 : httpDocPath env c ∉ w1.socks := by rw [h1]; exact hr.notSock
  obtain ⟨e0, h2⟩ := createFile_some w1 (httpDocPath env c) hb1 hnd1 hs1 (httpPath_last env c ht)
    (by rw [dirname_httpPath env c ht]; exact hd1)
  simp only [runHooks, group_tables.1, runList, run_mkdir, run_echo, run_chmod, hw1, h2, if_true]
  simp only [writeContent, getFile, lookup_insert_self, exec]
  refine ⟨trivial, ?_, ?_, ?_, hd1, hsub⟩
  · simp
  · rw [h1]
  · rw [h1]


theorem exec_rmF (w : World) (p : String) (hd : p ∉ w.dirs) (hb : isBlocked w p = false) :
    (exec w (.rmF p)).1 = { w with files := erase p w.files, pidFiles := erase p w.pidFiles,
                                   socks := w.socks.filter fun s => s ≠ p } := by
  simp [exec, hd, hb]

theorem http_clean_spec (w : World) (env : String → Option String) (c : Challenge)
    (hb : isBlocked w (httpDocPath env c) = false) (hd : httpDocPath env c ∉ w.dirs) :
    (runHooks w httpGroup "challenge-http-01-clean" c.vars env).2 = true ∧
    getFile (runHooks w httpGroup "challenge-http-01-clean" c.vars env).1 (httpDocPath env c) = none ∧
    (runHooks w httpGroup "challenge-http-01-clean" c.vars env).1.blocked = w.blocked ∧
    (runHooks w httpGroup "challenge-http-01-clean" c.vars env).1.dirs = w.dirs ∧
    (∀ p ∈ (runHooks w httpGroup "challenge-http-01-clean" c.vars env).1.socks, p ∈ w.socks) := by
  simp only [runHooks, group_tables.2.1, runList, run_httpClean, exec_rmF w _ hd hb, if_true]
  refine ⟨trivial, ?_, trivial, trivial, ?_⟩
  · simp [getFile, lookup_erase_self]
  · intro p hp
    exact (List.mem_filter.1 hp).1

def httpCycle (env : String → Option String) (w : World) (c : Challenge) :
    Bool × Bool × Bool × World :=
  cycle httpGroup "challenge-http-01" "challenge-http-01-clean"
    (fun w c => http01Validates w env c) env w c

theorem http_cycle_spec (w : World) (env : String → Option String) (c : Challenge)
    (hr : HttpReady w env c) (ht : TokenOk c) :
    (httpCycle env w c).1 = true ∧ (httpCycle env w c).2.1 = true ∧
    (httpCycle env w c).2.2.1 = true ∧
    getFile (httpCycle env w c).2.2.2 (httpDocPath env c) = none ∧
    (httpCycle env w c).2.2.2.blocked = w.blocked ∧
    (∀ p ∈ (httpCycle env w c).2.2.2.socks, p ∈ w.socks) ∧
    httpDocDir env c ∈ (httpCycle env w c).2.2.2.dirs ∧
    (∀ p ∈ (httpCycle env w c).2.2.2.dirs, p = httpDocDir env c ∨ p ∈ w.dirs) := by
  obtain ⟨h1, h2, h3, h4, h5, h6⟩ := http_challenge_spec w env c hr ht
  generalize hw1 : runHooks w httpGroup "challenge-http-01" c.vars env = r1 at h1 h2 h3 h4 h5 h6
  have hb1 : isBlocked r1.1 (httpDocPath env c) = false := by
    have := hr.notBlocked
    unfold isBlocked at this ⊢
    rw [h3]; exact this
  have hd1 : httpDocPath env c ∉ r1.1.dirs := by
    intro h
    rcases h6 _ h with h | h
    · exact httpPath_ne_dir env c h
    · exact hr.notDir h
  obtain ⟨k1, k2, k3, k4, k5⟩ := http_clean_spec r1.1 env c hb1 hd1
  simp only [httpCycle, cycle, hw1]
  refine ⟨h1, ?_, k1, k2, k3.trans h3, ?_, ?_, ?_⟩
  · simp [http01Validates, h2]
  · intro p hp; rw [← h4]; exact k5 p hp
  · rw [k4]; exact h5
  · rw [k4]; exact h6

theorem http_ready_preserved (w : World) (env : String → Option String) (c c2 : Challenge)
    (hr : HttpReady w env c) (ht : TokenOk c) (hr2 : HttpReady w env c2)
    (hid : c2.identifier = c.identifier) : HttpReady (httpCycle env w c).2.2.2 env c2 := by
  obtain ⟨_, _, _, _, h5, h6, h7, h8⟩ := http_cycle_spec w env c hr ht
  have hdd : httpDocDir env c2 = httpDocDir env c := by simp [httpDocDir, hid]
  refine ⟨?_, ?_, ?_, ?_⟩
  · have := hr2.notBlocked
    unfold isBlocked at this ⊢
    rw [h5]; exact this
  · intro h
    rcases h8 _ h with h | h
    · exact httpPath_ne_dir env c2 (by rw [hdd]; exact h)
    · exact hr2.notDir h
  · intro h; exact hr2.notSock (h6 _ h)
  · left; rw [hdd]; exact h7


/-! ## tacd: the `--listen` argument -/

theorem parseListen_tcp (host port : String) (n : Nat)
    (hu : "unix:".toList.isPrefixOf (host ++ ":" ++ port).toList = false)
    (hc : ':' ∉ port.toList) (hp : parsePort port.toList = some n) (hh : host ≠ "") :
    parseListen (host ++ ":" ++ port) = some (.tcp host n) := by
  unfold parseListen
  simp only [hu, Bool.false_eq_true, if_false]
  have h1 : (host ++ ":" ++ port).toList = host.toList ++ ':' :: port.toList := by
    simp [String.toList_append]
  have hne : host.toList ≠ [] := by
    intro h; apply hh; rw [← String.toList_inj]; simpa using h
  rw [h1, rsplitColon_append _ _ hc]
  simp only [hp, hne, if_false, String.ofList_toList]

theorem parseListen_unix (s : String) : parseListen ("unix:" ++ s) = some (.unix s) := by
  unfold parseListen
  have h1 : ("unix:" ++ s).toList = ['u', 'n', 'i', 'x', ':'] ++ s.toList := by
    simp [String.toList_append]
  have h2 : "unix:".toList = ['u', 'n', 'i', 'x', ':'] := by decide
  simp [h1, h2, String.ofList_toList]

theorem parseListen_no_colon (s : String) (h : ':' ∉ s.toList) : parseListen s = none := by
  unfold parseListen
  have h2 : "unix:".toList = ['u', 'n', 'i', 'x', ':'] := by decide
  have hu : "unix:".toList.isPrefixOf s.toList = false := by
    rw [Bool.eq_false_iff]
    intro hp
    rw [List.isPrefixOf_iff_prefix, h2] at hp
    obtain ⟨t, ht⟩ := hp
    apply h
    rw [← ht]; simp
  simp only [hu, Bool.false_eq_true, if_false, rsplitColon_none _ h]


/-! ## tacd over TCP -/

structure TcpReady (w : World) (P host : String) (port : Nat) : Prop where
  pidNotBlocked : isBlocked w P = false
  pidNotDir : P ∉ w.dirs
  pidFree : pidLocked w P = false
  isLocal : host ∈ w.localHosts
  free : tcpBound w host port = false
  pids : ∀ r ∈ w.responders, r.pid < w.nextPid

theorem tacdStart_tcp (w : World) (P d e A host : String) (port : Nat)
    (hr : TcpReady w P host port) (hA : parseListen A = some (.tcp host port)) :
    tacdStart w P d e A =
      { w with nextPid := w.nextPid + 1, pidFiles := insert P w.nextPid w.pidFiles,
               responders := ⟨w.nextPid, .tcp host port, d, e⟩ :: w.responders } := by
  have hf := hr.free
  simp [tcpBound] at hf
  simp [tacdStart, hr.pidNotBlocked, hr.pidFree, hA, hr.isLocal, tcpBound, hf]
  intro x hx hl
  exact absurd hl (hf.2 x hx)

theorem filter_kill (r0 : Responder) (rs : List Responder) (n : Nat) (hp : r0.pid = n)
    (h : ∀ r ∈ rs, r.pid < n) :
    List.filter (fun r => decide (r.pid ≠ n)) (r0 :: rs) = rs := by
  rw [List.filter_cons]
  simp only [hp, ne_eq, not_true_eq_false, decide_false, Bool.false_eq_true, if_false]
  rw [List.filter_eq_self]
  intro r hr
  have := h r hr
  simp; omega

theorem exec_rmF_of (W w : World) (p : String) (hd : p ∉ w.dirs) (hb : isBlocked w p = false)
    (h1 : W.dirs = w.dirs) (h2 : W.blocked = w.blocked) :
    (exec W (.rmF p)).1 = { W with files := erase p W.files, pidFiles := erase p W.pidFiles,
                                   socks := W.socks.filter fun s => s ≠ p } := by
  apply exec_rmF
  · rw [h1]; exact hd
  · unfold isBlocked at hb ⊢; rw [h2]; exact hb

theorem exec_pkill_some (w : World) (P : String) (pid : Nat) (h : getPid w P = some pid) :
    (exec w (.pkillF P)).1 =
      { w with responders := w.responders.filter fun r => decide (r.pid ≠ pid) } := by
  simp [exec, h]

/-- The world after one complete tcp cycle from a ready world. -/
def afterTcp (w : World) (P : String) : World :=
  { w with nextPid := w.nextPid + 1, files := erase P w.files,
           pidFiles := erase P (insert P w.nextPid w.pidFiles),
           socks := w.socks.filter fun s => s ≠ P }

def tcpCycle (env : String → Option String) (l : Listen) (w : World) (c : Challenge) :
    Bool × Bool × Bool × World :=
  cycle tcpGroup "challenge-tls-alpn-01" "challenge-tls-alpn-01-clean"
    (fun w c => tlsAlpnValidates w l c) env w c

theorem tcp_challenge_spec (w : World) (env : String → Option String) (c : Challenge) (host : String)
    (port : Nat) (hr : TcpReady w (pidDocPath env c) host port)
    (hA : parseListen (tcpDocListen env c) = some (.tcp host port)) :
    runHooks w tcpGroup "challenge-tls-alpn-01" c.vars env =
      ({ w with nextPid := w.nextPid + 1,
                pidFiles := insert (pidDocPath env c) w.nextPid w.pidFiles,
                responders := ⟨w.nextPid, .tcp host port, c.identifierTlsAlpn, c.proof⟩ ::
                  w.responders }, true) := by
  simp only [runHooks, group_tables.2.2.1, runList, run_startTcp,
    tacdStart_tcp w _ _ _ _ host port hr hA, if_true]

theorem tcp_clean_from (w : World) (env : String → Option String) (c : Challenge) (r0 : Responder)
    (hp : r0.pid = w.nextPid)
    (hnb : isBlocked w (pidDocPath env c) = false) (hnd : pidDocPath env c ∉ w.dirs)
    (hpids : ∀ r ∈ w.responders, r.pid < w.nextPid) (socks : List String) :
    runHooks { w with nextPid := w.nextPid + 1,
                      pidFiles := insert (pidDocPath env c) w.nextPid w.pidFiles,
                      socks := socks,
                      responders := r0 :: w.responders } tcpGroup "challenge-tls-alpn-01-clean"
        c.vars env =
      ({ w with nextPid := w.nextPid + 1, files := erase (pidDocPath env c) w.files,
                pidFiles := erase (pidDocPath env c) (insert (pidDocPath env c) w.nextPid w.pidFiles),
                socks := socks.filter fun s => s ≠ pidDocPath env c }, true) := by
  simp only [runHooks, group_tables.2.2.2.1, runList, run_kill, run_rmPid, if_true]
  rw [exec_pkill_some _ _ w.nextPid (by simp [getPid, lookup_insert_self])]
  rw [exec_rmF_of _ w _ hnd hnb ?_ ?_]
  · simp only [filter_kill r0 w.responders w.nextPid hp hpids]
  · rfl
  · rfl

theorem tcp_cycle_spec (w : World) (env : String → Option String) (c : Challenge) (host : String)
    (port : Nat) (hr : TcpReady w (pidDocPath env c) host port)
    (hA : parseListen (tcpDocListen env c) = some (.tcp host port)) :
    tcpCycle env (.tcp host port) w c = (true, true, true, afterTcp w (pidDocPath env c)) := by
  unfold tcpCycle cycle
  rw [tcp_challenge_spec w env c host port hr hA]
  have := tcp_clean_from w env c ⟨w.nextPid, .tcp host port, c.identifierTlsAlpn, c.proof⟩ rfl
    hr.pidNotBlocked hr.pidNotDir hr.pids w.socks
  simp only [] at this ⊢
  rw [this]
  simp [tlsAlpnValidates, afterTcp]

theorem tcpReady_after (w : World) (P host : String) (port : Nat) (hr : TcpReady w P host port) :
    TcpReady (afterTcp w P) P host port := by
  refine ⟨?_, hr.pidNotDir, ?_, hr.isLocal, ?_, ?_⟩
  · exact hr.pidNotBlocked
  · simp [pidLocked, getPid, afterTcp, lookup_erase_self]
  · exact hr.free
  · intro r h
    have := hr.pids r h
    simp only [afterTcp]; omega


/-! ## tacd on a unix socket -/

theorem pid_ne_sock (env : String → Option String) (c : Challenge) :
    pidDocPath env c ≠ unixDocSock env c := by
  intro h
  have h1 := congrArg (fun s => s.toList.getLast?) h
  simp only [pidDocPath, unixDocSock, String.toList_append] at h1
  rw [getLast?_append_ne_nil _ _ (by decide), getLast?_append_ne_nil _ _ (by decide)] at h1
  revert h1
  decide

theorem existsPath_false_iff (w : World) (p : String) :
    existsPath w p = false ↔
      p ∉ w.dirs ∧ getFile w p = none ∧ getPid w p = none ∧ p ∉ w.socks := by
  simp [existsPath, and_assoc]

structure UnixReady (w : World) (P S : String) : Prop where
  pidNotBlocked : isBlocked w P = false
  pidNotDir : P ∉ w.dirs
  pidFree : pidLocked w P = false
  sockNotBlocked : isBlocked w S = false
  sockFree : existsPath w S = false
  pids : ∀ r ∈ w.responders, r.pid < w.nextPid
  ne : P ≠ S

theorem tacdStart_unix (w : World) (P d e S : String) (hr : UnixReady w P S) :
    tacdStart w P d e ("unix:" ++ S) =
      { w with nextPid := w.nextPid + 1, pidFiles := insert P w.nextPid w.pidFiles,
               socks := S :: w.socks,
               responders := ⟨w.nextPid, .unix S, d, e⟩ :: w.responders } := by
  obtain ⟨h1, h2, h3, h4⟩ := (existsPath_false_iff w S).1 hr.sockFree
  have he : existsPath { w with nextPid := w.nextPid + 1, pidFiles := insert P w.nextPid w.pidFiles } S
      = false := by
    rw [existsPath_false_iff]
    refine ⟨h1, h2, ?_, h4⟩
    simp only [getPid] at h3 ⊢
    rw [lookup_insert_ne _ _ _ _ (fun e => hr.ne e.symm)]; exact h3
  have hb : isBlocked { w with nextPid := w.nextPid + 1, pidFiles := insert P w.nextPid w.pidFiles } S
      = false := hr.sockNotBlocked
  simp only [tacdStart, hr.pidNotBlocked, hr.pidFree, parseListen_unix, he, hb, Bool.or_self,
    Bool.false_eq_true, if_false]

/-- A left-over socket file makes the bind fail: no responder is added (and tacd removes its own pid
file again). -/
theorem tacdStart_unix_exists (w : World) (P d e S : String) (hs : S ∈ w.socks) :
    (tacdStart w P d e ("unix:" ++ S)).responders = w.responders := by
  unfold tacdStart
  split
  · rfl
  · have he : existsPath { w with nextPid := w.nextPid + 1, pidFiles := insert P w.nextPid w.pidFiles } S
        = true := by
      simp [existsPath, hs]
    simp only [parseListen_unix, he, Bool.true_or, if_true, cleanPid]


def afterUnix (w : World) (P S : String) : World :=
  { w with nextPid := w.nextPid + 1, files := erase S (erase P w.files),
           pidFiles := erase S (erase P (insert P w.nextPid w.pidFiles)),
           socks := (List.filter (fun s => s ≠ P) (S :: w.socks)).filter fun s => s ≠ S }

/-- The world after one cycle of the group as shipped BEFORE the repair (no rm-sock). -/
def afterUnixOld (w : World) (P S : String) : World :=
  { w with nextPid := w.nextPid + 1, files := erase P w.files,
           pidFiles := erase P (insert P w.nextPid w.pidFiles),
           socks := List.filter (fun s => s ≠ P) (S :: w.socks) }

def unixCycle (hooks : List GHook) (env : String → Option String) (l : Listen) (w : World)
    (c : Challenge) : Bool × Bool × Bool × World :=
  cycle hooks "challenge-tls-alpn-01" "challenge-tls-alpn-01-clean"
    (fun w c => tlsAlpnValidates w l c) env w c

theorem unix_challenge_spec (w : World) (env : String → Option String) (c : Challenge)
    (hr : UnixReady w (pidDocPath env c) (unixDocSock env c)) :
    runHooks w unixGroup "challenge-tls-alpn-01" c.vars env =
      ({ w with nextPid := w.nextPid + 1,
                pidFiles := insert (pidDocPath env c) w.nextPid w.pidFiles,
                socks := unixDocSock env c :: w.socks,
                responders := ⟨w.nextPid, .unix (unixDocSock env c), c.identifierTlsAlpn, c.proof⟩ ::
                  w.responders }, true) := by
  simp only [runHooks, group_tables.2.2.2.2.1, runList, run_startUnix,
    tacdStart_unix w _ _ _ _ hr, if_true]

theorem unix_clean_from (w : World) (env : String → Option String) (c : Challenge) (r0 : Responder)
    (hp : r0.pid = w.nextPid) (hr : UnixReady w (pidDocPath env c) (unixDocSock env c)) :
    runHooks { w with nextPid := w.nextPid + 1,
                      pidFiles := insert (pidDocPath env c) w.nextPid w.pidFiles,
                      socks := unixDocSock env c :: w.socks,
                      responders := r0 :: w.responders } unixGroup "challenge-tls-alpn-01-clean"
        c.vars env =
      (afterUnix w (pidDocPath env c) (unixDocSock env c), true) := by
  have hsd : unixDocSock env c ∉ w.dirs := ((existsPath_false_iff w _).1 hr.sockFree).1
  simp only [runHooks, group_tables.2.2.2.2.2.1, runList, run_kill, run_rmPid, run_rmSock, if_true]
  rw [exec_pkill_some _ _ w.nextPid (by simp [getPid, lookup_insert_self])]
  rw [exec_rmF_of _ w _ hr.pidNotDir hr.pidNotBlocked ?_ ?_]
  · rw [exec_rmF_of _ w _ hsd hr.sockNotBlocked ?_ ?_]
    · simp only [filter_kill r0 w.responders w.nextPid hp hr.pids, afterUnix]
    · rfl
    · rfl
  · rfl
  · rfl

theorem unix_cycle_spec (w : World) (env : String → Option String) (c : Challenge)
    (hr : UnixReady w (pidDocPath env c) (unixDocSock env c)) :
    unixCycle unixGroup env (.unix (unixDocSock env c)) w c =
      (true, true, true, afterUnix w (pidDocPath env c) (unixDocSock env c)) := by
  unfold unixCycle cycle
  rw [unix_challenge_spec w env c hr]
  have := unix_clean_from w env c
    ⟨w.nextPid, .unix (unixDocSock env c), c.identifierTlsAlpn, c.proof⟩ rfl hr
  simp only [] at this ⊢
  rw [this]
  simp [tlsAlpnValidates]

theorem unixReady_after (w : World) (P S : String) (hr : UnixReady w P S) :
    UnixReady (afterUnix w P S) P S := by
  obtain ⟨h1, h2, h3, h4⟩ := (existsPath_false_iff w S).1 hr.sockFree
  refine ⟨hr.pidNotBlocked, hr.pidNotDir, ?_, hr.sockNotBlocked, ?_, ?_, hr.ne⟩
  · simp [pidLocked, getPid, afterUnix, lookup_erase_ne _ _ _ hr.ne, lookup_erase_self]
  · rw [existsPath_false_iff]
    refine ⟨h1, ?_, ?_, ?_⟩
    · simp [getFile, afterUnix, lookup_erase_self]
    · simp [getPid, afterUnix, lookup_erase_self]
    · simp [afterUnix]
  · intro r h
    have := hr.pids r h
    simp only [afterUnix]; omega

/-- Nothing of the responder is left after the clean hooks. -/
theorem afterUnix_clean (w : World) (P S : String) (hr : UnixReady w P S) :
    getPid (afterUnix w P S) P = none ∧ existsPath (afterUnix w P S) S = false ∧
    (afterUnix w P S).responders = w.responders := by
  refine ⟨?_, (unixReady_after w P S hr).sockFree, rfl⟩
  simp [getPid, afterUnix, lookup_erase_ne _ _ _ hr.ne, lookup_erase_self]

/-! ### The unix group before the repair -/

theorem unixOld_challenge_eq (w : World) (env : String → Option String) (c : Challenge) :
    runHooks w oldUnixGroupHooks "challenge-tls-alpn-01" c.vars env =
      runHooks w unixGroup "challenge-tls-alpn-01" c.vars env := by
  simp only [runHooks, group_tables.2.2.2.2.1, group_tables.2.2.2.2.2.2.2.2.2.2.2.2.1]

theorem unixOld_clean_from (w : World) (env : String → Option String) (c : Challenge) (r0 : Responder)
    (hp : r0.pid = w.nextPid) (hr : UnixReady w (pidDocPath env c) (unixDocSock env c)) :
    runHooks { w with nextPid := w.nextPid + 1,
                      pidFiles := insert (pidDocPath env c) w.nextPid w.pidFiles,
                      socks := unixDocSock env c :: w.socks,
                      responders := r0 :: w.responders } oldUnixGroupHooks
        "challenge-tls-alpn-01-clean" c.vars env =
      (afterUnixOld w (pidDocPath env c) (unixDocSock env c), true) := by
  simp only [runHooks, group_tables.2.2.2.2.2.2.2.2.2.2.2.2.2, runList, run_kill, run_rmPid, if_true]
  rw [exec_pkill_some _ _ w.nextPid (by simp [getPid, lookup_insert_self])]
  rw [exec_rmF_of _ w _ hr.pidNotDir hr.pidNotBlocked ?_ ?_]
  · simp only [filter_kill r0 w.responders w.nextPid hp hr.pids, afterUnixOld]
  · rfl
  · rfl

theorem unixOld_cycle_spec (w : World) (env : String → Option String) (c : Challenge)
    (hr : UnixReady w (pidDocPath env c) (unixDocSock env c)) :
    unixCycle oldUnixGroupHooks env (.unix (unixDocSock env c)) w c =
      (true, true, true, afterUnixOld w (pidDocPath env c) (unixDocSock env c)) := by
  unfold unixCycle cycle
  rw [unixOld_challenge_eq, unix_challenge_spec w env c hr]
  have := unixOld_clean_from w env c
    ⟨w.nextPid, .unix (unixDocSock env c), c.identifierTlsAlpn, c.proof⟩ rfl hr
  simp only [] at this ⊢
  rw [this]
  simp [tlsAlpnValidates]

theorem sock_left_old (w : World) (P S : String) (hne : P ≠ S) : S ∈ (afterUnixOld w P S).socks := by
  have h : ¬ S = P := fun e => hne e.symm
  simp [afterUnixOld, h]

/-- Second run of the old group: the start hook "succeeds", no responder is added. -/
theorem unixOld_second_challenge (w : World) (env : String → Option String) (c : Challenge)
    (hs : unixDocSock env c ∈ w.socks) :
    (runHooks w oldUnixGroupHooks "challenge-tls-alpn-01" c.vars env).2 = true ∧
    (runHooks w oldUnixGroupHooks "challenge-tls-alpn-01" c.vars env).1.responders = w.responders := by
  simp only [runHooks, group_tables.2.2.2.2.2.2.2.2.2.2.2.2.1, runList, run_startUnix, if_true]
  exact ⟨trivial, tacdStart_unix_exists w _ _ _ _ hs⟩


/-! ## History and observations on the tcp group -/

theorem tacdStart_invalid (w : World) (P d e A : String) (h : parseListen A = none) :
    (tacdStart w P d e A).responders = w.responders := by
  unfold tacdStart
  split
  · rfl
  · simp only [h, cleanPid]

theorem tcpOld_challenge (w : World) (env : String → Option String) (c : Challenge)
    (hport : ':' ∉ (envOr env "TACD_PORT" "5001").toList) :
    (runHooks w oldTcpGroup "challenge-tls-alpn-01" c.vars env).2 = true ∧
    (runHooks w oldTcpGroup "challenge-tls-alpn-01" c.vars env).1.responders = w.responders := by
  simp only [runHooks, group_tables.2.2.2.2.2.2.2.2.2.2.1, runList, run_oldStartTcp, if_true]
  exact ⟨trivial, tacdStart_invalid w _ _ _ _ (parseListen_no_colon _ hport)⟩

theorem tlsAlpnValidates_false (w : World) (l : Listen) (c : Challenge)
    (h : ∀ r ∈ w.responders, r.listen = l → r.ext ≠ c.proof) : tlsAlpnValidates w l c = false := by
  unfold tlsAlpnValidates
  rw [Bool.eq_false_iff]
  intro ht
  rw [List.any_eq_true] at ht
  obtain ⟨r, hr, hc⟩ := ht
  simp only [Bool.and_eq_true, beq_iff_eq] at hc
  exact h r hr hc.1.1 hc.2

theorem tacdStart_locked (w : World) (P d e A : String) (h : pidLocked w P = true) :
    tacdStart w P d e A = w := by
  simp [tacdStart, h]

/-- After a run that stopped between the challenge hooks and the clean hooks, the next run's start
hook changes nothing (the old `tacd` still holds the pid-file lock and the address) and the old
responder keeps presenting the OLD proof. -/
theorem tcp_after_aborted (w : World) (env : String → Option String) (c1 c2 : Challenge)
    (host : String) (port : Nat) (hr : TcpReady w (pidDocPath env c1) host port)
    (hA : parseListen (tcpDocListen env c1) = some (.tcp host port))
    (hid : c2.identifier = c1.identifier) (hproof : c2.proof ≠ c1.proof) :
    (tcpCycle env (.tcp host port) (abortedCycle tcpGroup "challenge-tls-alpn-01" env w c1) c2).2.1
      = false := by
  have hP : pidDocPath env c2 = pidDocPath env c1 := by simp [pidDocPath, hid]
  unfold abortedCycle
  rw [tcp_challenge_spec w env c1 host port hr hA]
  unfold tcpCycle cycle
  simp only [runHooks, group_tables.2.2.1, runList, run_startTcp, hP]
  rw [tacdStart_locked _ _ _ _ _ (by simp [pidLocked, getPid, lookup_insert_self])]
  simp only [if_true]
  apply tlsAlpnValidates_false
  intro r hrm hl
  simp only [List.mem_cons] at hrm
  rcases hrm with rfl | hrm
  · exact fun e => hproof e.symm
  · have hf := hr.free
    simp [tcpBound] at hf
    exact absurd hl (hf.2 r hrm)


/-! ## The git group -/

/-- The repository state `git init` leaves for `d`: the existing one, or a fresh empty one. -/
def repoOf (w : World) (d : String) : GitRepo :=
  match lookup d w.git with
  | some r => r
  | none => ⟨[], [], []⟩

theorem gitHead_repoOf (w : World) (d n : String) : gitHead w d n = lookup n (repoOf w d).head := by
  unfold gitHead repoOf
  cases lookup d w.git <;> rfl

theorem gitCommits_repoOf (w : World) (d : String) : gitCommits w d = (repoOf w d).commits := by
  unfold gitCommits repoOf
  cases lookup d w.git <;> rfl

theorem exec_gitInit_spec (w : World) (d : String) (hb : isBlocked w d = false) :
    (exec w (.gitInit d)).2.2 = true ∧ d ∈ (exec w (.gitInit d)).1.dirs ∧
    (exec w (.gitInit d)).1.files = w.files ∧ (exec w (.gitInit d)).1.blocked = w.blocked ∧
    lookup d (exec w (.gitInit d)).1.git = some (repoOf w d) := by
  unfold repoOf
  by_cases hd : d ∈ w.dirs
  · cases hg : lookup d w.git with
    | none => simp [exec, hb, hd, hg, lookup_insert_self]
    | some r => simp [exec, hb, hd, hg]
  · cases hg : lookup d w.git with
    | none => simp [exec, hb, hd, hg, lookup_insert_self]
    | some r => simp [exec, hb, hd, hg]

theorem git_store_spec (w : World) (env : String → Option String) (dir name content : String)
    (hbd : isBlocked w dir = false) (hbf : isBlocked w (dir ++ "/" ++ name) = false) :
    ∃ w', storeFile gitGroup env w dir name content = (some w', true) ∧
      getFile w' (dir ++ "/" ++ name) = some ⟨content, false⟩ ∧
      gitHead w' dir name = some content ∧
      (gitHead w dir name ≠ some content → gitCommits w' dir = name :: gitCommits w dir) ∧
      (gitHead w dir name = some content → gitCommits w' dir = gitCommits w dir) := by
  obtain ⟨i1, i2, i3, i4, i5⟩ := exec_gitInit_spec w dir hbd
  have hpre : ∀ ty, ty = "file-pre-create" ∨ ty = "file-pre-edit" →
      runHooks w gitGroup ty (fileVars dir name) env = ((exec w (.gitInit dir)).1, true) := by
    intro ty hty
    rcases hty with rfl | rfl
    · simp only [runHooks, group_tables.2.2.2.2.2.2.1, runList, run_gitInit, i1, if_true]
    · simp only [runHooks, group_tables.2.2.2.2.2.2.2.1, runList, run_gitInit, i1, if_true]
  have hpost : ∀ (W : World) ty, ty = "file-post-create" ∨ ty = "file-post-edit" →
      runHooks W gitGroup ty (fileVars dir name) env =
        ((exec (exec W (.gitAdd dir name)).1 (.gitCommit dir name name)).1, true) := by
    intro W ty hty
    rcases hty with rfl | rfl
    · simp only [runHooks, group_tables.2.2.2.2.2.2.2.2.1, runList, run_gitAdd, run_gitCommit, if_true]
    · simp only [runHooks, group_tables.2.2.2.2.2.2.2.2.2.1, runList, run_gitAdd, run_gitCommit, if_true]
  generalize hw1 : (exec w (.gitInit dir)).1 = w1 at i2 i3 i4 i5 hpre
  have hb1 : isBlocked w1 (dir ++ "/" ++ name) = false := by
    unfold isBlocked at hbf ⊢; rw [i4]; exact hbf
  -- the world after the write
  let w2 : World := { w1 with files := insert (dir ++ "/" ++ name) ⟨content, false⟩ w1.files }
  have hf2 : getFile w2 (dir ++ "/" ++ name) = some ⟨content, false⟩ := by
    simp [w2, getFile, lookup_insert_self]
  have hg2 : lookup dir w2.git = some (repoOf w dir) := i5
  -- git add
  have hadd : (exec w2 (.gitAdd dir name)).1 =
      { w2 with git := insert dir { repoOf w dir with index := insert name content (repoOf w dir).index }
                  w2.git } := by
    simp only [exec, hg2, hf2]
  -- git commit
  have hstore : storeFile gitGroup env w dir name content =
      (some (exec (exec w2 (.gitAdd dir name)).1 (.gitCommit dir name name)).1, true) := by
    unfold storeFile
    by_cases hnew : (getFile w (dir ++ "/" ++ name)).isNone = true
    · simp only [hnew, if_true, hpre _ (Or.inl rfl), hpost _ _ (Or.inl rfl), Bool.not_true, hb1, i2,
        Bool.false_eq_true, if_false, decide_true, Bool.or_self, w2]
    · simp only [hnew, if_false, hpre _ (Or.inr rfl), hpost _ _ (Or.inr rfl), Bool.not_true, hb1, i2,
        Bool.false_eq_true, decide_true, Bool.or_self, w2]
  refine ⟨_, hstore, ?_⟩
  rw [hadd]
  have hg3 : lookup dir (insert dir { repoOf w dir with index := insert name content (repoOf w dir).index }
      w2.git) = some { repoOf w dir with index := insert name content (repoOf w dir).index } :=
    lookup_insert_self _ _ _
  rw [gitHead_repoOf w, gitCommits_repoOf w]
  by_cases hsame : lookup name (repoOf w dir).head = some content
  · simp [exec, hg3, getFile, w2, lookup_insert_self, hsame, gitHead, gitCommits]
  · simp [exec, hg3, getFile, w2, lookup_insert_self, hsame, gitHead, gitCommits]


/-! ## Any number of issuances -/

def httpIssuances (env : String → Option String) (w : World) (cs : List Challenge) :
    List Bool × World :=
  issuances httpGroup "challenge-http-01" "challenge-http-01-clean"
    (fun w c => http01Validates w env c) env w cs

def tcpIssuances (env : String → Option String) (l : Listen) (w : World) (cs : List Challenge) :
    List Bool × World :=
  issuances tcpGroup "challenge-tls-alpn-01" "challenge-tls-alpn-01-clean"
    (fun w c => tlsAlpnValidates w l c) env w cs

def unixIssuances (hooks : List GHook) (env : String → Option String) (l : Listen) (w : World)
    (cs : List Challenge) : List Bool × World :=
  issuances hooks "challenge-tls-alpn-01" "challenge-tls-alpn-01-clean"
    (fun w c => tlsAlpnValidates w l c) env w cs

theorem http_issuances_all (env : String → Option String) (id : String) (cs : List Challenge) :
    ∀ w : World, (∀ c ∈ cs, c.identifier = id ∧ TokenOk c ∧ HttpReady w env c) →
      (httpIssuances env w cs).1 = cs.map (fun _ => true) := by
  induction cs with
  | nil => intro w _; rfl
  | cons c rest ih =>
    intro w h
    obtain ⟨hid, ht, hr⟩ := h c List.mem_cons_self
    have hspec := http_cycle_spec w env c hr ht
    have hrest : ∀ c2 ∈ rest, c2.identifier = id ∧ TokenOk c2 ∧
        HttpReady (httpCycle env w c).2.2.2 env c2 := by
      intro c2 hc2
      obtain ⟨hid2, ht2, hr2⟩ := h c2 (List.mem_cons_of_mem _ hc2)
      exact ⟨hid2, ht2, http_ready_preserved w env c c2 hr ht hr2 (hid2.trans hid.symm)⟩
    have := ih _ hrest
    simp only [httpIssuances, issuances, List.map_cons] at this ⊢
    have e : cycle httpGroup "challenge-http-01" "challenge-http-01-clean"
        (fun w c => http01Validates w env c) env w c = httpCycle env w c := rfl
    rw [e, this, hspec.1, hspec.2.1, hspec.2.2.1]
    rfl

theorem tcp_issuances_all (env : String → Option String) (P host : String) (port : Nat)
    (cs : List Challenge) :
    ∀ w : World, TcpReady w P host port →
      (∀ c ∈ cs, pidDocPath env c = P ∧
        parseListen (tcpDocListen env c) = some (.tcp host port)) →
      (tcpIssuances env (.tcp host port) w cs).1 = cs.map (fun _ => true) ∧
      TcpReady (tcpIssuances env (.tcp host port) w cs).2 P host port ∧
      (tcpIssuances env (.tcp host port) w cs).2.responders = w.responders ∧
      (cs ≠ [] → getPid (tcpIssuances env (.tcp host port) w cs).2 P = none) := by
  induction cs with
  | nil => intro w hr _; exact ⟨rfl, hr, rfl, fun h => absurd rfl h⟩
  | cons c rest ih =>
    intro w hr h
    obtain ⟨hP, hA⟩ := h c List.mem_cons_self
    have hspec := tcp_cycle_spec w env c host port (by rw [hP]; exact hr) hA
    rw [hP] at hspec
    obtain ⟨i1, i2, i3, i4⟩ := ih (afterTcp w P) (tcpReady_after w P host port hr)
      (fun c2 hc2 => h c2 (List.mem_cons_of_mem _ hc2))
    have e : cycle tcpGroup "challenge-tls-alpn-01" "challenge-tls-alpn-01-clean"
        (fun w c => tlsAlpnValidates w (.tcp host port) c) env w c =
        tcpCycle env (.tcp host port) w c := rfl
    simp only [tcpIssuances, issuances, List.map_cons] at i1 i2 i3 i4 ⊢
    rw [e, hspec]
    refine ⟨by rw [i1]; rfl, i2, i3, fun _ => ?_⟩
    cases rest with
    | nil => simp [issuances, getPid, afterTcp, lookup_erase_self]
    | cons c2 r2 => exact i4 (by simp)

theorem unix_issuances_all (env : String → Option String) (P S : String) (cs : List Challenge) :
    ∀ w : World, UnixReady w P S →
      (∀ c ∈ cs, pidDocPath env c = P ∧ unixDocSock env c = S) →
      (unixIssuances unixGroup env (.unix S) w cs).1 = cs.map (fun _ => true) ∧
      UnixReady (unixIssuances unixGroup env (.unix S) w cs).2 P S ∧
      (unixIssuances unixGroup env (.unix S) w cs).2.responders = w.responders ∧
      (cs ≠ [] → getPid (unixIssuances unixGroup env (.unix S) w cs).2 P = none) := by
  induction cs with
  | nil => intro w hr _; exact ⟨rfl, hr, rfl, fun h => absurd rfl h⟩
  | cons c rest ih =>
    intro w hr h
    obtain ⟨hP, hS⟩ := h c List.mem_cons_self
    have hspec := unix_cycle_spec w env c (by rw [hP, hS]; exact hr)
    rw [hP, hS] at hspec
    obtain ⟨i1, i2, i3, i4⟩ := ih (afterUnix w P S) (unixReady_after w P S hr)
      (fun c2 hc2 => h c2 (List.mem_cons_of_mem _ hc2))
    have e : cycle unixGroup "challenge-tls-alpn-01" "challenge-tls-alpn-01-clean"
        (fun w c => tlsAlpnValidates w (.unix S) c) env w c =
        unixCycle unixGroup env (.unix S) w c := rfl
    simp only [unixIssuances, issuances, List.map_cons] at i1 i2 i3 i4 ⊢
    rw [e, hspec]
    refine ⟨by rw [i1]; rfl, i2, i3, fun _ => ?_⟩
    cases rest with
    | nil => exact (afterUnix_clean w P S hr).1
    | cons c2 r2 => exact i4 (by simp)

/-! ## What the judge `Spec.C20` is shown if the machine behaves like the model -/

/-- What the judge is shown if the machine behaves like the model (http-01-echo). -/
def modelObsHttp (env : String → Option String) (w : World) (c : Challenge) : Spec.C20.IssuanceObs :=
  let r1 := runHooks w httpGroup "challenge-http-01" c.vars env
  let f := getFile r1.1 (httpDocPath env c)
  { challenge :=
      { expected := c.proof, proofFileExists := f.isSome,
        proofFileContent := (f.map fun e => e.content).getD "",
        proofFileWorldReadable := (f.map fun e => e.worldReadable).getD false,
        responderReachable := false, validated := http01Validates r1.1 env c },
    leftovers :=
      if (getFile (httpCycle env w c).2.2.2 (httpDocPath env c)).isSome then ["proof file"] else [] }

/-- … and for a tacd group whose CA-side address is `l` and whose socket path (if any) is `sock`. -/
def modelObsTacd (hooks : List GHook) (env : String → Option String) (l : Listen)
    (sock : Option String) (w : World) (c : Challenge) : Spec.C20.IssuanceObs :=
  let r1 := runHooks w hooks "challenge-tls-alpn-01" c.vars env
  let fin := (unixCycle hooks env l w c).2.2.2
  { challenge :=
      { expected := c.proof, proofFileExists := false, proofFileContent := "",
        proofFileWorldReadable := false,
        responderReachable := tlsAlpnValidates r1.1 l c, validated := tlsAlpnValidates r1.1 l c },
    leftovers :=
      (if (getPid fin (pidDocPath env c)).isSome then ["pid file"] else []) ++
      (match sock with
       | some s => if existsPath fin s then ["socket"] else []
       | none => []) ++
      (if fin.responders.any (fun r => r.listen == l) then ["responder"] else []) }

end AcmedVerif.HooksWorld
