/-
Helper lemmas for Props/OldVariants.lean: how the code before each repair (Model/OldVariants.lean)
relates to the current models.
-/
import AcmedVerif.Model.OldVariants
import AcmedVerif.Lemmas.Period
import AcmedVerif.Lemmas.Limiter
import AcmedVerif.Lemmas.Config
import AcmedVerif.Spec.C14

namespace AcmedVerif.OldVariants

/-! ## 27b8611: unchecked vs. checked fold of `parse_duration` -/
section Period
open AcmedVerif.Period

/-- Once the checked accumulator is `None` it stays `None`. -/
theorem fold_checked_none (fuel : Nat) : ∀ (s : List Char) (c : Nat) (acc' : Acc) (rest : List Char),
    fold .checked fuel s ⟨none, c⟩ = .ok (acc', rest) → acc'.sum = none := by
  induction fuel with
  | zero =>
    intro s c acc' rest h
    simp only [fold, Except.ok.injEq, Prod.mk.injEq] at h
    rw [← h.1]
  | succ n ih =>
    intro s c acc' rest h
    cases hp : part s with
    | fail =>
      rw [fold_fail _ n _ hp] at h
      simp only [Except.ok.injEq, Prod.mk.injEq] at h
      rw [← h.1]
    | part nb m r =>
      rw [fold_checked_part n _ hp] at h
      simp only [addItem_none] at h
      exact ih _ _ _ _ h

/-- Where the repaired fold ends with a value (no step overflowed), the old fold — either profile —
does exactly the same. -/
theorem fold_unchecked_of_checked (a : Arith) (fuel : Nat) :
    ∀ (s : List Char) (x c : Nat) (acc' : Acc) (rest : List Char) (v : Nat),
      fold .checked fuel s ⟨some x, c⟩ = .ok (acc', rest) → acc'.sum = some v →
      fold a fuel s ⟨some x, c⟩ = .ok (acc', rest) := by
  induction fuel with
  | zero =>
    intro s x c acc' rest v h _
    simp only [fold] at h ⊢
    exact h
  | succ n ih =>
    intro s x c acc' rest v h hv
    cases hp : part s with
    | fail =>
      rw [fold_fail _ n _ hp] at h
      rw [fold_fail _ n _ hp]
      exact h
    | part nb m r =>
      rw [fold_checked_part n _ hp] at h
      simp only [addItem_some] at h
      by_cases hfit : nb * m ≤ u64Max ∧ x + nb * m ≤ u64Max
      · simp only [hfit, and_self, if_true] at h
        have ih' := ih r (x + nb * m) (c + 1) acc' rest v h hv
        cases a with
        | checked =>
          rw [fold_checked_part n _ hp]
          simp only [addItem_some, hfit, and_self, if_true]
          exact h
        | uncheckedDev =>
          simp only [fold, hp, Nat.not_lt.mpr hfit.1, Nat.not_lt.mpr hfit.2, if_false]
          exact ih'
        | uncheckedRelease =>
          have hmod : nb * m % (u64Max + 1) = nb * m := Nat.mod_eq_of_lt (by omega)
          simp only [fold, hp, hmod, Nat.not_lt.mpr hfit.2, if_false]
          exact ih'
      · simp only [hfit, if_false] at h
        have := fold_checked_none n r (c + 1) acc' rest h
        rw [this] at hv
        cases hv

/-- Where the old fold (dev profile) ends without a panic, the repaired fold does the same. -/
theorem fold_checked_of_dev (fuel : Nat) :
    ∀ (s : List Char) (x c : Nat) (r : Acc × List Char),
      fold .uncheckedDev fuel s ⟨some x, c⟩ = .ok r → fold .checked fuel s ⟨some x, c⟩ = .ok r := by
  induction fuel with
  | zero =>
    intro s x c r h
    simp only [fold] at h ⊢
    exact h
  | succ n ih =>
    intro s x c r h
    cases hp : part s with
    | fail =>
      rw [fold_fail _ n _ hp] at h
      rw [fold_fail _ n _ hp]
      exact h
    | part nb m rest =>
      simp only [fold, hp] at h
      rw [fold_checked_part n _ hp]
      simp only [addItem_some]
      by_cases h1 : nb * m > u64Max
      · simp [h1] at h
      · simp only [h1, if_false] at h
        by_cases h2 : x + nb * m > u64Max
        · simp [h2] at h
        · simp only [h2, if_false] at h
          have hfit : nb * m ≤ u64Max ∧ x + nb * m ≤ u64Max := by omega
          simp only [hfit, and_self, if_true]
          exact ih _ _ _ _ h

/-- The only early exits of the fold are the two panics. -/
theorem fold_error_is_panic (a : Arith) (fuel : Nat) :
    ∀ (s : List Char) (acc : Acc) (o : Outcome), fold a fuel s acc = .error o →
      o = .panicMul ∨ o = .panicAdd := by
  induction fuel with
  | zero => intro s acc o h; simp [fold] at h
  | succ n ih =>
    intro s acc o h
    cases hp : part s with
    | fail => rw [fold_fail _ n _ hp] at h; cases h
    | part nb m rest =>
      cases a with
      | checked =>
        rw [fold_checked_part n _ hp] at h
        exact ih _ _ _ h
      | uncheckedDev =>
        simp only [fold, hp] at h
        split at h
        · cases h; exact .inl rfl
        · split at h
          · split at h
            · cases h; exact .inr rfl
            · exact ih _ _ _ h
          · cases h; exact .inr rfl
      | uncheckedRelease =>
        simp only [fold, hp] at h
        split at h
        · split at h
          · cases h; exact .inr rfl
          · exact ih _ _ _ h
        · cases h; exact .inr rfl

end Period

/-! ## b48ba6e / b1fb377 / 64663b5: the limiter -/
section Limiter
open AcmedVerif.Limiter

/-- If every pass refuses, the observer sees `blocked` however long it watches. -/
theorem passes_blocked (v : LimiterVariant) (ls : List Limit) :
    ∀ (rs : List Readings) (log : List Nat) (k : Nat),
      (∀ r ∈ rs, ∀ lg, v.allowed lg ls r.tTests r.tPrune = false) →
      passes v ls log rs k = .blocked (k + rs.length) := by
  intro rs
  induction rs with
  | nil => intro log k _; rfl
  | cons r rs ih =>
    intro log k h
    have hr := h r (List.mem_cons_self) (prune ls log r.tPrune)
    simp only [passes, hr]
    rw [ih _ _ (fun r' hr' => h r' (List.mem_cons_of_mem _ hr'))]
    simp only [List.length_cons, Bool.false_eq_true, if_false]
    congr 1; omega

/-- Two variants whose `request_allowed` agree on every pass give the same loop. -/
theorem passes_congr (v w : LimiterVariant) (ls : List Limit) :
    ∀ (rs : List Readings) (log : List Nat) (k : Nat),
      (∀ r ∈ rs, ∀ lg, v.allowed lg ls r.tTests r.tPrune = w.allowed lg ls r.tTests r.tPrune) →
      passes v ls log rs k = passes w ls log rs k := by
  intro rs
  induction rs with
  | nil => intro log k _; rfl
  | cons r rs ih =>
    intro log k h
    simp only [passes, h r (List.mem_cons_self)]
    rw [ih _ _ (fun r' hr' => h r' (List.mem_cons_of_mem _ hr'))]

/-- Old `request_allowed` with a first limit of zero requests: never. -/
theorem allowedOld_zero (log : List Nat) (p : Nat) (rest : List Limit) (ts : List Nat) (t : Nat) :
    allowedOld log (⟨0, p⟩ :: rest) ts t = false := by
  simp only [allowedOld]
  cases checkedSub (ts.headD t) p <;> simp

/-- Old and new `request_allowed` agree as soon as the machine has been up for longer than every
period (every clock reading used is at least every period). -/
theorem allowedOld_eq_allowed_of_uptime (log : List Nat) :
    ∀ (ls : List Limit) (ts : List Nat) (t : Nat),
      (∀ lim ∈ ls, ∀ t' ∈ t :: ts, lim.period ≤ t') →
      allowedOld log ls ts t = allowed log ls ts t := by
  intro ls
  induction ls with
  | nil => intro ts t _; rfl
  | cons lim rest ih =>
    intro ts t h
    have hmem : ts.headD t ∈ t :: ts := by
      cases ts with
      | nil => simp
      | cons a as => simp
    have hle : lim.period ≤ ts.headD t := h lim (List.mem_cons_self) _ hmem
    have hrest : ∀ l ∈ rest, ∀ t' ∈ ts.headD t :: ts.tail, l.period ≤ t' := by
      intro l hl t' ht'
      apply h l (List.mem_cons_of_mem _ hl)
      rcases List.mem_cons.mp ht' with rfl | ht'
      · exact hmem
      · exact List.mem_cons_of_mem _ (List.mem_of_mem_tail ht')
    simp only [allowedOld, allowed, seen, checkedSub, hle, if_true]
    rw [ih ts.tail (ts.headD t) hrest]

/-- Old and new `get_sleep_duration` agree when the shortest period's `secs · 200` fits 64 bits and
its number is not zero. -/
theorem sleepOld_eq_new_of_small (prof : Profile) (ls : List Limit)
    (h : ∀ l, ls.getLast? = some l → 1 ≤ l.n ∧ l.period / 1000000000 * 200 ≤ Limiter.u64Max) :
    sleepOld prof ls = sleepNew ls := by
  unfold sleepOld sleepNew sleepMs
  cases hl : ls.getLast? with
  | none => rfl
  | some l =>
    obtain ⟨hn, hfit⟩ := h l hl
    have hn0 : ¬ l.n = 0 := by omega
    have hgt : ¬ l.period / 1000000000 * 200 > Limiter.u64Max := by omega
    have hmod : l.period / 1000000000 * 200 % (Limiter.u64Max + 1) = l.period / 1000000000 * 200 :=
      Nat.mod_eq_of_lt (by omega)
    have hmin : min (l.period / 1000000000 * 200) Limiter.u64Max = l.period / 1000000000 * 200 :=
      Nat.min_eq_left hfit
    by_cases hs : l.period / 1000000000 ≤ 1
    · simp [hs]
    · simp [hs, hgt, hn0, hmod, hmin]

end Limiter

/-! ## c679126: `get_hook` without a visited set -/
section Hooks
open AcmedVerif.Config AcmedVerif.Spec.C14

theorem getHookOld_eq (cfg : Config) (depth : Nat) (name : String) :
    getHookOld cfg depth name =
      match findHook cfg name with
      | some h => .ok [h]
      | none =>
        match findGroup cfg name with
        | none => .err (.hookNotFound name)
        | some g =>
          match depth with
          | 0 => .stackOverflow
          | depth + 1 => expandNamesOld (getHookOld cfg depth) g.hooks := by
  cases depth <;> simp only [getHookOld] <;> cases findHook cfg name <;>
    first | rfl | (cases findGroup cfg name <;> rfl)

/-- A group whose first member is the group itself: whatever the stack size, the old code ends in a
stack overflow. -/
theorem getHookOld_self_first (cfg : Config) (g : String) (grp : Group) (rest : List String)
    (hh : findHook cfg g = none) (hg : findGroup cfg g = some grp) (hm : grp.hooks = g :: rest) :
    ∀ depth, getHookOld cfg depth g = .stackOverflow := by
  intro depth
  induction depth with
  | zero => rw [getHookOld_eq, hh, hg]
  | succ d ih =>
    rw [getHookOld_eq, hh, hg]
    simp only [hm, expandNamesOld, ih]

theorem expandNamesOld_of_new {rec : Nat → String → Except Err (List Hook × Nat)}
    {recOld : String → Expand} (hrec : ∀ b n hs b', rec b n = .ok (hs, b') → recOld n = .ok hs) :
    ∀ ns acc b r b', groupLoop rec ns acc b = .ok (r, b') →
      ∃ r', r = acc ++ r' ∧ expandNamesOld recOld ns = .ok r' := by
  intro ns
  induction ns with
  | nil =>
    intro acc b r b' h
    simp only [groupLoop, Except.ok.injEq, Prod.mk.injEq] at h
    exact ⟨[], by simp [h.1], rfl⟩
  | cons n ns ih =>
    intro acc b r b' h
    simp only [groupLoop] at h
    cases hn : rec b n with
    | error e => simp [hn] at h
    | ok res =>
      obtain ⟨hs, b₁⟩ := res
      simp only [hn] at h
      obtain ⟨r', hr, hold⟩ := ih _ _ _ _ h
      exact ⟨hs ++ r', by simp [hr], by simp only [expandNamesOld, hrec b n hs b₁ hn, hold]⟩

/-- Whatever the current expansion accepts, the old one accepted with the same result, given as
many stack frames as the current model has fuel. -/
theorem getHookOld_of_expandHook (cfg : Config) :
    ∀ fuel parents budget n r b', expandHook cfg fuel parents budget n = .ok (r, b') →
      getHookOld cfg fuel n = .ok r := by
  intro fuel
  induction fuel with
  | zero =>
    intro parents budget n r b' h
    rw [expandHook_eq] at h
    rw [getHookOld_eq]
    cases budget with
    | zero => simp at h
    | succ budget =>
    cases hh : findHook cfg n with
    | some hk =>
      simp only [hh, Except.ok.injEq, Prod.mk.injEq] at h
      simp [h.1]
    | none =>
      simp only [hh] at h
      cases hg : findGroup cfg n with
      | none => simp [hg] at h
      | some g =>
        simp only [hg] at h
        by_cases hm : n ∈ parents
        · simp [hm] at h
        · by_cases hd : parents.length ≥ maxHookGroupDepth <;> simp [hm, hd] at h
  | succ fuel ih =>
    intro parents budget n r b' h
    rw [expandHook_eq] at h
    rw [getHookOld_eq]
    cases budget with
    | zero => simp at h
    | succ budget =>
    cases hh : findHook cfg n with
    | some hk =>
      simp only [hh, Except.ok.injEq, Prod.mk.injEq] at h
      simp [h.1]
    | none =>
      simp only [hh] at h
      cases hg : findGroup cfg n with
      | none => simp [hg] at h
      | some g =>
        simp only [hg] at h
        by_cases hm : n ∈ parents
        · simp [hm] at h
        · simp only [hm, if_false] at h
          by_cases hd : parents.length ≥ maxHookGroupDepth
          · simp [hd] at h
          · simp only [hd, if_false] at h
            obtain ⟨r', hr, hold⟩ := expandNamesOld_of_new
              (fun b m hs b₁ => ih (parents ++ [n]) b m hs b₁) g.hooks [] budget r b' h
            simpa [hr] using hold

theorem expandNamesOld_denotes {cfg : Config} {rec : String → Expand}
    (hrec : ∀ n r, rec n = .ok r → ExpandsList cfg [n] r) :
    ∀ ns r, expandNamesOld rec ns = .ok r → ExpandsList cfg ns r := by
  intro ns
  induction ns with
  | nil =>
    intro r h
    simp only [expandNamesOld, Expand.ok.injEq] at h
    subst h; exact .nil
  | cons n ns ih =>
    intro r h
    simp only [expandNamesOld] at h
    cases hn : rec n with
    | err e => simp [hn] at h
    | stackOverflow => simp [hn] at h
    | ok hs =>
      simp only [hn] at h
      cases hr : expandNamesOld rec ns with
      | err e => simp [hr] at h
      | stackOverflow => simp [hr] at h
      | ok rest =>
        simp only [hr, Expand.ok.injEq] at h
        subst h
        exact (hrec n hs hn).cons_of_single (ih rest hr)

/-- A successful old expansion is the denotation of the name. -/
theorem getHookOld_denotes (cfg : Config) :
    ∀ depth n r, getHookOld cfg depth n = .ok r → ExpandsList cfg [n] r := by
  intro depth
  induction depth with
  | zero =>
    intro n r h
    rw [getHookOld_eq] at h
    cases hh : findHook cfg n with
    | some hk =>
      simp only [hh, Expand.ok.injEq] at h
      subst h; exact .hook hh .nil
    | none =>
      simp only [hh] at h
      cases hg : findGroup cfg n with
      | none => simp [hg] at h
      | some g => simp [hg] at h
  | succ d ih =>
    intro n r h
    rw [getHookOld_eq] at h
    cases hh : findHook cfg n with
    | some hk =>
      simp only [hh, Expand.ok.injEq] at h
      subst h; exact .hook hh .nil
    | none =>
      simp only [hh] at h
      cases hg : findGroup cfg n with
      | none => simp [hg] at h
      | some g =>
        simp only [hg] at h
        have := expandNamesOld_denotes (fun m r' => ih m r') g.hooks r h
        have h2 := ExpandsList.group (ns := []) hh hg this .nil
        simpa using h2

end Hooks

/-! ## 4551043: the parametrised loader is the model's loader for the current merge block -/
section Load
open AcmedVerif.Config

theorem mergeCfgWith_current (cfg add : Config) : mergeCfgWith mergedOptions cfg add = mergeCfg cfg add := by
  unfold mergeCfgWith mergeCfg mergeGlobalWithOpts mergeGlobal
  rfl

theorem includeLoopWith_current (rec : Path → List Path → Except Err (Config × List Path)) :
    ∀ ps cfg loaded, includeLoopWith mergedOptions rec ps cfg loaded = includeLoop rec ps cfg loaded := by
  intro ps
  induction ps with
  | nil => intro cfg loaded; rfl
  | cons p ps ih =>
    intro cfg loaded
    simp only [includeLoopWith, includeLoop]
    cases rec p loaded with
    | error e => rfl
    | ok r => simp only [mergeCfgWith_current, ih]

theorem readCnfWith_current {π : Type} (files : Files π) (resolve : Path → π → List Path) :
    ∀ fuel depth path loaded,
      readCnfWith mergedOptions files resolve fuel depth path loaded =
        readCnf files resolve fuel depth path loaded := by
  intro fuel
  induction fuel with
  | zero =>
    intro depth path loaded
    simp only [readCnfWith, readCnf]
    cases lookupFile files path <;> rfl
  | succ n ih =>
    intro depth path loaded
    simp only [readCnfWith, readCnf]
    have : readCnfWith mergedOptions files resolve n (depth + 1) = readCnf files resolve n (depth + 1) := by
      funext p l; exact ih (depth + 1) p l
    rw [this]
    cases lookupFile files path with
    | none => rfl
    | some fc => simp only [includeLoopWith_current]

end Load

end AcmedVerif.OldVariants
