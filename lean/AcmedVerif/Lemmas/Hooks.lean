/-
Helper lemmas for `Props/C10.lean` about `Model/Hooks.lean`.
-/
import AcmedVerif.Model.Hooks
import AcmedVerif.Spec.C10

namespace AcmedVerif.Hooks
open AcmedVerif.Spec.C10

/-! ### `mapCat` -/

theorem mapCat_ok_iff (f : Name → Except Err (List Hook)) (ns : List Name) (r : List Hook) :
    mapCat f ns = .ok r ↔ ∃ parts : List (List Hook), ns.map f = parts.map .ok ∧ r = parts.flatten := by
  induction ns generalizing r with
  | nil =>
    simp only [mapCat, List.map_nil]
    constructor
    · intro h
      cases h
      exact ⟨[], rfl, rfl⟩
    · rintro ⟨parts, hp, rfl⟩
      cases parts with
      | nil => rfl
      | cons a b => simp at hp
  | cons n ns ih =>
    simp only [mapCat, List.map_cons]
    cases hf : f n with
    | error e =>
      simp only
      constructor
      · intro h; cases h
      · rintro ⟨parts, hp, _⟩
        cases parts with
        | nil => simp at hp
        | cons a b => simp at hp
    | ok hs =>
      simp only
      cases hm : mapCat f ns with
      | error e =>
        simp only
        constructor
        · intro h; cases h
        · rintro ⟨parts, hp, _⟩
          cases parts with
          | nil => simp at hp
          | cons a b =>
            simp only [List.map_cons, List.cons.injEq] at hp
            have := (ih b.flatten).mpr ⟨b, hp.2, rfl⟩
            rw [hm] at this
            cases this
      | ok rest =>
        simp only
        obtain ⟨parts, hp, hr⟩ := (ih rest).mp hm
        constructor
        · intro h
          cases h
          exact ⟨hs :: parts, by simp [hp], by simp [hr]⟩
        · rintro ⟨parts', hp', rfl⟩
          cases parts' with
          | nil => simp at hp'
          | cons a b =>
            simp only [List.map_cons, List.cons.injEq, Except.ok.injEq] at hp'
            have := (ih b.flatten).mpr ⟨b, hp'.2, rfl⟩
            rw [hm] at this
            cases this
            simp [hp'.1]

theorem mapCat_error_iff (f : Name → Except Err (List Hook)) (ns : List Name) (e : Err) :
    mapCat f ns = .error e ↔
      ∃ pre n post, ns = pre ++ n :: post ∧ (∀ m ∈ pre, ∃ r, f m = .ok r) ∧ f n = .error e := by
  induction ns with
  | nil =>
    simp only [mapCat]
    constructor
    · intro h; cases h
    · rintro ⟨pre, n, post, h, _⟩
      simp at h
  | cons a ns ih =>
    simp only [mapCat]
    cases hf : f a with
    | error e' =>
      simp only
      constructor
      · intro h
        cases h
        exact ⟨[], a, ns, rfl, by simp, hf⟩
      · rintro ⟨pre, n, post, h, hpre, hn⟩
        cases pre with
        | nil =>
          simp only [List.nil_append, List.cons.injEq] at h
          rw [← h.1, hf] at hn
          exact hn
        | cons b pre =>
          simp only [List.cons_append, List.cons.injEq] at h
          obtain ⟨r, hr⟩ := hpre b (List.mem_cons_self ..)
          rw [← h.1, hf] at hr
          cases hr
    | ok hs =>
      simp only
      cases hm : mapCat f ns with
      | error e' =>
        simp only
        constructor
        · intro h'
          injection h' with h'
          subst h'
          obtain ⟨pre, n, post, h, hpre, hn⟩ := ih.mp hm
          refine ⟨a :: pre, n, post, by simp [h], ?_, hn⟩
          intro m hm'
          rcases List.mem_cons.mp hm' with rfl | hm'
          · exact ⟨hs, hf⟩
          · exact hpre m hm'
        · rintro ⟨pre', n', post', h', hpre', hn'⟩
          cases pre' with
          | nil =>
            simp only [List.nil_append, List.cons.injEq] at h'
            rw [← h'.1, hf] at hn'
            cases hn'
          | cons b pre' =>
            simp only [List.cons_append, List.cons.injEq] at h'
            have : mapCat f ns = .error e :=
              ih.mpr ⟨pre', n', post', h'.2, fun m hm' => hpre' m (List.mem_cons_of_mem _ hm'), hn'⟩
            rw [hm] at this
            exact this
      | ok rest =>
        simp only
        constructor
        · intro h; cases h
        · rintro ⟨pre', n', post', h', hpre', hn'⟩
          cases pre' with
          | nil =>
            simp only [List.nil_append, List.cons.injEq] at h'
            rw [← h'.1, hf] at hn'
            cases hn'
          | cons b pre' =>
            simp only [List.cons_append, List.cons.injEq] at h'
            have : mapCat f ns = .error e :=
              ih.mpr ⟨pre', n', post', h'.2, fun m hm' => hpre' m (List.mem_cons_of_mem _ hm'), hn'⟩
            rw [hm] at this
            cases this

theorem mapCat_error_mem {f : Name → Except Err (List Hook)} {ns : List Name} {e : Err}
    (h : mapCat f ns = .error e) : ∃ n ∈ ns, f n = .error e := by
  obtain ⟨pre, n, post, rfl, _, hn⟩ := (mapCat_error_iff f ns e).mp h
  exact ⟨n, by simp, hn⟩

theorem mapCat_ok_mem {f : Name → Except Err (List Hook)} {ns : List Name} {r : List Hook}
    (h : mapCat f ns = .ok r) : ∀ n ∈ ns, ∃ r', f n = .ok r' := by
  induction ns generalizing r with
  | nil => intro n hn; cases hn
  | cons a ns ih =>
    simp only [mapCat] at h
    cases hf : f a with
    | error e => rw [hf] at h; cases h
    | ok hs =>
      rw [hf] at h
      simp only at h
      cases hm : mapCat f ns with
      | error e => rw [hm] at h; cases h
      | ok rest =>
        intro n hn
        rcases List.mem_cons.mp hn with rfl | hn
        · exact ⟨hs, hf⟩
        · exact ih hm n hn

theorem mapCat_congr {f g : Name → Except Err (List Hook)} (ns : List Name)
    (h : ∀ n ∈ ns, f n = g n) : mapCat f ns = mapCat g ns := by
  induction ns with
  | nil => rfl
  | cons a ns ih =>
    simp only [mapCat]
    rw [h a (List.mem_cons_self ..), ih (fun n hn => h n (List.mem_cons_of_mem _ hn))]

theorem mapCat_append (f : Name → Except Err (List Hook)) (a b : List Name) :
    mapCat f (a ++ b) =
      match mapCat f a with
      | .error e => .error e
      | .ok x =>
        match mapCat f b with
        | .error e => .error e
        | .ok y => .ok (x ++ y) := by
  induction a with
  | nil =>
    simp only [List.nil_append, mapCat]
    cases mapCat f b <;> simp
  | cons n a ih =>
    simp only [List.cons_append, mapCat, ih]
    cases f n with
    | error e => rfl
    | ok hs =>
      simp only
      cases mapCat f a with
      | error e => rfl
      | ok x =>
        simp only
        cases mapCat f b with
        | error e => rfl
        | ok y => simp

/-! ### Pigeonhole -/

theorem nodup_subset_length {α : Type} [DecidableEq α] :
    ∀ (l m : List α), l.Nodup → (∀ x ∈ l, x ∈ m) → l.length ≤ m.length
  | [], _, _, _ => Nat.zero_le _
  | a :: l, m, hn, hs => by
    have ha : a ∈ m := hs a (List.mem_cons_self ..)
    have hn' := List.nodup_cons.mp hn
    have h1 : l.length ≤ (m.erase a).length :=
      nodup_subset_length l (m.erase a) hn'.2 (fun x hx =>
        (List.mem_erase_of_ne (by intro hxa; subst hxa; exact hn'.1 hx)).mpr
          (hs x (List.mem_cons_of_mem _ hx)))
    rw [List.length_erase_of_mem ha] at h1
    have h2 : 0 < m.length := List.length_pos_of_mem ha
    simp only [List.length_cons]
    omega

/-! ### `expand` -/

theorem findGroup_some_mem {groups : List Group} {n : Name} {g : Group}
    (h : findGroup groups n = some g) : n ∈ groups.map (·.name) := by
  induction groups with
  | nil => cases h
  | cons a gs ih =>
    simp only [findGroup] at h
    by_cases hn : a.name = n
    · simp [hn]
    · simp only [hn, if_false] at h
      simp [ih h]

/-- The expansion path holds distinct names that each resolve to a group. -/
def PathInv (groups : List Group) (path : List Name) : Prop :=
  path.Nodup ∧ ∀ p ∈ path, ∃ g, findGroup groups p = some g

theorem PathInv.nil (groups : List Group) : PathInv groups [] :=
  ⟨List.nodup_nil, fun _ h => by cases h⟩

theorem PathInv.cons {groups : List Group} {path : List Name} {n : Name} {g : Group}
    (h : PathInv groups path) (hn : n ∉ path) (hg : findGroup groups n = some g) :
    PathInv groups (n :: path) := by
  refine ⟨List.nodup_cons.mpr ⟨hn, h.1⟩, ?_⟩
  intro p hp
  rcases List.mem_cons.mp hp with rfl | hp
  · exact ⟨g, hg⟩
  · exact h.2 p hp

theorem PathInv.length_le {groups : List Group} {path : List Name} (h : PathInv groups path) :
    path.length ≤ groups.length := by
  have := nodup_subset_length path (groups.map (·.name)) h.1 (fun p hp => by
    obtain ⟨g, hg⟩ := h.2 p hp
    exact findGroup_some_mem hg)
  simpa using this

theorem expand_succ (hooks : List Hook) (groups : List Group) (fuel : Nat) (path : List Name)
    (n : Name) :
    expand hooks groups (fuel + 1) path n =
      match findHook hooks n with
      | some h => .ok [h]
      | none =>
        match findGroup groups n with
        | none => .error (.notFound n)
        | some g =>
          if n ∈ path then .error (.cycle n)
          else mapCat (expand hooks groups fuel (n :: path)) g.hooks := by
  rfl

/-- With enough fuel one more unit changes nothing. -/
theorem expand_stable (hooks : List Hook) (groups : List Group) :
    ∀ (fuel : Nat) (path : List Name) (n : Name), PathInv groups path →
      groups.length + 1 ≤ fuel + path.length →
      expand hooks groups (fuel + 1) path n = expand hooks groups fuel path n := by
  intro fuel
  induction fuel with
  | zero =>
    intro path n hinv hlen
    have := hinv.length_le
    omega
  | succ k ih =>
    intro path n hinv hlen
    rw [expand_succ hooks groups (k + 1), expand_succ hooks groups k]
    cases findHook hooks n with
    | some h => rfl
    | none =>
      simp only
      cases hg : findGroup groups n with
      | none => rfl
      | some g =>
        simp only
        by_cases hp : n ∈ path
        · simp only [hp, if_true]
        · simp only [hp, if_false]
          apply mapCat_congr
          intro m _
          apply ih (n :: path) m (hinv.cons hp hg)
          simp only [List.length_cons]
          omega

theorem expand_stable_add (hooks : List Hook) (groups : List Group) (fuel : Nat) (path : List Name)
    (n : Name) (hinv : PathInv groups path) (hlen : groups.length + 1 ≤ fuel + path.length)
    (k : Nat) : expand hooks groups (fuel + k) path n = expand hooks groups fuel path n := by
  induction k with
  | zero => rfl
  | succ k ih =>
    rw [← Nat.add_assoc, expand_stable hooks groups (fuel + k) path n hinv (by omega), ih]

/-- With enough fuel the `fuel` error never comes out. -/
theorem expand_no_fuel_error (hooks : List Hook) (groups : List Group) :
    ∀ (fuel : Nat) (path : List Name) (n : Name), PathInv groups path →
      groups.length + 1 ≤ fuel + path.length →
      expand hooks groups fuel path n ≠ .error .fuel := by
  intro fuel
  induction fuel with
  | zero =>
    intro path n hinv hlen
    have := hinv.length_le
    omega
  | succ k ih =>
    intro path n hinv hlen
    rw [expand_succ]
    cases findHook hooks n with
    | some h => intro h'; cases h'
    | none =>
      simp only
      cases hg : findGroup groups n with
      | none => intro h'; cases h'
      | some g =>
        simp only
        by_cases hp : n ∈ path
        · simp only [hp, if_true]
          intro h'; cases h'
        · simp only [hp, if_false]
          intro h'
          obtain ⟨m, _, hm⟩ := mapCat_error_mem h'
          exact ih (n :: path) m (hinv.cons hp hg) (by simp only [List.length_cons]; omega) hm

/-! ### Cycles -/

theorem star_single {hooks : List Hook} {groups : List Group} {a b : Name}
    (h : Step hooks groups a b) : Star hooks groups a b := .head h (.refl b)

theorem star_trans {hooks : List Hook} {groups : List Group} {a b c : Name}
    (h1 : Star hooks groups a b) (h2 : Star hooks groups b c) : Star hooks groups a c := by
  induction h1 with
  | refl => exact h2
  | head s _ ih => exact .head s (ih h2)

theorem plus_trans_star {hooks : List Hook} {groups : List Group} {a b c : Name}
    (h1 : Plus hooks groups a b) (h2 : Star hooks groups b c) : Plus hooks groups a c := by
  obtain ⟨m, hs, hm⟩ := h1
  exact ⟨m, hs, star_trans hm h2⟩

/-- A successful expansion of a group: the group is not on the path and every member expands
successfully one level down. -/
theorem expand_ok_step {hooks : List Hook} {groups : List Group} {fuel : Nat} {path : List Name}
    {a b : Name} {r : List Hook} (h : expand hooks groups fuel path a = .ok r)
    (hs : Step hooks groups a b) :
    a ∉ path ∧ ∃ fuel' r', expand hooks groups fuel' (a :: path) b = .ok r' := by
  obtain ⟨hh, g, hg, hb⟩ := hs
  cases fuel with
  | zero => rw [expand] at h; cases h
  | succ k =>
    rw [expand_succ, hh] at h
    simp only [hg] at h
    by_cases hp : a ∈ path
    · simp only [hp, if_true] at h; cases h
    · simp only [hp, if_false] at h
      obtain ⟨r', hr'⟩ := mapCat_ok_mem h b hb
      exact ⟨hp, k, r', hr'⟩

theorem expand_ok_star_notin {hooks : List Hook} {groups : List Group} {s n m : Name}
    (hst : Star hooks groups s n) (hn : Step hooks groups n m) :
    ∀ {fuel : Nat} {path : List Name} {r : List Hook},
      expand hooks groups fuel path s = .ok r → n ∉ path := by
  induction hst with
  | refl a =>
    intro fuel path r h
    exact (expand_ok_step h hn).1
  | head st _ ih =>
    intro fuel path r h
    obtain ⟨_, fuel', r', h'⟩ := expand_ok_step h st
    have := ih hn h'
    intro hp
    exact this (List.mem_cons_of_mem _ hp)

theorem expand_ok_star_ok {hooks : List Hook} {groups : List Group} {s n : Name}
    (hst : Star hooks groups s n) :
    ∀ {fuel : Nat} {path : List Name} {r : List Hook},
      expand hooks groups fuel path s = .ok r →
      ∃ fuel' path' r', expand hooks groups fuel' path' n = .ok r' := by
  induction hst with
  | refl a =>
    intro fuel path r h
    exact ⟨fuel, path, r, h⟩
  | head st _ ih =>
    intro fuel path r h
    obtain ⟨_, fuel', r', h'⟩ := expand_ok_step h st
    exact ih h'

/-- A name from which a cycle of groups can be reached never expands successfully. -/
theorem expand_cycle_not_ok {hooks : List Hook} {groups : List Group} {s n : Name}
    (hst : Star hooks groups s n) (hcyc : Plus hooks groups n n)
    (fuel : Nat) (path : List Name) (r : List Hook) :
    expand hooks groups fuel path s ≠ .ok r := by
  intro h
  obtain ⟨m, hnm, hmn⟩ := hcyc
  obtain ⟨fuel', path', r', h'⟩ := expand_ok_star_ok hst h
  obtain ⟨_, fuel'', r'', h''⟩ := expand_ok_step h' hnm
  exact expand_ok_star_notin hmn hnm h'' (List.mem_cons_self ..)

/-- The `cycle` error is only raised for a real cycle. -/
theorem expand_cycle_error_sound {hooks : List Hook} {groups : List Group} :
    ∀ (fuel : Nat) (path : List Name) (s n : Name),
      (∀ p ∈ path, Plus hooks groups p s) →
      expand hooks groups fuel path s = .error (.cycle n) →
      Star hooks groups s n ∧ Plus hooks groups n n := by
  intro fuel
  induction fuel with
  | zero =>
    intro path s n _ h
    rw [expand] at h
    cases h
  | succ k ih =>
    intro path s n hpath h
    rw [expand_succ] at h
    cases hh : findHook hooks s with
    | some x => rw [hh] at h; cases h
    | none =>
      rw [hh] at h
      simp only at h
      cases hg : findGroup groups s with
      | none => rw [hg] at h; cases h
      | some g =>
        rw [hg] at h
        simp only at h
        by_cases hp : s ∈ path
        · simp only [hp, if_true] at h
          cases h
          exact ⟨.refl _, hpath s hp⟩
        · simp only [hp, if_false] at h
          obtain ⟨m, hm, hme⟩ := mapCat_error_mem h
          have hstep : Step hooks groups s m := ⟨hh, g, hg, hm⟩
          have := ih (s :: path) m n (by
            intro p hp'
            rcases List.mem_cons.mp hp' with rfl | hp'
            · exact ⟨m, hstep, .refl _⟩
            · exact plus_trans_star (hpath p hp') (star_single hstep)) hme
          exact ⟨.head hstep this.1, this.2⟩

/-! ### `expandB`: the code with its two limits -/

theorem mapCatB_congr {f g : Nat → Name → Except Err (List Hook × Nat)} (ns : List Name)
    (h : ∀ b, ∀ n ∈ ns, f b n = g b n) : ∀ b, mapCatB f ns b = mapCatB g ns b := by
  induction ns with
  | nil => intro b; rfl
  | cons a ns ih =>
    intro b
    simp only [mapCatB]
    rw [h b a (by simp)]
    cases g b a with
    | error e => rfl
    | ok res =>
      obtain ⟨hs, b'⟩ := res
      simp only
      rw [ih (fun b n hn => h b n (by simp [hn]))]

theorem mapCatB_error_mem {f : Nat → Name → Except Err (List Hook × Nat)} :
    ∀ (ns : List Name) (b : Nat) (e : Err), mapCatB f ns b = .error e → ∃ n ∈ ns, ∃ b', f b' n = .error e := by
  intro ns
  induction ns with
  | nil => intro b e h; simp [mapCatB] at h
  | cons a ns ih =>
    intro b e h
    simp only [mapCatB] at h
    cases ha : f b a with
    | error e' =>
      simp only [ha, Except.error.injEq] at h
      subst h; exact ⟨a, by simp, b, ha⟩
    | ok res =>
      obtain ⟨hs, b'⟩ := res
      simp only [ha] at h
      cases hm : mapCatB f ns b' with
      | error e' =>
        simp only [hm, Except.error.injEq] at h
        subst h
        obtain ⟨n, hn, hb⟩ := ih b' e' hm
        exact ⟨n, by simp [hn], hb⟩
      | ok res' => obtain ⟨rest, b''⟩ := res'; simp [hm] at h

/-- A successful member loop with the budget is the member loop of the denotation. -/
theorem mapCatB_ok_mapCat {f : Nat → Name → Except Err (List Hook × Nat)}
    {g : Name → Except Err (List Hook)} (hfg : ∀ b n r b', f b n = .ok (r, b') → g n = .ok r) :
    ∀ (ns : List Name) (b : Nat) (r : List Hook) (b' : Nat), mapCatB f ns b = .ok (r, b') →
      mapCat g ns = .ok r := by
  intro ns
  induction ns with
  | nil =>
    intro b r b' h
    simp only [mapCatB, Except.ok.injEq, Prod.mk.injEq] at h
    simp [mapCat, h.1]
  | cons a ns ih =>
    intro b r b' h
    simp only [mapCatB] at h
    cases ha : f b a with
    | error e => simp [ha] at h
    | ok res =>
      obtain ⟨hs, b₁⟩ := res
      simp only [ha] at h
      cases hm : mapCatB f ns b₁ with
      | error e => simp [hm] at h
      | ok res' =>
        obtain ⟨rest, b₂⟩ := res'
        simp only [hm, Except.ok.injEq, Prod.mk.injEq] at h
        simp only [mapCat, hfg b a hs b₁ ha, ih b₁ rest b₂ hm, h.1]

theorem expandB_succ (hooks : List Hook) (groups : List Group) (fuel : Nat) (path : List Name)
    (budget : Nat) (n : Name) :
    expandB hooks groups (fuel + 1) path budget n =
      match budget with
      | 0 => .error (.tooMany n)
      | budget + 1 =>
        match findHook hooks n with
        | some h => .ok ([h], budget)
        | none =>
          match findGroup groups n with
          | none => .error (.notFound n)
          | some g =>
            if n ∈ path then .error (.cycle n)
            else if path.length ≥ maxDepth then .error (.tooDeep n)
            else mapCatB (expandB hooks groups fuel (n :: path)) g.hooks budget := by
  rfl

/-- **Whatever the code accepts is what the name denotes**: same hooks as `expand`. -/
theorem expandB_ok_expand (hooks : List Hook) (groups : List Group) :
    ∀ (fuel : Nat) (path : List Name) (budget : Nat) (n : Name) (r : List Hook) (b' : Nat),
      expandB hooks groups fuel path budget n = .ok (r, b') → expand hooks groups fuel path n = .ok r := by
  intro fuel
  induction fuel with
  | zero => intro path budget n r b' h; simp [expandB] at h
  | succ k ih =>
    intro path budget n r b' h
    rw [expandB_succ] at h
    rw [expand_succ]
    cases budget with
    | zero => simp at h
    | succ budget =>
      simp only at h
      cases hh : findHook hooks n with
      | some x => simp only [hh, Except.ok.injEq, Prod.mk.injEq] at h; simp [h.1]
      | none =>
        simp only [hh] at h ⊢
        cases hg : findGroup groups n with
        | none => simp [hg] at h
        | some g =>
          simp only [hg] at h ⊢
          by_cases hp : n ∈ path
          · simp [hp] at h
          · simp only [hp, if_false] at h ⊢
            by_cases hd : path.length ≥ maxDepth
            · simp [hd] at h
            · simp only [hd, if_false] at h
              exact mapCatB_ok_mapCat (fun b m r₁ b₁ => ih (n :: path) b m r₁ b₁) _ _ _ _ h

/-- With enough fuel one more unit changes nothing. -/
theorem expandB_stable (hooks : List Hook) (groups : List Group) :
    ∀ (fuel : Nat) (path : List Name) (budget : Nat) (n : Name), PathInv groups path →
      groups.length + 1 ≤ fuel + path.length →
      expandB hooks groups (fuel + 1) path budget n = expandB hooks groups fuel path budget n := by
  intro fuel
  induction fuel with
  | zero =>
    intro path budget n hinv hlen
    have := hinv.length_le
    omega
  | succ k ih =>
    intro path budget n hinv hlen
    rw [expandB_succ hooks groups (k + 1), expandB_succ hooks groups k]
    cases budget with
    | zero => rfl
    | succ budget =>
      simp only
      cases findHook hooks n with
      | some h => rfl
      | none =>
        simp only
        cases hg : findGroup groups n with
        | none => rfl
        | some g =>
          simp only
          by_cases hp : n ∈ path
          · simp only [hp, if_true]
          · simp only [hp, if_false]
            by_cases hd : path.length ≥ maxDepth
            · simp only [hd, if_true]
            · simp only [hd, if_false]
              apply mapCatB_congr
              intro b m _
              apply ih (n :: path) b m (hinv.cons hp hg)
              simp only [List.length_cons]
              omega

theorem expandB_stable_add (hooks : List Hook) (groups : List Group) (fuel : Nat) (path : List Name)
    (budget : Nat) (n : Name) (hinv : PathInv groups path) (hlen : groups.length + 1 ≤ fuel + path.length)
    (k : Nat) : expandB hooks groups (fuel + k) path budget n = expandB hooks groups fuel path budget n := by
  induction k with
  | zero => rfl
  | succ k ih =>
    rw [← Nat.add_assoc, expandB_stable hooks groups (fuel + k) path budget n hinv (by omega), ih]

/-- With enough fuel the `fuel` error never comes out. -/
theorem expandB_no_fuel_error (hooks : List Hook) (groups : List Group) :
    ∀ (fuel : Nat) (path : List Name) (budget : Nat) (n : Name), PathInv groups path →
      groups.length + 1 ≤ fuel + path.length →
      expandB hooks groups fuel path budget n ≠ .error .fuel := by
  intro fuel
  induction fuel with
  | zero =>
    intro path budget n hinv hlen
    have := hinv.length_le
    omega
  | succ k ih =>
    intro path budget n hinv hlen
    rw [expandB_succ]
    cases budget with
    | zero => intro h'; cases h'
    | succ budget =>
      simp only
      cases findHook hooks n with
      | some h => intro h'; cases h'
      | none =>
        simp only
        cases hg : findGroup groups n with
        | none => intro h'; cases h'
        | some g =>
          simp only
          by_cases hp : n ∈ path
          · simp only [hp, if_true]; intro h'; cases h'
          · simp only [hp, if_false]
            by_cases hd : path.length ≥ maxDepth
            · simp only [hd, if_true]; intro h'; cases h'
            · simp only [hd, if_false]
              intro h'
              obtain ⟨m, _, b', hm⟩ := mapCatB_error_mem _ _ _ h'
              exact ih (n :: path) b' m (hinv.cons hp hg) (by simp only [List.length_cons]; omega) hm

/-- The `cycle` error of the code is only raised for a real cycle. -/
theorem expandB_cycle_error_sound {hooks : List Hook} {groups : List Group} :
    ∀ (fuel : Nat) (path : List Name) (budget : Nat) (s n : Name),
      (∀ p ∈ path, Plus hooks groups p s) →
      expandB hooks groups fuel path budget s = .error (.cycle n) →
      Star hooks groups s n ∧ Plus hooks groups n n := by
  intro fuel
  induction fuel with
  | zero => intro path budget s n _ h; simp [expandB] at h
  | succ k ih =>
    intro path budget s n hpath h
    rw [expandB_succ] at h
    cases budget with
    | zero => simp at h
    | succ budget =>
      simp only at h
      cases hh : findHook hooks s with
      | some x => rw [hh] at h; cases h
      | none =>
        rw [hh] at h
        simp only at h
        cases hg : findGroup groups s with
        | none => rw [hg] at h; cases h
        | some g =>
          rw [hg] at h
          simp only at h
          by_cases hp : s ∈ path
          · simp only [hp, if_true] at h
            cases h
            exact ⟨.refl _, hpath s hp⟩
          · simp only [hp, if_false] at h
            by_cases hd : path.length ≥ maxDepth
            · simp only [hd, if_true] at h; cases h
            · simp only [hd, if_false] at h
              obtain ⟨m, hm, b', hme⟩ := mapCatB_error_mem _ _ _ h
              have hstep : Step hooks groups s m := ⟨hh, g, hg, hm⟩
              have := ih (s :: path) b' m n (by
                intro p hp'
                rcases List.mem_cons.mp hp' with rfl | hp'
                · exact ⟨m, hstep, .refl _⟩
                · exact plus_trans_star (hpath p hp') (star_single hstep)) hme
              exact ⟨.head hstep this.1, this.2⟩

theorem dropBudget_ok {x : Except Err (List Hook × Nat)} {r : List Hook} (h : dropBudget x = .ok r) :
    ∃ b, x = .ok (r, b) := by
  cases x with
  | error e => simp [dropBudget] at h
  | ok res => obtain ⟨r', b⟩ := res; simp only [dropBudget, Except.ok.injEq] at h; subst h; exact ⟨b, rfl⟩

theorem dropBudget_error {x : Except Err (List Hook × Nat)} {e : Err} (h : dropBudget x = .error e) :
    x = .error e := by
  cases x with
  | error e' => simp only [dropBudget, Except.error.injEq] at h; rw [h]
  | ok res => obtain ⟨r', b⟩ := res; simp [dropBudget] at h

/-- Whatever `Config::get_hook` accepts is what the name denotes. -/
theorem getHookFuel_ok_expand {hooks : List Hook} {groups : List Group} {fuel : Nat} {n : Name}
    {r : List Hook} (h : getHookFuel hooks groups fuel n = .ok r) : expand hooks groups fuel [] n = .ok r := by
  obtain ⟨b, hb⟩ := dropBudget_ok h
  exact expandB_ok_expand hooks groups fuel [] _ n r b hb

/-! ### `call` -/

theorem call_cons_skip {h : Hook} {ty : HookType} (ht : h.hasType ty = false) (hs : List Hook)
    (ex : List Exit) : call (h :: hs) ty ex = call hs ty ex := by
  simp only [call, ht, Bool.false_eq_true, if_false]

theorem call_cons_hard {h : Hook} {ty : HookType} {ex : List Exit} (ht : h.hasType ty = true)
    (hh : (ex.headD .ok).hard h.allowFailure = true) (hs : List Hook) :
    call (h :: hs) ty ex = ([(h, ex.headD .ok)], false, ex.tail) := by
  simp only [call, ht, hh, if_true]

theorem call_cons_soft {h : Hook} {ty : HookType} {ex : List Exit} (ht : h.hasType ty = true)
    (hh : (ex.headD .ok).hard h.allowFailure = false) (hs : List Hook) :
    call (h :: hs) ty ex =
      ((h, ex.headD .ok) :: (call hs ty ex.tail).1, (call hs ty ex.tail).2.1,
        (call hs ty ex.tail).2.2) := by
  simp only [call, ht, hh, if_true, Bool.false_eq_true, if_false]

theorem call_fst (hooks : List Hook) (ty : HookType) (ex : List Exit) :
    (call hooks ty ex).1 = expectedRun hooks ty ex := by
  unfold expectedRun
  induction hooks generalizing ex with
  | nil => rfl
  | cons h hs ih =>
    cases ht : h.hasType ty with
    | false =>
      rw [call_cons_skip ht, ih]
      simp only [List.filter_cons, ht, Bool.false_eq_true, if_false]
    | true =>
      simp only [List.filter_cons, ht, if_true, zipExits, uptoHard]
      cases hh : (ex.headD Exit.ok).hard h.allowFailure with
      | true => rw [call_cons_hard ht hh]; simp only [if_true]
      | false => rw [call_cons_soft ht hh, ih]; simp only [Bool.false_eq_true, if_false]

theorem call_ok (hooks : List Hook) (ty : HookType) (ex : List Exit) :
    (call hooks ty ex).2.1 = noHard (call hooks ty ex).1 := by
  induction hooks generalizing ex with
  | nil => rfl
  | cons h hs ih =>
    cases ht : h.hasType ty with
    | false => rw [call_cons_skip ht, ih]
    | true =>
      cases hh : (ex.headD Exit.ok).hard h.allowFailure with
      | true =>
        rw [call_cons_hard ht hh]
        simp only [noHard, List.all_cons, hh, Bool.not_true, Bool.false_and]
      | false =>
        rw [call_cons_soft ht hh]
        simp only [noHard, List.all_cons, hh, Bool.not_false, Bool.true_and]
        exact ih _

theorem call_rest (hooks : List Hook) (ty : HookType) (ex : List Exit) :
    (call hooks ty ex).2.2 = ex.drop (call hooks ty ex).1.length := by
  induction hooks generalizing ex with
  | nil => rfl
  | cons h hs ih =>
    cases ht : h.hasType ty with
    | false => rw [call_cons_skip ht, ih]
    | true =>
      cases hh : (ex.headD Exit.ok).hard h.allowFailure with
      | true =>
        rw [call_cons_hard ht hh]
        cases ex <;> rfl
      | false =>
        rw [call_cons_soft ht hh]
        simp only [List.length_cons, ih]
        cases ex with
        | nil => simp
        | cons e es => simp

theorem uptoHard_prefix (l : List (Hook × Exit)) : uptoHard l <+: l := by
  induction l with
  | nil => exact List.prefix_refl _
  | cons p ps ih =>
    simp only [uptoHard]
    by_cases hh : p.2.hard p.1.allowFailure = true
    · simp only [hh, if_true]
      exact ⟨ps, rfl⟩
    · simp only [hh]
      simp only [Bool.false_eq_true, if_false]
      exact (List.prefix_cons_inj p).mpr ih

/-- Everything but the last entry of `uptoHard l` is not a hard failure. -/
theorem uptoHard_init (l : List (Hook × Exit)) :
    ∀ i (h : i + 1 < (uptoHard l).length),
      ((uptoHard l)[i]'(by omega)).2.hard ((uptoHard l)[i]'(by omega)).1.allowFailure = false := by
  induction l with
  | nil => intro i h; simp [uptoHard] at h
  | cons p ps ih =>
    intro i h
    by_cases hh : p.2.hard p.1.allowFailure = true
    · simp only [uptoHard, hh, if_true, List.length_cons, List.length_nil] at h
      omega
    · have e : uptoHard (p :: ps) = p :: uptoHard ps := by
        simp only [uptoHard, hh]
        simp only [Bool.false_eq_true, if_false]
      cases i with
      | zero =>
        simp only [e, List.getElem_cons_zero]
        simpa using hh
      | succ j =>
        simp only [e, List.getElem_cons_succ]
        apply ih
        simp only [e, List.length_cons] at h
        omega

/-- `uptoHard l` is all of `l` exactly when it contains no hard failure; otherwise its last entry is
the first hard failure. -/
theorem uptoHard_noHard (l : List (Hook × Exit)) :
    (noHard (uptoHard l) = true → uptoHard l = l) ∧
    (noHard (uptoHard l) = false →
      ∃ p, (uptoHard l).getLast? = some p ∧ p.2.hard p.1.allowFailure = true) := by
  induction l with
  | nil => simp [uptoHard, noHard]
  | cons p ps ih =>
    by_cases hh : p.2.hard p.1.allowFailure = true
    · simp [uptoHard, hh, noHard]
    · have e : uptoHard (p :: ps) = p :: uptoHard ps := by
        simp only [uptoHard, hh]
        simp only [Bool.false_eq_true, if_false]
      have hn : noHard (p :: uptoHard ps) = noHard (uptoHard ps) := by
        simp only [noHard, List.all_cons]
        simp [hh]
      rw [e, hn]
      constructor
      · intro h
        rw [ih.1 h]
      · intro h
        obtain ⟨q, hq, hqh⟩ := ih.2 h
        refine ⟨q, ?_, hqh⟩
        cases hu : uptoHard ps with
        | nil => rw [hu] at hq; simp at hq
        | cons a b =>
          rw [hu] at hq
          simp only [List.getLast?_cons_cons]
          exact hq

theorem zipExits_map_fst (hs : List Hook) (ex : List Exit) : (zipExits hs ex).map Prod.fst = hs := by
  induction hs generalizing ex with
  | nil => rfl
  | cons h hs ih => simp [zipExits, ih]

theorem zipExits_snd (hs : List Hook) (ex : List Exit) :
    ∀ i (h : i < (zipExits hs ex).length), ((zipExits hs ex)[i]).2 = ex.getD i .ok := by
  induction hs generalizing ex with
  | nil => intro i h; simp [zipExits] at h
  | cons a hs ih =>
    intro i h
    cases i with
    | zero => cases ex <;> simp [zipExits]
    | succ j =>
      simp only [zipExits, List.getElem_cons_succ]
      rw [ih]
      cases ex <;> simp

theorem call_filter (p : Hook → Bool) (hooks : List Hook) (ty : HookType) (ex : List Exit)
    (hp : ∀ h ∈ hooks, h.hasType ty = true → p h = true) :
    call (hooks.filter p) ty ex = call hooks ty ex := by
  induction hooks generalizing ex with
  | nil => rfl
  | cons h hs ih =>
    have ih' := fun ex => ih ex (fun x hx => hp x (List.mem_cons_of_mem _ hx))
    cases ht : h.hasType ty with
    | true =>
      have : p h = true := hp h (List.mem_cons_self ..) ht
      simp only [List.filter_cons, this, if_true, call, ht, ih']
    | false =>
      rw [call_cons_skip ht]
      cases hph : p h with
      | true =>
        simp only [List.filter_cons, hph, if_true]
        rw [call_cons_skip ht, ih']
      | false =>
        simp only [List.filter_cons, hph, Bool.false_eq_true, if_false]
        exact ih' ex

theorem intersects_of_hasType {h : Hook} {ty : HookType} {set : List HookType}
    (hty : ty ∈ set) (ht : h.hasType ty = true) : h.intersects set = true := by
  simp only [Hook.hasType, List.contains_iff_mem] at ht
  simp only [Hook.intersects, List.any_eq_true]
  exact ⟨ty, ht, by simpa using hty⟩

/-! ### `callTrace` -/

theorem callTrace_eq (hooks : List Hook) (ty : HookType) (ex : List Exit) :
    callTrace hooks ty ex = ((call hooks ty ex).1.map fun p => singleTrace p.1 p.2).flatten := by
  induction hooks generalizing ex with
  | nil => rfl
  | cons h hs ih =>
    cases ht : h.hasType ty with
    | false =>
      rw [call_cons_skip ht, ← ih]
      simp only [callTrace, ht, Bool.false_eq_true, if_false]
    | true =>
      cases hh : (ex.headD Exit.ok).hard h.allowFailure with
      | true =>
        rw [call_cons_hard ht hh]
        simp only [callTrace, ht, hh, if_true, List.map_cons, List.map_nil, List.flatten_cons,
          List.flatten_nil, List.append_nil]
      | false =>
        rw [call_cons_soft ht hh]
        simp only [callTrace, ht, hh, if_true, Bool.false_eq_true, if_false, List.map_cons,
          List.flatten_cons, ih]

theorem singleTrace_soft {h : Hook} {e : Exit} (hh : e.hard h.allowFailure = false) :
    singleTrace h e = [.start h.name, .finish h.name e] := by
  cases e <;> simp_all [Exit.hard, singleTrace, Exit.awaited]

theorem alternates_single (h : Hook) (e : Exit) : alternates (singleTrace h e) = true := by
  cases e <;> simp [singleTrace, Exit.awaited, Exit.spawned, alternates]

theorem alternates_callTrace (hooks : List Hook) (ty : HookType) (ex : List Exit) :
    alternates (callTrace hooks ty ex) = true := by
  induction hooks generalizing ex with
  | nil => rfl
  | cons h hs ih =>
    simp only [callTrace]
    by_cases ht : h.hasType ty = true
    · simp only [ht, if_true]
      by_cases hh : (ex.headD Exit.ok).hard h.allowFailure = true
      · simp only [hh, if_true]
        exact alternates_single _ _
      · simp only [hh]
        simp only [Bool.false_eq_true, if_false]
        rw [singleTrace_soft (by simpa using hh)]
        simp [alternates, ih]
    · simp only [ht]
      simp only [Bool.false_eq_true, if_false, ih]

theorem noAdjacentStarts_of_alternates :
    ∀ (l : List ProcEvent), alternates l = true → noAdjacentStarts l = true
  | [], _ => rfl
  | [_], _ => rfl
  | .start _ :: .start _ :: _, h => by simp [alternates] at h
  | .finish _ _ :: _ :: _, h => by simp [alternates] at h
  | .start n :: .finish m e :: rest, h => by
    simp only [alternates, Bool.and_eq_true] at h
    have ih := noAdjacentStarts_of_alternates rest h.2
    cases rest with
    | nil => simp [noAdjacentStarts, ProcEvent.isStart]
    | cons a r =>
      simp only [noAdjacentStarts, ProcEvent.isStart, Bool.and_false, Bool.not_false, Bool.true_and,
        Bool.false_and]
      exact ih

/-! ### Environment -/

theorem orElse_none_left (b : Option Val) : orElse none b = b := rfl
theorem orElse_none_right (a : Option Val) : orElse a none = a := by cases a <;> rfl
theorem orElse_assoc (a b c : Option Val) : orElse (orElse a b) c = orElse a (orElse b c) := by
  cases a <;> rfl
theorem orElse_idem_right (a b : Option Val) : orElse (orElse a b) b = orElse a b := by
  cases a <;> cases b <;> rfl

theorem lookup_filter_ne (e : Env) (k k' : Key) :
    lookup (e.filter fun p => !decide (p.1 = k)) k' = if k = k' then none else lookup e k' := by
  induction e with
  | nil => simp [lookup]
  | cons p r ih =>
    obtain ⟨pk, pv⟩ := p
    by_cases h1 : pk = k
    · subst h1
      simp only [List.filter_cons, decide_true, Bool.not_true, Bool.false_eq_true, if_false, ih,
        lookup]
      by_cases h2 : pk = k' <;> simp [h2]
    · simp only [List.filter_cons, h1, decide_false, Bool.not_false, if_true, lookup, ih]
      by_cases h2 : pk = k'
      · subst h2
        simp [Ne.symm h1]
      · simp [h2]

theorem lookup_insert (e : Env) (k : Key) (v : Val) (k' : Key) :
    lookup (insert e k v) k' = if k = k' then some v else lookup e k' := by
  simp only [insert, lookup, lookup_filter_ne]
  by_cases h : k = k' <;> simp [h]

theorem lookup_insertIfAbsent (e : Env) (k : Key) (v : Val) (k' : Key) :
    lookup (insertIfAbsent e k v) k' = orElse (lookup e k') (if k = k' then some v else none) := by
  unfold insertIfAbsent
  cases h : lookup e k with
  | some w =>
    simp only
    by_cases hk : k = k'
    · subst hk; simp [h, orElse]
    · simp [hk, orElse_none_right]
  | none =>
    simp only [lookup_insert]
    by_cases hk : k = k'
    · subst hk; simp [h, orElse]
    · simp [hk, orElse_none_right]

theorem lookup_insertAll (acc level : Env) (k : Key) :
    lookup (insertAll acc level) k = orElse (lookup level k) (lookup acc k) := by
  induction level with
  | nil => rfl
  | cons p r ih =>
    obtain ⟨pk, pv⟩ := p
    have : insertAll acc ((pk, pv) :: r) = insert (insertAll acc r) pk pv := rfl
    rw [this, lookup_insert, ih]
    by_cases h : pk = k <;> simp [h, lookup, orElse]

theorem lookup_foldl_absent (proc acc : Env) (k : Key) :
    lookup (proc.foldl (fun a p => insertIfAbsent a p.1 p.2) acc) k =
      orElse (lookup acc k) (lookup proc k) := by
  induction proc generalizing acc with
  | nil => simp [lookup, orElse_none_right]
  | cons p r ih =>
    obtain ⟨pk, pv⟩ := p
    simp only [List.foldl_cons, ih, lookup_insertIfAbsent, lookup]
    by_cases h : pk = k
    · simp only [h, if_true]
      cases lookup acc k <;> simp [orElse]
    · simp only [h, if_false, orElse_none_right]

theorem lookup_foldl_insert_absent (proc acc : Env) (k : Key) (hk : lookup proc k = none) :
    lookup (proc.foldl (fun a p => insert a p.1 p.2) acc) k = lookup acc k := by
  induction proc generalizing acc with
  | nil => rfl
  | cons p r ih =>
    obtain ⟨pk, pv⟩ := p
    simp only [lookup] at hk
    by_cases h : pk = k
    · simp [h] at hk
    · simp only [h, if_false] at hk
      simp only [List.foldl_cons, ih _ hk, lookup_insert, h, if_false]

theorem lookup_append (a b : Env) (k : Key) :
    lookup (a ++ b) k = orElse (lookup a k) (lookup b k) := by
  induction a with
  | nil => rfl
  | cons p r ih =>
    obtain ⟨pk, pv⟩ := p
    simp only [List.cons_append, lookup, ih]
    by_cases h : pk = k <;> simp [h, orElse]

theorem lookup_setEnv_repaired (proc acc level : Env) (k : Key) :
    lookup (setEnv .repaired proc acc level) k =
      orElse (lookup level k) (orElse (lookup acc k) (lookup proc k)) := by
  simp only [setEnv, lookup_insertAll, lookup_foldl_absent]

theorem lookup_setEnv_old_absent (proc acc level : Env) (k : Key) (hk : lookup proc k = none) :
    lookup (setEnv .old proc acc level) k = orElse (lookup level k) (lookup acc k) := by
  simp only [setEnv, lookup_insertAll, lookup_foldl_insert_absent _ _ _ hk]

theorem lookup_dispatchGlobal (global cert : Env) (k : Key) :
    lookup (dispatchGlobal global cert) k = orElse (lookup cert k) (lookup global k) :=
  lookup_insertAll global cert k

/-! ### Authorization fragment -/

theorem challengePhase_events_not_clean (mode : EnvMode) (proc certEnv : Env) (hooks : List Hook) :
    ∀ (chals : List ChallengeIn) (pushed : List (ChallengeData × HookType)) (ex : List Exit),
      ∀ e ∈ (challengePhase mode proc certEnv hooks chals pushed ex).events, isCleanCall e = false := by
  intro chals
  induction chals with
  | nil => intro pushed ex e he; simp [challengePhase] at he
  | cons c cs ih =>
    intro pushed ex e he
    simp only [challengePhase] at he
    by_cases h1 : (call hooks c.kind.hookTypes.1 ex).2.1 = true
    · simp only [h1, if_true] at he
      by_cases h2 : c.postOk = true
      · simp only [h2, if_true, List.mem_cons] at he
        rcases he with rfl | rfl | he
        · rfl
        · rfl
        · exact ih _ _ e he
      · simp only [h2] at he
        simp only [Bool.false_eq_true, if_false, List.mem_cons, List.not_mem_nil, or_false] at he
        rcases he with rfl | rfl <;> rfl
    · simp only [h1] at he
      simp only [Bool.false_eq_true, if_false, List.mem_cons, List.not_mem_nil, or_false] at he
      subst he
      rfl

/-- Success of the challenge phase: every challenge had its hooks run without hard failure, was
pushed (marked clean) and POSTed, in order. -/
theorem challengePhase_ok (mode : EnvMode) (proc certEnv : Env) (hooks : List Hook) :
    ∀ (chals : List ChallengeIn) (pushed : List (ChallengeData × HookType)) (ex : List Exit),
      (challengePhase mode proc certEnv hooks chals pushed ex).ok = true →
      (challengePhase mode proc certEnv hooks chals pushed ex).pushed =
          pushed ++ chals.map (cleanEntry mode proc certEnv) ∧
      ∃ rans : List (List (Hook × Exit)), rans.length = chals.length ∧
        (∀ ran ∈ rans, noHard ran = true) ∧
        (challengePhase mode proc certEnv hooks chals pushed ex).events =
          okEvents mode proc certEnv chals rans := by
  intro chals
  induction chals with
  | nil =>
    intro pushed ex _
    exact ⟨by simp [challengePhase], [], rfl, by simp, rfl⟩
  | cons c cs ih =>
    intro pushed ex hok
    simp only [challengePhase] at hok ⊢
    by_cases h1 : (call hooks c.kind.hookTypes.1 ex).2.1 = true
    · simp only [h1, if_true] at hok ⊢
      by_cases h2 : c.postOk = true
      · simp only [h2, if_true] at hok ⊢
        obtain ⟨hp, rans, hlen, hno, hev⟩ := ih _ _ hok
        refine ⟨by simp [hp, cleanEntry], (call hooks c.kind.hookTypes.1 ex).1 :: rans,
          by simp [hlen], ?_, by simp [okEvents, hev]⟩
        intro ran hr
        rcases List.mem_cons.mp hr with rfl | hr
        · rw [← call_ok]; exact h1
        · exact hno ran hr
      · simp only [h2] at hok
        simp at hok
    · simp only [h1] at hok
      simp at hok

/-- Whatever happens, what has been pushed is the clean entries of a prefix of the challenges, and
there is exactly one POST per pushed entry. -/
theorem challengePhase_pushed (mode : EnvMode) (proc certEnv : Env) (hooks : List Hook) :
    ∀ (chals : List ChallengeIn) (pushed : List (ChallengeData × HookType)) (ex : List Exit),
      ∃ k, k ≤ chals.length ∧
        (challengePhase mode proc certEnv hooks chals pushed ex).pushed =
          pushed ++ (chals.take k).map (cleanEntry mode proc certEnv) ∧
        ((challengePhase mode proc certEnv hooks chals pushed ex).events.filterMap fun e =>
            match e with
            | .post d => some d
            | _ => none) = (chals.take k).map (mkChallengeData mode proc certEnv) := by
  intro chals
  induction chals with
  | nil => intro pushed ex; exact ⟨0, by simp, by simp [challengePhase], by simp [challengePhase]⟩
  | cons c cs ih =>
    intro pushed ex
    simp only [challengePhase]
    by_cases h1 : (call hooks c.kind.hookTypes.1 ex).2.1 = true
    · simp only [h1, if_true]
      by_cases h2 : c.postOk = true
      · simp only [h2, if_true]
        obtain ⟨k, hk, hp, he⟩ := ih (pushed ++ [(markClean (mkChallengeData mode proc certEnv c),
          c.kind.hookTypes.2)]) (call hooks c.kind.hookTypes.1 ex).2.2
        refine ⟨k + 1, by simp [hk], by simp [hp, cleanEntry], ?_⟩
        simp [he]
      · simp only [h2]
        refine ⟨1, by simp, by simp [cleanEntry], by simp⟩
    · simp only [h1]
      exact ⟨0, by simp, by simp, by simp⟩

/-- The clean phase calls the clean type of each collected datum with that very datum, in order, up
to the first failing call. -/
theorem cleanPhase_events (hooks : List Hook) :
    ∀ (pushed : List (ChallengeData × HookType)) (ex : List Exit),
      ∃ rans : List (List (Hook × Exit)), rans.length ≤ pushed.length ∧
        ((cleanPhase hooks pushed ex).2.1 = true → rans.length = pushed.length) ∧
        (1 ≤ pushed.length → 1 ≤ rans.length) ∧
        (cleanPhase hooks pushed ex).1 = cleanEvents pushed rans := by
  intro pushed
  induction pushed with
  | nil => intro ex; exact ⟨[], by simp, by simp, by simp, rfl⟩
  | cons p ps ih =>
    intro ex
    obtain ⟨d, ty⟩ := p
    simp only [cleanPhase]
    by_cases h1 : (call hooks ty ex).2.1 = true
    · simp only [h1, if_true]
      obtain ⟨rans, hlen, hok, _, hev⟩ := ih (call hooks ty ex).2.2
      exact ⟨(call hooks ty ex).1 :: rans, by simp [hlen], by intro h; simp [hok h], by simp,
        by simp [cleanEvents, hev]⟩
    · simp only [h1]
      exact ⟨[(call hooks ty ex).1], by simp, by simp, by simp, by simp [cleanEvents]⟩

end AcmedVerif.Hooks
