/-
Lemmas about `Model/Base64.lean`.
-/
import AcmedVerif.Model.Base64

namespace AcmedVerif.Base64

/-! ## alphabet facts (finite checks) -/

theorem urlVal_urlChar : ∀ n, n < 64 → urlVal (urlChar n) = some n := by decide
theorem urlChar_ne_eq : ∀ n, n < 64 → (urlChar n == '=') = false := by decide
theorem stdChar_ne_eq : ∀ n, n < 64 → (stdChar n == '=') = false := by decide
theorem stdChar_ne_nl : ∀ n, n < 64 → stdChar n ≠ '\n' := by decide
theorem stdChar_ne_dash : ∀ n, n < 64 → stdChar n ≠ '-' := by decide

/-- Explicit description of `[A-Za-z0-9_-]`. -/
def InUrlAlphabet (c : Char) : Prop :=
  (65 ≤ c.toNat ∧ c.toNat ≤ 90) ∨ (97 ≤ c.toNat ∧ c.toNat ≤ 122) ∨ (48 ≤ c.toNat ∧ c.toNat ≤ 57)
    ∨ c = '-' ∨ c = '_'

instance (c : Char) : Decidable (InUrlAlphabet c) := by unfold InUrlAlphabet; infer_instance

theorem urlChar_inAlphabet : ∀ n, n < 64 → InUrlAlphabet (urlChar n) := by decide

theorem inUrlAlphabet_iff (c : Char) : InUrlAlphabet c ↔ isUrlChar c = true := by
  unfold InUrlAlphabet isUrlChar urlVal
  simp only
  split
  · simp_all
  · split
    · simp_all
    · split
      · simp_all
      · split
        · simp_all
        · split
          · simp_all
          · simp_all

/-- A character of the standard alphabet (not the padding character). -/
def IsStd (c : Char) : Prop := ∃ n, n < 64 ∧ c = stdChar n

theorem IsStd.ne_eq {c : Char} (h : IsStd c) : (c == '=') = false := by
  obtain ⟨n, hn, rfl⟩ := h; exact stdChar_ne_eq n hn

theorem IsStd.tr_ne_eq {c : Char} (h : IsStd c) : (trChar c == '=') = false := by
  obtain ⟨n, hn, rfl⟩ := h; exact urlChar_ne_eq n hn

/-! ## `dropEndWhile` -/

theorem dropEndWhile_cons_of_not {p : Char → Bool} {c : Char} (cs : List Char) (h : p c = false) :
    dropEndWhile p (c :: cs) = c :: dropEndWhile p cs := by
  rw [dropEndWhile]
  split
  · next heq => simp [h, heq]
  · rfl

theorem dropEndWhile_all {p : Char → Bool} (l : List Char) (h : ∀ c ∈ l, p c = true) :
    dropEndWhile p l = [] := by
  induction l with
  | nil => rfl
  | cons c cs ih =>
    rw [dropEndWhile, ih (fun x hx => h x (List.mem_cons_of_mem _ hx))]
    simp [h c List.mem_cons_self]

theorem dropEndWhile_append_all {p : Char → Bool} (b s : List Char) (h : ∀ c ∈ s, p c = true) :
    dropEndWhile p (b ++ s) = dropEndWhile p b := by
  induction b with
  | nil => rw [List.nil_append, dropEndWhile_all s h]; rfl
  | cons c cs ih => simp only [List.cons_append, dropEndWhile, ih]

theorem dropEndWhile_none {p : Char → Bool} (l : List Char) (h : ∀ c ∈ l, p c = false) :
    dropEndWhile p l = l := by
  induction l with
  | nil => rfl
  | cons c cs ih =>
    rw [dropEndWhile_cons_of_not cs (h c List.mem_cons_self),
      ih (fun x hx => h x (List.mem_cons_of_mem _ hx))]

theorem dropEndWhile_append_of_none {p : Char → Bool} (a b : List Char)
    (h : ∀ c ∈ a, p c = false) : dropEndWhile p (a ++ b) = a ++ dropEndWhile p b := by
  induction a with
  | nil => rfl
  | cons c cs ih =>
    rw [List.cons_append, dropEndWhile_cons_of_not _ (h c List.mem_cons_self),
      ih (fun x hx => h x (List.mem_cons_of_mem _ hx)), List.cons_append]

/-! ## `encodeUrl` is the group-by-group encoder -/

theorem trChar_pad : trChar '=' = '=' := by decide

theorem trimEndEq_cons_of_ne {c : Char} (cs : List Char) (h : (c == '=') = false) :
    trimEndEq (c :: cs) = c :: trimEndEq cs :=
  dropEndWhile_cons_of_not (p := fun c => c == '=') cs h

theorem trimEndEq_pad2 : trimEndEq ['=', '='] = [] := by decide
theorem trimEndEq_pad1 : trimEndEq ['='] = [] := by decide

theorem encodeUrl_eq_direct (bs : List UInt8) : encodeUrl bs = encodeUrlDirect bs := by
  unfold encodeUrl
  fun_induction encodeStd bs with
  | case1 => rfl
  | case2 a =>
    have h := UInt8.toNat_lt a
    have h0 := urlChar_ne_eq (a.toNat / 4) (by omega)
    have h1 := urlChar_ne_eq (a.toNat % 4 * 16) (by omega)
    simp only [urlChar] at h0 h1
    simp only [translate, List.map_cons, List.map_nil, trChar_pad, encodeUrlDirect, urlChar]
    rw [trimEndEq_cons_of_ne _ h0, trimEndEq_cons_of_ne _ h1, trimEndEq_pad2]
  | case3 a b =>
    have h := UInt8.toNat_lt a
    have h' := UInt8.toNat_lt b
    have h0 := urlChar_ne_eq (a.toNat / 4) (by omega)
    have h1 := urlChar_ne_eq (a.toNat % 4 * 16 + b.toNat / 16) (by omega)
    have h2 := urlChar_ne_eq (b.toNat % 16 * 4) (by omega)
    simp only [urlChar] at h0 h1 h2
    simp only [translate, List.map_cons, List.map_nil, trChar_pad, encodeUrlDirect, urlChar]
    rw [trimEndEq_cons_of_ne _ h0, trimEndEq_cons_of_ne _ h1, trimEndEq_cons_of_ne _ h2,
      trimEndEq_pad1]
  | case4 a b c rest ih =>
    have h := UInt8.toNat_lt a
    have h' := UInt8.toNat_lt b
    have h'' := UInt8.toNat_lt c
    have h0 := urlChar_ne_eq (a.toNat / 4) (by omega)
    have h1 := urlChar_ne_eq (a.toNat % 4 * 16 + b.toNat / 16) (by omega)
    have h2 := urlChar_ne_eq (b.toNat % 16 * 4 + c.toNat / 64) (by omega)
    have h3 := urlChar_ne_eq (c.toNat % 64) (by omega)
    simp only [urlChar] at h0 h1 h2 h3
    simp only [translate, List.map_cons, encodeUrlDirect, urlChar] at ih ⊢
    rw [trimEndEq_cons_of_ne _ h0, trimEndEq_cons_of_ne _ h1, trimEndEq_cons_of_ne _ h2,
      trimEndEq_cons_of_ne _ h3, ih]

/-! ## round trip, alphabet, length -/

theorem decodeUrl_encodeUrlDirect (bs : List UInt8) : decodeUrl (encodeUrlDirect bs) = some bs := by
  fun_induction encodeUrlDirect bs with
  | case1 => rfl
  | case2 a =>
    have h := UInt8.toNat_lt a
    simp only [decodeUrl, urlVal_urlChar _ (show a.toNat / 4 < 64 by omega),
      urlVal_urlChar _ (show a.toNat % 4 * 16 < 64 by omega)]
    rw [if_pos (by omega)]
    have : a.toNat / 4 * 4 + a.toNat % 4 * 16 / 16 = a.toNat := by omega
    rw [this, UInt8.ofNat_toNat]
  | case3 a b =>
    have h := UInt8.toNat_lt a
    have h' := UInt8.toNat_lt b
    simp only [decodeUrl, urlVal_urlChar _ (show a.toNat / 4 < 64 by omega),
      urlVal_urlChar _ (show a.toNat % 4 * 16 + b.toNat / 16 < 64 by omega),
      urlVal_urlChar _ (show b.toNat % 16 * 4 < 64 by omega)]
    rw [if_pos (by omega)]
    have e1 : a.toNat / 4 * 4 + (a.toNat % 4 * 16 + b.toNat / 16) / 16 = a.toNat := by omega
    have e2 : (a.toNat % 4 * 16 + b.toNat / 16) % 16 * 16 + b.toNat % 16 * 4 / 4 = b.toNat := by
      omega
    rw [e1, e2, UInt8.ofNat_toNat, UInt8.ofNat_toNat]
  | case4 a b c rest ih =>
    have h := UInt8.toNat_lt a
    have h' := UInt8.toNat_lt b
    have h'' := UInt8.toNat_lt c
    simp only [decodeUrl, urlVal_urlChar _ (show a.toNat / 4 < 64 by omega),
      urlVal_urlChar _ (show a.toNat % 4 * 16 + b.toNat / 16 < 64 by omega),
      urlVal_urlChar _ (show b.toNat % 16 * 4 + c.toNat / 64 < 64 by omega),
      urlVal_urlChar _ (show c.toNat % 64 < 64 by omega), ih]
    have e1 : a.toNat / 4 * 4 + (a.toNat % 4 * 16 + b.toNat / 16) / 16 = a.toNat := by omega
    have e2 : (a.toNat % 4 * 16 + b.toNat / 16) % 16 * 16 + (b.toNat % 16 * 4 + c.toNat / 64) / 4
        = b.toNat := by omega
    have e3 : (b.toNat % 16 * 4 + c.toNat / 64) % 4 * 64 + c.toNat % 64 = c.toNat := by omega
    rw [e1, e2, e3, UInt8.ofNat_toNat, UInt8.ofNat_toNat, UInt8.ofNat_toNat]

theorem encodeUrlDirect_alphabet (bs : List UInt8) :
    ∀ c ∈ encodeUrlDirect bs, ∃ n, n < 64 ∧ c = urlChar n := by
  fun_induction encodeUrlDirect bs with
  | case1 => intro c hc; cases hc
  | case2 a =>
    have h := UInt8.toNat_lt a
    intro c hc
    simp only [List.mem_cons, List.mem_nil_iff, or_false] at hc
    rcases hc with rfl | rfl
    · exact ⟨_, by omega, rfl⟩
    · exact ⟨_, by omega, rfl⟩
  | case3 a b =>
    have h := UInt8.toNat_lt a
    have h' := UInt8.toNat_lt b
    intro c hc
    simp only [List.mem_cons, List.mem_nil_iff, or_false] at hc
    rcases hc with rfl | rfl | rfl
    · exact ⟨_, by omega, rfl⟩
    · exact ⟨_, by omega, rfl⟩
    · exact ⟨_, by omega, rfl⟩
  | case4 a b c rest ih =>
    have h := UInt8.toNat_lt a
    have h' := UInt8.toNat_lt b
    have h'' := UInt8.toNat_lt c
    intro x hx
    simp only [List.mem_cons] at hx
    rcases hx with rfl | rfl | rfl | rfl | hx
    · exact ⟨_, by omega, rfl⟩
    · exact ⟨_, by omega, rfl⟩
    · exact ⟨_, by omega, rfl⟩
    · exact ⟨_, by omega, rfl⟩
    · exact ih x hx

theorem length_encodeUrlDirect (bs : List UInt8) :
    (encodeUrlDirect bs).length = (4 * bs.length + 2) / 3 := by
  fun_induction encodeUrlDirect bs with
  | case1 => rfl
  | case2 a => simp
  | case3 a b => simp
  | case4 a b c rest ih => simp only [List.length_cons, ih]; omega

theorem length_encodeStd (bs : List UInt8) :
    (encodeStd bs).length = 4 * ((bs.length + 2) / 3) := by
  fun_induction encodeStd bs with
  | case1 => rfl
  | case2 a => simp
  | case3 a b => simp
  | case4 a b c rest ih => simp only [List.length_cons, ih]; omega

/-! ## the strict decoder accepts canonical encodings only -/

theorem urlChar_toNat_upper : ∀ v, v < 26 → (urlChar v).toNat = 65 + v := by decide
theorem urlChar_toNat_lower : ∀ v, v < 52 → 26 ≤ v → (urlChar v).toNat = 71 + v := by decide
theorem urlChar_toNat_digit : ∀ v, v < 62 → 52 ≤ v → (urlChar v).toNat = v - 4 := by decide

theorem urlVal_some {c : Char} {v : Nat} (h : urlVal c = some v) : v < 64 ∧ urlChar v = c := by
  unfold urlVal at h
  simp only at h
  split at h
  · next hr =>
    cases h
    refine ⟨by omega, Char.toNat_inj.mp ?_⟩
    rw [urlChar_toNat_upper _ (by omega)]; omega
  · split at h
    · next hr =>
      cases h
      refine ⟨by omega, Char.toNat_inj.mp ?_⟩
      rw [urlChar_toNat_lower _ (by omega) (by omega)]; omega
    · split at h
      · next hr =>
        cases h
        refine ⟨by omega, Char.toNat_inj.mp ?_⟩
        rw [urlChar_toNat_digit _ (by omega) (by omega)]; omega
      · split at h
        · next hc => cases h; subst hc; decide
        · split at h
          · next hc => cases h; subst hc; decide
          · cases h

theorem toNat_ofNat_lt {n : Nat} (h : n < 256) : (UInt8.ofNat n).toNat = n := by
  rw [UInt8.toNat_ofNat']; omega

/-- Whatever `decodeUrl` accepts is the encoding of the result: no padding, no foreign character,
no length ≡ 1 (mod 4), no dangling bits. -/
theorem decodeUrl_canonical : ∀ (s : List Char) (bs : List UInt8),
    decodeUrl s = some bs → encodeUrlDirect bs = s
  | [], bs, h => by
    simp only [decodeUrl, Option.some.injEq] at h; subst h; rfl
  | [_], _, h => by simp [decodeUrl] at h
  | [c0, c1], bs, h => by
    simp only [decodeUrl] at h
    cases h0 : urlVal c0 with
    | none => simp [h0] at h
    | some v0 =>
      cases h1 : urlVal c1 with
      | none => simp [h0, h1] at h
      | some v1 =>
        simp only [h0, h1] at h
        split at h
        · next hz =>
          cases h
          obtain ⟨l0, e0⟩ := urlVal_some h0
          obtain ⟨l1, e1⟩ := urlVal_some h1
          simp only [encodeUrlDirect, toNat_ofNat_lt (show v0 * 4 + v1 / 16 < 256 by omega)]
          have a0 : (v0 * 4 + v1 / 16) / 4 = v0 := by omega
          have a1 : (v0 * 4 + v1 / 16) % 4 * 16 = v1 := by omega
          rw [a0, a1, e0, e1]
        · cases h
  | [c0, c1, c2], bs, h => by
    simp only [decodeUrl] at h
    cases h0 : urlVal c0 with
    | none => simp [h0] at h
    | some v0 =>
      cases h1 : urlVal c1 with
      | none => simp [h0, h1] at h
      | some v1 =>
        cases h2 : urlVal c2 with
        | none => simp [h0, h1, h2] at h
        | some v2 =>
          simp only [h0, h1, h2] at h
          split at h
          · next hz =>
            cases h
            obtain ⟨l0, e0⟩ := urlVal_some h0
            obtain ⟨l1, e1⟩ := urlVal_some h1
            obtain ⟨l2, e2⟩ := urlVal_some h2
            simp only [encodeUrlDirect, toNat_ofNat_lt (show v0 * 4 + v1 / 16 < 256 by omega),
              toNat_ofNat_lt (show v1 % 16 * 16 + v2 / 4 < 256 by omega)]
            have a0 : (v0 * 4 + v1 / 16) / 4 = v0 := by omega
            have a1 : (v0 * 4 + v1 / 16) % 4 * 16 + (v1 % 16 * 16 + v2 / 4) / 16 = v1 := by omega
            have a2 : (v1 % 16 * 16 + v2 / 4) % 16 * 4 = v2 := by omega
            rw [a0, a1, a2, e0, e1, e2]
          · cases h
  | c0 :: c1 :: c2 :: c3 :: rest, bs, h => by
    simp only [decodeUrl] at h
    cases h0 : urlVal c0 with
    | none => simp [h0] at h
    | some v0 =>
      cases h1 : urlVal c1 with
      | none => simp [h0, h1] at h
      | some v1 =>
        cases h2 : urlVal c2 with
        | none => simp [h0, h1, h2] at h
        | some v2 =>
          cases h3 : urlVal c3 with
          | none => simp [h0, h1, h2, h3] at h
          | some v3 =>
            cases hr : decodeUrl rest with
            | none => simp [h0, h1, h2, h3, hr] at h
            | some tl =>
              simp only [h0, h1, h2, h3, hr, Option.some.injEq] at h
              subst h
              have ih := decodeUrl_canonical rest tl hr
              obtain ⟨l0, e0⟩ := urlVal_some h0
              obtain ⟨l1, e1⟩ := urlVal_some h1
              obtain ⟨l2, e2⟩ := urlVal_some h2
              obtain ⟨l3, e3⟩ := urlVal_some h3
              simp only [encodeUrlDirect, toNat_ofNat_lt (show v0 * 4 + v1 / 16 < 256 by omega),
                toNat_ofNat_lt (show v1 % 16 * 16 + v2 / 4 < 256 by omega),
                toNat_ofNat_lt (show v2 % 4 * 64 + v3 < 256 by omega), ih]
              have a0 : (v0 * 4 + v1 / 16) / 4 = v0 := by omega
              have a1 : (v0 * 4 + v1 / 16) % 4 * 16 + (v1 % 16 * 16 + v2 / 4) / 16 = v1 := by
                omega
              have a2 : (v1 % 16 * 16 + v2 / 4) % 16 * 4 + (v2 % 4 * 64 + v3) / 64 = v2 := by
                omega
              have a3 : (v2 % 4 * 64 + v3) % 64 = v3 := by omega
              rw [a0, a1, a2, a3, e0, e1, e2, e3]

/-! ## compositionality on 3-byte boundaries -/

theorem encodeStd_append_aux (k : Nat) : ∀ xs ys : List UInt8, xs.length = 3 * k →
    encodeStd (xs ++ ys) = encodeStd xs ++ encodeStd ys := by
  induction k with
  | zero =>
    intro xs ys h
    have : xs = [] := List.eq_nil_of_length_eq_zero (by omega)
    subst this; rfl
  | succ k ih =>
    intro xs ys h
    match xs, h with
    | a :: b :: c :: xs', h =>
      have hl : xs'.length = 3 * k := by simp only [List.length_cons] at h; omega
      simp only [List.cons_append, encodeStd, ih xs' ys hl]

/-! ## shape of the padded encoding: standard characters, then 0–2 `=` -/

theorem encodeStd_shape (bs : List UInt8) :
    ∃ body k, encodeStd bs = body ++ List.replicate k '=' ∧ ∀ c ∈ body, IsStd c := by
  fun_induction encodeStd bs with
  | case1 => exact ⟨[], 0, rfl, fun _ h => by cases h⟩
  | case2 a =>
    have h := UInt8.toNat_lt a
    refine ⟨[stdChar (a.toNat / 4), stdChar (a.toNat % 4 * 16)], 2, rfl, ?_⟩
    intro c hc
    simp only [List.mem_cons, List.mem_nil_iff, or_false] at hc
    rcases hc with rfl | rfl
    · exact ⟨_, by omega, rfl⟩
    · exact ⟨_, by omega, rfl⟩
  | case3 a b =>
    have h := UInt8.toNat_lt a
    have h' := UInt8.toNat_lt b
    refine ⟨[stdChar (a.toNat / 4), stdChar (a.toNat % 4 * 16 + b.toNat / 16),
      stdChar (b.toNat % 16 * 4)], 1, rfl, ?_⟩
    intro c hc
    simp only [List.mem_cons, List.mem_nil_iff, or_false] at hc
    rcases hc with rfl | rfl | rfl
    · exact ⟨_, by omega, rfl⟩
    · exact ⟨_, by omega, rfl⟩
    · exact ⟨_, by omega, rfl⟩
  | case4 a b c rest ih =>
    have h := UInt8.toNat_lt a
    have h' := UInt8.toNat_lt b
    have h'' := UInt8.toNat_lt c
    obtain ⟨body, k, he, hb⟩ := ih
    refine ⟨stdChar (a.toNat / 4) :: stdChar (a.toNat % 4 * 16 + b.toNat / 16)
      :: stdChar (b.toNat % 16 * 4 + c.toNat / 64) :: stdChar (c.toNat % 64) :: body, k, ?_, ?_⟩
    · simp only [he, List.cons_append]
    · intro x hx
      simp only [List.mem_cons] at hx
      rcases hx with rfl | rfl | rfl | rfl | hx
      · exact ⟨_, by omega, rfl⟩
      · exact ⟨_, by omega, rfl⟩
      · exact ⟨_, by omega, rfl⟩
      · exact ⟨_, by omega, rfl⟩
      · exact hb x hx

theorem mem_replicate_pad {k : Nat} {c : Char} (h : c ∈ List.replicate k '=') : c = '=' :=
  (List.mem_replicate.mp h).2

/-- With the shape at hand, `encodeUrl` is the translated body. -/
theorem encodeUrl_of_shape {bs : List UInt8} {body : List Char} {k : Nat}
    (he : encodeStd bs = body ++ List.replicate k '=') (hb : ∀ c ∈ body, IsStd c) :
    encodeUrl bs = translate body := by
  unfold encodeUrl
  rw [he, translate, List.map_append, trimEndEq, dropEndWhile_append_all, dropEndWhile_none]
  · rfl
  · intro c hc
    obtain ⟨x, hx, rfl⟩ := List.mem_map.mp hc
    exact (hb x hx).tr_ne_eq
  · intro c hc
    obtain ⟨x, hx, rfl⟩ := List.mem_map.mp hc
    rw [mem_replicate_pad hx]; decide

/-! ## 64-column wrapping -/

theorem wrap64_eq {s : List Char} (h : s ≠ []) : wrap64 s = s.take 64 :: wrap64 (s.drop 64) := by
  cases s with
  | nil => exact absurd rfl h
  | cons c cs => rw [wrap64]; rfl

theorem wrap64_flatten (s : List Char) : (wrap64 s).flatten = s := by
  fun_induction wrap64 s with
  | case1 => rfl
  | case2 c cs ih =>
    rw [List.flatten_cons, ih, List.cons_append, List.take_append_drop]

theorem wrap64_mem (s : List Char) : ∀ l ∈ wrap64 s, l ≠ [] ∧ ∀ c ∈ l, c ∈ s := by
  fun_induction wrap64 s with
  | case1 => intro l hl; cases hl
  | case2 c cs ih =>
    intro l hl
    rcases List.mem_cons.mp hl with rfl | hl
    · refine ⟨by simp, ?_⟩
      intro x hx
      rcases List.mem_cons.mp hx with rfl | hx
      · exact List.mem_cons_self
      · exact List.mem_cons_of_mem _ (List.mem_of_mem_take hx)
    · obtain ⟨h1, h2⟩ := ih l hl
      exact ⟨h1, fun x hx => List.mem_cons_of_mem _ (List.mem_of_mem_drop (h2 x hx))⟩

/-- Stripping `=` at the end of every 64-column line gives the unpadded body: padding occurs only
at the very end of the whole text.  (Holds wherever the line breaks fall.) -/
theorem flatMap_trimEndEq_wrap64 (s : List Char) : ∀ (body : List Char) (k : Nat),
    s = body ++ List.replicate k '=' → (∀ c ∈ body, (c == '=') = false) →
    (wrap64 s).flatMap trimEndEq = body := by
  fun_induction wrap64 s with
  | case1 =>
    intro body k h _
    have : body = [] := (List.append_eq_nil_iff.mp h.symm).1
    subst this; rfl
  | case2 c cs ih =>
    intro body k h hb
    have ht : c :: cs.take 63 = (c :: cs).take 64 := rfl
    have hd : cs.drop 63 = (c :: cs).drop 64 := rfl
    rw [List.flatMap_cons, ht, hd]
    rw [hd] at ih
    rw [h] at ih ⊢
    rw [List.take_append, List.take_replicate, trimEndEq, dropEndWhile_append_all,
      dropEndWhile_none]
    · rw [ih (body.drop 64) (k - (64 - body.length))]
      · exact List.take_append_drop 64 body
      · rw [List.drop_append, List.drop_replicate]
      · intro x hx; exact hb x (List.mem_of_mem_drop hx)
    · intro x hx; exact hb x (List.mem_of_mem_take hx)
    · intro x hx; rw [mem_replicate_pad hx]; rfl

end AcmedVerif.Base64
