/-
Helper lemmas about `Model/Ident.lean`: the identifier list construction, the newOrder / CSR
views of it, the authorization lookup and the reverse names.
-/
import AcmedVerif.Model.Ident
import AcmedVerif.Lemmas.Idna

namespace AcmedVerif.Ident
open AcmedVerif.Idna

/-! ## `Identifier::new`, `get_identifiers` -/

theorem Identifier.new_ok (P : Params) (t : IdType) (value challenge : List Char) (env : Env)
    (id : Identifier) (h : Identifier.new P t value challenge env = .ok id) :
    id.idType = t ∧ normValue P t value = .ok id.value ∧ id.env = env ∧
    Challenge.ofStr P.lowerStr challenge = some id.challenge ∧
    id.challenge ∈ supportedChallenges t := by
  unfold Identifier.new at h
  split at h
  · rename_i e he
    -- `normValue` never puts `.ok` in its error slot
    exfalso
    subst h
    cases t <;> simp only [normValue] at he <;> split at he <;> simp at he
  · rename_i v hv
    split at h
    · exact absurd h (by simp)
    · rename_i c hc
      split at h
      · rename_i hs
        simp only [NewRes.ok.injEq] at h
        subst h
        exact ⟨rfl, hv, rfl, hc, by simpa using hs⟩
      · exact absurd h (by simp)

theorem RawId.toGeneric_ok (P : Params) (r : RawId) (id : Identifier)
    (h : r.toGeneric P = .ok id) :
    ∃ t v, r.typed = some (t, v) ∧ id.idType = t ∧ normValue P t v = .ok id.value ∧
      id.env = r.env ∧ Challenge.ofStr P.lowerStr r.challenge = some id.challenge ∧
      id.challenge ∈ supportedChallenges t := by
  unfold RawId.toGeneric at h
  split at h
  · exact absurd h (by simp)
  · rename_i t v htv
    obtain ⟨h1, h2, h3, h4, h5⟩ := Identifier.new_ok P t v r.challenge r.env id h
    exact ⟨t, v, htv, h1, h2, h3, h4, h5⟩

theorem mkIdentifiers_spec (P : Params) (raws : List RawId) :
    ∀ ids, mkIdentifiers P raws = .ok ids →
      ids.length = raws.length ∧ ∀ x ∈ raws.zip ids, x.1.toGeneric P = .ok x.2 := by
  induction raws with
  | nil =>
    intro ids h
    simp only [mkIdentifiers, Except.ok.injEq] at h
    subst h; simp
  | cons r rs ih =>
    intro ids h
    simp only [mkIdentifiers] at h
    split at h
    · rename_i id hid
      split at h
      · rename_i ids' hids'
        simp only [Except.ok.injEq] at h
        subst h
        obtain ⟨i1, i2⟩ := ih ids' hids'
        refine ⟨by simp [i1], ?_⟩
        intro x hx
        simp only [List.zip_cons_cons] at hx
        rcases List.mem_cons.1 hx with rfl | hx
        · exact hid
        · exact i2 x hx
      · exact absurd h (by simp)
    · exact absurd h (by simp)

/-- What the configuration asks for, entry by entry: the type and the normalised value. -/
def expectedIds (P : Params) (raws : List RawId) :
    List (Option (IdType × Except NewRes (List Char))) :=
  raws.map fun r => r.typed.map fun tv => (tv.1, normValue P tv.1 tv.2)

theorem orderIds_eq_expected (P : Params) (raws : List RawId) :
    ∀ ids, mkIdentifiers P raws = .ok ids →
      (orderIds ids).map (fun x => some (x.1, Except.ok x.2)) = expectedIds P raws := by
  induction raws with
  | nil =>
    intro ids h
    simp only [mkIdentifiers, Except.ok.injEq] at h
    subst h; rfl
  | cons r rs ih =>
    intro ids h
    simp only [mkIdentifiers] at h
    split at h
    · rename_i id hid
      split at h
      · rename_i ids' hids'
        simp only [Except.ok.injEq] at h
        subst h
        obtain ⟨t, v, htv, h1, h2, _⟩ := RawId.toGeneric_ok P r id hid
        have := ih ids' hids'
        simp only [orderIds, expectedIds, List.map_cons, List.map_map] at this ⊢
        rw [← this, htv]
        simp only [Option.map_some, h2, h1]
      · exact absurd h (by simp)
    · exact absurd h (by simp)

/-! ## CSR split -/

theorem csrDomains_eq (ids : List Identifier) :
    csrDomains ids = ((orderIds ids).filter fun x => x.1 = .dns).map (·.2) := by
  induction ids with
  | nil => rfl
  | cons i is ih =>
    simp only [csrDomains, orderIds, List.filter_cons, List.map_cons] at ih ⊢
    by_cases h : i.idType = .dns
    · simp only [h, decide_true, if_true, List.map_cons]; rw [ih]
    · simp only [h, decide_false, Bool.false_eq_true, if_false]; rw [ih]

theorem csrIps_eq (ids : List Identifier) :
    csrIps ids = ((orderIds ids).filter fun x => x.1 = .ip).map (·.2) := by
  induction ids with
  | nil => rfl
  | cons i is ih =>
    simp only [csrIps, orderIds, List.filter_cons, List.map_cons] at ih ⊢
    by_cases h : i.idType = .ip
    · simp only [h, decide_true, if_true, List.map_cons]; rw [ih]
    · simp only [h, decide_false, Bool.false_eq_true, if_false]; rw [ih]

theorem typed_split_perm (ids : List Identifier) :
    ((csrDomains ids).map (fun v => (IdType.dns, v)) ++ (csrIps ids).map (fun v => (IdType.ip, v))).Perm
      (orderIds ids) := by
  induction ids with
  | nil => exact List.Perm.refl _
  | cons i is ih =>
    cases hi : i.idType with
    | dns =>
      have h1 : csrDomains (i :: is) = i.value :: csrDomains is := by
        simp [csrDomains, hi]
      have h2 : csrIps (i :: is) = csrIps is := by
        simp [csrIps, hi]
      rw [h1, h2]
      simp only [orderIds, List.map_cons, List.cons_append, hi]
      exact List.Perm.cons _ ih
    | ip =>
      have h1 : csrDomains (i :: is) = csrDomains is := by
        simp [csrDomains, hi]
      have h2 : csrIps (i :: is) = i.value :: csrIps is := by
        simp [csrIps, hi]
      rw [h1, h2]
      simp only [orderIds, List.map_cons, hi]
      refine List.Perm.trans ?_ (List.Perm.cons _ ih)
      exact List.perm_middle

/-! ## Lookup -/

theorem find_first {α : Type} (p : α → Bool) (l : List α) (h : ∃ x ∈ l, p x = true) :
    ∃ pre d post, l = pre ++ d :: post ∧ p d = true ∧ (∀ x ∈ pre, p x = false) ∧
      l.find? p = some d := by
  cases hf : l.find? p with
  | none =>
    obtain ⟨x, hx, hpx⟩ := h
    exact absurd hpx (List.find?_eq_none.1 hf x hx)
  | some d =>
    obtain ⟨hpd, pre, post, hl, hpre⟩ := List.find?_eq_some_iff_append.1 hf
    exact ⟨pre, d, post, hl, hpd, fun x hx => by simpa using hpre x hx, rfl⟩

/-! ## Reverse names -/

def nibbles (b : UInt8) : List Char := [hexNibble (b.toNat % 16), hexNibble (b.toNat / 16)]

theorem joinWith_nibbles (l : List UInt8) :
    joinWith '.' (l.map nibblesString) = joinWith '.' ((l.flatMap nibbles).map fun c => [c]) := by
  induction l with
  | nil => rfl
  | cons b bs ih =>
    cases bs with
    | nil => rfl
    | cons b' bs' =>
      simp only [List.map_cons, List.flatMap_cons, nibbles, List.cons_append, List.nil_append,
        joinWith_cons_cons] at ih ⊢
      rw [ih]
      rfl

theorem joinWith_singletons_length (l : List Char) (h : l ≠ []) :
    (joinWith '.' (l.map fun c => [c])).length = 2 * l.length - 1 := by
  induction l with
  | nil => exact absurd rfl h
  | cons c cs ih =>
    cases cs with
    | nil => rfl
    | cons d ds =>
      simp only [List.map_cons, joinWith_cons_cons, List.length_append, List.length_cons,
        List.length_nil] at ih ⊢
      have := ih (by simp)
      omega

theorem flatMap_nibbles_length (l : List UInt8) : (l.flatMap nibbles).length = 2 * l.length := by
  induction l with
  | nil => rfl
  | cons b bs ih => simp only [List.flatMap_cons, List.length_append, ih, nibbles, List.length_cons,
      List.length_nil]; omega

/-- Little-endian value of a byte list (value of the address when the list is the octets reversed). -/
def leVal : List UInt8 → Nat
  | [] => 0
  | b :: bs => b.toNat + 256 * leVal bs

def nibbleVals : List UInt8 → List Nat
  | [] => []
  | b :: bs => b.toNat % 16 :: b.toNat / 16 :: nibbleVals bs

theorem nibbleVals_get (l : List UInt8) :
    ∀ i, i < 2 * l.length → (nibbleVals l)[i]? = some (leVal l / 16 ^ i % 16) := by
  induction l with
  | nil => intro i hi; simp at hi
  | cons b bs ih =>
    intro i hi
    have hb : b.toNat < 256 := b.toNat_lt
    match i with
    | 0 =>
      simp only [nibbleVals, leVal, List.getElem?_cons_zero, Nat.pow_zero, Nat.div_one]
      congr 1; omega
    | 1 =>
      simp only [nibbleVals, leVal, List.getElem?_cons_succ, List.getElem?_cons_zero, Nat.pow_one]
      congr 1; omega
    | i + 2 =>
      simp only [nibbleVals, leVal, List.getElem?_cons_succ]
      rw [ih i (by simp only [List.length_cons] at hi; omega)]
      congr 2
      have : 16 ^ (i + 2) = 256 * 16 ^ i := by
        rw [Nat.pow_add]; omega
      rw [this, ← Nat.div_div_eq_div_mul]
      congr 1; omega

theorem flatMap_nibbles_eq (l : List UInt8) : l.flatMap nibbles = (nibbleVals l).map hexNibble := by
  induction l with
  | nil => rfl
  | cons b bs ih => simp only [List.flatMap_cons, nibbles, ih, nibbleVals, List.map_cons,
      List.cons_append, List.nil_append]

end AcmedVerif.Ident
