/-
Helper lemmas for `Model/Renew.lean` and `Spec/C06.lean` (property C06).
-/
import AcmedVerif.Model.Renew
import AcmedVerif.Spec.C06

namespace AcmedVerif.Renew

/-! ## days / secs -/

theorem days_secs (d : Int) : days d * 86400 + secs d = d := by
  unfold days secs
  split <;> omega

theorem days_eq_tdiv (d : Int) : days d = Int.tdiv d 86400 := by
  unfold days
  split
  · rename_i h
    rw [Int.tdiv_eq_ediv_of_nonneg h]
  · rename_i h
    have h' : 0 ≤ -d := by omega
    have : Int.tdiv d 86400 = -Int.tdiv (-d) 86400 := by
      rw [Int.neg_tdiv]; simp
    rw [this, Int.tdiv_eq_ediv_of_nonneg h']

theorem secs_eq_tmod (d : Int) : secs d = Int.tmod d 86400 := by
  have h1 := days_secs d
  have h2 := Int.tmod_add_mul_tdiv d 86400
  rw [← days_eq_tdiv] at h2
  omega

theorem secs_bounds (d : Int) : -86400 < secs d ∧ secs d < 86400 ∧
    (0 ≤ d → 0 ≤ secs d ∧ 0 ≤ days d) ∧ (d ≤ 0 → secs d ≤ 0 ∧ days d ≤ 0) := by
  unfold days secs
  split <;> omega

/-! ## repaired `expires_in` -/

theorem expiresIn_eq (d : Int) : expiresIn d = d.toNat := by
  have h := days_secs d
  unfold expiresIn
  simp only
  split <;> omega

theorem expiresIn_le_of_daysFit (d : Int) (h : daysFit d) :
    expiresIn d ≤ 2147483647 * 86400 + 86399 := by
  rw [expiresIn_eq]
  have h1 := days_secs d
  have h2 := secs_bounds d
  unfold daysFit at h
  omega

/-! ## `i32` steps -/

theorem wrap32_eq_bmod (x : Int) : wrap32 x = Int.bmod x 4294967296 := by
  unfold wrap32 Int.bmod
  simp only
  split <;> omega

theorem wrap32_of_fits (x : Int) (h : fits32 x = true) : wrap32 x = x := by
  unfold fits32 at h
  simp only [Bool.and_eq_true, decide_eq_true_eq] at h
  unfold wrap32
  omega

theorem step32_of_fits (p : Profile) (x : Int) (h : fits32 x = true) : step32 p x = some x := by
  cases p
  · simp [step32, h]
  · simp [step32, wrap32_of_fits x h]

/-- The model's wrap is what core's `Int32` multiplication and addition do. -/
theorem wrap32_mul_int32 (a b : Int32) : wrap32 (a.toInt * b.toInt) = (a * b).toInt := by
  rw [wrap32_eq_bmod, Int32.toInt_mul]

theorem wrap32_add_int32 (a b : Int32) : wrap32 (a.toInt + b.toInt) = (a + b).toInt := by
  rw [wrap32_eq_bmod, Int32.toInt_add]

theorem fits32_iff (x : Int) : fits32 x = true ↔ -2147483648 ≤ x ∧ x ≤ 2147483647 := by
  unfold fits32
  simp only [Bool.and_eq_true, decide_eq_true_eq]

/-- Below the `i32` limit the unrepaired computation is the repaired one, in both profiles. -/
theorem expiresInOld_of_small (p : Profile) (d : Int) (hlo : -2147483648 ≤ d) (hhi : d < 2147483648) :
    expiresInOld p d = .ok (expiresIn d) := by
  have h := days_secs d
  have hb := secs_bounds d
  have f1 : fits32 (days d * 24) = true := by rw [fits32_iff]; omega
  have f2 : fits32 (days d * 24 * 60) = true := by rw [fits32_iff]; omega
  have f3 : fits32 (days d * 24 * 60 * 60) = true := by rw [fits32_iff]; omega
  have f4 : fits32 (days d * 24 * 60 * 60 + secs d) = true := by rw [fits32_iff]; omega
  unfold expiresInOld
  rw [step32_of_fits p _ f1]; simp only
  rw [step32_of_fits p _ f2]; simp only
  rw [step32_of_fits p _ f3]; simp only
  rw [step32_of_fits p _ f4]; simp only
  rfl

/-- Dev profile, exact characterisation: it answers (and then correctly) iff `d` fits `i32`. -/
theorem expiresInOld_dev_ok_iff (d : Int) :
    (∃ n, expiresInOld .dev d = .ok n) ↔ (-2147483648 ≤ d ∧ d < 2147483648) := by
  constructor
  · rintro ⟨n, hn⟩
    have h := days_secs d
    have hb := secs_bounds d
    by_cases f1 : fits32 (days d * 24) = true
    case neg => simp [expiresInOld, step32, f1] at hn
    by_cases f2 : fits32 (days d * 24 * 60) = true
    case neg => simp [expiresInOld, step32, f1, f2] at hn
    by_cases f3 : fits32 (days d * 24 * 60 * 60) = true
    case neg => simp [expiresInOld, step32, f1, f2, f3] at hn
    by_cases f4 : fits32 (days d * 24 * 60 * 60 + secs d) = true
    case neg => simp [expiresInOld, step32, f1, f2, f3, f4] at hn
    rw [fits32_iff] at f4
    omega
  · rintro ⟨h1, h2⟩
    exact ⟨_, expiresInOld_of_small .dev d h1 h2⟩

/-! ## std `Duration` -/

theorem Dur.toNs_satSub (a b : Dur) (ha : a.wf) (hb : b.wf) :
    (a.satSub b).toNs = a.toNs - b.toNs ∧ (a.satSub b).wf := by
  unfold Dur.wf NS at ha hb
  unfold Dur.satSub Dur.checkedSub
  by_cases h1 : b.secs ≤ a.secs
  · by_cases h2 : b.nanos ≤ a.nanos
    · simp only [h1, h2, if_true]
      unfold Dur.toNs Dur.wf NS
      simp only
      constructor <;> omega
    · by_cases h3 : 1 ≤ a.secs - b.secs
      · simp only [h1, h2, h3, if_true, if_false]
        unfold Dur.toNs Dur.wf NS
        simp only
        constructor <;> omega
      · simp only [h1, h2, h3, if_true, if_false]
        unfold Dur.toNs Dur.wf Dur.zero NS
        simp only
        constructor <;> omega
  · simp only [h1, if_false]
    unfold Dur.toNs Dur.wf Dur.zero NS
    simp only
    constructor <;> omega

theorem Dur.isZero_iff (a : Dur) : a.isZero = true ↔ a.toNs = 0 := by
  unfold Dur.isZero Dur.toNs NS
  simp only [Bool.and_eq_true, beq_iff_eq]
  omega

theorem Dur.fromSecs_wf (s : Nat) : (Dur.fromSecs s).wf := by
  show 0 < 1000000000; omega

theorem Dur.toNs_fromSecs (s : Nat) : (Dur.fromSecs s).toNs = s * NS := by
  show s * NS + 0 = s * NS; omega

/-- The normalisation lemma of Appendix E8: `renew_in` on std `Duration`s is `renewIn` on
nanosecond counts. -/
theorem renewInDur_toNs (expSecs : Nat) (delay rer jitter : Dur)
    (hd : delay.wf) (hj : jitter.wf) :
    (renewInDur expSecs delay rer jitter).toNs = renewIn expSecs delay.toNs rer.toNs jitter.toNs := by
  have h1 := Dur.toNs_satSub (Dur.fromSecs expSecs) delay (Dur.fromSecs_wf _) hd
  rw [Dur.toNs_fromSecs] at h1
  unfold renewInDur renewIn
  simp only
  by_cases hz : rer.isZero = true
  · have : rer.toNs = 0 := (Dur.isZero_iff rer).1 hz
    simp [hz, this, h1.1]
  · have : rer.toNs ≠ 0 := fun h => hz ((Dur.isZero_iff rer).2 h)
    have h2 := Dur.toNs_satSub _ jitter h1.2 hj
    simp [hz, this, h2.1, h1.1]

/-! ## `renew_in` -/

theorem renewInP_eq (expSecs delayNs rerNs jitterNs : Nat) :
    renewInP expSecs delayNs rerNs jitterNs = some (renewIn expSecs delayNs rerNs jitterNs) := by
  unfold renewInP renewIn genRange
  by_cases h : rerNs = 0
  · simp [h]
  · have : 0 < rerNs := Nat.pos_of_ne_zero h
    simp [h, this]

theorem renewIn_le (expSecs delayNs rerNs jitterNs : Nat) :
    renewIn expSecs delayNs rerNs jitterNs ≤ expSecs * NS - delayNs := by
  unfold renewIn
  simp only
  split <;> omega

/-! ## membership -/

theorem missing_eq_not_covered (ids sans : List (List Char)) :
    missing ids sans = !Spec.C06.covered ids sans := by
  unfold missing Spec.C06.covered
  induction ids with
  | nil => rfl
  | cons i rest ih =>
    simp only [List.any_cons, List.all_cons, ih, Bool.not_and]

theorem missing_iff (ids sans : List (List Char)) :
    missing ids sans = true ↔ ∃ i ∈ ids, i ∉ sans := by
  unfold missing
  simp [List.any_eq_true]

/-! ## back-off table -/

theorem backoffIdx_lt (r : Nat) : backoffIdx r < AcmedVerif.Gen.backoff.length := by
  unfold backoffIdx
  have : 0 < AcmedVerif.Gen.backoff.length := by decide
  omega

theorem backoffSecs_cases (r : Nat) :
    AcmedVerif.Gen.backoff[backoffIdx r]? = some (backoffSecs r) ∧
    60 ≤ backoffSecs r ∧ backoffSecs r ≤ 86400 := by
  unfold backoffSecs backoffIdx
  have hl : AcmedVerif.Gen.backoff.length - 1 = 3 := by decide
  rw [hl]
  have : min r 3 = 0 ∨ min r 3 = 1 ∨ min r 3 = 2 ∨ min r 3 = 3 := by omega
  rcases this with h | h | h | h <;> rw [h] <;> simp [AcmedVerif.Gen.backoff]

/-- Every sleep of the loop that follows an error is a table entry: at least 60 s. -/
theorem loopSleeps_error_prefix (n r : Nat) :
    loopSleeps r (List.replicate n .error) =
      ((List.range n).map (fun k => backoffSecs (r + k) * NS), false) := by
  induction n generalizing r with
  | zero => rfl
  | succ n ih =>
    simp only [List.replicate_succ, loopSleeps, ih (r + 1), List.range_succ_eq_map, List.map_cons,
      List.map_map, Nat.add_zero]
    have e : (fun k => backoffSecs (r + 1 + k) * NS) = ((fun k => backoffSecs (r + k) * NS) ∘ Nat.succ) := by
      funext k
      show backoffSecs (r + 1 + k) * NS = backoffSecs (r + (k + 1)) * NS
      rw [show r + 1 + k = r + (k + 1) by omega]
    rw [e]

end AcmedVerif.Renew

namespace AcmedVerif.Spec.C06

theorem expNs_zero (d : Int) : expNs d 0 = d.toNat * 1000000000 := by
  unfold expNs
  omega

theorem expNs_mono (d : Int) (s t : Int) (h : s ≤ t) : expNs d s ≤ expNs d t := by
  unfold expNs
  omega

theorem hi_mono (e e' d : Nat) (h : e ≤ e') : hi e d ≤ hi e' d := by
  unfold hi; omega

theorem lo_mono (e e' d r : Nat) (h : e ≤ e') : lo e d r ≤ lo e' d r := by
  unfold lo hi; split <;> omega

theorem lo_le_hi (e d r : Nat) : lo e d r ≤ hi e d := by
  unfold lo; split <;> omega

/-- A wider slack accepts more. -/
theorem holdsWithSlack_mono (disk : Renew.Disk) (ids : List (List Char)) (delayNs rerNs : Nat)
    (s t obs : Nat) (hst : s ≤ t) (h : holdsWithSlack disk ids delayNs rerNs s obs = true) :
    holdsWithSlack disk ids delayNs rerNs t obs = true := by
  obtain ⟨k, cf, cert⟩ := disk
  unfold holdsWithSlack at *
  cases k <;> cases cf <;> try (simpa using h)
  cases cert with
  | none => simp at h
  | some c =>
    cases hm : covered ids c.sans
    · simpa [hm] using h
    · simp only [hm, Bool.and_self, Bool.not_true, Bool.false_eq_true, if_false, Bool.and_eq_true,
        decide_eq_true_eq] at h ⊢
      have a := lo_mono _ _ delayNs rerNs (expNs_mono c.notAfterIn (-(t : Int)) (-(s : Int)) (by omega))
      have b := hi_mono _ _ delayNs (expNs_mono c.notAfterIn (s : Int) (t : Int) (by omega))
      omega

end AcmedVerif.Spec.C06
