/-
Helper lemmas for Props/C14 (model: Model/Config.lean, vocabulary: Spec/C14.lean).
-/
import AcmedVerif.Model.Config
import AcmedVerif.Spec.C14

namespace AcmedVerif.Config
open AcmedVerif.Spec.C14

/-! ## Maps and the `[global]` merge block -/

theorem envLookup_append (k : String) (a b : Env) :
    envLookup k (a ++ b) = (envLookup k b).or (envLookup k a) := by
  unfold envLookup
  rw [List.filter_append, List.getLast?_append, Option.map_or]

theorem envLookup_nil (k : String) : envLookup k [] = none := rfl

theorem lastSome_nil {α : Type} : lastSome ([] : List (Option α)) = none := rfl

theorem lastSome_append {α : Type} (a b : List (Option α)) :
    lastSome (a ++ b) = (lastSome b).or (lastSome a) := by
  unfold lastSome
  rw [List.reverse_append, List.findSome?_append]

theorem lastSome_singleton {α : Type} (x : Option α) : lastSome [x] = x := by
  cases x <;> rfl

theorem Global.get_set (g : Global) (o o' : GlobalOpt) (v : Option Val) :
    (g.set o v).get o' = if o = o' ∧ o ≠ .env then v else g.get o' := by
  cases o <;> cases o' <;> simp [Global.set, Global.get]

theorem Global.env_set (g : Global) (o : GlobalOpt) (v : Option Val) : (g.set o v).env = g.env := by
  cases o <;> rfl

theorem get_mergeOpt (acc new : Global) (o o' : GlobalOpt) :
    (mergeOpt acc new o).get o' =
      if o = o' ∧ o ≠ .env then (new.get o).or (acc.get o') else acc.get o' := by
  by_cases he : o = .env
  · subst he
    have : (mergeOpt acc new .env).get o' = acc.get o' := by cases o' <;> rfl
    simp [this]
  · have hm : mergeOpt acc new o =
        match new.get o with
        | some v => acc.set o (some v)
        | none => acc := by
      cases o <;> first | rfl | exact absurd rfl he
    rw [hm]
    cases hn : new.get o with
    | none => simp
    | some v =>
      simp only [Global.get_set]
      by_cases hoo : o = o'
      · subst hoo; simp [he]
      · simp [hoo]

theorem env_mergeOpt (acc new : Global) (o : GlobalOpt) :
    (mergeOpt acc new o).env = if o = .env then acc.env ++ new.env else acc.env := by
  by_cases he : o = .env
  · subst he; rfl
  · have hm : mergeOpt acc new o =
        match new.get o with
        | some v => acc.set o (some v)
        | none => acc := by
      cases o <;> first | rfl | exact absurd rfl he
    rw [hm, if_neg he]
    cases new.get o <;> simp [Global.env_set]

theorem get_mergeGlobalWith (opts : List GlobalOpt) (cur new : Global) (o : GlobalOpt)
    (ho : o ≠ .env) :
    (mergeGlobalWith opts cur new).get o =
      if o ∈ opts then (new.get o).or (cur.get o) else cur.get o := by
  induction opts generalizing cur with
  | nil => simp [mergeGlobalWith]
  | cons a rest ih =>
    have hstep : mergeGlobalWith (a :: rest) cur new = mergeGlobalWith rest (mergeOpt cur new a) new := rfl
    rw [hstep, ih, get_mergeOpt]
    by_cases hao : a = o
    · subst hao
      simp only [List.mem_cons, true_or, if_true, ho, ne_eq, not_false_eq_true, and_self]
      cases new.get a <;> simp
    · have hoa : ¬ o = a := fun h => hao h.symm
      simp [hao, hoa]

theorem envLookup_mergeGlobalWith (opts : List GlobalOpt) (cur new : Global) (k : String) :
    envLookup k (mergeGlobalWith opts cur new).env =
      if GlobalOpt.env ∈ opts then (envLookup k new.env).or (envLookup k cur.env)
      else envLookup k cur.env := by
  induction opts generalizing cur with
  | nil => simp [mergeGlobalWith]
  | cons a rest ih =>
    have hstep : mergeGlobalWith (a :: rest) cur new = mergeGlobalWith rest (mergeOpt cur new a) new := rfl
    rw [hstep, ih, env_mergeOpt]
    by_cases hae : a = .env
    · subst hae
      simp only [if_true, List.mem_cons, true_or, envLookup_append]
      cases envLookup k new.env <;> simp
    · have hea : ¬ GlobalOpt.env = a := fun h => hae h.symm
      simp [hae, hea]

/-- One merge step, seen through one merged option: the included file's value if it sets one. -/
theorem optGet_mergeGlobal (x y : Option Global) (o : GlobalOpt) (hm : o ∈ mergedOptions)
    (ho : o ≠ .env) : optGet o (mergeGlobal x y) = (optGet o y).or (optGet o x) := by
  cases x with
  | none => simp [mergeGlobal, optGet]
  | some c =>
    cases y with
    | none => simp [mergeGlobal, optGet]
    | some n => simp [mergeGlobal, optGet, get_mergeGlobalWith _ _ _ _ ho, hm]

theorem envLookup_mergeGlobal (x y : Option Global) (k : String)
    (hm : GlobalOpt.env ∈ mergedOptions) :
    envLookup k (envOf (mergeGlobal x y)) = (envLookup k (envOf y)).or (envLookup k (envOf x)) := by
  cases x with
  | none => simp [mergeGlobal, envOf, envLookup_nil]
  | some c =>
    cases y with
    | none => simp [mergeGlobal, envOf, envLookup_nil]
    | some n => simp [mergeGlobal, envOf, envLookup_mergeGlobalWith, hm]


/-! ## `Extends`: a configuration is a base plus the own contents of a list of files -/

/-- `cfg` is `base` followed by what the files `new` themselves contain, in that order: the six
section lists are appended, and every merged `[global]` option holds the value of the last file of
`new` that sets it (else `base`'s value). -/
structure Extends {π : Type} (files : Files π) (base cfg : Config) (new : List Path) : Prop where
  endpoints : cfg.endpoints = base.endpoints ++ new.flatMap (fun p => (ownOf files p).endpoints)
  rateLimits : cfg.rateLimits = base.rateLimits ++ new.flatMap (fun p => (ownOf files p).rateLimits)
  hooks : cfg.hooks = base.hooks ++ new.flatMap (fun p => (ownOf files p).hooks)
  groups : cfg.groups = base.groups ++ new.flatMap (fun p => (ownOf files p).groups)
  accounts : cfg.accounts = base.accounts ++ new.flatMap (fun p => (ownOf files p).accounts)
  certificates :
    cfg.certificates = base.certificates ++ new.flatMap (fun p => (ownOf files p).certificates)
  opt : ∀ o, o ∈ mergedOptions → o ≠ .env →
    optGet o cfg.global =
      (lastSome (new.map fun p => optGet o (ownOf files p).global)).or (optGet o base.global)
  env : GlobalOpt.env ∈ mergedOptions → ∀ k,
    envLookup k (envOf cfg.global) =
      (envLookup k (new.flatMap fun p => envOf (ownOf files p).global)).or
        (envLookup k (envOf base.global))

theorem Extends.refl {π : Type} (files : Files π) (cfg : Config) : Extends files cfg cfg [] := by
  constructor <;> simp [lastSome_nil, envLookup_nil]

theorem Extends.trans {π : Type} {files : Files π} {a b c : Config} {n₁ n₂ : List Path}
    (h₁ : Extends files a b n₁) (h₂ : Extends files b c n₂) : Extends files a c (n₁ ++ n₂) := by
  constructor
  · rw [h₂.endpoints, h₁.endpoints, List.flatMap_append, List.append_assoc]
  · rw [h₂.rateLimits, h₁.rateLimits, List.flatMap_append, List.append_assoc]
  · rw [h₂.hooks, h₁.hooks, List.flatMap_append, List.append_assoc]
  · rw [h₂.groups, h₁.groups, List.flatMap_append, List.append_assoc]
  · rw [h₂.accounts, h₁.accounts, List.flatMap_append, List.append_assoc]
  · rw [h₂.certificates, h₁.certificates, List.flatMap_append, List.append_assoc]
  · intro o hm ho
    rw [h₂.opt o hm ho, h₁.opt o hm ho, List.map_append, lastSome_append, Option.or_assoc]
  · intro hm k
    rw [h₂.env hm k, h₁.env hm k, List.flatMap_append, envLookup_append, Option.or_assoc]

/-- config.rs:757-786 appends exactly what `add` holds. -/
theorem Extends.merge {π : Type} {files : Files π} {cfg add : Config} {n : List Path}
    (h : Extends files Config.empty add n) : Extends files cfg (mergeCfg cfg add) n := by
  have e := h.endpoints; have r := h.rateLimits; have hk := h.hooks; have g := h.groups
  have a := h.accounts; have c := h.certificates
  simp only [Config.empty, List.nil_append] at e r hk g a c
  constructor
  · simp [mergeCfg, e]
  · simp [mergeCfg, r]
  · simp [mergeCfg, hk]
  · simp [mergeCfg, g]
  · simp [mergeCfg, a]
  · simp [mergeCfg, c]
  · intro o hm ho
    have := h.opt o hm ho
    simp only [Config.empty, optGet, Option.bind_none, Option.or_none] at this
    simp only [mergeCfg, optGet_mergeGlobal _ _ o hm ho]
    simp only [optGet, this]
  · intro hm k
    have := h.env hm k
    simp only [Config.empty, envOf, envLookup_nil, Option.or_none] at this
    simp only [mergeCfg, envLookup_mergeGlobal _ _ k hm]
    simp only [envOf, this]

theorem Extends.single {π : Type} (files : Files π) (p : Path) :
    Extends files Config.empty (ownOf files p) [p] := by
  constructor <;>
    simp [Config.empty, lastSome_singleton, optGet, envOf, envLookup_nil]

end AcmedVerif.Config

/-! ## Depth-first order -/
namespace AcmedVerif.Spec.C14
open AcmedVerif.Config

theorem DfsList.nil_inv {π : Type} {files : Files π} {resolve : Path → π → List Path}
    {visited new : List Path} (h : DfsList files resolve [] visited new) : new = [] := by
  cases h; rfl

/-- Visiting `p` and then `ps` is visiting `p :: ps`. -/
theorem DfsList.cons_of_single {π : Type} {files : Files π} {resolve : Path → π → List Path}
    {p : Path} {ps visited n₁ n₂ : List Path}
    (h₁ : DfsList files resolve [p] visited n₁)
    (h₂ : DfsList files resolve ps (visited ++ n₁) n₂) :
    DfsList files resolve (p :: ps) visited (n₁ ++ n₂) := by
  cases h₁ with
  | skip hmem hrest =>
    have := hrest.nil_inv; subst this
    simp only [List.append_nil, List.nil_append] at h₂ ⊢
    exact .skip hmem h₂
  | visit hnot hfile hsub hrest =>
    have := hrest.nil_inv; subst this
    simp only [List.append_nil] at h₂ ⊢
    refine .visit hnot hfile hsub ?_
    simpa [List.append_assoc] using h₂

/-- The files read are pairwise different, were not visited before, and exist. -/
theorem DfsList.facts {π : Type} {files : Files π} {resolve : Path → π → List Path}
    {todo visited new : List Path} (h : DfsList files resolve todo visited new) :
    new.Nodup ∧ (∀ p, p ∈ new → p ∉ visited) ∧ (∀ p, p ∈ new → (lookupFile files p).isSome = true) := by
  induction h with
  | nil => simp
  | skip _ _ ih => exact ih
  | @visit p ps visited n₁ n₂ fc hnot hfile _ _ ih₁ ih₂ =>
    obtain ⟨nd₁, dj₁, ex₁⟩ := ih₁
    obtain ⟨nd₂, dj₂, ex₂⟩ := ih₂
    refine ⟨?_, ?_, ?_⟩
    · rw [List.cons_append, List.nodup_cons, List.nodup_append]
      refine ⟨?_, nd₁, nd₂, ?_⟩
      · intro hm
        rcases List.mem_append.mp hm with hm | hm
        · exact dj₁ p hm (by simp)
        · exact dj₂ p hm (by simp)
      · intro a ha b hb hab
        subst hab
        exact dj₂ a hb (by simp [ha])
    · intro q hq
      rcases List.mem_cons.mp hq with hq | hq
      · subst hq; exact hnot
      · rcases List.mem_append.mp hq with hq | hq
        · intro hv; exact dj₁ q hq (by simp [hv])
        · intro hv; exact dj₂ q hq (by simp [hv])
    · intro q hq
      rcases List.mem_cons.mp hq with hq | hq
      · subst hq; simp [hfile]
      · rcases List.mem_append.mp hq with hq | hq
        · exact ex₁ q hq
        · exact ex₂ q hq

/-- Everything asked for ends up visited, and the visited set is closed under "includes". -/
theorem DfsList.closed {π : Type} {files : Files π} {resolve : Path → π → List Path}
    {todo visited new : List Path} (h : DfsList files resolve todo visited new) :
    (∀ p, p ∈ todo → p ∈ visited ++ new) ∧
    (∀ p, p ∈ new → ∀ fc, lookupFile files p = some fc →
      ∀ q, q ∈ includePaths resolve p fc → q ∈ visited ++ new) := by
  induction h with
  | nil => simp
  | skip hmem _ ih =>
    refine ⟨?_, ih.2⟩
    intro q hq
    rcases List.mem_cons.mp hq with hq | hq
    · subst hq; simp [hmem]
    · exact ih.1 q hq
  | @visit p ps visited n₁ n₂ fc hnot hfile _ _ ih₁ ih₂ =>
    refine ⟨?_, ?_⟩
    · intro q hq
      rcases List.mem_cons.mp hq with hq | hq
      · subst hq; simp
      · have := ih₂.1 q hq
        grind
    · intro q hq fc' hfc' r hr
      rcases List.mem_cons.mp hq with hq | hq
      · subst hq
        rw [hfile] at hfc'; cases hfc'
        have := ih₁.1 r hr
        grind
      · rcases List.mem_append.mp hq with hq | hq
        · have := ih₁.2 q hq fc' hfc' r hr
          grind
        · have := ih₂.2 q hq fc' hfc' r hr
          grind

/-- The order is determined by the tree. -/
theorem DfsList.unique {π : Type} {files : Files π} {resolve : Path → π → List Path}
    {todo visited new new' : List Path} (h : DfsList files resolve todo visited new)
    (h' : DfsList files resolve todo visited new') : new = new' := by
  induction h generalizing new' with
  | nil => exact h'.nil_inv.symm
  | skip hmem _ ih =>
    cases h' with
    | skip _ hr => exact ih hr
    | visit hnot _ _ _ => exact absurd hmem hnot
  | visit hnot hfile _ _ ih₁ ih₂ =>
    cases h' with
    | skip hmem _ => exact absurd hmem hnot
    | visit _ hfile' hs hr =>
      rw [hfile] at hfile'; cases hfile'
      have := ih₁ hs; subst this
      have := ih₂ hr; subst this
      rfl

end AcmedVerif.Spec.C14

/-! ## `read_cnf` -/
namespace AcmedVerif.Config
open AcmedVerif.Spec.C14

theorem readCnf_eq {π : Type} (files : Files π) (resolve : Path → π → List Path)
    (fuel depth : Nat) (path : Path) (loaded : List Path) :
    readCnf files resolve fuel depth path loaded =
      match lookupFile files path with
      | none => .error (.fileNotFound path)
      | some fc =>
        if depth > maxIncludeDepth then .error (.includeTooDeep path)
        else if path ∈ loaded then .ok (Config.empty, loaded)
        else
          match fuel with
          | 0 => .error .outOfFuel
          | fuel + 1 =>
            includeLoop (readCnf files resolve fuel (depth + 1)) (includePaths resolve path fc)
              fc.toConfig (loaded ++ [path]) := by
  cases fuel <;> simp only [readCnf] <;> cases lookupFile files path <;> rfl

/-- What one call of `read_cnf` returns, for any procedure `rec` that behaves so. -/
def RecSpec {π : Type} (files : Files π) (resolve : Path → π → List Path)
    (rec : Path → List Path → Except Err (Config × List Path)) : Prop :=
  ∀ p loaded cfg loaded', rec p loaded = .ok (cfg, loaded') →
    ∃ new, loaded' = loaded ++ new ∧ DfsList files resolve [p] loaded new ∧
      Extends files Config.empty cfg new

theorem includeLoop_spec {π : Type} {files : Files π} {resolve : Path → π → List Path}
    {rec : Path → List Path → Except Err (Config × List Path)} (hrec : RecSpec files resolve rec) :
    ∀ ps cfg loaded cfg' loaded', includeLoop rec ps cfg loaded = .ok (cfg', loaded') →
      ∃ new, loaded' = loaded ++ new ∧ DfsList files resolve ps loaded new ∧
        Extends files cfg cfg' new := by
  intro ps
  induction ps with
  | nil =>
    intro cfg loaded cfg' loaded' h
    simp only [includeLoop, Except.ok.injEq, Prod.mk.injEq] at h
    obtain ⟨rfl, rfl⟩ := h
    exact ⟨[], by simp, .nil _, Extends.refl _ _⟩
  | cons p ps ih =>
    intro cfg loaded cfg' loaded' h
    simp only [includeLoop] at h
    cases hr : rec p loaded with
    | error e => simp [hr] at h
    | ok res =>
      obtain ⟨add, l₁⟩ := res
      simp only [hr] at h
      obtain ⟨n₁, rfl, hd₁, he₁⟩ := hrec p loaded add l₁ hr
      obtain ⟨n₂, rfl, hd₂, he₂⟩ := ih _ _ _ _ h
      exact ⟨n₁ ++ n₂, by simp, hd₁.cons_of_single hd₂, he₁.merge.trans he₂⟩

theorem readCnf_spec {π : Type} (files : Files π) (resolve : Path → π → List Path) (fuel : Nat) :
    ∀ depth, RecSpec files resolve (readCnf files resolve fuel depth) := by
  induction fuel with
  | zero =>
    intro depth p loaded cfg loaded' h
    rw [readCnf_eq] at h
    cases hf : lookupFile files p with
    | none => simp [hf] at h
    | some fc =>
      simp only [hf] at h
      by_cases hd : depth > maxIncludeDepth
      · simp [hd] at h
      · simp only [hd, if_false] at h
        by_cases hm : p ∈ loaded
        · simp only [hm, if_true, Except.ok.injEq, Prod.mk.injEq] at h
          obtain ⟨rfl, rfl⟩ := h
          exact ⟨[], by simp, .skip hm (.nil _), Extends.refl _ _⟩
        · simp [hm] at h
  | succ fuel ih =>
    intro depth p loaded cfg loaded' h
    rw [readCnf_eq] at h
    cases hf : lookupFile files p with
    | none => simp [hf] at h
    | some fc =>
      simp only [hf] at h
      by_cases hd : depth > maxIncludeDepth
      · simp [hd] at h
      · simp only [hd, if_false] at h
        by_cases hm : p ∈ loaded
        · simp only [hm, if_true, Except.ok.injEq, Prod.mk.injEq] at h
          obtain ⟨rfl, rfl⟩ := h
          exact ⟨[], by simp, .skip hm (.nil _), Extends.refl _ _⟩
        · simp only [hm, if_false] at h
          obtain ⟨n, rfl, hd', he⟩ := includeLoop_spec (ih (depth + 1)) _ _ _ _ _ h
          refine ⟨p :: n, by simp, ?_, ?_⟩
          · have := DfsList.visit (ps := []) hm hf hd' (.nil _)
            simpa using this
          · have hown : ownOf files p = fc.toConfig := by simp [ownOf, hf]
            have h1 := Extends.single files p
            rw [hown] at h1
            exact h1.trans he


/-! ## Fuel: `fuel + |loaded| ≥ |files| + 1` is invariant, so the fuel never runs out -/

theorem lookupFile_isSome_mem {π : Type} {files : Files π} {p : Path}
    (h : (lookupFile files p).isSome = true) : p ∈ files.map (·.1) := by
  unfold lookupFile at h
  rw [Option.isSome_map, List.find?_isSome] at h
  obtain ⟨x, hx, hp⟩ := h
  have : x.1 = p := by simpa using hp
  exact List.mem_map.mpr ⟨x, hx, this⟩

/-- The loaded set is made of distinct existing files and the fuel still covers the rest. -/
def LoadInv {π : Type} (files : Files π) (fuel : Nat) (loaded : List Path) : Prop :=
  loaded.Nodup ∧ (∀ p, p ∈ loaded → (lookupFile files p).isSome = true) ∧
    files.length + 1 ≤ fuel + loaded.length

theorem LoadInv.length_le {π : Type} {files : Files π} {fuel : Nat} {loaded : List Path}
    (h : LoadInv files fuel loaded) : loaded.length ≤ files.length := by
  have hsub : loaded ⊆ files.map (·.1) := fun p hp => lookupFile_isSome_mem (h.2.1 p hp)
  have := List.Nodup.length_le_of_subset h.1 hsub
  simpa using this

theorem LoadInv.extend {π : Type} {files : Files π} {resolve : Path → π → List Path} {fuel : Nat}
    {todo loaded new : List Path} (h : LoadInv files fuel loaded)
    (hd : DfsList files resolve todo loaded new) : LoadInv files fuel (loaded ++ new) := by
  obtain ⟨nd, dj, ex⟩ := hd.facts
  refine ⟨?_, ?_, ?_⟩
  · rw [List.nodup_append]
    refine ⟨h.1, nd, ?_⟩
    intro a ha b hb hab
    subst hab
    exact dj a hb ha
  · intro p hp
    rcases List.mem_append.mp hp with hp | hp
    · exact h.2.1 p hp
    · exact ex p hp
  · have := h.2.2
    simp only [List.length_append]
    omega

theorem includeLoop_fuel {π : Type} {files : Files π} {resolve : Path → π → List Path}
    {fuel : Nat} {rec : Path → List Path → Except Err (Config × List Path)}
    (hspec : RecSpec files resolve rec)
    (hrec : ∀ p loaded, LoadInv files fuel loaded → rec p loaded ≠ .error .outOfFuel) :
    ∀ ps cfg loaded, LoadInv files fuel loaded →
      includeLoop rec ps cfg loaded ≠ .error .outOfFuel := by
  intro ps
  induction ps with
  | nil => intro cfg loaded _; simp [includeLoop]
  | cons p ps ih =>
    intro cfg loaded hinv
    simp only [includeLoop]
    cases hr : rec p loaded with
    | error e =>
      have := hrec p loaded hinv
      rw [hr] at this
      simpa using this
    | ok res =>
      obtain ⟨add, l₁⟩ := res
      obtain ⟨n, rfl, hd, _⟩ := hspec p loaded add l₁ hr
      exact ih _ _ (hinv.extend hd)

theorem readCnf_fuel {π : Type} (files : Files π) (resolve : Path → π → List Path) :
    ∀ fuel depth path loaded, LoadInv files fuel loaded →
      readCnf files resolve fuel depth path loaded ≠ .error .outOfFuel := by
  intro fuel
  induction fuel with
  | zero =>
    intro depth path loaded hinv
    have := hinv.length_le
    have := hinv.2.2
    omega
  | succ fuel ih =>
    intro depth path loaded hinv
    rw [readCnf_eq]
    cases hf : lookupFile files path with
    | none => simp
    | some fc =>
      by_cases hd : depth > maxIncludeDepth
      · simp [hd]
      · by_cases hm : path ∈ loaded
        · simp [hd, hm]
        · simp only [hd, hm, if_false]
          have hinv' : LoadInv files fuel (loaded ++ [path]) := by
            refine ⟨?_, ?_, ?_⟩
            · rw [List.nodup_append]
              refine ⟨hinv.1, by simp, ?_⟩
              intro a ha b hb hab
              simp only [List.mem_singleton] at hb
              subst hab; subst hb
              exact hm ha
            · intro p hp
              rcases List.mem_append.mp hp with hp | hp
              · exact hinv.2.1 p hp
              · simp only [List.mem_singleton] at hp
                subst hp; simp [hf]
            · have := hinv.2.2
              simp only [List.length_append, List.length_singleton]
              omega
          exact includeLoop_fuel (readCnf_spec files resolve fuel (depth + 1)) (ih (depth + 1)) _ _ _ hinv'

theorem LoadInv.init {π : Type} (files : Files π) : LoadInv files (loadFuel files) [] := by
  refine ⟨List.nodup_nil, by simp, ?_⟩
  simp [loadFuel]

/-- A file already in the loaded set, met within the depth limit, contributes nothing and leaves the
set unchanged. -/
theorem readCnf_loaded {π : Type} (files : Files π) (resolve : Path → π → List Path)
    (fuel depth : Nat) (path : Path) (loaded : List Path) (fc : FileContent π)
    (hf : lookupFile files path = some fc) (hd : depth ≤ maxIncludeDepth) (hm : path ∈ loaded) :
    readCnf files resolve fuel depth path loaded = .ok (Config.empty, loaded) := by
  rw [readCnf_eq, hf]
  simp [hm, Nat.not_lt.mpr hd]

/-- An existing file met deeper than the limit is refused, loaded before or not. -/
theorem readCnf_too_deep {π : Type} (files : Files π) (resolve : Path → π → List Path)
    (fuel depth : Nat) (path : Path) (loaded : List Path) (fc : FileContent π)
    (hf : lookupFile files path = some fc) (hd : depth > maxIncludeDepth) :
    readCnf files resolve fuel depth path loaded = .error (.includeTooDeep path) := by
  rw [readCnf_eq, hf]
  simp [hd]


/-! ## Three-level getters -/

theorem certLevel_found (cfg : Config) (c : Certificate) (cv : Option Val)
    (epv : Endpoint → Option Val) (o : GlobalOpt) (ep : Endpoint)
    (hep : findEndpoint cfg c.endpoint = some ep) :
    certLevel cfg c cv epv o = .ok (mostSpecific [cv, epv ep, optGet o cfg.global]) := by
  cases cv <;> cases h₂ : epv ep <;> cases h₃ : optGet o cfg.global <;>
    simp [certLevel, endpointLevel, globalSetting, mostSpecific, Setting.ofOption, hep, h₂, h₃]

theorem certLevel_given (cfg : Config) (c : Certificate) (v : Val)
    (epv : Endpoint → Option Val) (o : GlobalOpt) :
    certLevel cfg c (some v) epv o = .ok (.given v) := rfl

theorem certLevel_unknown (cfg : Config) (c : Certificate)
    (epv : Endpoint → Option Val) (o : GlobalOpt) (hep : findEndpoint cfg c.endpoint = none) :
    certLevel cfg c none epv o = .error (.unknownEndpoint c.endpoint) := by
  simp [certLevel, hep]

theorem effectiveDirectory_eq (cfg : Config) (c : Certificate) :
    effectiveDirectory cfg c = mostSpecific [c.directory, optGet .certificates_directory cfg.global] := by
  cases h₁ : c.directory <;> cases h₃ : optGet .certificates_directory cfg.global <;>
    simp [effectiveDirectory, globalSetting, mostSpecific, Setting.ofOption, h₁, h₃]

/-! ## Hook / group expansion -/

theorem expandHook_eq (cfg : Config) (fuel : Nat) (parents : List String) (budget : Nat) (name : String) :
    expandHook cfg fuel parents budget name =
      match budget with
      | 0 => .error (.tooManyMembers name)
      | budget + 1 =>
        match findHook cfg name with
        | some h => .ok ([h], budget)
        | none =>
          match findGroup cfg name with
          | none => .error (.hookNotFound name)
          | some g =>
            if name ∈ parents then .error (.groupCycle name)
            else if parents.length ≥ maxHookGroupDepth then .error (.groupTooDeep name)
            else
              match fuel with
              | 0 => .error .outOfFuel
              | fuel + 1 => groupLoop (expandHook cfg fuel (parents ++ [name])) g.hooks [] budget := by
  cases fuel <;> cases budget <;> simp only [expandHook] <;> cases findHook cfg name <;>
    first | rfl | (cases findGroup cfg name <;> rfl)

theorem getHook_ok {cfg : Config} {name : String} {r : List Hook} (h : getHook cfg name = .ok r) :
    ∃ b, expandHook cfg (expandFuel cfg) [] maxHookGroupMembers name = .ok (r, b) := by
  unfold getHook at h
  cases he : expandHook cfg (expandFuel cfg) [] maxHookGroupMembers name with
  | error e => simp [he] at h
  | ok res =>
    obtain ⟨hs, b⟩ := res
    simp only [he, Except.ok.injEq] at h
    subst h; exact ⟨b, rfl⟩

theorem getHook_error {cfg : Config} {name : String} {e : Err} (h : getHook cfg name = .error e) :
    expandHook cfg (expandFuel cfg) [] maxHookGroupMembers name = .error e := by
  unfold getHook at h
  cases he : expandHook cfg (expandFuel cfg) [] maxHookGroupMembers name with
  | error e' => simp only [he, Except.error.injEq] at h; rw [h]
  | ok res => obtain ⟨hs, b⟩ := res; simp [he] at h

/-! ### The group loop (`groupLoop`) -/

/-- Each member of a successful group loop expanded (with the budget its predecessors left). -/
theorem groupLoop_mem_ok {rec : Nat → String → Except Err (List Hook × Nat)} :
    ∀ (ns : List String) (acc : List Hook) (b : Nat) (res : List Hook × Nat),
      groupLoop rec ns acc b = .ok res → ∀ n, n ∈ ns → ∃ b₁ hs b₂, rec b₁ n = .ok (hs, b₂) := by
  intro ns
  induction ns with
  | nil => intro acc b res _ n hn; simp at hn
  | cons m ns ih =>
    intro acc b res h n hn
    simp only [groupLoop] at h
    cases hm : rec b m with
    | error e => simp [hm] at h
    | ok r =>
      obtain ⟨hs, b'⟩ := r
      simp only [hm] at h
      rcases List.mem_cons.mp hn with hn | hn
      · subst hn; exact ⟨b, hs, b', hm⟩
      · exact ih _ _ _ h n hn

/-- A failing group loop: one of its members failed. -/
theorem groupLoop_error {rec : Nat → String → Except Err (List Hook × Nat)} :
    ∀ (ns : List String) (acc : List Hook) (b : Nat) (e : Err),
      groupLoop rec ns acc b = .error e → ∃ n, n ∈ ns ∧ ∃ b₁, rec b₁ n = .error e := by
  intro ns
  induction ns with
  | nil => intro acc b e h; simp [groupLoop] at h
  | cons m ns ih =>
    intro acc b e h
    simp only [groupLoop] at h
    cases hm : rec b m with
    | error e' =>
      simp only [hm, Except.error.injEq] at h
      subst h; exact ⟨m, by simp, b, hm⟩
    | ok r =>
      obtain ⟨hs, b'⟩ := r
      simp only [hm] at h
      obtain ⟨n, hn, hne⟩ := ih _ _ _ h
      exact ⟨n, by simp [hn], hne⟩

theorem groupLoop_ne_outOfFuel {rec : Nat → String → Except Err (List Hook × Nat)}
    (hrec : ∀ b n, rec b n ≠ .error .outOfFuel) :
    ∀ ns acc b, groupLoop rec ns acc b ≠ .error .outOfFuel := by
  intro ns acc b h
  obtain ⟨n, _, b₁, hn⟩ := groupLoop_error ns acc b _ h
  exact hrec b₁ n hn

/-- `expandNames` succeeds iff every name does, and then concatenates in order. -/
theorem expandNames_ok (rec : String → Except Err (List Hook)) :
    ∀ (ns : List String) (r : List Hook), expandNames rec ns = .ok r ↔
      ∃ rs : List (List Hook), ns.map rec = rs.map .ok ∧ r = rs.flatten := by
  intro ns
  induction ns with
  | nil =>
    intro r
    simp only [expandNames, Except.ok.injEq, List.map_nil]
    constructor
    · intro h; exact ⟨[], by simp, by simp [← h]⟩
    · rintro ⟨rs, h₁, h₂⟩
      have : rs = [] := by simpa using h₁.symm
      subst this; simp [h₂]
  | cons n ns ih =>
    intro r
    simp only [expandNames, List.map_cons]
    cases hn : rec n with
    | error e =>
      constructor
      · intro h; simp at h
      · rintro ⟨rs, h₁, _⟩
        cases rs with
        | nil => simp at h₁
        | cons a rs => simp at h₁
    | ok hs =>
      cases hr : expandNames rec ns with
      | error e =>
        constructor
        · intro h; simp at h
        · rintro ⟨rs, h₁, _⟩
          cases rs with
          | nil => simp at h₁
          | cons a rs =>
            simp only [List.map_cons, List.cons.injEq, Except.ok.injEq] at h₁
            have := (ih rs.flatten).mpr ⟨rs, h₁.2, rfl⟩
            rw [hr] at this; simp at this
      | ok rest =>
        obtain ⟨rs, h₁, h₂⟩ := (ih rest).mp hr
        constructor
        · intro h
          simp only [Except.ok.injEq] at h
          exact ⟨hs :: rs, by simp [h₁], by simp [← h, h₂]⟩
        · rintro ⟨rs', h₁', h₂'⟩
          cases rs' with
          | nil => simp at h₁'
          | cons a rs' =>
            simp only [List.map_cons, List.cons.injEq, Except.ok.injEq] at h₁'
            have := (ih rs'.flatten).mpr ⟨rs', h₁'.2, rfl⟩
            rw [hr] at this
            simp only [Except.ok.injEq] at this
            simp [h₂', h₁'.1, this]

theorem expandNames_mem_ok {rec : String → Except Err (List Hook)} {ns : List String}
    {r : List Hook} (h : expandNames rec ns = .ok r) {n : String} (hn : n ∈ ns) :
    ∃ r', rec n = .ok r' := by
  obtain ⟨rs, h₁, _⟩ := (expandNames_ok rec ns r).mp h
  have : rec n ∈ ns.map rec := List.mem_map.mpr ⟨n, hn, rfl⟩
  rw [h₁] at this
  obtain ⟨r', _, hr'⟩ := List.mem_map.mp this
  exact ⟨r', hr'.symm⟩

theorem expandNames_ne_outOfFuel {rec : String → Except Err (List Hook)}
    (hrec : ∀ n, rec n ≠ .error .outOfFuel) :
    ∀ ns, expandNames rec ns ≠ .error .outOfFuel := by
  intro ns
  induction ns with
  | nil => simp [expandNames]
  | cons n ns ih =>
    simp only [expandNames]
    cases hn : rec n with
    | error e => have := hrec n; rw [hn] at this; simpa using this
    | ok hs =>
      cases hr : expandNames rec ns with
      | error e => rw [hr] at ih; simpa using ih
      | ok rest => simp

theorem findGroup_mem_names {cfg : Config} {n : String} {g : Group}
    (h : findGroup cfg n = some g) : n ∈ cfg.groups.map (·.name) := by
  unfold findGroup at h
  have h₁ := List.mem_of_find?_eq_some h
  have h₂ := List.find?_some h
  have : g.name = n := by simpa using h₂
  exact List.mem_map.mpr ⟨g, h₁, this⟩

/-- `parents` is a repetition-free path of group names and the fuel covers the groups left. -/
def PathInv (cfg : Config) (fuel : Nat) (parents : List String) : Prop :=
  parents.Nodup ∧ (∀ p, p ∈ parents → p ∈ cfg.groups.map (·.name)) ∧
    cfg.groups.length + 1 ≤ fuel + parents.length

theorem PathInv.length_le {cfg : Config} {fuel : Nat} {parents : List String}
    (h : PathInv cfg fuel parents) : parents.length ≤ cfg.groups.length := by
  have := List.Nodup.length_le_of_subset h.1 (fun p hp => h.2.1 p hp)
  simpa using this

theorem expandHook_fuel (cfg : Config) :
    ∀ fuel parents budget name, PathInv cfg fuel parents →
      expandHook cfg fuel parents budget name ≠ .error .outOfFuel := by
  intro fuel
  induction fuel with
  | zero =>
    intro parents budget name hinv
    have := hinv.length_le
    have := hinv.2.2
    omega
  | succ fuel ih =>
    intro parents budget name hinv
    rw [expandHook_eq]
    cases budget with
    | zero => simp
    | succ budget =>
    cases hh : findHook cfg name with
    | some h => simp
    | none =>
      cases hg : findGroup cfg name with
      | none => simp
      | some g =>
        by_cases hm : name ∈ parents
        · simp [hm]
        · by_cases hd : parents.length ≥ maxHookGroupDepth
          · simp [hm, hd]
          · simp only [hm, hd, if_false]
            have hinv' : PathInv cfg fuel (parents ++ [name]) := by
              refine ⟨?_, ?_, ?_⟩
              · rw [List.nodup_append]
                refine ⟨hinv.1, by simp, ?_⟩
                intro a ha b hb hab
                simp only [List.mem_singleton] at hb
                subst hab; subst hb
                exact hm ha
              · intro p hp
                rcases List.mem_append.mp hp with hp | hp
                · exact hinv.2.1 p hp
                · simp only [List.mem_singleton] at hp
                  subst hp; exact findGroup_mem_names hg
              · have := hinv.2.2
                simp only [List.length_append, List.length_singleton]
                omega
            exact groupLoop_ne_outOfFuel (fun b n => ih _ b n hinv') _ _ _

theorem PathInv.init (cfg : Config) : PathInv cfg (expandFuel cfg) [] := by
  refine ⟨List.nodup_nil, by simp, ?_⟩
  simp [expandFuel]

/-- A group name that is already on the path is refused (unless the budget is exhausted: that test
comes first). -/
theorem expandHook_on_path (cfg : Config) (fuel : Nat) (parents : List String) (budget : Nat)
    (name : String) (g : Group) (hh : findHook cfg name = none) (hg : findGroup cfg name = some g)
    (hm : name ∈ parents) :
    expandHook cfg fuel parents (budget + 1) name = .error (.groupCycle name) := by
  rw [expandHook_eq]
  simp [hh, hg, hm]

/-- … so on the path it never expands, whatever the budget. -/
theorem expandHook_on_path_not_ok (cfg : Config) (fuel : Nat) (parents : List String) (budget : Nat)
    (name : String) (g : Group) (hh : findHook cfg name = none) (hg : findGroup cfg name = some g)
    (hm : name ∈ parents) : ∀ res, expandHook cfg fuel parents budget name ≠ .ok res := by
  intro res h
  cases budget with
  | zero => rw [expandHook_eq] at h; simp at h
  | succ b => rw [expandHook_on_path cfg fuel parents b name g hh hg hm] at h; simp at h

/-- If a name expands, each member of the group it denotes expands one level further down. -/
theorem expandHook_member {cfg : Config} {fuel : Nat} {parents : List String} {budget : Nat} {a b : String}
    {res : List Hook × Nat} (h : expandHook cfg fuel parents budget a = .ok res) (hm : Member cfg a b) :
    a ∉ parents ∧ ∃ fuel' budget' res', expandHook cfg fuel' (parents ++ [a]) budget' b = .ok res' := by
  obtain ⟨hh, g, hg, hb⟩ := hm
  rw [expandHook_eq] at h
  cases budget with
  | zero => simp at h
  | succ budget =>
  simp only [hh, hg] at h
  by_cases hp : a ∈ parents
  · simp [hp] at h
  · refine ⟨hp, ?_⟩
    simp only [hp, if_false] at h
    by_cases hd : parents.length ≥ maxHookGroupDepth
    · simp [hd] at h
    · simp only [hd, if_false] at h
      cases fuel with
      | zero => simp at h
      | succ fuel =>
        simp only at h
        obtain ⟨b₁, hs, b₂, hr'⟩ := groupLoop_mem_ok _ _ _ _ h b hb
        exact ⟨fuel, b₁, (hs, b₂), hr'⟩

theorem expandHook_reach {cfg : Config} {a b : String} (hr : Reach cfg a b) :
    ∀ fuel parents budget res, expandHook cfg fuel parents budget a = .ok res →
      ∃ fuel' parents' budget' res', (∀ p, p ∈ parents → p ∈ parents') ∧ a ∈ parents' ∧
        expandHook cfg fuel' parents' budget' b = .ok res' := by
  induction hr with
  | @step a b hm =>
    intro fuel parents budget res h
    obtain ⟨_, fuel', budget', res', h'⟩ := expandHook_member h hm
    exact ⟨fuel', parents ++ [a], budget', res', by simp +contextual, by simp, h'⟩
  | @trans a b c hm _ ih =>
    intro fuel parents budget res h
    obtain ⟨_, fuel', budget', res', h'⟩ := expandHook_member h hm
    obtain ⟨fuel'', parents'', budget'', res'', hsub, _, h''⟩ := ih fuel' (parents ++ [a]) budget' res' h'
    exact ⟨fuel'', parents'', budget'', res'', fun p hp => hsub p (by simp [hp]), hsub a (by simp), h''⟩

/-- A name from which a group lying on a membership cycle is reachable never expands. -/
theorem expandHook_cycle_not_ok {cfg : Config} {g : String} (hc : Reach cfg g g)
    (fuel : Nat) (parents : List String) (budget : Nat) :
    ∀ res, expandHook cfg fuel parents budget g ≠ .ok res := by
  intro res h
  obtain ⟨fuel', parents', budget', res', _, hmem, h'⟩ := expandHook_reach hc fuel parents budget res h
  have hm : ∃ x, Member cfg g x := by
    cases hc with
    | step hm => exact ⟨_, hm⟩
    | trans hm _ => exact ⟨_, hm⟩
  obtain ⟨x, hh, grp, hg, _⟩ := hm
  exact expandHook_on_path_not_ok cfg fuel' parents' budget' g grp hh hg hmem res' h'

theorem expandHook_reaches_cycle_not_ok {cfg : Config} {a g : String} (ha : Reach cfg a g)
    (hc : Reach cfg g g) (fuel : Nat) (parents : List String) (budget : Nat) :
    ∀ res, expandHook cfg fuel parents budget a ≠ .ok res := by
  intro res h
  obtain ⟨fuel', parents', budget', res', _, _, h'⟩ := expandHook_reach ha fuel parents budget res h
  exact expandHook_cycle_not_ok hc fuel' parents' budget' res' h'

/-! ### What an expansion denotes -/

theorem _root_.AcmedVerif.Spec.C14.ExpandsList.nil_inv {cfg : Config} {r : List Hook} (h : ExpandsList cfg [] r) : r = [] := by
  cases h; rfl

theorem _root_.AcmedVerif.Spec.C14.ExpandsList.cons_of_single {cfg : Config} {n : String} {ns : List String}
    {r₁ r₂ : List Hook} (h₁ : ExpandsList cfg [n] r₁) (h₂ : ExpandsList cfg ns r₂) :
    ExpandsList cfg (n :: ns) (r₁ ++ r₂) := by
  cases h₁ with
  | hook hh hrest =>
    have := hrest.nil_inv; subst this
    exact .hook hh h₂
  | group hh hg hmem hrest =>
    have := hrest.nil_inv; subst this
    simp only [List.append_nil]
    exact .group hh hg hmem h₂

theorem _root_.AcmedVerif.Spec.C14.VisitsList.nil_inv {cfg : Config} {d k : Nat}
    (h : VisitsList cfg d [] k) : k = 0 := by
  cases h; rfl

theorem _root_.AcmedVerif.Spec.C14.VisitsList.cons_of_single {cfg : Config} {d : Nat} {n : String}
    {ns : List String} {k₁ k₂ : Nat} (h₁ : VisitsList cfg d [n] k₁) (h₂ : VisitsList cfg d ns k₂) :
    VisitsList cfg d (n :: ns) (k₁ + k₂) := by
  cases h₁ with
  | hook hh hrest =>
    have := hrest.nil_inv; subst this
    have h := VisitsList.hook hh h₂
    rwa [show k₂ + 1 = 0 + 1 + k₂ by omega] at h
  | group hh hg hd hmem hrest =>
    have := hrest.nil_inv; subst this
    have h := VisitsList.group hh hg hd hmem h₂
    rwa [show ∀ a, 1 + a + k₂ = 1 + a + 0 + k₂ by intro a; omega] at h

theorem expandNames_denotes {cfg : Config} {rec : String → Except Err (List Hook)}
    (hrec : ∀ n r, rec n = .ok r → ExpandsList cfg [n] r) :
    ∀ ns r, expandNames rec ns = .ok r → ExpandsList cfg ns r := by
  intro ns
  induction ns with
  | nil =>
    intro r h
    simp only [expandNames, Except.ok.injEq] at h
    subst h; exact .nil
  | cons n ns ih =>
    intro r h
    simp only [expandNames] at h
    cases hn : rec n with
    | error e => simp [hn] at h
    | ok hs =>
      simp only [hn] at h
      cases hr : expandNames rec ns with
      | error e => simp [hr] at h
      | ok rest =>
        simp only [hr, Except.ok.injEq] at h
        subst h
        exact (hrec n hs hn).cons_of_single (ih rest hr)

theorem _root_.AcmedVerif.Spec.C14.ExpandsList.append {cfg : Config} {a b : List String} {r₁ r₂ : List Hook}
    (h₁ : ExpandsList cfg a r₁) (h₂ : ExpandsList cfg b r₂) : ExpandsList cfg (a ++ b) (r₁ ++ r₂) := by
  induction h₁ with
  | nil => simpa using h₂
  | hook hh _ ih => exact .hook hh ih
  | group hh hg hmem _ _ ih₂ =>
    have := ExpandsList.group hh hg hmem ih₂
    simpa [List.append_assoc] using this

/-- What a successful group loop returns: what it had, then what its members denote, in order. -/
theorem groupLoop_denotes {cfg : Config} {rec : Nat → String → Except Err (List Hook × Nat)}
    (hrec : ∀ b n hs b', rec b n = .ok (hs, b') → ExpandsList cfg [n] hs) :
    ∀ (ns : List String) (acc : List Hook) (b : Nat) (r : List Hook) (b' : Nat),
      groupLoop rec ns acc b = .ok (r, b') → ∃ r', r = acc ++ r' ∧ ExpandsList cfg ns r' := by
  intro ns
  induction ns with
  | nil =>
    intro acc b r b' h
    simp only [groupLoop, Except.ok.injEq, Prod.mk.injEq] at h
    exact ⟨[], by simp [h.1], .nil⟩
  | cons n ns ih =>
    intro acc b r b' h
    simp only [groupLoop] at h
    cases hn : rec b n with
    | error e => simp [hn] at h
    | ok res =>
      obtain ⟨hs, b₁⟩ := res
      simp only [hn] at h
      obtain ⟨r', hr, hd⟩ := ih _ _ _ _ h
      exact ⟨hs ++ r', by simp [hr], (hrec b n hs b₁ hn).cons_of_single hd⟩

theorem expandHook_denotes (cfg : Config) :
    ∀ fuel parents budget n r b', expandHook cfg fuel parents budget n = .ok (r, b') →
      ExpandsList cfg [n] r := by
  intro fuel
  induction fuel with
  | zero =>
    intro parents budget n r b' h
    rw [expandHook_eq] at h
    cases budget with
    | zero => simp at h
    | succ budget =>
    cases hh : findHook cfg n with
    | some hk =>
      simp only [hh, Except.ok.injEq, Prod.mk.injEq] at h
      rw [← h.1]; exact .hook hh .nil
    | none =>
      simp only [hh] at h
      cases hg : findGroup cfg n with
      | none => simp [hg] at h
      | some g =>
        simp only [hg] at h
        by_cases hm : n ∈ parents
        · simp [hm] at h
        · by_cases hd : parents.length ≥ maxHookGroupDepth <;> simp [hm, hd] at h
  | succ fuel ih =>
    intro parents budget n r b' h
    rw [expandHook_eq] at h
    cases budget with
    | zero => simp at h
    | succ budget =>
    cases hh : findHook cfg n with
    | some hk =>
      simp only [hh, Except.ok.injEq, Prod.mk.injEq] at h
      rw [← h.1]; exact .hook hh .nil
    | none =>
      simp only [hh] at h
      cases hg : findGroup cfg n with
      | none => simp [hg] at h
      | some g =>
        simp only [hg] at h
        by_cases hm : n ∈ parents
        · simp [hm] at h
        · simp only [hm, if_false] at h
          by_cases hd : parents.length ≥ maxHookGroupDepth
          · simp [hd] at h
          · simp only [hd, if_false] at h
            obtain ⟨r', hr, hden⟩ := groupLoop_denotes (fun b m hs b₁ => ih (parents ++ [n]) b m hs b₁)
              g.hooks [] budget r b' h
            have h2 := ExpandsList.group (ns := []) hh hg hden .nil
            simpa [hr] using h2

theorem _root_.AcmedVerif.Spec.C14.ExpandsList.unique {cfg : Config} {ns : List String} {r r' : List Hook}
    (h : ExpandsList cfg ns r) (h' : ExpandsList cfg ns r') : r = r' := by
  induction h generalizing r' with
  | nil => exact h'.nil_inv.symm
  | hook hh _ ih =>
    cases h' with
    | hook hh' hr =>
      rw [hh] at hh'; cases hh'
      rw [ih hr]
    | group hh' _ _ _ => rw [hh] at hh'; cases hh'
  | group hh hg _ _ ih₁ ih₂ =>
    cases h' with
    | hook hh' _ => rw [hh] at hh'; cases hh'
    | group _ hg' hm hr =>
      rw [hg] at hg'; cases hg'
      rw [ih₁ hm, ih₂ hr]

theorem _root_.AcmedVerif.Spec.C14.ExpandsList.resolves {cfg : Config} {ns : List String} {r : List Hook}
    (h : ExpandsList cfg ns r) : ∀ n, n ∈ ns → Resolves cfg n := by
  induction h with
  | nil => intro n hn; simp at hn
  | hook hh _ ih =>
    intro m hm
    rcases List.mem_cons.mp hm with hm | hm
    · subst hm; exact .hook hh
    · exact ih m hm
  | group hh hg _ _ ih₁ ih₂ =>
    intro m hm
    rcases List.mem_cons.mp hm with hm | hm
    · subst hm; exact .group hh hg ih₁
    · exact ih₂ m hm

theorem getHook_denotes {cfg : Config} {n : String} {r : List Hook} (h : getHook cfg n = .ok r) :
    ExpandsList cfg [n] r := by
  obtain ⟨b, hb⟩ := getHook_ok h
  exact expandHook_denotes cfg _ _ _ n r b hb

theorem getHooks_denotes {cfg : Config} {names : List String} {r : List Hook}
    (h : getHooks cfg names = .ok r) : ExpandsList cfg names r :=
  expandNames_denotes (fun _ _ hn => getHook_denotes hn) names r h


/-! ## `MainEventLoop::new` -/

theorem resolveRateLimits_ok {cfg : Config} :
    ∀ (ns : List String) (r : List (Nat × Val)), resolveRateLimits cfg ns = .ok r →
      ∀ n, n ∈ ns → (findRateLimit cfg n).isSome = true := by
  intro ns
  induction ns with
  | nil => intro r _ n hn; simp at hn
  | cons a ns ih =>
    intro r h n hn
    simp only [resolveRateLimits] at h
    cases ha : findRateLimit cfg a with
    | none => simp [ha] at h
    | some rl =>
      simp only [ha] at h
      cases hr : resolveRateLimits cfg ns with
      | error e => simp [hr] at h
      | ok rest =>
        rcases List.mem_cons.mp hn with hn | hn
        · subst hn; simp [ha]
        · exact ih rest hr n hn

theorem buildAccounts_ok {cfg : Config} :
    ∀ (as : List Account) (r : List BuiltAccount), buildAccounts cfg as = .ok r →
      r.map (·.name) = as.map (·.name) ∧
      ∀ a, a ∈ as → ∃ hs, ExpandsList cfg a.hooks hs ∧
        ({ name := a.name, hooks := hs } : BuiltAccount) ∈ r := by
  intro as
  induction as with
  | nil =>
    intro r h
    simp only [buildAccounts, Except.ok.injEq] at h
    subst h; simp
  | cons a as ih =>
    intro r h
    simp only [buildAccounts] at h
    cases hh : getHooks cfg a.hooks with
    | error e => simp [hh] at h
    | ok hs =>
      simp only [hh] at h
      cases hr : buildAccounts cfg as with
      | error e => simp [hr] at h
      | ok rest =>
        simp only [hr, Except.ok.injEq] at h
        subst h
        obtain ⟨ih₁, ih₂⟩ := ih rest hr
        refine ⟨by simp [ih₁], ?_⟩
        intro b hb
        rcases List.mem_cons.mp hb with hb | hb
        · subst hb; exact ⟨hs, getHooks_denotes hh, by simp⟩
        · obtain ⟨hs', h₁, h₂⟩ := ih₂ b hb
          exact ⟨hs', h₁, by simp [h₂]⟩

/-- What one successfully built certificate guarantees and contains. -/
structure CertBuilt (cfg : Config) (c : Certificate) (bc : BuiltCert) : Prop where
  ep : ∃ ep, findEndpoint cfg c.endpoint = some ep ∧ bc.endpoint = ep.name ∧
    resolveRateLimits cfg ep.rateLimits = .ok bc.rateLimits
  hooks : ExpandsList cfg c.hooks bc.hooks
  crtId : bc.crtId = c.crtId
  account : bc.account = c.account
  renewDelay : effectiveRenewDelay cfg c = .ok bc.renewDelay
  randomEarlyRenew : effectiveRandomEarlyRenew cfg c = .ok bc.randomEarlyRenew
  fileNameFormat : effectiveFileNameFormat cfg c = .ok bc.fileNameFormat
  directory : bc.directory = effectiveDirectory cfg c
  env : bc.env = c.env

theorem buildCert_ok {cfg : Config} {c : Certificate} {bc : BuiltCert}
    (h : buildCert cfg c = .ok bc) : CertBuilt cfg c bc := by
  unfold buildCert at h
  cases hep : findEndpoint cfg c.endpoint with
  | none => simp [hep] at h
  | some ep =>
    simp only [hep] at h
    cases hrl : resolveRateLimits cfg ep.rateLimits with
    | error e => simp [hrl] at h
    | ok rls =>
      simp only [hrl] at h
      cases hh : getHooks cfg c.hooks with
      | error e => simp [hh] at h
      | ok hs =>
        simp only [hh] at h
        cases hf : effectiveFileNameFormat cfg c with
        | error e => simp [hf] at h
        | ok fmt =>
          simp only [hf] at h
          cases hr : effectiveRandomEarlyRenew cfg c with
          | error e => simp [hr] at h
          | ok rer =>
            simp only [hr] at h
            cases hd : effectiveRenewDelay cfg c with
            | error e => simp [hd] at h
            | ok rd =>
              simp only [hd, Except.ok.injEq] at h
              subst h
              exact ⟨⟨ep, hep, rfl, hrl⟩, getHooks_denotes hh, rfl, rfl, hd, hr, hf, rfl, rfl⟩

theorem buildCerts_ok {cfg : Config} :
    ∀ (cs : List Certificate) (seen : List String) (r : List BuiltCert),
      buildCerts cfg cs seen = .ok r →
      (∃ _ : r.length = cs.length, ∀ i (hi : i < cs.length), CertBuilt cfg cs[i] (r[i]'(by omega))) ∧
      (∀ c, c ∈ cs → ∃ a, a ∈ cfg.accounts ∧ a.name = c.account) ∧
      (cs.map (·.crtId)).Nodup ∧ (∀ c, c ∈ cs → c.crtId ∉ seen) := by
  intro cs
  induction cs with
  | nil =>
    intro seen r h
    simp only [buildCerts, Except.ok.injEq] at h
    subst h
    exact ⟨⟨rfl, fun i hi => absurd hi (by simp)⟩, by simp, by simp, by simp⟩
  | cons c cs ih =>
    intro seen r h
    simp only [buildCerts] at h
    cases hb : buildCert cfg c with
    | error e => simp [hb] at h
    | ok bc =>
      simp only [hb] at h
      by_cases hs : c.crtId ∈ seen
      · simp [hs] at h
      · simp only [hs, if_false] at h
        by_cases ha : cfg.accounts.any (·.name == c.account) = true
        · simp only [ha, if_true] at h
          cases hr : buildCerts cfg cs (c.crtId :: seen) with
          | error e => simp [hr] at h
          | ok rest =>
            simp only [hr, Except.ok.injEq] at h
            subst h
            obtain ⟨⟨hlen, hall⟩, hacc, hnd, hseen⟩ := ih _ _ hr
            refine ⟨⟨by simp [hlen], ?_⟩, ?_, ?_, ?_⟩
            · intro i hi
              cases i with
              | zero => exact buildCert_ok hb
              | succ i => exact hall i (by simpa using hi)
            · intro c' hc'
              rcases List.mem_cons.mp hc' with hc' | hc'
              · subst hc'
                obtain ⟨a, ha₁, ha₂⟩ := List.any_eq_true.mp ha
                exact ⟨a, ha₁, by simpa using ha₂⟩
              · exact hacc c' hc'
            · rw [List.map_cons, List.nodup_cons]
              refine ⟨?_, hnd⟩
              intro hm
              obtain ⟨c', hc', hid⟩ := List.mem_map.mp hm
              exact hseen c' hc' (by simp [hid])
            · intro c' hc'
              rcases List.mem_cons.mp hc' with hc' | hc'
              · subst hc'; exact hs
              · intro hm; exact hseen c' hc' (by simp [hm])
        · simp [ha] at h


/-! ## The model's own prediction satisfies the judge -/

theorem CertBuilt.obs {cfg : Config} {c : Certificate} {bc : BuiltCert} (d : Defaults)
    (h : CertBuilt cfg c bc) : CertObs.ofBuilt d bc = expectedCert d cfg c := by
  obtain ⟨ep, hep, _, _⟩ := h.ep
  have h₁ := h.renewDelay
  have h₂ := h.randomEarlyRenew
  have h₃ := h.fileNameFormat
  unfold effectiveRenewDelay at h₁
  unfold effectiveRandomEarlyRenew at h₂
  unfold effectiveFileNameFormat at h₃
  rw [certLevel_found cfg c _ _ _ ep hep] at h₁ h₂ h₃
  simp only [Except.ok.injEq] at h₁ h₂ h₃
  have hfind : cfg.endpoints.find? (·.name == c.endpoint) = some ep := hep
  simp only [CertObs.ofBuilt, expectedCert, hfind, Option.bind_some, h.crtId, ← h₁, ← h₂, ← h₃,
    h.directory, effectiveDirectory_eq]

theorem filter_by_id (d : Defaults) (cfg : Config) :
    ∀ (cs : List Certificate), (cs.map (·.crtId)).Nodup → ∀ c, c ∈ cs →
      (cs.map (expectedCert d cfg)).filter (fun o => o.crtId == c.crtId) = [expectedCert d cfg c] := by
  intro cs
  induction cs with
  | nil => intro _ c hc; simp at hc
  | cons a cs ih =>
    intro hnd c hc
    rw [List.map_cons, List.nodup_cons] at hnd
    have hid : ∀ x : Certificate, (expectedCert d cfg x).crtId = x.crtId := fun _ => rfl
    rcases List.mem_cons.mp hc with hc | hc
    · subst hc
      have hnone : (cs.map (expectedCert d cfg)).filter (fun o => o.crtId == c.crtId) = [] := by
        rw [List.filter_eq_nil_iff]
        intro o ho
        obtain ⟨x, hx, rfl⟩ := List.mem_map.mp ho
        intro heq
        have : x.crtId = c.crtId := by simpa [hid] using heq
        exact hnd.1 (List.mem_map.mpr ⟨x, hx, this⟩)
      simp [hid, hnone]
    · have hne : ¬ a.crtId = c.crtId := by
        intro heq
        exact hnd.1 (List.mem_map.mpr ⟨c, hc, heq.symm⟩)
      simp [hid, hne, ih hnd.2 c hc]

theorem holdsSettings_expected (d : Defaults) (cfg : Config)
    (hnd : (cfg.certificates.map (·.crtId)).Nodup) :
    holdsSettings d cfg (cfg.certificates.map (expectedCert d cfg)) = true := by
  unfold holdsSettings
  simp only [List.length_map, beq_self_eq_true, Bool.true_and, List.all_eq_true]
  intro c hc
  rw [filter_by_id d cfg _ hnd c hc]
  simp

theorem build_ok {cfg : Config} {b : Built} (h : build cfg = .ok b) :
    buildAccounts cfg cfg.accounts = .ok b.accounts ∧
    buildCerts cfg cfg.certificates [] = .ok b.certificates := by
  unfold build at h
  cases ha : buildAccounts cfg cfg.accounts with
  | error e => simp [ha] at h
  | ok accs =>
    simp only [ha] at h
    cases hc : buildCerts cfg cfg.certificates [] with
    | error e => simp [hc] at h
    | ok certs =>
      simp only [hc, Except.ok.injEq] at h
      subst h; exact ⟨rfl, rfl⟩

theorem build_obs {cfg : Config} {b : Built} (d : Defaults) (h : build cfg = .ok b) :
    b.certificates.map (CertObs.ofBuilt d) = cfg.certificates.map (expectedCert d cfg) := by
  obtain ⟨⟨hlen, hall⟩, _⟩ := buildCerts_ok _ _ _ (build_ok h).2
  apply List.ext_getElem
  · simp [hlen]
  · intro i h₁ h₂
    simp only [List.getElem_map]
    exact (hall i (by simpa using h₂)).obs d


/-! ## More fuel never changes an answer other than "out of fuel" -/

theorem includeLoop_mono {rec rec' : Path → List Path → Except Err (Config × List Path)}
    (hrec : ∀ p loaded, rec p loaded ≠ .error .outOfFuel → rec' p loaded = rec p loaded) :
    ∀ ps cfg loaded, includeLoop rec ps cfg loaded ≠ .error .outOfFuel →
      includeLoop rec' ps cfg loaded = includeLoop rec ps cfg loaded := by
  intro ps
  induction ps with
  | nil => intro cfg loaded _; rfl
  | cons p ps ih =>
    intro cfg loaded h
    simp only [includeLoop] at h ⊢
    cases hr : rec p loaded with
    | error e =>
      have hne : rec p loaded ≠ .error .outOfFuel := by
        intro hc; rw [hr] at hc h; exact h (by simp_all)
      rw [hrec p loaded hne, hr]
    | ok res =>
      have hne : rec p loaded ≠ .error .outOfFuel := by rw [hr]; simp
      rw [hrec p loaded hne, hr]
      rw [hr] at h
      exact ih _ _ h

theorem readCnf_mono {π : Type} (files : Files π) (resolve : Path → π → List Path) :
    ∀ fuel depth path loaded, readCnf files resolve fuel depth path loaded ≠ .error .outOfFuel →
      readCnf files resolve (fuel + 1) depth path loaded = readCnf files resolve fuel depth path loaded := by
  intro fuel
  induction fuel with
  | zero =>
    intro depth path loaded h
    rw [readCnf_eq] at h
    rw [readCnf_eq files resolve 1, readCnf_eq files resolve 0]
    cases hf : lookupFile files path with
    | none => rfl
    | some fc =>
      by_cases hd : depth > maxIncludeDepth
      · simp [hd]
      · by_cases hm : path ∈ loaded
        · simp [hd, hm]
        · simp [hf, hd, hm] at h
  | succ fuel ih =>
    intro depth path loaded h
    rw [readCnf_eq] at h
    rw [readCnf_eq files resolve (fuel + 1 + 1), readCnf_eq files resolve (fuel + 1)]
    cases hf : lookupFile files path with
    | none => rfl
    | some fc =>
      by_cases hd : depth > maxIncludeDepth
      · simp [hd]
      · by_cases hm : path ∈ loaded
        · simp [hd, hm]
        · simp only [hf, hd, hm, if_false] at h ⊢
          exact includeLoop_mono (fun p l hne => ih (depth + 1) p l hne) _ _ _ h

theorem readCnf_more_fuel {π : Type} (files : Files π) (resolve : Path → π → List Path)
    (fuel extra depth : Nat) (path : Path) (loaded : List Path)
    (h : readCnf files resolve fuel depth path loaded ≠ .error .outOfFuel) :
    readCnf files resolve (fuel + extra) depth path loaded = readCnf files resolve fuel depth path loaded := by
  induction extra with
  | zero => rfl
  | succ k ih =>
    rw [← Nat.add_assoc, readCnf_mono files resolve (fuel + k) depth path loaded (by rw [ih]; exact h), ih]


/-! ## Completeness: `build` fails ONLY for an unresolved reference or a duplicate id -/

theorem _root_.AcmedVerif.Spec.C14.Reach.snoc {cfg : Config} {a b c : String} (h : Reach cfg a b) (hm : Member cfg b c) :
    Reach cfg a c := by
  induction h with
  | step h₁ => exact .trans h₁ (.step hm)
  | trans h₁ _ ih => exact .trans h₁ (ih hm)

/-- A name that resolves lies on no membership cycle. -/
theorem _root_.AcmedVerif.Spec.C14.Resolves.acyclic {cfg : Config} {n : String} (h : Resolves cfg n) :
    ∀ m, Reach cfg n m → m ≠ n := by
  induction h with
  | hook hh =>
    intro m hr
    cases hr with
    | step hm => rw [hm.1] at hh; cases hh
    | trans hm _ => rw [hm.1] at hh; cases hh
  | @group n g hh hg _ ih =>
    intro m hr hmn
    subst hmn
    -- first step of the cycle: `m → x` with `x` a member of `g`
    have first : ∃ x, x ∈ g.hooks ∧ (x = m ∨ Reach cfg x m) := by
      cases hr with
      | step hm =>
        obtain ⟨_, g', hg', hx⟩ := hm
        rw [hg] at hg'; cases hg'
        exact ⟨_, hx, .inl rfl⟩
      | trans hm hrest =>
        obtain ⟨_, g', hg', hx⟩ := hm
        rw [hg] at hg'; cases hg'
        exact ⟨_, hx, .inr hrest⟩
    obtain ⟨x, hx, hcase⟩ := first
    have hmx : Member cfg m x := ⟨hh, g, hg, hx⟩
    rcases hcase with rfl | hxm
    · exact ih x hx x (.step hmx) rfl
    · exact ih x hx x (hxm.snoc hmx) rfl

theorem expandNames_error {rec : String → Except Err (List Hook)} :
    ∀ (ns : List String) (e : Err), expandNames rec ns = .error e → ∃ n, n ∈ ns ∧ rec n = .error e := by
  intro ns
  induction ns with
  | nil => intro e h; simp [expandNames] at h
  | cons n ns ih =>
    intro e h
    simp only [expandNames] at h
    cases hn : rec n with
    | error e' =>
      simp only [hn, Except.error.injEq] at h
      subst h; exact ⟨n, by simp, hn⟩
    | ok hs =>
      simp only [hn] at h
      cases hr : expandNames rec ns with
      | error e' =>
        simp only [hr, Except.error.injEq] at h
        subst h
        obtain ⟨m, hm, hme⟩ := ih e' hr
        exact ⟨m, by simp [hm], hme⟩
      | ok rest => simp [hr] at h

/-- What is visited resolves. -/
theorem _root_.AcmedVerif.Spec.C14.VisitsList.resolves {cfg : Config} {d : Nat} {ns : List String} {k : Nat}
    (h : VisitsList cfg d ns k) : ∀ n, n ∈ ns → Resolves cfg n := by
  induction h with
  | nil => intro n hn; simp at hn
  | hook hh _ ih =>
    intro m hm
    rcases List.mem_cons.mp hm with hm | hm
    · subst hm; exact .hook hh
    · exact ih m hm
  | group hh hg _ _ _ ih₁ ih₂ =>
    intro m hm
    rcases List.mem_cons.mp hm with hm | hm
    · subst hm; exact .group hh hg ih₁
    · exact ih₂ m hm

/-- The number of visits is determined by the configuration. -/
theorem _root_.AcmedVerif.Spec.C14.VisitsList.unique {cfg : Config} {d : Nat} {ns : List String} {k k' : Nat}
    (h : VisitsList cfg d ns k) (h' : VisitsList cfg d ns k') : k = k' := by
  induction h generalizing k' with
  | nil => exact h'.nil_inv.symm
  | hook hh _ ih =>
    cases h' with
    | hook _ hr => rw [ih hr]
    | group hh' _ _ _ _ => rw [hh] at hh'; cases hh'
  | group hh hg _ _ _ ih₁ ih₂ =>
    cases h' with
    | hook hh' _ => rw [hh] at hh'; cases hh'
    | group _ hg' _ hm hr =>
      rw [hg] at hg'; cases hg'
      rw [ih₁ hm, ih₂ hr]

/-- Completeness of the group loop and of `get_hook_rec` at once: names that are visited within the
budget, along a path that leads to them and is as long as their nesting level, expand — the budget
goes down by exactly the number of visits — or the fuel runs out. -/
theorem _root_.AcmedVerif.Spec.C14.VisitsList.loop {cfg : Config} {d : Nat} {ns : List String} {k : Nat}
    (h : VisitsList cfg d ns k) :
    ∀ fuel parents acc b, parents.length = d → (∀ p, p ∈ parents → ∀ n, n ∈ ns → Reach cfg p n) → k ≤ b →
      (∃ r', groupLoop (expandHook cfg fuel parents) ns acc b = .ok (acc ++ r', b - k)) ∨
      groupLoop (expandHook cfg fuel parents) ns acc b = .error .outOfFuel := by
  induction h with
  | nil => intro fuel parents acc b _ _ _; exact .inl ⟨[], by simp [groupLoop]⟩
  | @hook d n ns hk k hh _ ih =>
    intro fuel parents acc b hlen hpath hb
    obtain ⟨b0, rfl⟩ : ∃ b0, b = b0 + 1 := ⟨b - 1, by omega⟩
    have hstep : expandHook cfg fuel parents (b0 + 1) n = .ok ([hk], b0) := by
      rw [expandHook_eq]; simp [hh]
    simp only [groupLoop, hstep]
    rcases ih fuel parents (acc ++ [hk]) b0 hlen (fun p hp m hm => hpath p hp m (by simp [hm])) (by omega)
      with ⟨r', hr'⟩ | he
    · left; refine ⟨hk :: r', ?_⟩
      rw [hr']; simp only [List.append_assoc, List.singleton_append, Except.ok.injEq, Prod.mk.injEq, true_and]
      omega
    · exact .inr he
  | @group d n ns g k₁ k₂ hh hg hdepth hmem hrest ih₁ ih₂ =>
    intro fuel parents acc b hlen hpath hb
    obtain ⟨b0, rfl⟩ : ∃ b0, b = b0 + 1 := ⟨b - 1, by omega⟩
    have hres : Resolves cfg n := .group hh hg hmem.resolves
    have hnot : n ∉ parents := fun hp => hres.acyclic n (hpath n hp n (by simp)) rfl
    have hnd : ¬ parents.length ≥ maxHookGroupDepth := by omega
    have hstep : expandHook cfg fuel parents (b0 + 1) n =
        match fuel with
        | 0 => .error .outOfFuel
        | fuel + 1 => groupLoop (expandHook cfg fuel (parents ++ [n])) g.hooks [] b0 := by
      rw [expandHook_eq]; simp only [hh, hg, hnot, hnd, if_false]
    cases fuel with
    | zero =>
      right
      simp only [groupLoop, hstep]
    | succ fuel =>
      simp only at hstep
      have hpath' : ∀ p, p ∈ parents ++ [n] → ∀ m, m ∈ g.hooks → Reach cfg p m := by
        intro p hp m hm
        have hnm : Member cfg n m := ⟨hh, g, hg, hm⟩
        rcases List.mem_append.mp hp with hp | hp
        · exact (hpath p hp n (by simp)).snoc hnm
        · simp only [List.mem_singleton] at hp
          subst hp; exact .step hnm
      rcases ih₁ fuel (parents ++ [n]) [] b0 (by simp [hlen]) hpath' (by omega) with ⟨r₁, hr₁⟩ | he
      · simp only [List.nil_append] at hr₁
        simp only [groupLoop, hstep, hr₁]
        rcases ih₂ (fuel + 1) parents (acc ++ r₁) (b0 - k₁) hlen
          (fun p hp m hm => hpath p hp m (by simp [hm])) (by omega) with ⟨r₂, hr₂⟩ | he
        · left; refine ⟨r₁ ++ r₂, ?_⟩
          rw [hr₂]; simp only [List.append_assoc, Except.ok.injEq, Prod.mk.injEq, true_and]
          omega
        · exact .inr he
      · right
        simp only [groupLoop, hstep, he]

theorem getHook_ok_of_within {cfg : Config} {n : String} (h : ResolvesWithin cfg n) :
    ∃ r, getHook cfg n = .ok r := by
  obtain ⟨k, hv, hk⟩ := h
  have := hv.loop (expandFuel cfg) [] [] maxHookGroupMembers rfl (by simp) hk
  simp only [groupLoop, List.nil_append] at this
  unfold getHook
  cases he : expandHook cfg (expandFuel cfg) [] maxHookGroupMembers n with
  | ok res => obtain ⟨hs, b⟩ := res; exact ⟨hs, rfl⟩
  | error e =>
    rw [he] at this
    rcases this with ⟨r', hr'⟩ | hf
    · simp at hr'
    · simp only [Except.error.injEq] at hf
      subst hf
      exact absurd he (expandHook_fuel cfg _ [] _ n (PathInv.init cfg))

theorem getHooks_ok_of_within {cfg : Config} :
    ∀ names : List String, (∀ n, n ∈ names → ResolvesWithin cfg n) → ∃ r, getHooks cfg names = .ok r := by
  intro names
  induction names with
  | nil => intro _; exact ⟨[], rfl⟩
  | cons n ns ih =>
    intro h
    obtain ⟨r₁, h₁⟩ := getHook_ok_of_within (h n (by simp))
    obtain ⟨r₂, h₂⟩ := ih (fun m hm => h m (by simp [hm]))
    refine ⟨r₁ ++ r₂, ?_⟩
    unfold getHooks at h₂ ⊢
    simp [expandNames, h₁, h₂]

/-- Soundness of the group loop: what it expands was visited, and cost what the budget lost. -/
theorem groupLoop_visits {cfg : Config} {d : Nat} {rec : Nat → String → Except Err (List Hook × Nat)}
    (hrec : ∀ b n hs b', rec b n = .ok (hs, b') → ∃ k, VisitsList cfg d [n] k ∧ b = b' + k) :
    ∀ (ns : List String) (acc : List Hook) (b : Nat) (r : List Hook) (b' : Nat),
      groupLoop rec ns acc b = .ok (r, b') → ∃ k, VisitsList cfg d ns k ∧ b = b' + k := by
  intro ns
  induction ns with
  | nil =>
    intro acc b r b' h
    simp only [groupLoop, Except.ok.injEq, Prod.mk.injEq] at h
    exact ⟨0, .nil, by omega⟩
  | cons n ns ih =>
    intro acc b r b' h
    simp only [groupLoop] at h
    cases hn : rec b n with
    | error e => simp [hn] at h
    | ok res =>
      obtain ⟨hs, b₁⟩ := res
      simp only [hn] at h
      obtain ⟨k₁, hv₁, hb₁⟩ := hrec b n hs b₁ hn
      obtain ⟨k₂, hv₂, hb₂⟩ := ih _ _ _ _ h
      exact ⟨k₁ + k₂, hv₁.cons_of_single hv₂, by omega⟩

/-- Soundness of the limits: whatever `get_hook_rec` expands, met at nesting level `|parents|`, was
visited member by member, and the budget went down by the number of visits. -/
theorem expandHook_visits (cfg : Config) :
    ∀ fuel parents budget n r b', expandHook cfg fuel parents budget n = .ok (r, b') →
      ∃ k, VisitsList cfg parents.length [n] k ∧ budget = b' + k := by
  intro fuel
  induction fuel with
  | zero =>
    intro parents budget n r b' h
    rw [expandHook_eq] at h
    cases budget with
    | zero => simp at h
    | succ budget =>
    cases hh : findHook cfg n with
    | some hk =>
      simp only [hh, Except.ok.injEq, Prod.mk.injEq] at h
      exact ⟨1, .hook hh .nil, by omega⟩
    | none =>
      simp only [hh] at h
      cases hg : findGroup cfg n with
      | none => simp [hg] at h
      | some g =>
        simp only [hg] at h
        by_cases hm : n ∈ parents
        · simp [hm] at h
        · by_cases hd : parents.length ≥ maxHookGroupDepth <;> simp [hm, hd] at h
  | succ fuel ih =>
    intro parents budget n r b' h
    rw [expandHook_eq] at h
    cases budget with
    | zero => simp at h
    | succ budget =>
    cases hh : findHook cfg n with
    | some hk =>
      simp only [hh, Except.ok.injEq, Prod.mk.injEq] at h
      exact ⟨1, .hook hh .nil, by omega⟩
    | none =>
      simp only [hh] at h
      cases hg : findGroup cfg n with
      | none => simp [hg] at h
      | some g =>
        simp only [hg] at h
        by_cases hm : n ∈ parents
        · simp [hm] at h
        · simp only [hm, if_false] at h
          by_cases hd : parents.length ≥ maxHookGroupDepth
          · simp [hd] at h
          · simp only [hd, if_false] at h
            have hrec : ∀ b m hs b₁, expandHook cfg fuel (parents ++ [n]) b m = .ok (hs, b₁) →
                ∃ k, VisitsList cfg (parents.length + 1) [m] k ∧ b = b₁ + k := by
              intro b m hs b₁ hm'
              have := ih (parents ++ [n]) b m hs b₁ hm'
              simpa using this
            obtain ⟨k, hv, hb⟩ := groupLoop_visits hrec g.hooks [] budget r b' h
            have h2 := VisitsList.group (ns := []) hh hg (by omega) hv .nil
            exact ⟨1 + k + 0, h2, by omega⟩

theorem getHook_within {cfg : Config} {n : String} {r : List Hook} (h : getHook cfg n = .ok r) :
    ResolvesWithin cfg n := by
  obtain ⟨b, hb⟩ := getHook_ok h
  obtain ⟨k, hv, hk⟩ := expandHook_visits cfg _ _ _ n r b hb
  exact ⟨k, by simpa using hv, by omega⟩

theorem getHooks_within {cfg : Config} {names : List String} {r : List Hook}
    (h : getHooks cfg names = .ok r) : ∀ n, n ∈ names → ResolvesWithin cfg n := by
  intro n hn
  obtain ⟨r', hr'⟩ := expandNames_mem_ok h hn
  exact getHook_within hr'

theorem resolveRateLimits_complete {cfg : Config} :
    ∀ ns : List String, (∀ n, n ∈ ns → (findRateLimit cfg n).isSome = true) →
      ∃ r, resolveRateLimits cfg ns = .ok r := by
  intro ns
  induction ns with
  | nil => intro _; exact ⟨[], rfl⟩
  | cons n ns ih =>
    intro h
    obtain ⟨r, hr⟩ := ih (fun m hm => h m (by simp [hm]))
    have hn := h n (by simp)
    cases hf : findRateLimit cfg n with
    | none => simp [hf] at hn
    | some rl => exact ⟨(rl.number, rl.period) :: r, by simp [resolveRateLimits, hf, hr]⟩

theorem buildCert_complete {cfg : Config} {c : Certificate} (h : CertRefsOk cfg c)
    (hw : ∀ hk, hk ∈ c.hooks → ResolvesWithin cfg hk) :
    ∃ bc, buildCert cfg c = .ok bc := by
  obtain ⟨⟨ep, hep, hrl⟩, _, _⟩ := h
  obtain ⟨rls, hrls⟩ := resolveRateLimits_complete ep.rateLimits hrl
  obtain ⟨hs, hhs⟩ := getHooks_ok_of_within c.hooks hw
  unfold buildCert
  simp only [hep, hrls, hhs, effectiveFileNameFormat, effectiveRandomEarlyRenew, effectiveRenewDelay,
    certLevel_found cfg c _ _ _ ep hep]
  exact ⟨_, rfl⟩

theorem buildCerts_complete {cfg : Config} :
    ∀ (cs : List Certificate) (seen : List String), (∀ c, c ∈ cs → CertRefsOk cfg c) →
      (∀ c, c ∈ cs → ∀ hk, hk ∈ c.hooks → ResolvesWithin cfg hk) →
      (cs.map (·.crtId)).Nodup → (∀ c, c ∈ cs → c.crtId ∉ seen) →
      ∃ r, buildCerts cfg cs seen = .ok r := by
  intro cs
  induction cs with
  | nil => intro seen _ _ _ _; exact ⟨[], rfl⟩
  | cons c cs ih =>
    intro seen hrefs hwithin hnd hseen
    rw [List.map_cons, List.nodup_cons] at hnd
    obtain ⟨bc, hbc⟩ := buildCert_complete (hrefs c (by simp)) (hwithin c (by simp))
    have hs : c.crtId ∉ seen := hseen c (by simp)
    obtain ⟨_, ⟨a, ha, hname⟩, _⟩ := hrefs c (by simp)
    have hany : cfg.accounts.any (·.name == c.account) = true :=
      List.any_eq_true.mpr ⟨a, ha, by simp [hname]⟩
    obtain ⟨rest, hrest⟩ := ih (c.crtId :: seen) (fun c' hc' => hrefs c' (by simp [hc']))
      (fun c' hc' => hwithin c' (by simp [hc'])) hnd.2 (by
      intro c' hc' hm
      rcases List.mem_cons.mp hm with hm | hm
      · exact hnd.1 (List.mem_map.mpr ⟨c', hc', hm⟩)
      · exact hseen c' (by simp [hc']) hm)
    exact ⟨bc :: rest, by simp [buildCerts, hbc, hs, hany, hrest]⟩

theorem buildAccounts_complete {cfg : Config} :
    ∀ as : List Account, (∀ a, a ∈ as → ∀ h, h ∈ a.hooks → ResolvesWithin cfg h) →
      ∃ r, buildAccounts cfg as = .ok r := by
  intro as
  induction as with
  | nil => intro _; exact ⟨[], rfl⟩
  | cons a as ih =>
    intro h
    obtain ⟨hs, hhs⟩ := getHooks_ok_of_within a.hooks (h a (by simp))
    obtain ⟨rest, hrest⟩ := ih (fun b hb => h b (by simp [hb]))
    exact ⟨{ name := a.name, hooks := hs } :: rest, by simp [buildAccounts, hhs, hrest]⟩

/-- Every hook name a successfully built configuration uses is within the limits. -/
theorem buildAccounts_within {cfg : Config} :
    ∀ (as : List Account) (r : List BuiltAccount), buildAccounts cfg as = .ok r →
      ∀ a, a ∈ as → ∀ h, h ∈ a.hooks → ResolvesWithin cfg h := by
  intro as
  induction as with
  | nil => intro r _ a ha; simp at ha
  | cons a as ih =>
    intro r h b hb
    simp only [buildAccounts] at h
    cases hh : getHooks cfg a.hooks with
    | error e => simp [hh] at h
    | ok hs =>
      simp only [hh] at h
      cases hr : buildAccounts cfg as with
      | error e => simp [hr] at h
      | ok rest =>
        rcases List.mem_cons.mp hb with hb | hb
        · subst hb; exact getHooks_within hh
        · exact ih rest hr b hb

theorem buildCert_within {cfg : Config} {c : Certificate} {bc : BuiltCert}
    (h : buildCert cfg c = .ok bc) : ∀ hk, hk ∈ c.hooks → ResolvesWithin cfg hk := by
  unfold buildCert at h
  cases hep : findEndpoint cfg c.endpoint with
  | none => simp [hep] at h
  | some ep =>
    simp only [hep] at h
    cases hrl : resolveRateLimits cfg ep.rateLimits with
    | error e => simp [hrl] at h
    | ok rls =>
      simp only [hrl] at h
      cases hh : getHooks cfg c.hooks with
      | error e => simp [hh] at h
      | ok hs => exact getHooks_within hh

theorem buildCerts_within {cfg : Config} :
    ∀ (cs : List Certificate) (seen : List String) (r : List BuiltCert),
      buildCerts cfg cs seen = .ok r → ∀ c, c ∈ cs → ∀ hk, hk ∈ c.hooks → ResolvesWithin cfg hk := by
  intro cs
  induction cs with
  | nil => intro seen r _ c hc; simp at hc
  | cons c cs ih =>
    intro seen r h c' hc'
    simp only [buildCerts] at h
    cases hb : buildCert cfg c with
    | error e => simp [hb] at h
    | ok bc =>
      simp only [hb] at h
      by_cases hs : c.crtId ∈ seen
      · simp [hs] at h
      · simp only [hs, if_false] at h
        by_cases ha : cfg.accounts.any (·.name == c.account) = true
        · simp only [ha, if_true] at h
          cases hr : buildCerts cfg cs (c.crtId :: seen) with
          | error e => simp [hr] at h
          | ok rest =>
            rcases List.mem_cons.mp hc' with hc' | hc'
            · subst hc'; exact buildCert_within hb
            · exact ih _ rest hr c' hc'
        · simp [ha] at h


/-! ## Characterisations of the two selection functions, and the error classes of `read_cnf` -/

/-- `mostSpecific` is what its name says: the first level that is set, else the default. -/
theorem mostSpecific_char (ls : List (Option Val)) :
    (∀ v, mostSpecific ls = .given v ↔
      ∃ before after, ls = before ++ some v :: after ∧ ∀ x, x ∈ before → x = none) ∧
    (mostSpecific ls = .builtin ↔ ∀ x, x ∈ ls → x = none) := by
  induction ls with
  | nil => simp [mostSpecific]
  | cons a ls ih =>
    cases a with
    | some w =>
      refine ⟨fun v => ⟨fun h => ?_, fun h => ?_⟩, ?_⟩
      · simp only [mostSpecific, Setting.given.injEq] at h
        subst h; exact ⟨[], ls, rfl, by simp⟩
      · obtain ⟨before, after, heq, hb⟩ := h
        cases before with
        | nil =>
          simp only [List.nil_append, List.cons.injEq, Option.some.injEq] at heq
          simp [mostSpecific, heq.1]
        | cons b before =>
          simp only [List.cons_append, List.cons.injEq] at heq
          have := hb b (by simp)
          rw [this] at heq; simp at heq
      · simp [mostSpecific]
    | none =>
      refine ⟨fun v => ⟨fun h => ?_, fun h => ?_⟩, ?_⟩
      · obtain ⟨before, after, heq, hb⟩ := (ih.1 v).mp h
        exact ⟨none :: before, after, by simp [heq], by
          intro x hx
          rcases List.mem_cons.mp hx with hx | hx
          · exact hx
          · exact hb x hx⟩
      · obtain ⟨before, after, heq, hb⟩ := h
        cases before with
        | nil => simp at heq
        | cons b before =>
          simp only [List.cons_append, List.cons.injEq] at heq
          exact (ih.1 v).mpr ⟨before, after, heq.2, fun x hx => hb x (by simp [hx])⟩
      · simp only [mostSpecific, ih.2]
        constructor
        · intro h x hx
          rcases List.mem_cons.mp hx with hx | hx
          · exact hx
          · exact h x hx
        · intro h x hx; exact h x (by simp [hx])

/-- `lastSome` is what its name says. -/
theorem lastSome_char {α : Type} (l : List (Option α)) :
    (∀ v, lastSome l = some v ↔
      ∃ before after, l = before ++ some v :: after ∧ ∀ x, x ∈ after → x = none) ∧
    (lastSome l = none ↔ ∀ x, x ∈ l → x = none) := by
  refine ⟨fun v => ?_, ?_⟩
  · unfold lastSome
    rw [List.findSome?_eq_some_iff]
    constructor
    · rintro ⟨l₁, a, l₂, hrev, ha, hl₁⟩
      simp only [id] at ha
      subst ha
      refine ⟨l₂.reverse, l₁.reverse, ?_, ?_⟩
      · have := congrArg List.reverse hrev
        simpa using this
      · intro x hx
        have := hl₁ x (by simpa using hx)
        simpa using this
    · rintro ⟨before, after, rfl, ha⟩
      refine ⟨after.reverse, some v, before.reverse, by simp, rfl, ?_⟩
      intro x hx
      have := ha x (by simpa using hx)
      simp [this]
  · unfold lastSome
    rw [List.findSome?_eq_none_iff]
    simp


/-- The errors of `read_cnf`: a file that cannot be read, an include nested too deeply (and the
model's own "out of fuel"). -/
def LoadErr (e : Err) : Prop :=
  e = .outOfFuel ∨ (∃ q, e = .fileNotFound q) ∨ (∃ q, e = .includeTooDeep q)

theorem includeLoop_error_class {rec : Path → List Path → Except Err (Config × List Path)}
    (hrec : ∀ p l e, rec p l = .error e → LoadErr e) :
    ∀ ps cfg l e, includeLoop rec ps cfg l = .error e → LoadErr e := by
  intro ps
  induction ps with
  | nil => intro cfg l e h; simp [includeLoop] at h
  | cons q ps ih =>
    intro cfg l e h
    simp only [includeLoop] at h
    cases hq : rec q l with
    | error e' =>
      simp only [hq, Except.error.injEq] at h
      subst h; exact hrec q l _ hq
    | ok res =>
      simp only [hq] at h
      exact ih _ _ _ h

/-- The only errors `read_cnf` produces. -/
theorem readCnf_error_class {π : Type} (files : Files π) (resolve : Path → π → List Path) :
    ∀ fuel depth p l e, readCnf files resolve fuel depth p l = .error e → LoadErr e := by
  intro fuel
  induction fuel with
  | zero =>
    intro depth p l e he
    rw [readCnf_eq] at he
    cases hf : lookupFile files p with
    | none => simp only [hf, Except.error.injEq] at he; exact .inr (.inl ⟨p, he.symm⟩)
    | some fc =>
      by_cases hd : depth > maxIncludeDepth
      · simp only [hf, hd, if_true, Except.error.injEq] at he; exact .inr (.inr ⟨p, he.symm⟩)
      · by_cases hm : p ∈ l
        · simp [hf, hd, hm] at he
        · simp only [hf, hd, hm, if_false, Except.error.injEq] at he; exact .inl he.symm
  | succ fuel ih =>
    intro depth p l e he
    rw [readCnf_eq] at he
    cases hf : lookupFile files p with
    | none => simp only [hf, Except.error.injEq] at he; exact .inr (.inl ⟨p, he.symm⟩)
    | some fc =>
      by_cases hd : depth > maxIncludeDepth
      · simp only [hf, hd, if_true, Except.error.injEq] at he; exact .inr (.inr ⟨p, he.symm⟩)
      · by_cases hm : p ∈ l
        · simp [hf, hd, hm] at he
        · simp only [hf, hd, hm, if_false] at he
          exact includeLoop_error_class (ih (depth + 1)) _ _ _ _ he

end AcmedVerif.Config
