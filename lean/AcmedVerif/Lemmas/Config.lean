/-
Helper lemmas for Props/C14 (model: Model/Config.lean, vocabulary: Spec/C14.lean).
-/
import AcmedVerif.Model.Config
import AcmedVerif.Spec.C14

namespace AcmedVerif.Config
open AcmedVerif.Spec.C14

/-! ## Maps and the `[global]` merge block -/

theorem envLookup_append (k : String) (a b : Env) :
    envLookup k (a ++ b) = (envLookup k b).or (envLookup k a) := by
  unfold envLookup
  rw [List.filter_append, List.getLast?_append, Option.map_or]

theorem envLookup_nil (k : String) : envLookup k [] = none := rfl

theorem lastSome_nil {α : Type} : lastSome ([] : List (Option α)) = none := rfl

theorem lastSome_append {α : Type} (a b : List (Option α)) :
    lastSome (a ++ b) = (lastSome b).or (lastSome a) := by
  unfold lastSome
  rw [List.reverse_append, List.findSome?_append]

theorem lastSome_singleton {α : Type} (x : Option α) : lastSome [x] = x := by
  cases x <;> rfl

theorem Global.get_set (g : Global) (o o' : GlobalOpt) (v : Option Val) :
    (g.set o v).get o' = if o = o' ∧ o ≠ .env then v else g.get o' := by
  cases o <;> cases o' <;> simp [Global.set, Global.get]

theorem Global.env_set (g : Global) (o : GlobalOpt) (v : Option Val) : (g.set o v).env = g.env := by
  cases o <;> rfl

theorem get_mergeOpt (acc new : Global) (o o' : GlobalOpt) :
    (mergeOpt acc new o).get o' =
      if o = o' ∧ o ≠ .env then (new.get o).or (acc.get o') else acc.get o' := by
  by_cases he : o = .env
  · subst he
    have : (mergeOpt acc new .env).get o' = acc.get o' := by cases o' <;> rfl
    simp [this]
  · have hm : mergeOpt acc new o =
        match new.get o with
        | some v => acc.set o (some v)
        | none => acc := by
      cases o <;> first | rfl | exact absurd rfl he
    rw [hm]
    cases hn : new.get o with
    | none => simp
    | some v =>
      simp only [Global.get_set]
      by_cases hoo : o = o'
      · subst hoo; simp [he]
      · simp [hoo]

theorem env_mergeOpt (acc new : Global) (o : GlobalOpt) :
    (mergeOpt acc new o).env = if o = .env then acc.env ++ new.env else acc.env := by
  by_cases he : o = .env
  · subst he; rfl
  · have hm : mergeOpt acc new o =
        match new.get o with
        | some v => acc.set o (some v)
        | none => acc := by
      cases o <;> first | rfl | exact absurd rfl he
    rw [hm, if_neg he]
    cases new.get o <;> simp [Global.env_set]

theorem get_mergeGlobalWith (opts : List GlobalOpt) (cur new : Global) (o : GlobalOpt)
    (ho : o ≠ .env) :
    (mergeGlobalWith opts cur new).get o =
      if o ∈ opts then (new.get o).or (cur.get o) else cur.get o := by
  induction opts generalizing cur with
  | nil => simp [mergeGlobalWith]
  | cons a rest ih =>
    have hstep : mergeGlobalWith (a :: rest) cur new = mergeGlobalWith rest (mergeOpt cur new a) new := rfl
    rw [hstep, ih, get_mergeOpt]
    by_cases hao : a = o
    · subst hao
      simp only [List.mem_cons, true_or, if_true, ho, ne_eq, not_false_eq_true, and_self]
      cases new.get a <;> simp
    · have hoa : ¬ o = a := fun h => hao h.symm
      simp [hao, hoa]

theorem envLookup_mergeGlobalWith (opts : List GlobalOpt) (cur new : Global) (k : String) :
    envLookup k (mergeGlobalWith opts cur new).env =
      if GlobalOpt.env ∈ opts then (envLookup k new.env).or (envLookup k cur.env)
      else envLookup k cur.env := by
  induction opts generalizing cur with
  | nil => simp [mergeGlobalWith]
  | cons a rest ih =>
    have hstep : mergeGlobalWith (a :: rest) cur new = mergeGlobalWith rest (mergeOpt cur new a) new := rfl
    rw [hstep, ih, env_mergeOpt]
    by_cases hae : a = .env
    · subst hae
      simp only [if_true, List.mem_cons, true_or, envLookup_append]
      cases envLookup k new.env <;> simp
    · have hea : ¬ GlobalOpt.env = a := fun h => hae h.symm
      simp [hae, hea]

/-- One merge step, seen through one merged option: the included file's value if it sets one. -/
theorem optGet_mergeGlobal (x y : Option Global) (o : GlobalOpt) (hm : o ∈ mergedOptions)
    (ho : o ≠ .env) : optGet o (mergeGlobal x y) = (optGet o y).or (optGet o x) := by
  cases x with
  | none => simp [mergeGlobal, optGet]
  | some c =>
    cases y with
    | none => simp [mergeGlobal, optGet]
    | some n => simp [mergeGlobal, optGet, get_mergeGlobalWith _ _ _ _ ho, hm]

theorem envLookup_mergeGlobal (x y : Option Global) (k : String)
    (hm : GlobalOpt.env ∈ mergedOptions) :
    envLookup k (envOf (mergeGlobal x y)) = (envLookup k (envOf y)).or (envLookup k (envOf x)) := by
  cases x with
  | none => simp [mergeGlobal, envOf, envLookup_nil]
  | some c =>
    cases y with
    | none => simp [mergeGlobal, envOf, envLookup_nil]
    | some n => simp [mergeGlobal, envOf, envLookup_mergeGlobalWith, hm]


/-! ## `Extends`: a configuration is a base plus the own contents of a list of files -/

/-- `cfg` is `base` followed by what the files `new` themselves contain, in that order: the six
section lists are appended, and every merged `[global]` option holds the value of the last file of
`new` that sets it (else `base`'s value). -/
structure Extends {π : Type} (files : Files π) (base cfg : Config) (new : List Path) : Prop where
  endpoints : cfg.endpoints = base.endpoints ++ new.flatMap (fun p => (ownOf files p).endpoints)
  rateLimits : cfg.rateLimits = base.rateLimits ++ new.flatMap (fun p => (ownOf files p).rateLimits)
  hooks : cfg.hooks = base.hooks ++ new.flatMap (fun p => (ownOf files p).hooks)
  groups : cfg.groups = base.groups ++ new.flatMap (fun p => (ownOf files p).groups)
  accounts : cfg.accounts = base.accounts ++ new.flatMap (fun p => (ownOf files p).accounts)
  certificates :
    cfg.certificates = base.certificates ++ new.flatMap (fun p => (ownOf files p).certificates)
  opt : ∀ o, o ∈ mergedOptions → o ≠ .env →
    optGet o cfg.global =
      (lastSome (new.map fun p => optGet o (ownOf files p).global)).or (optGet o base.global)
  env : GlobalOpt.env ∈ mergedOptions → ∀ k,
    envLookup k (envOf cfg.global) =
      (envLookup k (new.flatMap fun p => envOf (ownOf files p).global)).or
        (envLookup k (envOf base.global))

theorem Extends.refl {π : Type} (files : Files π) (cfg : Config) : Extends files cfg cfg [] := by
  constructor <;> simp [lastSome_nil, envLookup_nil]

theorem Extends.trans {π : Type} {files : Files π} {a b c : Config} {n₁ n₂ : List Path}
    (h₁ : Extends files a b n₁) (h₂ : Extends files b c n₂) : Extends files a c (n₁ ++ n₂) := by
  constructor
  · rw [h₂.endpoints, h₁.endpoints, List.flatMap_append, List.append_assoc]
  · rw [h₂.rateLimits, h₁.rateLimits, List.flatMap_append, List.append_assoc]
  · rw [h₂.hooks, h₁.hooks, List.flatMap_append, List.append_assoc]
  · rw [h₂.groups, h₁.groups, List.flatMap_append, List.append_assoc]
  · rw [h₂.accounts, h₁.accounts, List.flatMap_append, List.append_assoc]
  · rw [h₂.certificates, h₁.certificates, List.flatMap_append, List.append_assoc]
  · intro o hm ho
    rw [h₂.opt o hm ho, h₁.opt o hm ho, List.map_append, lastSome_append, Option.or_assoc]
  · intro hm k
    rw [h₂.env hm k, h₁.env hm k, List.flatMap_append, envLookup_append, Option.or_assoc]

/-- config.rs:757-786 appends exactly what `add` holds. -/
theorem Extends.merge {π : Type} {files : Files π} {cfg add : Config} {n : List Path}
    (h : Extends files Config.empty add n) : Extends files cfg (mergeCfg cfg add) n := by
  have e := h.endpoints; have r := h.rateLimits; have hk := h.hooks; have g := h.groups
  have a := h.accounts; have c := h.certificates
  simp only [Config.empty, List.nil_append] at e r hk g a c
  constructor
  · simp [mergeCfg, e]
  · simp [mergeCfg, r]
  · simp [mergeCfg, hk]
  · simp [mergeCfg, g]
  · simp [mergeCfg, a]
  · simp [mergeCfg, c]
  · intro o hm ho
    have := h.opt o hm ho
    simp only [Config.empty, optGet, Option.bind_none, Option.or_none] at this
    simp only [mergeCfg, optGet_mergeGlobal _ _ o hm ho]
    simp only [optGet, this]
  · intro hm k
    have := h.env hm k
    simp only [Config.empty, envOf, envLookup_nil, Option.or_none] at this
    simp only [mergeCfg, envLookup_mergeGlobal _ _ k hm]
    simp only [envOf, this]

theorem Extends.single {π : Type} (files : Files π) (p : Path) :
    Extends files Config.empty (ownOf files p) [p] := by
  constructor <;>
    simp [Config.empty, lastSome_singleton, optGet, envOf, envLookup_nil]

end AcmedVerif.Config

/-! ## Depth-first order -/
namespace AcmedVerif.Spec.C14
open AcmedVerif.Config

theorem DfsList.nil_inv {π : Type} {files : Files π} {resolve : Path → π → List Path}
    {visited new : List Path} (h : DfsList files resolve [] visited new) : new = [] := by
  cases h; rfl

/-- Visiting `p` and then `ps` is visiting `p :: ps`. -/
theorem DfsList.cons_of_single {π : Type} {files : Files π} {resolve : Path → π → List Path}
    {p : Path} {ps visited n₁ n₂ : List Path}
    (h₁ : DfsList files resolve [p] visited n₁)
    (h₂ : DfsList files resolve ps (visited ++ n₁) n₂) :
    DfsList files resolve (p :: ps) visited (n₁ ++ n₂) := by
  cases h₁ with
  | skip hmem hrest =>
    have := hrest.nil_inv; subst this
    simp only [List.append_nil, List.nil_append] at h₂ ⊢
    exact .skip hmem h₂
  | visit hnot hfile hsub hrest =>
    have := hrest.nil_inv; subst this
    simp only [List.append_nil] at h₂ ⊢
    refine .visit hnot hfile hsub ?_
    simpa [List.append_assoc] using h₂

/-- The files read are pairwise different, were not visited before, and exist. -/
theorem DfsList.facts {π : Type} {files : Files π} {resolve : Path → π → List Path}
    {todo visited new : List Path} (h : DfsList files resolve todo visited new) :
    new.Nodup ∧ (∀ p, p ∈ new → p ∉ visited) ∧ (∀ p, p ∈ new → (lookupFile files p).isSome = true) := by
  induction h with
  | nil => simp
  | skip _ _ ih => exact ih
  | @visit p ps visited n₁ n₂ fc hnot hfile _ _ ih₁ ih₂ =>
    obtain ⟨nd₁, dj₁, ex₁⟩ := ih₁
    obtain ⟨nd₂, dj₂, ex₂⟩ := ih₂
    refine ⟨?_, ?_, ?_⟩
    · rw [List.cons_append, List.nodup_cons, List.nodup_append]
      refine ⟨?_, nd₁, nd₂, ?_⟩
      · intro hm
        rcases List.mem_append.mp hm with hm | hm
        · exact dj₁ p hm (by simp)
        · exact dj₂ p hm (by simp)
      · intro a ha b hb hab
        subst hab
        exact dj₂ a hb (by simp [ha])
    · intro q hq
      rcases List.mem_cons.mp hq with hq | hq
      · subst hq; exact hnot
      · rcases List.mem_append.mp hq with hq | hq
        · intro hv; exact dj₁ q hq (by simp [hv])
        · intro hv; exact dj₂ q hq (by simp [hv])
    · intro q hq
      rcases List.mem_cons.mp hq with hq | hq
      · subst hq; simp [hfile]
      · rcases List.mem_append.mp hq with hq | hq
        · exact ex₁ q hq
        · exact ex₂ q hq

/-- Everything asked for ends up visited, and the visited set is closed under "includes". -/
theorem DfsList.closed {π : Type} {files : Files π} {resolve : Path → π → List Path}
    {todo visited new : List Path} (h : DfsList files resolve todo visited new) :
    (∀ p, p ∈ todo → p ∈ visited ++ new) ∧
    (∀ p, p ∈ new → ∀ fc, lookupFile files p = some fc →
      ∀ q, q ∈ includePaths resolve p fc → q ∈ visited ++ new) := by
  induction h with
  | nil => simp
  | skip hmem _ ih =>
    refine ⟨?_, ih.2⟩
    intro q hq
    rcases List.mem_cons.mp hq with hq | hq
    · subst hq; simp [hmem]
    · exact ih.1 q hq
  | @visit p ps visited n₁ n₂ fc hnot hfile _ _ ih₁ ih₂ =>
    refine ⟨?_, ?_⟩
    · intro q hq
      rcases List.mem_cons.mp hq with hq | hq
      · subst hq; simp
      · have := ih₂.1 q hq
        grind
    · intro q hq fc' hfc' r hr
      rcases List.mem_cons.mp hq with hq | hq
      · subst hq
        rw [hfile] at hfc'; cases hfc'
        have := ih₁.1 r hr
        grind
      · rcases List.mem_append.mp hq with hq | hq
        · have := ih₁.2 q hq fc' hfc' r hr
          grind
        · have := ih₂.2 q hq fc' hfc' r hr
          grind

/-- The order is determined by the tree. -/
theorem DfsList.unique {π : Type} {files : Files π} {resolve : Path → π → List Path}
    {todo visited new new' : List Path} (h : DfsList files resolve todo visited new)
    (h' : DfsList files resolve todo visited new') : new = new' := by
  induction h generalizing new' with
  | nil => exact h'.nil_inv.symm
  | skip hmem _ ih =>
    cases h' with
    | skip _ hr => exact ih hr
    | visit hnot _ _ _ => exact absurd hmem hnot
  | visit hnot hfile _ _ ih₁ ih₂ =>
    cases h' with
    | skip hmem _ => exact absurd hmem hnot
    | visit _ hfile' hs hr =>
      rw [hfile] at hfile'; cases hfile'
      have := ih₁ hs; subst this
      have := ih₂ hr; subst this
      rfl

end AcmedVerif.Spec.C14

/-! ## `read_cnf` -/
namespace AcmedVerif.Config
open AcmedVerif.Spec.C14

theorem readCnf_eq {π : Type} (files : Files π) (resolve : Path → π → List Path)
    (fuel : Nat) (path : Path) (loaded : List Path) :
    readCnf files resolve fuel path loaded =
      match lookupFile files path with
      | none => .error (.fileNotFound path)
      | some fc =>
        if path ∈ loaded then .ok (Config.empty, loaded)
        else
          match fuel with
          | 0 => .error .outOfFuel
          | fuel + 1 =>
            includeLoop (readCnf files resolve fuel) (includePaths resolve path fc) fc.toConfig
              (loaded ++ [path]) := by
  cases fuel <;> simp only [readCnf] <;> cases lookupFile files path <;> rfl

/-- What one call of `read_cnf` returns, for any procedure `rec` that behaves so. -/
def RecSpec {π : Type} (files : Files π) (resolve : Path → π → List Path)
    (rec : Path → List Path → Except Err (Config × List Path)) : Prop :=
  ∀ p loaded cfg loaded', rec p loaded = .ok (cfg, loaded') →
    ∃ new, loaded' = loaded ++ new ∧ DfsList files resolve [p] loaded new ∧
      Extends files Config.empty cfg new

theorem includeLoop_spec {π : Type} {files : Files π} {resolve : Path → π → List Path}
    {rec : Path → List Path → Except Err (Config × List Path)} (hrec : RecSpec files resolve rec) :
    ∀ ps cfg loaded cfg' loaded', includeLoop rec ps cfg loaded = .ok (cfg', loaded') →
      ∃ new, loaded' = loaded ++ new ∧ DfsList files resolve ps loaded new ∧
        Extends files cfg cfg' new := by
  intro ps
  induction ps with
  | nil =>
    intro cfg loaded cfg' loaded' h
    simp only [includeLoop, Except.ok.injEq, Prod.mk.injEq] at h
    obtain ⟨rfl, rfl⟩ := h
    exact ⟨[], by simp, .nil _, Extends.refl _ _⟩
  | cons p ps ih =>
    intro cfg loaded cfg' loaded' h
    simp only [includeLoop] at h
    cases hr : rec p loaded with
    | error e => simp [hr] at h
    | ok res =>
      obtain ⟨add, l₁⟩ := res
      simp only [hr] at h
      obtain ⟨n₁, rfl, hd₁, he₁⟩ := hrec p loaded add l₁ hr
      obtain ⟨n₂, rfl, hd₂, he₂⟩ := ih _ _ _ _ h
      exact ⟨n₁ ++ n₂, by simp, hd₁.cons_of_single hd₂, he₁.merge.trans he₂⟩

theorem readCnf_spec {π : Type} (files : Files π) (resolve : Path → π → List Path) (fuel : Nat) :
    RecSpec files resolve (readCnf files resolve fuel) := by
  induction fuel with
  | zero =>
    intro p loaded cfg loaded' h
    rw [readCnf_eq] at h
    cases hf : lookupFile files p with
    | none => simp [hf] at h
    | some fc =>
      simp only [hf] at h
      by_cases hm : p ∈ loaded
      · simp only [hm, if_true, Except.ok.injEq, Prod.mk.injEq] at h
        obtain ⟨rfl, rfl⟩ := h
        exact ⟨[], by simp, .skip hm (.nil _), Extends.refl _ _⟩
      · simp [hm] at h
  | succ fuel ih =>
    intro p loaded cfg loaded' h
    rw [readCnf_eq] at h
    cases hf : lookupFile files p with
    | none => simp [hf] at h
    | some fc =>
      simp only [hf] at h
      by_cases hm : p ∈ loaded
      · simp only [hm, if_true, Except.ok.injEq, Prod.mk.injEq] at h
        obtain ⟨rfl, rfl⟩ := h
        exact ⟨[], by simp, .skip hm (.nil _), Extends.refl _ _⟩
      · simp only [hm, if_false] at h
        obtain ⟨n, rfl, hd, he⟩ := includeLoop_spec ih _ _ _ _ _ h
        refine ⟨p :: n, by simp, ?_, ?_⟩
        · have := DfsList.visit (ps := []) hm hf hd (.nil _)
          simpa using this
        · have hown : ownOf files p = fc.toConfig := by simp [ownOf, hf]
          have h1 := Extends.single files p
          rw [hown] at h1
          exact h1.trans he


/-! ## Fuel: `fuel + |loaded| ≥ |files| + 1` is invariant, so the fuel never runs out -/

theorem lookupFile_isSome_mem {π : Type} {files : Files π} {p : Path}
    (h : (lookupFile files p).isSome = true) : p ∈ files.map (·.1) := by
  unfold lookupFile at h
  rw [Option.isSome_map, List.find?_isSome] at h
  obtain ⟨x, hx, hp⟩ := h
  have : x.1 = p := by simpa using hp
  exact List.mem_map.mpr ⟨x, hx, this⟩

/-- The loaded set is made of distinct existing files and the fuel still covers the rest. -/
def LoadInv {π : Type} (files : Files π) (fuel : Nat) (loaded : List Path) : Prop :=
  loaded.Nodup ∧ (∀ p, p ∈ loaded → (lookupFile files p).isSome = true) ∧
    files.length + 1 ≤ fuel + loaded.length

theorem LoadInv.length_le {π : Type} {files : Files π} {fuel : Nat} {loaded : List Path}
    (h : LoadInv files fuel loaded) : loaded.length ≤ files.length := by
  have hsub : loaded ⊆ files.map (·.1) := fun p hp => lookupFile_isSome_mem (h.2.1 p hp)
  have := List.Nodup.length_le_of_subset h.1 hsub
  simpa using this

theorem LoadInv.extend {π : Type} {files : Files π} {resolve : Path → π → List Path} {fuel : Nat}
    {todo loaded new : List Path} (h : LoadInv files fuel loaded)
    (hd : DfsList files resolve todo loaded new) : LoadInv files fuel (loaded ++ new) := by
  obtain ⟨nd, dj, ex⟩ := hd.facts
  refine ⟨?_, ?_, ?_⟩
  · rw [List.nodup_append]
    refine ⟨h.1, nd, ?_⟩
    intro a ha b hb hab
    subst hab
    exact dj a hb ha
  · intro p hp
    rcases List.mem_append.mp hp with hp | hp
    · exact h.2.1 p hp
    · exact ex p hp
  · have := h.2.2
    simp only [List.length_append]
    omega

theorem includeLoop_fuel {π : Type} {files : Files π} {resolve : Path → π → List Path}
    {fuel : Nat} {rec : Path → List Path → Except Err (Config × List Path)}
    (hspec : RecSpec files resolve rec)
    (hrec : ∀ p loaded, LoadInv files fuel loaded → rec p loaded ≠ .error .outOfFuel) :
    ∀ ps cfg loaded, LoadInv files fuel loaded →
      includeLoop rec ps cfg loaded ≠ .error .outOfFuel := by
  intro ps
  induction ps with
  | nil => intro cfg loaded _; simp [includeLoop]
  | cons p ps ih =>
    intro cfg loaded hinv
    simp only [includeLoop]
    cases hr : rec p loaded with
    | error e =>
      have := hrec p loaded hinv
      rw [hr] at this
      simpa using this
    | ok res =>
      obtain ⟨add, l₁⟩ := res
      obtain ⟨n, rfl, hd, _⟩ := hspec p loaded add l₁ hr
      exact ih _ _ (hinv.extend hd)

theorem readCnf_fuel {π : Type} (files : Files π) (resolve : Path → π → List Path) :
    ∀ fuel path loaded, LoadInv files fuel loaded →
      readCnf files resolve fuel path loaded ≠ .error .outOfFuel := by
  intro fuel
  induction fuel with
  | zero =>
    intro path loaded hinv
    have := hinv.length_le
    have := hinv.2.2
    omega
  | succ fuel ih =>
    intro path loaded hinv
    rw [readCnf_eq]
    cases hf : lookupFile files path with
    | none => simp
    | some fc =>
      by_cases hm : path ∈ loaded
      · simp [hm]
      · simp only [hm, if_false]
        have hinv' : LoadInv files fuel (loaded ++ [path]) := by
          refine ⟨?_, ?_, ?_⟩
          · rw [List.nodup_append]
            refine ⟨hinv.1, by simp, ?_⟩
            intro a ha b hb hab
            simp only [List.mem_singleton] at hb
            subst hab; subst hb
            exact hm ha
          · intro p hp
            rcases List.mem_append.mp hp with hp | hp
            · exact hinv.2.1 p hp
            · simp only [List.mem_singleton] at hp
              subst hp; simp [hf]
          · have := hinv.2.2
            simp only [List.length_append, List.length_singleton]
            omega
        exact includeLoop_fuel (readCnf_spec files resolve fuel) ih _ _ _ hinv'

theorem LoadInv.init {π : Type} (files : Files π) : LoadInv files (loadFuel files) [] := by
  refine ⟨List.nodup_nil, by simp, ?_⟩
  simp [loadFuel]

/-- A file already in the loaded set contributes nothing and leaves the set unchanged. -/
theorem readCnf_loaded {π : Type} (files : Files π) (resolve : Path → π → List Path)
    (fuel : Nat) (path : Path) (loaded : List Path) (fc : FileContent π)
    (hf : lookupFile files path = some fc) (hm : path ∈ loaded) :
    readCnf files resolve fuel path loaded = .ok (Config.empty, loaded) := by
  rw [readCnf_eq, hf]
  simp [hm]


/-! ## Three-level getters -/

theorem certLevel_found (cfg : Config) (c : Certificate) (cv : Option Val)
    (epv : Endpoint → Option Val) (o : GlobalOpt) (ep : Endpoint)
    (hep : findEndpoint cfg c.endpoint = some ep) :
    certLevel cfg c cv epv o = .ok (mostSpecific [cv, epv ep, optGet o cfg.global]) := by
  cases cv <;> cases h₂ : epv ep <;> cases h₃ : optGet o cfg.global <;>
    simp [certLevel, endpointLevel, globalSetting, mostSpecific, Setting.ofOption, hep, h₂, h₃]

theorem certLevel_given (cfg : Config) (c : Certificate) (v : Val)
    (epv : Endpoint → Option Val) (o : GlobalOpt) :
    certLevel cfg c (some v) epv o = .ok (.given v) := rfl

theorem certLevel_unknown (cfg : Config) (c : Certificate)
    (epv : Endpoint → Option Val) (o : GlobalOpt) (hep : findEndpoint cfg c.endpoint = none) :
    certLevel cfg c none epv o = .error (.unknownEndpoint c.endpoint) := by
  simp [certLevel, hep]

theorem effectiveDirectory_eq (cfg : Config) (c : Certificate) :
    effectiveDirectory cfg c = mostSpecific [c.directory, optGet .certificates_directory cfg.global] := by
  cases h₁ : c.directory <;> cases h₃ : optGet .certificates_directory cfg.global <;>
    simp [effectiveDirectory, globalSetting, mostSpecific, Setting.ofOption, h₁, h₃]

/-! ## Hook / group expansion -/

theorem expandHook_eq (cfg : Config) (fuel : Nat) (parents : List String) (name : String) :
    expandHook cfg fuel parents name =
      match findHook cfg name with
      | some h => .ok [h]
      | none =>
        match findGroup cfg name with
        | none => .error (.hookNotFound name)
        | some g =>
          if name ∈ parents then .error (.groupCycle name)
          else
            match fuel with
            | 0 => .error .outOfFuel
            | fuel + 1 => expandNames (expandHook cfg fuel (parents ++ [name])) g.hooks := by
  cases fuel <;> simp only [expandHook] <;> cases findHook cfg name <;>
    first | rfl | (cases findGroup cfg name <;> rfl)

/-- `expandNames` succeeds iff every name does, and then concatenates in order. -/
theorem expandNames_ok (rec : String → Except Err (List Hook)) :
    ∀ (ns : List String) (r : List Hook), expandNames rec ns = .ok r ↔
      ∃ rs : List (List Hook), ns.map rec = rs.map .ok ∧ r = rs.flatten := by
  intro ns
  induction ns with
  | nil =>
    intro r
    simp only [expandNames, Except.ok.injEq, List.map_nil]
    constructor
    · intro h; exact ⟨[], by simp, by simp [← h]⟩
    · rintro ⟨rs, h₁, h₂⟩
      have : rs = [] := by simpa using h₁.symm
      subst this; simp [h₂]
  | cons n ns ih =>
    intro r
    simp only [expandNames, List.map_cons]
    cases hn : rec n with
    | error e =>
      constructor
      · intro h; simp at h
      · rintro ⟨rs, h₁, _⟩
        cases rs with
        | nil => simp at h₁
        | cons a rs => simp at h₁
    | ok hs =>
      cases hr : expandNames rec ns with
      | error e =>
        constructor
        · intro h; simp at h
        · rintro ⟨rs, h₁, _⟩
          cases rs with
          | nil => simp at h₁
          | cons a rs =>
            simp only [List.map_cons, List.cons.injEq, Except.ok.injEq] at h₁
            have := (ih rs.flatten).mpr ⟨rs, h₁.2, rfl⟩
            rw [hr] at this; simp at this
      | ok rest =>
        obtain ⟨rs, h₁, h₂⟩ := (ih rest).mp hr
        constructor
        · intro h
          simp only [Except.ok.injEq] at h
          exact ⟨hs :: rs, by simp [h₁], by simp [← h, h₂]⟩
        · rintro ⟨rs', h₁', h₂'⟩
          cases rs' with
          | nil => simp at h₁'
          | cons a rs' =>
            simp only [List.map_cons, List.cons.injEq, Except.ok.injEq] at h₁'
            have := (ih rs'.flatten).mpr ⟨rs', h₁'.2, rfl⟩
            rw [hr] at this
            simp only [Except.ok.injEq] at this
            simp [h₂', h₁'.1, this]

theorem expandNames_mem_ok {rec : String → Except Err (List Hook)} {ns : List String}
    {r : List Hook} (h : expandNames rec ns = .ok r) {n : String} (hn : n ∈ ns) :
    ∃ r', rec n = .ok r' := by
  obtain ⟨rs, h₁, _⟩ := (expandNames_ok rec ns r).mp h
  have : rec n ∈ ns.map rec := List.mem_map.mpr ⟨n, hn, rfl⟩
  rw [h₁] at this
  obtain ⟨r', _, hr'⟩ := List.mem_map.mp this
  exact ⟨r', hr'.symm⟩

theorem expandNames_ne_outOfFuel {rec : String → Except Err (List Hook)}
    (hrec : ∀ n, rec n ≠ .error .outOfFuel) :
    ∀ ns, expandNames rec ns ≠ .error .outOfFuel := by
  intro ns
  induction ns with
  | nil => simp [expandNames]
  | cons n ns ih =>
    simp only [expandNames]
    cases hn : rec n with
    | error e => have := hrec n; rw [hn] at this; simpa using this
    | ok hs =>
      cases hr : expandNames rec ns with
      | error e => rw [hr] at ih; simpa using ih
      | ok rest => simp

theorem findGroup_mem_names {cfg : Config} {n : String} {g : Group}
    (h : findGroup cfg n = some g) : n ∈ cfg.groups.map (·.name) := by
  unfold findGroup at h
  have h₁ := List.mem_of_find?_eq_some h
  have h₂ := List.find?_some h
  have : g.name = n := by simpa using h₂
  exact List.mem_map.mpr ⟨g, h₁, this⟩

/-- `parents` is a repetition-free path of group names and the fuel covers the groups left. -/
def PathInv (cfg : Config) (fuel : Nat) (parents : List String) : Prop :=
  parents.Nodup ∧ (∀ p, p ∈ parents → p ∈ cfg.groups.map (·.name)) ∧
    cfg.groups.length + 1 ≤ fuel + parents.length

theorem PathInv.length_le {cfg : Config} {fuel : Nat} {parents : List String}
    (h : PathInv cfg fuel parents) : parents.length ≤ cfg.groups.length := by
  have := List.Nodup.length_le_of_subset h.1 (fun p hp => h.2.1 p hp)
  simpa using this

theorem expandHook_fuel (cfg : Config) :
    ∀ fuel parents name, PathInv cfg fuel parents →
      expandHook cfg fuel parents name ≠ .error .outOfFuel := by
  intro fuel
  induction fuel with
  | zero =>
    intro parents name hinv
    have := hinv.length_le
    have := hinv.2.2
    omega
  | succ fuel ih =>
    intro parents name hinv
    rw [expandHook_eq]
    cases hh : findHook cfg name with
    | some h => simp
    | none =>
      cases hg : findGroup cfg name with
      | none => simp
      | some g =>
        by_cases hm : name ∈ parents
        · simp [hm]
        · simp only [hm, if_false]
          have hinv' : PathInv cfg fuel (parents ++ [name]) := by
            refine ⟨?_, ?_, ?_⟩
            · rw [List.nodup_append]
              refine ⟨hinv.1, by simp, ?_⟩
              intro a ha b hb hab
              simp only [List.mem_singleton] at hb
              subst hab; subst hb
              exact hm ha
            · intro p hp
              rcases List.mem_append.mp hp with hp | hp
              · exact hinv.2.1 p hp
              · simp only [List.mem_singleton] at hp
                subst hp; exact findGroup_mem_names hg
            · have := hinv.2.2
              simp only [List.length_append, List.length_singleton]
              omega
          exact expandNames_ne_outOfFuel (fun n => ih _ n hinv') _

theorem PathInv.init (cfg : Config) : PathInv cfg (expandFuel cfg) [] := by
  refine ⟨List.nodup_nil, by simp, ?_⟩
  simp [expandFuel]

/-- A group name that is already on the path is refused. -/
theorem expandHook_on_path (cfg : Config) (fuel : Nat) (parents : List String) (name : String)
    (g : Group) (hh : findHook cfg name = none) (hg : findGroup cfg name = some g)
    (hm : name ∈ parents) : expandHook cfg fuel parents name = .error (.groupCycle name) := by
  rw [expandHook_eq, hh, hg]
  simp [hm]

/-- If a name expands, each member of the group it denotes expands one level further down. -/
theorem expandHook_member {cfg : Config} {fuel : Nat} {parents : List String} {a b : String}
    {r : List Hook} (h : expandHook cfg fuel parents a = .ok r) (hm : Member cfg a b) :
    a ∉ parents ∧ ∃ fuel' r', expandHook cfg fuel' (parents ++ [a]) b = .ok r' := by
  obtain ⟨hh, g, hg, hb⟩ := hm
  rw [expandHook_eq, hh, hg] at h
  by_cases hp : a ∈ parents
  · simp [hp] at h
  · refine ⟨hp, ?_⟩
    simp only [hp, if_false] at h
    cases fuel with
    | zero => simp at h
    | succ fuel =>
      simp only at h
      obtain ⟨r', hr'⟩ := expandNames_mem_ok h hb
      exact ⟨fuel, r', hr'⟩

theorem expandHook_reach {cfg : Config} {a b : String} (hr : Reach cfg a b) :
    ∀ fuel parents r, expandHook cfg fuel parents a = .ok r →
      ∃ fuel' parents' r', (∀ p, p ∈ parents → p ∈ parents') ∧ a ∈ parents' ∧
        expandHook cfg fuel' parents' b = .ok r' := by
  induction hr with
  | @step a b hm =>
    intro fuel parents r h
    obtain ⟨_, fuel', r', h'⟩ := expandHook_member h hm
    exact ⟨fuel', parents ++ [a], r', by simp +contextual, by simp, h'⟩
  | @trans a b c hm _ ih =>
    intro fuel parents r h
    obtain ⟨_, fuel', r', h'⟩ := expandHook_member h hm
    obtain ⟨fuel'', parents'', r'', hsub, _, h''⟩ := ih fuel' (parents ++ [a]) r' h'
    exact ⟨fuel'', parents'', r'', fun p hp => hsub p (by simp [hp]), hsub a (by simp), h''⟩

/-- A name from which a group lying on a membership cycle is reachable never expands. -/
theorem expandHook_cycle_not_ok {cfg : Config} {g : String} (hc : Reach cfg g g)
    (fuel : Nat) (parents : List String) : ∀ r, expandHook cfg fuel parents g ≠ .ok r := by
  intro r h
  obtain ⟨fuel', parents', r', _, hmem, h'⟩ := expandHook_reach hc fuel parents r h
  have hm : ∃ x, Member cfg g x := by
    cases hc with
    | step hm => exact ⟨_, hm⟩
    | trans hm _ => exact ⟨_, hm⟩
  obtain ⟨x, hh, grp, hg, _⟩ := hm
  rw [expandHook_on_path cfg fuel' parents' g grp hh hg hmem] at h'
  simp at h'

theorem expandHook_reaches_cycle_not_ok {cfg : Config} {a g : String} (ha : Reach cfg a g)
    (hc : Reach cfg g g) (fuel : Nat) (parents : List String) :
    ∀ r, expandHook cfg fuel parents a ≠ .ok r := by
  intro r h
  obtain ⟨fuel', parents', r', _, _, h'⟩ := expandHook_reach ha fuel parents r h
  exact expandHook_cycle_not_ok hc fuel' parents' r' h'

/-! ### What an expansion denotes -/

theorem _root_.AcmedVerif.Spec.C14.ExpandsList.nil_inv {cfg : Config} {r : List Hook} (h : ExpandsList cfg [] r) : r = [] := by
  cases h; rfl

theorem _root_.AcmedVerif.Spec.C14.ExpandsList.cons_of_single {cfg : Config} {n : String} {ns : List String}
    {r₁ r₂ : List Hook} (h₁ : ExpandsList cfg [n] r₁) (h₂ : ExpandsList cfg ns r₂) :
    ExpandsList cfg (n :: ns) (r₁ ++ r₂) := by
  cases h₁ with
  | hook hh hrest =>
    have := hrest.nil_inv; subst this
    exact .hook hh h₂
  | group hh hg hmem hrest =>
    have := hrest.nil_inv; subst this
    simp only [List.append_nil]
    exact .group hh hg hmem h₂

theorem expandNames_denotes {cfg : Config} {rec : String → Except Err (List Hook)}
    (hrec : ∀ n r, rec n = .ok r → ExpandsList cfg [n] r) :
    ∀ ns r, expandNames rec ns = .ok r → ExpandsList cfg ns r := by
  intro ns
  induction ns with
  | nil =>
    intro r h
    simp only [expandNames, Except.ok.injEq] at h
    subst h; exact .nil
  | cons n ns ih =>
    intro r h
    simp only [expandNames] at h
    cases hn : rec n with
    | error e => simp [hn] at h
    | ok hs =>
      simp only [hn] at h
      cases hr : expandNames rec ns with
      | error e => simp [hr] at h
      | ok rest =>
        simp only [hr, Except.ok.injEq] at h
        subst h
        exact (hrec n hs hn).cons_of_single (ih rest hr)

theorem expandHook_denotes (cfg : Config) :
    ∀ fuel parents n r, expandHook cfg fuel parents n = .ok r → ExpandsList cfg [n] r := by
  intro fuel
  induction fuel with
  | zero =>
    intro parents n r h
    rw [expandHook_eq] at h
    cases hh : findHook cfg n with
    | some hk =>
      simp only [hh, Except.ok.injEq] at h
      subst h; exact .hook hh .nil
    | none =>
      simp only [hh] at h
      cases hg : findGroup cfg n with
      | none => simp [hg] at h
      | some g =>
        simp only [hg] at h
        by_cases hm : n ∈ parents <;> simp [hm] at h
  | succ fuel ih =>
    intro parents n r h
    rw [expandHook_eq] at h
    cases hh : findHook cfg n with
    | some hk =>
      simp only [hh, Except.ok.injEq] at h
      subst h; exact .hook hh .nil
    | none =>
      simp only [hh] at h
      cases hg : findGroup cfg n with
      | none => simp [hg] at h
      | some g =>
        simp only [hg] at h
        by_cases hm : n ∈ parents
        · simp [hm] at h
        · simp only [hm, if_false] at h
          have := expandNames_denotes (fun m r' => ih (parents ++ [n]) m r') g.hooks r h
          have h2 := ExpandsList.group (ns := []) hh hg this .nil
          simpa using h2

theorem _root_.AcmedVerif.Spec.C14.ExpandsList.unique {cfg : Config} {ns : List String} {r r' : List Hook}
    (h : ExpandsList cfg ns r) (h' : ExpandsList cfg ns r') : r = r' := by
  induction h generalizing r' with
  | nil => exact h'.nil_inv.symm
  | hook hh _ ih =>
    cases h' with
    | hook hh' hr =>
      rw [hh] at hh'; cases hh'
      rw [ih hr]
    | group hh' _ _ _ => rw [hh] at hh'; cases hh'
  | group hh hg _ _ ih₁ ih₂ =>
    cases h' with
    | hook hh' _ => rw [hh] at hh'; cases hh'
    | group _ hg' hm hr =>
      rw [hg] at hg'; cases hg'
      rw [ih₁ hm, ih₂ hr]

theorem _root_.AcmedVerif.Spec.C14.ExpandsList.resolves {cfg : Config} {ns : List String} {r : List Hook}
    (h : ExpandsList cfg ns r) : ∀ n, n ∈ ns → Resolves cfg n := by
  induction h with
  | nil => intro n hn; simp at hn
  | hook hh _ ih =>
    intro m hm
    rcases List.mem_cons.mp hm with hm | hm
    · subst hm; exact .hook hh
    · exact ih m hm
  | group hh hg _ _ ih₁ ih₂ =>
    intro m hm
    rcases List.mem_cons.mp hm with hm | hm
    · subst hm; exact .group hh hg ih₁
    · exact ih₂ m hm

theorem getHooks_denotes {cfg : Config} {names : List String} {r : List Hook}
    (h : getHooks cfg names = .ok r) : ExpandsList cfg names r :=
  expandNames_denotes (fun n r' hn => expandHook_denotes cfg _ _ n r' hn) names r h


/-! ## `MainEventLoop::new` -/

theorem resolveRateLimits_ok {cfg : Config} :
    ∀ (ns : List String) (r : List (Nat × Val)), resolveRateLimits cfg ns = .ok r →
      ∀ n, n ∈ ns → (findRateLimit cfg n).isSome = true := by
  intro ns
  induction ns with
  | nil => intro r _ n hn; simp at hn
  | cons a ns ih =>
    intro r h n hn
    simp only [resolveRateLimits] at h
    cases ha : findRateLimit cfg a with
    | none => simp [ha] at h
    | some rl =>
      simp only [ha] at h
      cases hr : resolveRateLimits cfg ns with
      | error e => simp [hr] at h
      | ok rest =>
        rcases List.mem_cons.mp hn with hn | hn
        · subst hn; simp [ha]
        · exact ih rest hr n hn

theorem buildAccounts_ok {cfg : Config} :
    ∀ (as : List Account) (r : List BuiltAccount), buildAccounts cfg as = .ok r →
      r.map (·.name) = as.map (·.name) ∧
      ∀ a, a ∈ as → ∃ hs, ExpandsList cfg a.hooks hs ∧
        ({ name := a.name, hooks := hs } : BuiltAccount) ∈ r := by
  intro as
  induction as with
  | nil =>
    intro r h
    simp only [buildAccounts, Except.ok.injEq] at h
    subst h; simp
  | cons a as ih =>
    intro r h
    simp only [buildAccounts] at h
    cases hh : getHooks cfg a.hooks with
    | error e => simp [hh] at h
    | ok hs =>
      simp only [hh] at h
      cases hr : buildAccounts cfg as with
      | error e => simp [hr] at h
      | ok rest =>
        simp only [hr, Except.ok.injEq] at h
        subst h
        obtain ⟨ih₁, ih₂⟩ := ih rest hr
        refine ⟨by simp [ih₁], ?_⟩
        intro b hb
        rcases List.mem_cons.mp hb with hb | hb
        · subst hb; exact ⟨hs, getHooks_denotes hh, by simp⟩
        · obtain ⟨hs', h₁, h₂⟩ := ih₂ b hb
          exact ⟨hs', h₁, by simp [h₂]⟩

/-- What one successfully built certificate guarantees and contains. -/
structure CertBuilt (cfg : Config) (c : Certificate) (bc : BuiltCert) : Prop where
  ep : ∃ ep, findEndpoint cfg c.endpoint = some ep ∧ bc.endpoint = ep.name ∧
    resolveRateLimits cfg ep.rateLimits = .ok bc.rateLimits
  hooks : ExpandsList cfg c.hooks bc.hooks
  crtId : bc.crtId = c.crtId
  account : bc.account = c.account
  renewDelay : effectiveRenewDelay cfg c = .ok bc.renewDelay
  randomEarlyRenew : effectiveRandomEarlyRenew cfg c = .ok bc.randomEarlyRenew
  fileNameFormat : effectiveFileNameFormat cfg c = .ok bc.fileNameFormat
  directory : bc.directory = effectiveDirectory cfg c
  env : bc.env = c.env

theorem buildCert_ok {cfg : Config} {c : Certificate} {bc : BuiltCert}
    (h : buildCert cfg c = .ok bc) : CertBuilt cfg c bc := by
  unfold buildCert at h
  cases hep : findEndpoint cfg c.endpoint with
  | none => simp [hep] at h
  | some ep =>
    simp only [hep] at h
    cases hrl : resolveRateLimits cfg ep.rateLimits with
    | error e => simp [hrl] at h
    | ok rls =>
      simp only [hrl] at h
      cases hh : getHooks cfg c.hooks with
      | error e => simp [hh] at h
      | ok hs =>
        simp only [hh] at h
        cases hf : effectiveFileNameFormat cfg c with
        | error e => simp [hf] at h
        | ok fmt =>
          simp only [hf] at h
          cases hr : effectiveRandomEarlyRenew cfg c with
          | error e => simp [hr] at h
          | ok rer =>
            simp only [hr] at h
            cases hd : effectiveRenewDelay cfg c with
            | error e => simp [hd] at h
            | ok rd =>
              simp only [hd, Except.ok.injEq] at h
              subst h
              exact ⟨⟨ep, hep, rfl, hrl⟩, getHooks_denotes hh, rfl, rfl, hd, hr, hf, rfl, rfl⟩

theorem buildCerts_ok {cfg : Config} :
    ∀ (cs : List Certificate) (seen : List String) (r : List BuiltCert),
      buildCerts cfg cs seen = .ok r →
      (∃ _ : r.length = cs.length, ∀ i (hi : i < cs.length), CertBuilt cfg cs[i] (r[i]'(by omega))) ∧
      (∀ c, c ∈ cs → ∃ a, a ∈ cfg.accounts ∧ a.name = c.account) ∧
      (cs.map (·.crtId)).Nodup ∧ (∀ c, c ∈ cs → c.crtId ∉ seen) := by
  intro cs
  induction cs with
  | nil =>
    intro seen r h
    simp only [buildCerts, Except.ok.injEq] at h
    subst h
    exact ⟨⟨rfl, fun i hi => absurd hi (by simp)⟩, by simp, by simp, by simp⟩
  | cons c cs ih =>
    intro seen r h
    simp only [buildCerts] at h
    cases hb : buildCert cfg c with
    | error e => simp [hb] at h
    | ok bc =>
      simp only [hb] at h
      by_cases hs : c.crtId ∈ seen
      · simp [hs] at h
      · simp only [hs, if_false] at h
        by_cases ha : cfg.accounts.any (·.name == c.account) = true
        · simp only [ha, if_true] at h
          cases hr : buildCerts cfg cs (c.crtId :: seen) with
          | error e => simp [hr] at h
          | ok rest =>
            simp only [hr, Except.ok.injEq] at h
            subst h
            obtain ⟨⟨hlen, hall⟩, hacc, hnd, hseen⟩ := ih _ _ hr
            refine ⟨⟨by simp [hlen], ?_⟩, ?_, ?_, ?_⟩
            · intro i hi
              cases i with
              | zero => exact buildCert_ok hb
              | succ i => exact hall i (by simpa using hi)
            · intro c' hc'
              rcases List.mem_cons.mp hc' with hc' | hc'
              · subst hc'
                obtain ⟨a, ha₁, ha₂⟩ := List.any_eq_true.mp ha
                exact ⟨a, ha₁, by simpa using ha₂⟩
              · exact hacc c' hc'
            · rw [List.map_cons, List.nodup_cons]
              refine ⟨?_, hnd⟩
              intro hm
              obtain ⟨c', hc', hid⟩ := List.mem_map.mp hm
              exact hseen c' hc' (by simp [hid])
            · intro c' hc'
              rcases List.mem_cons.mp hc' with hc' | hc'
              · subst hc'; exact hs
              · intro hm; exact hseen c' hc' (by simp [hm])
        · simp [ha] at h


/-! ## The model's own prediction satisfies the judge -/

theorem CertBuilt.obs {cfg : Config} {c : Certificate} {bc : BuiltCert} (d : Defaults)
    (h : CertBuilt cfg c bc) : CertObs.ofBuilt d bc = expectedCert d cfg c := by
  obtain ⟨ep, hep, _, _⟩ := h.ep
  have h₁ := h.renewDelay
  have h₂ := h.randomEarlyRenew
  have h₃ := h.fileNameFormat
  unfold effectiveRenewDelay at h₁
  unfold effectiveRandomEarlyRenew at h₂
  unfold effectiveFileNameFormat at h₃
  rw [certLevel_found cfg c _ _ _ ep hep] at h₁ h₂ h₃
  simp only [Except.ok.injEq] at h₁ h₂ h₃
  have hfind : cfg.endpoints.find? (·.name == c.endpoint) = some ep := hep
  simp only [CertObs.ofBuilt, expectedCert, hfind, Option.bind_some, h.crtId, ← h₁, ← h₂, ← h₃,
    h.directory, effectiveDirectory_eq]

theorem filter_by_id (d : Defaults) (cfg : Config) :
    ∀ (cs : List Certificate), (cs.map (·.crtId)).Nodup → ∀ c, c ∈ cs →
      (cs.map (expectedCert d cfg)).filter (fun o => o.crtId == c.crtId) = [expectedCert d cfg c] := by
  intro cs
  induction cs with
  | nil => intro _ c hc; simp at hc
  | cons a cs ih =>
    intro hnd c hc
    rw [List.map_cons, List.nodup_cons] at hnd
    have hid : ∀ x : Certificate, (expectedCert d cfg x).crtId = x.crtId := fun _ => rfl
    rcases List.mem_cons.mp hc with hc | hc
    · subst hc
      have hnone : (cs.map (expectedCert d cfg)).filter (fun o => o.crtId == c.crtId) = [] := by
        rw [List.filter_eq_nil_iff]
        intro o ho
        obtain ⟨x, hx, rfl⟩ := List.mem_map.mp ho
        intro heq
        have : x.crtId = c.crtId := by simpa [hid] using heq
        exact hnd.1 (List.mem_map.mpr ⟨x, hx, this⟩)
      simp [hid, hnone]
    · have hne : ¬ a.crtId = c.crtId := by
        intro heq
        exact hnd.1 (List.mem_map.mpr ⟨c, hc, heq.symm⟩)
      simp [hid, hne, ih hnd.2 c hc]

theorem holdsSettings_expected (d : Defaults) (cfg : Config)
    (hnd : (cfg.certificates.map (·.crtId)).Nodup) :
    holdsSettings d cfg (cfg.certificates.map (expectedCert d cfg)) = true := by
  unfold holdsSettings
  simp only [List.length_map, beq_self_eq_true, Bool.true_and, List.all_eq_true]
  intro c hc
  rw [filter_by_id d cfg _ hnd c hc]
  simp

theorem build_ok {cfg : Config} {b : Built} (h : build cfg = .ok b) :
    buildAccounts cfg cfg.accounts = .ok b.accounts ∧
    buildCerts cfg cfg.certificates [] = .ok b.certificates := by
  unfold build at h
  cases ha : buildAccounts cfg cfg.accounts with
  | error e => simp [ha] at h
  | ok accs =>
    simp only [ha] at h
    cases hc : buildCerts cfg cfg.certificates [] with
    | error e => simp [hc] at h
    | ok certs =>
      simp only [hc, Except.ok.injEq] at h
      subst h; exact ⟨rfl, rfl⟩

theorem build_obs {cfg : Config} {b : Built} (d : Defaults) (h : build cfg = .ok b) :
    b.certificates.map (CertObs.ofBuilt d) = cfg.certificates.map (expectedCert d cfg) := by
  obtain ⟨⟨hlen, hall⟩, _⟩ := buildCerts_ok _ _ _ (build_ok h).2
  apply List.ext_getElem
  · simp [hlen]
  · intro i h₁ h₂
    simp only [List.getElem_map]
    exact (hall i (by simpa using h₂)).obs d


/-! ## More fuel never changes an answer other than "out of fuel" -/

theorem includeLoop_mono {rec rec' : Path → List Path → Except Err (Config × List Path)}
    (hrec : ∀ p loaded, rec p loaded ≠ .error .outOfFuel → rec' p loaded = rec p loaded) :
    ∀ ps cfg loaded, includeLoop rec ps cfg loaded ≠ .error .outOfFuel →
      includeLoop rec' ps cfg loaded = includeLoop rec ps cfg loaded := by
  intro ps
  induction ps with
  | nil => intro cfg loaded _; rfl
  | cons p ps ih =>
    intro cfg loaded h
    simp only [includeLoop] at h ⊢
    cases hr : rec p loaded with
    | error e =>
      have hne : rec p loaded ≠ .error .outOfFuel := by
        intro hc; rw [hr] at hc h; exact h (by simp_all)
      rw [hrec p loaded hne, hr]
    | ok res =>
      have hne : rec p loaded ≠ .error .outOfFuel := by rw [hr]; simp
      rw [hrec p loaded hne, hr]
      rw [hr] at h
      exact ih _ _ h

theorem readCnf_mono {π : Type} (files : Files π) (resolve : Path → π → List Path) :
    ∀ fuel path loaded, readCnf files resolve fuel path loaded ≠ .error .outOfFuel →
      readCnf files resolve (fuel + 1) path loaded = readCnf files resolve fuel path loaded := by
  intro fuel
  induction fuel with
  | zero =>
    intro path loaded h
    rw [readCnf_eq] at h
    rw [readCnf_eq files resolve 1, readCnf_eq files resolve 0]
    cases hf : lookupFile files path with
    | none => rfl
    | some fc =>
      by_cases hm : path ∈ loaded
      · simp [hm]
      · simp [hf, hm] at h
  | succ fuel ih =>
    intro path loaded h
    rw [readCnf_eq] at h
    rw [readCnf_eq files resolve (fuel + 1 + 1), readCnf_eq files resolve (fuel + 1)]
    cases hf : lookupFile files path with
    | none => rfl
    | some fc =>
      by_cases hm : path ∈ loaded
      · simp [hm]
      · simp only [hf, hm, if_false] at h ⊢
        exact includeLoop_mono (fun p l hne => ih p l hne) _ _ _ h

theorem readCnf_more_fuel {π : Type} (files : Files π) (resolve : Path → π → List Path)
    (fuel extra : Nat) (path : Path) (loaded : List Path)
    (h : readCnf files resolve fuel path loaded ≠ .error .outOfFuel) :
    readCnf files resolve (fuel + extra) path loaded = readCnf files resolve fuel path loaded := by
  induction extra with
  | zero => rfl
  | succ k ih =>
    rw [← Nat.add_assoc, readCnf_mono files resolve (fuel + k) path loaded (by rw [ih]; exact h), ih]


/-! ## Completeness: `build` fails ONLY for an unresolved reference or a duplicate id -/

theorem _root_.AcmedVerif.Spec.C14.Reach.snoc {cfg : Config} {a b c : String} (h : Reach cfg a b) (hm : Member cfg b c) :
    Reach cfg a c := by
  induction h with
  | step h₁ => exact .trans h₁ (.step hm)
  | trans h₁ _ ih => exact .trans h₁ (ih hm)

/-- A name that resolves lies on no membership cycle. -/
theorem _root_.AcmedVerif.Spec.C14.Resolves.acyclic {cfg : Config} {n : String} (h : Resolves cfg n) :
    ∀ m, Reach cfg n m → m ≠ n := by
  induction h with
  | hook hh =>
    intro m hr
    cases hr with
    | step hm => rw [hm.1] at hh; cases hh
    | trans hm _ => rw [hm.1] at hh; cases hh
  | @group n g hh hg _ ih =>
    intro m hr hmn
    subst hmn
    -- first step of the cycle: `m → x` with `x` a member of `g`
    have first : ∃ x, x ∈ g.hooks ∧ (x = m ∨ Reach cfg x m) := by
      cases hr with
      | step hm =>
        obtain ⟨_, g', hg', hx⟩ := hm
        rw [hg] at hg'; cases hg'
        exact ⟨_, hx, .inl rfl⟩
      | trans hm hrest =>
        obtain ⟨_, g', hg', hx⟩ := hm
        rw [hg] at hg'; cases hg'
        exact ⟨_, hx, .inr hrest⟩
    obtain ⟨x, hx, hcase⟩ := first
    have hmx : Member cfg m x := ⟨hh, g, hg, hx⟩
    rcases hcase with rfl | hxm
    · exact ih x hx x (.step hmx) rfl
    · exact ih x hx x (hxm.snoc hmx) rfl

theorem expandNames_error {rec : String → Except Err (List Hook)} :
    ∀ (ns : List String) (e : Err), expandNames rec ns = .error e → ∃ n, n ∈ ns ∧ rec n = .error e := by
  intro ns
  induction ns with
  | nil => intro e h; simp [expandNames] at h
  | cons n ns ih =>
    intro e h
    simp only [expandNames] at h
    cases hn : rec n with
    | error e' =>
      simp only [hn, Except.error.injEq] at h
      subst h; exact ⟨n, by simp, hn⟩
    | ok hs =>
      simp only [hn] at h
      cases hr : expandNames rec ns with
      | error e' =>
        simp only [hr, Except.error.injEq] at h
        subst h
        obtain ⟨m, hm, hme⟩ := ih e' hr
        exact ⟨m, by simp [hm], hme⟩
      | ok rest => simp [hr] at h

/-- Expanding a name that resolves, along a path that leads to it, can only fail for lack of fuel. -/
theorem _root_.AcmedVerif.Spec.C14.Resolves.expand_error {cfg : Config} {n : String} (h : Resolves cfg n) :
    ∀ fuel parents e, (∀ p, p ∈ parents → Reach cfg p n) →
      expandHook cfg fuel parents n = .error e → e = .outOfFuel := by
  induction h with
  | hook hh =>
    intro fuel parents e _ he
    rw [expandHook_eq, hh] at he
    simp at he
  | @group n g hh hg hmem ih =>
    intro fuel parents e hpath he
    have hres : Resolves cfg n := .group hh hg hmem
    have hnot : n ∉ parents := fun hp => hres.acyclic n (hpath n hp) rfl
    rw [expandHook_eq, hh, hg] at he
    simp only [hnot, if_false] at he
    cases fuel with
    | zero => simp only [Except.error.injEq] at he; exact he.symm
    | succ fuel =>
      simp only at he
      obtain ⟨m, hm, hme⟩ := expandNames_error _ _ he
      have hnm : Member cfg n m := ⟨hh, g, hg, hm⟩
      refine ih m hm fuel (parents ++ [n]) e ?_ hme
      intro p hp
      rcases List.mem_append.mp hp with hp | hp
      · exact (hpath p hp).snoc hnm
      · simp only [List.mem_singleton] at hp
        subst hp; exact .step hnm

theorem getHook_ok_of_resolves {cfg : Config} {n : String} (h : Resolves cfg n) :
    ∃ r, getHook cfg n = .ok r := by
  cases hg : getHook cfg n with
  | ok r => exact ⟨r, rfl⟩
  | error e =>
    have := h.expand_error (expandFuel cfg) [] e (by simp) hg
    subst this
    exact absurd hg (expandHook_fuel cfg _ [] n (PathInv.init cfg))

theorem getHooks_ok_of_resolves {cfg : Config} :
    ∀ names : List String, (∀ n, n ∈ names → Resolves cfg n) → ∃ r, getHooks cfg names = .ok r := by
  intro names
  induction names with
  | nil => intro _; exact ⟨[], rfl⟩
  | cons n ns ih =>
    intro h
    obtain ⟨r₁, h₁⟩ := getHook_ok_of_resolves (h n (by simp))
    obtain ⟨r₂, h₂⟩ := ih (fun m hm => h m (by simp [hm]))
    refine ⟨r₁ ++ r₂, ?_⟩
    unfold getHooks at h₂ ⊢
    simp [expandNames, h₁, h₂]

theorem resolveRateLimits_complete {cfg : Config} :
    ∀ ns : List String, (∀ n, n ∈ ns → (findRateLimit cfg n).isSome = true) →
      ∃ r, resolveRateLimits cfg ns = .ok r := by
  intro ns
  induction ns with
  | nil => intro _; exact ⟨[], rfl⟩
  | cons n ns ih =>
    intro h
    obtain ⟨r, hr⟩ := ih (fun m hm => h m (by simp [hm]))
    have hn := h n (by simp)
    cases hf : findRateLimit cfg n with
    | none => simp [hf] at hn
    | some rl => exact ⟨(rl.number, rl.period) :: r, by simp [resolveRateLimits, hf, hr]⟩

theorem buildCert_complete {cfg : Config} {c : Certificate} (h : CertRefsOk cfg c) :
    ∃ bc, buildCert cfg c = .ok bc := by
  obtain ⟨⟨ep, hep, hrl⟩, _, hhooks⟩ := h
  obtain ⟨rls, hrls⟩ := resolveRateLimits_complete ep.rateLimits hrl
  obtain ⟨hs, hhs⟩ := getHooks_ok_of_resolves c.hooks hhooks
  unfold buildCert
  simp only [hep, hrls, hhs, effectiveFileNameFormat, effectiveRandomEarlyRenew, effectiveRenewDelay,
    certLevel_found cfg c _ _ _ ep hep]
  exact ⟨_, rfl⟩

theorem buildCerts_complete {cfg : Config} :
    ∀ (cs : List Certificate) (seen : List String), (∀ c, c ∈ cs → CertRefsOk cfg c) →
      (cs.map (·.crtId)).Nodup → (∀ c, c ∈ cs → c.crtId ∉ seen) →
      ∃ r, buildCerts cfg cs seen = .ok r := by
  intro cs
  induction cs with
  | nil => intro seen _ _ _; exact ⟨[], rfl⟩
  | cons c cs ih =>
    intro seen hrefs hnd hseen
    rw [List.map_cons, List.nodup_cons] at hnd
    obtain ⟨bc, hbc⟩ := buildCert_complete (hrefs c (by simp))
    have hs : c.crtId ∉ seen := hseen c (by simp)
    obtain ⟨_, ⟨a, ha, hname⟩, _⟩ := hrefs c (by simp)
    have hany : cfg.accounts.any (·.name == c.account) = true :=
      List.any_eq_true.mpr ⟨a, ha, by simp [hname]⟩
    obtain ⟨rest, hrest⟩ := ih (c.crtId :: seen) (fun c' hc' => hrefs c' (by simp [hc'])) hnd.2 (by
      intro c' hc' hm
      rcases List.mem_cons.mp hm with hm | hm
      · exact hnd.1 (List.mem_map.mpr ⟨c', hc', hm⟩)
      · exact hseen c' (by simp [hc']) hm)
    exact ⟨bc :: rest, by simp [buildCerts, hbc, hs, hany, hrest]⟩

theorem buildAccounts_complete {cfg : Config} :
    ∀ as : List Account, (∀ a, a ∈ as → ∀ h, h ∈ a.hooks → Resolves cfg h) →
      ∃ r, buildAccounts cfg as = .ok r := by
  intro as
  induction as with
  | nil => intro _; exact ⟨[], rfl⟩
  | cons a as ih =>
    intro h
    obtain ⟨hs, hhs⟩ := getHooks_ok_of_resolves a.hooks (h a (by simp))
    obtain ⟨rest, hrest⟩ := ih (fun b hb => h b (by simp [hb]))
    exact ⟨{ name := a.name, hooks := hs } :: rest, by simp [buildAccounts, hhs, hrest]⟩


/-! ## Characterisations of the two selection functions, and the error classes of `read_cnf` -/

/-- `mostSpecific` is what its name says: the first level that is set, else the default. -/
theorem mostSpecific_char (ls : List (Option Val)) :
    (∀ v, mostSpecific ls = .given v ↔
      ∃ before after, ls = before ++ some v :: after ∧ ∀ x, x ∈ before → x = none) ∧
    (mostSpecific ls = .builtin ↔ ∀ x, x ∈ ls → x = none) := by
  induction ls with
  | nil => simp [mostSpecific]
  | cons a ls ih =>
    cases a with
    | some w =>
      refine ⟨fun v => ⟨fun h => ?_, fun h => ?_⟩, ?_⟩
      · simp only [mostSpecific, Setting.given.injEq] at h
        subst h; exact ⟨[], ls, rfl, by simp⟩
      · obtain ⟨before, after, heq, hb⟩ := h
        cases before with
        | nil =>
          simp only [List.nil_append, List.cons.injEq, Option.some.injEq] at heq
          simp [mostSpecific, heq.1]
        | cons b before =>
          simp only [List.cons_append, List.cons.injEq] at heq
          have := hb b (by simp)
          rw [this] at heq; simp at heq
      · simp [mostSpecific]
    | none =>
      refine ⟨fun v => ⟨fun h => ?_, fun h => ?_⟩, ?_⟩
      · obtain ⟨before, after, heq, hb⟩ := (ih.1 v).mp h
        exact ⟨none :: before, after, by simp [heq], by
          intro x hx
          rcases List.mem_cons.mp hx with hx | hx
          · exact hx
          · exact hb x hx⟩
      · obtain ⟨before, after, heq, hb⟩ := h
        cases before with
        | nil => simp at heq
        | cons b before =>
          simp only [List.cons_append, List.cons.injEq] at heq
          exact (ih.1 v).mpr ⟨before, after, heq.2, fun x hx => hb x (by simp [hx])⟩
      · simp only [mostSpecific, ih.2]
        constructor
        · intro h x hx
          rcases List.mem_cons.mp hx with hx | hx
          · exact hx
          · exact h x hx
        · intro h x hx; exact h x (by simp [hx])

/-- `lastSome` is what its name says. -/
theorem lastSome_char {α : Type} (l : List (Option α)) :
    (∀ v, lastSome l = some v ↔
      ∃ before after, l = before ++ some v :: after ∧ ∀ x, x ∈ after → x = none) ∧
    (lastSome l = none ↔ ∀ x, x ∈ l → x = none) := by
  refine ⟨fun v => ?_, ?_⟩
  · unfold lastSome
    rw [List.findSome?_eq_some_iff]
    constructor
    · rintro ⟨l₁, a, l₂, hrev, ha, hl₁⟩
      simp only [id] at ha
      subst ha
      refine ⟨l₂.reverse, l₁.reverse, ?_, ?_⟩
      · have := congrArg List.reverse hrev
        simpa using this
      · intro x hx
        have := hl₁ x (by simpa using hx)
        simpa using this
    · rintro ⟨before, after, rfl, ha⟩
      refine ⟨after.reverse, some v, before.reverse, by simp, rfl, ?_⟩
      intro x hx
      have := ha x (by simpa using hx)
      simp [this]
  · unfold lastSome
    rw [List.findSome?_eq_none_iff]
    simp


theorem includeLoop_error_class {rec : Path → List Path → Except Err (Config × List Path)}
    (hrec : ∀ p l e, rec p l = .error e → e = .outOfFuel ∨ ∃ q, e = .fileNotFound q) :
    ∀ ps cfg l e, includeLoop rec ps cfg l = .error e →
      e = .outOfFuel ∨ ∃ q, e = .fileNotFound q := by
  intro ps
  induction ps with
  | nil => intro cfg l e h; simp [includeLoop] at h
  | cons q ps ih =>
    intro cfg l e h
    simp only [includeLoop] at h
    cases hq : rec q l with
    | error e' =>
      simp only [hq, Except.error.injEq] at h
      subst h; exact hrec q l _ hq
    | ok res =>
      simp only [hq] at h
      exact ih _ _ _ h

/-- The only errors `read_cnf` produces. -/
theorem readCnf_error_class {π : Type} (files : Files π) (resolve : Path → π → List Path) :
    ∀ fuel p l e, readCnf files resolve fuel p l = .error e →
      e = .outOfFuel ∨ ∃ q, e = .fileNotFound q := by
  intro fuel
  induction fuel with
  | zero =>
    intro p l e he
    rw [readCnf_eq] at he
    cases hf : lookupFile files p with
    | none => simp only [hf, Except.error.injEq] at he; exact .inr ⟨p, he.symm⟩
    | some fc =>
      by_cases hm : p ∈ l
      · simp [hf, hm] at he
      · simp only [hf, hm, if_false, Except.error.injEq] at he; exact .inl he.symm
  | succ fuel ih =>
    intro p l e he
    rw [readCnf_eq] at he
    cases hf : lookupFile files p with
    | none => simp only [hf, Except.error.injEq] at he; exact .inr ⟨p, he.symm⟩
    | some fc =>
      by_cases hm : p ∈ l
      · simp [hf, hm] at he
      · simp only [hf, hm, if_false] at he
        exact includeLoop_error_class ih _ _ _ _ he

end AcmedVerif.Config
