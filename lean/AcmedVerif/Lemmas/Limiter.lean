/-
Helper lemmas for `Props/C09.lean` about `Model/Limiter.lean`.
-/
import AcmedVerif.Model.Limiter
namespace AcmedVerif.Limiter

/-! ### One normal form for "younger than `c - p`", without truncated subtraction -/

/-- `x` is strictly younger than `c - p`, written `c < x + p`. -/
def younger (c p : Nat) : Nat → Bool := fun x => decide (c < x + p)

theorem younger_iff (c p x : Nat) : younger c p x = true ↔ c < x + p := by
  simp [younger]

theorem prune_nil (log : List Nat) (t : Nat) : prune [] log t = log := rfl

/-- `prune_log` keeps exactly the entries younger than `t - maxP`, whether or not the period
reaches back before boot. -/
theorem prune_cons (first : Limit) (rest : List Limit) (log : List Nat) (t : Nat) :
    prune (first :: rest) log t = log.filter (younger t first.period) := by
  unfold prune checkedSub
  by_cases h : first.period ≤ t
  · simp only [h, if_true]
    apply List.filter_congr
    intro x _
    simp only [younger, decide_eq_decide]
    omega
  · simp only [h, if_false]
    symm
    rw [List.filter_eq_self]
    intro x _
    simp only [younger, decide_eq_true_eq]
    omega

/-- What one limit sees, in the same normal form. -/
theorem seen_eq (log : List Nat) (lim : Limit) (t : Nat) :
    seen log lim t = (log.filter (younger t lim.period)).length := by
  unfold seen checkedSub countAfter
  by_cases h : lim.period ≤ t
  · simp only [h, if_true]
    congr 1
    apply List.filter_congr
    intro x _
    simp only [younger, decide_eq_decide]
    omega
  · simp only [h, if_false]
    congr 1
    symm
    rw [List.filter_eq_self]
    intro x _
    simp only [younger, decide_eq_true_eq]
    omega

/-- Filtering at a later bound and shorter period absorbs an earlier filter. -/
theorem filter_younger_younger (l : List Nat) {c c' p p' : Nat} (hc : c ≤ c') (hp : p' ≤ p) :
    (l.filter (younger c p)).filter (younger c' p') = l.filter (younger c' p') := by
  rw [List.filter_filter]
  apply List.filter_congr
  intro x _
  by_cases h : c' < x + p'
  · have h2 : c < x + p := by omega
    simp [younger, h, h2]
  · simp [younger, h]

theorem length_filter_le_of_imp (l : List Nat) (p q : Nat → Bool)
    (h : ∀ x ∈ l, p x = true → q x = true) : (l.filter p).length ≤ (l.filter q).length := by
  induction l with
  | nil => simp
  | cons a l ih =>
    have ih' := ih (fun x hx => h x (List.mem_cons_of_mem _ hx))
    have ha := h a (List.mem_cons_self ..)
    by_cases hp : p a = true
    · have hq := ha hp
      simp only [List.filter_cons, hp, hq, if_true, List.length_cons]
      omega
    · by_cases hq : q a = true
      · simp only [List.filter_cons, hp, hq, if_true, List.length_cons]
        simp only [Bool.false_eq_true, if_false]
        omega
      · simp only [List.filter_cons, hp, hq]
        simpa using ih'

/-! ### Monotone chains of clock readings -/

theorem monoFrom_weaken {lo lo' : Nat} (h : lo' ≤ lo) : ∀ {l : List Nat}, monoFrom lo l → monoFrom lo' l
  | [], _ => trivial
  | _ :: _, ⟨h1, h2⟩ => ⟨Nat.le_trans h h1, h2⟩

/-- A chain ending in `h`: everything lies between the start and `h`. -/
theorem monoFrom_snoc_bounds : ∀ (a : List Nat) (lo h : Nat), monoFrom lo (a ++ [h]) →
    lo ≤ h ∧ ∀ x ∈ a, lo ≤ x ∧ x ≤ h
  | [], lo, h, hm => ⟨hm.1, fun _ hx => nomatch hx⟩
  | y :: a, lo, h, hm => by
    have ⟨h1, h2⟩ := monoFrom_snoc_bounds a y h hm.2
    refine ⟨Nat.le_trans hm.1 h1, ?_⟩
    intro x hx
    rcases List.mem_cons.mp hx with rfl | hx
    · exact ⟨hm.1, h1⟩
    · exact ⟨Nat.le_trans hm.1 (h2 x hx).1, (h2 x hx).2⟩

/-- Splitting a chain after the element `h`. -/
theorem monoFrom_split : ∀ (a : List Nat) (lo h : Nat) (b : List Nat),
    monoFrom lo (a ++ h :: b) → monoFrom lo (a ++ [h]) ∧ monoFrom h b
  | [], _, _, _, hm => ⟨⟨hm.1, trivial⟩, hm.2⟩
  | y :: a, _, h, b, hm =>
    have ⟨h1, h2⟩ := monoFrom_split a y h b hm.2
    ⟨⟨hm.1, h1⟩, h2⟩

theorem flatReadings_cons (r : Readings) (rs : List Readings) :
    flatReadings (r :: rs) = (r.tPrune :: r.tTests) ++ r.tPush :: flatReadings rs := by
  simp [flatReadings]

/-- Bounds extracted from the readings of one pass. -/
theorem pass_bounds {lo : Nat} {r : Readings}
    (h : monoFrom lo (r.tPrune :: (r.tTests ++ [r.tPush]))) :
    lo ≤ r.tPrune ∧ r.tPrune ≤ r.tPush ∧ ∀ x ∈ r.tTests, r.tPrune ≤ x ∧ x ≤ r.tPush :=
  ⟨h.1, monoFrom_snoc_bounds _ _ _ h.2⟩

/-! ### `request_allowed` -/

theorem allowed_cons (log : List Nat) (lim : Limit) (rest : List Limit) (ts : List Nat)
    (dflt : Nat) :
    allowed log (lim :: rest) ts dflt =
      if seen log lim (ts.headD dflt) ≥ lim.n then false
      else allowed log rest ts.tail (ts.headD dflt) := rfl

/-- A pass that is allowed tested every limit at some reading between `lo` and `hi`, and the limit
had room then. -/
theorem allowed_true_seen (log : List Nat) (lo hi : Nat) :
    ∀ (lims : List Limit) (ts : List Nat) (dflt : Nat),
      (∀ x ∈ ts, lo ≤ x ∧ x ≤ hi) → lo ≤ dflt → dflt ≤ hi →
      allowed log lims ts dflt = true →
      ∀ lim ∈ lims, ∃ tt, lo ≤ tt ∧ tt ≤ hi ∧ seen log lim tt < lim.n
  | [], _, _, _, _, _, _ => fun _ hl => nomatch hl
  | lim0 :: rest, ts, dflt, hts, hlo, hhi, hal => by
    have hb : lo ≤ ts.headD dflt ∧ ts.headD dflt ≤ hi := by
      cases ts with
      | nil => exact ⟨hlo, hhi⟩
      | cons a _ => exact hts a (List.mem_cons_self ..)
    have htail : ∀ x ∈ ts.tail, lo ≤ x ∧ x ≤ hi := fun x hx => hts x (List.mem_of_mem_tail hx)
    rw [allowed_cons] at hal
    by_cases hs : seen log lim0 (ts.headD dflt) ≥ lim0.n
    · rw [if_pos hs] at hal
      cases hal
    · rw [if_neg hs] at hal
      intro lim hl
      rcases List.mem_cons.mp hl with rfl | hl
      · exact ⟨_, hb.1, hb.2, Nat.lt_of_not_ge hs⟩
      · exact allowed_true_seen log lo hi rest ts.tail _ htail hb.1 hb.2 hal lim hl

/-- Conversely: when every limit has room at every reading from `lo` on, the pass is allowed. -/
theorem allowed_of_room (log : List Nat) (lo : Nat) :
    ∀ (lims : List Limit) (ts : List Nat) (dflt : Nat),
      (∀ x ∈ ts, lo ≤ x) → lo ≤ dflt →
      (∀ lim ∈ lims, ∀ t, lo ≤ t → seen log lim t < lim.n) →
      allowed log lims ts dflt = true
  | [], _, _, _, _, _ => rfl
  | lim0 :: rest, ts, dflt, hts, hlo, hroom => by
    have hb : lo ≤ ts.headD dflt := by
      cases ts with
      | nil => exact hlo
      | cons a _ => exact hts a (List.mem_cons_self ..)
    have htail : ∀ x ∈ ts.tail, lo ≤ x := fun x hx => hts x (List.mem_of_mem_tail hx)
    have h0 := hroom lim0 (List.mem_cons_self ..) _ hb
    have hs : ¬ seen log lim0 (ts.headD dflt) ≥ lim0.n := by omega
    rw [allowed_cons, if_neg hs]
    exact allowed_of_room log lo rest ts.tail _ htail hb
      (fun lim hl => hroom lim (List.mem_cons_of_mem _ hl))

/-! ### The log is a sublist of the ghost history -/

theorem prune_sublist (limits : List Limit) (log : List Nat) (t : Nat) :
    (prune limits log t).Sublist log := by
  cases limits with
  | nil => exact List.Sublist.refl _
  | cons first rest => rw [prune_cons]; exact List.filter_sublist

theorem attempt_eq (s : State) (r : Readings) :
    attempt s r =
      if allowed (prune s.limits s.log r.tPrune) s.limits r.tTests r.tPrune = true then
        ({ s with log := prune s.limits s.log r.tPrune ++ [r.tPush],
                  hist := s.hist ++ [r.tPush] }, true)
      else ({ s with log := prune s.limits s.log r.tPrune }, false) := rfl

theorem attempt_limits (s : State) (r : Readings) : (attempt s r).1.limits = s.limits := by
  rw [attempt_eq]
  split <;> rfl

theorem run_nil (s : State) : run s [] = s := rfl

theorem run_cons (s : State) (r : Readings) (rs : List Readings) :
    run s (r :: rs) = run (attempt s r).1 rs := rfl

theorem run_limits (rs : List Readings) : ∀ (s : State), (run s rs).limits = s.limits := by
  induction rs with
  | nil => intro s; rfl
  | cons r rs ih => intro s; rw [run_cons, ih, attempt_limits]

theorem attempt_log_sublist (s : State) (r : Readings) (h : s.log.Sublist s.hist) :
    (attempt s r).1.log.Sublist (attempt s r).1.hist := by
  have hp := (prune_sublist s.limits s.log r.tPrune).trans h
  rw [attempt_eq]
  split
  · exact List.Sublist.append hp (List.Sublist.refl _)
  · exact hp

theorem run_log_sublist (rs : List Readings) :
    ∀ (s : State), s.log.Sublist s.hist → (run s rs).log.Sublist (run s rs).hist := by
  induction rs with
  | nil => intro s h; exact h
  | cons r rs ih => intro s h; rw [run_cons]; exact ih _ (attempt_log_sublist s r h)

/-! ### The safety invariant -/

/-- Invariant of every reachable state, `last` being the latest clock reading taken. -/
structure Inv (limits : List Limit) (last : Nat) (s : State) : Prop where
  lims : s.limits = limits
  /-- every admission is in the past -/
  le_last : ∀ x ∈ s.hist, x ≤ last
  /-- the pruned log still holds every admission any limit can still see -/
  log_complete : ∀ lim ∈ limits,
    s.hist.filter (younger last lim.period) = s.log.filter (younger last lim.period)
  /-- the property itself -/
  safe : ∀ lim ∈ limits, ∀ t, inWindow s.hist lim.period t ≤ lim.n

theorem Inv.init (limits : List Limit) : Inv limits 0 (init limits) :=
  ⟨rfl, fun _ hx => (nomatch hx), fun _ _ => rfl, fun _ _ _ => Nat.zero_le _⟩

theorem complete_lift {hist log : List Nat} {c c' p : Nat} (hc : c ≤ c')
    (h : hist.filter (younger c p) = log.filter (younger c p)) :
    hist.filter (younger c' p) = log.filter (younger c' p) := by
  rw [← filter_younger_younger hist hc (Nat.le_refl p), h, filter_younger_younger log hc (Nat.le_refl p)]

/-- Pruning at a later reading keeps the log complete for every limit (longest period first). -/
theorem complete_prune {limits : List Limit} (hm : HeadMax limits) {hist log : List Nat}
    {last t : Nat} (ht : last ≤ t) {lim : Limit} (hl : lim ∈ limits)
    (h : hist.filter (younger last lim.period) = log.filter (younger last lim.period)) :
    hist.filter (younger t lim.period) = (prune limits log t).filter (younger t lim.period) := by
  have h' := complete_lift ht h
  cases limits with
  | nil => exact h'
  | cons first rest =>
    have hp : lim.period ≤ first.period := hm first rest rfl lim hl
    rw [prune_cons, filter_younger_younger log (Nat.le_refl t) hp]
    exact h'

theorem inWindow_append_singleton (hist : List Nat) (p t a : Nat) :
    inWindow (hist ++ [a]) p t =
      inWindow hist p t + (if t < a + p ∧ a ≤ t then 1 else 0) := by
  unfold inWindow
  rw [List.filter_append, List.length_append]
  congr 1
  by_cases h : t < a + p ∧ a ≤ t
  · simp [h.1, h.2]
  · rw [if_neg h]
    have : (decide (t < a + p) && decide (a ≤ t)) = false := by
      simpa using h
    simp [this]

/-- One pass preserves the invariant. -/
theorem Inv.attempt {limits : List Limit} (hm : HeadMax limits) {last : Nat} {s : State}
    (inv : Inv limits last s) {r : Readings}
    (hmono : monoFrom last (r.tPrune :: (r.tTests ++ [r.tPush]))) :
    Inv limits r.tPush (attempt s r).1 := by
  obtain ⟨h1, h2, h3⟩ := pass_bounds hmono
  obtain ⟨hlims, hle, hcomp, hsafe⟩ := inv
  -- the log after pruning is complete at `tPrune`
  have hcomp' : ∀ lim ∈ limits, s.hist.filter (younger r.tPrune lim.period) =
      (prune s.limits s.log r.tPrune).filter (younger r.tPrune lim.period) := by
    intro lim hl
    rw [hlims]
    exact complete_prune hm h1 hl (hcomp lim hl)
  rw [attempt_eq]
  by_cases hal : allowed (prune s.limits s.log r.tPrune) s.limits r.tTests r.tPrune = true
  · simp only [hal, if_true]
    refine ⟨hlims, ?_, ?_, ?_⟩
    · intro x hx
      rcases List.mem_append.mp hx with hx | hx
      · have := hle x hx; omega
      · have : x = r.tPush := by simpa using hx
        omega
    · intro lim hl
      show (s.hist ++ [r.tPush]).filter _ = (prune s.limits s.log r.tPrune ++ [r.tPush]).filter _
      rw [List.filter_append, List.filter_append, complete_lift h2 (hcomp' lim hl)]
    · intro lim hl t
      show inWindow (s.hist ++ [r.tPush]) lim.period t ≤ lim.n
      rw [inWindow_append_singleton]
      by_cases hw : t < r.tPush + lim.period ∧ r.tPush ≤ t
      · rw [if_pos hw]
        rw [hlims] at hal
        obtain ⟨tt, htt1, htt2, hseen⟩ :=
          allowed_true_seen _ r.tPrune r.tPush limits r.tTests r.tPrune h3 (Nat.le_refl _) h2 hal
            lim hl
        rw [seen_eq, ← hlims, ← complete_lift htt1 (hcomp' lim hl)] at hseen
        have hle2 : inWindow s.hist lim.period t ≤
            (s.hist.filter (younger tt lim.period)).length := by
          unfold inWindow
          apply length_filter_le_of_imp
          intro x _ hx
          simp only [Bool.and_eq_true, decide_eq_true_eq] at hx
          simp only [younger, decide_eq_true_eq]
          omega
        omega
      · rw [if_neg hw]
        exact hsafe lim hl t
  · simp only [hal]
    refine ⟨hlims, ?_, ?_, hsafe⟩
    · intro x hx
      have := hle x hx
      omega
    · intro lim hl
      exact complete_lift h2 (hcomp' lim hl)

theorem Inv.run {limits : List Limit} (hm : HeadMax limits) (rs : List Readings) :
    ∀ (last : Nat) (s : State), Inv limits last s → monoFrom last (flatReadings rs) →
      ∃ last', Inv limits last' (run s rs) := by
  induction rs with
  | nil => intro last s inv _; exact ⟨last, inv⟩
  | cons r rs ih =>
    intro last s inv hmono
    rw [flatReadings_cons] at hmono
    obtain ⟨ha, hb⟩ := monoFrom_split _ _ _ _ hmono
    rw [run_cons]
    exact ih r.tPush _ (inv.attempt hm ha) hb

/-! ### Progress -/

theorem attempt_admits_of_room (s : State) (hsub : s.log.Sublist s.hist) (r : Readings) (t0 : Nat)
    (hmono : monoFrom t0 (r.tPrune :: (r.tTests ++ [r.tPush])))
    (hroom : ∀ lim ∈ s.limits,
      (s.hist.filter (fun x => decide (t0 < x + lim.period))).length < lim.n) :
    (attempt s r).2 = true := by
  obtain ⟨h1, _, h3⟩ := pass_bounds hmono
  have hal : allowed (prune s.limits s.log r.tPrune) s.limits r.tTests r.tPrune = true := by
    apply allowed_of_room _ t0
    · intro x hx
      have := (h3 x hx).1
      omega
    · exact h1
    · intro lim hl t ht
      rw [seen_eq]
      have hsub' : (prune s.limits s.log r.tPrune).Sublist s.hist :=
        (prune_sublist _ _ _).trans hsub
      have l1 := (hsub'.filter (younger t lim.period)).length_le
      have l2 : (s.hist.filter (younger t lim.period)).length ≤
          (s.hist.filter (younger t0 lim.period)).length := by
        apply length_filter_le_of_imp
        intro x _ hx
        simp only [younger, decide_eq_true_eq] at hx ⊢
        omega
      have l3 := hroom lim hl
      change (s.hist.filter (younger t0 lim.period)).length < lim.n at l3
      omega
  rw [attempt_eq, if_pos hal]

/-! ### `RateLimit::new` -/

theorem mem_insertDesc (a l : Limit) : ∀ (xs : List Limit), a ∈ insertDesc l xs ↔ a = l ∨ a ∈ xs
  | [] => by simp [insertDesc]
  | x :: xs => by
    unfold insertDesc
    split
    · simp
    · rw [List.mem_cons, mem_insertDesc a l xs, List.mem_cons]
      constructor
      · rintro (h | h | h)
        · exact Or.inr (Or.inl h)
        · exact Or.inl h
        · exact Or.inr (Or.inr h)
      · rintro (h | h | h)
        · exact Or.inr (Or.inl h)
        · exact Or.inl h
        · exact Or.inr (Or.inr h)

theorem length_insertDesc (l : Limit) : ∀ (xs : List Limit), (insertDesc l xs).length = xs.length + 1
  | [] => rfl
  | x :: xs => by
    unfold insertDesc
    split
    · simp
    · simp [length_insertDesc l xs]

theorem mem_sortDesc (a : Limit) : ∀ (raw : List Limit), a ∈ sortDesc raw ↔ a ∈ raw
  | [] => by simp [sortDesc]
  | l :: ls => by
    unfold sortDesc
    rw [mem_insertDesc, mem_sortDesc a ls, List.mem_cons]

theorem length_sortDesc : ∀ (raw : List Limit), (sortDesc raw).length = raw.length
  | [] => rfl
  | l :: ls => by
    unfold sortDesc
    rw [length_insertDesc, length_sortDesc ls, List.length_cons]

/-- Longest period first, all the way down. -/
def Desc (ls : List Limit) : Prop := ls.Pairwise (fun a b => b.period ≤ a.period)

theorem desc_insertDesc (l : Limit) : ∀ (xs : List Limit), Desc xs → Desc (insertDesc l xs)
  | [], _ => by simp [insertDesc, Desc]
  | x :: xs, h => by
    unfold Desc at h ⊢
    have ⟨hx, hxs⟩ := List.pairwise_cons.mp h
    unfold insertDesc
    split
    next hlt =>
      refine List.pairwise_cons.mpr ⟨?_, h⟩
      intro y hy
      rcases List.mem_cons.mp hy with rfl | hy
      · omega
      · have := hx y hy; omega
    next hge =>
      refine List.pairwise_cons.mpr ⟨?_, desc_insertDesc l xs hxs⟩
      intro y hy
      rcases (mem_insertDesc y l xs).mp hy with rfl | hy
      · omega
      · exact hx y hy

theorem desc_sortDesc : ∀ (raw : List Limit), Desc (sortDesc raw)
  | [] => List.Pairwise.nil
  | l :: ls => desc_insertDesc l _ (desc_sortDesc ls)

theorem headMax_of_desc {ls : List Limit} (h : Desc ls) : HeadMax ls := by
  intro first rest he l hl
  subst he
  have ⟨hx, _⟩ := List.pairwise_cons.mp h
  rcases List.mem_cons.mp hl with rfl | hl
  · exact Nat.le_refl _
  · exact hx l hl

theorem mkLimits_some {raw ls : List Limit} (h : mkLimits raw = some ls) :
    ls = sortDesc raw ∧ ∀ l ∈ raw, l.n ≠ 0 := by
  unfold mkLimits at h
  split at h
  · cases h
  · next hany =>
    refine ⟨(Option.some.inj h).symm, ?_⟩
    intro l hl h0
    apply hany
    rw [List.any_eq_true]
    exact ⟨l, hl, by simp [h0]⟩

/-! ### `get_sleep_duration` -/

theorem sleepMs_bounds_aux (limits : List Limit) (hne : limits ≠ []) :
    minSleepMs ≤ sleepMs limits ∧ sleepMs limits ≤ maxSleepMs := by
  unfold sleepMs
  cases hg : limits.getLast? with
  | none => exact absurd (List.getLast?_eq_none_iff.mp hg) hne
  | some l =>
    simp only
    split
    · simp [minSleepMs, maxSleepMs]
    · refine ⟨Nat.le_max_right _ _, Nat.max_le.mpr ⟨Nat.min_le_right _ _, ?_⟩⟩
      simp [minSleepMs, maxSleepMs]

end AcmedVerif.Limiter
