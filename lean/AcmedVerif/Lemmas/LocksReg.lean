/-
Register-once, sharpened: the bound of `Lemmas/Locks.lean` (`Reg.Bound`) counts from "one registration
is always allowed"; an account that is ALREADY registered with the configured binding when the daemon
starts may register only as often as the CA reports it unknown or the binding changes.
-/
import AcmedVerif.Lemmas.Locks

namespace AcmedVerif.Locks.Reg

/-- `Bound` with the start allowance `d0` (= `due` of the start state) instead of the constant 1. -/
def BoundFrom (d0 : Nat) (s : St) : Prop :=
  s.newAccountOk + due s + s.pending.length ≤ d0 + s.dne + s.changes

theorem boundFrom_step {d0 : Nat} {s s' : St} {e : Ev} (hb : BoundFrom d0 s) (h : step s e = some s') :
    BoundFrom d0 s' := by
  have hd := due_le_one s
  cases e with
  | bindingChange =>
    simp only [step, Option.some.injEq] at h
    subst h
    unfold BoundFrom at *
    have := due_le_one { s with stale := true, changes := s.changes + 1 }
    simp only at *
    omega
  | sync ok =>
    simp only [step] at h
    by_cases hdue : (!s.registered || s.stale) = true
    · rw [if_pos hdue] at h
      cases ok with
      | true =>
        simp only [if_true, Option.some.injEq] at h
        subst h
        unfold BoundFrom due b2n at *
        simp only [hdue, if_true] at hb
        simp
        omega
      | false =>
        simp only [Bool.false_eq_true, if_false, Option.some.injEq] at h
        subst h; exact hb
    · rw [if_neg hdue] at h
      simp only [Option.some.injEq] at h
      subst h; exact hb
  | updateDne ok =>
    simp only [step] at h
    cases ok with
    | true =>
      simp only [if_true, Option.some.injEq] at h
      subst h
      unfold BoundFrom due b2n at *
      simp
      omega
    | false =>
      simp only [Bool.false_eq_true, if_false, Option.some.injEq] at h
      subst h
      unfold BoundFrom due at *
      simp only at *
      omega
  | orderDne t =>
    simp only [step, Option.some.injEq] at h
    subst h
    unfold BoundFrom due at *
    simp only [List.length_cons] at *
    omega
  | reRegister t ok =>
    simp only [step] at h
    by_cases hp : s.pending.contains t = true
    · rw [if_pos hp] at h
      have hmem : t ∈ s.pending := by simpa using hp
      have hlen := List.length_erase_of_mem hmem
      have hpos : 0 < s.pending.length := List.length_pos_of_mem hmem
      cases ok with
      | true =>
        simp only [if_true, Option.some.injEq] at h
        subst h
        unfold BoundFrom due b2n at *
        simp
        omega
      | false =>
        simp only [Bool.false_eq_true, if_false, Option.some.injEq] at h
        subst h
        unfold BoundFrom due at *
        simp only at *
        omega
    · rw [if_neg hp] at h
      cases h

theorem boundFrom_run {d0 : Nat} : ∀ (es : List Ev) {s s' : St}, BoundFrom d0 s → run s es = some s' → BoundFrom d0 s'
  | [], s, s', hb, h => by
    simp only [run, Option.some.injEq] at h
    subst h; exact hb
  | e :: es, s, s', hb, h => by
    simp only [run] at h
    split at h
    · next s1 h1 => exact boundFrom_run es (boundFrom_step hb h1) h
    · cases h

theorem boundFrom_start (registered stale : Bool) :
    BoundFrom (due (start registered stale)) (start registered stale) := by
  unfold BoundFrom
  simp only [start, List.length_nil]
  omega

end AcmedVerif.Locks.Reg
