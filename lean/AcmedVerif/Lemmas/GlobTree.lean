/- Lemmas about Model/Glob.lean: the LIFO `todo` machine read as a depth-first traversal (`Outs`: what a stack of
elements returns, element by element), regions of the path space, and "no path twice" for patterns without a
`**` component. -/
import AcmedVerif.Lemmas.GlobCnf

namespace AcmedVerif.Glob
open AcmedVerif.Spec.C14Glob (withSep inDir)

/-! ## The machine as a traversal -/

/-- What a stack of elements returns, top first: the popped element's own result, then everything its pushed
elements return, then the rest of the stack. -/
inductive Outs (fs : FsView) (rd : Bool) : List Item → List Str → Prop
  | nil : Outs fs rd [] []
  | cons {it : Item} {todo : List Item} {o2 o3 : List Str} :
      Outs fs rd (step fs rd it).2 o2 → Outs fs rd todo o3 →
      Outs fs rd (it :: todo) ((step fs rd it).1 ++ o2 ++ o3)

theorem Outs.append_inv {fs : FsView} {rd : Bool} : ∀ (a b : List Item) (o : List Str), Outs fs rd (a ++ b) o →
    ∃ oa ob, Outs fs rd a oa ∧ Outs fs rd b ob ∧ o = oa ++ ob := by
  intro a
  induction a with
  | nil => intro b o h; exact ⟨[], o, .nil, h, rfl⟩
  | cons it a ih =>
    intro b o h
    cases h with
    | cons h2 h3 =>
      obtain ⟨oa, ob, ha, hb, rfl⟩ := ih b _ h3
      exact ⟨_, ob, .cons h2 ha, hb, by simp⟩

/-- A run that ends returns what the traversal describes. -/
theorem run_outs (fs : FsView) (rd : Bool) : ∀ (fuel : Nat) (todo : List Item) (acc ps : List Str),
    run fs rd fuel todo acc = some ps → ∃ o, Outs fs rd todo o ∧ ps = acc ++ o := by
  intro fuel
  induction fuel with
  | zero =>
    intro todo acc ps h
    cases todo with
    | nil => simp [run] at h; subst h; exact ⟨[], .nil, by simp⟩
    | cons _ _ => simp [run] at h
  | succ f ih =>
    intro todo acc ps h
    cases todo with
    | nil => simp [run] at h; subst h; exact ⟨[], .nil, by simp⟩
    | cons it todo =>
      simp only [run] at h
      obtain ⟨o, ho, rfl⟩ := ih _ _ _ h
      obtain ⟨oa, ob, ha, hb, rfl⟩ := Outs.append_inv _ _ _ ho
      exact ⟨_, .cons ha hb, by simp⟩

/-- The traversal is a function of the stack. -/
theorem Outs.det {fs : FsView} {rd : Bool} {todo : List Item} {o1 : List Str} (h1 : Outs fs rd todo o1) :
    ∀ {o2 : List Str}, Outs fs rd todo o2 → o1 = o2 := by
  induction h1 with
  | nil => intro o2 h2; cases h2; rfl
  | cons _ _ ih2 ih3 =>
    intro o2 h2
    cases h2 with
    | cons h2' h3' => rw [ih2 h2', ih3 h3']

/-- Fuel only decides WHETHER the run ends, not what it returns. -/
theorem run_fuel_irrelevant (fs : FsView) (rd : Bool) (f1 f2 : Nat) (todo : List Item) (p1 p2 : List Str)
    (h1 : run fs rd f1 todo [] = some p1) (h2 : run fs rd f2 todo [] = some p2) : p1 = p2 := by
  obtain ⟨o1, ho1, rfl⟩ := run_outs fs rd _ _ _ _ h1
  obtain ⟨o2, ho2, rfl⟩ := run_outs fs rd _ _ _ _ h2
  rw [ho1.det ho2]

/-! ## Regions: everything an element returns lies under its path -/

/-- The element's path is inside `q` (and its patterns are cut at the separators). -/
def ItemIn (q : Str) : Item → Prop
  | .err => True
  | .ok p none => InDir q p.path
  | .ok p (some pats) => Lit pats ∧ InDir q p.path

theorem fillTodo_in (fs : FsView) (hwf : fs.WF) (q : Str) (hq : q ≠ []) : ∀ (pats : List Pattern) (path : PathW),
    Lit pats → InDir q path.path → ∀ it ∈ fillTodo fs pats path, ItemIn q it := by
  intro pats
  induction pats with
  | nil => intro path _ _ it h; simp [fillTodo] at h
  | cons pat rest ih =>
    intro path hl hin it hit
    have hadd : ∀ (s : Str), s.head? ≠ some '/' →
        ∀ it ∈ addNext rest (fillTodo fs rest) (fromPath fs (joinPath path.path s)), ItemIn q it := by
      intro s hs it hit
      unfold addNext at hit
      split at hit
      · simp at hit; subst hit
        exact InDir.join hq hin hs
      · exact ih _ hl.tail (InDir.join hq hin hs) it hit
    simp only [fillTodo] at hit
    split at hit
    · rename_i s hs
      split at hit
      · exact hadd s (hl pat (by simp) s hs) it hit
      · simp at hit
    · split at hit
      · split at hit
        · rename_i entries he
          rcases List.mem_append.1 hit with hit | hit
          · split at hit
            · rcases List.mem_append.1 hit with hit | hit
              · split at hit
                · exact hadd _ (by simp) it hit
                · simp at hit
              · split at hit
                · exact hadd _ (by simp) it hit
                · simp at hit
            · simp at hit
          · obtain ⟨e, hemem, rfl⟩ := List.mem_map.1 hit
            have hv := hwf.names _ _ he e ((mem_sortAsc e entries).1 hemem)
            refine ⟨hl, ?_⟩
            rw [fromDirEntry_path]
            exact InDir.join hq hin (head_ne_sep_of_noSep (validName_noSep hv))
        · simp at hit; subst hit; trivial
      · simp at hit

theorem matchNormally_in (fs : FsView) (hwf : fs.WF) (q : Str) (hq : q ≠ []) (rd : Bool) (path : PathW)
    (pats : List Pattern) (hl : Lit pats) (hin : InDir q path.path) :
    (∀ p ∈ (matchNormally fs rd path pats).1, InDir q p) ∧
    (∀ it ∈ (matchNormally fs rd path pats).2, ItemIn q it) := by
  unfold matchNormally
  split
  · simp
  · rename_i pat rest
    split
    · simp
    · split
      · split
        · split <;> simp [hin]
        · exact ⟨by simp, fun it hit => fillTodo_in fs hwf q hq rest path hl.tail hin it hit⟩
      · simp

theorem step_in (fs : FsView) (hwf : fs.WF) (q : Str) (hq : q ≠ []) (rd : Bool) (it : Item) (hit : ItemIn q it) :
    (∀ p ∈ (step fs rd it).1, InDir q p) ∧ (∀ it' ∈ (step fs rd it).2, ItemIn q it') := by
  cases it with
  | err => simp [step]
  | ok path opats =>
    cases opats with
    | none =>
      simp only [step]
      split <;> simp
      exact hit
    | some pats =>
      obtain ⟨hl, hin⟩ := hit
      cases pats with
      | nil => simp [step]
      | cons pat rest =>
        simp only [step]
        split
        · split
          · simp
          · rename_i nextPat after hcol
            have hlc : Lit (nextPat :: after) := by rw [← hcol]; exact hl.collapse
            split
            · split
              · exact ⟨by simp [hin], fun it' h => fillTodo_in fs hwf q hq _ path hlc hin it' h⟩
              · have hm := matchNormally_in fs hwf q hq rd path after hlc.tail hin
                refine ⟨hm.1, fun it' h => ?_⟩
                rcases List.mem_append.1 h with h | h
                · exact hm.2 it' h
                · exact fillTodo_in fs hwf q hq _ path hlc hin it' h
            · split
              · simp
              · exact matchNormally_in fs hwf q hq rd path after hlc.tail hin
        · exact matchNormally_in fs hwf q hq rd path (pat :: rest) hl hin

/-- Whatever a stack of elements inside `q` returns is inside `q`. -/
theorem outs_in (fs : FsView) (hwf : fs.WF) (q : Str) (hq : q ≠ []) (rd : Bool) {todo : List Item} {o : List Str}
    (h : Outs fs rd todo o) : (∀ it ∈ todo, ItemIn q it) → ∀ r ∈ o, InDir q r := by
  induction h with
  | nil => intro _ r hr; simp at hr
  | cons _ _ ih2 ih3 =>
    rename_i it todo o2 o3 _ _
    intro hall r hr
    have hs := step_in fs hwf q hq rd it (hall it (by simp))
    rcases List.mem_append.1 hr with hr | hr
    · rcases List.mem_append.1 hr with hr | hr
      · exact hs.1 r hr
      · exact ih2 hs.2 r hr
    · exact ih3 (fun it' h' => hall it' (List.mem_cons_of_mem _ h')) r hr

/-! ## Two different entries of one directory span disjoint regions -/

theorem withSep_joinPath (p a : Str) (ha : Proper a) (hp : p ≠ []) :
    ∃ P, joinPath p a = P ++ a ∧ withSep (joinPath p a) = P ++ a ++ ['/'] ∧ ∀ b, Proper b → joinPath p b = P ++ b := by
  have hjoin : ∀ b, Proper b → joinPath p b = (if p.getLast? = some '/' then p else p ++ ['/']) ++ b := by
    intro b hb
    unfold joinPath
    have h1 : (b.head? == some '/') = false := by simpa using head_ne_sep_of_noSep hb.2
    have h2 : p.isEmpty = false := by cases p with | nil => exact absurd rfl hp | cons _ _ => rfl
    simp only [h1, h2, Bool.false_eq_true, if_false, Bool.false_or]
    by_cases hl : p.getLast? = some '/'
    · simp [hl]
    · have : (p.getLast? == some '/') = false := by simpa using hl
      simp [hl, this]
  refine ⟨_, hjoin a ha, ?_, hjoin⟩
  rw [hjoin a ha]
  unfold withSep
  have hlast : (((if p.getLast? = some '/' then p else p ++ ['/']) ++ a).getLast? == some '/') = false := by
    rw [List.getLast?_append]
    obtain ⟨x, hx⟩ : ∃ x, a.getLast? = some x := by
      cases h : a.getLast? with
      | none => simp [List.getLast?_eq_none_iff] at h; exact absurd h ha.1
      | some x => exact ⟨x, rfl⟩
    have : x ≠ '/' := fun hx' => ha.2 (by rw [← hx']; exact List.mem_of_getLast? hx)
    simp [hx, this]
  simp only [hlast, Bool.false_eq_true, if_false]

theorem noSep_append_cancel : ∀ (a b x y : Str), '/' ∉ a → '/' ∉ b → (x = [] ∨ x.head? = some '/') →
    (y = [] ∨ y.head? = some '/') → a ++ x = b ++ y → a = b := by
  intro a
  induction a with
  | nil =>
    intro b x y _ hb hx hy h
    cases b with
    | nil => rfl
    | cons c t =>
      exfalso
      simp at h hb
      rcases hx with rfl | hx
      · simp at h
      · cases x with
        | nil => simp at hx
        | cons d x' => simp at hx h; exact hb.1 (by rw [← h.1, hx])
  | cons c t ih =>
    intro b x y ha hb hx hy h
    cases b with
    | nil =>
      exfalso
      simp at h ha
      rcases hy with rfl | hy
      · simp at h
      · cases y with
        | nil => simp at hy
        | cons d y' => simp at hy h; exact ha.1 (by rw [h.1, hy])
    | cons d u =>
      simp at h ha hb
      rw [h.1, ih u x y ha.2 hb.2 hx hy h.2]

/-- A path cannot lie under two different entries of one directory. -/
theorem region_disjoint (p a b r : Str) (hp : p ≠ []) (ha : Proper a) (hb : Proper b)
    (h1 : InDir (joinPath p a) r) (h2 : InDir (joinPath p b) r) : a = b := by
  obtain ⟨P, hPa, hwa, hall⟩ := withSep_joinPath p a ha hp
  obtain ⟨P', hPb, hwb, hall'⟩ := withSep_joinPath p b hb hp
  have hPP : P' = P := by
    have := hall' a ha
    rw [hPa] at this
    exact (List.append_cancel_right this).symm
  subst hPP
  have f1 : ∃ x, r = P' ++ (a ++ x) ∧ (x = [] ∨ x.head? = some '/') := by
    rcases h1 with h | h
    · exact ⟨[], by rw [h, hPa]; simp, .inl rfl⟩
    · rw [hwa] at h
      obtain ⟨t, rfl⟩ := h
      exact ⟨'/' :: t, by simp, .inr rfl⟩
  have f2 : ∃ y, r = P' ++ (b ++ y) ∧ (y = [] ∨ y.head? = some '/') := by
    rcases h2 with h | h
    · exact ⟨[], by rw [h, hPb]; simp, .inl rfl⟩
    · rw [hwb] at h
      obtain ⟨t, rfl⟩ := h
      exact ⟨'/' :: t, by simp, .inr rfl⟩
  obtain ⟨x, hx, hx'⟩ := f1
  obtain ⟨y, hy, hy'⟩ := f2
  rw [hx] at hy
  exact noSep_append_cancel a b x y ha.2 hb.2 hx' hy' (List.append_cancel_left hy)

/-! ## No path twice, for patterns without a `**` component -/

def NonRec (pats : List Pattern) : Prop := ∀ p ∈ pats, p.isRecursive = false

theorem NonRec.tail {p : Pattern} {rest : List Pattern} (h : NonRec (p :: rest)) : NonRec rest :=
  fun q hq => h q (List.mem_cons_of_mem _ hq)

theorem joinPath_ne_nil (p s : Str) (hp : p ≠ []) : joinPath p s ≠ [] := by
  unfold joinPath
  split
  · rename_i h; intro h0; rw [h0] at h; simp at h
  · split <;> simp [hp]

theorem Outs.nil_inv {fs : FsView} {rd : Bool} {o : List Str} (h : Outs fs rd [] o) : o = [] := by
  cases h; rfl

theorem Outs.single_inv {fs : FsView} {rd : Bool} {it : Item} {o : List Str} (h : Outs fs rd [it] o) :
    ∃ o2, Outs fs rd (step fs rd it).2 o2 ∧ o = (step fs rd it).1 ++ o2 := by
  cases h with
  | cons h2 h3 => rw [h3.nil_inv]; exact ⟨_, h2, by simp⟩

/-- What one group of elements returns: nothing twice, everything under `q`. -/
structure Group (q : Str) (o : List Str) : Prop where
  nodup : o.Nodup
  inside : ∀ r ∈ o, InDir q r

theorem Group.nil (q : Str) : Group q [] := ⟨List.nodup_nil, by simp⟩

theorem Group.single (q : Str) : Group q [q] := ⟨by simp, by simp [InDir]⟩

section NoDup
variable (fs : FsView) (hwf : fs.WF) (rd : Bool)

/-- The induction hypothesis of `fillTodo_nodup`, for the remaining patterns. -/
def RestOk (rest : List Pattern) : Prop :=
  ∀ (path : PathW), path.path ≠ [] → ∀ o, Outs fs rd (fillTodo fs rest path) o → o.Nodup

include hwf in
theorem add_group (rest : List Pattern) (hl : Lit rest) (ih : RestOk fs rd rest) (next : PathW) (hn : next.path ≠ [])
    (o : List Str) (h : Outs fs rd (addNext rest (fillTodo fs rest) next) o) : Group next.path o := by
  unfold addNext at h
  split at h
  · obtain ⟨o2, h2, rfl⟩ := h.single_inv
    generalize hs : step fs rd (Item.ok next none) = st at h2 ⊢
    simp only [step] at hs
    split at hs
    · subst hs; simp only [List.nil_append] at h2 ⊢; rw [h2.nil_inv]; exact Group.nil _
    · subst hs; simp only at h2 ⊢; rw [h2.nil_inv]; exact Group.single _
  · refine ⟨ih next hn o h, ?_⟩
    exact outs_in fs hwf next.path hn rd h
      (fun it hit => fillTodo_in fs hwf next.path hn rest next hl (InDir.refl _) it hit)

include hwf in
theorem child_group (pat : Pattern) (rest : List Pattern) (hnr : pat.isRecursive = false) (hl : Lit (pat :: rest))
    (ih : RestOk fs rd rest) (pw : PathW) (hn : pw.path ≠ []) (o : List Str)
    (h : Outs fs rd [Item.ok pw (some (pat :: rest))] o) : Group pw.path o := by
  obtain ⟨o2, h2, rfl⟩ := h.single_inv
  generalize hs : step fs rd (Item.ok pw (some (pat :: rest))) = st at h2 ⊢
  simp only [step, hnr, Bool.false_eq_true, if_false, matchNormally] at hs
  split at hs
  · subst hs; simp only [List.nil_append] at h2 ⊢; rw [h2.nil_inv]; exact Group.nil _
  · split at hs
    · split at hs
      · split at hs
        · subst hs; simp only at h2 ⊢; rw [h2.nil_inv]; exact Group.single _
        · subst hs; simp only [List.nil_append] at h2 ⊢; rw [h2.nil_inv]; exact Group.nil _
      · subst hs
        simp only [List.nil_append] at h2 ⊢
        refine ⟨ih pw hn o2 h2, ?_⟩
        exact outs_in fs hwf pw.path hn rd h2
          (fun it hit => fillTodo_in fs hwf pw.path hn rest pw hl.tail (InDir.refl _) it hit)
    · subst hs; simp only [List.nil_append] at h2 ⊢; rw [h2.nil_inv]; exact Group.nil _

theorem nodup_append_of_disjoint {α} {a b : List α} (ha : a.Nodup) (hb : b.Nodup) (hd : ∀ x ∈ a, x ∉ b) :
    (a ++ b).Nodup := by
  rw [List.nodup_append]
  exact ⟨ha, hb, fun x hx y hy hxy => hd x hx (hxy ▸ hy)⟩

include hwf in
/-- The entries of one directory, each with the same patterns: groups under different names. -/
theorem children_groups (p : Str) (hp : p ≠ []) (pat : Pattern) (rest : List Pattern) (hnr : pat.isRecursive = false)
    (hl : Lit (pat :: rest)) (ih : RestOk fs rd rest) :
    ∀ (es : List (Str × EntryType)), (∀ e ∈ es, validName e.1 = true) → (es.map (·.1)).Nodup → ∀ o,
      Outs fs rd (es.map fun e => Item.ok (fromDirEntry fs (joinPath p e.1) e.2) (some (pat :: rest))) o →
      o.Nodup ∧ ∀ r ∈ o, ∃ e ∈ es, InDir (joinPath p e.1) r := by
  intro es
  induction es with
  | nil => intro _ _ o h; simp at h; rw [h.nil_inv]; simp
  | cons e es ihes =>
    intro hv hnd o h
    simp only [List.map_cons] at h hnd
    obtain ⟨oa, ob, ha, hb, rfl⟩ := Outs.append_inv [_] _ _ h
    have hg := child_group fs hwf rd pat rest hnr hl ih _ (by rw [fromDirEntry_path]; exact joinPath_ne_nil _ _ hp) oa ha
    rw [fromDirEntry_path] at hg
    have hrest := ihes (fun x hx => hv x (List.mem_cons_of_mem _ hx)) (List.nodup_cons.1 hnd).2 ob hb
    refine ⟨nodup_append_of_disjoint hg.nodup hrest.1 ?_, ?_⟩
    · intro r hra hrb
      obtain ⟨e', he', hin'⟩ := hrest.2 r hrb
      have := region_disjoint p e.1 e'.1 r hp (.of_valid (hv e (by simp)))
        (.of_valid (hv e' (List.mem_cons_of_mem _ he'))) (hg.inside r hra) hin'
      exact (List.nodup_cons.1 hnd).1 (by rw [this]; exact List.mem_map.2 ⟨e', he', rfl⟩)
    · intro r hr
      rcases List.mem_append.1 hr with hr | hr
      · exact ⟨e, by simp, hg.inside r hr⟩
      · obtain ⟨e', he', hin'⟩ := hrest.2 r hr
        exact ⟨e', List.mem_cons_of_mem _ he', hin'⟩

theorem nodup_map_fst_insertAsc (x : Str × EntryType) : ∀ (l : List (Str × EntryType)),
    ((insertAsc x l).map (·.1)).Nodup ↔ x.1 ∉ l.map (·.1) ∧ (l.map (·.1)).Nodup := by
  intro l
  induction l with
  | nil => simp [insertAsc]
  | cons y ys ih =>
    simp only [insertAsc]
    split
    · simp only [List.map_cons, List.nodup_cons, ih, List.mem_cons, List.mem_map, not_or]
      constructor
      · rintro ⟨h1, h2, h3⟩
        refine ⟨⟨?_, h2⟩, ?_, h3⟩
        · intro h; apply h1; exact ⟨x, (mem_insertAsc x x ys).2 (.inl rfl), h⟩
        · rintro ⟨a, ha, hay⟩; exact h1 ⟨a, (mem_insertAsc x a ys).2 (.inr ha), hay⟩
      · rintro ⟨⟨h1, h2⟩, h3, h4⟩
        refine ⟨?_, h2, h4⟩
        rintro ⟨a, ha, hay⟩
        rcases (mem_insertAsc x a ys).1 ha with rfl | ha
        · exact h1 hay
        · exact h3 ⟨a, ha, hay⟩
    · simp [List.nodup_cons]

theorem nodup_map_fst_sortAsc (l : List (Str × EntryType)) (h : (l.map (·.1)).Nodup) : ((sortAsc l).map (·.1)).Nodup := by
  induction l with
  | nil => simp [sortAsc]
  | cons x xs ih =>
    have : sortAsc (x :: xs) = insertAsc x (sortAsc xs) := rfl
    rw [this, nodup_map_fst_insertAsc]
    simp only [List.map_cons, List.nodup_cons] at h
    refine ⟨?_, ih h.2⟩
    intro hm
    obtain ⟨a, ha, hax⟩ := List.mem_map.1 hm
    exact h.1 (List.mem_map.2 ⟨a, (mem_sortAsc a xs).1 ha, hax⟩)

include hwf in
/-- Without a `**` component no path is returned twice. -/
theorem fillTodo_nodup : ∀ (pats : List Pattern), NonRec pats → Lit pats → RestOk fs rd pats := by
  intro pats
  induction pats with
  | nil => intro _ _ path _ o h; simp [fillTodo] at h; rw [h.nil_inv]; simp
  | cons pat rest ih =>
    intro hnr hl path hp o h
    have ihr := ih hnr.tail hl.tail
    have hpat : pat.isRecursive = false := hnr pat (by simp)
    have hadd : ∀ (s : Str), s.head? ≠ some '/' → ∀ o,
        Outs fs rd (addNext rest (fillTodo fs rest) (fromPath fs (joinPath path.path s))) o →
        Group (joinPath path.path s) o :=
      fun s _ o h => add_group fs hwf rd rest hl.tail ihr _ (joinPath_ne_nil _ _ hp) o h
    simp only [fillTodo] at h
    split at h
    · rename_i s hs
      split at h
      · exact (hadd s (hl pat (by simp) s hs) o h).nodup
      · rw [h.nil_inv]; simp
    · split at h
      · split at h
        · rename_i entries he
          obtain ⟨osp, och, hsp, hch, rfl⟩ := Outs.append_inv _ _ _ h
          have hv : ∀ e ∈ sortAsc entries, validName e.1 = true :=
            fun e hm => hwf.names _ _ he e ((mem_sortAsc e entries).1 hm)
          have hchildren := children_groups fs hwf rd path.path hp pat rest hpat hl ihr (sortAsc entries) hv
            (nodup_map_fst_sortAsc _ (hwf.nodup _ _ he)) och hch
          have hdd : Proper ['.', '.'] := ⟨by simp, by decide⟩
          have hd : Proper ['.'] := ⟨by simp, by decide⟩
          -- the two special entries
          have hspecial : osp.Nodup ∧ ∀ r ∈ osp, InDir (joinPath path.path ['.', '.']) r ∨ InDir (joinPath path.path ['.']) r := by
            split at hsp
            · obtain ⟨o1, o2, h1, h2, rfl⟩ := Outs.append_inv _ _ _ hsp
              have g1 : Group (joinPath path.path ['.', '.']) o1 := by
                split at h1
                · exact hadd _ (by simp) o1 h1
                · rw [h1.nil_inv]; exact Group.nil _
              have g2 : Group (joinPath path.path ['.']) o2 := by
                split at h2
                · exact hadd _ (by simp) o2 h2
                · rw [h2.nil_inv]; exact Group.nil _
              refine ⟨nodup_append_of_disjoint g1.nodup g2.nodup ?_, ?_⟩
              · intro r hr1 hr2
                have := region_disjoint path.path _ _ r hp hdd hd (g1.inside r hr1) (g2.inside r hr2)
                exact absurd this (by decide)
              · intro r hr
                rcases List.mem_append.1 hr with hr | hr
                · exact .inl (g1.inside r hr)
                · exact .inr (g2.inside r hr)
            · rw [hsp.nil_inv]; simp
          refine nodup_append_of_disjoint hspecial.1 hchildren.1 ?_
          intro r hr1 hr2
          obtain ⟨e, hemem, hin⟩ := hchildren.2 r hr2
          have hve := hv e hemem
          rcases hspecial.2 r hr1 with hs | hs
          · have := region_disjoint path.path _ _ r hp hdd (.of_valid hve) hs hin
            exact validName_ne_dotdot hve this.symm
          · have := region_disjoint path.path _ _ r hp hd (.of_valid hve) hs hin
            exact validName_ne_dot hve this.symm
        · cases h with
          | cons h2 h3 =>
            have e2 := Outs.nil_inv (show Outs fs rd [] _ from h2)
            rw [e2, h3.nil_inv]; simp [step]
      · rw [h.nil_inv]; simp

end NoDup

theorem Lit_dirPatterns (pattern : Str) (pats : List Pattern) (h : dirPatterns pattern = .ok pats) : Lit pats := by
  unfold dirPatterns at h
  split at h
  · simp at h
  · rename_i ps hps
    have hl : Lit ps := Lit_of_newAll _ (splitTerminator_pieces_noSep _) ps hps
    simp at h
    split at h
    · subst h; exact hl.append Lit_empty
    · subst h; exact hl

theorem glob_paths_run (fs : FsView) (fuel : Nat) (pattern : Str) (ps : List Str) (h : glob fs fuel pattern = .paths ps) :
    ∃ pats, dirPatterns pattern = .ok pats ∧
      run fs (pattern.getLast? == some '/') fuel (fillTodo fs pats (fromPath fs ['/'])) [] = some ps := by
  unfold glob at h
  split at h
  · simp at h
  · split at h
    · simp at h
    · split at h
      · simp at h
      · rename_i pats hpats
        simp only at h
        split at h
        · simp at h
        · rename_i ps' hrun
          simp at h; subst h
          exact ⟨pats, hpats, hrun⟩

/-- The class for which "no path twice" is proved: no component of the pattern is `**`. -/
def nonRecursive (pattern : Str) : Bool :=
  match dirPatterns pattern with
  | .ok ps => ps.all (!·.isRecursive)
  | .error _ => true

theorem glob_nodup (fs : FsView) (hwf : fs.WF) (fuel : Nat) (pattern : Str) (ps : List Str)
    (hnr : nonRecursive pattern = true) (h : glob fs fuel pattern = .paths ps) : ps.Nodup := by
  unfold glob at h
  split at h
  · simp at h
  · split at h
    · simp at h
    · split at h
      · simp at h
      · rename_i pats hpats
        simp only at h
        split at h
        · simp at h
        · rename_i ps' hrun
          simp at h; subst h
          obtain ⟨o, ho, heq⟩ := run_outs fs _ _ _ _ _ hrun
          have hpo : ps' = o := by simpa using heq
          subst hpo
          have hnr' : NonRec pats := by
            simp only [nonRecursive, hpats, List.all_eq_true, Bool.not_eq_true'] at hnr
            exact hnr
          exact fillTodo_nodup fs hwf _ pats hnr' (Lit_dirPatterns _ _ hpats) (fromPath fs ['/']) (by simp [fromPath]) _ ho

end AcmedVerif.Glob
