/-
Helper lemmas about the period parser model (`Model/Period.lean`), used by `Props/C19.lean`.
-/
import AcmedVerif.Model.Period
namespace AcmedVerif.Period

/-! ### Digits and unit letters -/

/-- Unit letters are not digits. -/
theorem unit_not_digit {u : Char} {m : Nat} (h : unitMult u = some m) : isDigit u = false := by
  unfold unitMult at h
  repeat' split at h
  all_goals first
    | (subst u; decide)
    | (exact absurd h (by simp))

theorem spanDigits_append (ds : List Char) (u : Char) (rest : List Char)
    (hds : ds.all isDigit = true) (hu : isDigit u = false) :
    spanDigits (ds ++ u :: rest) = (ds, u :: rest) := by
  induction ds with
  | nil => simp [spanDigits, hu]
  | cons d ds ih =>
    simp only [List.all_cons, Bool.and_eq_true] at hds
    simp [spanDigits, hds.1, ih hds.2]

theorem spanDigits_spec (s : List Char) :
    (spanDigits s).1 ++ (spanDigits s).2 = s ∧ (spanDigits s).1.all isDigit = true := by
  induction s with
  | nil => simp [spanDigits]
  | cons c cs ih =>
    by_cases hc : isDigit c = true
    · simp [spanDigits, hc, ih.1, ih.2]
    · simp [spanDigits, hc]

/-! ### One application of `part` -/

theorem part_nil : part [] = .fail := by
  simp [part, spanDigits]

/-- A successful `part` consumed exactly one well-formed item. -/
theorem part_eq_part {s : List Char} {nb m : Nat} {rest : List Char}
    (h : part s = .part nb m rest) :
    ∃ i : Item, i.wf = true ∧ i.nb = nb ∧ i.nb ≤ u64Max ∧ unitMult i.unit = some m ∧
      s = i.text ++ rest := by
  have hs := spanDigits_spec s
  unfold part at h
  generalize spanDigits s = p at h hs
  obtain ⟨ds, r⟩ := p
  cases ds with
  | nil => simp at h
  | cons d ds =>
    simp only at h
    split at h
    · cases h
    · rename_i hle
      cases r with
      | nil => simp at h
      | cons u r' =>
        cases hu : unitMult u with
        | none => simp [hu] at h
        | some m' =>
          simp only [hu, PartRes.part.injEq] at h
          obtain ⟨h1, h2, h3⟩ := h
          subst h1 h2 h3
          refine ⟨⟨d :: ds, u⟩, ?_, rfl, ?_, hu, ?_⟩
          · simp only [Item.wf, hu, hs.2]
            simp
          · simp only [Item.nb]; omega
          · simp only [Item.text]
            rw [← hs.1]
            simp

/-- `part` on the text of a well-formed item followed by anything. -/
theorem part_item (i : Item) (rest : List Char) (hwf : i.wf = true) (hnb : i.nb ≤ u64Max) :
    ∃ m, unitMult i.unit = some m ∧ i.value = i.nb * m ∧
      part (i.text ++ rest) = .part i.nb m rest := by
  obtain ⟨ds, u⟩ := i
  simp only [Item.wf, Bool.and_eq_true, Option.isSome_iff_exists] at hwf
  obtain ⟨⟨hne, hall⟩, m, hm⟩ := hwf
  refine ⟨m, hm, by simp [Item.value, hm], ?_⟩
  have hsp : spanDigits (ds ++ u :: rest) = (ds, u :: rest) :=
    spanDigits_append ds u rest hall (unit_not_digit hm)
  simp only [Item.nb] at hnb
  cases ds with
  | nil => simp at hne
  | cons d ds =>
    have : ¬ digitsVal (d :: ds) > u64Max := by omega
    simp only [Item.text, List.append_assoc, List.singleton_append, Item.nb]
    unfold part
    rw [hsp]
    simp only [this, if_false, hm]

theorem part_rest_length {s : List Char} {nb m : Nat} {rest : List Char}
    (h : part s = .part nb m rest) : rest.length + 2 ≤ s.length := by
  obtain ⟨i, hwf, -, -, -, hs⟩ := part_eq_part h
  subst hs
  obtain ⟨ds, u⟩ := i
  simp only [Item.wf, Bool.and_eq_true] at hwf
  cases ds with
  | nil => simp at hwf
  | cons d ds => simp [Item.text]

/-! ### The fold -/

theorem fold_fail (a : Arith) (fuel : Nat) {s : List Char} (acc : Acc) (h : part s = .fail) :
    fold a (fuel + 1) s acc = .ok (acc, s) := by
  simp only [fold, h]

theorem fold_nil (a : Arith) (fuel : Nat) (acc : Acc) : fold a fuel [] acc = .ok (acc, []) := by
  cases fuel with
  | zero => simp only [fold]
  | succ n => exact fold_fail a n acc part_nil

/-- More fuel than input characters is never used. -/
theorem fold_fuel_irrel (a : Arith) (f1 : Nat) : ∀ (f2 : Nat) (s : List Char) (acc : Acc),
    s.length ≤ f1 → s.length ≤ f2 → fold a f1 s acc = fold a f2 s acc := by
  induction f1 with
  | zero =>
    intro f2 s acc h1 _
    have : s = [] := List.eq_nil_of_length_eq_zero (by omega)
    subst this
    rw [fold_nil, fold_nil]
  | succ n ih =>
    intro f2 s acc h1 h2
    cases f2 with
    | zero =>
      have : s = [] := List.eq_nil_of_length_eq_zero (by omega)
      subst this
      rw [fold_nil, fold_nil]
    | succ k =>
      cases hp : part s with
      | fail => rw [fold_fail a n acc hp, fold_fail a k acc hp]
      | part nb m rest =>
        have hl := part_rest_length hp
        have ih' := fun acc' => ih k rest acc' (by omega) (by omega)
        cases a with
        | checked => simp only [fold, hp, ih']
        | uncheckedDev =>
          simp only [fold, hp]
          split
          · rfl
          · split
            · split
              · rfl
              · exact ih' _
            · rfl
        | uncheckedRelease =>
          simp only [fold, hp]
          split
          · split
            · rfl
            · exact ih' _
          · rfl

/-- One checked accumulation step, exactly as in `fold .checked`. -/
def addItem (o : Option Nat) (prod : Nat) : Option Nat :=
  let item : Option Nat := if prod > u64Max then none else some prod
  match o, item with
  | some x, some y => if x + y > u64Max then none else some (x + y)
  | _, _ => none

def sumItems (o : Option Nat) (is : List Item) : Option Nat :=
  is.foldl (fun o i => addItem o i.value) o

theorem fold_checked_part (fuel : Nat) {s : List Char} (acc : Acc) {nb m : Nat} {rest : List Char}
    (h : part s = .part nb m rest) :
    fold .checked (fuel + 1) s acc =
      fold .checked fuel rest { sum := addItem acc.sum (nb * m), count := acc.count + 1 } := by
  simp only [fold, h]
  rfl

theorem addItem_none (p : Nat) : addItem none p = none := by
  simp [addItem]

theorem sumItems_none (is : List Item) : sumItems none is = none := by
  induction is with
  | nil => rfl
  | cons i is ih => simpa [sumItems, addItem_none] using ih

theorem addItem_some (x p : Nat) :
    addItem (some x) p = if p ≤ u64Max ∧ x + p ≤ u64Max then some (x + p) else none := by
  unfold addItem
  by_cases h1 : p > u64Max
  · have : ¬ (p ≤ u64Max ∧ x + p ≤ u64Max) := by omega
    simp [h1, this]
  · by_cases h2 : x + p > u64Max
    · have : ¬ (p ≤ u64Max ∧ x + p ≤ u64Max) := by omega
      simp [h1, h2, this]
    · have : p ≤ u64Max ∧ x + p ≤ u64Max := by omega
      simp [h1, h2, this]

theorem itemsValue_cons (i : Item) (is : List Item) :
    itemsValue (i :: is) = i.value + itemsValue is := by
  simp [itemsValue]

theorem itemsText_cons (i : Item) (is : List Item) :
    itemsText (i :: is) = i.text ++ itemsText is := by
  simp [itemsText]

/-- The checked running sum succeeds iff every product and the total fit. -/
theorem sumItems_some (is : List Item) : ∀ (x v : Nat), x ≤ u64Max →
    (sumItems (some x) is = some v ↔
      (∀ i ∈ is, i.value ≤ u64Max) ∧ x + itemsValue is ≤ u64Max ∧ v = x + itemsValue is) := by
  induction is with
  | nil =>
    intro x v hx
    simp [sumItems, itemsValue]
    omega
  | cons i is ih =>
    intro x v hx
    have hstep : sumItems (some x) (i :: is) = sumItems (addItem (some x) i.value) is := rfl
    rw [hstep, addItem_some, itemsValue_cons]
    by_cases hc : i.value ≤ u64Max ∧ x + i.value ≤ u64Max
    · rw [if_pos hc, ih (x + i.value) v hc.2]
      simp only [List.mem_cons, forall_eq_or_imp]
      constructor
      · rintro ⟨h1, h2, h3⟩
        exact ⟨⟨hc.1, h1⟩, by omega, by omega⟩
      · rintro ⟨⟨_, h1⟩, h2, h3⟩
        exact ⟨h1, by omega, by omega⟩
    · rw [if_neg hc, sumItems_none]
      simp only [List.mem_cons, forall_eq_or_imp]
      constructor
      · intro h; cases h
      · rintro ⟨⟨h0, _⟩, h2, _⟩
        exact absurd ⟨h0, by omega⟩ hc

theorem itemsFit_iff (is : List Item) :
    itemsFit is = true ↔
      (∀ i ∈ is, i.nb ≤ u64Max ∧ i.value ≤ u64Max) ∧ itemsValue is ≤ u64Max := by
  simp [itemsFit, List.all_eq_true]

/-- Soundness of the checked fold: it never panics, and what it consumed is a list of well-formed
items whose numbers fit; its sum is the checked running sum over those items. -/
theorem fold_checked_sound (fuel : Nat) : ∀ (s : List Char) (acc : Acc),
    ∃ (is : List Item) (rest : List Char) (acc' : Acc),
      fold .checked fuel s acc = .ok (acc', rest) ∧
      (∀ i ∈ is, i.wf = true ∧ i.nb ≤ u64Max) ∧
      s = itemsText is ++ rest ∧
      acc'.count = acc.count + is.length ∧
      acc'.sum = sumItems acc.sum is := by
  induction fuel with
  | zero =>
    intro s acc
    exact ⟨[], s, acc, by simp only [fold], by simp, by simp [itemsText], by simp, rfl⟩
  | succ n ih =>
    intro s acc
    cases hp : part s with
    | fail =>
      exact ⟨[], s, acc, fold_fail _ n acc hp, by simp, by simp [itemsText], by simp, rfl⟩
    | part nb m rest =>
      obtain ⟨i, hwf, hnb, hle, hm, hs⟩ := part_eq_part hp
      obtain ⟨is, rest', acc', hf, hall, hr, hc, hsum⟩ :=
        ih rest { sum := addItem acc.sum (nb * m), count := acc.count + 1 }
      refine ⟨i :: is, rest', acc', ?_, ?_, ?_, ?_, ?_⟩
      · rw [fold_checked_part n acc hp, hf]
      · intro j hj
        rcases List.mem_cons.mp hj with rfl | hj
        · exact ⟨hwf, hle⟩
        · exact hall j hj
      · rw [hs, hr, itemsText_cons, List.append_assoc]
      · simp only [List.length_cons] at hc ⊢; omega
      · rw [hsum]
        have : i.value = nb * m := by simp [Item.value, hm, hnb]
        simp only [sumItems, List.foldl_cons, this]

theorem item_text_length_pos (i : Item) : 1 ≤ i.text.length := by
  simp [Item.text]

theorem itemsText_length (is : List Item) : is.length ≤ (itemsText is).length := by
  induction is with
  | nil => simp
  | cons i is ih =>
    rw [itemsText_cons, List.length_append, List.length_cons]
    have := item_text_length_pos i
    omega

/-- Completeness of the checked fold on the text of a list of well-formed items. -/
theorem fold_checked_complete (is : List Item) : ∀ (fuel : Nat) (acc : Acc),
    (∀ i ∈ is, i.wf = true ∧ i.nb ≤ u64Max) → is.length ≤ fuel →
    fold .checked fuel (itemsText is) acc =
      .ok ({ sum := sumItems acc.sum is, count := acc.count + is.length }, []) := by
  induction is with
  | nil =>
    intro fuel acc _ _
    rw [show itemsText [] = [] from rfl, fold_nil]
    rfl
  | cons i is ih =>
    intro fuel acc hall hlen
    cases fuel with
    | zero => simp at hlen
    | succ n =>
      have hi := hall i (List.mem_cons_self ..)
      obtain ⟨m, hm, hv, hp⟩ := part_item i (itemsText is) hi.1 hi.2
      rw [itemsText_cons, fold_checked_part n acc hp,
        ih n _ (fun j hj => hall j (List.mem_cons_of_mem _ hj))
          (by simp only [List.length_cons] at hlen; omega)]
      simp only [sumItems, List.foldl_cons, hv, List.length_cons]
      congr 3
      omega

/-! ### `parse` -/

/-- The whole of `parse`, characterised through the item list. -/
theorem parse_eq_ok_iff (s : List Char) (v : Nat) :
    parse s = .ok v ↔
      ∃ is : List Item, is ≠ [] ∧ (∀ i ∈ is, i.wf = true ∧ i.nb ≤ u64Max) ∧ itemsText is = s ∧
        sumItems (some 0) is = some v := by
  constructor
  · intro h
    obtain ⟨is, rest, acc', hf, hall, hs, hc, hsum⟩ :=
      fold_checked_sound s.length s { sum := some 0, count := 0 }
    simp only [parse, parseWith, hf] at h
    split at h
    · cases h
    · rename_i hcount
      split at h
      · cases h
      · rename_i hrest
        have hrest' : rest = [] := by
          cases rest with
          | nil => rfl
          | cons c cs => simp at hrest
        subst hrest'
        refine ⟨is, ?_, hall, by simp [hs], ?_⟩
        · intro hnil; subst hnil; simp at hc; exact hcount hc
        · rw [← hsum]
          split at h
          · rename_i v' hv'; cases h; exact hv'
          · cases h
  · rintro ⟨is, hne, hall, hs, hsum⟩
    subst hs
    have hf := fold_checked_complete is (itemsText is).length { sum := some 0, count := 0 } hall
      (itemsText_length is)
    have hpos : 0 < is.length := List.length_pos_iff.mpr hne
    have hcount : ¬ (0 + is.length = 0) := by omega
    simp only [parse, parseWith, hf, hsum, hcount, if_false]
    simp

theorem parse_no_panic (s : List Char) : (∃ v, parse s = .ok v) ∨ parse s = .reject := by
  obtain ⟨is, rest, acc', hf, -⟩ := fold_checked_sound s.length s { sum := some 0, count := 0 }
  simp only [parse, parseWith, hf]
  split
  · exact Or.inr rfl
  · split
    · exact Or.inr rfl
    · split
      · exact Or.inl ⟨_, rfl⟩
      · exact Or.inr rfl

/-- `parse` accepts exactly the documented grammar, with the value being the sum of the parts. -/
theorem parse_grammar (s : List Char) (v : Nat) :
    parse s = .ok v ↔
      ∃ is : List Item, is ≠ [] ∧ (∀ i ∈ is, i.wf = true) ∧ itemsText is = s ∧
        itemsFit is = true ∧ v = itemsValue is := by
  rw [parse_eq_ok_iff]
  constructor
  · rintro ⟨is, hne, hall, hs, hsum⟩
    have h := (sumItems_some is 0 v (Nat.zero_le _)).mp hsum
    refine ⟨is, hne, fun i hi => (hall i hi).1, hs, ?_, by omega⟩
    rw [itemsFit_iff]
    exact ⟨fun i hi => ⟨(hall i hi).2, h.1 i hi⟩, by omega⟩
  · rintro ⟨is, hne, hwf, hs, hfit, hv⟩
    rw [itemsFit_iff] at hfit
    refine ⟨is, hne, fun i hi => ⟨hwf i hi, (hfit.1 i hi).1⟩, hs, ?_⟩
    exact (sumItems_some is 0 v (Nat.zero_le _)).mpr
      ⟨fun i hi => (hfit.1 i hi).2, by omega, by omega⟩

theorem parse_value_fits (s : List Char) (v : Nat) (h : parse s = .ok v) : v ≤ u64Max := by
  obtain ⟨is, -, -, -, hfit, hv⟩ := (parse_grammar s v).mp h
  rw [itemsFit_iff] at hfit
  omega

theorem fold_fuel_extra (a : Arith) (s : List Char) (acc : Acc) (extra : Nat) :
    fold a (s.length + extra) s acc = fold a s.length s acc :=
  fold_fuel_irrel a _ _ s acc (by omega) (Nat.le_refl _)

end AcmedVerif.Period
