/- Lemmas about Model/Glob.lean, pattern level: what `Pattern::new` makes of an escaped string, what such a
pattern matches, where `Char` tokens come from. -/
import AcmedVerif.Model.Glob

namespace AcmedVerif.Glob

/-- The characters `Pattern::escape` brackets. -/
def isMetaC (c : Char) : Bool := c == '?' || c == '*' || c == '[' || c == ']'

/-- The token `Pattern::new` makes of one escaped character. -/
def escTok (c : Char) : Token := if isMetaC c then .anyWithin [.singleChar c] else .char c

theorem escape_nil : escape [] = [] := rfl

theorem escape_cons (c : Char) (s : Str) :
    escape (c :: s) = (if isMetaC c then ['[', c, ']'] else [c]) ++ escape s := by
  simp [escape, isMetaC]

theorem escape_append (a b : Str) : escape (a ++ b) = escape a ++ escape b := by
  simp [escape]

theorem isMetaC_cases {c : Char} (h : isMetaC c = true) : c = '?' ∨ c = '*' ∨ c = '[' ∨ c = ']' := by
  simpa [isMetaC, or_assoc] using h

theorem not_isMetaC {c : Char} (h : isMetaC c = false) : c ≠ '?' ∧ c ≠ '*' ∧ c ≠ '[' ∧ c ≠ ']' := by
  simpa [isMetaC, and_assoc] using h

/-- `Pattern::new(escape s)`: one token per character of `s`, never an error. -/
theorem tokLoop_escape (s : Str) : ∀ (fuel i : Nat) (prev : Option Char) (acc : List Token),
    (escape s).length < fuel →
    tokLoop fuel i prev (escape s) acc = .ok (acc.reverse ++ s.map escTok) := by
  induction s with
  | nil =>
    intro fuel i prev acc h
    obtain ⟨f, rfl⟩ : ∃ f, fuel = f + 1 := ⟨fuel - 1, by simp [escape] at h; omega⟩
    simp [escape, tokLoop]
  | cons c s ih =>
    intro fuel i prev acc h
    obtain ⟨f, rfl⟩ : ∃ f, fuel = f + 1 := ⟨fuel - 1, by omega⟩
    rw [escape_cons] at h ⊢
    cases hm : isMetaC c with
    | false =>
      obtain ⟨h1, h2, h3, _⟩ := not_isMetaC hm
      simp only [hm, Bool.false_eq_true, if_false, List.singleton_append, List.length_cons] at h ⊢
      have := ih f (i + 1) (some c) (.char c :: acc) (by omega)
      simp [tokLoop, h1, h2, h3, this, escTok, hm]
    | true =>
      simp only [hm, if_true, List.cons_append, List.nil_append, List.length_cons] at h ⊢
      have hi := ih f (i + 0 + 3) (some ']') (.anyWithin [.singleChar c] :: acc) (by omega)
      have hc : c ≠ '!' := by
        rcases isMetaC_cases hm with rfl | rfl | rfl | rfl <;> decide
      simp [tokLoop, hc, position, parseCharSpecifiers, parseCSFuel, escTok, hm] at hi ⊢
      exact hi

theorem tokenize_escape (s : Str) : tokenize (escape s) = .ok (s.map escTok) := by
  simpa [tokenize] using tokLoop_escape s ((escape s).length + 1) 0 none [] (by omega)

theorem escTok_ne_rec (c : Char) : escTok c ≠ .anyRecursiveSequence := by
  unfold escTok; split <;> simp

theorem map_escTok_contains_rec (s : Str) : (s.map escTok).contains .anyRecursiveSequence = false := by
  simp
  intro x _
  exact escTok_ne_rec x

/-- The pattern `Pattern::new` compiles from an escaped string. -/
def escPattern (s : Str) : Pattern := ⟨s.map escTok, false⟩

theorem new_escape (s : Str) : Pattern.new (escape s) = .ok (escPattern s) := by
  simp only [Pattern.new, tokenize_escape, map_escTok_contains_rec, escPattern]

/-- An escaped string is matched by itself only. -/
theorem matchesFrom_escTok (s : Str) : ∀ (fs : Bool) (t : Str),
    matchesFrom (s.map escTok) fs t = .isMatch ↔ t = s := by
  induction s with
  | nil => intro fs t; cases t <;> simp [matchesFrom]
  | cons c s ih =>
    intro fs t
    cases t with
    | nil =>
      cases hm : isMetaC c <;> simp [matchesFrom, escTok, hm]
    | cons d t =>
      cases hm : isMetaC c
      · simp only [List.map_cons, escTok, hm, Bool.false_eq_true, if_false, matchesFrom]
        by_cases hd : d = c
        · subst hd; simp [ih]
        · simp [hd]
      · simp only [List.map_cons, escTok, hm, if_true, matchesFrom, inCharSpecifiers, List.any_cons, List.any_nil,
          Bool.or_false]
        by_cases hd : d = c
        · subst hd; simp [ih]
        · simp [hd]

theorem escPattern_matches (s t : Str) : (escPattern s).matches t = true ↔ t = s := by
  simp [Pattern.matches, matchesToks, escPattern, matchesFrom_escTok]

/-! ### `pattern_as_str` of an escaped component -/

theorem charsOf_escTok (s : Str) : ∀ r, charsOf (s.map escTok) = some r → r = s ∧ s.all (!isMetaC ·) = true := by
  induction s with
  | nil => intro r h; simp [charsOf] at h; simp [h]
  | cons c s ih =>
    intro r h
    cases hm : isMetaC c
    · simp only [List.map_cons, escTok, hm, Bool.false_eq_true, if_false, charsOf, Option.map_eq_some_iff] at h
      obtain ⟨r', hr', rfl⟩ := h
      obtain ⟨rfl, hall⟩ := ih r' hr'
      simp [hm, hall]
    · simp [escTok, hm, charsOf] at h

/-! ### Where `Char` tokens come from -/

theorem mem_of_mem_dropWhile {α} {p : α → Bool} {l : List α} {a : α} (h : a ∈ l.dropWhile p) : a ∈ l :=
  (List.dropWhile_sublist p).mem h

/-- Every `Char(c)` token of a compiled pattern is a character of the pattern text. -/
theorem tokLoop_chars : ∀ (fuel i : Nat) (prev : Option Char) (chars : List Char) (acc ts : List Token),
    tokLoop fuel i prev chars acc = .ok ts → ∀ c, Token.char c ∈ ts → Token.char c ∈ acc ∨ c ∈ chars := by
  intro fuel
  induction fuel with
  | zero => intro i prev chars acc ts h c hc; simp [tokLoop] at h; subst h; left; simpa using hc
  | succ f ih =>
    intro i prev chars acc ts h c hc
    cases chars with
    | nil => simp [tokLoop] at h; subst h; left; simpa using hc
    | cons x r =>
      simp only [tokLoop] at h
      split at h
      · rcases ih _ _ _ _ _ h c hc with h1 | h1
        · simp at h1; exact .inl h1
        · exact .inr (List.mem_cons_of_mem _ h1)
      · split at h
        · split at h
          · simp at h
          · split at h
            · split at h
              · split at h
                · rcases ih _ _ _ _ _ h c hc with h1 | h1
                  · split at h1
                    · exact .inl h1
                    · simp at h1; exact .inl h1
                  · simp at h1
                · split at h
                  · rcases ih _ _ _ _ _ h c hc with h1 | h1
                    · split at h1
                      · exact .inl h1
                      · simp at h1; exact .inl h1
                    · rename_i heq _
                      have : c ∈ (x :: r).dropWhile (· == '*') := by rw [heq]; exact List.mem_cons_of_mem _ h1
                      exact .inr (mem_of_mem_dropWhile this)
                  · simp at h
              · simp at h
            · rcases ih _ _ _ _ _ h c hc with h1 | h1
              · simp at h1; exact .inl h1
              · exact .inr (mem_of_mem_dropWhile h1)
        · split at h
          · split at h
            · split at h
              · simp at h
              · rcases ih _ _ _ _ _ h c hc with h1 | h1
                · simp at h1; exact .inl h1
                · exact .inr (List.mem_cons_of_mem _ (List.mem_of_mem_drop h1))
            · split at h
              · split at h
                · simp at h
                · rcases ih _ _ _ _ _ h c hc with h1 | h1
                  · simp at h1; exact .inl h1
                  · exact .inr (List.mem_cons_of_mem _ (List.mem_of_mem_drop h1))
              · simp at h
          · rcases ih _ _ _ _ _ h c hc with h1 | h1
            · simp at h1
              rcases h1 with h1 | h1
              · exact .inr (by simp [h1])
              · exact .inl h1
            · exact .inr (List.mem_cons_of_mem _ h1)

theorem charsOf_mem : ∀ (ts : List Token) (s : Str), charsOf ts = some s → ∀ c ∈ s, Token.char c ∈ ts := by
  intro ts
  induction ts with
  | nil => intro s h c hc; simp [charsOf] at h; subst h; simp at hc
  | cons t ts ih =>
    intro s h c hc
    cases t with
    | char d =>
      simp only [charsOf, Option.map_eq_some_iff] at h
      obtain ⟨r, hr, rfl⟩ := h
      rcases List.mem_cons.1 hc with rfl | hc
      · simp
      · exact List.mem_cons_of_mem _ (ih r hr c hc)
    | _ => simp [charsOf] at h

/-- A component without a separator compiles to a pattern whose literal text (if it is one) has none. -/
theorem new_literal_chars {comp : Str} {p : Pattern} {s : Str} (h : Pattern.new comp = .ok p)
    (hs : patternAsStr p = some s) : ∀ c ∈ s, c ∈ comp := by
  intro c hc
  unfold Pattern.new at h
  split at h
  · rename_i ts hts
    simp at h; subst h
    have := tokLoop_chars _ _ _ _ _ _ hts c (charsOf_mem _ _ hs c hc)
    simpa using this
  · simp at h

end AcmedVerif.Glob
