/-
Helper definitions and lemmas for `Props/C09Redirect.lean`: from the event trace of `Model/Http.lean`
(where a request of a redirect chain is an ordinary `getSend`) to the instants the judge
`Spec.C09.holds` looks at.
-/
import AcmedVerif.Model.Http
import AcmedVerif.Model.HttpRedirOld
import AcmedVerif.Model.Limiter
import AcmedVerif.Lemmas.Http
import AcmedVerif.Lemmas.Judge09

namespace AcmedVerif.HttpRedirect
open AcmedVerif.Http
open AcmedVerif.Judge09

/-- The admission instant under which each request of a trace went out.  `as` = the instants at
which the limiter admitted, in order (`Limiter.State.hist`): the k-th `admit` event of the trace is
the k-th of them.  A send event is stamped with the instant of the latest `admit` before it (`cur`;
the instant is NOT used up, so two requests behind one admission get the same stamp — what the
library did before commit 1dd071b).  The trace is read as far as `as` reaches. -/
def stamp : Nat → List Nat → List Ev → List Nat
  | _, _, [] => []
  | cur, ts, e :: es =>
    match e with
    | .admit =>
      match ts with
      | [] => []
      | t :: ts' => stamp t ts' es
    | .getSend _ => cur :: stamp cur ts es
    | .postSend _ _ _ => cur :: stamp cur ts es
    | _ => stamp cur ts es

/-- The admission instants of the requests of a trace. -/
def sendInstants (as : List Nat) (evs : List Ev) : List Nat := stamp 0 as evs

/-- Number of requests put on the wire. -/
def sends (evs : List Ev) : Nat := (evs.filter Ev.isSend).length

/-- In a trace where every send is immediately preceded by its own `admit`, the stamps are distinct
admissions, in order: a sublist of the admission instants. -/
theorem stamp_sublist (evs : List Ev) :
    ∀ (p : Bool) (cur : Nat) (ts : List Nat), limitedAux p evs = true →
      (stamp cur ts evs).Sublist ((if p then [cur] else []) ++ ts) := by
  induction evs with
  | nil => intro p cur ts _; simp [stamp]
  | cons e es ih =>
    intro p cur ts h
    cases e with
    | admit =>
      cases ts with
      | nil => simp [stamp]
      | cons t ts' =>
        simp only [stamp]
        simp only [limitedAux] at h
        have := ih true t ts' h
        simp only [if_true, List.singleton_append] at this
        exact this.trans (List.sublist_append_right _ _)
    | getSend u =>
      simp only [limitedAux, Bool.and_eq_true] at h
      obtain ⟨hp, h⟩ := h
      subst hp
      have := ih false cur ts h
      simp only [stamp]
      simpa using this
    | postSend u n r =>
      simp only [limitedAux, Bool.and_eq_true] at h
      obtain ⟨hp, h⟩ := h
      subst hp
      have := ih false cur ts h
      simp only [stamp]
      simpa using this
    | recvGet a =>
      simp only [limitedAux] at h
      have := ih false cur ts h
      simp only [stamp]
      exact this.trans (by simp)
    | recvPost a =>
      simp only [limitedAux] at h
      have := ih false cur ts h
      simp only [stamp]
      exact this.trans (by simp)
    | retryWait =>
      simp only [limitedAux] at h
      have := ih false cur ts h
      simp only [stamp]
      exact this.trans (by simp)
    | pollWait i =>
      simp only [limitedAux] at h
      have := ih false cur ts h
      simp only [stamp]
      exact this.trans (by simp)

theorem sendInstants_sublist (as : List Nat) (evs : List Ev) (h : limited evs = true) :
    (sendInstants as evs).Sublist as := by
  have := stamp_sublist evs false 0 as h
  simpa [sendInstants] using this

theorem sorted_sublist {as bs : List Nat} (h : bs.Sublist as) (hs : Sorted as) : Sorted bs :=
  List.Pairwise.sublist h hs

theorem inWindow_sublist {as bs : List Nat} (h : bs.Sublist as) (p t : Nat) :
    Limiter.inWindow bs p t ≤ Limiter.inWindow as p t := by
  unfold Limiter.inWindow
  exact (h.filter _).length_le

/-! ### counting requests -/

theorem sends_append (e1 e2 : List Ev) : sends (e1 ++ e2) = sends e1 + sends e2 := by
  simp [sends, List.filter_append]

@[simp] theorem sends_nil : sends [] = 0 := rfl
@[simp] theorem sends_admit (es : List Ev) : sends (.admit :: es) = sends es := rfl
@[simp] theorem sends_getSend (u) (es : List Ev) : sends (.getSend u :: es) = sends es + 1 := rfl
@[simp] theorem sends_postSend (u n r) (es : List Ev) :
    sends (.postSend u n r :: es) = sends es + 1 := rfl
@[simp] theorem sends_recvGet (a) (es : List Ev) : sends (.recvGet a :: es) = sends es := rfl
@[simp] theorem sends_recvPost (a) (es : List Ev) : sends (.recvPost a :: es) = sends es := rfl
@[simp] theorem sends_retryWait (es : List Ev) : sends (.retryWait :: es) = sends es := rfl
@[simp] theorem sends_pollWait (i) (es : List Ev) : sends (.pollWait i :: es) = sends es := rfl

theorem getLoop_sends_le (fuel u : Nat) (st : Http.State) :
    sends (getLoop fuel u st).evs ≤ fuel := by
  induction fuel generalizing u st with
  | zero => simp [getLoop]
  | succ fuel ih =>
    cases hs : st.script with
    | nil => rw [getLoop_nil fuel u st hs]; simp
    | cons a rest =>
      rcases getLoop_cons fuel u st a rest hs with ⟨u', k, -, -, -, he⟩ | ⟨-, -, he, -⟩
      · rw [he]
        have := ih u' ⟨a.issued.or st.nonce, rest, st.nonceUrl⟩
        simp only [sends_append, sends_admit, sends_getSend, sends_recvGet, sends_nil]
        omega
      · rw [he]; simp

/-- Requests and answers of `get` pair up: every answer consumed was the answer to one request. -/
theorem getLoop_recvd_le (fuel u : Nat) (st : Http.State) :
    (recvd (getLoop fuel u st).evs).length ≤ sends (getLoop fuel u st).evs := by
  induction fuel generalizing u st with
  | zero => simp [getLoop]
  | succ fuel ih =>
    cases hs : st.script with
    | nil => rw [getLoop_nil fuel u st hs]; simp
    | cons a rest =>
      rcases getLoop_cons fuel u st a rest hs with ⟨u', k, -, -, -, he⟩ | ⟨-, -, he, -⟩
      · rw [he]
        have := ih u' ⟨a.issued.or st.nonce, rest, st.nonceUrl⟩
        simp only [sends_append, recvd_append, sends_admit, sends_getSend, sends_recvGet, sends_nil,
          List.length_append, recvd_admit, recvd_getSend, recvd_recvGet, recvd_nil, List.length_cons,
          List.length_nil]
        omega
      · rw [he]; simp

/-- One round of `post` after the nonce preparation puts at most one request on the wire and reads
at most one answer, whatever that answer is. -/
theorem transmit_sends_le_one (mode : NonceMode) (b : Bool) (url i : Nat) (st : Http.State) :
    sends (transmit mode b url i st).2.2 ≤ 1 ∧
    (recvd (transmit mode b url i st).2.2).length ≤ sends (transmit mode b url i st).2.2 := by
  simp only [transmit]
  split
  · simp
  · split
    · split
      · simp
      · split <;> simp
    · simp

/-- It sends exactly one when it has a nonce, the builder succeeds — and then to the call's URL with
that nonce. -/
theorem transmit_sends_one (mode : NonceMode) (url i : Nat) (st st1 : Http.State) (sent : Option Nat)
    (hp : pickNonce mode st = some (sent, st1)) :
    sends (transmit mode true url i st).2.2 = 1 ∧
    posts (transmit mode true url i st).2.2 = [⟨url, sent, i⟩] := by
  simp only [transmit, hp, if_true]
  split
  · simp
  · split <;> simp

end AcmedVerif.HttpRedirect
