/-
Lemmas about `Model/IpText.lean`: the readers of Rust's `core::net::parser` applied to what
`Display` prints.  Used by `Props/C01Ip.lean`.
-/
import AcmedVerif.Model.IpText
import AcmedVerif.Spec.C01Ip

namespace AcmedVerif.IpText

/-! ## Characters and digits -/

theorem hexDigit_mod (n : Nat) : hexDigit n = hexDigit (n % 16) := by
  simp only [hexDigit, Nat.mod_mod]

theorem hexVal_hexDigit (n : Nat) : hexVal? (hexDigit n) = some (n % 16) := by
  have h : ∀ k : Fin 16, hexVal? (hexDigit k.val) = some k.val := by decide
  rw [hexDigit_mod]
  exact h ⟨n % 16, Nat.mod_lt _ (by decide)⟩

theorem isHex_hexDigit (n : Nat) : isHex (hexDigit n) = true := by
  simp only [isHex, hexVal_hexDigit, Option.isSome_some]

theorem isDigit_sixteen (c : Char) : isDigit 16 c = isHex c := by
  simp [isDigit, digitVal?, isHex]

theorem isDigit_ten (c : Char) : isDigit 10 c = isDec c := by
  simp only [isDigit, digitVal?, if_true]
  cases isDec c <;> simp

theorem digitVal_sixteen (c : Char) : digitVal? 16 c = hexVal? c := by
  simp [digitVal?]

theorem hexDigit_eq_zero {n : Nat} (h : hexDigit n = '0') : n % 16 = 0 := by
  have := hexVal_hexDigit n
  rw [h] at this
  have h0 : hexVal? '0' = some 0 := by decide
  rw [h0] at this
  exact (Option.some.inj this).symm

theorem decDigit_mod (n : Nat) : decDigit n = decDigit (n % 10) := by
  simp only [decDigit, Nat.mod_mod]

theorem isDec_decDigit (n : Nat) : isDec (decDigit n) = true := by
  have h : ∀ k : Fin 10, isDec (decDigit k.val) = true := by decide
  rw [decDigit_mod]
  exact h ⟨n % 10, Nat.mod_lt _ (by decide)⟩

theorem digitVal_decDigit (n : Nat) : digitVal? 10 (decDigit n) = some (n % 10) := by
  have h : ∀ k : Fin 10, digitVal? 10 (decDigit k.val) = some k.val := by decide
  rw [decDigit_mod]
  exact h ⟨n % 10, Nat.mod_lt _ (by decide)⟩

theorem decDigit_eq_zero {n : Nat} (h : decDigit n = '0') : n % 10 = 0 := by
  have := digitVal_decDigit n
  rw [h] at this
  have h0 : digitVal? 10 '0' = some 0 := by decide
  rw [h0] at this
  exact (Option.some.inj this).symm

theorem isHex_of_isDec {c : Char} (h : isDec c = true) : isHex c = true := by
  simp only [isDec] at h
  simp [isHex, hexVal?, h]

theorem isHex_ne_colon {c : Char} (h : isHex c = true) : c ≠ ':' := by
  intro e; subst e; revert h; decide

theorem isHex_ne_dot {c : Char} (h : isHex c = true) : c ≠ '.' := by
  intro e; subst e; revert h; decide

/-! ## `takeWhile` / `dropWhile` over a block followed by a stopper -/

/-- `t` is empty or starts with a character outside `p`. -/
def Stops (p : Char → Bool) (t : List Char) : Prop := ∀ c t', t = c :: t' → p c = false

theorem Stops.nil (p : Char → Bool) : Stops p [] := by intro c t' h; cases h

theorem Stops.cons {p : Char → Bool} {c : Char} (h : p c = false) (t : List Char) : Stops p (c :: t) := by
  intro c' t' e; cases e; exact h

theorem takeWhile_block {p : Char → Bool} {l t : List Char} (hl : ∀ c ∈ l, p c = true)
    (ht : Stops p t) : (l ++ t).takeWhile p = l := by
  induction l with
  | nil =>
    cases t with
    | nil => rfl
    | cons c t' => simp [ht c t' rfl]
  | cons a l ih =>
    have ha : p a = true := hl a (by simp)
    simp only [List.cons_append, List.takeWhile_cons, ha, if_true]
    rw [ih (fun c hc => hl c (by simp [hc]))]

theorem dropWhile_block {p : Char → Bool} {l t : List Char} (hl : ∀ c ∈ l, p c = true)
    (ht : Stops p t) : (l ++ t).dropWhile p = t := by
  induction l with
  | nil =>
    cases t with
    | nil => rfl
    | cons c t' => simp [ht c t' rfl]
  | cons a l ih =>
    have ha : p a = true := hl a (by simp)
    simp only [List.cons_append, List.dropWhile_cons, ha, if_true]
    rw [ih (fun c hc => hl c (by simp [hc]))]

/-! ## `read_number` on a printed number -/

theorem readNumber_block {radix maxDigits : Nat} {allow : Bool} {ds t : List Char}
    (hne : ds ≠ []) (hd : ∀ c ∈ ds, isDigit radix c = true) (hlen : ds.length ≤ maxDigits)
    (hz : allow = true ∨ ds.head? ≠ some '0' ∨ ds.length = 1)
    (ht : Stops (isDigit radix) t) :
    readNumber radix maxDigits allow (ds ++ t) = some (digitsVal radix ds, t) := by
  have hpos : ds.length ≠ 0 := by
    cases ds with
    | nil => exact absurd rfl hne
    | cons _ _ => simp
  simp only [readNumber, takeWhile_block hd ht, dropWhile_block hd ht]
  rw [if_neg hpos, if_neg (by omega)]
  have : (!allow && ds.head? == some '0' && decide (ds.length > 1)) = false := by
    rcases hz with h | h | h
    · simp [h]
    · simp [h]
    · simp [h]
  simp [this]

/-- What `read_number` leaves is what `dropWhile` leaves. -/
theorem readNumber_rest {radix maxDigits : Nat} {allow : Bool} {s r : List Char} {v : Nat}
    (h : readNumber radix maxDigits allow s = some (v, r)) : r = s.dropWhile (isDigit radix) := by
  simp only [readNumber] at h
  split at h
  · cases h
  · split at h
    · cases h
    · split at h
      · cases h
      · cases h; rfl

/-! ## Hexadecimal groups -/

theorem printHex_ne_nil (g : UInt16) : printHex g ≠ [] := by
  simp only [printHex]
  split
  · simp
  · split
    · simp
    · split <;> simp

theorem printHex_isHex (g : UInt16) : ∀ c ∈ printHex g, isHex c = true := by
  intro c hc
  simp only [printHex] at hc
  split at hc
  · simp at hc; subst hc; exact isHex_hexDigit _
  · split at hc
    · simp at hc; rcases hc with h | h <;> subst h <;> exact isHex_hexDigit _
    · split at hc
      · simp at hc; rcases hc with h | h | h <;> subst h <;> exact isHex_hexDigit _
      · simp at hc; rcases hc with h | h | h | h <;> subst h <;> exact isHex_hexDigit _

theorem printHex_length (g : UInt16) : (printHex g).length ≤ 4 := by
  simp only [printHex]
  split
  · simp
  · split
    · simp
    · split <;> simp

theorem digitsVal_printHex (g : UInt16) : digitsVal 16 (printHex g) = g.toNat := by
  have hlt := UInt16.toNat_lt g
  simp only [printHex]
  split
  · simp only [digitsVal, List.foldl, digitVal_sixteen, hexVal_hexDigit, Option.getD_some]; omega
  · split
    · simp only [digitsVal, List.foldl, digitVal_sixteen, hexVal_hexDigit, Option.getD_some]; omega
    · split
      · simp only [digitsVal, List.foldl, digitVal_sixteen, hexVal_hexDigit, Option.getD_some]; omega
      · simp only [digitsVal, List.foldl, digitVal_sixteen, hexVal_hexDigit, Option.getD_some]; omega

/-- `read_number(16, Some(4), true)` reads back a printed group when no hex digit follows. -/
theorem readHex_printHex (g : UInt16) {t : List Char} (ht : Stops isHex t) :
    readHex (printHex g ++ t) = some (g, t) := by
  have ht' : Stops (isDigit 16) t := by
    intro c t' e; rw [isDigit_sixteen]; exact ht c t' e
  have := readNumber_block (radix := 16) (maxDigits := 4) (allow := true) (printHex_ne_nil g)
    (fun c hc => by rw [isDigit_sixteen]; exact printHex_isHex g c hc) (printHex_length g)
    (Or.inl rfl) ht'
  simp only [readHex, this, digitsVal_printHex, UInt16.ofNat_toNat]

/-! ## Decimal octets -/

theorem printDec_ne_nil (o : UInt8) : printDec o ≠ [] := by
  simp only [printDec]
  split
  · simp
  · split <;> simp

theorem printDec_isDec (o : UInt8) : ∀ c ∈ printDec o, isDec c = true := by
  intro c hc
  simp only [printDec] at hc
  split at hc
  · simp at hc; subst hc; exact isDec_decDigit _
  · split at hc
    · simp at hc; rcases hc with h | h <;> subst h <;> exact isDec_decDigit _
    · simp at hc; rcases hc with h | h | h <;> subst h <;> exact isDec_decDigit _

theorem printDec_length (o : UInt8) : (printDec o).length ≤ 3 := by
  simp only [printDec]
  split
  · simp
  · split <;> simp

theorem digitsVal_printDec (o : UInt8) : digitsVal 10 (printDec o) = o.toNat := by
  have hlt := UInt8.toNat_lt o
  simp only [printDec]
  split
  · simp only [digitsVal, List.foldl, digitVal_decDigit, Option.getD_some]; omega
  · split
    · simp only [digitsVal, List.foldl, digitVal_decDigit, Option.getD_some]; omega
    · simp only [digitsVal, List.foldl, digitVal_decDigit, Option.getD_some]; omega

/-- No leading zero: a printed octet starts with '0' only when it is the single digit "0". -/
theorem printDec_no_leading_zero (o : UInt8) :
    (printDec o).head? ≠ some '0' ∨ (printDec o).length = 1 := by
  simp only [printDec]
  split
  · right; simp
  · split
    · left
      simp only [List.head?_cons, ne_eq, Option.some.injEq]
      intro h; have := decDigit_eq_zero h; omega
    · left
      simp only [List.head?_cons, ne_eq, Option.some.injEq]
      intro h; have := decDigit_eq_zero h
      have hlt := UInt8.toNat_lt o
      omega

theorem readOctet_printDec (o : UInt8) {t : List Char} (ht : Stops isDec t) :
    readOctet (printDec o ++ t) = some (o, t) := by
  have ht' : Stops (isDigit 10) t := by
    intro c t' e; rw [isDigit_ten]; exact ht c t' e
  have := readNumber_block (radix := 10) (maxDigits := 3) (allow := false) (printDec_ne_nil o)
    (fun c hc => by rw [isDigit_ten]; exact printDec_isDec o c hc) (printDec_length o)
    (Or.inr (printDec_no_leading_zero o)) ht'
  have hlt := UInt8.toNat_lt o
  simp only [readOctet, this, digitsVal_printDec, UInt8.ofNat_toNat]
  rw [if_pos (by omega)]

theorem stops_dot (t : List Char) : Stops isDec ('.' :: t) := Stops.cons (by decide) t

/-- `read_ipv4_addr` reads back a printed IPv4 address when no decimal digit follows. -/
theorem readV4_printV4 (q : Addr4) {t : List Char} (ht : Stops isDec t) :
    readV4 (printV4 q ++ t) = some (q, t) := by
  simp only [printV4, List.append_assoc, List.cons_append]
  simp only [readV4, readSep, readChar, readOctet_printDec _ (stops_dot _), if_true,
    Bool.false_eq_true, if_false, readOctet_printDec _ ht]

/-! ## An IPv4 address is never read at the start of hexadecimal text -/

theorem readOctet_rest {s r : List Char} {o : UInt8} (h : readOctet s = some (o, r)) :
    r = s.dropWhile isDec := by
  simp only [readOctet] at h
  split at h
  · next v rest hn =>
    split at h
    · cases h
      have := readNumber_rest hn
      rw [this]
      congr 1
      funext c; exact isDigit_ten c
    · cases h
  · cases h

/-- `read_ipv4_addr` fails when the first decimal run is not followed by '.'. -/
theorem readV4_none_of_no_dot {s : List Char} (h : ∀ t, s.dropWhile isDec ≠ '.' :: t) :
    readV4 s = none := by
  simp only [readV4]
  split
  · rfl
  · next a r ha =>
    have hr := readOctet_rest ha
    have : readSep '.' false readOctet r = none := by
      simp only [readSep, Bool.false_eq_true, if_false]
      cases hrr : r with
      | nil => simp [readChar]
      | cons x xs =>
        have hx : x ≠ '.' := by
          intro e; subst e; exact h xs (by rw [← hr, hrr])
        simp [readChar, hx]
    simp only [this]

/-- `t` is empty or starts with ':'. -/
def ColonOrEnd (t : List Char) : Prop := t = [] ∨ ∃ t', t = ':' :: t'

theorem ColonOrEnd.stopsHex {t : List Char} (h : ColonOrEnd t) : Stops isHex t := by
  rcases h with h | ⟨t', h⟩
  · subst h; exact Stops.nil _
  · subst h; exact Stops.cons (by decide) _

theorem dropWhile_isDec_hex {l t : List Char} (hl : ∀ c ∈ l, isHex c = true) (ht : ColonOrEnd t) :
    ∀ u, (l ++ t).dropWhile isDec ≠ '.' :: u := by
  induction l with
  | nil =>
    intro u
    rcases ht with h | ⟨t', h⟩
    · subst h; simp
    · subst h
      have : isDec ':' = false := by decide
      simp [this]
  | cons a l ih =>
    intro u
    simp only [List.cons_append, List.dropWhile_cons]
    split
    · exact ih (fun c hc => hl c (by simp [hc])) u
    · intro e
      have : a = '.' := by cases e; rfl
      exact isHex_ne_dot (hl a (by simp)) this

theorem readV4_none_hex {l t : List Char} (hl : ∀ c ∈ l, isHex c = true) (ht : ColonOrEnd t) :
    readV4 (l ++ t) = none :=
  readV4_none_of_no_dot (dropWhile_isDec_hex hl ht)

/-! ## `read_groups` on printed groups -/

theorem joinSep_false_colonOrEnd (gs : List UInt16) {rest : List Char} (hr : ColonOrEnd rest) :
    ColonOrEnd (joinSep false gs ++ rest) := by
  cases gs with
  | nil => simpa [joinSep] using hr
  | cons g gs => right; exact ⟨printHex g ++ (joinSep false gs ++ rest), by simp [joinSep]⟩

/-- What may follow a chunk of groups in printed text: the end, or "::". -/
def Term (rest : List Char) : Prop := rest = [] ∨ ∃ t, rest = ':' :: ':' :: t

theorem Term.colonOrEnd {rest : List Char} (h : Term rest) : ColonOrEnd rest := by
  rcases h with h | ⟨t, h⟩
  · exact Or.inl h
  · exact Or.inr ⟨_, h⟩

theorem readV4_colon (t : List Char) : readV4 (':' :: t) = none :=
  readV4_none_hex (l := []) (t := ':' :: t) (by simp) (Or.inr ⟨t, rfl⟩)

theorem readV4_nil : readV4 [] = none :=
  readV4_none_hex (l := []) (t := []) (by simp) (Or.inl rfl)

theorem readHex_colon (t : List Char) : readHex (':' :: t) = none := by
  have : isDigit 16 ':' = false := by decide
  simp [readHex, readNumber, this]

theorem readHex_nil : readHex [] = none := by
  simp [readHex, readNumber]

/-- At the end of a chunk neither an IPv4 address nor a group can be read. -/
theorem readSep_stop_v4 (first : Bool) {rest : List Char} (h : Term rest) :
    readSep ':' first readV4 rest = none := by
  rcases h with h | ⟨t, h⟩ <;> subst h <;> cases first <;>
    simp [readSep, readChar, readV4_colon, readV4_nil]

theorem readSep_stop_hex (first : Bool) {rest : List Char} (h : Term rest) :
    readSep ':' first readHex rest = none := by
  rcases h with h | ⟨t, h⟩ <;> subst h <;> cases first <;>
    simp [readSep, readChar, readHex_colon, readHex_nil]

theorem readSep_v4_hex (first : Bool) (g : UInt16) {t : List Char} (ht : ColonOrEnd t) :
    readSep ':' first readV4 ((if first then [] else [':']) ++ printHex g ++ t) = none := by
  cases first <;>
    simp [readSep, readChar, readV4_none_hex (printHex_isHex g) ht]

theorem readSep_hex_hex (first : Bool) (g : UInt16) {t : List Char} (ht : ColonOrEnd t) :
    readSep ':' first readHex ((if first then [] else [':']) ++ printHex g ++ t) = some (g, t) := by
  cases first <;>
    simp [readSep, readChar, readHex_printHex g ht.stopsHex]

/-- `read_groups` reads back exactly the printed groups (no embedded IPv4 address is seen) and stops
at the end of the text or at "::". -/
theorem readGroups_joinSep (gs : List UInt16) :
    ∀ (r : Nat) (first : Bool) (rest : List Char), gs.length ≤ r → Term rest →
      readGroups r first (joinSep first gs ++ rest) = (gs, false, rest) := by
  induction gs with
  | nil =>
    intro r first rest _ hr
    cases r with
    | zero => simp [readGroups, joinSep]
    | succ r =>
      simp only [joinSep, List.nil_append, readGroups, readSep_stop_v4 first hr,
        readSep_stop_hex first hr, ite_self]
  | cons g gs ih =>
    intro r first rest hlen hr
    cases r with
    | zero => simp at hlen
    | succ r =>
      have hce : ColonOrEnd (joinSep false gs ++ rest) := joinSep_false_colonOrEnd gs hr.colonOrEnd
      have h4 := readSep_v4_hex first g hce
      have h6 := readSep_hex_hex first g hce
      have hih := ih r false rest (by simpa using hlen) hr
      simp only [List.append_assoc] at h4 h6
      simp only [joinSep, List.append_assoc, readGroups, h4, h6, ite_self, hih]

/-! ## The zero span, by exhaustion over the 256 zero / non-zero patterns of eight groups -/

theorem forall_mask8 {P : List Bool → Prop}
    (h : ∀ a b c d e f g h : Bool, P [a, b, c, d, e, f, g, h]) :
    ∀ m : List Bool, m.length = 8 → P m := by
  intro m hm
  match m, hm with
  | [a, b, c, d, e, f, g, h'], _ => exact h a b c d e f g h'

/-- The span found lies inside the address and covers zero groups only. -/
theorem zeroSpan_zero_mask : ∀ m : List Bool, m.length = 8 →
    (zeroSpan m).1 + (zeroSpan m).2 ≤ 8 ∧
    (m.drop (zeroSpan m).1).take (zeroSpan m).2 = List.replicate (zeroSpan m).2 true :=
  forall_mask8 (by decide)

theorem map_eq_replicate_true {l : List UInt16} {n : Nat}
    (h : l.map (· == 0) = List.replicate n true) : l = List.replicate n 0 := by
  induction l generalizing n with
  | nil =>
    cases n with
    | zero => rfl
    | succ n => simp [List.replicate_succ] at h
  | cons a l ih =>
    cases n with
    | zero => simp at h
    | succ n =>
      simp only [List.map_cons, List.replicate_succ, List.cons.injEq, beq_iff_eq] at h
      rw [h.1, ih h.2, List.replicate_succ]

/-- The groups of an address split around the span found: before, zeros, after. -/
theorem zeroSpan_split (g : List UInt16) (hg : g.length = 8) :
    let sp := zeroSpan (g.map (· == 0))
    sp.1 + sp.2 ≤ 8 ∧ g = g.take sp.1 ++ List.replicate sp.2 0 ++ g.drop (sp.1 + sp.2) := by
  intro sp
  obtain ⟨h1, h2⟩ := zeroSpan_zero_mask (g.map (· == 0)) (by simpa using hg)
  refine ⟨h1, ?_⟩
  have h3 : ((g.drop sp.1).take sp.2).map (· == 0) = List.replicate sp.2 true := by
    rw [List.map_take, List.map_drop]; exact h2
  have h4 := map_eq_replicate_true h3
  calc g = g.take sp.1 ++ g.drop sp.1 := (List.take_append_drop _ _).symm
    _ = g.take sp.1 ++ ((g.drop sp.1).take sp.2 ++ (g.drop sp.1).drop sp.2) := by
        simp only [List.take_append_drop]
    _ = g.take sp.1 ++ List.replicate sp.2 0 ++ g.drop (sp.1 + sp.2) := by
        rw [h4, List.drop_drop, List.append_assoc]

/-! ## `read_ipv6_addr` on printed text -/

theorem toNat_ofNat_u8 {n : Nat} (h : n < 256) : (UInt8.ofNat n).toNat = n := by
  simp [UInt8.toNat_ofNat', Nat.mod_eq_of_lt h]

/-- `from_be_bytes` undoes the split of a group into two octets. -/
theorem be16_split (h : UInt16) :
    be16 (UInt8.ofNat (h.toNat / 256)) (UInt8.ofNat (h.toNat % 256)) = h := by
  have hlt := UInt16.toNat_lt h
  rw [be16, toNat_ofNat_u8 (by omega), toNat_ofNat_u8 (by omega)]
  have : h.toNat / 256 * 256 + h.toNat % 256 = h.toNat := by omega
  rw [this, UInt16.ofNat_toNat]

theorem printHex_ffff : printHex 0xffff = ['f', 'f', 'f', 'f'] := by decide

/-- Case "IPv4-mapped": `::ffff:a.b.c.d` is read back as `[0,0,0,0,0,0xffff,hi,lo]`. -/
theorem readV6_mapped (hi lo : UInt16) :
    readV6 (printGroups [0, 0, 0, 0, 0, 0xffff, hi, lo]) = some ([0, 0, 0, 0, 0, 0xffff, hi, lo], []) := by
  have hm : mapped? [0, 0, 0, 0, 0, 0xffff, hi, lo] =
      some ⟨UInt8.ofNat (hi.toNat / 256), UInt8.ofNat (hi.toNat % 256),
            UInt8.ofNat (lo.toNat / 256), UInt8.ofNat (lo.toNat % 256)⟩ := rfl
  simp only [printGroups, hm]
  generalize hq : (⟨UInt8.ofNat (hi.toNat / 256), UInt8.ofNat (hi.toNat % 256),
            UInt8.ofNat (lo.toNat / 256), UInt8.ofNat (lo.toNat % 256)⟩ : Addr4) = q
  -- head: nothing before "::"
  have h1 := readGroups_joinSep [] 8 true (':' :: ':' :: 'f' :: 'f' :: 'f' :: 'f' :: ':' :: printV4 q)
    (by simp) (Or.inr ⟨_, rfl⟩)
  simp only [joinSep, List.nil_append] at h1
  -- tail: "ffff", then the embedded IPv4 address
  have h2 : readSep ':' true readV4 ('f' :: 'f' :: 'f' :: 'f' :: ':' :: printV4 q) = none := by
    have := readSep_v4_hex true 0xffff (t := ':' :: printV4 q) (Or.inr ⟨_, rfl⟩)
    simpa [printHex_ffff] using this
  have h3 : readSep ':' true readHex ('f' :: 'f' :: 'f' :: 'f' :: ':' :: printV4 q) =
      some (0xffff, ':' :: printV4 q) := by
    have := readSep_hex_hex true 0xffff (t := ':' :: printV4 q) (Or.inr ⟨_, rfl⟩)
    simpa [printHex_ffff] using this
  have h4 : readSep ':' false readV4 (':' :: printV4 q) = some (q, []) := by
    have := readV4_printV4 q (t := []) (Stops.nil _)
    simp only [List.append_nil] at this
    simp [readSep, readChar, this]
  have h5 : readGroups 7 true ('f' :: 'f' :: 'f' :: 'f' :: ':' :: printV4 q) =
      ([0xffff, be16 q.a q.b, be16 q.c q.d], true, []) := by
    simp only [readGroups, h2, h3, h4, Nat.reduceLeDiff, if_true]
  simp only [readV6, h1, List.length_nil, Nat.reduceEqDiff, if_false, Bool.false_eq_true,
    Nat.sub_zero, h5]
  subst hq
  simp [be16_split, List.replicate]

/-- Case "not IPv4-mapped". -/
theorem readV6_unmapped (g : List UInt16) (hg : g.length = 8) (hm : mapped? g = none) :
    readV6 (printGroups g) = some (g, []) := by
  obtain ⟨hle, hsplit⟩ := zeroSpan_split g hg
  simp only [printGroups, hm]
  generalize hsp : zeroSpan (g.map (· == 0)) = sp at hle hsplit
  obtain ⟨start, len⟩ := sp
  simp only at hle hsplit ⊢
  by_cases hlen : len > 1
  · simp only [hlen, if_true]
    have hH : (g.take start).length = start := by rw [List.length_take]; omega
    have hT : (g.drop (start + len)).length = 8 - (start + len) := by rw [List.length_drop, hg]
    have h1 := readGroups_joinSep (g.take start) 8 true
      (':' :: ':' :: joinSep true (g.drop (start + len))) (by omega) (Or.inr ⟨_, rfl⟩)
    have h2 := readGroups_joinSep (g.drop (start + len)) (7 - start) true [] (by omega) (Or.inl rfl)
    simp only [List.append_nil] at h2
    simp only [readV6, h1, hH, h2, hT]
    rw [if_neg (by omega)]
    have : 8 - start - (8 - (start + len)) = len := by omega
    simp only [Bool.false_eq_true, if_false, this]
    rw [← hsplit]
  · simp only [hlen, if_false]
    have h1 := readGroups_joinSep g 8 true [] (by omega) (Or.inl rfl)
    simp only [List.append_nil] at h1
    simp only [readV6, h1, hg, if_true]

theorem mapped?_some {g : List UInt16} {q : Addr4} (h : mapped? g = some q) :
    ∃ hi lo, g = [0, 0, 0, 0, 0, 0xffff, hi, lo] := by
  unfold mapped? at h
  split at h
  · exact ⟨_, _, rfl⟩
  · cases h

/-- `read_ipv6_addr` reads back every printed address, consuming all of the text. -/
theorem readV6_printGroups (g : List UInt16) (hg : g.length = 8) :
    readV6 (printGroups g) = some (g, []) := by
  cases hm : mapped? g with
  | none => exact readV6_unmapped g hg hm
  | some q =>
    obtain ⟨hi, lo, rfl⟩ := mapped?_some hm
    exact readV6_mapped hi lo

/-- Printed IPv6 text never starts with something `read_ipv4_addr` accepts. -/
theorem readV4_printGroups (g : List UInt16) (hg : g.length = 8) : readV4 (printGroups g) = none := by
  obtain ⟨hle, -⟩ := zeroSpan_split g hg
  simp only [printGroups]
  split
  · exact readV4_colon _
  · generalize hsp : zeroSpan (g.map (· == 0)) = sp at hle
    obtain ⟨start, len⟩ := sp
    simp only at hle ⊢
    split
    · cases hH : g.take start with
      | nil => simp only [joinSep, List.nil_append]; exact readV4_colon _
      | cons x xs =>
        simp only [joinSep, if_true, List.nil_append, List.append_assoc]
        exact readV4_none_hex (printHex_isHex x)
          (joinSep_false_colonOrEnd xs (Or.inr ⟨_, rfl⟩))
    · cases g with
      | nil => simp at hg
      | cons x xs =>
        simp only [joinSep, if_true, List.nil_append]
        have := readV4_none_hex (printHex_isHex x) (joinSep_false_colonOrEnd xs (rest := []) (Or.inl rfl))
        simpa using this

/-! ## The printed text against the text-level description `Spec.C01Ip` -/

open AcmedVerif.Spec.C01Ip

theorem isLowerHexChar_hexDigit (n : Nat) : isLowerHexChar (hexDigit n) = true := by
  have h : ∀ k : Fin 16, isLowerHexChar (hexDigit k.val) = true := by decide
  rw [hexDigit_mod]
  exact h ⟨n % 16, Nat.mod_lt _ (by decide)⟩

theorem isDecChar_decDigit (n : Nat) : isDecChar (decDigit n) = true := by
  have h : ∀ k : Fin 10, isDecChar (decDigit k.val) = true := by decide
  rw [decDigit_mod]
  exact h ⟨n % 10, Nat.mod_lt _ (by decide)⟩

theorem toNat_decDigit (n : Nat) : (decDigit n).toNat - 48 = n % 10 := by
  have h : ∀ k : Fin 10, (decDigit k.val).toNat - 48 = k.val := by decide
  rw [decDigit_mod]
  exact h ⟨n % 10, Nat.mod_lt _ (by decide)⟩

theorem hexDigit_ne_zero {n : Nat} (h : n % 16 ≠ 0) : hexDigit n ≠ '0' :=
  fun e => h (hexDigit_eq_zero e)

theorem u16_eq_zero_iff (g : UInt16) : g = 0 ↔ g.toNat = 0 := by
  constructor
  · intro h; subst h; rfl
  · intro h; exact UInt16.toNat_inj.mp (by rw [h]; rfl)

/-- §4.1 / §4.3 for one group: lower case, no leading zero. -/
theorem hexField_printHex (g : UInt16) : hexField (printHex g) = true := by
  have hlt := UInt16.toNat_lt g
  simp only [printHex]
  split
  · simp [hexField, isLowerHexChar_hexDigit]
  · split
    · have : hexDigit (g.toNat / 16) ≠ '0' := hexDigit_ne_zero (by omega)
      simp [hexField, isLowerHexChar_hexDigit, this]
    · split
      · have : hexDigit (g.toNat / 256) ≠ '0' := hexDigit_ne_zero (by omega)
        simp [hexField, isLowerHexChar_hexDigit, this]
      · have : hexDigit (g.toNat / 4096) ≠ '0' := hexDigit_ne_zero (by omega)
        simp [hexField, isLowerHexChar_hexDigit, this]

/-- A printed group is "0" exactly when the group is zero. -/
theorem isZeroField_printHex (g : UInt16) : isZeroField (printHex g) = (g == 0) := by
  have hz : (g == 0) = decide (g.toNat = 0) := by
    rw [Bool.eq_iff_iff]; simp [u16_eq_zero_iff]
  rw [hz]
  simp only [printHex]
  split
  · next h =>
    by_cases h0 : g.toNat = 0
    · simp [isZeroField, h0, hexDigit]
    · have : hexDigit g.toNat ≠ '0' := hexDigit_ne_zero (by omega)
      simp [isZeroField, h0, this]
  · have h0 : g.toNat ≠ 0 := by omega
    split
    · simp [isZeroField, h0]
    · split <;> simp [isZeroField, h0]

theorem decValue_printDec (o : UInt8) : decValue (printDec o) = o.toNat := by
  have hlt := UInt8.toNat_lt o
  simp only [printDec]
  split
  · simp only [decValue, List.foldl, toNat_decDigit]; omega
  · split
    · simp only [decValue, List.foldl, toNat_decDigit]; omega
    · simp only [decValue, List.foldl, toNat_decDigit]; omega

theorem decField_printDec (o : UInt8) : decField (printDec o) = true := by
  have hlt := UInt8.toNat_lt o
  have hv := decValue_printDec o
  have hz := printDec_no_leading_zero o
  have hall : (printDec o).all isDecChar = true := by
    rw [List.all_eq_true]
    intro c hc
    simp only [printDec] at hc
    split at hc
    · simp at hc; subst hc; exact isDecChar_decDigit _
    · split at hc
      · simp at hc; rcases hc with h | h <;> subst h <;> exact isDecChar_decDigit _
      · simp at hc; rcases hc with h | h | h <;> subst h <;> exact isDecChar_decDigit _
  have h1 : (!(printDec o).isEmpty) = true := by
    cases h : printDec o with
    | nil => exact absurd h (printDec_ne_nil o)
    | cons _ _ => rfl
  have h2 : decide ((printDec o).length ≤ 3) = true := decide_eq_true (printDec_length o)
  have h4 : ((printDec o).length == 1 || (printDec o).head? != some '0') = true := by
    rcases hz with h | h
    · simp [h]
    · simp [h]
  have h5 : decide (decValue (printDec o) ≤ 255) = true := decide_eq_true (by omega)
  simp only [decField, h1, h2, hall, h4, h5, Bool.and_self]

theorem splitOn_nosep {sep : Char} {l : List Char} (hl : ∀ c ∈ l, c ≠ sep) : splitOn sep l = [l] := by
  induction l with
  | nil => rfl
  | cons a l ih =>
    have ha : a ≠ sep := hl a (by simp)
    simp only [splitOn, ha, if_false, ih (fun c hc => hl c (by simp [hc]))]

theorem splitOn_append_sep {sep : Char} {l r : List Char} (hl : ∀ c ∈ l, c ≠ sep) :
    splitOn sep (l ++ sep :: r) = l :: splitOn sep r := by
  induction l with
  | nil => simp [splitOn]
  | cons a l ih =>
    have ha : a ≠ sep := hl a (by simp)
    simp only [List.cons_append, splitOn, ha, if_false, ih (fun c hc => hl c (by simp [hc]))]

theorem printDec_ne_dot (o : UInt8) : ∀ c ∈ printDec o, c ≠ '.' := by
  intro c hc e
  have := printDec_isDec o c hc
  subst e
  revert this; decide

/-- A printed IPv4 address is a dotted quad of four decimal numbers 0..255 without leading zeros. -/
theorem v4shape_printV4 (q : Addr4) : v4shape (printV4 q) = true := by
  simp only [v4shape, printV4, List.append_assoc, List.cons_append]
  rw [splitOn_append_sep (printDec_ne_dot _), splitOn_append_sep (printDec_ne_dot _),
    splitOn_append_sep (printDec_ne_dot _), splitOn_nosep (printDec_ne_dot _)]
  simp [decField_printDec]

theorem printHex_ne_colon (g : UInt16) : ∀ c ∈ printHex g, c ≠ ':' :=
  fun c hc => isHex_ne_colon (printHex_isHex g c hc)

theorem splitDC_block {l : List Char} (hl : ∀ c ∈ l, c ≠ ':') (r : List Char) :
    splitDC (l ++ r) = (splitDC r).map (fun p => (l ++ p.1, p.2)) := by
  induction l with
  | nil => simp
  | cons a l ih =>
    have ha : (a == ':') = false := by simpa using hl a (by simp)
    rw [List.cons_append, splitDC]
    simp only [ha, Bool.false_and, Bool.false_eq_true, if_false,
      ih (fun c hc => hl c (by simp [hc])), Option.map_map]
    rfl

theorem splitDC_colon {c : Char} (hc : c ≠ ':') (r : List Char) :
    splitDC (':' :: c :: r) = (splitDC (c :: r)).map (fun p => (':' :: p.1, p.2)) := by
  have : (some c == some ':') = false := by simp [hc]
  rw [splitDC]
  simp only [List.head?_cons, this, Bool.and_false, Bool.false_eq_true, if_false]

theorem splitDC_pre_hex (first : Bool) (g : UInt16) (x : List Char) :
    splitDC ((if first then [] else [':']) ++ printHex g ++ x) =
      (splitDC x).map (fun p => ((if first then [] else [':']) ++ printHex g ++ p.1, p.2)) := by
  cases first with
  | true => simpa using splitDC_block (printHex_ne_colon g) x
  | false =>
    have hb := splitDC_block (printHex_ne_colon g) x
    cases hp : printHex g with
    | nil => exact absurd hp (printHex_ne_nil g)
    | cons c cs =>
      have hc : c ≠ ':' := printHex_ne_colon g c (by rw [hp]; simp)
      rw [hp] at hb
      simp only [List.cons_append] at hb
      simp only [Bool.false_eq_true, if_false, List.cons_append, List.nil_append]
      rw [splitDC_colon hc, hb, Option.map_map]
      rfl

/-- Text without compression contains no "::". -/
theorem splitDC_joinSep_none (gs : List UInt16) : ∀ first, splitDC (joinSep first gs) = none := by
  induction gs with
  | nil => intro first; rfl
  | cons g gs ih =>
    intro first
    simp only [joinSep]
    rw [splitDC_pre_hex, ih false]
    rfl

/-- The first "::" of a compressed text is the one the printer wrote. -/
theorem splitDC_joinSep_dc (hs : List UInt16) (x : List Char) :
    ∀ first, splitDC (joinSep first hs ++ ':' :: ':' :: x) = some (joinSep first hs, x) := by
  induction hs with
  | nil => intro first; simp [joinSep, splitDC]
  | cons g gs ih =>
    intro first
    simp only [joinSep, List.append_assoc]
    have := splitDC_pre_hex first g (joinSep false gs ++ ':' :: ':' :: x)
    simp only [List.append_assoc] at this
    rw [this, ih false]
    simp

theorem splitOn_joinSep_false (gs : List UInt16) :
    ∀ l : List Char, (∀ c ∈ l, c ≠ ':') → splitOn ':' (l ++ joinSep false gs) = l :: gs.map printHex := by
  induction gs with
  | nil => intro l hl; simp [joinSep, splitOn_nosep hl]
  | cons g gs ih =>
    intro l hl
    simp only [joinSep, Bool.false_eq_true, if_false, List.cons_append, List.nil_append]
    rw [splitOn_append_sep hl, ih _ (printHex_ne_colon g)]
    rfl

theorem splitOn_joinSep (g : UInt16) (gs : List UInt16) :
    splitOn ':' (joinSep true (g :: gs)) = (g :: gs).map printHex := by
  simp only [joinSep, if_true, List.nil_append]
  exact splitOn_joinSep_false gs _ (printHex_ne_colon g)

theorem sideFields_joinSep (hs : List UInt16) : sideFields (joinSep true hs) = hs.map printHex := by
  cases hs with
  | nil => rfl
  | cons g gs =>
    have hne : (joinSep true (g :: gs)).isEmpty = false := by
      simp only [joinSep, if_true, List.nil_append]
      cases hp : printHex g with
      | nil => exact absurd hp (printHex_ne_nil g)
      | cons _ _ => rfl
    simp only [sideFields, hne, Bool.false_eq_true, if_false]
    exact splitOn_joinSep g gs

theorem map_zeroField (gs : List UInt16) :
    (gs.map printHex).map isZeroField = gs.map (· == 0) := by
  rw [List.map_map]
  congr 1
  funext g
  exact isZeroField_printHex g

theorem all_hexField (gs : List UInt16) : (gs.map printHex).all hexField = true := by
  simp [List.all_eq_true, hexField_printHex]

/-- §4.2 for the span the printer finds, by exhaustion over the 256 zero / non-zero patterns. -/
theorem zeroSpan_runs_mask : ∀ m : List Bool, m.length = 8 →
    (if (zeroSpan m).2 > 1 then
      runsOk (m.take (zeroSpan m).1) (m.drop ((zeroSpan m).1 + (zeroSpan m).2)) = true
     else maxRun m ≤ 1) :=
  forall_mask8 (by decide)

/-- Not IPv4-mapped: the printed text is in the all-hexadecimal form of §4. -/
theorem hexForm_printGroups (g : List UInt16) (hg : g.length = 8) (hm : mapped? g = none) :
    hexForm (printGroups g) = true := by
  have hmask := zeroSpan_runs_mask (g.map (· == 0)) (by simpa using hg)
  simp only [printGroups, hm]
  generalize hsp : zeroSpan (g.map (· == 0)) = sp at hmask
  obtain ⟨start, len⟩ := sp
  simp only at hmask ⊢
  by_cases hlen : len > 1
  · simp only [hlen, if_true] at hmask ⊢
    simp only [hexForm, splitDC_joinSep_dc, sideFields_joinSep, all_hexField, map_zeroField,
      Bool.true_and]
    rw [← List.map_take, ← List.map_drop] at hmask
    exact hmask
  · simp only [hlen, if_false] at hmask ⊢
    cases g with
    | nil => simp at hg
    | cons x xs =>
      simp only [hexForm, splitDC_joinSep_none, splitOn_joinSep, all_hexField, map_zeroField,
        List.length_map, hg, beq_self_eq_true, Bool.true_and, decide_eq_true_eq]
      exact hmask

theorem mixedMapped_printGroups (g : List UInt16) {q : Addr4} (hm : mapped? g = some q) :
    mixedMapped (printGroups g) = true := by
  simp only [printGroups, hm, mixedMapped, v4shape_printV4]

/-- Every printed IPv6 address has the RFC 5952 text form. -/
theorem rfc5952_printGroups (g : List UInt16) (hg : g.length = 8) : rfc5952 (printGroups g) = true := by
  cases hm : mapped? g with
  | none => simp [rfc5952, hexForm_printGroups g hg hm]
  | some q => simp [rfc5952, mixedMapped_printGroups g hm]

/-! ## Alphabet of the printed text (the shape `Spec.C01Ident.ipShapeOk` asks for) -/

/-- Decimal digit, lower-case hex digit, ':' or '.'. -/
def canonChar (c : Char) : Bool :=
  (48 ≤ c.toNat && c.toNat ≤ 57) || (97 ≤ c.toNat && c.toNat ≤ 102) || c == ':' || c == '.'

theorem canonChar_hexDigit (n : Nat) : canonChar (hexDigit n) = true := by
  have h : ∀ k : Fin 16, canonChar (hexDigit k.val) = true := by decide
  rw [hexDigit_mod]
  exact h ⟨n % 16, Nat.mod_lt _ (by decide)⟩

theorem canonChar_printDec (o : UInt8) : ∀ c ∈ printDec o, canonChar c = true := by
  intro c hc
  have := printDec_isDec o c hc
  simp only [isDec] at this
  simp [canonChar, this]

theorem canonChar_printHex (g : UInt16) : ∀ c ∈ printHex g, canonChar c = true := by
  intro c hc
  simp only [printHex] at hc
  split at hc
  · simp at hc; subst hc; exact canonChar_hexDigit _
  · split at hc
    · simp at hc; rcases hc with h | h <;> subst h <;> exact canonChar_hexDigit _
    · split at hc
      · simp at hc; rcases hc with h | h | h <;> subst h <;> exact canonChar_hexDigit _
      · simp at hc; rcases hc with h | h | h | h <;> subst h <;> exact canonChar_hexDigit _

theorem canonChar_printV4 (q : Addr4) : ∀ c ∈ printV4 q, canonChar c = true := by
  intro c hc
  simp only [printV4, List.mem_append, List.mem_cons] at hc
  have hdot : canonChar '.' = true := by decide
  rcases hc with ((h | h) | h) | h
  · exact canonChar_printDec _ c h
  · rcases h with h | h
    · subst h; exact hdot
    · exact canonChar_printDec _ c h
  · rcases h with h | h
    · subst h; exact hdot
    · exact canonChar_printDec _ c h
  · rcases h with h | h
    · subst h; exact hdot
    · exact canonChar_printDec _ c h

theorem canonChar_joinSep (gs : List UInt16) : ∀ first, ∀ c ∈ joinSep first gs, canonChar c = true := by
  induction gs with
  | nil => intro first c hc; simp [joinSep] at hc
  | cons g gs ih =>
    intro first c hc
    simp only [joinSep, List.mem_append] at hc
    rcases hc with (h | h) | h
    · cases first
      · simp at h; subst h; decide
      · simp at h
    · exact canonChar_printHex g c h
    · exact ih false c h

theorem canonChar_printGroups (g : List UInt16) : ∀ c ∈ printGroups g, canonChar c = true := by
  intro c hc
  simp only [printGroups] at hc
  split at hc
  · simp only [List.mem_cons] at hc
    rcases hc with h | h | h | h | h | h | h | h
    all_goals first | (subst h; decide) | exact canonChar_printV4 _ c h
  · split at hc
    · simp only [List.mem_append, List.mem_cons] at hc
      rcases hc with h | h | h | h
      · exact canonChar_joinSep _ true c h
      · subst h; decide
      · subst h; decide
      · exact canonChar_joinSep _ true c h
    · exact canonChar_joinSep _ true c hc

theorem printV4_ne_nil (q : Addr4) : printV4 q ≠ [] := by
  simp only [printV4, List.append_assoc]
  cases h : printDec q.a with
  | nil => exact absurd h (printDec_ne_nil _)
  | cons _ _ => simp

theorem printGroups_ne_nil (g : List UInt16) (hg : g.length = 8) : printGroups g ≠ [] := by
  simp only [printGroups]
  split
  · simp
  · split
    · simp
    · cases g with
      | nil => simp at hg
      | cons x xs =>
        simp only [joinSep, if_true, List.nil_append]
        cases h : printHex x with
        | nil => exact absurd h (printHex_ne_nil _)
        | cons _ _ => simp

/-! ## Octets -/

def groupOctets (g : UInt16) : List UInt8 := [UInt8.ofNat (g.toNat / 256), UInt8.ofNat (g.toNat % 256)]

theorem groupOctets_inj {g h : UInt16} (e : groupOctets g = groupOctets h) : g = h := by
  simp only [groupOctets, List.cons.injEq, and_true] at e
  rw [← be16_split g, e.1, e.2, be16_split]

theorem flatMap_groupOctets_length (gs : List UInt16) : (gs.flatMap groupOctets).length = 2 * gs.length := by
  induction gs with
  | nil => rfl
  | cons g gs ih => simp only [List.flatMap_cons, List.length_append, ih, groupOctets, List.length_cons,
      List.length_nil]; omega

theorem flatMap_groupOctets_inj (gs : List UInt16) :
    ∀ hs : List UInt16, gs.flatMap groupOctets = hs.flatMap groupOctets → gs = hs := by
  induction gs with
  | nil =>
    intro hs e
    cases hs with
    | nil => rfl
    | cons h hs => simp [groupOctets] at e
  | cons g gs ih =>
    intro hs e
    cases hs with
    | nil => simp [groupOctets] at e
    | cons h hs =>
      simp only [List.flatMap_cons, groupOctets, List.cons_append, List.nil_append,
        List.cons.injEq] at e
      have hg : g = h := groupOctets_inj (by simp [groupOctets, e.1, e.2.1])
      rw [hg, ih hs e.2.2]

theorem octets_v6 (a : Addr6) : octets (.v6 a) = a.groups.flatMap groupOctets := rfl

end AcmedVerif.IpText
