/-
Lemmas about `Model/Jose.lean` and `Model/Json.lean`.
-/
import AcmedVerif.Model.Jose
import AcmedVerif.Lemmas.Bytes
import AcmedVerif.Lemmas.Base64
import AcmedVerif.Spec.C15

namespace AcmedVerif.Jose
open AcmedVerif.Bytes AcmedVerif.Base64 AcmedVerif.Json

/-! ## generic list facts -/

theorem flatMap_congr' {α β : Type} {f g : α → List β} (l : List α) (h : ∀ x ∈ l, f x = g x) :
    l.flatMap f = l.flatMap g := by
  induction l with
  | nil => rfl
  | cons a l ih =>
    rw [List.flatMap_cons, List.flatMap_cons, h a List.mem_cons_self,
      ih (fun x hx => h x (List.mem_cons_of_mem _ hx))]

/-! ## `splitOn` -/

theorem splitOn_append_sep (sep : Char) (l rest : List Char) (h : sep ∉ l) :
    splitOn sep (l ++ sep :: rest) = l :: splitOn sep rest := by
  induction l with
  | nil => simp [splitOn]
  | cons c l ih =>
    have hc : c ≠ sep := fun e => h (e ▸ List.mem_cons_self)
    have hl : sep ∉ l := fun e => h (List.mem_cons_of_mem _ e)
    simp only [List.cons_append, splitOn, hc, if_false, ih hl]

theorem splitOn_lines (sep : Char) (lines : List (List Char)) (tail : List Char)
    (h : ∀ l ∈ lines, sep ∉ l) :
    splitOn sep (lines.flatMap (fun l => l ++ [sep]) ++ tail) = lines ++ splitOn sep tail := by
  induction lines with
  | nil => rfl
  | cons l ls ih =>
    rw [List.flatMap_cons, List.append_assoc, List.append_assoc, List.singleton_append,
      splitOn_append_sep sep l _ (h l List.mem_cons_self),
      ih (fun x hx => h x (List.mem_cons_of_mem _ hx)), List.cons_append]

/-! ## the PEM text and the "ugly" extraction -/

def begLine : List Char := "-----BEGIN PUBLIC KEY-----".toList
def endLine : List Char := "-----END PUBLIC KEY-----".toList

theorem pemBegin_eq : pemBegin = begLine ++ ['\n'] := by decide
theorem splitOn_pemEnd : splitOn '\n' pemEnd = [endLine, []] := by decide
theorem nl_not_mem_begLine : '\n' ∉ begLine := by decide

theorem isWhitespace_stdChar : ∀ n, n < 64 → isWhitespace (stdChar n) = false := by decide

/-- Every character of the padded encoding is a standard character or `=`. -/
theorem mem_encodeStd {bs : List UInt8} {c : Char} (h : c ∈ encodeStd bs) : IsStd c ∨ c = '=' := by
  obtain ⟨body, k, he, hb⟩ := encodeStd_shape bs
  rw [he] at h
  rcases List.mem_append.mp h with h | h
  · exact Or.inl (hb c h)
  · exact Or.inr (mem_replicate_pad h)

theorem std_or_pad_facts {c : Char} (h : IsStd c ∨ c = '=') :
    c ≠ '\n' ∧ c ≠ '-' ∧ isWhitespace c = false := by
  rcases h with ⟨n, hn, rfl⟩ | rfl
  · exact ⟨stdChar_ne_nl n hn, stdChar_ne_dash n hn, isWhitespace_stdChar n hn⟩
  · decide

theorem trim_id (l : List Char) (h : ∀ c ∈ l, isWhitespace c = false) : trim l = l := by
  unfold trim
  have : l.dropWhile isWhitespace = l := by
    cases l with
    | nil => rfl
    | cons c cs => rw [List.dropWhile_cons, h c List.mem_cons_self]; simp
  rw [this, dropEndWhile_none l h]

theorem pemLineKeep_of_head {c : Char} (cs : List Char) (h : c ≠ '-') :
    pemLineKeep (c :: cs) = true := by
  have : ('-' == c) = false := by
    rw [beq_eq_false_iff_ne]; exact fun e => h e.symm
  simp [pemLineKeep, dashes, List.isPrefixOf_cons_cons, this]

theorem splitOn_pemPublic (der : List UInt8) :
    splitOn '\n' (pemPublic der) = begLine :: (wrap64 (encodeStd der) ++ [endLine, []]) := by
  unfold pemPublic
  rw [pemBegin_eq, List.append_assoc, List.append_assoc, List.singleton_append,
    splitOn_append_sep _ _ _ nl_not_mem_begLine, splitOn_lines, splitOn_pemEnd]
  intro l hl hnl
  have hmem := (wrap64_mem _ l hl).2 _ hnl
  exact (std_or_pad_facts (mem_encodeStd hmem)).1 rfl

/-- The text collected by the loop of `get_eddsa_jwk` is the unpadded base64url encoding of the
whole DER `SubjectPublicKeyInfo`, for every DER string (any length, any number of lines). -/
theorem okpBody_pemPublic (der : List UInt8) : okpBody (pemPublic der) = encodeUrl der := by
  unfold okpBody
  rw [splitOn_pemPublic]
  have hb : pemLineKeep begLine = false := by decide
  have he : pemLineKeep endLine = false := by decide
  have hn : pemLineKeep [] = false := by decide
  have hkeep : (wrap64 (encodeStd der)).filter pemLineKeep = wrap64 (encodeStd der) := by
    rw [List.filter_eq_self]
    intro l hl
    obtain ⟨hne, hsub⟩ := wrap64_mem _ l hl
    cases l with
    | nil => exact absurd rfl hne
    | cons c cs =>
      exact pemLineKeep_of_head cs (std_or_pad_facts (mem_encodeStd (hsub c List.mem_cons_self))).2.1
  rw [List.filter_cons, hb, List.filter_append, hkeep]
  simp only [Bool.false_eq_true, if_false, List.filter_cons, he, hn, List.filter_nil,
    List.append_nil]
  have hline : ∀ l ∈ wrap64 (encodeStd der), okpLine l = translate (trimEndEq l) := by
    intro l hl
    unfold okpLine
    rw [trim_id]
    intro c hc
    exact (std_or_pad_facts (mem_encodeStd ((wrap64_mem _ l hl).2 c hc))).2.2
  rw [flatMap_congr' _ hline]
  obtain ⟨body, k, hs, hbody⟩ := encodeStd_shape der
  have := flatMap_trimEndEq_wrap64 (encodeStd der) body k hs (fun c hc => (hbody c hc).ne_eq)
  rw [encodeUrl_of_shape hs hbody, ← this, translate, List.map_flatMap]
  rfl

/-! ## the 16 characters of a 12-byte prefix -/

theorem encodeUrlDirect_append_aux (k : Nat) : ∀ xs ys : List UInt8, xs.length = 3 * k →
    encodeUrlDirect (xs ++ ys) = encodeUrlDirect xs ++ encodeUrlDirect ys := by
  induction k with
  | zero =>
    intro xs ys h
    have : xs = [] := List.eq_nil_of_length_eq_zero (by omega)
    subst this; rfl
  | succ k ih =>
    intro xs ys h
    match xs, h with
    | a :: b :: c :: xs', h =>
      have hl : xs'.length = 3 * k := by simp only [List.length_cons] at h; omega
      simp only [List.cons_append, encodeUrlDirect, ih xs' ys hl]

theorem encodeUrl_append (xs ys : List UInt8) (h : 3 ∣ xs.length) :
    encodeUrl (xs ++ ys) = encodeUrl xs ++ encodeUrl ys := by
  obtain ⟨k, hk⟩ := h
  simp only [encodeUrl_eq_direct]
  exact encodeUrlDirect_append_aux k xs ys hk

theorem utf8Len_urlChar : ∀ n, n < 64 → utf8Len (urlChar n) = 1 := by decide

theorem dropBytes_ascii (a b : List Char) (h : ∀ c ∈ a, utf8Len c = 1) :
    dropBytes a.length (a ++ b) = some b := by
  induction a with
  | nil => simp [dropBytes]
  | cons c cs ih =>
    have hc := h c List.mem_cons_self
    simp only [List.length_cons, List.cons_append, dropBytes, hc]
    rw [if_pos (by omega)]
    have : cs.length + 1 - 1 = cs.length := by omega
    rw [this]
    exact ih (fun x hx => h x (List.mem_cons_of_mem _ hx))

/-- `x` is exactly the base64url text of what follows a 12-byte DER header. -/
theorem okpX_of_prefix (pre key : List UInt8) (h : pre.length = 12) :
    okpXFromPem (pemPublic (pre ++ key)) = encodeUrl key ∧
    okpXFromPemChecked (pemPublic (pre ++ key)) = some (encodeUrl key) := by
  have hlen : (encodeUrl pre).length = 16 := by
    rw [encodeUrl_eq_direct, length_encodeUrlDirect, h]
  have happ := encodeUrl_append pre key ⟨4, by omega⟩
  constructor
  · unfold okpXFromPem
    rw [okpBody_pemPublic, happ, List.drop_left' hlen]
  · unfold okpXFromPemChecked
    rw [okpBody_pemPublic, happ, ← hlen]
    apply dropBytes_ascii
    intro c hc
    rw [encodeUrl_eq_direct] at hc
    obtain ⟨n, hn, rfl⟩ := encodeUrlDirect_alphabet pre c hc
    exact utf8Len_urlChar n hn

/-! ## JSON string escaping -/

open AcmedVerif.Spec.C15 in
theorem hexDigit_plain : ∀ n, n < 16 →
    hexDigit n ≠ '\\' ∧ hexDigit n ≠ '"' ∧ ¬ (hexDigit n).toNat < 0x20 := by decide

section
open AcmedVerif.Spec.C15

theorem wellEscaped_plain (c : Char) (rest : List Char) (h1 : c ≠ '\\') (h2 : c ≠ '"')
    (h3 : ¬ c.toNat < 0x20) : wellEscaped (c :: rest) = wellEscaped rest := by
  cases rest with
  | nil => simp [wellEscaped, h1, h2, h3]
  | cons d r => simp [wellEscaped, h1, h2, h3]

theorem wellEscaped_esc (d : Char) (rest : List Char) :
    wellEscaped ('\\' :: d :: rest) = wellEscaped rest := by
  simp [wellEscaped]

theorem wellEscaped_escapeChar (c : Char) (rest : List Char) :
    wellEscaped (escapeChar c ++ rest) = wellEscaped rest := by
  by_cases hq : c = '"'
  · subst hq; simp [escapeChar, wellEscaped_esc]
  by_cases hb : c = '\\'
  · subst hb; simp [escapeChar, wellEscaped_esc]
  by_cases hc : c.toNat < 0x20
  · simp only [escapeChar, hq, hb, hc, if_true, if_false]
    repeat' split
    all_goals try (exact wellEscaped_esc _ _)
    have hd := hexDigit_plain (c.toNat / 16) (by omega)
    have hd' := hexDigit_plain (c.toNat % 16) (by omega)
    simp only [List.cons_append, List.nil_append, wellEscaped_esc]
    rw [wellEscaped_plain _ _ (by decide) (by decide) (by decide),
      wellEscaped_plain _ _ (by decide) (by decide) (by decide),
      wellEscaped_plain _ _ hd.1 hd.2.1 hd.2.2, wellEscaped_plain _ _ hd'.1 hd'.2.1 hd'.2.2]
  · simp only [escapeChar, hq, hb, hc, if_false, List.cons_append, List.nil_append]
    exact wellEscaped_plain c rest hb hq hc

theorem wellEscaped_escape (s : List Char) : wellEscaped (escape s) = true := by
  induction s with
  | nil => rfl
  | cons c cs ih =>
    show wellEscaped (List.flatMap escapeChar (c :: cs)) = true
    rw [List.flatMap_cons, wellEscaped_escapeChar]
    exact ih

theorem unescape_simple (d x : Char) (rest t : List Char) (ht : unescape rest = some t)
    (hd : d ≠ 'u') (hx : simpleEsc d = some x) :
    unescape ('\\' :: d :: rest) = some (x :: t) := by
  rw [unescape.eq_def]
  simp [ht, hd, hx]

theorem unescape_plain (c : Char) (rest t : List Char) (ht : unescape rest = some t)
    (h1 : c ≠ '\\') (h2 : ¬ (c = '"' ∨ c.toNat < 0x20)) :
    unescape (c :: rest) = some (c :: t) := by
  rw [unescape.eq_def]
  simp [h1, h2, ht]

theorem unescape_u00 (a b : Nat) (ha : a < 16) (hb : b < 16) (rest t : List Char)
    (ht : unescape rest = some t) :
    unescape ('\\' :: 'u' :: '0' :: '0' :: hexDigit a :: hexDigit b :: rest)
      = some (Char.ofNat (a * 16 + b) :: t) := by
  rw [unescape.eq_def]
  have h0 : hexVal '0' = some 0 := by decide
  simp [ht, h0, hexVal_hexDigit a ha, hexVal_hexDigit b hb]

theorem unescape_escapeChar (c : Char) (rest t : List Char) (ht : unescape rest = some t) :
    unescape (escapeChar c ++ rest) = some (c :: t) := by
  by_cases hq : c = '"'
  · subst hq
    exact unescape_simple '"' '"' rest t ht (by decide) (by decide)
  by_cases hb : c = '\\'
  · subst hb
    exact unescape_simple '\\' '\\' rest t ht (by decide) (by decide)
  by_cases hc : c.toNat < 0x20
  · have hcc : Char.ofNat c.toNat = c := Char.ofNat_toNat c
    simp only [escapeChar, hq, hb, hc, if_true, if_false]
    split
    · next h =>
      rw [h] at hcc; subst hcc
      exact unescape_simple 'b' _ rest t ht (by decide) (by decide)
    split
    · next h =>
      rw [h] at hcc; subst hcc
      exact unescape_simple 't' _ rest t ht (by decide) (by decide)
    split
    · next h =>
      rw [h] at hcc; subst hcc
      exact unescape_simple 'n' _ rest t ht (by decide) (by decide)
    split
    · next h =>
      rw [h] at hcc; subst hcc
      exact unescape_simple 'f' _ rest t ht (by decide) (by decide)
    split
    · next h =>
      rw [h] at hcc; subst hcc
      exact unescape_simple 'r' _ rest t ht (by decide) (by decide)
    have := unescape_u00 (c.toNat / 16) (c.toNat % 16) (by omega) (by omega) rest t ht
    have e : c.toNat / 16 * 16 + c.toNat % 16 = c.toNat := by omega
    rw [e, hcc] at this
    exact this
  · have hqc : ¬ (c = '"' ∨ c.toNat < 0x20) := by
      intro h; rcases h with h | h
      · exact hq h
      · exact hc h
    simp only [escapeChar, hq, hb, hc, if_false, List.cons_append, List.nil_append]
    exact unescape_plain c rest t ht hb hqc

/-- Reading back what `escape` wrote gives the original string: the escaping is valid and
injective. -/
theorem unescape_escape (s : List Char) : unescape (escape s) = some s := by
  induction s with
  | nil => rfl
  | cons c cs ih =>
    show unescape (List.flatMap escapeChar (c :: cs)) = some (c :: cs)
    rw [List.flatMap_cons]
    exact unescape_escapeChar c _ cs ih

end

theorem escape_id (s : List Char) (h : ∀ c ∈ s, escapeChar c = [c]) : escape s = s := by
  induction s with
  | nil => rfl
  | cons c cs ih =>
    show List.flatMap escapeChar (c :: cs) = c :: cs
    rw [List.flatMap_cons, h c List.mem_cons_self]
    have : List.flatMap escapeChar cs = cs := ih (fun x hx => h x (List.mem_cons_of_mem _ hx))
    rw [this]; rfl

theorem escapeChar_urlChar : ∀ n, n < 64 → escapeChar (urlChar n) = [urlChar n] := by decide

theorem escape_encodeUrl (bs : List UInt8) : escape (encodeUrl bs) = encodeUrl bs := by
  apply escape_id
  intro c hc
  rw [encodeUrl_eq_direct] at hc
  obtain ⟨n, hn, rfl⟩ := encodeUrlDirect_alphabet bs c hc
  exact escapeChar_urlChar n hn

/-! ## `Json.obj` against the judge's template -/

section
open AcmedVerif.Spec.C15

theorem str_eq_q {s : List Char} (h : escape s = s) : str s = q s := by
  unfold str q; rw [h]

theorem members_eq_pairs (kvs : List (List Char × List Char))
    (h : ∀ kv ∈ kvs, escape kv.1 = kv.1 ∧ escape kv.2 = kv.2) :
    members (kvs.map (fun kv => (kv.1, str kv.2))) = pairs kvs := by
  fun_induction pairs kvs with
  | case1 => rfl
  | case2 kv =>
    have := h kv List.mem_cons_self
    simp only [List.map_cons, List.map_nil, members, member, pair, str_eq_q this.1,
      str_eq_q this.2]
  | case3 kv kv' rest ih =>
    have h1 := h kv List.mem_cons_self
    have := ih (fun x hx => h x (List.mem_cons_of_mem _ hx))
    simp only [List.map_cons] at this
    simp only [List.map_cons, members, member, pair, str_eq_q h1.1, str_eq_q h1.2, this]

theorem obj_eq_tmpl (kvs : List (List Char × List Char))
    (h : ∀ kv ∈ kvs, escape kv.1 = kv.1 ∧ escape kv.2 = kv.2) :
    obj (kvs.map (fun kv => (kv.1, str kv.2))) = tmpl kvs := by
  unfold obj tmpl; rw [members_eq_pairs kvs h]

theorem noWs_append (a b : List Char) : noWs (a ++ b) = (noWs a && noWs b) := by
  unfold noWs; exact List.all_append

theorem noWs_q (s : List Char) (h : noWs s = true) : noWs (q s) = true := by
  unfold q
  have : noWs ('"' :: (s ++ ['"'])) = noWs (['"'] ++ (s ++ ['"'])) := rfl
  rw [this, noWs_append, noWs_append, h]; decide

theorem noWs_pairs (kvs : List (List Char × List Char))
    (h : ∀ kv ∈ kvs, noWs kv.1 = true ∧ noWs kv.2 = true) : noWs (pairs kvs) = true := by
  fun_induction pairs kvs with
  | case1 => rfl
  | case2 kv =>
    have := h kv List.mem_cons_self
    unfold pair
    have e : q kv.1 ++ ':' :: q kv.2 = q kv.1 ++ ([':'] ++ q kv.2) := rfl
    rw [e, noWs_append, noWs_append, noWs_q _ this.1, noWs_q _ this.2]; decide
  | case3 kv kv' rest ih =>
    have h1 := h kv List.mem_cons_self
    have h2 := ih (fun x hx => h x (List.mem_cons_of_mem _ hx))
    unfold pair
    have e : (q kv.1 ++ ':' :: q kv.2) ++ ',' :: pairs (kv' :: rest)
        = q kv.1 ++ ([':'] ++ (q kv.2 ++ ([','] ++ pairs (kv' :: rest)))) := by simp
    rw [e, noWs_append, noWs_append, noWs_append, noWs_append, noWs_q _ h1.1, noWs_q _ h1.2, h2]
    decide

theorem noWs_tmpl (kvs : List (List Char × List Char))
    (h : ∀ kv ∈ kvs, noWs kv.1 = true ∧ noWs kv.2 = true) : noWs (tmpl kvs) = true := by
  unfold tmpl
  have e : '{' :: (pairs kvs ++ ['}']) = ['{'] ++ (pairs kvs ++ ['}']) := rfl
  rw [e, noWs_append, noWs_append, noWs_pairs kvs h]; decide

theorem noWs_urlChar : ∀ n, n < 64 → noWs [urlChar n] = true := by decide

theorem noWs_encodeUrl (bs : List UInt8) : noWs (encodeUrl bs) = true := by
  unfold noWs
  rw [List.all_eq_true]
  intro c hc
  rw [encodeUrl_eq_direct] at hc
  obtain ⟨n, hn, rfl⟩ := encodeUrlDirect_alphabet bs c hc
  have := noWs_urlChar n hn
  simpa [noWs] using this

end

/-! ## ECDSA signature -/

theorem sigEncode_spec {w r s : Nat} (hr : r < 256 ^ w) (hs : s < 256 ^ w) :
    ∃ sig, sigEncode w r s = some sig ∧ sig.length = 2 * w ∧ sigDecode w sig = some (r, s) := by
  obtain ⟨a, ha, hal, hav⟩ := ofNatFixed_spec hr
  obtain ⟨b, hb, hbl, hbv⟩ := ofNatFixed_spec hs
  refine ⟨a ++ b, ?_, ?_, ?_⟩
  · simp only [sigEncode, ha, hb]
  · rw [List.length_append, hal, hbl]; omega
  · have hl : (a ++ b).length = 2 * w := by rw [List.length_append, hal, hbl]; omega
    simp only [sigDecode, hl, if_true, List.take_left' hal, List.drop_left' hal, hav, hbv]

/-! ## hexadecimal text and OpenSSL's `DER:` values -/

theorem hexBytes_colon (rest : List Char) : hexBytes (':' :: rest) = hexBytes rest := by
  cases rest with
  | nil => simp [hexBytes]
  | cons d r => simp [hexBytes]

theorem hexBytes_hex2 (b : UInt8) (rest : List Char) (bs : List UInt8)
    (h : hexBytes rest = some bs) : hexBytes (hex2 b ++ rest) = some (b :: bs) := by
  have hb := UInt8.toNat_lt b
  have h1 := hexVal_hexDigit (b.toNat / 16) (by omega)
  have h2 := hexVal_hexDigit (b.toNat % 16) (by omega)
  have hc := hexDigit_ne_colon (b.toNat / 16) (by omega)
  simp only [hex2, List.cons_append, List.nil_append, hexBytes, hc, if_false, h1, h2, h]
  have : b.toNat / 16 * 16 + b.toNat % 16 = b.toNat := by omega
  rw [this, UInt8.ofNat_toNat]

theorem hexBytes_hexColon (bs : List UInt8) : hexBytes (hexColon bs) = some bs := by
  fun_induction hexColon bs with
  | case1 => rfl
  | case2 b =>
    have := hexBytes_hex2 b [] [] rfl
    rwa [List.append_nil] at this
  | case3 b b' bs ih =>
    apply hexBytes_hex2
    rw [hexBytes_colon]; exact ih

theorem skipPrefix_append (p s : List Char) : skipPrefix p (p ++ s) = some s := by
  unfold skipPrefix
  have : p.isPrefixOf (p ++ s) = true := by
    rw [List.isPrefixOf_iff_prefix]; exact List.prefix_append p s
  rw [if_pos this, List.drop_left]

theorem hexMin2_32 : hexMin2 32 = ['2', '0'] := by
  unfold hexMin2
  have : hexDigitsLE 32 = ['0', '2'] := by
    rw [hexDigitsLE]; simp only [show (32 : Nat) ≠ 0 by decide, dite_false]
    rw [hexDigitsLE]; simp only [show (32 / 16 : Nat) ≠ 0 by decide, dite_false]
    rw [hexDigitsLE]; simp only [show (32 / 16 / 16 : Nat) = 0 by decide, dite_true]
    decide
  rw [this]; rfl

/-! ## `name=value`: the only `=` is the separator -/

theorem splitOn_no_sep (sep : Char) (l : List Char) (h : sep ∉ l) : splitOn sep l = [l] := by
  induction l with
  | nil => rfl
  | cons c l ih =>
    have hc : c ≠ sep := fun e => h (e ▸ List.mem_cons_self)
    have hl : sep ∉ l := fun e => h (List.mem_cons_of_mem _ e)
    simp only [splitOn, hc, if_false, ih hl]

theorem mem_hexDigitsLE (n : Nat) : ∀ c ∈ hexDigitsLE n, ∃ k, k < 16 ∧ c = hexDigit k := by
  induction n using Nat.strongRecOn with
  | _ n ih =>
    intro c hc
    by_cases h0 : n = 0
    · subst h0; rw [hexDigitsLE] at hc; simp at hc
    · rw [hexDigitsLE] at hc
      simp only [h0, dite_false, List.mem_cons] at hc
      rcases hc with rfl | hc
      · exact ⟨n % 16, by omega, rfl⟩
      · exact ih (n / 16) (by omega) c hc

theorem hexDigit_ne_eqsign : ∀ k, k < 16 → hexDigit k ≠ '=' := by decide

theorem eq_not_mem_hexMin2 (n : Nat) : '=' ∉ hexMin2 n := by
  intro h
  unfold hexMin2 at h
  rcases List.mem_append.mp h with h | h
  · have := (List.mem_replicate.mp h).2
    revert this; decide
  · obtain ⟨k, hk, he⟩ := mem_hexDigitsLE n _ (List.mem_reverse.mp h)
    exact hexDigit_ne_eqsign k hk he.symm

theorem eq_not_mem_hexColon (bs : List UInt8) : '=' ∉ hexColon bs := by
  fun_induction hexColon bs with
  | case1 => simp
  | case2 b =>
    have hb := UInt8.toNat_lt b
    intro h
    simp only [hex2, List.mem_cons, List.mem_nil_iff, or_false] at h
    rcases h with h | h
    · exact hexDigit_ne_eqsign _ (by omega) h.symm
    · exact hexDigit_ne_eqsign _ (by omega) h.symm
  | case3 b b' bs ih =>
    have hb := UInt8.toNat_lt b
    intro h
    simp only [hex2, List.cons_append, List.nil_append, List.mem_cons] at h
    rcases h with h | h | h | h
    · exact hexDigit_ne_eqsign _ (by omega) h.symm
    · exact hexDigit_ne_eqsign _ (by omega) h.symm
    · revert h; decide
    · exact ih h

theorem eq_not_mem_proofValue (digest : List UInt8) : '=' ∉ proofTlsAlpnValue digest := by
  intro h
  unfold proofTlsAlpnValue at h
  rcases List.mem_append.mp h with h | h
  · rcases List.mem_append.mp h with h | h
    · revert h; decide
    · exact eq_not_mem_hexMin2 _ h
  · rcases List.mem_cons.mp h with h | h
    · revert h; decide
    · exact eq_not_mem_hexColon _ h

theorem splitExt_proofTlsAlpn (digest : List UInt8) :
    splitExt (proofTlsAlpn digest) = some (acmeExtName, proofTlsAlpnValue digest) := by
  have h1 : '=' ∉ acmeExtName := by decide
  unfold splitExt proofTlsAlpn
  rw [splitOn_append_sep _ _ _ h1, splitOn_no_sep _ _ (eq_not_mem_proofValue digest)]

end AcmedVerif.Jose
