/- Lemmas about Model/Glob.lean: the pattern `get_cnf_path` builds from a canonical directory and a relative
include, cut into its component patterns: the escaped components of the directory, then those of the include. -/
import AcmedVerif.Lemmas.GlobWalk

namespace AcmedVerif.Glob

theorem escape_sep_cons (s : Str) : escape ('/' :: s) = '/' :: escape s := by
  rw [escape_cons]; simp [isMetaC]

theorem escape_chain (cs : List Str) : escape (chain cs) = chain (cs.map escape) := by
  induction cs with
  | nil => rfl
  | cons c t ih =>
    have h1 : chain (c :: t) = '/' :: c ++ chain t := by simp [chain]
    have h2 : chain ((c :: t).map escape) = '/' :: escape c ++ chain (t.map escape) := by simp [chain]
    rw [h1, h2, List.cons_append, escape_sep_cons, escape_append, ih]; rfl

theorem escape_absDir (cs : List Str) : escape (absDir cs) = absDir (cs.map escape) := by
  cases cs with
  | nil => simp [absDir, escape]
  | cons c t =>
    have h1 : absDir (c :: t) = chain (c :: t) := by simp [absDir]
    have h2 : absDir ((c :: t).map escape) = chain ((c :: t).map escape) := by simp [absDir]
    rw [h1, h2, escape_chain]

theorem mem_escape {c : Str} {x : Char} (h : x ∈ escape c) : x ∈ c ∨ x = '[' ∨ x = ']' := by
  induction c with
  | nil => simp [escape] at h
  | cons d t ih =>
    rw [escape_cons] at h
    rcases List.mem_append.1 h with h | h
    · split at h
      · simp at h; rcases h with h | h | h <;> simp [h]
      · simp at h; simp [h]
    · rcases ih h with h | h
      · exact .inl (List.mem_cons_of_mem _ h)
      · exact .inr h

theorem Proper.escape {c : Str} (h : Proper c) : Proper (escape c) := by
  constructor
  · obtain ⟨d, t, rfl⟩ : ∃ d t, c = d :: t := by
      cases c with
      | nil => exact absurd rfl h.1
      | cons d t => exact ⟨d, t, rfl⟩
    rw [escape_cons]; split <;> simp
  · intro hm
    rcases mem_escape hm with h' | h' | h'
    · exact h.2 h'
    · exact absurd h' (by decide)
    · exact absurd h' (by decide)

/-- What follows the leading separator of `chain es ++ "/" ++ file`. -/
def tailOf : List Str → Str → Str
  | [], file => file
  | e :: t, file => e ++ '/' :: tailOf t file

theorem chain_sep_eq (es : List Str) (file : Str) : chain es ++ '/' :: file = '/' :: tailOf es file := by
  induction es with
  | nil => rfl
  | cons e t ih =>
    have : chain (e :: t) = '/' :: e ++ chain t := by simp [chain]
    rw [this, List.append_assoc, ih]; simp [tailOf]

theorem splitSep_tailOf (es : List Str) (hp : ∀ e ∈ es, Proper e) (file : Str) :
    splitSep (tailOf es file) = es ++ splitSep file := by
  induction es with
  | nil => rfl
  | cons e t ih =>
    simp only [tailOf]
    rw [splitSep_append_sep, splitSep_noSep (hp e (by simp)).2, ih (fun x hx => hp x (List.mem_cons_of_mem _ hx))]
    simp

theorem splitTerminator_tailOf (es : List Str) (hp : ∀ e ∈ es, Proper e) (file : Str) :
    splitTerminator (tailOf es file) = es ++ splitTerminator file := by
  unfold splitTerminator
  rw [splitSep_tailOf es hp]
  have hne := splitSep_ne_nil file
  have hl : (es ++ splitSep file).getLast? = (splitSep file).getLast? := by
    rw [List.getLast?_append]
    cases h : (splitSep file).getLast? with
    | none => simp [List.getLast?_eq_none_iff] at h; exact absurd h hne
    | some x => simp
  simp only [hl]
  split
  · rw [List.dropLast_append_of_ne_nil hne]
  · rfl

theorem splitSep_pieces_noSep (l : List Char) : ∀ c ∈ splitSep l, '/' ∉ c := by
  induction l with
  | nil => simp [splitSep]
  | cons x t ih =>
    intro c hc
    simp only [splitSep] at hc
    split at hc
    · rcases List.mem_cons.1 hc with rfl | hc
      · simp
      · exact ih c hc
    · rename_i hx
      split at hc
      · rename_i h' t' heq
        rcases List.mem_cons.1 hc with rfl | hc
        · have : '/' ∉ h' := ih h' (by rw [heq]; simp)
          simp [isSep] at hx
          simp [this]; exact fun h => hx h.symm
        · exact ih c (by rw [heq]; exact List.mem_cons_of_mem _ hc)
      · simp [isSep] at hx
        simp at hc; subst hc; simp; exact fun h => hx h.symm

theorem splitTerminator_pieces_noSep (l : List Char) : ∀ c ∈ splitTerminator l, '/' ∉ c := by
  intro c hc
  simp only [splitTerminator] at hc
  split at hc
  · exact splitSep_pieces_noSep l c ((List.dropLast_sublist _).mem hc)
  · exact splitSep_pieces_noSep l c hc

theorem newAll_mem : ∀ (l : List Str) (ps : List Pattern), newAll l = .ok ps →
    ∀ p ∈ ps, ∃ c ∈ l, Pattern.new c = .ok p := by
  intro l
  induction l with
  | nil => intro ps h p hp; simp [newAll] at h; subst h; simp at hp
  | cons c t ih =>
    intro ps h p hp
    simp only [newAll] at h
    split at h
    · simp at h
    · rename_i q hq
      split at h
      · simp at h
      · rename_i qs hqs
        simp at h; subst h
        rcases List.mem_cons.1 hp with rfl | hp
        · exact ⟨c, by simp, hq⟩
        · obtain ⟨c', hc', h'⟩ := ih qs hqs p hp
          exact ⟨c', List.mem_cons_of_mem _ hc', h'⟩

theorem newAll_escape_append (cs : List Str) (fc : List Str) :
    newAll (cs.map escape ++ fc) =
      match newAll fc with
      | .ok fp => .ok (cs.map escPattern ++ fp)
      | .error e => .error e := by
  induction cs with
  | nil => cases h : newAll fc <;> simp [h]
  | cons c t ih =>
    simp only [List.map_cons, List.cons_append, newAll, new_escape, ih]
    cases h : newAll fc <;> simp [h]

theorem Lit_of_newAll (l : List Str) (hl : ∀ c ∈ l, '/' ∉ c) (ps : List Pattern) (h : newAll l = .ok ps) : Lit ps := by
  intro p hp s hs
  obtain ⟨c, hc, hnew⟩ := newAll_mem l ps h p hp
  apply head_ne_sep_of_noSep
  intro hm
  exact hl c hc (new_literal_chars hnew hs _ hm)

theorem Lit_empty : Lit [Pattern.empty] := by
  intro p hp s hs
  simp at hp; subst hp
  simp [patternAsStr, Pattern.empty, charsOf] at hs
  subst hs; simp

theorem Lit.append {a b : List Pattern} (ha : Lit a) (hb : Lit b) : Lit (a ++ b) := by
  intro p hp
  rcases List.mem_append.1 hp with h | h
  · exact ha p h
  · exact hb p h

/-- The pattern of a relative include, as text. -/
theorem cnfPattern_rel (cs : List Str) (hv : ∀ c ∈ cs, validName c = true) (file : Str) (hrel : file.head? ≠ some '/') :
    cnfPattern (absDir cs) file = '/' :: tailOf (cs.map escape) file := by
  unfold cnfPattern
  rw [escape_absDir, joinPath_absDir' _ _ _ hrel, chain_sep_eq]
  intro c hc
  obtain ⟨d, hd, rfl⟩ := List.mem_map.1 hc
  exact (Proper.of_valid (hv d hd)).escape

/-- `get_cnf_path` on a relative include IS the walk with the escaped components of the directory followed by
the component patterns of the include. -/
theorem resolve_run (fs : FsView) (fuel : Nat) (cs : List Str) (hv : ∀ c ∈ cs, validName c = true) (file : Str)
    (hrel : file.head? ≠ some '/') (ps : List Str) (h : resolve fs fuel (absDir cs) file = .paths ps) :
    ∃ fpats rd, Lit fpats ∧
      run fs rd fuel (fillTodo fs (cs.map escPattern ++ fpats) (fromPath fs ['/'])) [] = some ps := by
  unfold resolve glob at h
  rw [cnfPattern_rel cs hv file hrel] at h
  have hproper : ∀ e ∈ cs.map escape, Proper e := by
    intro c hc
    obtain ⟨d, hd, rfl⟩ := List.mem_map.1 hc
    exact (Proper.of_valid (hv d hd)).escape
  split at h
  · simp at h
  · split at h
    · simp at h
    · unfold dirPatterns at h
      simp only [List.drop_succ_cons, List.drop_zero] at h
      rw [splitTerminator_tailOf _ hproper, newAll_escape_append] at h
      cases hfc : newAll (splitTerminator file) with
      | error e => simp [hfc] at h
      | ok fp =>
        simp only [hfc] at h
        have hlit : Lit fp := Lit_of_newAll _ (splitTerminator_pieces_noSep file) fp hfc
        split at h
        · simp at h
        · rename_i pats hrun
          simp at h; subst h
          split at hrun
          · exact ⟨fp ++ [Pattern.empty], _, hlit.append Lit_empty, by rw [← List.append_assoc]; exact hrun⟩
          · exact ⟨fp, _, hlit, hrun⟩

/-! ## A finite listing is a well-formed view -/

theorem lookup_mem {α β} [BEq α] [LawfulBEq α] : ∀ (l : List (α × β)) (k : α) (v : β),
    l.lookup k = some v → (k, v) ∈ l := by
  intro l
  induction l with
  | nil => intro k v h; simp [List.lookup] at h
  | cons x t ih =>
    intro k v h
    obtain ⟨a, b⟩ := x
    simp only [List.lookup] at h
    split at h
    · rename_i heq
      simp at h; subst h
      have : k = a := by simpa using heq
      subst this; simp
    · exact List.mem_cons_of_mem _ (ih k v h)

theorem view_wf (L : Listing) (hL : L.wf = true) : L.view.WF := by
  have key : ∀ p es, L.view.readDir p = some es →
      ∃ info : DirInfo, namesOk (info.entries.map (·.1)) = true ∧ es.map (·.1) = info.entries.map (·.1) := by
    intro p es h
    simp only [Listing.view] at h
    split at h
    · rename_i loc _
      split at h
      · rename_i info hinfo
        split at h
        · simp at h; subst h
          have hm := lookup_mem L loc info hinfo
          simp only [Listing.wf, List.all_eq_true] at hL
          exact ⟨info, hL _ hm, by simp [Function.comp_def]⟩
        · simp at h
      · simp at h
    · simp at h
  constructor
  · intro p es h e he
    obtain ⟨info, hok, hmap⟩ := key p es h
    simp only [namesOk, Bool.and_eq_true, List.all_eq_true, decide_eq_true_eq] at hok
    apply hok.1
    rw [← hmap]; exact List.mem_map.2 ⟨e, he, rfl⟩
  · intro p es h
    obtain ⟨info, hok, hmap⟩ := key p es h
    simp only [namesOk, Bool.and_eq_true, decide_eq_true_eq] at hok
    rw [hmap]; exact hok.2

end AcmedVerif.Glob
