/-
Helper lemmas for `Props/C11Fp.lean`: the message of `Model/ContactsFp.lean` is a concatenation of
frames `be64 (length) ++ text`; `be64` is injective below 2^64; a frame followed by anything can be
read back unambiguously.
-/
import AcmedVerif.Model.ContactsFp

namespace AcmedVerif.ContactsFp

theorem be64_length (n : Nat) : (be64 n).length = 8 := rfl

/-- Reading the 8 bytes back (most significant first). -/
def de64 : List UInt8 → Nat
  | [a, b, c, d, e, f, g, h] =>
    a.toNat * 2 ^ 56 + b.toNat * 2 ^ 48 + c.toNat * 2 ^ 40 + d.toNat * 2 ^ 32 + e.toNat * 2 ^ 24
      + f.toNat * 2 ^ 16 + g.toNat * 2 ^ 8 + h.toNat
  | _ => 0

theorem de64_be64 (n : Nat) : de64 (be64 n) = n % 2 ^ 64 := by
  simp only [be64, de64, UInt8.toNat_ofNat']
  omega

/-- `(n as u64).to_be_bytes()` loses nothing below 2^64. -/
theorem be64_injective {n m : Nat} (hn : n < 2 ^ 64) (hm : m < 2 ^ 64) (h : be64 n = be64 m) : n = m := by
  have h1 := de64_be64 n
  have h2 := de64_be64 m
  rw [h] at h1
  rw [h1] at h2
  omega

theorem contactText_injective {a b : List UInt8} (h : contactText a = contactText b) : a = b :=
  List.append_cancel_left h

theorem contactText_length (v : List UInt8) : (contactText v).length = 7 + v.length := by
  simp [contactText, mailtoPrefix]
  omega

theorem foldl_step (acc : List UInt8) (cs : List (List UInt8)) :
    cs.foldl step acc = acc ++ (cs.map frame).flatten := by
  induction cs generalizing acc with
  | nil => simp
  | cons c cs ih => simp [List.foldl_cons, ih, step, List.append_assoc]

/-- The loop builds the concatenation of the frames. -/
theorem message_eq_frames (cs : List (List UInt8)) : message cs = (cs.map frame).flatten := by
  simp [message, foldl_step]

theorem message_nil : message [] = [] := rfl

theorem message_cons (c : List UInt8) (cs : List (List UInt8)) : message (c :: cs) = frame c ++ message cs := by
  simp [message_eq_frames]

theorem frame_length (v : List UInt8) : (frame v).length = 8 + (contactText v).length := by
  simp [frame, be64_length]

theorem frame_ne_nil (v : List UInt8) : frame v ≠ [] := by
  intro h
  have := congrArg List.length h
  rw [frame_length] at this
  simp at this

/-- A frame followed by anything is read back unambiguously: the first 8 bytes give the length of the
text, the length gives the text, what is left is the rest. -/
theorem frame_append_inj {a b r s : List UInt8} (ha : (contactText a).length < 2 ^ 64)
    (hb : (contactText b).length < 2 ^ 64) (h : frame a ++ r = frame b ++ s) : a = b ∧ r = s := by
  simp only [frame, List.append_assoc] at h
  have h8 : (be64 (contactText a).length).length = (be64 (contactText b).length).length := by
    simp [be64_length]
  have ⟨hlen, hrest⟩ := List.append_inj h h8
  have hl : (contactText a).length = (contactText b).length := be64_injective ha hb hlen
  have ⟨ht, hr⟩ := List.append_inj hrest hl
  exact ⟨contactText_injective ht, hr⟩

theorem fits_cons {c : List UInt8} {cs : List (List UInt8)} (h : Fits (c :: cs)) :
    (contactText c).length < 2 ^ 64 ∧ Fits cs :=
  ⟨h c (by simp), fun v hv => h v (by simp [hv])⟩

theorem messageOld_cons (c : List UInt8) (cs : List (List UInt8)) :
    messageOld (c :: cs) = contactText c ++ messageOld cs := by
  simp [messageOld]

end AcmedVerif.ContactsFp
