/-
Helper lemmas about `Model/Lower.lean` (Rust's `str::to_lowercase` over the generated tables of
`Gen/Lower.lean`).  The only facts taken from the tables are closed, decidable statements about the
generated arrays, established by `decide +kernel`:
* `asciiTable`   — the rows of `Gen.lowerMap` with a key below 128 are exactly `A`–`Z` ↦ `a`–`z`;
* `tableOutputs` — no row of `Gen.lowerMap` outputs an ASCII upper-case letter or a full stop, and
                   every row has 1..3 output characters.
Everything else is proved for all strings from the definitions.
-/
import AcmedVerif.Model.Lower
import AcmedVerif.Lemmas.Idna

namespace AcmedVerif.Lower
open AcmedVerif.Idna

/-! ## Binary search returns rows of the table -/

theorem findKeyGo_mem (a : Array (Nat × List Nat)) (k : Nat) (v : List Nat) :
    ∀ f lo hi, findKeyGo a k f lo hi = some v → (k, v) ∈ a.toList := by
  intro f
  induction f with
  | zero => intro lo hi h; simp [findKeyGo] at h
  | succ f ih =>
    intro lo hi h
    unfold findKeyGo at h
    split at h
    · simp only at h
      split at h
      · exact absurd h (by simp)
      · rename_i k' v' hm
        split at h
        · rename_i hk
          simp only [Option.some.injEq] at h
          subst h; subst hk
          have := Array.mem_of_getElem? hm
          exact Array.mem_toList_iff.2 this
        · split at h
          · exact ih _ _ h
          · exact ih _ _ h
    · exact absurd h (by simp)

theorem findKey_mem (a : Array (Nat × List Nat)) (k : Nat) (v : List Nat)
    (h : findKey a k = some v) : (k, v) ∈ a.toList :=
  findKeyGo_mem a k v _ _ _ h

theorem inRangesGo_mem (a : Array (Nat × Nat)) (n : Nat) :
    ∀ f lo hi, inRangesGo a n f lo hi = true → ∃ r ∈ a.toList, r.1 ≤ n ∧ n ≤ r.2 := by
  intro f
  induction f with
  | zero => intro lo hi h; simp [inRangesGo] at h
  | succ f ih =>
    intro lo hi h
    unfold inRangesGo at h
    split at h
    · simp only at h
      split at h
      · exact absurd h (by simp)
      · rename_i s e hm
        split at h
        · exact ih _ _ h
        · split at h
          · exact ih _ _ h
          · exact ⟨(s, e), Array.mem_toList_iff.2 (Array.mem_of_getElem? hm), by simp; omega, by simp; omega⟩
    · exact absurd h (by simp)

/-- A character the model calls ignorable / cased lies in a range of the generated table. -/
theorem inRanges_mem (a : Array (Nat × Nat)) (n : Nat) (h : inRanges a n = true) :
    ∃ r ∈ a.toList, r.1 ≤ n ∧ n ≤ r.2 :=
  inRangesGo_mem a n _ _ _ h

/-! ## Facts read off the generated table -/

/-- Rows of `Gen.lowerMap` below 128: exactly `A`–`Z`, each to the letter 32 above. -/
theorem asciiTable :
    (List.range 128).all (fun n =>
      findKey Gen.lowerMap n == (if 65 ≤ n && n ≤ 90 then some [n + 32] else none)) = true := by
  decide +kernel

/-- What one row may output. -/
def rowOk (e : Nat × List Nat) : Bool :=
  (e.2.map Char.ofNat).all (fun ch => !isAsciiUpper ch && ch != '.') &&
  decide (1 ≤ e.2.length) && decide (e.2.length ≤ 3)

theorem tableOutputs : Gen.lowerMap.toList.all rowOk = true := by
  decide +kernel

theorem sigma_not_ascii : isAscii capitalSigma = false := by decide

/-! ## `lowerChar` -/

theorem lowerChar_ascii (c : Char) (hc : isAscii c = true) : lowerChar c = [asciiLower c] := by
  have hn : c.toNat < 128 := by simpa [isAscii] using hc
  have h := List.all_eq_true.1 asciiTable c.toNat (List.mem_range.2 hn)
  have h' := eq_of_beq h
  unfold lowerChar
  rw [h']
  by_cases hu : isAsciiUpper c = true
  · have hu' : (65 ≤ c.toNat && c.toNat ≤ 90) = true := by simpa [isAsciiUpper] using hu
    simp only [hu', if_true, asciiLower, hu, List.map_cons, List.map_nil]
  · have hu' : (65 ≤ c.toNat && c.toNat ≤ 90) = false := by
      simpa [isAsciiUpper] using hu
    simp only [hu', asciiLower, hu]
    rfl

/-- Either the character is unchanged, or the output is a row of the table. -/
theorem lowerChar_cases (c : Char) :
    lowerChar c = [c] ∨ ∃ e ∈ Gen.lowerMap.toList, lowerChar c = e.2.map Char.ofNat := by
  unfold lowerChar
  cases h : findKey Gen.lowerMap c.toNat with
  | none => exact Or.inl rfl
  | some v => exact Or.inr ⟨(c.toNat, v), findKey_mem _ _ _ h, rfl⟩

theorem row_facts (e : Nat × List Nat) (he : e ∈ Gen.lowerMap.toList) :
    (∀ ch ∈ e.2.map Char.ofNat, isAsciiUpper ch = false ∧ ch ≠ '.') ∧
    1 ≤ (e.2.map Char.ofNat).length ∧ (e.2.map Char.ofNat).length ≤ 3 := by
  have h := List.all_eq_true.1 tableOutputs e he
  simp only [rowOk, Bool.and_eq_true, decide_eq_true_eq, List.all_eq_true, Bool.not_eq_true',
    bne_iff_ne, ne_eq] at h
  refine ⟨fun ch hch => h.1.1 ch hch, ?_, ?_⟩
  · simpa using h.1.2
  · simpa using h.2

theorem lowerChar_noUpper (c d : Char) (hd : d ∈ lowerChar c) (hc : isAsciiUpper c = false) :
    isAsciiUpper d = false := by
  rcases lowerChar_cases c with h | ⟨e, he, h⟩
  · rw [h] at hd; simp only [List.mem_singleton] at hd; subst hd; exact hc
  · rw [h] at hd; exact ((row_facts e he).1 d hd).1

/-- An ASCII upper-case letter is lower-cased by its row; any other character cannot produce one. -/
theorem lowerChar_noUpper' (c d : Char) (hd : d ∈ lowerChar c) : isAsciiUpper d = false := by
  by_cases hc : isAsciiUpper c = true
  · have ha : isAscii c = true := by
      simp only [isAsciiUpper, isAscii, Bool.and_eq_true, decide_eq_true_eq] at hc ⊢
      omega
    rw [lowerChar_ascii c ha] at hd
    simp only [List.mem_singleton] at hd
    subst hd
    exact asciiLower_not_upper c
  · exact lowerChar_noUpper c d hd (by simpa using hc)

theorem lowerChar_noDot (c : Char) (hc : c ≠ '.') : '.' ∉ lowerChar c := by
  intro hd
  rcases lowerChar_cases c with h | ⟨e, he, h⟩
  · rw [h] at hd; simp only [List.mem_singleton] at hd; exact hc hd.symm
  · rw [h] at hd; exact ((row_facts e he).1 '.' hd).2 rfl

theorem lowerChar_length (c : Char) : 1 ≤ (lowerChar c).length ∧ (lowerChar c).length ≤ 3 := by
  rcases lowerChar_cases c with h | ⟨e, he, h⟩
  · rw [h]; simp
  · rw [h]; exact (row_facts e he).2

/-! ## `lowerAt`, `lowerGo` -/

theorem mapSigma_cases (r a : List Char) : mapSigma r a = finalSigma ∨ mapSigma r a = smallSigma := by
  unfold mapSigma
  split
  · exact Or.inl rfl
  · exact Or.inr rfl

theorem lowerAt_ascii (r : List Char) (c : Char) (cs : List Char) (hc : isAscii c = true) :
    lowerAt r c cs = [asciiLower c] := by
  unfold lowerAt
  have : c ≠ capitalSigma := by
    intro e; subst e; exact absurd hc (by decide)
  simp only [this, if_false]
  exact lowerChar_ascii c hc

theorem lowerAt_noUpper (r : List Char) (c : Char) (cs : List Char) (d : Char)
    (hd : d ∈ lowerAt r c cs) : isAsciiUpper d = false := by
  unfold lowerAt at hd
  split at hd
  · simp only [List.mem_singleton] at hd
    rcases mapSigma_cases r cs with h | h <;> (rw [h] at hd; subst hd; decide)
  · exact lowerChar_noUpper' c d hd

theorem lowerAt_noDot (r : List Char) (c : Char) (cs : List Char) (hc : c ≠ '.') :
    '.' ∉ lowerAt r c cs := by
  unfold lowerAt
  split
  · intro hd
    simp only [List.mem_singleton] at hd
    rcases mapSigma_cases r cs with h | h <;> (rw [h] at hd; exact absurd hd (by decide))
  · exact lowerChar_noDot c hc

theorem lowerAt_length (r : List Char) (c : Char) (cs : List Char) :
    1 ≤ (lowerAt r c cs).length ∧ (lowerAt r c cs).length ≤ 3 := by
  unfold lowerAt
  split
  · simp
  · exact lowerChar_length c

theorem lowerGo_ascii (s : List Char) : ∀ r, allAscii s = true → lowerGo r s = s.map asciiLower := by
  induction s with
  | nil => intro r _; rfl
  | cons c cs ih =>
    intro r hs
    simp only [allAscii, List.all_cons, Bool.and_eq_true] at hs
    simp only [lowerGo, List.map_cons]
    rw [lowerAt_ascii r c cs hs.1, ih (c :: r) (by simpa [allAscii] using hs.2)]
    rfl

theorem lowerGo_noUpper (s : List Char) : ∀ r d, d ∈ lowerGo r s → isAsciiUpper d = false := by
  induction s with
  | nil => intro r d hd; simp [lowerGo] at hd
  | cons c cs ih =>
    intro r d hd
    simp only [lowerGo, List.mem_append] at hd
    rcases hd with hd | hd
    · exact lowerAt_noUpper r c cs d hd
    · exact ih _ d hd

theorem lowerGo_noDot (s : List Char) : ∀ r, '.' ∉ s → '.' ∉ lowerGo r s := by
  induction s with
  | nil => intro r _ hd; simp [lowerGo] at hd
  | cons c cs ih =>
    intro r hs hd
    simp only [lowerGo, List.mem_append] at hd
    rcases hd with hd | hd
    · exact lowerAt_noDot r c cs (fun e => hs (e ▸ List.mem_cons_self)) hd
    · exact ih _ (fun m => hs (List.mem_cons_of_mem _ m)) hd

theorem lowerGo_length (s : List Char) :
    ∀ r, s.length ≤ (lowerGo r s).length ∧ (lowerGo r s).length ≤ 3 * s.length := by
  induction s with
  | nil => intro r; simp [lowerGo]
  | cons c cs ih =>
    intro r
    have h1 := lowerAt_length r c cs
    have h2 := ih (c :: r)
    simp only [lowerGo, List.length_append, List.length_cons]
    omega

/-! ## Positions: what stands at the place of one character -/

/-- Lower-casing of the segment `seg` standing between `revBefore` (reversed) and `after`. -/
def lowerSeg (revBefore : List Char) : List Char → List Char → List Char
  | [], _ => []
  | c :: cs, after => lowerAt revBefore c (cs ++ after) ++ lowerSeg (c :: revBefore) cs after

theorem lowerGo_eq_seg (s : List Char) : ∀ r, lowerGo r s = lowerSeg r s [] := by
  induction s with
  | nil => intro r; rfl
  | cons c cs ih => intro r; simp only [lowerGo, lowerSeg, List.append_nil, ih]

theorem lowerSeg_append (a : List Char) :
    ∀ r b after, lowerSeg r (a ++ b) after = lowerSeg r a (b ++ after) ++ lowerSeg (a.reverse ++ r) b after := by
  induction a with
  | nil => intro r b after; simp [lowerSeg]
  | cons c cs ih =>
    intro r b after
    simp only [List.cons_append, lowerSeg, ih, List.append_assoc, List.reverse_cons, List.nil_append]

/-! ## The final-sigma condition in terms of the two sets -/

/-- Going away from Σ: only skipped characters, then a not skipped one that is cased. -/
def ReachesCased (l : List Char) : Prop :=
  ∃ a c b, l = a ++ c :: b ∧ (∀ x ∈ a, isIgnorable x = true) ∧ isIgnorable c = false ∧
    isCased c = true

theorem ignorableThenCased_iff (l : List Char) : ignorableThenCased l = true ↔ ReachesCased l := by
  induction l with
  | nil =>
    simp only [ignorableThenCased, Bool.false_eq_true, false_iff]
    rintro ⟨a, c, b, h, _⟩
    cases a <;> simp at h
  | cons x xs ih =>
    unfold ignorableThenCased
    by_cases hx : isIgnorable x = true
    · simp only [hx, if_true]
      rw [ih]
      constructor
      · rintro ⟨a, c, b, h, ha, hc, hcc⟩
        refine ⟨x :: a, c, b, by simp [h], ?_, hc, hcc⟩
        intro y hy
        rcases List.mem_cons.1 hy with rfl | hy
        · exact hx
        · exact ha y hy
      · rintro ⟨a, c, b, h, ha, hc, hcc⟩
        cases a with
        | nil =>
          simp only [List.nil_append, List.cons.injEq] at h
          rw [← h.1] at hc
          rw [hx] at hc
          exact absurd hc (by simp)
        | cons y ys =>
          simp only [List.cons_append, List.cons.injEq] at h
          exact ⟨ys, c, b, h.2, fun z hz => ha z (List.mem_cons_of_mem _ hz), hc, hcc⟩
    · have hx' : isIgnorable x = false := by simpa using hx
      simp only [hx', Bool.false_eq_true, if_false]
      constructor
      · intro hc
        exact ⟨[], x, xs, rfl, fun _ h => absurd h (by simp), hx', hc⟩
      · rintro ⟨a, c, b, h, ha, hc, hcc⟩
        cases a with
        | nil =>
          simp only [List.nil_append, List.cons.injEq] at h
          rw [h.1]; exact hcc
        | cons y ys =>
          simp only [List.cons_append, List.cons.injEq] at h
          have := ha y List.mem_cons_self
          rw [← h.1, hx'] at this
          exact absurd this (by simp)

/-! ## The look-ups are complete on sorted tables (binary search finds what is there) -/

/-- Inclusive ranges, each well formed, strictly increasing and disjoint. -/
def rangesSorted : List (Nat × Nat) → Bool
  | [] => true
  | [r] => decide (r.1 ≤ r.2)
  | r :: s :: rest => decide (r.1 ≤ r.2) && decide (r.2 < s.1) && rangesSorted (s :: rest)

theorem rangesSorted_spec (l : List (Nat × Nat)) (h : rangesSorted l = true) :
    l.Pairwise (fun a b => a.2 < b.1) ∧ ∀ r ∈ l, r.1 ≤ r.2 := by
  induction l with
  | nil => exact ⟨List.Pairwise.nil, fun _ h => absurd h (by simp)⟩
  | cons r rest ih =>
    cases rest with
    | nil =>
      simp only [rangesSorted, decide_eq_true_eq] at h
      exact ⟨List.pairwise_singleton _ _, fun x hx => by simp at hx; subst hx; exact h⟩
    | cons s rest' =>
      simp only [rangesSorted, Bool.and_eq_true, decide_eq_true_eq] at h
      obtain ⟨hp, hw⟩ := ih h.2
      refine ⟨List.Pairwise.cons ?_ hp, ?_⟩
      · intro t ht
        rcases List.mem_cons.1 ht with rfl | ht
        · exact h.1.2
        · have h1 := (List.pairwise_cons.1 hp).1 t ht
          have h2 := hw s List.mem_cons_self
          omega
      · intro x hx
        rcases List.mem_cons.1 hx with rfl | hx
        · exact h.1.1
        · exact hw x hx

theorem inRangesGo_complete (a : Array (Nat × Nat))
    (hp : a.toList.Pairwise (fun x y => x.2 < y.1)) (hw : ∀ r ∈ a.toList, r.1 ≤ r.2)
    (n idx : Nat) (hidx : idx < a.size) (h1 : a[idx].1 ≤ n) (h2 : n ≤ a[idx].2) :
    ∀ f lo hi, lo ≤ idx → idx < hi → hi ≤ a.size → hi - lo < 2 ^ f →
      inRangesGo a n f lo hi = true := by
  have hpw := List.pairwise_iff_getElem.1 hp
  have lt_of (i j : Nat) (hi : i < a.size) (hj : j < a.size) (hij : i < j) : a[i].2 < a[j].1 := by
    have := hpw i j (by simpa using hi) (by simpa using hj) hij
    simpa [Array.getElem_toList] using this
  have wf (i : Nat) (hi : i < a.size) : a[i].1 ≤ a[i].2 :=
    hw a[i] (Array.mem_toList_iff.2 (Array.getElem_mem hi))
  intro f
  induction f with
  | zero => intro lo hi h3 h4 _ h6; simp at h6; omega
  | succ f ih =>
    intro lo hi h3 h4 h5 h6
    have hlt : lo < hi := by omega
    have hmid : (lo + hi) / 2 < a.size := by omega
    unfold inRangesGo
    simp only [hlt, if_true, Array.getElem?_eq_getElem hmid]
    rw [Nat.pow_succ] at h6
    have hwm := wf _ hmid
    split
    · rename_i hn
      apply ih lo ((lo + hi) / 2) h3 ?_ (by omega) (by omega)
      by_cases hc : idx < (lo + hi) / 2
      · exact hc
      · exfalso
        by_cases he : idx = (lo + hi) / 2
        · subst he; omega
        · have := lt_of ((lo + hi) / 2) idx hmid hidx (by omega)
          omega
    · split
      · rename_i hn hm
        apply ih ((lo + hi) / 2 + 1) hi ?_ h4 h5 (by omega)
        by_cases hc : (lo + hi) / 2 < idx
        · exact hc
        · exfalso
          by_cases he : idx = (lo + hi) / 2
          · subst he; omega
          · have := lt_of idx ((lo + hi) / 2) hidx hmid (by omega)
            omega
      · rfl

theorem inRanges_iff (a : Array (Nat × Nat)) (hs : rangesSorted a.toList = true)
    (hsz : a.size < 2 ^ searchFuel) (n : Nat) :
    inRanges a n = true ↔ ∃ r ∈ a.toList, r.1 ≤ n ∧ n ≤ r.2 := by
  refine ⟨inRanges_mem a n, ?_⟩
  rintro ⟨r, hr, h1, h2⟩
  obtain ⟨hp, hw⟩ := rangesSorted_spec _ hs
  obtain ⟨i, hi, rfl⟩ := List.mem_iff_getElem.1 hr
  have hi' : i < a.size := by simpa using hi
  rw [Array.getElem_toList] at h1 h2
  exact inRangesGo_complete a hp hw n i hi' h1 h2 _ 0 a.size (Nat.zero_le _) hi' (Nat.le_refl _)
    (by simpa using hsz)

/-- Keys strictly increasing. -/
def keysSorted : List (Nat × List Nat) → Bool
  | [] => true
  | [_] => true
  | r :: s :: rest => decide (r.1 < s.1) && keysSorted (s :: rest)

theorem keysSorted_spec (l : List (Nat × List Nat)) (h : keysSorted l = true) :
    l.Pairwise (fun a b => a.1 < b.1) := by
  induction l with
  | nil => exact List.Pairwise.nil
  | cons r rest ih =>
    cases rest with
    | nil => exact List.pairwise_singleton _ _
    | cons s rest' =>
      simp only [keysSorted, Bool.and_eq_true, decide_eq_true_eq] at h
      have hp := ih h.2
      refine List.Pairwise.cons ?_ hp
      intro t ht
      rcases List.mem_cons.1 ht with rfl | ht
      · exact h.1
      · have h1 := (List.pairwise_cons.1 hp).1 t ht
        omega

theorem findKeyGo_complete (a : Array (Nat × List Nat))
    (hp : a.toList.Pairwise (fun x y => x.1 < y.1)) (idx : Nat) (hidx : idx < a.size) :
    ∀ f lo hi, lo ≤ idx → idx < hi → hi ≤ a.size → hi - lo < 2 ^ f →
      findKeyGo a a[idx].1 f lo hi = some a[idx].2 := by
  have hpw := List.pairwise_iff_getElem.1 hp
  have lt_of (i j : Nat) (hi : i < a.size) (hj : j < a.size) (hij : i < j) : a[i].1 < a[j].1 := by
    have := hpw i j (by simpa using hi) (by simpa using hj) hij
    simpa [Array.getElem_toList] using this
  intro f
  induction f with
  | zero => intro lo hi h3 h4 _ h6; simp at h6; omega
  | succ f ih =>
    intro lo hi h3 h4 h5 h6
    have hlt : lo < hi := by omega
    have hmid : (lo + hi) / 2 < a.size := by omega
    unfold findKeyGo
    simp only [hlt, if_true, Array.getElem?_eq_getElem hmid]
    rw [Nat.pow_succ] at h6
    split
    · rename_i hk
      by_cases he : idx = (lo + hi) / 2
      · subst he; rfl
      · exfalso
        by_cases hc : idx < (lo + hi) / 2
        · have := lt_of idx ((lo + hi) / 2) hidx hmid hc
          omega
        · have := lt_of ((lo + hi) / 2) idx hmid hidx (by omega)
          omega
    · rename_i hk
      split
      · rename_i hm
        apply ih ((lo + hi) / 2 + 1) hi ?_ h4 h5 (by omega)
        by_cases hc : (lo + hi) / 2 < idx
        · exact hc
        · exfalso
          by_cases he : idx = (lo + hi) / 2
          · subst he; exact hk rfl
          · have := lt_of idx ((lo + hi) / 2) hidx hmid (by omega)
            omega
      · rename_i hm
        apply ih lo ((lo + hi) / 2) h3 ?_ (by omega) (by omega)
        by_cases hc : idx < (lo + hi) / 2
        · exact hc
        · exfalso
          by_cases he : idx = (lo + hi) / 2
          · subst he; exact hk rfl
          · have := lt_of ((lo + hi) / 2) idx hmid hidx (by omega)
            omega

theorem findKey_iff (a : Array (Nat × List Nat)) (hs : keysSorted a.toList = true)
    (hsz : a.size < 2 ^ searchFuel) (k : Nat) (v : List Nat) :
    findKey a k = some v ↔ (k, v) ∈ a.toList := by
  refine ⟨findKey_mem a k v, ?_⟩
  intro hr
  obtain ⟨i, hi, he⟩ := List.mem_iff_getElem.1 hr
  have hi' : i < a.size := by simpa using hi
  rw [Array.getElem_toList] at he
  have := findKeyGo_complete a (keysSorted_spec _ hs) i hi' searchFuel 0 a.size (Nat.zero_le _) hi'
    (Nat.le_refl _) (by simpa using hsz)
  rw [he] at this
  exact this

/-- No row for `k`: the search answers `none`. -/
theorem findKey_none (a : Array (Nat × List Nat)) (k : Nat) (h : ∀ v, (k, v) ∉ a.toList) :
    findKey a k = none := by
  cases hf : findKey a k with
  | none => rfl
  | some v => exact absurd (findKey_mem a k v hf) (h v)

/-! ### The generated tables are sorted -/

theorem lowerMap_sorted : keysSorted Gen.lowerMap.toList = true := by decide +kernel
theorem ignorable_sorted : rangesSorted Gen.ignorableRanges.toList = true := by decide +kernel
theorem cased_sorted : rangesSorted Gen.casedRanges.toList = true := by decide +kernel
theorem table_sizes : Gen.lowerMap.size < 2 ^ searchFuel ∧ Gen.ignorableRanges.size < 2 ^ searchFuel ∧
    Gen.casedRanges.size < 2 ^ searchFuel := by decide +kernel

end AcmedVerif.Lower
