/-
Helper lemmas about `Model/Http.lean` for `Props/C08.lean` (C08, the nonce clause of C04, the
call-site clause of C09).
-/
import AcmedVerif.Model.Http
import AcmedVerif.Spec.C08

namespace AcmedVerif.Http

/-! ## Trace readers: computation rules -/

section readers
variable (e : Ev) (es es' : List Ev)

@[simp] theorem posts_nil : posts [] = [] := rfl
@[simp] theorem posts_append : posts (es ++ es') = posts es ++ posts es' := by
  simp [posts, List.filterMap_append]
@[simp] theorem posts_postSend (u n r) : posts (.postSend u n r :: es) = ⟨u, n, r⟩ :: posts es := rfl
@[simp] theorem posts_admit : posts (.admit :: es) = posts es := rfl
@[simp] theorem posts_getSend (u) : posts (.getSend u :: es) = posts es := rfl
@[simp] theorem posts_recvGet (a) : posts (.recvGet a :: es) = posts es := rfl
@[simp] theorem posts_recvPost (a) : posts (.recvPost a :: es) = posts es := rfl
@[simp] theorem posts_retryWait : posts (.retryWait :: es) = posts es := rfl
@[simp] theorem posts_pollWait (i) : posts (.pollWait i :: es) = posts es := rfl

@[simp] theorem postAnswers_nil : postAnswers [] = [] := rfl
@[simp] theorem postAnswers_append : postAnswers (es ++ es') = postAnswers es ++ postAnswers es' := by
  simp [postAnswers, List.filterMap_append]
@[simp] theorem postAnswers_postSend (u n r) : postAnswers (.postSend u n r :: es) = postAnswers es := rfl
@[simp] theorem postAnswers_admit : postAnswers (.admit :: es) = postAnswers es := rfl
@[simp] theorem postAnswers_getSend (u) : postAnswers (.getSend u :: es) = postAnswers es := rfl
@[simp] theorem postAnswers_recvGet (a) : postAnswers (.recvGet a :: es) = postAnswers es := rfl
@[simp] theorem postAnswers_recvPost (a) : postAnswers (.recvPost a :: es) = a :: postAnswers es := rfl
@[simp] theorem postAnswers_retryWait : postAnswers (.retryWait :: es) = postAnswers es := rfl
@[simp] theorem postAnswers_pollWait (i) : postAnswers (.pollWait i :: es) = postAnswers es := rfl

@[simp] theorem recvd_nil : recvd [] = [] := rfl
@[simp] theorem recvd_append : recvd (es ++ es') = recvd es ++ recvd es' := by
  simp [recvd, List.filterMap_append]
@[simp] theorem recvd_postSend (u n r) : recvd (.postSend u n r :: es) = recvd es := rfl
@[simp] theorem recvd_admit : recvd (.admit :: es) = recvd es := rfl
@[simp] theorem recvd_getSend (u) : recvd (.getSend u :: es) = recvd es := rfl
@[simp] theorem recvd_recvGet (a) : recvd (.recvGet a :: es) = a :: recvd es := rfl
@[simp] theorem recvd_recvPost (a) : recvd (.recvPost a :: es) = a :: recvd es := rfl
@[simp] theorem recvd_retryWait : recvd (.retryWait :: es) = recvd es := rfl
@[simp] theorem recvd_pollWait (i) : recvd (.pollWait i :: es) = recvd es := rfl

@[simp] theorem pollWaits_nil : pollWaits [] = 0 := rfl
@[simp] theorem pollWaits_append : pollWaits (es ++ es') = pollWaits es + pollWaits es' := by
  simp [pollWaits, List.filter_append]
@[simp] theorem pollWaits_postSend (u n r) : pollWaits (.postSend u n r :: es) = pollWaits es := rfl
@[simp] theorem pollWaits_admit : pollWaits (.admit :: es) = pollWaits es := rfl
@[simp] theorem pollWaits_getSend (u) : pollWaits (.getSend u :: es) = pollWaits es := rfl
@[simp] theorem pollWaits_recvGet (a) : pollWaits (.recvGet a :: es) = pollWaits es := rfl
@[simp] theorem pollWaits_recvPost (a) : pollWaits (.recvPost a :: es) = pollWaits es := rfl
@[simp] theorem pollWaits_retryWait : pollWaits (.retryWait :: es) = pollWaits es := rfl
@[simp] theorem pollWaits_pollWait (i) : pollWaits (.pollWait i :: es) = pollWaits es + 1 := rfl

theorem issuedBy_append : issuedBy (es ++ es') = issuedBy es ++ issuedBy es' := by
  simp [issuedBy, List.filterMap_append]
theorem postNonces_append : postNonces (es ++ es') = postNonces es ++ postNonces es' := by
  simp [postNonces, List.filterMap_append]
theorem okBodies_append : okBodies (es ++ es') = okBodies es ++ okBodies es' := by
  simp [okBodies, List.filter_append]

end readers

/-! ## `judge` against `verdict` -/

/-- What `post` does with an answer is exactly what `Answer.verdict` says. -/
theorem judge_verdict (cur : Option Nat) (a : Answer) :
    (a.verdict = .retry ∧ (judge cur a).1 = .again) ∨
    (a.verdict = .success ∧ (judge cur a).1 = .done (.ok a.body) ∧ a.ok2xx = true ∧
      a.delivered = true) ∨
    (a.verdict = .fail ∧ ∃ e, (judge cur a).1 = .done (.err e) ∧ e ≠ .noNonce ∧
      (∀ x, e ≠ .nonceFetch x) ∧ e ≠ .clientBuild) := by
  obtain ⟨d, o, h, b, rd⟩ := a
  cases d <;> cases o <;> cases h <;> cases b <;>
    simp [judge, Answer.verdict, updateNonce] <;>
    (split <;> simp_all)

/-- The stored nonce after an answer: the one it issued, else unchanged. -/
theorem judge_snd (cur : Option Nat) (a : Answer) : (judge cur a).2 = a.issued.or cur := by
  obtain ⟨d, o, h, b, rd⟩ := a
  cases d <;> cases o <;> cases h <;> cases b <;>
    simp [judge, Answer.issued, updateNonce] <;>
    (split <;> simp_all)

/-! ## Shapes of the pieces -/

/-- The events of `get` are blocks `admit, getSend u, recvGet a` (one per request of the redirect
chain), the last block possibly without its answer. -/
theorem getLoop_posts (fuel u : Nat) (st : State) :
    posts (getLoop fuel u st).evs = [] ∧ postAnswers (getLoop fuel u st).evs = [] := by
  induction fuel generalizing u st with
  | zero => simp [getLoop]
  | succ fuel ih =>
    simp only [getLoop]
    split
    · simp
    · rename_i a rest _
      split
      · split
        · simp
        · split
          · rename_i u' k _
            have := ih u' { script := rest, nonce := ‹Option Nat›, nonceUrl := st.nonceUrl }
            simp_all
          · simp
          · split
            · split <;> simp
            · simp
      · simp

theorem get_posts (st : State) (c : Bool) (u : Nat) :
    posts (get st c u).evs = [] ∧ postAnswers (get st c u).evs = [] := by
  simp only [get]
  split
  · exact getLoop_posts _ _ _
  · simp

theorem newNonce_posts (st : State) (c : Bool) :
    posts (newNonce st c).evs = [] ∧ postAnswers (newNonce st c).evs = [] := by
  simp [newNonce, get_posts]

theorem prepNonce_posts (mode : NonceMode) (c : Bool) (st : State) :
    posts (prepNonce mode c st).2.2 = [] ∧ postAnswers (prepNonce mode c st).2.2 = [] := by
  simp only [prepNonce]
  split
  · split <;> simp [newNonce_posts]
  · simp

theorem prepNonce_fail (mode : NonceMode) (c : Bool) (st : State) (r : Result)
    (h : (prepNonce mode c st).1 = some r) : r.nonceFailure = true ∨ r = .stuck := by
  simp only [prepNonce] at h
  split at h
  · split at h <;> simp at h <;> subst h <;> simp [Result.nonceFailure]
  · simp at h

/-- The five ways a round can go after the nonce preparation. -/
theorem transmit_cases (mode : NonceMode) (b : Bool) (url i : Nat) (st : State) :
    ((transmit mode b url i st).2.2 = [] ∧
      ((transmit mode b url i st).1 = .done (.err .noNonce) ∨
       (b = false ∧ (transmit mode b url i st).1 = .done (.err .builder)))) ∨
    (∃ n, (transmit mode b url i st).2.2 = [.admit, .postSend url n i] ∧
      (transmit mode b url i st).1 = .done .stuck) ∨
    (∃ n a, a.verdict = .retry ∧ (transmit mode b url i st).1 = .again ∧
      (transmit mode b url i st).2.2 = [.admit, .postSend url n i, .recvPost a, .retryWait]) ∨
    (∃ n a, a.verdict = .success ∧ a.ok2xx = true ∧ a.delivered = true ∧
      (transmit mode b url i st).1 = .done (.ok a.body) ∧
      (transmit mode b url i st).2.2 = [.admit, .postSend url n i, .recvPost a]) ∨
    (∃ n a e, a.verdict = .fail ∧ e ≠ .noNonce ∧ (∀ x, e ≠ .nonceFetch x) ∧ e ≠ .clientBuild ∧
      (transmit mode b url i st).1 = .done (.err e) ∧
      (transmit mode b url i st).2.2 = [.admit, .postSend url n i, .recvPost a]) := by
  simp only [transmit]
  split
  · simp
  · rename_i sent st1 _
    cases b
    · simp
    · simp only [if_true]
      split
      · right; left; exact ⟨sent, rfl, rfl⟩
      · rename_i a rest _
        rcases judge_verdict st1.nonce a with ⟨hv, hj⟩ | ⟨hv, hj, h2, hd⟩ | ⟨hv, e, hj, h1, h2, h3⟩
        · right; right; left
          refine ⟨sent, a, hv, ?_⟩
          simp [hj]
        · right; right; right; left
          refine ⟨sent, a, hv, h2, hd, ?_⟩
          simp [hj]
        · right; right; right; right
          refine ⟨sent, a, e, hv, h1, h2, h3, ?_⟩
          simp [hj]

/-! ## The POST view of one `post` call -/

/-- What a run of the loop looks like when only the POST transmissions `P`, their answers `A` and
the result are kept: `fuel` rounds left, `i` the index of the next round. -/
inductive LoopRun (url : Nat) (bOk : Bool) : Nat → Nat → List PostTx → List Answer → Result → Prop
  | exhausted (i) : LoopRun url bOk 0 i [] [] (.err .tooManyErrors)
  | stuckFetch (fuel i) : LoopRun url bOk fuel i [] [] .stuck
  | nonceFail (fuel i r) : r.nonceFailure = true → LoopRun url bOk (fuel + 1) i [] [] r
  | builderFail (fuel i) : bOk = false → LoopRun url bOk (fuel + 1) i [] [] (.err .builder)
  | noAnswer (fuel i n) : LoopRun url bOk (fuel + 1) i [⟨url, n, i⟩] [] .stuck
  | success (fuel i n a) : a.verdict = .success → a.ok2xx = true → a.delivered = true →
      LoopRun url bOk (fuel + 1) i [⟨url, n, i⟩] [a] (.ok a.body)
  | failed (fuel i n a e) : a.verdict = .fail → e ≠ .noNonce → (∀ x, e ≠ .nonceFetch x) →
      e ≠ .clientBuild → LoopRun url bOk (fuel + 1) i [⟨url, n, i⟩] [a] (.err e)
  | again (fuel i n a P A r) : a.verdict = .retry → LoopRun url bOk fuel (i + 1) P A r →
      LoopRun url bOk (fuel + 1) i (⟨url, n, i⟩ :: P) (a :: A) r

theorem postLoop_run (mode : NonceMode) (c b : Bool) (url : Nat) :
    ∀ (fuel i : Nat) (st : State),
      LoopRun url b fuel i (posts (postLoop mode c b url fuel i st).evs)
        (postAnswers (postLoop mode c b url fuel i st).evs) (postLoop mode c b url fuel i st).res := by
  intro fuel
  induction fuel with
  | zero => intro i st; exact .exhausted i
  | succ fuel ih =>
    intro i st
    unfold postLoop round
    have hp := prepNonce_posts mode c st
    have hf := prepNonce_fail mode c st
    generalize prepNonce mode c st = pn at hp hf
    obtain ⟨f, st1, ev1⟩ := pn
    simp only at hp hf
    cases f with
    | some r =>
      simp only [hp.1, hp.2]
      rcases hf r rfl with h | h
      · exact .nonceFail _ _ _ h
      · subst h; exact .stuckFetch _ _
    | none =>
      simp only
      have ht := transmit_cases mode b url i st1
      generalize transmit mode b url i st1 = t at ht
      obtain ⟨o, st2, ev2⟩ := t
      simp only at ht
      rcases ht with ⟨he, ho | ⟨hb, ho⟩⟩ | ⟨n, he, ho⟩ | ⟨n, a, hv, ho, he⟩ |
        ⟨n, a, hv, h2, hd, ho, he⟩ | ⟨n, a, e, hv, h1, h2, h3, ho, he⟩
      · subst he ho
        simp only [List.append_nil, hp.1, hp.2]
        exact .nonceFail _ _ _ rfl
      · subst he ho
        simp only [List.append_nil, hp.1, hp.2]
        exact .builderFail _ _ hb
      · subst he ho
        simp only [posts_append, postAnswers_append, hp.1, hp.2, List.nil_append, posts_admit,
          posts_postSend, posts_nil, postAnswers_admit, postAnswers_postSend, postAnswers_nil]
        exact .noAnswer _ _ _
      · subst he ho
        simp only [posts_append, postAnswers_append, hp.1, hp.2, List.nil_append, posts_admit,
          posts_postSend, posts_recvPost, posts_retryWait, posts_nil, postAnswers_admit,
          postAnswers_postSend, postAnswers_recvPost, postAnswers_retryWait, postAnswers_nil,
          List.cons_append]
        exact .again _ _ _ _ _ _ _ hv (ih (i + 1) st2)
      · subst he ho
        simp only [posts_append, postAnswers_append, hp.1, hp.2, List.nil_append, posts_admit,
          posts_postSend, posts_recvPost, posts_nil, postAnswers_admit,
          postAnswers_postSend, postAnswers_recvPost, postAnswers_nil]
        exact .success _ _ _ _ hv h2 hd
      · subst he ho
        simp only [posts_append, postAnswers_append, hp.1, hp.2, List.nil_append, posts_admit,
          posts_postSend, posts_recvPost, posts_nil, postAnswers_admit,
          postAnswers_postSend, postAnswers_recvPost, postAnswers_nil]
        exact .failed _ _ _ _ _ hv h1 h2 h3

/-- `post` as a whole: with a working client it is a loop run of `N` rounds from round 0 (the
old code's single nonce fetch before the loop adds no POST). -/
theorem post_run (N : Nat) (mode : NonceMode) (st : State) (b : Bool) (url : Nat) :
    LoopRun url b N 0 (posts (post N mode st true b url).evs)
      (postAnswers (post N mode st true b url).evs) (post N mode st true b url).res := by
  simp only [post, if_true]
  split
  · split
    · simp only [(newNonce_posts _ _).1, (newNonce_posts _ _).2]
      exact .stuckFetch _ _
    · simp only [posts_append, postAnswers_append, (newNonce_posts _ _).1, (newNonce_posts _ _).2,
        List.nil_append]
      exact postLoop_run _ _ _ _ _ _ _
  · exact postLoop_run _ _ _ _ _ _ _

theorem post_clientFail (N : Nat) (mode : NonceMode) (st : State) (b : Bool) (url : Nat) :
    post N mode st false b url = ⟨.err .clientBuild, st, []⟩ := by
  simp [post]

@[simp] theorem nonceFailure_ok (b : Body) : (Result.ok b).nonceFailure = false := rfl
@[simp] theorem nonceFailure_stuck : Result.stuck.nonceFailure = false := rfl
@[simp] theorem nonceFailure_noNonce : (Result.err .noNonce).nonceFailure = true := rfl
@[simp] theorem nonceFailure_fetch (e : Err) : (Result.err (.nonceFetch e)).nonceFailure = true := rfl

/-- The body list a result contributes to `okBodies`. -/
def Result.okList : Result → List Body
  | .ok b => [b]
  | _ => []

namespace LoopRun
variable {url : Nat} {bOk : Bool} {fuel i : Nat} {P : List PostTx} {A : List Answer} {r : Result}

theorem length_le (h : LoopRun url bOk fuel i P A r) : P.length ≤ fuel := by
  induction h <;> simp <;> omega

theorem answers_le (h : LoopRun url bOk fuel i P A r) : A.length ≤ P.length := by
  induction h <;> simp <;> omega

theorem answers_eq (h : LoopRun url bOk fuel i P A r) (hs : r ≠ .stuck) : A.length = P.length := by
  induction h <;> simp_all

theorem urls (h : LoopRun url bOk fuel i P A r) : ∀ p ∈ P, p.url = url := by
  induction h <;> simp_all

theorem rounds (h : LoopRun url bOk fuel i P A r) : P.map PostTx.round = List.range' i P.length := by
  induction h <;> simp_all [List.range'_succ]

/-- A started loop (`fuel ≥ 1`) either transmits or fails obtaining a nonce. -/
theorem started (h : LoopRun url bOk fuel i P A r) (hb : bOk = true) (hs : r ≠ .stuck) :
    1 ≤ fuel ↔ (1 ≤ P.length ∨ (P.length = 0 ∧ r.nonceFailure = true)) := by
  cases h <;> simp_all [Result.nonceFailure]

theorem retry_iff (h : LoopRun url bOk fuel i P A r) (hb : bOk = true) (hs : r ≠ .stuck) (k : Nat) :
    (k + 1 < P.length ∨ (P.length = k + 1 ∧ r.nonceFailure = true)) ↔
      ∃ a, A[k]? = some a ∧ a.verdict = .retry ∧ k + 1 < fuel := by
  induction h generalizing k with
  | exhausted i => simp
  | stuckFetch fuel i => simp
  | nonceFail fuel i r hr => simp
  | builderFail fuel i hf => simp_all
  | noAnswer fuel i n => exact absurd rfl hs
  | success fuel i n a hv _ _ =>
    cases k <;> simp [hv]
  | failed fuel i n a e hv h1 h2 _ =>
    cases k
    · simp only [List.length_cons, List.length_nil, Nat.lt_irrefl, false_or, List.getElem?_cons_zero,
        Option.some.injEq, exists_eq_left', hv]
      simp
      cases e <;> simp_all [Result.nonceFailure]
    · simp
  | again fuel i n a P A r hv hrun ih =>
    cases k with
    | zero =>
      have := started hrun hb hs
      simp only [List.length_cons, List.getElem?_cons_zero, Option.some.injEq, exists_eq_left', hv,
        true_and]
      cases hn : r.nonceFailure <;> simp [hn] at this ⊢ <;> first | omega | (cases P <;> simp_all <;> omega)
    | succ k =>
      have := ih hs k
      simp only [List.length_cons, List.getElem?_cons_succ, Nat.add_lt_add_iff_right,
        Nat.add_right_cancel_iff]
      exact this

theorem retry_only_if (h : LoopRun url bOk fuel i P A r) (k : Nat) (hk : k + 1 < P.length) :
    ∃ a, A[k]? = some a ∧ a.verdict = .retry ∧ k + 1 < fuel := by
  induction h generalizing k with
  | again fuel i n a P A r hv hrun ih =>
    cases k with
    | zero =>
      have := hrun.length_le
      simp only [List.length_cons] at hk
      exact ⟨a, by simp, hv, by omega⟩
    | succ k =>
      simp only [List.length_cons] at hk
      obtain ⟨x, h1, h2, h3⟩ := ih k (by omega)
      exact ⟨x, by simpa using h1, h2, by omega⟩
  | _ => simp at hk

theorem success_last (h : LoopRun url bOk fuel i P A r) (b : Body) (hr : r = .ok b) :
    ∃ a, A.getLast? = some a ∧ a.verdict = .success ∧ a.ok2xx = true ∧ a.delivered = true ∧
      a.body = b ∧ A.length = P.length := by
  induction h with
  | success fuel i n a hv h2 hd => simp_all
  | again fuel i n a P A r hv hrun ih =>
    obtain ⟨x, h1, h2⟩ := ih hr
    refine ⟨x, ?_, ?_⟩
    · rw [List.getLast?_cons]
      cases A with
      | nil => simp at h1
      | cons y ys => simp [h1]
    · simp [h2]
  | _ => simp_all

theorem last_word (h : LoopRun url bOk fuel i P A r) (k : Nat) (a : Answer) (hk : A[k]? = some a)
    (hv : a.verdict ≠ .retry) :
    P.length = k + 1 ∧ A.length = k + 1 ∧
      (a.verdict = .success → r = .ok a.body) ∧ (a.verdict = .fail → ∃ e, r = .err e) := by
  induction h generalizing k with
  | success fuel i n a' hv' h2 hd =>
    cases k <;> simp_all
  | failed fuel i n a' e hv' h1 h2 _ =>
    cases k <;> simp_all
  | again fuel i n a' P A r hv' hrun ih =>
    cases k with
    | zero => simp_all
    | succ k => simpa using ih k (by simpa using hk)
  | _ => simp at hk

theorem okBodies_eq (h : LoopRun url bOk fuel i P A r) :
    ((A.filter fun a => a.verdict == .success).map Answer.body) =
      r.okList := by
  induction h with
  | nonceFail fuel i r hr => cases r <;> simp_all [Result.okList]
  | again fuel i n a P A r hv hrun ih => simp [hv, ih]
  | _ => simp_all [Result.okList]

end LoopRun

/-! ## Exact number of transmissions -/

theorem postLoop_count (mode : NonceMode) (url : Nat) :
    ∀ (fuel i : Nat) (st : State),
      (mode = .take → st.nonce ≠ none ∧ ∀ a ∈ st.script.takeWhile Answer.isRetry, a.issued ≠ none) →
      (posts (postLoop mode true true url fuel i st).evs).length =
        min fuel (1 + (st.script.takeWhile Answer.isRetry).length) := by
  intro fuel
  induction fuel with
  | zero => intro i st _; simp [postLoop]
  | succ fuel ih =>
    intro i st h
    obtain ⟨nonce, script, nu⟩ := st
    cases script with
    | nil =>
      cases mode
      · obtain ⟨n, hn⟩ := Option.ne_none_iff_exists'.mp (h rfl).1
        simp only at hn
        subst hn
        simp [postLoop, round, prepNonce, transmit, pickNonce]
      · simp [postLoop, round, prepNonce, transmit, pickNonce]
    | cons a rest =>
      cases mode
      · obtain ⟨n, hn⟩ := Option.ne_none_iff_exists'.mp (h rfl).1
        simp only at hn
        subst hn
        rcases judge_verdict none a with ⟨hv, hj⟩ | ⟨hv, hj, -⟩ | ⟨hv, e, hj, -⟩
        · have hr : a.isRetry = true := by simp [Answer.isRetry, hv]
          have h2 := (h rfl).2
          simp only [List.takeWhile_cons, hr, if_true, List.mem_cons, forall_eq_or_imp] at h2
          have ih' := ih (i + 1) ⟨(judge none a).2, rest, nu⟩ (fun _ => ⟨by
            rw [judge_snd]; cases hi : a.issued <;> simp_all, h2.2⟩)
          simp [postLoop, round, prepNonce, transmit, pickNonce, hj, hr] at ih' ⊢
          omega
        · have hr : a.isRetry = false := by simp [Answer.isRetry, hv]
          simp [postLoop, round, prepNonce, transmit, pickNonce, hj, hr]
        · have hr : a.isRetry = false := by simp [Answer.isRetry, hv]
          simp [postLoop, round, prepNonce, transmit, pickNonce, hj, hr]
      · rcases judge_verdict nonce a with ⟨hv, hj⟩ | ⟨hv, hj, -⟩ | ⟨hv, e, hj, -⟩
        · have hr : a.isRetry = true := by simp [Answer.isRetry, hv]
          have ih' := ih (i + 1) ⟨(judge nonce a).2, rest, nu⟩ (fun hh => by cases hh)
          simp [postLoop, round, prepNonce, transmit, pickNonce, hj, hr] at ih' ⊢
          omega
        · have hr : a.isRetry = false := by simp [Answer.isRetry, hv]
          simp [postLoop, round, prepNonce, transmit, pickNonce, hj, hr]
        · have hr : a.isRetry = false := by simp [Answer.isRetry, hv]
          simp [postLoop, round, prepNonce, transmit, pickNonce, hj, hr]


/-! ## Exact state and events of `get` and of one transmission -/

theorem get_false (st : State) (u : Nat) : get st false u = ⟨.err .clientBuild, st, []⟩ := by
  simp [get]

theorem get_true (st : State) (u : Nat) :
    get st true u = getLoop Gen.DEFAULT_HTTP_MAX_REDIRECT u st := by
  simp [get]

theorem getLoop_nil (fuel u : Nat) (st : State) (h : st.script = []) :
    getLoop (fuel + 1) u st = ⟨.stuck, st, [.admit, .getSend u]⟩ := by
  simp [getLoop, h]

/-- One iteration of the loop of `get` on a non-empty script.  Whatever the answer, the iteration
leaves the nonce it issued (else the old one) and the same three events; it goes on with the next
iteration exactly for a delivered answer with an acceptable nonce header that is a redirection
with a usable `Location`. -/
theorem getLoop_cons (fuel u : Nat) (st : State) (a : Answer) (rest : List Answer)
    (h : st.script = a :: rest) :
    (∃ u' k, a.delivered = true ∧ a.nonce ≠ .invalid ∧ a.redir = .to u' k ∧
      getLoop (fuel + 1) u st =
        ⟨(getLoop fuel u' ⟨a.issued.or st.nonce, rest, st.nonceUrl⟩).res,
         (getLoop fuel u' ⟨a.issued.or st.nonce, rest, st.nonceUrl⟩).st,
         [.admit, .getSend u, .recvGet a] ++
           (getLoop fuel u' ⟨a.issued.or st.nonce, rest, st.nonceUrl⟩).evs⟩) ∨
    ((a.delivered = false ∨ a.nonce = .invalid ∨ ∀ u' k, a.redir ≠ .to u' k) ∧
      (getLoop (fuel + 1) u st).st = ⟨a.issued.or st.nonce, rest, st.nonceUrl⟩ ∧
      (getLoop (fuel + 1) u st).evs = [.admit, .getSend u, .recvGet a] ∧
      ∀ b, (getLoop (fuel + 1) u st).res = .ok b →
        a.delivered = true ∧ a.ok2xx = true ∧ a.redir = .no ∧ a.body = b) := by
  obtain ⟨d, o, hd, b, rd⟩ := a
  cases d <;> cases o <;> cases hd <;> cases b <;> cases rd <;>
    simp [getLoop, h, updateNonce, Answer.issued]

/-- `get` returns `Ok` only for a delivered 2xx answer that is not a followed redirection: the
last answer it received. -/
theorem getLoop_ok (fuel u : Nat) (st : State) (b : Body) (h : (getLoop fuel u st).res = .ok b) :
    ∃ a, (recvd (getLoop fuel u st).evs).getLast? = some a ∧ a.delivered = true ∧
      a.ok2xx = true ∧ a.redir = .no ∧ a.body = b := by
  induction fuel generalizing u st with
  | zero => simp [getLoop] at h
  | succ fuel ih =>
    cases hs : st.script with
    | nil => rw [getLoop_nil fuel u st hs] at h; cases h
    | cons a rest =>
      rcases getLoop_cons fuel u st a rest hs with ⟨u', k, -, -, -, he⟩ | ⟨-, -, he, hok⟩
      · rw [he] at h ⊢
        obtain ⟨a', h1, h2⟩ := ih u' _ h
        refine ⟨a', ?_, h2⟩
        simp only [recvd_append, List.getLast?_append, h1]
        simp
      · refine ⟨a, ?_, hok b h⟩
        rw [he]; simp

theorem get_ok (st : State) (c : Bool) (u : Nat) (b : Body) (h : (get st c u).res = .ok b) :
    ∃ a, (recvd (get st c u).evs).getLast? = some a ∧ a.delivered = true ∧ a.ok2xx = true ∧
      a.redir = .no ∧ a.body = b ∧ c = true := by
  cases c
  · simp [get] at h
  · rw [get_true] at h ⊢
    obtain ⟨a, h1, h2, h3, h4, h5⟩ := getLoop_ok _ _ _ _ h
    exact ⟨a, h1, h2, h3, h4, h5, rfl⟩

theorem transmit_cons (mode : NonceMode) (url i : Nat) (st st1 : State) (sent : Option Nat)
    (a : Answer) (rest : List Answer) (hp : pickNonce mode st = some (sent, st1))
    (h : st1.script = a :: rest) :
    (transmit mode true url i st).2.1 = ⟨a.issued.or st1.nonce, rest, st1.nonceUrl⟩ ∧
    ((transmit mode true url i st).2.2 = [.admit, .postSend url sent i, .recvPost a] ∨
     (transmit mode true url i st).2.2 = [.admit, .postSend url sent i, .recvPost a, .retryWait]) := by
  simp only [transmit, hp, h, if_true, judge_snd]
  split <;> simp

/-! ## No poll event inside `post` -/

theorem getLoop_pollWaits (fuel u : Nat) (st : State) : pollWaits (getLoop fuel u st).evs = 0 := by
  induction fuel generalizing u st with
  | zero => simp [getLoop]
  | succ fuel ih =>
    cases hs : st.script with
    | nil => rw [getLoop_nil fuel u st hs]; simp
    | cons a rest =>
      rcases getLoop_cons fuel u st a rest hs with ⟨u', k, -, -, -, he⟩ | ⟨-, -, he, -⟩
      · rw [he]; simp [ih]
      · rw [he]; simp

theorem get_pollWaits (st : State) (c : Bool) (u : Nat) : pollWaits (get st c u).evs = 0 := by
  cases c
  · simp [get]
  · rw [get_true]; exact getLoop_pollWaits _ _ _

theorem prepNonce_pollWaits (mode : NonceMode) (c : Bool) (st : State) :
    pollWaits (prepNonce mode c st).2.2 = 0 := by
  simp only [prepNonce]
  split
  · split <;> simp [newNonce, get_pollWaits]
  · simp

theorem transmit_pollWaits (mode : NonceMode) (b : Bool) (url i : Nat) (st : State) :
    pollWaits (transmit mode b url i st).2.2 = 0 := by
  rcases transmit_cases mode b url i st with ⟨he, -⟩ | ⟨n, he, -⟩ | ⟨n, a, -, -, he⟩ |
    ⟨n, a, -, -, -, -, he⟩ | ⟨n, a, e, -, -, -, -, -, he⟩ <;> simp [he]

theorem postLoop_pollWaits (mode : NonceMode) (c b : Bool) (url : Nat) :
    ∀ (fuel i : Nat) (st : State), pollWaits (postLoop mode c b url fuel i st).evs = 0 := by
  intro fuel
  induction fuel with
  | zero => intro i st; simp [postLoop]
  | succ fuel ih =>
    intro i st
    simp only [postLoop, round]
    have hp := prepNonce_pollWaits mode c st
    generalize prepNonce mode c st = pn at hp
    obtain ⟨f, st1, ev1⟩ := pn
    cases f with
    | some r => simpa using hp
    | none =>
      simp only
      have ht := transmit_pollWaits mode b url i st1
      generalize transmit mode b url i st1 = t at ht
      obtain ⟨o, st2, ev2⟩ := t
      cases o with
      | done r => simp_all
      | again => simp_all

theorem post_pollWaits (N : Nat) (mode : NonceMode) (st : State) (c b : Bool) (url : Nat) :
    pollWaits (post N mode st c b url).evs = 0 := by
  simp only [post]
  split
  · split
    · split <;> simp [newNonce, get_pollWaits, postLoop_pollWaits]
    · exact postLoop_pollWaits _ _ _ _ _ _ _
  · simp

theorem post_length_le (N : Nat) (mode : NonceMode) (st : State) (c b : Bool) (url : Nat) :
    (posts (post N mode st c b url).evs).length ≤ N := by
  cases c
  · simp [post_clientFail]
  · exact (post_run N mode st b url).length_le

theorem post_okBodies (N : Nat) (mode : NonceMode) (st : State) (c b : Bool) (url : Nat) :
    okBodies (post N mode st c b url).evs = (post N mode st c b url).res.okList := by
  cases c
  · simp [post_clientFail, okBodies, Result.okList]
  · exact (post_run N mode st b url).okBodies_eq

/-! ## Polling -/

theorem pollLoop_bounds (N : Nat) (mode : NonceMode) (c b : Bool) (url : Nat) (dec mat : Body → Bool) :
    ∀ (fuel i : Nat) (st : State),
      pollWaits (pollLoop N mode c b url dec mat fuel i st).evs ≤ fuel ∧
      (posts (pollLoop N mode c b url dec mat fuel i st).evs).length ≤ fuel * N := by
  intro fuel
  induction fuel with
  | zero => intro i st; simp [pollLoop]
  | succ fuel ih =>
    intro i st
    have h1 := post_pollWaits N mode st c b url
    have h2 := post_length_le N mode st c b url
    simp only [pollLoop]
    rw [Nat.succ_mul]
    split
    · split
      · split
        · simp [h1]; omega
        · have := ih (i + 1) (post N mode st c b url).st
          simp [h1]; omega
      · simp [h1]; omega
    · simp [h1]; omega

@[simp] theorem okBodies_pollWait (i : Nat) (es : List Ev) : okBodies (.pollWait i :: es) = okBodies es := by
  simp [okBodies]

/-- Shape of a poll: the bodies returned by its `post` calls are some that decode and do not match
(`pre`), followed by nothing (the poll failed or ran out of rounds) or by one last body that
matches (success) or does not decode (failure). -/
theorem pollLoop_shape (N : Nat) (mode : NonceMode) (c b : Bool) (url : Nat) (dec mat : Body → Bool) :
    ∀ (fuel i : Nat) (st : State),
      ∃ pre, (∀ x ∈ pre, dec x = true ∧ mat x = false) ∧
        ((∃ bd, (pollLoop N mode c b url dec mat fuel i st).res = .ok bd ∧
            okBodies (pollLoop N mode c b url dec mat fuel i st).evs = pre ++ [bd] ∧
            dec bd = true ∧ mat bd = true ∧
            pollWaits (pollLoop N mode c b url dec mat fuel i st).evs = pre.length + 1) ∨
         (∃ bd, (pollLoop N mode c b url dec mat fuel i st).res = .err .pollDecode ∧
            okBodies (pollLoop N mode c b url dec mat fuel i st).evs = pre ++ [bd] ∧
            dec bd = false) ∨
         ((∀ bd, (pollLoop N mode c b url dec mat fuel i st).res ≠ .ok bd) ∧
            okBodies (pollLoop N mode c b url dec mat fuel i st).evs = pre)) := by
  intro fuel
  induction fuel with
  | zero => intro i st; exact ⟨[], by simp, Or.inr (Or.inr (by simp [pollLoop, okBodies]))⟩
  | succ fuel ih =>
    intro i st
    have h1 := post_pollWaits N mode st c b url
    have h2 := post_okBodies N mode st c b url
    simp only [pollLoop]
    split
    · rename_i bd hres
      rw [hres] at h2
      simp only [Result.okList] at h2
      split
      · rename_i hdec
        split
        · rename_i hmat
          exact ⟨[], by simp, Or.inl ⟨bd, rfl, by simp [h2], hdec, hmat, by simp [h1]⟩⟩
        · rename_i hmat
          obtain ⟨pre, hpre, hsh⟩ := ih (i + 1) (post N mode st c b url).st
          refine ⟨bd :: pre, ?_, ?_⟩
          · intro x hx
            rcases List.mem_cons.mp hx with rfl | hx
            · exact ⟨hdec, by simpa using hmat⟩
            · exact hpre x hx
          · rcases hsh with ⟨bd', e1, e2, e3, e4, e5⟩ | ⟨bd', e1, e2, e3⟩ | ⟨e1, e2⟩
            · exact Or.inl ⟨bd', e1, by simp [okBodies_append, h2, e2], e3, e4, by simp [h1, e5]⟩
            · exact Or.inr (Or.inl ⟨bd', e1, by simp [okBodies_append, h2, e2], e3⟩)
            · exact Or.inr (Or.inr ⟨e1, by simp [okBodies_append, h2, e2]⟩)
      · rename_i hdec
        exact ⟨[], by simp, Or.inr (Or.inl ⟨bd, rfl, by simp [h2], by simpa using hdec⟩)⟩
    · rename_i r hres
      refine ⟨[], by simp, Or.inr (Or.inr ⟨?_, ?_⟩)⟩
      · intro bd hbd
        exact hres bd hbd
      · cases hr : (post N mode st c b url).res with
        | ok bd => exact absurd hr (hres bd)
        | err e => rw [hr] at h2; simpa [Result.okList] using h2
        | stuck => rw [hr] at h2; simpa [Result.okList] using h2

/-! ## Limiter call sites: trace lemmas -/

theorem limitedAux_mono (es : List Ev) (h : limitedAux false es = true) (p : Bool) :
    limitedAux p es = true := by
  cases es with
  | nil => rfl
  | cons e es => cases e <;> simp_all [limitedAux]

theorem limitedAux_append (e1 e2 : List Ev) (p : Bool) (h1 : limitedAux p e1 = true)
    (h2 : limitedAux false e2 = true) : limitedAux p (e1 ++ e2) = true := by
  induction e1 generalizing p with
  | nil => exact limitedAux_mono e2 h2 p
  | cons e es ih =>
    cases e <;> simp_all [limitedAux]

/-- What `limited` means: the event right before any send is an `admit`. -/
theorem limitedAux_spec (evs : List Ev) (p : Bool) (h : limitedAux p evs = true)
    (pre suf : List Ev) (e : Ev) (he : e.isSend = true) (hsplit : evs = pre ++ e :: suf) :
    (pre = [] ∧ p = true) ∨ ∃ pre', pre = pre' ++ [.admit] := by
  induction evs generalizing p pre with
  | nil => simp at hsplit
  | cons x xs ih =>
    cases pre with
    | nil =>
      simp only [List.nil_append, List.cons.injEq] at hsplit
      obtain ⟨rfl, rfl⟩ := hsplit
      cases x <;> simp_all [limitedAux, Ev.isSend]
    | cons y ys =>
      simp only [List.cons_append, List.cons.injEq] at hsplit
      obtain ⟨rfl, rfl⟩ := hsplit
      right
      have step : ∃ q, limitedAux q (ys ++ e :: suf) = true ∧ (q = true → x = .admit) := by
        cases x <;> simp_all [limitedAux]
      obtain ⟨q, hq, hqa⟩ := step
      rcases ih q hq ys rfl with ⟨rfl, rfl⟩ | ⟨pre', rfl⟩
      · exact ⟨[], by simp [hqa rfl]⟩
      · exact ⟨x :: pre', by simp⟩

/-! ## Nonce automaton: trace lemmas -/

section walkrules
variable (mode : NonceMode) (cur : Option Nat) (es : List Ev)
@[simp] theorem walk_nil : walk mode cur [] = some cur := by simp [walk]
@[simp] theorem walk_admit : walk mode cur (.admit :: es) = walk mode cur es := by simp [walk]
@[simp] theorem walk_getSend (u) : walk mode cur (.getSend u :: es) = walk mode cur es := by simp [walk]
@[simp] theorem walk_retryWait : walk mode cur (.retryWait :: es) = walk mode cur es := by simp [walk]
@[simp] theorem walk_pollWait (i) : walk mode cur (.pollWait i :: es) = walk mode cur es := by simp [walk]
@[simp] theorem walk_recvGet (a : Answer) :
    walk mode cur (.recvGet a :: es) = walk mode (a.issued.or cur) es := by simp [walk]
@[simp] theorem walk_recvPost (a : Answer) :
    walk mode cur (.recvPost a :: es) = walk mode (a.issued.or cur) es := by simp [walk]
theorem walk_postSend_take (u r) (n : Option Nat) :
    walk .take cur (.postSend u n r :: es) = if n = cur ∧ n ≠ none then walk .take none es else none := by
  simp [walk]
theorem walk_postSend_clone (u r) (n : Option Nat) :
    walk .cloneOld cur (.postSend u n r :: es) = if n = cur then walk .cloneOld cur es else none := by
  simp [walk]
end walkrules

theorem walk_append (mode : NonceMode) (e1 e2 : List Ev) (cur : Option Nat) :
    walk mode cur (e1 ++ e2) = (walk mode cur e1).bind fun c => walk mode c e2 := by
  induction e1 generalizing cur with
  | nil => simp [walk]
  | cons e es ih =>
    cases e <;> simp only [List.cons_append, walk, ih]
    cases mode <;> simp only <;> split <;> simp

/-- The stored nonce `st.nonce` agrees with the automaton's `cur`; the current code may in
addition have dropped it (a `take()` whose request was not sent, e.g. the builder failed). -/
def Inv (mode : NonceMode) (cur : Option Nat) (st : State) : Prop :=
  st.nonce = cur ∨ (mode = .take ∧ st.nonce = none)

/-- Everything the trace theorems need about one piece of the model, closed under sequencing. -/
structure Good (mode : NonceMode) (st st' : State) (evs : List Ev) : Prop where
  script : recvd evs ++ st'.script = st.script
  url : st'.nonceUrl = st.nonceUrl
  lim : limitedAux false evs = true
  walk : ∀ cur, Inv mode cur st → ∃ c', walk mode cur evs = some c' ∧ Inv mode c' st'

theorem Good.refl (mode : NonceMode) (st : State) : Good mode st st [] :=
  ⟨by simp, rfl, rfl, fun cur h => ⟨cur, rfl, h⟩⟩

theorem Good.trans {mode : NonceMode} {st st1 st2 : State} {e1 e2 : List Ev}
    (h1 : Good mode st st1 e1) (h2 : Good mode st1 st2 e2) : Good mode st st2 (e1 ++ e2) := by
  refine ⟨?_, ?_, ?_, ?_⟩
  · rw [recvd_append, List.append_assoc, h2.script, h1.script]
  · rw [h2.url, h1.url]
  · exact limitedAux_append _ _ _ h1.lim h2.lim
  · intro cur hc
    obtain ⟨c1, hw1, hi1⟩ := h1.walk cur hc
    obtain ⟨c2, hw2, hi2⟩ := h2.walk c1 hi1
    exact ⟨c2, by simp [walk_append, hw1, hw2], hi2⟩

/-- One block `admit, getSend u, recvGet a` of `get`. -/
theorem getBlock_good (mode : NonceMode) (st : State) (u : Nat) (a : Answer) (rest : List Answer)
    (hs : st.script = a :: rest) :
    Good mode st ⟨a.issued.or st.nonce, rest, st.nonceUrl⟩ [.admit, .getSend u, .recvGet a] := by
  refine ⟨by simp [hs], rfl, rfl, fun cur h => ⟨a.issued.or cur, rfl, ?_⟩⟩
  rcases h with h | ⟨hm, h⟩
  · left; simp [h]
  · cases hi : a.issued with
    | none => right; exact ⟨hm, by simp [h]⟩
    | some n => left; simp

/-- Every iteration of the redirect loop passes the limiter before its request, consumes one
answer, and keeps the nonce discipline. -/
theorem getLoop_good (mode : NonceMode) (fuel u : Nat) (st : State) :
    Good mode st (getLoop fuel u st).st (getLoop fuel u st).evs := by
  induction fuel generalizing u st with
  | zero => simp only [getLoop]; exact Good.refl _ _
  | succ fuel ih =>
    cases hs : st.script with
    | nil =>
      rw [getLoop_nil fuel u st hs]
      exact ⟨by simp [hs], rfl, rfl, fun cur h => ⟨cur, rfl, h⟩⟩
    | cons a rest =>
      have hb := getBlock_good mode st u a rest hs
      rcases getLoop_cons fuel u st a rest hs with ⟨u', k, -, -, -, he⟩ | ⟨-, h1, h2, -⟩
      · rw [he]
        exact hb.trans (ih u' _)
      · rw [h1, h2]; exact hb

theorem get_good (mode : NonceMode) (st : State) (c : Bool) (u : Nat) :
    Good mode st (get st c u).st (get st c u).evs := by
  cases c
  · rw [get_false]; exact Good.refl _ _
  · rw [get_true]; exact getLoop_good _ _ _ _

theorem newNonce_good (mode : NonceMode) (st : State) (c : Bool) :
    Good mode st (newNonce st c).st (newNonce st c).evs := by
  have h := get_good mode st c st.nonceUrl
  refine ⟨?_, h.url, ?_, ?_⟩
  · simpa [newNonce] using h.script
  · simp only [newNonce, limitedAux]; exact limitedAux_mono _ h.lim true
  · intro cur hc; simpa [newNonce] using h.walk cur hc

theorem prepNonce_good (mode : NonceMode) (c : Bool) (st : State) :
    Good mode st (prepNonce mode c st).2.1 (prepNonce mode c st).2.2 := by
  simp only [prepNonce]
  split
  · split <;> exact newNonce_good _ _ _
  · exact Good.refl _ _

theorem transmit_good (mode : NonceMode) (b : Bool) (url i : Nat) (st : State) :
    Good mode st (transmit mode b url i st).2.1 (transmit mode b url i st).2.2 := by
  cases hp : pickNonce mode st with
  | none =>
    simp only [transmit, hp]
    exact Good.refl _ _
  | some p =>
    obtain ⟨sent, st1⟩ := p
    -- facts about the pick
    have hpick : st1.script = st.script ∧ st1.nonceUrl = st.nonceUrl ∧
        (∀ cur, Inv mode cur st → ∃ c1, walk mode cur [.postSend url sent i] = some c1 ∧
          st1.nonce = c1) := by
      cases mode
      · simp only [pickNonce] at hp
        split at hp
        · simp at hp
        · rename_i n hn
          simp only [Option.some.injEq, Prod.mk.injEq] at hp
          obtain ⟨rfl, rfl⟩ := hp
          refine ⟨rfl, rfl, fun cur hc => ?_⟩
          rcases hc with hc | ⟨-, hc⟩
          · refine ⟨none, ?_, rfl⟩
            simp [walk, ← hc, hn]
          · simp [hn] at hc
      · simp only [pickNonce, Option.some.injEq, Prod.mk.injEq] at hp
        obtain ⟨rfl, rfl⟩ := hp
        refine ⟨rfl, rfl, fun cur hc => ?_⟩
        rcases hc with hc | ⟨hm, -⟩
        · exact ⟨cur, by simp [walk, hc], hc⟩
        · cases hm
    obtain ⟨hscr, hurl, hwalk⟩ := hpick
    cases b
    · simp only [transmit, hp, Bool.false_eq_true, if_false]
      refine ⟨by simp [hscr], hurl, rfl, fun cur hc => ⟨cur, rfl, ?_⟩⟩
      -- the nonce may have been dropped (mode take) or is unchanged (mode cloneOld)
      cases mode
      · right
        simp only [pickNonce] at hp
        split at hp
        · simp at hp
        · simp only [Option.some.injEq, Prod.mk.injEq] at hp
          exact ⟨rfl, by rw [← hp.2]⟩
      · simp only [pickNonce, Option.some.injEq, Prod.mk.injEq] at hp
        rw [← hp.2]; exact hc
    · cases hs : st1.script with
      | nil =>
        simp only [transmit, hp, hs, if_true]
        refine ⟨by simp [hs, ← hscr], hurl, rfl, fun cur hc => ?_⟩
        obtain ⟨c1, hw, hn⟩ := hwalk cur hc
        refine ⟨c1, ?_, Or.inl hn⟩
        rw [walk_admit]; exact hw
      | cons a rest =>
        obtain ⟨h1, h2⟩ := transmit_cons mode url i st st1 sent a rest hp hs
        rw [h1]
        have hwk : ∀ (tail : List Ev), (∀ c, walk mode c tail = some c) → ∀ cur, Inv mode cur st →
            ∃ c', walk mode cur ([.admit, .postSend url sent i, .recvPost a] ++ tail) = some c' ∧
              Inv mode c' ⟨a.issued.or st1.nonce, rest, st1.nonceUrl⟩ := by
          intro tail htail cur hc
          obtain ⟨c1, hw, hn⟩ := hwalk cur hc
          refine ⟨a.issued.or c1, ?_, Or.inl (by simp [hn])⟩
          show walk mode cur (.admit :: ([.postSend url sent i] ++ (.recvPost a :: tail))) = _
          rw [walk_admit, walk_append, hw]
          simp [htail]
        rcases h2 with h2 | h2 <;> rw [h2]
        · refine ⟨by simp [← hscr, hs], hurl, rfl, ?_⟩
          simpa using hwk [] (fun c => rfl)
        · refine ⟨by simp [← hscr, hs], hurl, rfl, ?_⟩
          simpa using hwk [.retryWait] (fun c => rfl)

theorem round_good (mode : NonceMode) (c b : Bool) (url i : Nat) (st : State) :
    Good mode st (round mode c b url i st).2.1 (round mode c b url i st).2.2 := by
  simp only [round]
  have hp := prepNonce_good mode c st
  generalize prepNonce mode c st = pn at hp
  obtain ⟨f, st1, ev1⟩ := pn
  cases f with
  | some r => exact hp
  | none => exact hp.trans (transmit_good mode b url i st1)

theorem postLoop_good (mode : NonceMode) (c b : Bool) (url : Nat) :
    ∀ (fuel i : Nat) (st : State),
      Good mode st (postLoop mode c b url fuel i st).st (postLoop mode c b url fuel i st).evs := by
  intro fuel
  induction fuel with
  | zero => intro i st; exact Good.refl _ _
  | succ fuel ih =>
    intro i st
    simp only [postLoop]
    have hr := round_good mode c b url i st
    generalize round mode c b url i st = rd at hr
    obtain ⟨o, st1, ev1⟩ := rd
    cases o with
    | done r => exact hr
    | again => exact hr.trans (ih (i + 1) st1)

theorem post_good (N : Nat) (mode : NonceMode) (st : State) (c b : Bool) (url : Nat) :
    Good mode st (post N mode st c b url).st (post N mode st c b url).evs := by
  simp only [post]
  split
  · split
    · split
      · exact newNonce_good _ _ _
      · exact (newNonce_good _ _ _).trans (postLoop_good _ _ _ _ _ _ _)
    · exact postLoop_good _ _ _ _ _ _ _
  · exact Good.refl _ _

theorem Good.cons_inert {mode : NonceMode} {st st' : State} {evs : List Ev} (e : Ev)
    (he : e = .retryWait ∨ ∃ i, e = .pollWait i) (h : Good mode st st' evs) :
    Good mode st st' (e :: evs) := by
  have : Good mode st st [e] := by
    rcases he with rfl | ⟨i, rfl⟩ <;>
      exact ⟨by simp, rfl, rfl, fun cur hc => ⟨cur, rfl, hc⟩⟩
  exact this.trans h

theorem pollLoop_good (N : Nat) (mode : NonceMode) (c b : Bool) (url : Nat) (dec mat : Body → Bool) :
    ∀ (fuel i : Nat) (st : State),
      Good mode st (pollLoop N mode c b url dec mat fuel i st).st
        (pollLoop N mode c b url dec mat fuel i st).evs := by
  intro fuel
  induction fuel with
  | zero => intro i st; exact Good.refl _ _
  | succ fuel ih =>
    intro i st
    have hp := post_good N mode st c b url
    simp only [pollLoop]
    split
    · split
      · split
        · exact hp.cons_inert _ (Or.inr ⟨i, rfl⟩)
        · exact (hp.trans (ih (i + 1) _)).cons_inert _ (Or.inr ⟨i, rfl⟩)
      · exact hp.cons_inert _ (Or.inr ⟨i, rfl⟩)
    · exact hp.cons_inert _ (Or.inr ⟨i, rfl⟩)

theorem runCall_good (K N : Nat) (mode : NonceMode) (st : State) (call : Call) :
    Good mode st (runCall K N mode st call).st (runCall K N mode st call).evs := by
  cases call with
  | get c u => exact get_good _ _ _ _
  | post c b u => exact post_good _ _ _ _ _ _
  | poll c b u d m => exact pollLoop_good _ _ _ _ _ _ _ _ _ _

theorem runCalls_good (K N : Nat) (mode : NonceMode) :
    ∀ (calls : List Call) (st : State),
      Good mode st (runCalls K N mode st calls).2.1 (runCalls K N mode st calls).2.2 := by
  intro calls
  induction calls with
  | nil => intro st; exact Good.refl _ _
  | cons c cs ih =>
    intro st
    simp only [runCalls]
    exact (runCall_good K N mode st c).trans (ih _)

/-! ## What the automaton implies about a trace -/

section readers2
variable (es : List Ev)
@[simp] theorem issuedBy_nil : issuedBy [] = [] := rfl
@[simp] theorem issuedBy_admit : issuedBy (.admit :: es) = issuedBy es := rfl
@[simp] theorem issuedBy_getSend (u) : issuedBy (.getSend u :: es) = issuedBy es := rfl
@[simp] theorem issuedBy_postSend (u n r) : issuedBy (.postSend u n r :: es) = issuedBy es := rfl
@[simp] theorem issuedBy_retryWait : issuedBy (.retryWait :: es) = issuedBy es := rfl
@[simp] theorem issuedBy_pollWait (i) : issuedBy (.pollWait i :: es) = issuedBy es := rfl
@[simp] theorem issuedBy_recvGet (a : Answer) :
    issuedBy (.recvGet a :: es) = a.issued.toList ++ issuedBy es := by
  cases h : a.issued <;> simp [issuedBy, h]
@[simp] theorem issuedBy_recvPost (a : Answer) :
    issuedBy (.recvPost a :: es) = a.issued.toList ++ issuedBy es := by
  cases h : a.issued <;> simp [issuedBy, h]
@[simp] theorem postNonces_nil : postNonces [] = [] := rfl
@[simp] theorem postNonces_admit : postNonces (.admit :: es) = postNonces es := rfl
@[simp] theorem postNonces_getSend (u) : postNonces (.getSend u :: es) = postNonces es := rfl
@[simp] theorem postNonces_recvGet (a) : postNonces (.recvGet a :: es) = postNonces es := rfl
@[simp] theorem postNonces_recvPost (a) : postNonces (.recvPost a :: es) = postNonces es := rfl
@[simp] theorem postNonces_retryWait : postNonces (.retryWait :: es) = postNonces es := rfl
@[simp] theorem postNonces_pollWait (i) : postNonces (.pollWait i :: es) = postNonces es := rfl
@[simp] theorem postNonces_postSend (u r) (n : Option Nat) :
    postNonces (.postSend u n r :: es) = n.toList ++ postNonces es := by
  cases n <;> simp [postNonces]
end readers2

/-- Mode `take`: the nonces carried by the POSTs, in order, are a sub-sequence of the nonces
available (the initial one, then those issued by the answers, in order). -/
theorem walk_take_sublist (evs : List Ev) (cur c' : Option Nat) (h : walk .take cur evs = some c') :
    (postNonces evs).Sublist (cur.toList ++ issuedBy evs) := by
  induction evs generalizing cur with
  | nil => simp
  | cons e es ih =>
    cases e with
    | postSend u n r =>
      rw [walk_postSend_take] at h
      split at h
      · rename_i hn
        obtain ⟨rfl, hne⟩ := hn
        have := ih none h
        cases n with
        | none => exact absurd rfl hne
        | some m => simpa using this
      · simp at h
    | recvGet a =>
      rw [walk_recvGet] at h
      have := ih _ h
      cases hi : a.issued with
      | none => simpa [hi] using this
      | some k =>
        simp only [hi] at this
        simpa [hi] using this.trans (List.sublist_append_right _ _)
    | recvPost a =>
      rw [walk_recvPost] at h
      have := ih _ h
      cases hi : a.issued with
      | none => simpa [hi] using this
      | some k =>
        simp only [hi] at this
        simpa [hi] using this.trans (List.sublist_append_right _ _)
    | admit => simpa using ih cur (by simpa using h)
    | getSend u => simpa using ih cur (by simpa using h)
    | retryWait => simpa using ih cur (by simpa using h)
    | pollWait i => simpa using ih cur (by simpa using h)

/-- Mode `take`: no POST carries the empty nonce. -/
theorem walk_take_some (evs : List Ev) (cur c' : Option Nat) (h : walk .take cur evs = some c') :
    ∀ p ∈ posts evs, p.nonce ≠ none := by
  induction evs generalizing cur with
  | nil => simp
  | cons e es ih =>
    cases e with
    | postSend u n r =>
      rw [walk_postSend_take] at h
      split at h
      · rename_i hn
        intro p hp
        simp only [posts_postSend, List.mem_cons] at hp
        rcases hp with rfl | hp
        · exact hn.2
        · exact ih none h p hp
      · simp at h
    | recvGet a => simpa using ih _ (by simpa using h)
    | recvPost a => simpa using ih _ (by simpa using h)
    | admit => simpa using ih cur (by simpa using h)
    | getSend u => simpa using ih cur (by simpa using h)
    | retryWait => simpa using ih cur (by simpa using h)
    | pollWait i => simpa using ih cur (by simpa using h)

/-- Both modes: a POST carries the newest nonce handed out before it.  `L` follows `lastIssued`,
`c` the automaton; they agree except that mode `take` may have used `c` up. -/
theorem walk_newest (mode : NonceMode) (evs : List Ev) (c L c' : Option Nat)
    (hcl : c = L ∨ (mode = .take ∧ c = none)) (h : walk mode c evs = some c')
    (pre suf : List Ev) (u r : Nat) (n : Option Nat) (hsplit : evs = pre ++ .postSend u n r :: suf) :
    n = lastIssued L pre := by
  induction evs generalizing c L pre with
  | nil => simp at hsplit
  | cons e es ih =>
    cases pre with
    | nil =>
      simp only [List.nil_append, List.cons.injEq] at hsplit
      obtain ⟨rfl, rfl⟩ := hsplit
      simp only [lastIssued]
      cases mode
      · rw [walk_postSend_take] at h
        split at h
        · rename_i hn
          rcases hcl with rfl | ⟨-, rfl⟩
          · exact hn.1
          · exact absurd hn.1 hn.2
        · simp at h
      · rw [walk_postSend_clone] at h
        split at h
        · rename_i hn
          rcases hcl with rfl | ⟨hm, -⟩
          · exact hn
          · cases hm
        · simp at h
    | cons y ys =>
      simp only [List.cons_append, List.cons.injEq] at hsplit
      obtain ⟨rfl, rfl⟩ := hsplit
      cases e with
      | postSend u' n' r' =>
        simp only [lastIssued]
        cases mode
        · rw [walk_postSend_take] at h
          split at h
          · exact ih none L (Or.inr ⟨rfl, rfl⟩) h ys rfl
          · simp at h
        · rw [walk_postSend_clone] at h
          split at h
          · exact ih c L hcl h ys rfl
          · simp at h
      | recvGet a =>
        simp only [lastIssued]
        rw [walk_recvGet] at h
        refine ih _ _ ?_ h ys rfl
        rcases hcl with rfl | ⟨hm, rfl⟩
        · left; rfl
        · cases a.issued <;> simp [hm]
      | recvPost a =>
        simp only [lastIssued]
        rw [walk_recvPost] at h
        refine ih _ _ ?_ h ys rfl
        rcases hcl with rfl | ⟨hm, rfl⟩
        · left; rfl
        · cases a.issued <;> simp [hm]
      | admit => simp only [lastIssued]; exact ih c L hcl (by simpa using h) ys rfl
      | getSend u' => simp only [lastIssued]; exact ih c L hcl (by simpa using h) ys rfl
      | retryWait => simp only [lastIssued]; exact ih c L hcl (by simpa using h) ys rfl
      | pollWait i => simp only [lastIssued]; exact ih c L hcl (by simpa using h) ys rfl

/-- The newest nonce is the initial one or one that an answer of the trace issued. -/
theorem lastIssued_mem (pre : List Ev) (cur : Option Nat) (m : Nat) (h : lastIssued cur pre = some m) :
    m ∈ cur.toList ++ issuedBy pre := by
  induction pre generalizing cur with
  | nil => simpa [lastIssued] using h
  | cons e es ih =>
    cases e with
    | recvGet a =>
      simp only [lastIssued] at h
      have := ih _ h
      cases hi : a.issued <;> simp_all
    | recvPost a =>
      simp only [lastIssued] at h
      have := ih _ h
      cases hi : a.issued <;> simp_all
    | admit => simpa [lastIssued] using ih cur (by simpa [lastIssued] using h)
    | getSend u => simpa [lastIssued] using ih cur (by simpa [lastIssued] using h)
    | postSend u n r => simpa [lastIssued] using ih cur (by simpa [lastIssued] using h)
    | retryWait => simpa [lastIssued] using ih cur (by simpa [lastIssued] using h)
    | pollWait i => simpa [lastIssued] using ih cur (by simpa [lastIssued] using h)

/-- Mode `take`: after a POST the automaton holds no nonce until an answer issues one. -/
theorem walk_take_consumed (suf : List Ev) (c' : Option Nat) (h : walk .take none suf = some c')
    (hi : issuedBy suf = []) : c' = none := by
  induction suf with
  | nil => simpa using h.symm
  | cons e es ih =>
    cases e with
    | postSend u n r =>
      rw [walk_postSend_take] at h
      split at h
      · rename_i hn; exact absurd hn.1 hn.2
      · simp at h
    | recvGet a =>
      simp only [issuedBy_recvGet, List.append_eq_nil_iff] at hi
      have ha : a.issued = none := by cases h' : a.issued <;> simp_all
      rw [walk_recvGet, ha] at h
      exact ih (by simpa using h) hi.2
    | recvPost a =>
      simp only [issuedBy_recvPost, List.append_eq_nil_iff] at hi
      have ha : a.issued = none := by cases h' : a.issued <;> simp_all
      rw [walk_recvPost, ha] at h
      exact ih (by simpa using h) hi.2
    | admit => exact ih (by simpa using h) (by simpa using hi)
    | getSend u => exact ih (by simpa using h) (by simpa using hi)
    | retryWait => exact ih (by simpa using h) (by simpa using hi)
    | pollWait i => exact ih (by simpa using h) (by simpa using hi)

/-! ## Small list fact used for polls -/

theorem mem_of_split_concat {α : Type} (pre p suf : List α) (x y : α)
    (h : pre ++ [y] = p ++ x :: suf) (hs : suf ≠ []) : x ∈ pre := by
  have h1 : (pre ++ [y]).dropLast = pre := by simp
  have h2 : (p ++ x :: suf).dropLast = p ++ x :: suf.dropLast := by
    rw [List.dropLast_append_of_ne_nil (by simp), List.dropLast_cons_of_ne_nil hs]
  rw [h, h2] at h1
  rw [← h1]; simp

/-- Consequences of `pollLoop_shape` in the form `Props.C08.poll_stops_at_first_match` states. -/
theorem pollLoop_first_match (N : Nat) (mode : NonceMode) (c b : Bool) (url : Nat)
    (dec mat : Body → Bool) (fuel i : Nat) (st : State) :
    (∀ pre x suf, okBodies (pollLoop N mode c b url dec mat fuel i st).evs = pre ++ x :: suf →
      suf ≠ [] → dec x = true ∧ mat x = false) ∧
    (∀ bd, (pollLoop N mode c b url dec mat fuel i st).res = .ok bd →
      ∃ pre, okBodies (pollLoop N mode c b url dec mat fuel i st).evs = pre ++ [bd] ∧
        dec bd = true ∧ mat bd = true ∧
        pollWaits (pollLoop N mode c b url dec mat fuel i st).evs = pre.length + 1) := by
  obtain ⟨pre, hpre, hsh⟩ := pollLoop_shape N mode c b url dec mat fuel i st
  constructor
  · intro p x suf hsplit hsuf
    apply hpre
    rcases hsh with ⟨bd, -, e2, -⟩ | ⟨bd, -, e2, -⟩ | ⟨-, e2⟩
    · exact mem_of_split_concat pre p suf x bd (e2.symm.trans hsplit) hsuf
    · exact mem_of_split_concat pre p suf x bd (e2.symm.trans hsplit) hsuf
    · rw [← e2, hsplit]; simp
  · intro bd hres
    rcases hsh with ⟨bd', e1, e2, e3, e4, e5⟩ | ⟨bd', e1, -⟩ | ⟨e1, -⟩
    · rw [e1] at hres
      cases hres
      exact ⟨pre, e2, e3, e4, e5⟩
    · rw [e1] at hres; cases hres
    · exact absurd hres (e1 bd)

/-! ## Mode `take`: no nonce, no POST -/

/-- General form: when the nonce fetch (the `newNonce` GET with whatever redirections it is led
through) fails, or ends without a stored nonce, nothing is POSTed. -/
theorem post_take_fetch_fails_gen (N : Nat) (st : State) (c b : Bool) (url : Nat)
    (hn : st.nonce = none)
    (hf : (newNonce st c).res.isOk = false ∨ (newNonce st c).st.nonce = none) :
    posts (post N .take st c b url).evs = [] ∧ (post N .take st c b url).res.isOk = false := by
  cases c
  · simp [post, Result.isOk]
  · cases N with
    | zero => simp [post, postLoop, Result.isOk]
    | succ N =>
      have hp := (newNonce_posts st true).1
      simp only [post, if_true, postLoop, round, prepNonce, hn]
      cases hr : (newNonce st true).res with
      | ok bd =>
        have h2 : (newNonce st true).st.nonce = none := by
          rcases hf with h | h
          · simp [hr, Result.isOk] at h
          · exact h
        simp [transmit, pickNonce, h2, hp, Result.isOk]
      | err e => simp [hp, Result.isOk]
      | stuck => simp [hp, Result.isOk]

/-- The first answer decides when it is not a followed redirection. -/
theorem getLoop_first_fails (fuel u : Nat) (st : State) (hn : st.nonce = none)
    (hf : ∀ g rest, st.script = g :: rest →
      (∀ u' k, g.redir ≠ .to u' k) ∧ (g.issued = none ∨ g.ok2xx = false ∨ g.body = .unreadable)) :
    (getLoop fuel u st).res.isOk = false ∨ (getLoop fuel u st).st.nonce = none := by
  cases fuel with
  | zero => left; simp [getLoop, Result.isOk]
  | succ fuel =>
    cases hs : st.script with
    | nil => left; rw [getLoop_nil fuel u st hs]; rfl
    | cons g rest =>
      obtain ⟨hr, hg⟩ := hf g rest hs
      obtain ⟨d, o, h, bd, rd⟩ := g
      cases rd with
      | to u' k => exact absurd rfl (hr u' k)
      | no =>
        cases d <;> cases o <;> cases h <;> cases bd <;>
          simp [Answer.issued] at hg <;>
          simp [getLoop, hs, hn, updateNonce, Result.isOk]
      | bad =>
        left
        cases d <;> cases h <;> simp [getLoop, hs, updateNonce, Result.isOk]

theorem post_take_fetch_fails (N : Nat) (st : State) (c b : Bool) (url : Nat)
    (hn : st.nonce = none)
    (hf : ∀ g rest, st.script = g :: rest →
      (∀ u' k, g.redir ≠ .to u' k) ∧ (g.issued = none ∨ g.ok2xx = false ∨ g.body = .unreadable)) :
    posts (post N .take st c b url).evs = [] ∧ (post N .take st c b url).res.isOk = false := by
  apply post_take_fetch_fails_gen N st c b url hn
  cases c
  · left; simp [newNonce, get, Result.isOk]
  · simpa [newNonce, get_true] using getLoop_first_fails _ st.nonceUrl st hn hf


/-! ## Never failing for want of a nonce -/

theorem nonceFailure_err_other (e : Err) (h1 : e ≠ .noNonce) (h2 : ∀ x, e ≠ .nonceFetch x) :
    (Result.err e).nonceFailure = false := by
  cases e <;> simp_all [Result.nonceFailure]

theorem postLoop_clone_nf (c b : Bool) (url : Nat) :
    ∀ (fuel i : Nat) (st : State),
      (postLoop .cloneOld c b url fuel i st).res.nonceFailure = false := by
  intro fuel
  induction fuel with
  | zero => intro i st; rfl
  | succ fuel ih =>
    intro i st
    cases b
    · simp [postLoop, round, prepNonce, transmit, pickNonce, Result.nonceFailure]
    · cases hs : st.script with
      | nil => simp [postLoop, round, prepNonce, transmit, pickNonce, hs]
      | cons a rest =>
        rcases judge_verdict st.nonce a with ⟨-, hj⟩ | ⟨-, hj, -⟩ | ⟨-, e, hj, h1, h2, -⟩
        · simp [postLoop, round, prepNonce, transmit, pickNonce, hs, hj, ih]
        · simp [postLoop, round, prepNonce, transmit, pickNonce, hs, hj]
        · simp [postLoop, round, prepNonce, transmit, pickNonce, hs, hj,
            nonceFailure_err_other e h1 h2]

/-- The old code never fails for want of a nonce (it sends the stale or the empty one). -/
theorem post_clone_nf (N : Nat) (st : State) (c b : Bool) (url : Nat) :
    (post N .cloneOld st c b url).res.nonceFailure = false := by
  simp only [post]
  split
  · split
    · split
      · rfl
      · exact postLoop_clone_nf _ _ _ _ _ _
    · rename_i h; exact postLoop_clone_nf _ _ _ _ _ _
  · rfl

theorem postLoop_take_nf (url : Nat) :
    ∀ (fuel i : Nat) (st : State),
      st.nonce ≠ none → (∀ a ∈ st.script.takeWhile Answer.isRetry, a.issued ≠ none) →
      (postLoop .take true true url fuel i st).res.nonceFailure = false := by
  intro fuel
  induction fuel with
  | zero => intro i st _ _; rfl
  | succ fuel ih =>
    intro i st h1 h2
    obtain ⟨nonce, script, nu⟩ := st
    obtain ⟨n, hn⟩ := Option.ne_none_iff_exists'.mp h1
    simp only at hn h2
    subst hn
    cases script with
    | nil => simp [postLoop, round, prepNonce, transmit, pickNonce]
    | cons a rest =>
      rcases judge_verdict none a with ⟨hv, hj⟩ | ⟨-, hj, -⟩ | ⟨-, e, hj, e1, e2, -⟩
      · have hr : a.isRetry = true := by simp [Answer.isRetry, hv]
        simp only [List.takeWhile_cons, hr, if_true, List.mem_cons, forall_eq_or_imp] at h2
        have ih' := ih (i + 1) ⟨(judge none a).2, rest, nu⟩ (by
          rw [judge_snd]; cases hi : a.issued <;> simp_all) h2.2
        simpa [postLoop, round, prepNonce, transmit, pickNonce, hj] using ih'
      · simp [postLoop, round, prepNonce, transmit, pickNonce, hj]
      · simp [postLoop, round, prepNonce, transmit, pickNonce, hj, nonceFailure_err_other e e1 e2]


/-! ## Polls against the judge -/

theorem pollLoop_okBodies_le (N : Nat) (mode : NonceMode) (c b : Bool) (url : Nat)
    (dec mat : Body → Bool) :
    ∀ (fuel i : Nat) (st : State),
      (okBodies (pollLoop N mode c b url dec mat fuel i st).evs).length ≤
        pollWaits (pollLoop N mode c b url dec mat fuel i st).evs := by
  intro fuel
  induction fuel with
  | zero => intro i st; simp [pollLoop, okBodies]
  | succ fuel ih =>
    intro i st
    have h1 : (okBodies (post N mode st c b url).evs).length ≤ 1 := by
      rw [post_okBodies]; cases (post N mode st c b url).res <;> simp [Result.okList]
    simp only [pollLoop]
    split
    · split
      · split
        · simp [post_pollWaits]; omega
        · have := ih (i + 1) (post N mode st c b url).st
          simp [okBodies_append, post_pollWaits]; omega
      · simp [post_pollWaits]; omega
    · simp [post_pollWaits]; omega

theorem pollLoop_pollHolds (N : Nat) (mode : NonceMode) (c b : Bool) (url : Nat)
    (dec mat : Body → Bool) (fuel i : Nat) (st : State) :
    Spec.C08.pollHolds fuel ((okBodies (pollLoop N mode c b url dec mat fuel i st).evs).map mat) =
      true := by
  have hle := Nat.le_trans (pollLoop_okBodies_le N mode c b url dec mat fuel i st)
    (pollLoop_bounds N mode c b url dec mat fuel i st).1
  obtain ⟨pre, hpre, hsh⟩ := pollLoop_shape N mode c b url dec mat fuel i st
  simp only [Spec.C08.pollHolds, Bool.and_eq_true, decide_eq_true_eq, List.length_map,
    List.all_eq_true, Bool.not_eq_true']
  refine ⟨hle, ?_⟩
  intro m hm
  have hin : m ∈ pre.map mat := by
    rcases hsh with ⟨bd, -, e2, -⟩ | ⟨bd, -, e2, -⟩ | ⟨-, e2⟩
    · rw [e2] at hm; simpa using hm
    · rw [e2] at hm; simpa using hm
    · rw [e2] at hm; exact List.dropLast_subset _ hm
  obtain ⟨x, hx, rfl⟩ := List.mem_map.mp hin
  exact (hpre x hx).2

open AcmedVerif.Spec.C08 (ObsAnswer ObsTx Outcome)
open AcmedVerif.Spec.C08

/-! ## The model meets the judge `Spec.C08.holds` -/

/-- The harness's classification of an answer (`Spec/C08.lean`), applied to a model answer. -/
def obsOf (a : Answer) : ObsAnswer :=
  if a.delivered = false then .dropped
  else if a.nonce = .invalid then .invalidNonceHdr
  else if a.body = .unreadable then .dropped
  else if a.ok2xx then .ok2xx
  else match a.body with
    | .problem ty => if recoverable ty then .recoverableProblem else .otherProblem
    | .jsonOther => .untypedProblem
    | _ => .notJson

def outcomeOf : Result → Outcome
  | .ok _ => .ok
  | r => if r.nonceFailure then .nonceFetchFailed else .failed

/-- The newest nonce handed out, sampled at each POST of the trace. -/
def newestAt : Option Nat → List Ev → List (Option Nat)
  | _, [] => []
  | cur, .postSend _ _ _ :: es => cur :: newestAt cur es
  | cur, .recvGet a :: es => newestAt (a.issued.or cur) es
  | cur, .recvPost a :: es => newestAt (a.issued.or cur) es
  | cur, _ :: es => newestAt cur es

def mkLog : List PostTx → List Answer → List (Option Nat) → List (ObsTx Nat Nat)
  | p :: ps, a :: as, w :: ws => ⟨obsOf a, p.nonce, w, p.url⟩ :: mkLog ps as ws
  | _, _, _ => []

/-- What the mock CA would log for the POSTs of a trace (`init` = nonce stored before). -/
def observe (init : Option Nat) (evs : List Ev) : List (ObsTx Nat Nat) :=
  mkLog (posts evs) (postAnswers evs) (newestAt init evs)

theorem obsOf_retry (a : Answer) : obsOf a = .recoverableProblem ↔ a.verdict = .retry := by
  obtain ⟨d, o, h, b, rd⟩ := a
  cases d <;> cases o <;> cases h <;> cases b <;> simp [obsOf, Answer.verdict] <;> split <;> simp_all

theorem obsOf_success (a : Answer) : obsOf a = .ok2xx ↔ a.verdict = .success := by
  obtain ⟨d, o, h, b, rd⟩ := a
  cases d <;> cases o <;> cases h <;> cases b <;> simp [obsOf, Answer.verdict] <;> split <;> simp_all

theorem walk_newestAt (mode : NonceMode) (evs : List Ev) (c L c' : Option Nat)
    (hcl : c = L ∨ (mode = .take ∧ c = none)) (h : walk mode c evs = some c') :
    newestAt L evs = (posts evs).map PostTx.nonce := by
  induction evs generalizing c L with
  | nil => rfl
  | cons e es ih =>
    cases e with
    | postSend u n r =>
      simp only [newestAt, posts_postSend, List.map_cons, List.cons.injEq]
      cases mode
      · rw [walk_postSend_take] at h
        split at h
        · rename_i hn
          refine ⟨?_, ih none L (Or.inr ⟨rfl, rfl⟩) h⟩
          rcases hcl with rfl | ⟨-, rfl⟩
          · exact hn.1.symm
          · exact absurd hn.1 hn.2
        · simp at h
      · rw [walk_postSend_clone] at h
        split at h
        · rename_i hn
          refine ⟨?_, ih c L hcl h⟩
          rcases hcl with rfl | ⟨hm, -⟩
          · exact hn.symm
          · cases hm
        · simp at h
    | recvGet a =>
      simp only [newestAt, posts_recvGet]
      rw [walk_recvGet] at h
      refine ih _ _ ?_ h
      rcases hcl with rfl | ⟨hm, rfl⟩
      · left; rfl
      · cases a.issued <;> simp [hm]
    | recvPost a =>
      simp only [newestAt, posts_recvPost]
      rw [walk_recvPost] at h
      refine ih _ _ ?_ h
      rcases hcl with rfl | ⟨hm, rfl⟩
      · left; rfl
      · cases a.issued <;> simp [hm]
    | admit => simpa [newestAt] using ih c L hcl (by simpa using h)
    | getSend u => simpa [newestAt] using ih c L hcl (by simpa using h)
    | retryWait => simpa [newestAt] using ih c L hcl (by simpa using h)
    | pollWait i => simpa [newestAt] using ih c L hcl (by simpa using h)

theorem mkLog_length_le (P : List PostTx) (A : List Answer) (W : List (Option Nat)) :
    (mkLog P A W).length ≤ P.length := by
  induction P generalizing A W with
  | nil => simp [mkLog]
  | cons p ps ih =>
    cases A <;> cases W <;> simp [mkLog]
    exact ih _ _

theorem mkLog_all (P : List PostTx) (A : List Answer) (url : Nat)
    (h1 : ∀ p ∈ P, p.nonce ≠ none) (h2 : ∀ p ∈ P, p.url = url) :
    ∀ t ∈ mkLog P A (P.map PostTx.nonce),
      (t.nonceSent.isSome && t.nonceSent == t.newestIssued) = true ∧ t.content = url := by
  induction P generalizing A with
  | nil => simp [mkLog]
  | cons p ps ih =>
    cases A with
    | nil => simp [mkLog]
    | cons a as =>
      simp only [List.map_cons, mkLog, List.mem_cons, forall_eq_or_imp]
      refine ⟨⟨?_, h2 p (by simp)⟩, ih as (fun q hq => h1 q (by simp [hq])) (fun q hq => h2 q (by simp [hq]))⟩
      have := h1 p (by simp)
      cases hp : p.nonce <;> simp_all

theorem mkLog_length (P : List PostTx) (A : List Answer) (W : List (Option Nat))
    (hA : A.length = P.length) (hW : W.length = P.length) : (mkLog P A W).length = P.length := by
  induction P generalizing A W with
  | nil => simp [mkLog]
  | cons p ps ih =>
    cases A <;> cases W <;> simp_all [mkLog]

theorem outcomeOf_nf (r : Result) (h : r.nonceFailure = true) : outcomeOf r = .nonceFetchFailed := by
  cases r <;> simp_all [outcomeOf]

theorem outcomeOf_ok_iff (r : Result) : outcomeOf r = .ok ↔ ∃ b, r = .ok b := by
  cases r <;> simp [outcomeOf] <;> split <;> simp

theorem LoopRun.nil_not_ok {url : Nat} {bOk : Bool} {fuel i : Nat} {A : List Answer} {r : Result}
    (h : LoopRun url bOk fuel i [] A r) : outcomeOf r ≠ .ok := by
  rw [Ne, outcomeOf_ok_iff]
  rintro ⟨b, rfl⟩
  cases h
  rename_i hn
  simp at hn

theorem LoopRun.judge234 {url : Nat} {fuel i : Nat} {P : List PostTx} {A : List Answer} {r : Result}
    (h : LoopRun url true fuel i P A r) (hs : r ≠ .stuck) (W : List (Option Nat))
    (hW : W.length = P.length) :
    retriesJustified (mkLog P A W) = true ∧ successOnly2xx (mkLog P A W) (outcomeOf r) = true ∧
    retriedToTheEnd fuel (mkLog P A W) (outcomeOf r) = true := by
  induction h generalizing W with
  | exhausted i =>
    have : outcomeOf (.err .tooManyErrors) = .failed := rfl
    simp [mkLog, retriesJustified, successOnly2xx, retriedToTheEnd, this]
  | stuckFetch fuel i => exact absurd rfl hs
  | nonceFail fuel i r hr =>
    simp [mkLog, retriesJustified, successOnly2xx, retriedToTheEnd, outcomeOf_nf r hr]
  | builderFail fuel i hb => cases hb
  | noAnswer fuel i n => exact absurd rfl hs
  | success fuel i n a hv h2 hd =>
    cases W with
    | nil => simp at hW
    | cons w ws =>
      have := (obsOf_success a).mpr hv
      simp [mkLog, retriesJustified, successOnly2xx, retriedToTheEnd, outcomeOf, this]
  | failed fuel i n a e hv h1 h2 h3 =>
    cases W with
    | nil => simp at hW
    | cons w ws =>
      have hne : obsOf a ≠ .recoverableProblem := by
        rw [Ne, obsOf_retry, hv]; simp
      have hout : outcomeOf (.err e) ≠ .ok := by
        rw [Ne, outcomeOf_ok_iff]; simp
      simp [mkLog, retriesJustified, successOnly2xx, retriedToTheEnd, hne]
  | again fuel i n a P A r hv hrun ih =>
    cases W with
    | nil => simp at hW
    | cons w ws =>
      simp only [List.length_cons, Nat.add_right_cancel_iff] at hW
      obtain ⟨ih1, ih2, ih3⟩ := ih hs ws hW
      have hrec := (obsOf_retry a).mpr hv
      have hlen := mkLog_length P A ws (hrun.answers_eq hs) hW
      simp only [mkLog]
      cases hL : mkLog P A ws with
      | nil =>
        rw [hL] at hlen
        have hP : P = [] := by cases P <;> simp_all
        subst hP
        have hno := hrun.nil_not_ok
        have hst := hrun.started rfl hs
        refine ⟨by simp [retriesJustified], ?_, ?_⟩
        · cases ho : outcomeOf r <;> simp_all [successOnly2xx]
        · simp only [retriedToTheEnd, List.getLast?_singleton, hrec, beq_self_eq_true, if_true,
            List.length_singleton]
          cases hn : r.nonceFailure
          · simp [hn] at hst
            simp [hst]
          · simp [outcomeOf_nf r hn]
      | cons t' l' =>
        rw [hL] at ih1 ih2 ih3 hlen
        refine ⟨?_, ?_, ?_⟩
        · simp only [retriesJustified, List.dropLast_cons_cons, List.all_cons, hrec, beq_self_eq_true,
            Bool.true_and]
          exact ih1
        · simpa [successOnly2xx, List.getLast?_cons_cons] using ih2
        · simp only [retriedToTheEnd, List.getLast?_cons_cons, List.length_cons] at ih3 ⊢
          simpa using ih3

/-- Current code, working client and builder, script not exhausted: what the mock CA would log for
one call of `post` passes the C08 judge, for every script and state. -/
theorem post_holds (N : Nat) (st : State) (url : Nat)
    (hs : (post N .take st true true url).res ≠ .stuck) :
    holds N (observe st.nonce (post N .take st true true url).evs)
      (outcomeOf (post N .take st true true url).res) = true := by
  have hrun := post_run N .take st true url
  obtain ⟨c', hw, -⟩ := (post_good N .take st true true url).walk st.nonce (Or.inl rfl)
  have hnew := walk_newestAt .take _ st.nonce st.nonce c' (Or.inl rfl) hw
  have hsome := walk_take_some _ _ _ hw
  have hall := mkLog_all _ (postAnswers (post N .take st true true url).evs) url hsome hrun.urls
  obtain ⟨j2, j3, j4⟩ := hrun.judge234 hs _ (List.length_map _)
  have hlen := Nat.le_trans (mkLog_length_le (posts (post N .take st true true url).evs)
    (postAnswers (post N .take st true true url).evs)
    ((posts (post N .take st true true url).evs).map PostTx.nonce)) hrun.length_le
  simp only [observe, hnew]
  generalize mkLog _ _ _ = log at hall j2 j3 j4 hlen ⊢
  simp only [holds, j2, j3, j4, Bool.and_true, Bool.and_eq_true]
  refine ⟨⟨by simpa [countOk] using hlen, ?_⟩, ?_⟩
  · simp only [newestNonce, List.all_eq_true]
    intro t ht
    exact (hall t (List.mem_of_mem_drop ht)).1
  · cases log with
    | nil => rfl
    | cons t ts =>
      simp only [sameContent, List.all_eq_true, beq_iff_eq]
      intro x hx
      rw [(hall x (by simp [hx])).2, (hall t (by simp)).2]

end AcmedVerif.Http
