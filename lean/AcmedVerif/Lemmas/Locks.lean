/-
Helper lemmas for `Model/Locks.lean` (property C12).
-/
import AcmedVerif.Model.Locks
import AcmedVerif.Spec.C12

namespace AcmedVerif.Locks

/-! ### `WO` and its Boolean twin -/

theorem holdsLock_iff (h : Held) (l : Nat) : holdsLock h l = true ↔ ∃ m, (l, m) ∈ h := by
  unfold holdsLock
  rw [List.any_eq_true]
  constructor
  · rintro ⟨⟨l', m⟩, hx, he⟩
    have : l' = l := by simpa using he
    subst this
    exact ⟨m, hx⟩
  · rintro ⟨m, hm⟩
    exact ⟨(l, m), hm, by simp⟩

theorem holdsLock_false_iff (h : Held) (l : Nat) : holdsLock h l = false ↔ ∀ m, (l, m) ∉ h := by
  rw [← Bool.not_eq_true, holdsLock_iff]
  exact not_exists

theorem mem_release {h : Held} {l : Nat} {x : Nat × Mode} : x ∈ release h l ↔ x ∈ h ∧ x.1 ≠ l := by
  simp [release]

theorem woB_iff (rank : Nat → Nat) : ∀ (p : List Op) (h : Held), woB rank h p = true ↔ WO rank h p
  | [], h => by simp [woB, WO]
  | .acq l m :: p, h => by
    simp only [woB, WO, Bool.and_eq_true, List.all_eq_true, decide_eq_true_eq, woB_iff rank p]
  | .rel l :: p, h => by
    simp only [woB, WO, Bool.and_eq_true, woB_iff rank p]
  | .io :: p, h => by
    simp only [woB, WO, woB_iff rank p]

instance (rank : Nat → Nat) (h : Held) (p : List Op) : Decidable (WO rank h p) :=
  decidable_of_iff _ (woB_iff rank p h)

instance (rank : Nat → Nat) (p : List Op) : Decidable (WellOrdered rank p) :=
  inferInstanceAs (Decidable (WO rank [] p))

theorem wo_append (rank : Nat → Nat) {q : List Op} (hq : WO rank [] q) :
    ∀ (p : List Op) (h : Held), WO rank h p → WO rank h (p ++ q)
  | [], h, hp => by
    have : h = [] := hp
    subst this
    simpa using hq
  | .acq l m :: p, h, hp => ⟨hp.1, wo_append rank hq p _ hp.2⟩
  | .rel l :: p, h, hp => ⟨hp.1, wo_append rank hq p _ hp.2⟩
  | .io :: p, h, hp => wo_append rank hq p h hp

theorem wo_flatten (rank : Nat → Nat) :
    ∀ (segs : List (List Op)), (∀ seg ∈ segs, WO rank [] seg) → WO rank [] segs.flatten
  | [], _ => rfl
  | seg :: segs, h => by
    rw [List.flatten_cons]
    exact wo_append rank (wo_flatten rank segs fun s hs => h s (List.mem_cons_of_mem _ hs)) seg []
      (h seg List.mem_cons_self)

theorem wo_ios (rank : Nat → Nat) (h : Held) (p : List Op) :
    ∀ k, WO rank h (ios k ++ p) ↔ WO rank h p
  | 0 => by simp [ios]
  | k + 1 => by
    have := wo_ios rank h p k
    simpa [ios, List.replicate_succ, WO] using this

/-- `io` is invisible to the discipline. -/
theorem woB_stripIo (rank : Nat → Nat) :
    ∀ (p : List Op) (h : Held), woB rank h (stripIo p) = woB rank h p
  | [], _ => rfl
  | .acq l m :: p, h => by
    have := woB_stripIo rank p ((l, m) :: h)
    simp only [stripIo] at this
    simp [stripIo, woB, this]
  | .rel l :: p, h => by
    have := woB_stripIo rank p (release h l)
    simp only [stripIo] at this
    simp [stripIo, woB, this]
  | .io :: p, h => by
    have := woB_stripIo rank p h
    simp only [stripIo] at this
    simp [stripIo, woB, this]

/-! ### One task step -/

theorem exec_cases {ts ts' : TaskSt} (h : exec ts = some ts') :
    (∃ l m p, ts.rest = .acq l m :: p ∧ ts' = ⟨(l, m) :: ts.held, p⟩) ∨
    (∃ l p, ts.rest = .rel l :: p ∧ ts' = ⟨release ts.held l, p⟩) ∨
    (∃ p, ts.rest = .io :: p ∧ ts' = ⟨ts.held, p⟩) := by
  unfold exec at h
  split at h
  · cases h
  · next l m p hr => exact Or.inl ⟨l, m, p, hr, by cases h; rfl⟩
  · next l p hr => exact Or.inr (Or.inl ⟨l, p, hr, by cases h; rfl⟩)
  · next p hr => exact Or.inr (Or.inr ⟨p, hr, by cases h; rfl⟩)

theorem exec_isSome {ts : TaskSt} (h : ts.rest ≠ []) : ∃ ts', exec ts = some ts' := by
  unfold exec
  split
  · next hr => exact absurd hr h
  · exact ⟨_, rfl⟩
  · exact ⟨_, rfl⟩
  · exact ⟨_, rfl⟩

theorem exec_length {ts ts' : TaskSt} (h : exec ts = some ts') :
    ts'.rest.length + 1 = ts.rest.length := by
  rcases exec_cases h with ⟨l, m, p, hr, rfl⟩ | ⟨l, p, hr, rfl⟩ | ⟨p, hr, rfl⟩ <;> simp [hr]

theorem wo_exec (rank : Nat → Nat) {ts ts' : TaskSt} (hw : WO rank ts.held ts.rest)
    (h : exec ts = some ts') : WO rank ts'.held ts'.rest := by
  rcases exec_cases h with ⟨l, m, p, hr, rfl⟩ | ⟨l, p, hr, rfl⟩ | ⟨p, hr, rfl⟩
  · rw [hr] at hw; exact hw.2
  · rw [hr] at hw; exact hw.2
  · rw [hr] at hw; exact hw

theorem update_same (s : Sys) (t : Nat) (ts : TaskSt) : update s t ts t = ts := by
  simp [update]

theorem update_other (s : Sys) {t u : Nat} (ts : TaskSt) (h : u ≠ t) : update s t ts u = s u := by
  simp [update, h]

/-! ### System invariants -/

/-- Every task obeys the discipline from where it stands. -/
def Inv (rank : Nat → Nat) (s : Sys) : Prop := ∀ t, WO rank (s t).held (s t).rest

/-- A write holder excludes every other holder, in every mode. -/
def Mutex (s : Sys) : Prop :=
  ∀ t u l m, (l, Mode.w) ∈ (s t).held → (l, m) ∈ (s u).held → u = t ∧ m = Mode.w

theorem inv_init (rank : Nat → Nat) (progs : Nat → List Op)
    (h : ∀ t, WellOrdered rank (progs t)) : Inv rank (init progs) := fun t => h t

theorem mutex_init (progs : Nat → List Op) : Mutex (init progs) := by
  intro t u l m h
  simp [init] at h

theorem inv_step (rank : Nat → Nat) (G : Grant) {s s' : Sys} {t : Nat}
    (hi : Inv rank s) (hs : Step G s t s') : Inv rank s' := by
  obtain ⟨_, ts', he, rfl⟩ := hs
  intro u
  by_cases hu : u = t
  · subst hu; rw [update_same]; exact wo_exec rank (hi u) he
  · rw [update_other s ts' hu]; exact hi u

theorem inv_run (rank : Nat → Nat) (G : Grant) {s0 s : Sys} {k : Nat}
    (hi : Inv rank s0) (hr : Run G s0 k s) : Inv rank s := by
  induction hr with
  | nil => exact hi
  | snoc _ hs ih => exact inv_step rank G ih hs

theorem mutex_step (G : Grant) (hG : ∀ s l m, G s l m → safeGrant s l m) {s s' : Sys} {t : Nat}
    (hm : Mutex s) (hs : Step G s t s') : Mutex s' := by
  obtain ⟨hen, ts', he, rfl⟩ := hs
  -- membership in the new state, in terms of the old one
  have old_of_ne : ∀ u, u ≠ t → (update s t ts' u).held = (s u).held := fun u hu => by
    rw [update_other s ts' hu]
  rcases exec_cases he with ⟨l0, m0, p, hr, rfl⟩ | ⟨l0, p, hr, rfl⟩ | ⟨p, hr, rfl⟩
  · -- acquisition
    have hg := hG s l0 m0 (hen l0 m0 p hr)
    have key : ∀ u x, x ∈ (update s t ⟨(l0, m0) :: (s t).held, p⟩ u).held →
        (u = t ∧ x = (l0, m0)) ∨ x ∈ (s u).held := by
      intro u x hx
      by_cases hu : u = t
      · subst hu
        rw [update_same] at hx
        rcases List.mem_cons.1 hx with h | h
        · exact Or.inl ⟨rfl, h⟩
        · exact Or.inr h
      · rw [old_of_ne u hu] at hx; exact Or.inr hx
    intro a b l m ha hb
    rcases key a _ ha with ⟨rfl, hxa⟩ | ha'
    · -- the new entry is the writer
      obtain ⟨rfl, rfl⟩ := Prod.mk.inj hxa
      rcases key b _ hb with ⟨rfl, hxb⟩ | hb'
      · exact ⟨rfl, (Prod.mk.inj hxb).2⟩
      · exact absurd hb' (hg b m)
    · rcases key b _ hb with ⟨rfl, hxb⟩ | hb'
      · -- the new entry meets an old writer: refused by the grant rule
        obtain ⟨rfl, rfl⟩ := Prod.mk.inj hxb
        cases m with
        | w => exact absurd ha' (hg a Mode.w)
        | r => exact absurd ha' (hg a)
      · exact hm a b l m ha' hb'
  · -- release
    have key : ∀ u x, x ∈ (update s t ⟨release (s t).held l0, p⟩ u).held → x ∈ (s u).held := by
      intro u x hx
      by_cases hu : u = t
      · subst hu; rw [update_same] at hx; exact (mem_release.1 hx).1
      · rw [old_of_ne u hu] at hx; exact hx
    intro a b l m ha hb
    exact hm a b l m (key a _ ha) (key b _ hb)
  · -- io
    have key : ∀ u, (update s t ⟨(s t).held, p⟩ u).held = (s u).held := by
      intro u
      by_cases hu : u = t
      · subst hu; rw [update_same]
      · rw [old_of_ne u hu]
    intro a b l m ha hb
    rw [key] at ha hb
    exact hm a b l m ha hb

theorem mutex_run (G : Grant) (hG : ∀ s l m, G s l m → safeGrant s l m) {s0 s : Sys} {k : Nat}
    (hm : Mutex s0) (hr : Run G s0 k s) : Mutex s := by
  induction hr with
  | nil => exact hm
  | snoc _ hs ih => exact mutex_step G hG ih hs

theorem canGrant_safe : ∀ s l m, canGrant s l m → safeGrant s l m
  | _, _, .w, h => h
  | _, _, .r, h => h.1


/-! ### At most one lock per rank -/

/-- Held locks, most recent first, have strictly decreasing ranks. -/
def Sorted (rank : Nat → Nat) (h : Held) : Prop := h.Pairwise fun x y => rank y.1 < rank x.1

theorem sorted_exec (rank : Nat → Nat) {ts ts' : TaskSt} (hw : WO rank ts.held ts.rest)
    (hs : Sorted rank ts.held) (h : exec ts = some ts') : Sorted rank ts'.held := by
  rcases exec_cases h with ⟨l, m, p, hr, rfl⟩ | ⟨l, p, hr, rfl⟩ | ⟨p, hr, rfl⟩
  · rw [hr] at hw
    exact List.Pairwise.cons (fun x hx => hw.1 x hx) hs
  · exact List.Pairwise.filter _ hs
  · exact hs

theorem sorted_run (rank : Nat → Nat) (G : Grant) {s0 s : Sys} {k : Nat}
    (hi : Inv rank s0) (hs0 : ∀ t, Sorted rank (s0 t).held) (hr : Run G s0 k s) :
    ∀ t, Sorted rank (s t).held := by
  induction hr with
  | nil => exact hs0
  | @snoc k s s' t hr' hstep ih =>
    have hinv := inv_run rank G hi hr'
    obtain ⟨_, ts', he, rfl⟩ := hstep
    intro u
    by_cases hu : u = t
    · subst hu; rw [update_same]; exact sorted_exec rank (hinv u) (ih u) he
    · rw [update_other s ts' hu]; exact ih u

/-! ### Progress -/

/-- Nobody can step. -/
def Stuck (G : Grant) (s : Sys) : Prop := ∀ u s', ¬ Step G s u s'

/-- In a stuck state every unfinished task stands before an acquisition that even the
most-refusing rule's complement refuses, i.e. `canGrant` is false for it. -/
theorem blocked_of_stuck {G : Grant} (hG : ∀ s l m, canGrant s l m → G s l m) {s : Sys}
    (hst : Stuck G s) {u : Nat} (hu : (s u).rest ≠ []) :
    ∃ l m p, (s u).rest = .acq l m :: p ∧ ¬ canGrant s l m := by
  obtain ⟨ts', he⟩ := exec_isSome hu
  rcases exec_cases he with ⟨l, m, p, hr, _⟩ | ⟨l, p, hr, _⟩ | ⟨p, hr, _⟩
  · refine ⟨l, m, p, hr, fun hc => hst u _ ⟨?_, ts', he, rfl⟩⟩
    intro l' m' p' hr'
    rw [hr] at hr'
    cases hr'
    exact hG s l m hc
  · exact absurd ⟨fun l' m' p' hr' => (by rw [hr] at hr'; cases hr'), ts', he, rfl⟩ (hst u _)
  · exact absurd ⟨fun l' m' p' hr' => (by rw [hr] at hr'; cases hr'), ts', he, rfl⟩ (hst u _)

/-- A holder of `l` in a stuck state waits for a lock of strictly higher rank. -/
theorem holder_waits_higher {rank : Nat → Nat} {G : Grant}
    (hG : ∀ s l m, canGrant s l m → G s l m) {s : Sys} (hi : Inv rank s) (hst : Stuck G s)
    {u l : Nat} {m : Mode} (hh : (l, m) ∈ (s u).held) :
    ∃ l' m' p', (s u).rest = .acq l' m' :: p' ∧ rank l < rank l' := by
  have hne : (s u).rest ≠ [] := by
    intro hnil
    have hw := hi u
    rw [hnil] at hw
    have : (s u).held = [] := hw
    rw [this] at hh
    cases hh
  obtain ⟨l', m', p', hr, _⟩ := blocked_of_stuck hG hst hne
  have hw := hi u
  rw [hr] at hw
  exact ⟨l', m', p', hr, hw.1 (l, m) hh⟩

/-- The climbing lemma: in a stuck state, a task waiting at rank `ρ` yields one waiting higher. -/
theorem climb {rank : Nat → Nat} {G : Grant}
    (hG : ∀ s l m, canGrant s l m → G s l m) {s : Sys} (hi : Inv rank s) (hst : Stuck G s)
    {t l : Nat} {m : Mode} {p : List Op} (hr : (s t).rest = .acq l m :: p) :
    ∃ u l' m' p', (s u).rest = .acq l' m' :: p' ∧ rank l < rank l' := by
  have hne : (s t).rest ≠ [] := by rw [hr]; exact List.cons_ne_nil _ _
  obtain ⟨l1, m1, p1, hr1, hng⟩ := blocked_of_stuck hG hst hne
  rw [hr] at hr1
  cases hr1
  -- a refused writer points to a holder
  have writer : ¬ canGrant s l Mode.w →
      ∃ u l' m' p', (s u).rest = .acq l' m' :: p' ∧ rank l < rank l' := by
    intro hnw
    have : ∃ u m0, (l, m0) ∈ (s u).held := by
      apply Classical.byContradiction
      intro hcon
      exact hnw fun u m0 hmem => hcon ⟨u, m0, hmem⟩
    obtain ⟨u, m0, hh⟩ := this
    exact ⟨u, holder_waits_higher hG hi hst hh⟩
  cases m with
  | w => exact writer hng
  | r =>
    -- a refused reader points to a write holder, or to a waiting writer, itself refused
    by_cases hA : ∀ u, (l, Mode.w) ∉ (s u).held
    · have : ∃ u p', (s u).rest = .acq l .w :: p' := by
        apply Classical.byContradiction
        intro hcon
        exact hng ⟨hA, fun u p' hp => hcon ⟨u, p', hp⟩⟩
      obtain ⟨u, p', hu⟩ := this
      have hune : (s u).rest ≠ [] := by rw [hu]; exact List.cons_ne_nil _ _
      obtain ⟨l2, m2, p2, hr2, hng2⟩ := blocked_of_stuck hG hst hune
      rw [hu] at hr2
      cases hr2
      exact writer hng2
    · have : ∃ u, (l, Mode.w) ∈ (s u).held := by
        apply Classical.byContradiction
        intro hcon
        exact hA fun u hmem => hcon ⟨u, hmem⟩
      obtain ⟨u, hh⟩ := this
      exact ⟨u, holder_waits_higher hG hi hst hh⟩

theorem no_waiter_in_stuck {rank : Nat → Nat} {B : Nat} (hB : ∀ l, rank l < B) {G : Grant}
    (hG : ∀ s l m, canGrant s l m → G s l m) {s : Sys} (hi : Inv rank s) (hst : Stuck G s) :
    ∀ (d : Nat) (t l : Nat) (m : Mode) (p : List Op),
      B ≤ rank l + d → (s t).rest = .acq l m :: p → False
  | 0, _, l, _, _, hb, _ => by have := hB l; omega
  | d + 1, _, l, _, _, hb, hr => by
    obtain ⟨u, l', m', p', hr', hlt⟩ := climb hG hi hst hr
    exact no_waiter_in_stuck hB hG hi hst d u l' m' p' (by omega) hr'

/-- Progress in EVERY state satisfying the per-task discipline (no reachability needed). -/
theorem progress {rank : Nat → Nat} {B : Nat} (hB : ∀ l, rank l < B) {G : Grant}
    (hG : ∀ s l m, canGrant s l m → G s l m) {s : Sys} (hi : Inv rank s)
    {t : Nat} (ht : (s t).rest ≠ []) : ∃ u s', Step G s u s' := by
  apply Classical.byContradiction
  intro hcon
  have hst : Stuck G s := fun u s' hs => hcon ⟨u, s', hs⟩
  obtain ⟨l, m, p, hr, _⟩ := blocked_of_stuck hG hst ht
  exact no_waiter_in_stuck hB hG hi hst B t l m p (by omega) hr

/-! ### Measure -/

theorem remaining_update_ge (s : Sys) (ts : TaskSt) {t : Nat} :
    ∀ n, n ≤ t → remaining n (update s t ts) = remaining n s
  | 0, _ => rfl
  | n + 1, h => by
    have hn : n ≠ t := by omega
    simp only [remaining, update_other s ts hn]
    rw [remaining_update_ge (t := t) s ts n (by omega)]

theorem remaining_update_lt (s : Sys) (ts : TaskSt) {t : Nat} :
    ∀ n, t < n →
      remaining n (update s t ts) + (s t).rest.length = remaining n s + ts.rest.length
  | 0, h => by omega
  | n + 1, h => by
    by_cases hn : n = t
    · subst hn
      simp only [remaining, update_same]
      rw [remaining_update_ge s ts n (Nat.le_refl _)]
      omega
    · simp only [remaining, update_other s ts hn]
      have := remaining_update_lt (t := t) s ts n (by omega)
      omega

theorem rest_nil_step {G : Grant} {s s' : Sys} {t u : Nat} (hs : Step G s t s')
    (hu : (s u).rest = []) : (s' u).rest = [] := by
  obtain ⟨_, ts', he, rfl⟩ := hs
  by_cases h : u = t
  · subst h
    have := exec_length he
    rw [hu] at this
    simp at this
  · rw [update_other s ts' h]; exact hu

theorem rest_nil_run {G : Grant} {s0 s : Sys} {k u : Nat} (hr : Run G s0 k s)
    (hu : (s0 u).rest = []) : (s u).rest = [] := by
  induction hr with
  | nil => exact hu
  | snoc _ hs ih => exact rest_nil_step hs ih

/-- Every step consumes exactly one operation of the tasks `< n`, when the others are finished. -/
theorem step_measure {G : Grant} {s s' : Sys} {t n : Nat} (hfin : ∀ u, n ≤ u → (s u).rest = [])
    (hs : Step G s t s') : remaining n s' + 1 = remaining n s := by
  have hs' := hs
  obtain ⟨_, ts', he, rfl⟩ := hs
  have hlen := exec_length he
  have htn : t < n := by
    apply Classical.byContradiction
    intro hge
    have := hfin t (by omega)
    rw [this] at hlen
    simp at hlen
  have := remaining_update_lt s ts' n htn
  omega

theorem run_measure {G : Grant} {s0 s : Sys} {k n : Nat} (hfin : ∀ u, n ≤ u → (s0 u).rest = [])
    (hr : Run G s0 k s) : remaining n s + k = remaining n s0 := by
  induction hr with
  | nil => rfl
  | @snoc k s s' t hr' hs ih =>
    have := step_measure (s := s) (n := n) (fun u hu => rest_nil_run hr' (hfin u hu)) hs
    omega

theorem Run.cons {G : Grant} {s s1 s2 : Sys} {t k : Nat} (h1 : Step G s t s1)
    (h2 : Run G s1 k s2) : Run G s (k + 1) s2 := by
  induction h2 with
  | nil => exact Run.snoc Run.nil h1
  | snoc _ hs ih => exact Run.snoc ih hs

/-! ### Finite presentation -/

theorem toSys_cases (ls : List TaskSt) (u : Nat) : toSys ls u ∈ ls ∨ toSys ls u = idle := by
  unfold toSys
  by_cases h : u < ls.length
  · left
    have : ls.getD u idle = ls[u] := by simp [List.getD_eq_getElem?_getD, h]
    rw [this]
    exact List.getElem_mem h
  · right
    have : ls.length ≤ u := by omega
    simp [List.getD_eq_getElem?_getD, this]

theorem mem_toSys {ls : List TaskSt} {ts : TaskSt} (h : ts ∈ ls) : ∃ u, toSys ls u = ts := by
  obtain ⟨i, hi, rfl⟩ := List.getElem_of_mem h
  exact ⟨i, by unfold toSys; simp [List.getD_eq_getElem?_getD, hi]⟩

theorem forall_toSys (ls : List TaskSt) (P : TaskSt → Prop) (hidle : P idle) :
    (∀ u, P (toSys ls u)) ↔ ∀ ts ∈ ls, P ts := by
  constructor
  · intro h ts hts
    obtain ⟨u, rfl⟩ := mem_toSys hts
    exact h u
  · intro h u
    rcases toSys_cases ls u with hm | he
    · exact h _ hm
    · rw [he]; exact hidle

theorem wantsWrite_iff (ts : TaskSt) (l : Nat) :
    wantsWrite ts l = true ↔ ∃ p, ts.rest = .acq l .w :: p := by
  unfold wantsWrite
  split
  · next l' p hr =>
    constructor
    · intro h
      have : l' = l := by simpa using h
      subst this
      exact ⟨p, hr⟩
    · rintro ⟨p', hp'⟩
      rw [hr] at hp'
      cases hp'
      simp
  · next hne =>
    constructor
    · intro h; cases h
    · rintro ⟨p', hp'⟩
      exact absurd hp' (hne l p')

theorem canGrantL_iff (ls : List TaskSt) (l : Nat) (m : Mode) :
    canGrantL ls l m = true ↔ canGrant (toSys ls) l m := by
  cases m with
  | w =>
    simp only [canGrantL, canGrant, List.all_eq_true, Bool.not_eq_true', holdsLock_false_iff]
    exact (forall_toSys ls (fun ts => ∀ m, (l, m) ∉ ts.held) (by simp [idle])).symm
  | r =>
    simp only [canGrantL, canGrant, List.all_eq_true, Bool.and_eq_true, Bool.not_eq_true']
    rw [forall_toSys ls (fun ts => (l, Mode.w) ∉ ts.held) (by simp [idle])]
    have h2 := forall_toSys ls (fun ts => ∀ p, ts.rest ≠ .acq l .w :: p) (by simp [idle])
    rw [h2]
    constructor
    · intro h
      refine ⟨fun ts hts => ?_, fun ts hts p hp => ?_⟩
      · have := (h ts hts).1
        simpa using this
      · have := (h ts hts).2
        rw [← Bool.not_eq_true, wantsWrite_iff] at this
        exact this ⟨p, hp⟩
    · rintro ⟨h1, h2⟩ ts hts
      refine ⟨by simpa using h1 ts hts, ?_⟩
      rw [← Bool.not_eq_true, wantsWrite_iff]
      rintro ⟨p, hp⟩
      exact h2 ts hts p hp

theorem enabledL_iff (ls : List TaskSt) (t : Nat) :
    enabledL ls t = true ↔ Enabled canGrant (toSys ls) t := by
  unfold enabledL Enabled
  show (match (toSys ls t).rest with
    | .acq l m :: _ => canGrantL ls l m
    | _ => true) = true ↔ _
  split
  · next l m p hr =>
    rw [canGrantL_iff]
    constructor
    · intro h l' m' p' hr'
      rw [hr] at hr'
      cases hr'
      exact h
    · intro h
      exact h l m p hr
  · next hne =>
    constructor
    · intro _ l' m' p' hr'
      exact absurd hr' (hne l' m' p')
    · intro _; rfl

theorem toSys_set (ls : List TaskSt) {t : Nat} (ht : t < ls.length) (ts : TaskSt) :
    toSys (ls.set t ts) = update (toSys ls) t ts := by
  funext u
  unfold toSys update
  by_cases hu : u = t
  · subst hu
    simp [List.getD_eq_getElem?_getD, ht]
  · have : t ≠ u := fun h => hu h.symm
    simp [List.getD_eq_getElem?_getD, List.getElem?_set_ne this, hu]

theorem stepL_sound {ls ls' : List TaskSt} {t : Nat} (h : stepL ls t = some ls') :
    Step canGrant (toSys ls) t (toSys ls') := by
  unfold stepL at h
  split at h
  · next hc =>
    rw [Bool.and_eq_true, decide_eq_true_eq] at hc
    split at h
    · next ts' he =>
      cases h
      exact ⟨(enabledL_iff ls t).1 hc.2, ts', he, toSys_set ls hc.1 ts'⟩
    · cases h
  · cases h

theorem runL_sound : ∀ (sched : List Nat) {ls ls' : List TaskSt},
    runL ls sched = some ls' → Run canGrant (toSys ls) sched.length (toSys ls')
  | [], ls, ls', h => by
    simp only [runL, Option.some.injEq] at h
    subst h
    exact Run.nil
  | t :: sched, ls, ls', h => by
    simp only [runL] at h
    split at h
    · next ls1 h1 => exact Run.cons (stepL_sound h1) (runL_sound sched h)
    · cases h

theorem toSys_initL (ps : List (List Op)) : toSys (initL ps) = init fun t => ps.getD t [] := by
  funext u
  unfold toSys initL init
  by_cases h : u < ps.length
  · simp [List.getD_eq_getElem?_getD, h]
  · have : ps.length ≤ u := by omega
    simp [List.getD_eq_getElem?_getD, this, idle]

theorem remaining_shift (s : Sys) :
    ∀ n, remaining (n + 1) s = (s 0).rest.length + remaining n fun t => s (t + 1)
  | 0 => by simp [remaining]
  | n + 1 => by
    have := remaining_shift s n
    simp only [remaining] at this ⊢
    omega

theorem remaining_init_list :
    ∀ ps : List (List Op), remaining ps.length (init fun t => ps.getD t []) = totalOps ps
  | [] => rfl
  | p :: ps => by
    have ih := remaining_init_list ps
    rw [List.length_cons, remaining_shift]
    have : (fun t => init (fun t => (p :: ps).getD t []) (t + 1)) = init fun t => ps.getD t [] := by
      funext u; simp [init]
    rw [this, ih]
    simp [init, totalOps]


/-! ### Monotonicity in the grant rule -/

theorem Step.mono {G G' : Grant} (h : ∀ s l m, G s l m → G' s l m) {s s' : Sys} {t : Nat}
    (hs : Step G s t s') : Step G' s t s' :=
  ⟨fun l m p hr => h s l m (hs.1 l m p hr), hs.2⟩

theorem Run.mono {G G' : Grant} (h : ∀ s l m, G s l m → G' s l m) {s0 s : Sys} {k : Nat}
    (hr : Run G s0 k s) : Run G' s0 k s := by
  induction hr with
  | nil => exact Run.nil
  | snoc _ hs ih => exact Run.snoc ih (Step.mono h hs)

theorem Stuck.anti {G G' : Grant} (h : ∀ s l m, G s l m → G' s l m) {s : Sys}
    (hst : Stuck G' s) : Stuck G s := fun u s' hs => hst u s' (Step.mono h hs)

/-- A task that write-acquires a lock it holds itself, alone in the system, is stuck under every
reader/writer lock (the lock is not re-entrant). -/
theorem stuck_self_wait {G : Grant} (hG : ∀ s l m, G s l m → safeGrant s l m) {s : Sys}
    {t l : Nat} {m : Mode} {p : List Op} (hr : (s t).rest = .acq l .w :: p)
    (hh : (l, m) ∈ (s t).held) (hoth : ∀ u, u ≠ t → (s u).rest = []) : Stuck G s := by
  intro u s' hs
  by_cases hu : u = t
  · subst hu
    exact hG s l Mode.w (hs.1 l Mode.w p hr) u m hh
  · obtain ⟨_, ts', he, _⟩ := hs
    have := exec_length he
    rw [hoth u hu] at this
    simp at this

theorem stepL_complete {ls : List TaskSt} {t : Nat} {s' : Sys}
    (h : Step canGrant (toSys ls) t s') : ∃ ls', stepL ls t = some ls' := by
  obtain ⟨hen, ts', he, _⟩ := h
  have hlt : t < ls.length := by
    apply Classical.byContradiction
    intro hge
    have hidle : toSys ls t = idle := by
      have : ls.length ≤ t := by omega
      simp [toSys, List.getD_eq_getElem?_getD, this]
    rw [hidle] at he
    simp [exec, idle] at he
  have hen' := (enabledL_iff ls t).2 hen
  refine ⟨ls.set t ts', ?_⟩
  unfold stepL
  have he' : exec ls[t] = some ts' := by
    have h0 : exec (ls.getD t idle) = some ts' := he
    simpa [List.getD_eq_getElem?_getD, hlt] using h0
  simp [hlt, hen', he']

def stuckL (ls : List TaskSt) : Bool := (List.range ls.length).all fun t => (stepL ls t).isNone

theorem stuckL_sound {ls : List TaskSt} (h : stuckL ls = true) : Stuck canGrant (toSys ls) := by
  intro u s' hs
  obtain ⟨ls', hl⟩ := stepL_complete hs
  have hlt : u < ls.length := by
    unfold stepL at hl
    split at hl
    · next hc => rw [Bool.and_eq_true, decide_eq_true_eq] at hc; exact hc.1
    · cases hl
  unfold stuckL at h
  rw [List.all_eq_true] at h
  have := h u (List.mem_range.2 hlt)
  rw [hl] at this
  cases this

/-! ### Traced runs and the judge's checkers -/

/-- A run together with the global trace `(task, op)` it emits. -/
inductive RunT (G : Grant) (s0 : Sys) : List (Nat × Op) → Sys → Prop
  | nil : RunT G s0 [] s0
  | snoc {evs : List (Nat × Op)} {s s' : Sys} {t : Nat} {o : Op} {p : List Op} :
      RunT G s0 evs s → Step G s t s' → (s t).rest = o :: p → RunT G s0 (evs ++ [(t, o)]) s'

theorem RunT.toRun {G : Grant} {s0 s : Sys} {evs : List (Nat × Op)} (h : RunT G s0 evs s) :
    Run G s0 evs.length s := by
  induction h with
  | nil => exact Run.nil
  | snoc _ hs _ ih => rw [List.length_append]; exact Run.snoc ih hs

theorem Run.toRunT {G : Grant} {s0 s : Sys} {k : Nat} (h : Run G s0 k s) :
    ∃ evs, evs.length = k ∧ RunT G s0 evs s := by
  induction h with
  | nil => exact ⟨[], rfl, RunT.nil⟩
  | @snoc k s s' t _ hs ih =>
    obtain ⟨evs, hl, hr⟩ := ih
    obtain ⟨_, ts', he, _⟩ := id hs
    have hne : (s t).rest ≠ [] := by
      intro hnil
      have := exec_length he
      rw [hnil] at this
      simp at this
    obtain ⟨o, p, hop⟩ := List.exists_cons_of_ne_nil hne
    exact ⟨evs ++ [(t, o)], by simp [hl], RunT.snoc hr hs hop⟩

theorem exec_rest {ts ts' : TaskSt} {o : Op} {p : List Op} (h : exec ts = some ts')
    (hr : ts.rest = o :: p) : ts'.rest = p := by
  rcases exec_cases h with ⟨l, m, q, hq, rfl⟩ | ⟨l, q, hq, rfl⟩ | ⟨q, hq, rfl⟩ <;>
    (rw [hr] at hq; cases hq; rfl)

open AcmedVerif.Spec.C12 in
/-- What task `t` has emitted so far, followed by what remains, is its program. -/
theorem perTask_run {G : Grant} {progs : Nat → List Op} {evs : List (Nat × Op)} {s : Sys}
    (h : RunT G (init progs) evs s) (t : Nat) : perTask evs t ++ (s t).rest = progs t := by
  induction h with
  | nil => simp [perTask, init]
  | @snoc evs s s' u o p _ hs hop ih =>
    obtain ⟨_, ts', he, rfl⟩ := hs
    by_cases hu : t = u
    · subst hu
      rw [update_same, exec_rest he hop]
      rw [hop] at ih
      rw [← ih]
      simp [perTask, List.filter_append]
    · rw [update_other s ts' hu]
      have : (u == t) = false := by simpa using fun h => hu h.symm
      rw [← ih]
      simp [perTask, List.filter_append, this]

open AcmedVerif.Spec.C12 in
theorem mrun_snoc : ∀ (es : List (Nat × Op)) (hs : Holders) (e : Nat × Op),
    mrun hs (es ++ [e]) = (mrun hs es).bind fun hs' => mstep hs' e
  | [], hs, e => by
    simp only [List.nil_append, mrun, Option.bind_some]
    cases mstep hs e <;> rfl
  | x :: es, hs, e => by
    simp only [List.cons_append, mrun]
    cases mstep hs x with
    | none => rfl
    | some hs' => exact mrun_snoc es hs' e

open AcmedVerif.Spec.C12 in
/-- The checker's holder table mirrors the model's `held` sets. -/
def Corr (hs : Holders) (s : Sys) : Prop := ∀ t l m, (t, l, m) ∈ hs ↔ (l, m) ∈ (s t).held

open AcmedVerif.Spec.C12 in
theorem corr_step {rank : Nat → Nat} {G : Grant} (hG : ∀ s l m, G s l m → safeGrant s l m)
    {hs : Holders} {s s' : Sys} {t : Nat} {o : Op} {p : List Op} (hc : Corr hs s)
    (hi : Inv rank s) (hstep : Step G s t s') (hop : (s t).rest = o :: p) :
    ∃ hs', mstep hs (t, o) = some hs' ∧ Corr hs' s' := by
  obtain ⟨hen, ts', he, rfl⟩ := hstep
  rcases exec_cases he with ⟨l0, m0, q, hq, rfl⟩ | ⟨l0, q, hq, rfl⟩ | ⟨q, hq, rfl⟩
  · -- acquisition
    rw [hop] at hq
    cases hq
    have hg := hG s l0 m0 (hen l0 m0 p hop)
    have corr' : Corr ((t, l0, m0) :: hs) (update s t ⟨(l0, m0) :: (s t).held, p⟩) := by
      intro u l m
      by_cases hu : u = t
      · subst hu
        rw [update_same, List.mem_cons, List.mem_cons, hc u l m]
        constructor
        · rintro (h | h)
          · cases h; exact Or.inl rfl
          · exact Or.inr h
        · rintro (h | h)
          · cases h; exact Or.inl rfl
          · exact Or.inr h
      · rw [update_other s _ hu, List.mem_cons, hc u l m]
        constructor
        · rintro (h | h)
          · cases h; exact absurd rfl hu
          · exact h
        · exact Or.inr
    cases m0 with
    | w =>
      refine ⟨(t, l0, .w) :: hs, ?_, corr'⟩
      have : (hs.all fun h => h.2.1 != l0) = true := by
        rw [List.all_eq_true]
        rintro ⟨u, l, m⟩ hmem
        have hheld := (hc u l m).1 hmem
        simp only [bne_iff_ne, ne_eq]
        rintro rfl
        exact hg u m hheld
      simp only [mstep, this, if_true]
    | r =>
      refine ⟨(t, l0, .r) :: hs, ?_, corr'⟩
      have : (hs.all fun h => !(h.2.1 == l0 && h.2.2 == Mode.w)) = true := by
        rw [List.all_eq_true]
        rintro ⟨u, l, m⟩ hmem
        have hheld := (hc u l m).1 hmem
        simp only [Bool.not_eq_true', Bool.and_eq_false_iff, beq_eq_false_iff_ne, ne_eq]
        by_cases hl : l = l0
        · subst hl
          right
          rintro rfl
          exact hg u hheld
        · exact Or.inl hl
      simp only [mstep, this, if_true]
  · -- release
    rw [hop] at hq
    cases hq
    have hw := hi t
    rw [hop] at hw
    obtain ⟨m1, hm1⟩ := (holdsLock_iff _ _).1 hw.1
    have hany : (hs.any fun h => h.1 == t && h.2.1 == l0) = true := by
      rw [List.any_eq_true]
      exact ⟨(t, l0, m1), (hc t l0 m1).2 hm1, by simp⟩
    refine ⟨hs.filter fun h => !(h.1 == t && h.2.1 == l0), by simp only [mstep, hany, if_true], ?_⟩
    intro u l m
    rw [List.mem_filter, hc u l m]
    by_cases hu : u = t
    · subst hu
      rw [update_same]
      show _ ↔ (l, m) ∈ release (s u).held l0
      rw [mem_release]
      simp
    · rw [update_other s _ hu]
      simp [hu]
  · -- io
    rw [hop] at hq
    cases hq
    refine ⟨hs, rfl, ?_⟩
    intro u l m
    rw [hc u l m]
    by_cases hu : u = t
    · subst hu; rw [update_same]
    · rw [update_other s _ hu]

open AcmedVerif.Spec.C12 in
theorem corr_run {rank : Nat → Nat} {G : Grant} (hG : ∀ s l m, G s l m → safeGrant s l m)
    {progs : Nat → List Op} (hwo : ∀ t, WellOrdered rank (progs t))
    {evs : List (Nat × Op)} {s : Sys} (h : RunT G (init progs) evs s) :
    ∃ hs, mrun [] evs = some hs ∧ Corr hs s := by
  induction h with
  | nil => exact ⟨[], rfl, fun t l m => by simp [init]⟩
  | snoc hr hstep hop ih =>
    obtain ⟨hs, hm, hc⟩ := ih
    have hi := inv_run rank G (inv_init rank progs hwo) hr.toRun
    obtain ⟨hs', hm', hc'⟩ := corr_step hG hc hi hstep hop
    exact ⟨hs', by rw [mrun_snoc, hm]; exact hm', hc'⟩

/-! ### The instance -/

theorem acmedRank_lt (l : Nat) : acmedRank l < rankBound := by
  unfold acmedRank rankBound; omega

theorem acmedRank_account (i : Nat) : acmedRank (accountLock i) = 0 := by
  unfold acmedRank accountLock; omega

theorem acmedRank_endpoint (j : Nat) : acmedRank (endpointLock j) = 1 := by
  unfold acmedRank endpointLock; omega

section Segments
variable {rank : Nat → Nat} {a e : Nat} (hr : rank a < rank e)
include hr

theorem ne_of_rank : a ≠ e := fun h => by subst h; omega

theorem wo_post (k : Nat) : WO rank [] (post a e k) := by
  have hne := ne_of_rank hr
  simp [post, WO, wo_ios, holdsLock, release, hr, hne]

theorem wo_accountOp (k : Nat) : WO rank [] (accountOp a e k) := by
  have hne := ne_of_rank hr
  simp [accountOp, WO, wo_ios, holdsLock, release, hr, hne]

end Segments

theorem wo_iosOnly (rank : Nat → Nat) (k : Nat) : WO rank [] (ios k) := by
  have := (wo_ios rank [] [] k).2 rfl
  simpa using this

theorem wo_single (rank : Nat → Nat) (l : Nat) (m : Mode) (k : Nat) :
    WO rank [] ([.acq l m] ++ ios k ++ [.rel l]) := by
  simp [WO, wo_ios, holdsLock, release]

theorem wo_challSegs {rank : Nat → Nat} {a e : Nat} (hr : rank a < rank e) (c : ChallShape) :
    ∀ seg ∈ challSegs a e c, WO rank [] seg := by
  intro seg hs
  simp only [challSegs, List.mem_cons, List.mem_nil_iff, or_false] at hs
  rcases hs with rfl | rfl | rfl
  · simpa [ios] using wo_single rank a .r 0
  · exact wo_iosOnly rank _
  · exact wo_post hr _

theorem wo_authzSegs {rank : Nat → Nat} {a e : Nat} (hr : rank a < rank e) (z : AuthzShape) :
    ∀ seg ∈ authzSegs a e z, WO rank [] seg := by
  intro seg hs
  cases z with
  | valid f =>
    simp only [authzSegs, List.mem_cons, List.mem_nil_iff, or_false] at hs
    subst hs
    exact wo_post hr _
  | pending f cs p cl =>
    simp only [authzSegs, List.mem_append, List.mem_cons, List.mem_nil_iff, or_false,
      List.mem_flatten, List.mem_map] at hs
    rcases hs with (rfl | ⟨_, ⟨c, _, rfl⟩, hseg⟩) | rfl | rfl
    · exact wo_post hr _
    · exact wo_challSegs hr c seg hseg
    · exact wo_post hr _
    · exact wo_iosOnly rank _

theorem wo_orderSegs {rank : Nat → Nat} {a e : Nat} (hr : rank a < rank e) (o1 : Nat)
    (rr : Option (Nat × Nat)) : ∀ seg ∈ orderSegs a e o1 rr, WO rank [] seg := by
  intro seg hs
  cases rr with
  | none =>
    simp only [orderSegs, List.mem_cons, List.mem_nil_iff, or_false] at hs
    subst hs
    exact wo_post hr _
  | some x =>
    obtain ⟨reg, o2⟩ := x
    simp only [orderSegs, List.mem_cons, List.mem_nil_iff, or_false] at hs
    rcases hs with rfl | rfl | rfl
    · exact wo_post hr _
    · exact wo_accountOp hr _
    · exact wo_post hr _

theorem wo_segmentsWith {rank : Nat → Nat}
    (order : Nat → Nat → Nat → Option (Nat × Nat) → List (List Op)) (sh : AttemptShape)
    (hr : rank (accountLock sh.account) < rank (endpointLock sh.endpoint))
    (ho : ∀ seg ∈ order (accountLock sh.account) (endpointLock sh.endpoint) sh.order1Ios sh.reReg,
      WO rank [] seg) :
    ∀ seg ∈ segmentsWith order sh, WO rank [] seg := by
  intro seg hs
  simp only [segmentsWith, List.mem_append, List.mem_cons, List.mem_nil_iff, or_false,
    List.mem_flatten, List.mem_map] at hs
  rcases hs with (((rfl | rfl | rfl) | ho') | ⟨_, ⟨z, _, rfl⟩, hseg⟩) | rfl | rfl | rfl | rfl | rfl | rfl
  · simpa [ios] using wo_single rank (endpointLock sh.endpoint) .r 0
  · exact wo_single rank _ .w _
  · exact wo_accountOp hr _
  · exact ho seg ho'
  · exact wo_authzSegs hr z seg hseg
  · exact wo_post hr _
  · exact wo_iosOnly rank _
  · exact wo_post hr _
  · exact wo_post hr _
  · exact wo_post hr _
  · exact wo_iosOnly rank _

theorem mem_cut {c : Option Nat} {segs : List (List Op)} {seg : List Op} (h : seg ∈ cut c segs) :
    seg ∈ segs := by
  cases c with
  | none => exact h
  | some k => exact List.mem_of_mem_take h

/-! ### Register-once counters -/

namespace Reg

/-- 1 when a `sync` would send newAccount. -/
def due (s : St) : Nat := b2n (!s.registered || s.stale)

def Bound (s : St) : Prop := s.newAccountOk + due s + s.pending.length ≤ 1 + s.dne + s.changes

theorem due_le_one (s : St) : due s ≤ 1 := by
  unfold due b2n; split <;> omega

theorem bound_step {s s' : St} {e : Ev} (hb : Bound s) (h : step s e = some s') : Bound s' := by
  have hd := due_le_one s
  cases e with
  | bindingChange =>
    simp only [step, Option.some.injEq] at h
    subst h
    unfold Bound at *
    have := due_le_one { s with stale := true, changes := s.changes + 1 }
    simp only at *
    omega
  | sync ok =>
    simp only [step] at h
    by_cases hdue : (!s.registered || s.stale) = true
    · rw [if_pos hdue] at h
      cases ok with
      | true =>
        simp only [if_true, Option.some.injEq] at h
        subst h
        unfold Bound due b2n at *
        simp only [hdue, if_true] at hb
        simp
        omega
      | false =>
        simp only [Bool.false_eq_true, if_false, Option.some.injEq] at h
        subst h; exact hb
    · rw [if_neg hdue] at h
      simp only [Option.some.injEq] at h
      subst h; exact hb
  | updateDne ok =>
    simp only [step] at h
    cases ok with
    | true =>
      simp only [if_true, Option.some.injEq] at h
      subst h
      unfold Bound due b2n at *
      simp
      omega
    | false =>
      simp only [Bool.false_eq_true, if_false, Option.some.injEq] at h
      subst h
      unfold Bound due at *
      simp only at *
      omega
  | orderDne t =>
    simp only [step, Option.some.injEq] at h
    subst h
    unfold Bound due at *
    simp only [List.length_cons] at *
    omega
  | reRegister t ok =>
    simp only [step] at h
    by_cases hp : s.pending.contains t = true
    · rw [if_pos hp] at h
      have hmem : t ∈ s.pending := by simpa using hp
      have hlen := List.length_erase_of_mem hmem
      have hpos : 0 < s.pending.length := List.length_pos_of_mem hmem
      cases ok with
      | true =>
        simp only [if_true, Option.some.injEq] at h
        subst h
        unfold Bound due b2n at *
        simp
        omega
      | false =>
        simp only [Bool.false_eq_true, if_false, Option.some.injEq] at h
        subst h
        unfold Bound due at *
        simp only at *
        omega
    · rw [if_neg hp] at h
      cases h

theorem bound_run : ∀ (es : List Ev) {s s' : St}, Bound s → run s es = some s' → Bound s'
  | [], s, s', hb, h => by
    simp only [run, Option.some.injEq] at h
    subst h; exact hb
  | e :: es, s, s', hb, h => by
    simp only [run] at h
    split at h
    · next s1 h1 => exact bound_run es (bound_step hb h1) h
    · cases h

theorem bound_start (registered stale : Bool) : Bound (start registered stale) := by
  have := due_le_one (start registered stale)
  unfold Bound
  simp only [start, List.length_nil] at *
  omega

end Reg

/-! ### Nonce ledger -/

namespace Nonce

theorem used_sublist : ∀ (es : List Ev) (slot : Option Nat),
    ((used slot es).map Prod.snd).Sublist (slot.toList ++ issued es)
  | [], slot => by simp [used]
  | .get t r :: es, slot => by
    have ih := used_sublist es (setReply slot r)
    simp only [used, issued]
    cases r with
    | none => simpa [setReply] using ih
    | some n =>
      simp only [setReply, Option.toList_some] at ih ⊢
      exact ih.trans (List.sublist_append_right _ _)
  | .post t r :: es, some n => by
    have ih := used_sublist es (setReply none r)
    simp only [used, issued, List.map_cons, Option.toList_some, List.singleton_append]
    refine List.Sublist.cons_cons _ ?_
    cases r with
    | none => simpa [setReply] using ih
    | some k => simpa [setReply] using ih
  | .post t r :: es, none => by
    have ih := used_sublist es none
    simp only [used, issued, Option.toList_none, List.nil_append] at ih ⊢
    exact ih.trans (List.sublist_append_right _ _)

end Nonce

end AcmedVerif.Locks
