/-
C11, "a contact edit is noticed": what the property demands of the contacts fingerprint, judged on
OBSERVED fingerprints (bytes the real `hash_contacts` returned).  The daemon sends a contact update
exactly when the stored fingerprint differs from the fingerprint of the configured contacts
(`acmed/src/account.rs:216, 227-229`), so "after any edit the next renewal brings the CA's record
into line" needs: two contact lists have the same fingerprint exactly when they are the same list.
No function of `Model/ContactsFp.lean` is mentioned here.
-/
namespace AcmedVerif.Spec.C11Fp

/-- `a`, `b`: two configured contact lists (values as bytes); `fpA`, `fpB`: the fingerprints the
implementation computed for them.  Lists differ ⇒ fingerprints differ; lists equal ⇒ fingerprints
equal (the function is deterministic: an unchanged configuration must not look edited). -/
def holds (a b : List (List UInt8)) (fpA fpB : List UInt8) : Bool :=
  if a = b then fpA == fpB else fpA != fpB

/-- The half that the repaired defect violated: an edit is visible in the fingerprint. -/
def editVisible (a b : List (List UInt8)) (fpA fpB : List UInt8) : Bool :=
  a == b || fpA != fpB

/-- The other half: no edit, no difference. -/
def stable (a b : List (List UInt8)) (fpA fpB : List UInt8) : Bool :=
  a != b || fpA == fpB

end AcmedVerif.Spec.C11Fp
