/-
C17 judge: "No sequence of failed, aborted, malformed, slow or non-ACME connections, in any order
and concurrency, stops tacd from answering a subsequent valid acme-tls/1 handshake correctly, in
the build profile the project ships (release, panic=abort)."

Inputs: the history of behaviours thrown at the running release binary (kept for the report; the
demand does not depend on it), whether the process is still alive afterwards, and whether the final
valid acme-tls/1 handshake was answered correctly (judged by `Spec.C16.holds`).
-/
import AcmedVerif.Model.Tacd

namespace AcmedVerif.Spec.C17
open AcmedVerif.Tacd (Behaviour)

def holds (_history : List Behaviour) (processAlive finalHandshakeOk : Bool) : Bool :=
  processAlive && finalHandshakeOk

end AcmedVerif.Spec.C17
