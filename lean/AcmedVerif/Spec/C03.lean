/-
C03 judge: what the property demands of the certificate / private-key files observed before and
after ONE renewal attempt.  Key identities are hashes of public keys computed by the harness
(`vhelper`).  Independent of `Model/Flow.lean`.
-/
namespace AcmedVerif.Spec.C03

structure FilesObs where
  certPresent : Bool
  /-- the certificate file parses as a PEM certificate chain -/
  certParses  : Bool
  /-- identity of the leaf public key (when it parses) -/
  leafKey     : Option Nat
  /-- identity of the public half of the private-key file (when present and readable) -/
  keyFileKey  : Option Nat
  deriving DecidableEq, Repr, Inhabited

/-- "The certificate file, if present, is a parseable chain whose leaf key matches the key file." -/
def consistent (f : FilesObs) : Bool :=
  !f.certPresent || (f.certParses && f.leafKey.isSome && f.leafKey == f.keyFileKey)

/-- A previously installed matching pair. -/
def installedPair (f : FilesObs) : Bool := f.certPresent && consistent f

/-- The property, literally: the final state is consistent, and an attempt that failed before a
new certificate was obtained left a previously installed matching pair untouched. -/
def holdsStrict (initial final : FilesObs) (failedBeforeObtained : Bool) : Bool :=
  consistent final && (!(failedBeforeObtained && installedPair initial) || final == initial)

/-- The judge used on runs: as `holdsStrict`, for attempts that START from a consistent state (no
attempt that fails early can repair files that were already broken before it started). -/
def holds (initial final : FilesObs) (failedBeforeObtained : Bool) : Bool :=
  !consistent initial || holdsStrict initial final failedBeforeObtained

end AcmedVerif.Spec.C03
