/-
C12 judge: what the property demands of one observed run of several concurrent renewals, stated on
what the harness records from the REAL code:

 * the global lock trace: `(task, op)` with `acq l m` logged when the guard is OBTAINED and `rel l`
   when it is dropped (`io` is not recorded; it is ignored if present);
 * whether every attempt returned;
 * per (account, endpoint) pair: number of newAccount exchanges that succeeded, number of
   `accountDoesNotExist` answers, number of binding changes;
 * per endpoint: the nonces carried by the POSTs, in order, whatever certificate sent them.

`traceOk` is the hypothesis of `Props.C12.deadlock_free` (the same definition the theorem uses),
`mutexRespected` is what `Props.C12.mutual_exclusion` concludes.
-/
import AcmedVerif.Model.Locks

namespace AcmedVerif.Spec.C12
open AcmedVerif.Locks

/-- One task's recorded lock sequence obeys the discipline (accounts before endpoints, one lock
per rank, everything released at the end). -/
def traceOk (ops : List Op) : Bool := is_wellOrdered acmedRank ops

/-- Current holders: `(task, lock, mode)`. -/
abbrev Holders := List (Nat × Nat × Mode)

/-- Check one global event against the current holders (`none` = violation). -/
def mstep (hs : Holders) : Nat × Op → Option Holders
  | (t, .acq l .w) =>
    if hs.all fun h => h.2.1 != l then some ((t, l, .w) :: hs) else none
  | (t, .acq l .r) =>
    if hs.all fun h => !(h.2.1 == l && h.2.2 == Mode.w) then some ((t, l, .r) :: hs) else none
  | (t, .rel l) =>
    if hs.any fun h => h.1 == t && h.2.1 == l then
      some (hs.filter fun h => !(h.1 == t && h.2.1 == l))
    else none
  | (_, .io) => some hs

def mrun (hs : Holders) : List (Nat × Op) → Option Holders
  | [] => some hs
  | e :: es =>
    match mstep hs e with
    | some hs' => mrun hs' es
    | none => none

/-- The global trace never shows a writer together with anybody else on one lock, and every
release is by a holder. -/
def mutexRespected (events : List (Nat × Op)) : Bool := (mrun [] events).isSome

/-- The lock sequence of task `t` inside the global trace. -/
def perTask (events : List (Nat × Op)) (t : Nat) : List Op :=
  (events.filter fun e => e.1 == t).map Prod.snd

def tasksOk (tasks : List Nat) (events : List (Nat × Op)) : Bool :=
  tasks.all fun t => traceOk (perTask events t)

/-- Successful newAccount requests for one (account, endpoint) pair. -/
def registerOnceOk (newAccountOk dne changes : Nat) : Bool :=
  decide (newAccountOk ≤ 1 + dne + changes)

/-- The same, counted from the start state: `base` = 1 when the pair was not registered (or its binding
was stale) at the start of the observed window, 0 when it was registered with the configured binding. -/
def registerOnceFromOk (base newAccountOk dne changes : Nat) : Bool :=
  decide (newAccountOk ≤ base + dne + changes)

/-- No two POSTs on one endpoint carry the same nonce. -/
def noncesDistinct {α : Type} [BEq α] : List α → Bool
  | [] => true
  | n :: ns => !ns.contains n && noncesDistinct ns

/-- The whole judge. `pairs` = `(newAccountOk, dne, changes)` per (account, endpoint) pair;
`nonces` = per endpoint. -/
def holds (tasks : List Nat) (events : List (Nat × Op)) (allReturned : Bool)
    (pairs : List (Nat × Nat × Nat)) (nonces : List (List String)) : Bool :=
  allReturned && tasksOk tasks events && mutexRespected events &&
  (pairs.all fun p => registerOnceOk p.1 p.2.1 p.2.2) && nonces.all noncesDistinct

end AcmedVerif.Spec.C12
