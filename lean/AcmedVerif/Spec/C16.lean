/-
C16 judge: "a TLS client offering acme-tls/1 receives a self-signed, currently valid certificate
whose only subjectAltName is the A-label dNSName of the domain and which carries the critical
acmeIdentifier extension holding exactly that digest, with acme-tls/1 negotiated. A client that
offers only other protocols is refused."

Inputs: the domain text given to tacd, the A-label form EXPECTED for it (computed independently by
the harness and checked here against the judge's own definition of the form,
`Spec.C01Ident.dnsShapeOk`), the 32 digest bytes, the protocol names the client offered (empty =
no ALPN extension sent), and what the client observed.
-/
import AcmedVerif.Spec.C01Ident

namespace AcmedVerif.Spec.C16

/-- `acme-tls/1` (RFC 8737 section 6.2). -/
def acme : List UInt8 := [97, 99, 109, 101, 45, 116, 108, 115, 47, 49]

/-- Fields of the certificate the client received, as parsed by the harness. -/
structure CertObs where
  dnsSans : List (List Char)
  ipSanCount : Nat
  /-- other GeneralName kinds in the subjectAltName extension -/
  otherSanCount : Nat := 0
  acmeExtPresent : Bool
  acmeCritical : Bool
  /-- the extnValue content of id-pe-acmeIdentifier: DER of `Authorization ::= OCTET STRING (SIZE (32))` -/
  acmeValue : List UInt8
  selfSigned : Bool
  /-- notBefore ≤ now -/
  notBeforeOk : Bool
  /-- now ≤ notAfter -/
  notAfterOk : Bool
  deriving Repr, DecidableEq

structure Obs where
  handshakeOk : Bool
  negotiated : Option (List UInt8)
  cert : Option CertObs
  deriving Repr, DecidableEq

/-- ASCII white space stripped at both ends (what a value read from a file or stdin may carry). -/
def strip (s : List Char) : List Char :=
  let ws := fun (c : Char) => c == ' ' || c == '\t' || c == '\n' || c == '\r'
  ((s.dropWhile ws).reverse.dropWhile ws).reverse

def certOk (alabel : List Char) (digest : List UInt8) (c : CertObs) : Bool :=
  c.dnsSans == [alabel] && c.ipSanCount == 0 && c.otherSanCount == 0 &&
  c.acmeExtPresent && c.acmeCritical && c.acmeValue == 0x04 :: 0x20 :: digest &&
  c.selfSigned && c.notBeforeOk && c.notAfterOk

def holds (domain alabel : List Char) (digest : List UInt8) (offer : List (List UInt8))
    (o : Obs) : Bool :=
  if offer.contains acme then
    digest.length == 32 &&
    C01Ident.dnsShapeOk (strip domain) alabel &&
    o.handshakeOk && o.negotiated == some acme &&
    (match o.cert with
     | none => false
     | some c => certOk alabel digest c)
  else if offer.isEmpty then
    true          -- no ALPN extension at all: neither sentence of the property speaks about it
  else
    !o.handshakeOk  -- only other protocols: refused

end AcmedVerif.Spec.C16
