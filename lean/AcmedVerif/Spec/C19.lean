/-
C19 judge.  Clause 1: the observed outcome class of start-up + first request must be "starts" or
"rejected with an error"; a crash (panic, abort, stack overflow, signal) or a hang is a violation.
Clause 2: a time period is accepted exactly per the documented grammar and its value is the sum of its
parts — evaluated through `Period.parse`, which `Props.C19.period_grammar` proves equivalent to the
documented grammar (non-empty sequence of <digits><unit> items, every number / product / sum within
64 bits, value = Σ number·unit), so the judge is the grammar, not the implementation.
-/
import AcmedVerif.Model.Period
import AcmedVerif.Model.Limiter

namespace AcmedVerif.Spec.C19
open AcmedVerif.Period

inductive StartOutcome
  | starts | startsAfterLimiterSleep | rejected | panicked | died | hung | unknown
  deriving Repr, DecidableEq, Inhabited

def StartOutcome.ofString : String → StartOutcome
  | "starts" => .starts
  | "starts-after-limiter-sleep" => .startsAfterLimiterSleep
  | "rejected" => .rejected
  | "panicked" => .panicked
  | "died" => .died
  | "hung" => .hung
  | _ => .unknown

def startupHolds : StartOutcome → Bool
  | .starts | .startsAfterLimiterSleep | .rejected => true
  | _ => false

/-- What was observed of one start-up (+ first request per endpoint), before any interpretation. -/
structure StartObs where
  /-- the process died (signal, abort, stack overflow) -/
  died : Bool
  /-- a Rust panic was caught -/
  panicked : Bool
  /-- the loader returned an error -/
  rejected : Bool
  /-- the configuration loaded and the event loop was built -/
  loaded : Bool
  /-- for every endpoint whose first request had NOT been sent when the observation timed out: its
  rate limits as loaded (n, period in ns) -/
  late : List (List Limiter.Limit)
  timeoutMs : Nat
  /-- start-up itself gave no answer at all within the observation time (the process was still
  running, neither loaded nor rejected, when it was killed) -/
  silent : Bool := false
  deriving Repr, Inhabited

/-- The outcome class of an observation.  A first request that did not happen within the time-out is
a hang unless the limiter's own first sleep (it sleeps BEFORE its first test, by design: `sleepMs`,
proved ≤ 1 h and followed by an admission in Props/C09) covers the time-out (200 ms of slack). -/
def classify (o : StartObs) : StartOutcome :=
  if o.silent then .hung
  else if o.died then .died
  else if o.panicked then .panicked
  else if o.rejected then .rejected
  else if o.loaded then
    if o.late.isEmpty then .starts
    else if o.late.all (fun ls => decide (o.timeoutMs ≤ Limiter.sleepMs ls + 200)) then .startsAfterLimiterSleep
    else .hung
  else .unknown

/-- Clause 1 on a raw observation. -/
def startupObsHolds (o : StartObs) : Bool := startupHolds (classify o)

/-- What the implementation answered for one period string. -/
inductive PeriodObs
  | accepted (secs : Nat)
  | rejected
  | crashed
  deriving Repr, DecidableEq, Inhabited

def periodHolds (s : List Char) (o : PeriodObs) : Bool :=
  match parse s, o with
  | .ok v, .accepted w => v == w
  | .reject, .rejected => true
  | _, _ => false

end AcmedVerif.Spec.C19
