/-
C19 judge.  Clause 1: the observed outcome class of start-up + first request must be "starts" or
"rejected with an error"; a crash (panic, abort, stack overflow, signal) or a hang is a violation.
Clause 2: a time period is accepted exactly per the documented grammar and its value is the sum of its
parts — evaluated through `Period.parse`, which `Props.C19.period_grammar` proves equivalent to the
documented grammar (non-empty sequence of <digits><unit> items, every number / product / sum within
64 bits, value = Σ number·unit), so the judge is the grammar, not the implementation.
-/
import AcmedVerif.Model.Period

namespace AcmedVerif.Spec.C19
open AcmedVerif.Period

inductive StartOutcome
  | starts | startsAfterLimiterSleep | rejected | panicked | died | hung | unknown
  deriving Repr, DecidableEq, Inhabited

def StartOutcome.ofString : String → StartOutcome
  | "starts" => .starts
  | "starts-after-limiter-sleep" => .startsAfterLimiterSleep
  | "rejected" => .rejected
  | "panicked" => .panicked
  | "died" => .died
  | "hung" => .hung
  | _ => .unknown

def startupHolds : StartOutcome → Bool
  | .starts | .startsAfterLimiterSleep | .rejected => true
  | _ => false

/-- What the implementation answered for one period string. -/
inductive PeriodObs
  | accepted (secs : Nat)
  | rejected
  | crashed
  deriving Repr, DecidableEq, Inhabited

def periodHolds (s : List Char) (o : PeriodObs) : Bool :=
  match parse s, o with
  | .ok v, .accepted w => v == w
  | .reject, .rejected => true
  | _, _ => false

end AcmedVerif.Spec.C19
