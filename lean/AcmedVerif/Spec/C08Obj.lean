/-
What C03/C07/C08 demand of the step "read the server's answer":

* `neverSuccess`: an answer whose status is not 2xx never lets the step proceed, and a 2xx answer whose
  body is not a well-formed object of the awaited kind makes the step fail (it is neither used nor
  retried).
* what "well-formed object of the awaited kind" means, stated member by member on the JSON text (`validBody`),
  without the reader's machinery (no scan order, no error kinds): every member key is a decodable string;
  no member the struct knows occurs twice; every known member that is present has the JSON type of its
  field (`null` allowed exactly for the optional ones); every required member is present; a status is one
  of the RFC 8555 words (§7.1.6), lower case.  Unknown members are unconstrained, except inside a challenge
  object, where serde buffers — hence fully reads — every member (`strictOk`).  serde's two alternative
  notations are part of the definition because the code accepts them: a struct as the ARRAY of its fields,
  a status as `{"word": null}`.

The lexical layer (`lex`, `J`, `decodeStr`, `numVal`, `strictErr`) is shared with the model.
-/
import AcmedVerif.Model.AcmeObj

namespace AcmedVerif.Spec.C08Obj
open AcmedVerif.AcmeObj

/-! ### Values -/

/-- A string all of whose escapes decode. -/
def isStr : J → Bool
  | .str raw => (decodeStr raw).isSome
  | _ => false

def isBool : J → Bool
  | .bool _ => true
  | _ => false

/-- A non-negative integer below 2^64 written without fraction or exponent (`-0` is not one). -/
def isUsize : J → Bool
  | .num n => match numVal n with
    | .u64 _ => true
    | _ => false
  | _ => false

def orNull (p : J → Bool) (j : J) : Bool := j.isNull || p j

def isList (p : J → Bool) : J → Bool
  | .arr xs => xs.all p
  | _ => false

def decodesTo (raw : List Char) (names : List String) : Bool :=
  match decodeStr raw with
  | some cs => names.contains (String.ofList cs)
  | none => false

/-- One of the words, as a string or as `{"word": null}`; `c`: inside a challenge `{"word": {}}` too. -/
def isWord (c : Bool) (names : List String) : J → Bool
  | .str raw => decodesTo raw names
  | .obj [(k, v)] => decodesTo k names && (v.isNull || (c && v.isEmptyObj))
  | _ => false

/-! ### Objects member by member -/

def keyOf (kv : List Char × J) : Option String := (decodeStr kv.1).map String.ofList

def keysDecodable (ms : List (List Char × J)) : Bool := ms.all fun kv => (keyOf kv).isSome

def occurrences (name : String) (ms : List (List Char × J)) : Nat :=
  (ms.filter fun kv => keyOf kv == some name).length

def present (name : String) (ms : List (List Char × J)) : Bool := ms.any fun kv => keyOf kv == some name

/-- One member: its key decodes and, if the struct knows the key, the value has the type `ok` demands. -/
def memberOk (known : List String) (ok : String → J → Bool) (kv : List Char × J) : Bool :=
  match keyOf kv with
  | some key => !known.contains key || ok key kv.2
  | none => false

/-- Keys decodable, no known member twice, every known member has the type `ok` demands. -/
def membersOk (known : List String) (ok : String → J → Bool) (ms : List (List Char × J)) : Bool :=
  keysDecodable ms && known.all (fun n => occurrences n ms ≤ 1) && ms.all (memberOk known ok)

/-- A struct given as an array: exactly one element per field, each of the field's type. -/
def elementsOk : List (J → Bool) → List J → Bool
  | [], [] => true
  | p :: ps, x :: xs => p x && elementsOk ps xs
  | _, _ => false

/-! ### The RFC 8555 objects as the code reads them -/

def problemMemberOk (key : String) (v : J) : Bool :=
  if key = "status" then orNull isUsize v else orNull isStr v

/-- RFC 7807 problem document: `type`, `detail` strings, `status` a number; all optional. -/
def validProblem : J → Bool
  | .obj ms => membersOk problemFields problemMemberOk ms
  | .arr xs => elementsOk [orNull isStr, orNull isUsize, orNull isStr] xs
  | _ => false

def identifierMemberOk (key : String) (v : J) : Bool :=
  if key = "type" then isWord false idTypeNames v else isStr v

def validIdentifier : J → Bool
  | .obj ms => membersOk identifierFields identifierMemberOk ms && present "type" ms && present "value" ms
  | .arr xs => elementsOk [isWord false idTypeNames, isStr] xs
  | _ => false

def orderMemberOk (key : String) (v : J) : Bool :=
  if key = "status" then isWord false orderStatusNames v
  else if key = "identifiers" then isList validIdentifier v
  else if key = "error" then orNull validProblem v
  else if key = "authorizations" then isList isStr v
  else if key = "finalize" then isStr v
  else orNull isStr v

def orderRequired : List String := ["status", "identifiers", "authorizations", "finalize"]

/-- RFC 8555 §7.1.3 as far as the code reads it. -/
def validOrder : J → Bool
  | .obj ms => membersOk orderFields orderMemberOk ms && orderRequired.all (present · ms)
  | .arr xs => elementsOk [isWord false orderStatusNames, orNull isStr, isList validIdentifier, orNull isStr,
      orNull isStr, orNull validProblem, isList isStr, isStr, orNull isStr] xs
  | _ => false

/-- Every string decodes, every number is finite as an f64, at most `rem - 1` containers are nested. -/
def strictOk (rem : Nat) (j : J) : Bool := (strictErr rem j).isNone

/-- A problem document in a challenge (read from serde's buffer). -/
def validProblemC : J → Bool
  | .obj ms => membersOk problemFields problemMemberOk ms
  | .arr xs => elementsOk [orNull isStr, orNull isUsize, orNull isStr] xs
  | _ => false

def tokenMemberOk (key : String) (v : J) : Bool :=
  if key = "url" then isStr v
  else if key = "status" then orNull (isWord true chalStatusNames) v
  else if key = "validated" then orNull isStr v
  else if key = "error" then orNull validProblemC v
  else isStr v

def isTokenType (raw : List Char) : Bool := decodesTo raw ["http-01", "dns-01", "tls-alpn-01"]

/-- RFC 8555 §7.1.5/§8 as the code reads it: `rem` is the nesting budget left (128 for a text of its
own, 126 inside an authorization).  Exactly one member is named `type`, a string; every other member —
known or not — is fully readable (`strictOk`); if the type is one of the three the code knows, the other
members form a token challenge (`url` and `token` present).  A challenge of another type is valid
whatever else it holds (it becomes `Challenge::Unknown`).  Array notation: the type first. -/
def validChallenge (rem : Nat) : J → Bool
  | .obj ms =>
    decide (2 ≤ rem) && keysDecodable ms && decide (occurrences "type" ms = 1) &&
    (ms.all fun kv => if isTypeKey kv then isStr kv.2 else strictOk (rem - 1) kv.2) &&
    (match ms.find? isTypeKey with
     | some (_, .str raw) =>
       !isTokenType raw ||
         (let rest := ms.filter fun kv => !isTypeKey kv
          membersOk tokenFields tokenMemberOk rest && present "url" rest && present "token" rest)
     | _ => false)
  | .arr (.str raw :: rest) =>
    decide (2 ≤ rem) && (decodeStr raw).isSome && rest.all (strictOk (rem - 1)) &&
    (if isTokenType raw then
       elementsOk [isStr, orNull (isWord true chalStatusNames), orNull isStr, orNull validProblemC, isStr] rest
     else rest.isEmpty)
  | _ => false

def authzMemberOk (rem : Nat) (key : String) (v : J) : Bool :=
  if key = "identifier" then validIdentifier v
  else if key = "status" then isWord false authzStatusNames v
  else if key = "expires" then orNull isStr v
  else if key = "challenges" then isList (validChallenge (rem - 2)) v
  else orNull isBool v

def authzRequired : List String := ["identifier", "status", "challenges"]

/-- RFC 8555 §7.1.4 as far as the code reads it. -/
def validAuthorization (rem : Nat) : J → Bool
  | .obj ms => membersOk authzFields (authzMemberOk rem) ms && authzRequired.all (present · ms)
  | .arr xs => elementsOk [validIdentifier, isWord false authzStatusNames, orNull isStr,
      isList (validChallenge (rem - 2)), orNull isBool] xs
  | _ => false

def metaMemberOk (key : String) (v : J) : Bool :=
  if key = "caaIdentities" then orNull (isList isStr) v
  else if key = "externalAccountRequired" then orNull isBool v
  else orNull isStr v

def validMeta : J → Bool
  | .obj ms => membersOk metaFields metaMemberOk ms
  | .arr xs => elementsOk [orNull isStr, orNull isStr, orNull (isList isStr), orNull isBool] xs
  | _ => false

def directoryMemberOk (key : String) (v : J) : Bool :=
  if key = "meta" then orNull validMeta v
  else if key = "newAuthz" then orNull isStr v
  else isStr v

def directoryRequired : List String := ["newNonce", "newAccount", "newOrder", "revokeCert", "keyChange"]

/-- RFC 8555 §7.1.1 as far as the code reads it. -/
def validDirectory : J → Bool
  | .obj ms => membersOk directoryFields directoryMemberOk ms && directoryRequired.all (present · ms)
  | .arr xs => elementsOk [orNull validMeta, isStr, isStr, isStr, orNull isStr, isStr, isStr] xs
  | _ => false

def accountMemberOk (rem : Nat) (key : String) (v : J) : Bool :=
  if key = "status" then isStr v
  else if key = "contact" then orNull (isList isStr) v
  else if key = "termsOfServiceAgreed" then orNull isBool v
  else if key = "externalAccountBinding" then orNull (strictOk (rem - 1)) v
  else orNull isStr v

/-- RFC 8555 §7.1.2 as far as the code reads it (`status` is any string). -/
def validAccount (rem : Nat) : J → Bool
  | .obj ms => membersOk accountFields (accountMemberOk rem) ms && present "status" ms
  | .arr xs => elementsOk [isStr, orNull (isList isStr), orNull isBool, orNull (strictOk (rem - 1)),
      orNull isStr] xs
  | _ => false

/-- The body is a well-formed object of the awaited kind. -/
def validBody (aw : Awaited) (body : String) : Bool :=
  match aw with
  | .raw => true
  | _ => match lex body with
    | none => false
    | some j => match aw with
      | .directory => validDirectory j
      | .account => validAccount 128 j
      | .order => validOrder j
      | .authorization => validAuthorization 128 j
      | .raw => true

/-- The judge: what the step did (`out`) with an answer of this status and body. -/
def neverSuccess (aw : Awaited) (status : Nat) (body : String) (out : StepOutcome) : Bool :=
  (is2xx status || out != .proceeds) &&
  (!(is2xx status && !validBody aw body) || out == .fails)

end AcmedVerif.Spec.C08Obj
