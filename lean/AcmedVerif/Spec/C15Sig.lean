/-
C15 — "signatures have the JWS-mandated length": the length RFC 7518 §3.3/§3.4 and RFC 8037 §3.1
prescribe for each algorithm acmed can sign with.  Independent of the model.
-/
namespace AcmedVerif.Spec.C15

/-- Octet length of a JWS signature: ECDSA = two coordinates of the curve's size (RFC 7518 §3.4),
EdDSA = 64 / 114 (RFC 8032 §5.1.6 / §5.2.6), RSASSA-PKCS1-v1_5 = the modulus size (RFC 8017 §8.2.1). -/
def sigLenFor (alg : String) (modulusBytes : Nat) : Option Nat :=
  match alg with
  | "ES256" => some 64
  | "ES384" => some 96
  | "ES512" => some 132
  | "Ed25519" => some 64
  | "Ed448" => some 114
  | "RS256" => if modulusBytes = 0 then none else some modulusBytes
  | _ => none

/-- The judge: the observed signature has exactly that length. -/
def sigLenHolds (alg : String) (modulusBytes observed : Nat) : Bool :=
  sigLenFor alg modulusBytes == some observed

end AcmedVerif.Spec.C15
