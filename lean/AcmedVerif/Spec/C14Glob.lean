/-
Judge of include resolution (C14, clause "glob expansion relative to the including file"), stated on what
`get_cnf_path(from, file)` RETURNED, without the model's matcher or walk:

for a relative include `file` of a file whose canonical directory is `dir`
* every returned path lies in `dir`, literally (`inDir`): it is `dir` itself or `dir`, a separator, more;
* if `file` is a plain relative name (no metacharacter `?` `*` `[`, every component a proper name) and
  `dir/file` is a regular file reached through real, searchable directories only (`plainFile`: a lookup by
  name in the listing, no links, no `.`/`..`), then `dir/file` is among the returned paths.
An absolute include is not judged here.
-/
import AcmedVerif.Model.Glob

namespace AcmedVerif.Spec.C14Glob
open AcmedVerif.Glob

/-- `dir` with exactly one separator at its end. -/
def withSep (dir : Str) : Str := if dir.getLast? == some '/' then dir else dir ++ ['/']

/-- `p` is `dir` or continues `dir` after a separator. -/
def inDir (dir p : Str) : Bool := p == dir || (withSep dir).isPrefixOf p

def isMeta (c : Char) : Bool := c == '?' || c == '*' || c == '['

/-- The pieces between separators (at least one, possibly empty). -/
def pieces : Str → List Str
  | [] => [[]]
  | c :: cs =>
    if c == '/' then [] :: pieces cs
    else match pieces cs with
      | h :: t => (c :: h) :: t
      | [] => [[c]]

/-- The names `cs`, looked up one after the other from the directory whose canonical path is `loc`, lead
through real searchable directories to a regular file. -/
def plainFile (L : Listing) : List Str → List Str → Bool
  | _, [] => false
  | loc, [c] =>
    match L.lookup loc with
    | some info => info.canSearch && info.entries.lookup c == some Kind.file
    | none => false
  | loc, c :: cs =>
    match L.lookup loc with
    | some info => info.canSearch && info.entries.lookup c == some Kind.dir && plainFile L (loc ++ [c]) cs
    | none => false

/-- `file` names one thing, literally. -/
def plainName (file : Str) : Bool := !file.any isMeta && (pieces file).all validName

def isRelative (file : Str) : Bool := file.head? != some '/'

/-- Canonical components of an absolute canonical directory. -/
def dirComps (dir : Str) : List Str := (pieces dir).filter (!·.isEmpty)

/-- The literal path the include names. -/
def named (dir file : Str) : Str := withSep dir ++ file

/-- The include names an existing regular file, literally. -/
def namesFile (L : Listing) (dir file : Str) : Bool :=
  isRelative file && plainName file && plainFile L (dirComps dir) (pieces file)

def allInside (dir : Str) (returned : List Str) : Bool := returned.all (inDir dir)

def holds (L : Listing) (dir file : Str) (returned : List Str) : Bool :=
  !isRelative file ||
  (allInside dir returned && (!namesFile L dir file || returned.contains (named dir file)))

end AcmedVerif.Spec.C14Glob
