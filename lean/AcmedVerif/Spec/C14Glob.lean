/-
Judge of include resolution (C14, clause "glob expansion relative to the including file"), stated on what
`get_cnf_path(from, file)` RETURNED, without the model's matcher or walk:

for a relative include `file` of a file whose canonical directory is `dir`
* every returned path lies in `dir`, literally (`inDir`): it is `dir` itself or `dir`, a separator, more;
* if `file` is a plain relative name (no metacharacter `?` `*` `[`, every component a proper name) and
  `dir/file` is a regular file reached through real, searchable directories only (`plainFile`: a lookup by
  name in the listing, no links, no `.`/`..`), then `dir/file` is among the returned paths;
* if `file` is plain directory names followed by `*` and a literal suffix (the shape `conf.d/*.toml`), and that
  directory is reached through real, searchable directories and can itself be listed and searched, then every
  regular file in it whose name ends with the suffix is among the returned paths (`starFiles`).
An absolute include is not judged here.
-/
import AcmedVerif.Model.Glob

namespace AcmedVerif.Spec.C14Glob
open AcmedVerif.Glob

/-- `dir` with exactly one separator at its end. -/
def withSep (dir : Str) : Str := if dir.getLast? == some '/' then dir else dir ++ ['/']

/-- `p` is `dir` or continues `dir` after a separator. -/
def inDir (dir p : Str) : Bool := p == dir || (withSep dir).isPrefixOf p

def isMeta (c : Char) : Bool := c == '?' || c == '*' || c == '['

/-- The pieces between separators (at least one, possibly empty). -/
def pieces : Str → List Str
  | [] => [[]]
  | c :: cs =>
    if c == '/' then [] :: pieces cs
    else match pieces cs with
      | h :: t => (c :: h) :: t
      | [] => [[c]]

/-- The names `cs`, looked up one after the other from the directory whose canonical path is `loc`, lead
through real searchable directories to a regular file. -/
def plainFile (L : Listing) : List Str → List Str → Bool
  | _, [] => false
  | loc, [c] =>
    match L.lookup loc with
    | some info => info.canSearch && info.entries.lookup c == some Kind.file
    | none => false
  | loc, c :: cs =>
    match L.lookup loc with
    | some info => info.canSearch && info.entries.lookup c == some Kind.dir && plainFile L (loc ++ [c]) cs
    | none => false

/-- `file` names one thing, literally. -/
def plainName (file : Str) : Bool := !file.any isMeta && (pieces file).all validName

def isRelative (file : Str) : Bool := file.head? != some '/'

/-- Canonical components of an absolute canonical directory. -/
def dirComps (dir : Str) : List Str := (pieces dir).filter (!·.isEmpty)

/-- The literal path the include names. -/
def named (dir file : Str) : Str := withSep dir ++ file

/-- The include names an existing regular file, literally. -/
def namesFile (L : Listing) (dir file : Str) : Bool :=
  isRelative file && plainName file && plainFile L (dirComps dir) (pieces file)

def allInside (dir : Str) (returned : List Str) : Bool := returned.all (inDir dir)

/-- The directory the names `cs` lead to from `loc`, through real searchable directories. -/
def plainDir (L : Listing) : List Str → List Str → Option (List Str)
  | loc, [] => some loc
  | loc, c :: cs =>
    match L.lookup loc with
    | some info =>
      if info.canSearch && info.entries.lookup c == some Kind.dir then plainDir L (loc ++ [c]) cs else none
    | none => none

def endsWith (name suffix : Str) : Bool := suffix.reverse.isPrefixOf name.reverse

/-- `file` = plain directory names, then `*` and a literal suffix: (the names, the suffix). -/
def starShape (file : Str) : Option (List Str × Str) :=
  let ps := pieces file
  match ps.getLast? with
  | some ('*' :: suffix) =>
    if !suffix.any isMeta && ps.dropLast.all (fun n => validName n && !n.any isMeta) then some (ps.dropLast, suffix) else none
  | _ => none

/-- The paths a `names/*suffix` include must return: the regular files with that suffix of a directory that is
really there and can be listed. -/
def starFiles (L : Listing) (dir file : Str) : List Str :=
  if !isRelative file then [] else
  match starShape file with
  | none => []
  | some (names, suffix) =>
    match plainDir L (dirComps dir) names with
    | none => []
    | some loc =>
      match L.lookup loc with
      | some info =>
        if info.canList && info.canSearch then
          (info.entries.filter fun e => e.2 == Kind.file && endsWith e.1 suffix).map fun e =>
            withSep dir ++ (names.flatMap fun n => n ++ ['/']) ++ e.1
        else []
      | none => []

def holds (L : Listing) (dir file : Str) (returned : List Str) : Bool :=
  !isRelative file ||
  (allInside dir returned && (!namesFile L dir file || returned.contains (named dir file)) &&
   (starFiles L dir file).all returned.contains)

end AcmedVerif.Spec.C14Glob
