/-
C13 judge: the `stat` of a file after one `write_file` call of the real code that got past its pre
hooks and whose `set_owner` did not fail, against what the property demands.  Stated with plain
arithmetic on mode bits; nothing here mentions `Storage.writeFile` or the `Fs` operations.

What the property demands of a file of type `t`:
* created (did not exist): mode = configured mode of the type (`0o600` for accounts) masked by the
  umask, owner/group = the process';  existing: mode, owner, group as before;
* key and certificate files: then owner := configured user, group := configured group where
  configured and resolvable (`wantUid/wantGid`, resolved by the HARNESS from the passwd/group
  database, `none` = not configured or unknown name); account files: never re-owned.
POSIX side effects the judge must know about to be exact on all 4096 modes (Linux):
* `chown` clears set-user-id always, set-group-id when group-execute is set or the caller is
  neither privileged nor in the file's group; an unprivileged `write`/truncate does the same;
* the id 4294967295 is `(uid_t)-1`, "unchanged".
-/
import AcmedVerif.Gen.Consts
import AcmedVerif.Model.Storage

namespace AcmedVerif.Spec.C13
open AcmedVerif.Storage

structure Stat where
  mode : Nat
  uid : Nat
  gid : Nat
  deriving Repr, DecidableEq, Inhabited

structure Case where
  ftype : FileType
  certMode : Nat            -- `cert_file_mode` in force
  pkMode : Nat              -- `pk_file_mode` in force
  umask : Nat
  procUid : Nat
  procGid : Nat
  fsetid : Bool             -- the process has CAP_FSETID (root)
  prev : Option Stat        -- the file the write FOUND when it opened the path; `none`: it created the file
                            -- (hooks that do not touch the file: `none` = absent before the call; hooks that
                            -- move/replace it: taken at open time, see Spec/C13Fx.lean `foundAtOpen`)
  wantUid : Option Nat      -- resolved configured owner for this file type
  wantGid : Option Nat      -- resolved configured group for this file type
  dataEmpty : Bool          -- zero bytes were written
  observed : Stat
  deriving Repr, DecidableEq, Inhabited

def cfgMode (c : Case) : Nat :=
  match c.ftype with
  | .certificate => c.certMode
  | .privateKey => c.pkMode
  | .account => AcmedVerif.Gen.DEFAULT_ACCOUNT_FILE_MODE

def bit (m b : Nat) : Bool := (m &&& b) != 0
def clear (m b : Nat) : Nat := m ^^^ (m &&& b)

/-- Mode after the kernel removed the special bits it removes on `chown` (or unprivileged write). -/
def stripSpecial (inGroupOrCapable : Bool) (m : Nat) : Nat :=
  let m1 := clear m 0o4000
  if bit m 0o2000 && (bit m 0o010 || !inGroupOrCapable) then clear m1 0o2000 else m1

def newId (want : Option Nat) (old : Nat) : Nat :=
  match want with
  | some n => if n = 4294967295 then old else n
  | none => old

def expected (c : Case) : Stat :=
  let base : Stat :=
    match c.prev with
    | none => { mode := cfgMode c &&& (0o7777 ^^^ (c.umask &&& 0o777)), uid := c.procUid, gid := c.procGid }
    | some st => st
  let isAccount := decide (c.ftype = .account)
  let unprivWrite := !c.fsetid && (c.prev.isSome || !c.dataEmpty)
  let strip := unprivWrite || !isAccount
  let mode := if strip then stripSpecial (c.fsetid || c.procGid == base.gid) base.mode else base.mode
  if isAccount then { base with mode := mode }
  else { mode := mode, uid := newId c.wantUid base.uid, gid := newId c.wantGid base.gid }

def holds (c : Case) : Bool := decide (c.observed = expected c)

/-- The part of the property that matters for secrecy: no group/other permission bit. -/
def isPrivate (mode : Nat) : Bool := (mode &&& 0o077) == 0

end AcmedVerif.Spec.C13
