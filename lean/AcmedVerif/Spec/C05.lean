/-
C05 judge: what the property demands of ONE authorization of an observed issuance (mock CA log + hook
recorder log in one total order).  Import-free, model-free: the expected proof values are computed by
the harness through `Model/Jose` (own SHA-256) from the token and the account JWK on the CA's record,
and arrive here as the flag `proofOk`.

"For each pending authorization the daemon runs the challenge hooks of the type configured for the
identifier that authorization is for (the wildcard entry for a wildcard authorization), and hands them
the values RFC 8555 section 8 and RFC 8737 prescribe …  It tells the CA that a challenge is ready only
after those hooks succeeded, and runs no challenge hook for an authorization that is already valid."
-/
namespace AcmedVerif.Spec.C05

structure AuthzObs where
  /-- the CA served this authorization as already valid -/
  servedValid : Bool
  /-- challenge type configured for the identifier this authorization is for ("http-01", …) -/
  configuredType : String
  /-- challenge types the CA offered in this authorization, in order (duplicates possible) -/
  offered : List String
  /-- hook types of the challenge (not clean) hooks run for this authorization, in order -/
  hookTypes : List String
  /-- the `identifier` variable of each such hook is the configured entry's value -/
  hookIdentOk : Bool
  /-- file_name / proof / raw_proof / identifier_tls_alpn of each hook equal the prescribed values -/
  proofOk : Bool
  /-- some challenge hook of this authorization exited non-zero (without allow_failure) -/
  hookFailed : Bool
  /-- number of "challenge ready" POSTs for this authorization -/
  readyPosts : Nat
  /-- every ready POST came after the end of a successful hook run for that challenge -/
  readyAfterHooks : Bool
  deriving Repr, DecidableEq, Inhabited

def matching (a : AuthzObs) : Nat := (a.offered.filter (· == a.configuredType)).length

def authzOk (a : AuthzObs) : Bool :=
  if a.servedValid then a.hookTypes.isEmpty && a.readyPosts == 0
  else
    let want := List.replicate (matching a) ("challenge-" ++ a.configuredType)
    if a.hookFailed then
      -- the failing hook is the last one run; nothing is announced for it
      a.hookTypes.all (· == "challenge-" ++ a.configuredType) && a.hookTypes.length ≤ matching a &&
      a.hookIdentOk && a.proofOk && a.readyPosts + 1 == a.hookTypes.length && a.readyAfterHooks
    else
      a.hookTypes == want && a.hookIdentOk && a.proofOk && a.readyPosts == matching a && a.readyAfterHooks

def holds (authzs : List AuthzObs) : Bool := authzs.all authzOk

end AcmedVerif.Spec.C05
