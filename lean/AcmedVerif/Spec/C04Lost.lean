/-
C04 judge under uncertainty: what the property demands of the log of POSTs one ACME server received
when the answer to a key roll-over request did not reach the client.

"… Its signature verifies under the key the server has on record for that account …; the client
acts on what the protocol mandates in all message flows including retries, account updates, key
roll-overs".  A keyChange request that gets no answer leaves EVERY client ignorant of the key the
server has on record: the request may have been processed (the server holds the new key) or not (it
holds the old one).  The first request whose answer arrives settles the question.  So:

* after an UNANSWERED keyChange request, the requests up to and including the first request that
  RECEIVES AN ANSWER may be signed by either key of the pending exchange (the key the server had on
  record when the keyChange request arrived, or the key its inner object carries); every other
  clause of `Spec.C04.reqOk` (flattened form, header members, url, nonce issued and fresh, kid,
  signature length, algorithm matching the key that verifies) is demanded as always;
* every request outside such a window is judged by `Spec.C04.reqOk` itself: nothing is loosened
  for histories without an unanswered keyChange request, nor after the window has closed.

Import-free apart from `Spec/C04.lean`; model-free.
-/
import AcmedVerif.Spec.C04

namespace AcmedVerif.Spec.C04Lost
open AcmedVerif.Spec.C04

/-- One record of the log with what the window needs. -/
structure ReqX where
  base : ReqObs
  /-- an outer request (a POST as received); `false`: an object inside the payload of the outer
  request that precedes it in the log (key-change inner JWS, external account binding) -/
  outer : Bool
  /-- outer only: sent to the keyChange URL -/
  isKeyChange : Bool
  /-- outer only: an answer was delivered for this request -/
  answered : Bool
  /-- the signature verifies under the OTHER key of the pending exchange (for the inner key-change
  object: it verifies and names that other key as `oldKey`); meaningful inside a window only -/
  sigOkAlt : Bool
  /-- key kind of that other key (`ReqObs.keyKind` of it) -/
  altKeyKind : String
  deriving Repr, DecidableEq, Inhabited

/-- `reqOk` under the key on record, or under the other key of the pending exchange. -/
def reqOkEither (x : ReqX) : Bool :=
  reqOk x.base || reqOk { x.base with sigOk := x.sigOkAlt, keyKind := x.altKeyKind }

/-- The window after one OUTER request: an unanswered keyChange request opens it; any answered
request closes it; anything else (an unanswered request of another kind) leaves it as it is. -/
def nextWindow (win : Bool) (x : ReqX) : Bool :=
  if x.isKeyChange && !x.answered then true else if x.answered then false else win

/-- Verdict per record.  `win`: a keyChange request is unanswered and no request has been answered
since; `winOuter`: the window the last outer request was judged under (its inner objects are judged
under the same one). -/
def judge : Bool → Bool → List ReqX → List Bool
  | _, _, [] => []
  | win, winOuter, x :: rest =>
    if x.outer then
      (if win then reqOkEither x else reqOk x.base) :: judge (nextWindow win x) win rest
    else
      (if winOuter then reqOkEither x else reqOk x.base) :: judge win winOuter rest

def holds (log : List ReqX) : Bool := (judge false false log).all id

/-- Number of outer requests admitted ONLY because of a window (they fail `reqOk`). -/
def admitted : Bool → List ReqX → Nat
  | _, [] => 0
  | win, x :: rest =>
    if x.outer then
      (if win && !reqOk x.base && reqOkEither x then 1 else 0) + admitted (nextWindow win x) rest
    else admitted win rest

end AcmedVerif.Spec.C04Lost
