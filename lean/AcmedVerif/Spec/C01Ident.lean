/-
C01 judge, identifier clauses: "the newOrder request lists exactly the configured identifiers (DNS
names as lowercase A-labels with wildcards kept, IP addresses in canonical text form), and the CSR
has exactly those names as subjectAltName dNSName/iPAddress entries".

Inputs: for every configured identifier its type, the raw text of the configuration and the
normalised text EXPECTED, computed by the harness with an independent implementation (Python
`str.lower` + `encodings.punycode`, `ipaddress`).  The judge checks that expectation against its
own definition of "lowercase A-label form" (below; no use of the model's `to_idna` or encoder),
then compares the observed newOrder identifiers (order and types included) and the observed CSR
subjectAltName entries (as multisets per class) with it.  Only character-level helpers of
`Model/Idna.lean` are used (`isAscii`, `asciiLower`, `splitOn`).
-/
import AcmedVerif.Model.Idna
import AcmedVerif.Model.Ident

namespace AcmedVerif.Spec.C01Ident
open AcmedVerif.Idna (isAscii isAsciiUpper asciiLower allAscii splitOn xnPrefix)
open AcmedVerif.Ident (IdType)

structure CfgId where
  idType : IdType
  raw : List Char
  expected : List Char
  deriving Repr, DecidableEq

/-- One label of the expected name against the label of the raw name at the same position. -/
def labelOk (rawLabel expLabel : List Char) : Bool :=
  allAscii expLabel &&
  expLabel.all (fun c => !isAsciiUpper c) &&
  (if allAscii rawLabel then expLabel == rawLabel.map asciiLower   -- incl. `*` ↦ `*`
   else xnPrefix.isPrefixOf expLabel)

def labelsOk : List (List Char) → List (List Char) → Bool
  | [], [] => true
  | r :: rs, e :: es => labelOk r e && labelsOk rs es
  | _, _ => false

/-- "lowercase A-labels with wildcards kept": same number of labels, label by label. -/
def dnsShapeOk (raw expected : List Char) : Bool :=
  labelsOk (splitOn '.' raw) (splitOn '.' expected)

/-- Canonical IP text as Rust prints it: digits, lower-case hex digits, ':' and '.', not empty. -/
def ipShapeOk (expected : List Char) : Bool :=
  !expected.isEmpty &&
  expected.all fun c =>
    (48 ≤ c.toNat && c.toNat ≤ 57) || (97 ≤ c.toNat && c.toNat ≤ 102) || c == ':' || c == '.'

def shapeOk (c : CfgId) : Bool :=
  match c.idType with
  | .dns => dnsShapeOk c.raw c.expected
  | .ip => ipShapeOk c.expected

def expectedOf (t : IdType) (cfg : List CfgId) : List (List Char) :=
  (cfg.filter fun c => c.idType = t).map (·.expected)

/-- The judge. `order` = the `identifiers` array of the observed newOrder payload, in order;
`csrDns` / `csrIps` = the dNSName / iPAddress entries of the observed CSR (addresses rendered in
canonical text form by the DER parser of the harness). -/
def holds (cfg : List CfgId) (order : List (IdType × List Char))
    (csrDns csrIps : List (List Char)) : Bool :=
  cfg.all shapeOk &&
  order == cfg.map (fun c => (c.idType, c.expected)) &&
  csrDns.isPerm (expectedOf .dns cfg) &&
  csrIps.isPerm (expectedOf .ip cfg)

end AcmedVerif.Spec.C01Ident
