/-
C18 judge: what the property demands of ONE observed scenario of the TLS grid, stated on what can be
seen from outside.  Ground truth (known to the harness, which built the chains and the root files):
* `chainValid`   — the chain served by the mock validates for the URL's host name against the system
                   store ∪ the configured roots (command line ++ endpoint ++ global);
* `rootFilesOk`  — every listed root file is a readable PEM certificate.
Observed: the number of HTTP requests that reached the TLS mock (`requestsSeen`), how many of them
carried a JWS (`signedRequestsSeen`), and whether acmed reported the attempt as successful.

Demand: (¬chainValid ∨ ¬rootFilesOk) → requestsSeen = 0 ∧ ¬attemptOk.  (`signedRequestsSeen = 0` is
checked too; it follows from `requestsSeen = 0` for a sound recorder.)  Nothing is demanded of the
trusted case — that an issuance then succeeds is not part of C18.
-/
namespace AcmedVerif.Spec.C18

structure Obs where
  chainValid : Bool
  rootFilesOk : Bool
  requestsSeen : Nat
  signedRequestsSeen : Nat
  attemptOk : Bool
  deriving Repr, DecidableEq

def holds (o : Obs) : Bool :=
  if !o.chainValid || !o.rootFilesOk then
    o.requestsSeen == 0 && o.signedRequestsSeen == 0 && !o.attemptOk
  else true

/-- The root list acmed reports (`config_probe` dump) against the three configured sources: the
concatenation command line ++ endpoint ++ global, an absent key contributing nothing. -/
def rootsHold (cli : List String) (endpoint global : Option (List String)) (observed : List String) :
    Bool :=
  observed == cli ++ endpoint.getD [] ++ global.getD []

end AcmedVerif.Spec.C18
