/-
C11 judge (flow part): what the first two sentences of the property demand of ONE observed renewal
on ONE endpoint, stated on what a black-box harness sees: the ordered log of signed requests of
that renewal (account-level requests AND the others, so that "the previous answer was
accountDoesNotExist" can be read off the log), flags about the stored state before the renewal,
and the CA's record afterwards.  Independent of `Model/Flow.lean`.
-/
namespace AcmedVerif.Spec.C11

inductive Kind | newAccount | accountUpdate | keyChange | other
  deriving DecidableEq, Repr, Inhabited

/-- Which key signed the outer JWS: the account's current key, the past key whose fingerprint the
endpoint record carried before the renewal, or something else. -/
inductive Signer | current | recordedPast | other
  deriving DecidableEq, Repr, Inhabited

inductive Answer | ok | accountDoesNotExist | other
  deriving DecidableEq, Repr, Inhabited

structure Req where
  kind       : Kind
  /-- `true` = public key carried as `jwk`, `false` = account URL as `kid` -/
  jwk        : Bool
  signer     : Signer
  /-- the outer signature verifies under the key the CA holds for the account at that moment
  (for `newAccount`: under the `jwk` it carries) -/
  outerSigOk : Bool
  /-- key-change only: the inner object is signed by (and carries) the new key; `true` otherwise -/
  innerSigOk : Bool
  answer     : Answer
  deriving DecidableEq, Repr, Inhabited

structure Obs where
  /-- an account URL was stored for this endpoint before the renewal -/
  urlStoredBefore : Bool
  /-- an external account binding is configured and differs from the one recorded -/
  bindingChanged  : Bool
  /-- the configured contacts differ from the recorded ones -/
  contactsChanged : Bool
  /-- the configured key type / signature algorithm differ from the recorded key -/
  keyChanged      : Bool
  /-- all signed requests of the renewal, in order (directory / nonce GETs excluded) -/
  reqs            : List Req
  /-- the renewal succeeded -/
  success         : Bool
  /-- afterwards: the CA's contacts equal the configured ones -/
  caContactsEqual : Bool
  /-- afterwards: the CA's key for the account is the account's current key -/
  caKeyIsCurrent  : Bool
  deriving DecidableEq, Repr, Inhabited

/-- An account is created only when no URL is stored, the binding changed (both justify only a
creation that is the FIRST request), or the immediately preceding request was answered
`accountDoesNotExist`. `allow` = the justification still available. -/
def registerOnlyWhen : Bool → List Req → Bool
  | _, [] => true
  | allow, r :: rest =>
    (r.kind != .newAccount || allow) && registerOnlyWhen (r.answer == .accountDoesNotExist) rest

/-- `jwk` exactly for account creation; creation and contact update signed by the current key, the
roll-over by the recorded past key; every signature verifies under the key the CA holds.  Any other
request (orders, authorisations, …, and the POST-as-GET of the account a client may send before a
roll-over to learn which key the CA holds): `kid`, signed by one of the account's two keys in play
(the current one or the recorded past one) — and, as for every request, by the one the CA holds. -/
def signerOk (r : Req) : Bool :=
  match r.kind with
  | .newAccount => r.jwk && r.signer == .current && r.outerSigOk
  | .accountUpdate => !r.jwk && r.signer == .current && r.outerSigOk
  | .keyChange => !r.jwk && r.signer == .recordedPast && r.outerSigOk && r.innerSigOk
  | .other => !r.jwk && (r.signer == .current || r.signer == .recordedPast) && r.outerSigOk

def count (k : Kind) (reqs : List Req) : Nat := (reqs.filter fun r => r.kind == k).length

/-- One update per changed item (when the CA never answered `accountDoesNotExist` and no creation
was due): exactly one contact update iff the contacts changed, one roll-over iff the key changed,
no creation. -/
def onePerItem (o : Obs) : Bool :=
  if o.urlStoredBefore && !o.bindingChanged && o.success
      && o.reqs.all (fun r => r.answer != .accountDoesNotExist) then
    count .accountUpdate o.reqs == (if o.contactsChanged then 1 else 0)
    && count .keyChange o.reqs == (if o.keyChanged then 1 else 0)
    && count .newAccount o.reqs == 0
  else true

/-- Binding changed together with the contacts, key unchanged (the CA then returns the existing
account unchanged): one creation request followed by exactly one contact update (549b756). -/
def bindingThenContacts (o : Obs) : Bool :=
  if o.urlStoredBefore && o.bindingChanged && o.contactsChanged && !o.keyChanged && o.success
      && o.reqs.all (fun r => r.answer != .accountDoesNotExist) then
    count .newAccount o.reqs == 1 && count .accountUpdate o.reqs == 1 && count .keyChange o.reqs == 0
  else true

/-- The roll-over, when both are due, precedes the contact update. -/
def keyBeforeContacts : List Req → Bool
  | [] => true
  | r :: rest =>
    (r.kind != .accountUpdate || rest.all (fun q => q.kind != .keyChange)) && keyBeforeContacts rest

def holds (o : Obs) : Bool :=
  registerOnlyWhen (!o.urlStoredBefore || o.bindingChanged) o.reqs
  && o.reqs.all signerOk
  && onePerItem o
  && bindingThenContacts o
  && keyBeforeContacts o.reqs
  && (!o.success || (o.caContactsEqual && o.caKeyIsCurrent))

end AcmedVerif.Spec.C11
