/-
C15 judge — JWK, thumbprint input and signature encodings are exact for every key.

What the property demands, written without the model's JOSE functions: the expected texts are
spelled out here from the RFCs (member sets of RFC 7517/7518 §6, RFC 8037 §2; thumbprint input of
RFC 7638 §3: required members only, lexicographic order, no white space; RFC 7518 §3.4: R‖S, each
half of the curve's width; RFC 7518 §6.2.1.2-3: coordinates of the full width of the curve; RFC
7518 §6.3.1: `n`, `e` without leading zero octets), using only `Bytes.toNat` and the base64url
encoder.  The observed texts come from the Rust code (`jwk_public_key`,
`jwk_public_key_thumbprint`, `sign`), the raw components from OpenSSL directly.
-/
import AcmedVerif.Model.Bytes
import AcmedVerif.Model.Base64

namespace AcmedVerif.Spec.C15
open AcmedVerif.Bytes AcmedVerif.Base64

/-- A string value that needs no escaping, in quotes. -/
def q (s : List Char) : List Char := '"' :: (s ++ ['"'])

def pair (kv : List Char × List Char) : List Char := q kv.1 ++ ':' :: q kv.2

def pairs : List (List Char × List Char) → List Char
  | [] => []
  | [kv] => pair kv
  | kv :: kv' :: rest => pair kv ++ ',' :: pairs (kv' :: rest)

/-- `{"k1":"v1","k2":"v2",…}`: compact, in the order given. -/
def tmpl (kvs : List (List Char × List Char)) : List Char := '{' :: (pairs kvs ++ ['}'])

/-- Members of the public JWK acmed sends (RFC 7517 §4 + RFC 7518 §6 / RFC 8037 §2), sorted. -/
def fullMembers (kty : List Char) : List (List Char) :=
  if kty = "RSA".toList then ["alg".toList, "e".toList, "kty".toList, "n".toList, "use".toList]
  else if kty = "EC".toList then
    ["alg".toList, "crv".toList, "kty".toList, "use".toList, "x".toList, "y".toList]
  else if kty = "OKP".toList then
    ["alg".toList, "crv".toList, "kty".toList, "use".toList, "x".toList]
  else []

/-- Required members (RFC 7638 §3.2, RFC 8037 §2), sorted. -/
def requiredMembers (kty : List Char) : List (List Char) :=
  if kty = "RSA".toList then ["e".toList, "kty".toList, "n".toList]
  else if kty = "EC".toList then ["crv".toList, "kty".toList, "x".toList, "y".toList]
  else if kty = "OKP".toList then ["crv".toList, "kty".toList, "x".toList]
  else []

def rsaKvs (e n : List Char) (thumb : Bool) : List (List Char × List Char) :=
  if thumb then [("e".toList, e), ("kty".toList, "RSA".toList), ("n".toList, n)]
  else [("alg".toList, "RS256".toList), ("e".toList, e), ("kty".toList, "RSA".toList),
        ("n".toList, n), ("use".toList, "sig".toList)]

def ecKvs (crv alg x y : List Char) (thumb : Bool) : List (List Char × List Char) :=
  if thumb then [("crv".toList, crv), ("kty".toList, "EC".toList), ("x".toList, x), ("y".toList, y)]
  else [("alg".toList, alg), ("crv".toList, crv), ("kty".toList, "EC".toList),
        ("use".toList, "sig".toList), ("x".toList, x), ("y".toList, y)]

def okpKvs (crv x : List Char) (thumb : Bool) : List (List Char × List Char) :=
  if thumb then [("crv".toList, crv), ("kty".toList, "OKP".toList), ("x".toList, x)]
  else [("alg".toList, "EdDSA".toList), ("crv".toList, crv), ("kty".toList, "OKP".toList),
        ("use".toList, "sig".toList), ("x".toList, x)]

/-- Expected text of the RSA JWK (`thumb = false`) / thumbprint input (`thumb = true`); `e`, `n`
are the base64url texts. -/
def rsaJwk (e n : List Char) (thumb : Bool) : List Char := tmpl (rsaKvs e n thumb)
def ecJwk (crv alg x y : List Char) (thumb : Bool) : List Char := tmpl (ecKvs crv alg x y thumb)
def okpJwk (crv x : List Char) (thumb : Bool) : List Char := tmpl (okpKvs crv x thumb)

/-- Strict lexicographic order on code points (= byte order of the UTF-8 forms, which is the order
of a `BTreeMap<String, _>`; all keys here are ASCII). -/
def ltLex : List Char → List Char → Bool
  | [], [] => false
  | [], _ :: _ => true
  | _ :: _, [] => false
  | a :: as, b :: bs => a.toNat < b.toNat || (a == b && ltLex as bs)

def sortedKeys : List (List Char) → Bool
  | [] => true
  | [_] => true
  | a :: b :: rest => ltLex a b && sortedKeys (b :: rest)

/-- No JSON white space anywhere. -/
def noWs (s : List Char) : Bool := s.all fun c => c != ' ' && c != '\n' && c != '\t' && c != '\r'

/-- Minimal big-endian form of `n` (RFC 7518 §6.3.1.1: no leading zero octets). -/
def isMinimal (n : Nat) (bs : List UInt8) : Bool := toNat bs == n && bs.head? != some 0

/-- Fixed-width big-endian form (RFC 7518 §6.2.1.2: full size of a coordinate). -/
def isFixed (w n : Nat) (bs : List UInt8) : Bool := bs.length == w && toNat bs == n

/-- RSA key with modulus `n`, exponent `e`; `nB`, `eB` = the octets found in the observed JWK. -/
def holdsRsa (n e : Nat) (nB eB : List UInt8) (jwk thumb : List Char) : Bool :=
  isMinimal n nB && isMinimal e eB
    && jwk == rsaJwk (encodeUrl eB) (encodeUrl nB) false
    && thumb == rsaJwk (encodeUrl eB) (encodeUrl nB) true

/-- EC key on a curve of width `w` with affine coordinates `x`, `y`. -/
def holdsEc (crv alg : List Char) (w x y : Nat) (xB yB : List UInt8) (jwk thumb : List Char) : Bool :=
  isFixed w x xB && isFixed w y yB
    && jwk == ecJwk crv alg (encodeUrl xB) (encodeUrl yB) false
    && thumb == ecJwk crv alg (encodeUrl xB) (encodeUrl yB) true

/-- EdDSA key whose raw public key is `key`. -/
def holdsOkp (crv : List Char) (key : List UInt8) (jwk thumb : List Char) : Bool :=
  jwk == okpJwk crv (encodeUrl key) false && thumb == okpJwk crv (encodeUrl key) true

/-- Length of an ES* signature (RFC 7518 §3.4). -/
def sigLen (alg : List Char) : Option Nat :=
  if alg = "ES256".toList then some 64
  else if alg = "ES384".toList then some 96
  else if alg = "ES512".toList then some 132
  else none

/-- The signature octets are R‖S with halves of `w` octets. -/
def holdsSig (w r s : Nat) (sig : List UInt8) : Bool :=
  sig.length == 2 * w && toNat (sig.take w) == r && toNat (sig.drop w) == s

/-- Scanning a JSON string body: a backslash takes the next character with it; outside of that, no
`"` and no control character may occur. -/
def wellEscaped : List Char → Bool
  | [] => true
  | [c] => !(c == '\\' || c == '"' || c.toNat < 0x20)
  | c :: d :: r =>
    if c = '\\' then wellEscaped r
    else if c = '"' ∨ c.toNat < 0x20 then false
    else wellEscaped (d :: r)

/-- Two-character escapes of RFC 8259 §7. -/
def simpleEsc (d : Char) : Option Char :=
  if d = '"' then some '"'
  else if d = '\\' then some '\\'
  else if d = '/' then some '/'
  else if d = 'b' then some (Char.ofNat 8)
  else if d = 'f' then some (Char.ofNat 12)
  else if d = 'n' then some '\n'
  else if d = 'r' then some '\r'
  else if d = 't' then some '\t'
  else none

/-- A reader of JSON string bodies (RFC 8259 §7; `\uXXXX` read as the code point itself, surrogate
pairs not combined): `none` on a raw `"`, a raw control character or a malformed escape. -/
def unescape : List Char → Option (List Char)
  | [] => some []
  | c :: rest =>
    if c = '\\' then
      match rest with
      | [] => none
      | d :: r =>
        if d = 'u' then
          match r with
          | h1 :: h2 :: h3 :: h4 :: r' =>
            match hexVal h1, hexVal h2, hexVal h3, hexVal h4, unescape r' with
            | some a, some b, some c, some d, some t =>
              some (Char.ofNat (a * 4096 + b * 256 + c * 16 + d) :: t)
            | _, _, _, _, _ => none
          | _ => none
        else
          match simpleEsc d, unescape r with
          | some x, some t => some (x :: t)
          | _, _ => none
    else if c = '"' ∨ c.toNat < 0x20 then none
    else
      match unescape rest with
      | some t => some (c :: t)
      | none => none

end AcmedVerif.Spec.C15
