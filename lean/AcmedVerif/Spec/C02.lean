/-
C02 judge (clause C02.3, "every write leaves exactly the new content") and the C10.4 judge
("file writes are bracketed by the file hooks"), stated on what can be observed from outside one
run of the real code: the list of writes requested (path, bytes, reported result) and the bytes
found in the files afterwards.  Nothing here mentions `Storage.writeFile`.

Clauses C02.1/C02.2 (the bytes handed to `write_certificate`/`set_keypair` ARE the served chain /
the CSR key) are about the issuance flow; here they reduce to `holds` with `data` = those bytes.
-/
import AcmedVerif.Model.Storage

namespace AcmedVerif.Spec.C02
open AcmedVerif.Storage

/-- One observed call of `write_file`. -/
structure Obs where
  path : List Char
  data : List UInt8
  ok : Bool          -- the call returned `Ok(())`
  deriving Repr, DecidableEq, Inhabited

/-- The last observation on path `p`. -/
def lastOn (h : List Obs) (p : List Char) : Option Obs :=
  match h with
  | [] => none
  | o :: rest =>
    match lastOn rest p with
    | some l => some l
    | none => if o.path = p then some o else none

def lookup (files : List (List Char × List UInt8)) (p : List Char) : Option (List UInt8) :=
  match files with
  | [] => none
  | (q, c) :: rest => if q = p then some c else lookup rest p

/-- Every path whose last write was reported successful holds exactly the bytes of that write
(`files` = the contents read back at the end; a path missing from it is an absent file). -/
def holds (h : List Obs) (files : List (List Char × List UInt8)) : Bool :=
  h.all fun o =>
    match lastOn h o.path with
    | some l => !l.ok || decide (lookup files o.path = some l.data)
    | none => true

/-- C02.2: "the private-key file is the key whose public half is in that order's CSR".  Both public
keys as DER SubjectPublicKeyInfo extracted independently (from the key file that is on disk, from the
CSR the CA received); `none` = the file is absent / not a key, or the CSR did not parse. -/
def keyIsCsrKey (keyFilePub csrPub : Option (List UInt8)) : Bool :=
  match keyFilePub, csrPub with
  | some a, some b => decide (a = b)
  | _, _ => false

/-- … and the key file holds nothing but that key: exactly one PEM block, labelled PRIVATE KEY, no
residue (the counts come from the strict reader `Pem.pemSplit` of Model/Pem). -/
def keyFileExact (blocks : Nat) (firstLabel : String) (residue : Bool) : Bool :=
  blocks == 1 && firstLabel == "PRIVATE KEY" && !residue

def isHook : Event → Bool
  | .hook _ => true
  | _ => false

/-- C10.4 on the events of one `write_file` call.  `existed`: the file was there before the call;
`preOk`: the pre hooks did not fail hard; `ok`: the call returned `Ok(())`. -/
def bracketHolds (existed preOk ok : Bool) (evs : List Event) : Bool :=
  let pre : HookType := if existed then .filePreEdit else .filePreCreate
  let post : HookType := if existed then .filePostEdit else .filePostCreate
  match evs with
  | [] => false
  | e :: rest =>
    decide (e = .hook pre) &&
    (if !preOk then rest.isEmpty && !ok
     else if ok then
       match rest.getLast? with
       | some l => decide (l = .hook post) && rest.dropLast.contains .written &&
                   rest.dropLast.all (fun x => !isHook x)
       | none => false
     else
       -- a failure after the pre hooks: any further hook event is the matching post hook, last
       rest.dropLast.all (fun x => !isHook x) &&
       (match rest.getLast? with
        | some l => !isHook l || (decide (l = .hook post) && rest.dropLast.contains .written)
        | none => true))

end AcmedVerif.Spec.C02
