/-
C09 judge: what the property demands of one observed run of the limiter, stated on what can be
observed from outside: for every request `i` the instant `call i` at which it entered the limiter
and the instant `ret i` at which it was released (the admission instant lies in between).

Sound bracket: if more than `n` admissions fell in a window of length `p`, then some `i` has
admissions `i … i+n` inside it, so `ret (i+n) - call i < p`.  The judge therefore demands
`call i + p ≤ ret (i+n)` for every `i` — a property of the implementation alone.
-/
import AcmedVerif.Model.Limiter

namespace AcmedVerif.Spec.C09
open AcmedVerif.Limiter

/-- `(call, ret)` pairs in admission order. -/
def bracketOk (lim : Limit) (ev : List (Nat × Nat)) : Bool :=
  let rets := ev.map Prod.snd
  (ev.zipIdx.all fun (e, i) =>
    match rets[i + lim.n]? with
    | none => true
    | some r => decide (e.1 + lim.period ≤ r))

def holds (limits : List Limit) (ev : List (Nat × Nat)) : Bool :=
  limits.all fun l => bracketOk l ev

/-- Progress: every request is released within `bound` of entering. -/
def progressOk (bound : Nat) (ev : List (Nat × Nat)) : Bool :=
  ev.all fun e => decide (e.2 ≤ e.1 + bound)

end AcmedVerif.Spec.C09
