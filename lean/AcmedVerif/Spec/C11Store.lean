/-
C11 judge, persistence clauses: "…everything needed for that (current and superseded keys, URLs,
fingerprints) survives a restart exactly.  A truncated or unreadable account file makes the daemon
refuse to start instead of replacing the identity."

Stated on what the harness observes: field-wise dumps of the account before a save and after a
restart (probe `account_roundtrip`), and, for a damaged file, the daemon's exit status and the file
bytes afterwards.  The dumps use the record types of `Model/Bincode.lean` only as plain data.
-/
import AcmedVerif.Model.Bincode

namespace AcmedVerif.Spec.C11Store
open AcmedVerif.Bincode

/-- First value stored under `k`. -/
def lookup (k : Bytes) : List (Bytes × β) → Option β
  | [] => none
  | (k', v) :: m => if k' = k then some v else lookup k m

/-- Two dumps of a `HashMap` denote the same map: keys distinct on both sides and each side's
entries are found on the other (the order of a dump is arbitrary). -/
def sameMap [DecidableEq β] (m1 m2 : List (Bytes × β)) : Bool :=
  distinctKeys m1 && distinctKeys m2 &&
  m1.all (fun kv => lookup kv.1 m2 == some kv.2) &&
  m2.all (fun kv => lookup kv.1 m1 == some kv.2)

/-- Field-wise equality; vectors in order, the endpoint map as a map. -/
def sameAccount (a b : Account) : Bool :=
  a.name == b.name && sameMap a.endpoints b.endpoints && a.contacts == b.contacts &&
  a.currentKey == b.currentKey && a.pastKeys == b.pastKeys && a.eab == b.eab

/-- (a) Restart: `before` is the dump taken just before `save`, `after` the dump after a fresh
load of the file (`none` if the load failed).  Demanded: loaded, and equal field by field. -/
def holdsRestart (before : Account) (after : Option Account) : Bool :=
  match after with
  | none => false
  | some b => sameAccount before b

inductive Outcome where
  | started      -- the daemon went on (exit status 0 / still running)
  | refused      -- start-up failed (exit status ≠ 0)
  deriving Repr, DecidableEq, Inhabited

/-- One start of the daemon on a prepared account file. -/
structure FileObs where
  fileBefore : Bytes     -- content put in place before the start
  outcome : Outcome
  fileAfter : Bytes      -- content once the daemon has exited / settled
  deriving Repr, DecidableEq, Inhabited

def isStrictPrefix (p l : Bytes) : Bool := decide (p.length < l.length) && l.take p.length == p

/-- The damaged file is neither accepted nor replaced. -/
def refusedUntouched (o : FileObs) : Bool :=
  o.outcome == Outcome.refused && o.fileAfter == o.fileBefore

/-- (b) Truncation: `full` is an image written by a real `save`.  If the file the daemon was
started on is a strict prefix of it, the start must be refused and the file left as it was. -/
def holdsTruncated (full : Bytes) (o : FileObs) : Bool :=
  !isStrictPrefix o.fileBefore full || refusedUntouched o

/-- (b') Unreadable: `readable` says whether the content is an account file at all (the harness
passes the model's `load … ≠ refuse`, or `false` for a file it made unreadable through
permissions).  An unreadable file must be refused and left as it was. -/
def holdsUnreadable (readable : Bool) (o : FileObs) : Bool :=
  readable || refusedUntouched o

inductive Obs where
  | restart (before : Account) (after : Option Account)
  | truncated (full : Bytes) (o : FileObs)
  | unreadable (readable : Bool) (o : FileObs)

def holds : Obs → Bool
  | .restart b a => holdsRestart b a
  | .truncated full o => holdsTruncated full o
  | .unreadable r o => holdsUnreadable r o

end AcmedVerif.Spec.C11Store
