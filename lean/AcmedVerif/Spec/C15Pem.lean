/-
C15 judge, last sentence — "Keys survive PEM and DER round trips unchanged."

The DER (de)serialisation is OpenSSL's and is not modelled; what the judge can check on real data is
the PEM armour.  The harness supplies
* `derBefore`: the DER of the object in memory before it was written (e.g. PKCS#8 of the key),
* `pem`:       the text the Rust code wrote (`private_key_to_pem_pkcs8`, `public_key_to_pem`, …),
* `derAfter`:  the DER an INDEPENDENT parser extracts when it reads that text back.
The demand: the text is exactly the RFC 7468 armour of `derBefore` as OpenSSL lays it out
(`Pem.pemEncode`), and reading it back gives the same bytes.

Also here: the judges' notion "the file is a parseable PEM chain" used by C02 ("no residue of older
content") and C03 (`certParses`), in a strict and a blank-tolerant form.
-/
import AcmedVerif.Model.Pem

namespace AcmedVerif.Spec.C15
open AcmedVerif.Pem

/-- The PEM text is the canonical armour of `derBefore` under `label` and the DER read back is
unchanged. -/
def roundTripOk (label : String) (derBefore derAfter : List UInt8) (pem : String) : Bool :=
  decide (pem = pemEncode label derBefore) && decide (derAfter = derBefore)

/-- The text is exactly these blocks (labels and DER), one after the other, and NOTHING else: no
leading or trailing bytes, no blank lines, no residue of older content. -/
def chainExact (text : String) (blocks : List (String × List UInt8)) : Bool :=
  decide (pemSplit text = (blocks, none))

/-- The same, tolerating blanks (space, tab, CR, LF) before each block and at the end (servers put
an empty line between the certificates of a chain). -/
def chainLax (text : String) (blocks : List (String × List UInt8)) : Bool :=
  decide (pemSplitLax text = (blocks, none))

/-- A certificate chain with these DER certificates, leaf first. -/
def certChainIs (text : String) (ders : List (List UInt8)) : Bool :=
  chainLax text (ders.map fun d => ("CERTIFICATE", d))

/-- "Parses as a PEM certificate chain": at least one block, all blocks are `CERTIFICATE`, no
residue (blanks between blocks tolerated). -/
def certChainParses (text : String) : Bool :=
  match pemSplitLax text with
  | (blocks, none) => !blocks.isEmpty && blocks.all fun b => decide (b.1 = "CERTIFICATE")
  | (_, some _) => false

end AcmedVerif.Spec.C15
