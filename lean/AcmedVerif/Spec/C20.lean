/-
C20 judge: what the property demands of ONE observed scenario (a certificate configured with one of
the shipped challenge groups, optionally with `git`, issued 1..n times against the validating mock CA),
stated on what the harness can see from outside; no model function is mentioned.

Per issuance and identifier the harness records
* after the challenge hooks (at the moment the CA is told the challenge is ready):
  - http-01-echo: does the file at the DOCUMENTED path exist, its content, does its mode have a+r;
  - tacd groups: does a TLS client speaking `acme-tls/1` to the DOCUMENTED address / unix socket get a
    certificate for the identifier with the expected acmeIdentifier value;
  - the validating CA's verdict;
* after the clean hooks: the left-overs among {proof file, pid file, socket file, responder process}
  (as printable names), which must be empty;
and per storage directory the `git log` subjects, to be compared with the files acmed stored.

Demand: every issuance (the first and every renewal) is validated with the proof where the manual
says it is, nothing is left behind, and every stored file is named by a commit in its directory.
-/
namespace AcmedVerif.Spec.C20

inductive Group where
  | http01Echo
  | tacdTcp
  | tacdUnix
  deriving Repr, DecidableEq, Inhabited

/-- Snapshot taken after the challenge hooks of one identifier. -/
structure ChallengeObs where
  /-- the key authorization (http-01) resp. the acmeIdentifier value (tls-alpn-01) the CA expects -/
  expected : String
  /-- http-01: file at `<HTTP_ROOT|/var/www>/<identifier>/.well-known/acme-challenge/<token>` -/
  proofFileExists : Bool
  proofFileContent : String
  proofFileWorldReadable : Bool
  /-- tls-alpn-01: responder reachable at `<TACD_HOST|identifier>:<TACD_PORT|5001>` resp.
  `<TACD_SOCK_ROOT|/run>/tacd_<identifier>.sock` and presenting the expected extension -/
  responderReachable : Bool
  /-- the conforming CA's verdict -/
  validated : Bool
  deriving Repr, DecidableEq, Inhabited

structure IssuanceObs where
  challenge : ChallengeObs
  /-- what is still there after the clean hooks: proof file, pid file, socket, responder process -/
  leftovers : List String
  deriving Repr, DecidableEq, Inhabited

/-- RFC 8555 §8.3: the body is the key authorization, trailing white space ignored; `echo` appends
exactly one newline. -/
def contentOk (content expected : String) : Bool :=
  content == expected ++ "\n" || content == expected

def challengeOk (g : Group) (o : ChallengeObs) : Bool :=
  o.validated &&
  (match g with
   | .http01Echo => o.proofFileExists && o.proofFileWorldReadable && contentOk o.proofFileContent o.expected
   | .tacdTcp => o.responderReachable
   | .tacdUnix => o.responderReachable)

def issuanceOk (g : Group) (o : IssuanceObs) : Bool :=
  challengeOk g o.challenge && o.leftovers.isEmpty

/-- Git clause: `stored` = (directory, file name) of every file acmed wrote; `log` = per directory the
commit subjects of `git log`. Every stored file must be named by a commit in its directory. -/
def gitOk (stored : List (String × String)) (log : List (String × List String)) : Bool :=
  stored.all fun (dir, name) =>
    log.any fun (d, subjects) => d == dir && subjects.contains name

/-- `issuances`: the first issuance and every later renewal, in order (at least one).
`git = none` when the scenario does not configure the git group. -/
def holds (g : Group) (issuances : List IssuanceObs)
    (git : Option (List (String × String) × List (String × List String))) : Bool :=
  !issuances.isEmpty && issuances.all (issuanceOk g) &&
  (match git with
   | none => true
   | some (stored, log) => gitOk stored log)

end AcmedVerif.Spec.C20
