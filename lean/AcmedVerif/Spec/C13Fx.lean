/-
C13 judge when file hooks may act on the file: WHICH file did this `write_file` find when it opened
the path?  `Spec.C13.Case.prev` is "the file the write found" (`none`: the write created the file);
without acting hooks that is the file as it was before the call.  With acting hooks it has to be
taken at OPEN time: a file the write did not find — absent after the pre hooks, or another inode
than the one the write left — was created by this write and must have the configured mode of its
type (masked by the umask) and the configured owner, WHATEVER existed before the hooks; a file the
write did find (same inode) keeps what it had, as before.

`Watch` is what a harness can observe from outside around one write: `stat` + inode number of the
path before the call (`before`, not used by the judge: nothing the property demands depends on it),
after the pre hooks (`afterPre`) and when the post hooks start (`written`: `set_owner` has run, no
post hook has touched the file yet).  Nothing here mentions the model.
-/
import AcmedVerif.Spec.C13

namespace AcmedVerif.Spec.C13
open AcmedVerif.Storage

structure Seen where
  ino : Nat
  stat : Stat
  deriving Repr, DecidableEq, Inhabited

/-- The file the write found at open time: the one present after the pre hooks, provided the file
the write left IS that file (same inode). -/
def foundAtOpen (afterPre : Option Seen) (written : Seen) : Option Stat :=
  match afterPre with
  | none => none
  | some a => if a.ino = written.ino then some a.stat else none

/-- This write created the file it left. -/
def createdByThisWrite (afterPre : Option Seen) (written : Seen) : Bool :=
  (foundAtOpen afterPre written).isNone

structure Watch where
  ftype : FileType
  certMode : Nat
  pkMode : Nat
  umask : Nat
  procUid : Nat
  procGid : Nat
  fsetid : Bool
  wantUid : Option Nat
  wantGid : Option Nat
  dataEmpty : Bool
  before : Option Seen      -- before the call and its hooks (ignored)
  afterPre : Option Seen    -- after the pre hooks, before `open`
  written : Seen            -- after `set_owner`, when the post hooks start
  deriving Repr, DecidableEq, Inhabited

def Watch.case (w : Watch) : Case :=
  { ftype := w.ftype, certMode := w.certMode, pkMode := w.pkMode, umask := w.umask,
    procUid := w.procUid, procGid := w.procGid, fsetid := w.fsetid,
    prev := foundAtOpen w.afterPre w.written, wantUid := w.wantUid, wantGid := w.wantGid,
    dataEmpty := w.dataEmpty, observed := w.written.stat }

def holdsFx (w : Watch) : Bool := holds w.case

end AcmedVerif.Spec.C13
