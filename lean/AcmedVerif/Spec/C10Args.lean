/-
C10 judge, argument clause: "hooks receive the documented template variables" — a hook's `args` are
the arguments of its command (acmed.toml.5, `args`: "Array of strings that will be passed to the hook
as arguments"), each a template; "If a hook uses a template variable that does not exists for the
current type it is invoked for, the variable is empty" (acmed.toml.5:420) — empty, not absent.

Stated on what the recorder child process observed: its argument VECTOR.  `expected` has one entry per
DECLARED element of `args`, in declaration order: `some text` where the property fixes the text (the
element uses documented variables of the current type, variables of other types — empty —, the
environment tables, literal text), `none` where it does not (a member of the hook data that is not
documented for the type, a template construct the harness does not predict): such an argument must be
there, whatever it holds.  Nothing here calls `HookArgs.argv`.
-/
import AcmedVerif.Model.HookArgs

namespace AcmedVerif.Spec.C10Args
open AcmedVerif.HookArgs

/-- Position by position: same number of arguments as declared elements, every predicted text met. -/
def argvHolds : List (Option String) → List String → Bool
  | [], [] => true
  | [], _ :: _ => false
  | _ :: _, [] => false
  | e :: es, o :: os =>
    (match e with
     | some s => decide (s = o)
     | none => true) && argvHolds es os

/-- What C10 demands of the argument vector of a hook declared with `declared`, run with the variable
bindings `vars` and the environment `env`: one argument per declared element, in order, each the
rendering of its element. -/
def expected (vars : Vars) (env : EnvTab) (declared : List Template) : List (Option String) :=
  declared.map (render vars env)

def holds (vars : Vars) (env : EnvTab) (declared : List Template) (observed : List String) : Bool :=
  argvHolds (expected vars env declared) observed

/-- Index of the first position that fails (`expected.length` / `observed.length` when one vector
ends before the other); for the report only. -/
def firstBad : List (Option String) → List String → Nat → Option Nat
  | [], [], _ => none
  | [], _ :: _, i => some i
  | _ :: _, [], i => some i
  | e :: es, o :: os, i =>
    match e with
    | some s => if s = o then firstBad es os (i + 1) else some i
    | none => firstBad es os (i + 1)

/-! ## Observers that know less -/

/-- `weak` tells nothing `strong` does not: every name is `unknown` to `weak` or bound as in `strong`. -/
def Refines (weak strong : Vars) : Prop := ∀ n, weak.get n = .unknown ∨ weak.get n = strong.get n

end AcmedVerif.Spec.C10Args
