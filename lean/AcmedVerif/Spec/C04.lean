/-
C04 judge: what the property demands of the observed log of POSTs one ACME server received (decoded
by the mock CA; signatures verified by OpenSSL through vhelper).  Import-free, model-free.

"Every POST sent to an ACME server is a flattened-JSON JWS whose protected header names the algorithm
matching the account key, the exact request URL, a nonce that this server issued and that was not
used in an earlier delivered request, and carries the public key as jwk only for account creation and
inside a key-change object, the account URL as kid otherwise. Its signature verifies under the key
the server has on record for that account (fixed-width R||S for ECDSA)…"
-/
namespace AcmedVerif.Spec.C04

inductive Kind where
  | newAccount      -- POST to the newAccount URL
  | keyChangeInner  -- the inner JWS carried as payload of a keyChange request
  | eabInner        -- the externalAccountBinding object inside a newAccount payload
  | other           -- every other POST (incl. the outer keyChange)
  deriving Repr, DecidableEq, Inhabited

structure ReqObs where
  kind : Kind
  /-- body is a JSON object with exactly the members payload, protected, signature -/
  flat : Bool
  /-- sorted member names of the protected header -/
  hdrMembers : List String
  alg : String
  /-- key type the signing key must have: from the jwk (newAccount, inner) or from the key the CA has on
  record for the kid: "RSA", "P-256", "P-384", "P-521", "Ed25519", "Ed448", "oct" (EAB MAC key) -/
  keyKind : String
  /-- protected.url equals the URL the request was sent to (inner objects: the outer request's URL) -/
  urlOk : Bool
  /-- protected.nonce was issued by this server / had already been carried by an earlier request -/
  nonceIssued : Bool
  nonceReused : Bool
  /-- kid equals the account URL the server has on record (EAB: the configured key identifier) -/
  kidOk : Bool
  /-- OpenSSL verified the signature under the key on record (jwk for newAccount / inner) -/
  sigOk : Bool
  /-- raw signature length in bytes -/
  sigLen : Nat
  deriving Repr, DecidableEq, Inhabited

/-- RFC 7518 / RFC 8037 algorithm names per key kind (EdDSA keys: acmed uses the curve name). -/
def algFor : String → List String
  | "RSA" => ["RS256"]
  | "P-256" => ["ES256"]
  | "P-384" => ["ES384"]
  | "P-521" => ["ES512"]
  | "Ed25519" => ["Ed25519", "EdDSA"]
  | "Ed448" => ["Ed448", "EdDSA"]
  | "oct" => ["HS256", "HS384", "HS512"]
  | _ => []

/-- JWS signature length mandated for the algorithm (RSA and HMAC sizes depend on the key / hash). -/
def sigLenOk (alg : String) (n : Nat) : Bool :=
  match alg with
  | "ES256" => n == 64
  | "ES384" => n == 96
  | "ES512" => n == 132
  | "Ed25519" => n == 64
  | "Ed448" => n == 114
  | "RS256" => n == 256 || n == 512
  | "HS256" => n == 32
  | "HS384" => n == 48
  | "HS512" => n == 64
  | _ => false

def membersFor : Kind → List String
  | .newAccount => ["alg", "jwk", "nonce", "url"]
  | .keyChangeInner => ["alg", "jwk", "url"]
  | .eabInner => ["alg", "kid", "url"]
  | .other => ["alg", "kid", "nonce", "url"]

def reqOk (r : ReqObs) : Bool :=
  r.flat && r.hdrMembers == membersFor r.kind && (algFor r.keyKind).contains r.alg && r.urlOk &&
  r.sigOk && sigLenOk r.alg r.sigLen &&
  (match r.kind with
   | .newAccount => r.nonceIssued && !r.nonceReused
   | .other => r.nonceIssued && !r.nonceReused && r.kidOk
   | .keyChangeInner => true
   | .eabInner => r.kidOk)

def holds (log : List ReqObs) : Bool := log.all reqOk

end AcmedVerif.Spec.C04
