/-
C07 judge: what the property demands of the observed per-certificate loop log (times in ms).
Independent of `Model/Flow.lean`.
-/
namespace AcmedVerif.Spec.C07

structure AttemptObs where
  startMs         : Nat
  endMs           : Nat
  /-- number of post-operation hook runs observed for this attempt -/
  postOpCount     : Nat
  /-- `is_success` handed to the post-operation hooks -/
  reportedSuccess : Bool
  /-- the new certificate and its key were on disk when the post-operation hooks ran -/
  installed       : Bool
  /-- start of the next attempt for the same certificate, if one was observed -/
  nextStartMs     : Option Nat
  /-- a hook of this attempt that ran BEFORE the report (challenge, clean or file hook; failures not
  allowed by its configuration) ended with a non-zero status or was killed by a signal -/
  hookFailed      : Bool := false
  /-- the `status` handed to the post-operation hooks is not blank -/
  statusTextPresent : Bool := true
  deriving DecidableEq, Repr, Inhabited

def pauseOk (a : AttemptObs) : Bool :=
  a.reportedSuccess ||
    match a.nextStartMs with
    | none => true
    | some t => decide (a.endMs + 1000 ≤ t)

/-- "reporting success ONLY when the new certificate and key have been installed": success implies
installed.  The converse is not demanded: when a step after the write fails (e.g. a file-post-create
hook exits non-zero) the certificate is on disk and the attempt is, rightly, reported as failed
("failure whenever any step failed"). -/
def successOnlyIfInstalled (a : AttemptObs) : Bool := !a.reportedSuccess || a.installed

/-- "failure whenever any step failed", for the steps the observer can see fail by themselves: a hook
that did not end with status 0 (exit code ≠ 0, or no exit code at all: killed by a signal). -/
def failureIfHookFailed (a : AttemptObs) : Bool := !a.hookFailed || !a.reportedSuccess

/-- "failure (with the error text)": a failed attempt is reported with a non-blank status. -/
def errorTextOnFailure (a : AttemptObs) : Bool := a.reportedSuccess || a.statusTextPresent

def attemptOk (a : AttemptObs) : Bool :=
  a.postOpCount == 1 && successOnlyIfInstalled a && failureIfHookFailed a && errorTextOnFailure a &&
    pauseOk a && decide (a.startMs ≤ a.endMs)

def holds (log : List AttemptObs) : Bool := log.all attemptOk

/-- Bounded time: every attempt ends within `boundMs`. -/
def boundedOk (boundMs : Nat) (log : List AttemptObs) : Bool :=
  log.all fun a => decide (a.endMs ≤ a.startMs + boundMs)

/-- What is observed of the daemon as a whole over one run (one or several certificates). -/
structure RunObs where
  /-- the process was still running when the observation ended (it was stopped by the observer) -/
  processAlive  : Bool
  /-- per certificate expected to succeed ("healthy": the CA never refuses it): was it issued and
  reported as a success within the observation window? -/
  healthyIssued : List Bool
  deriving DecidableEq, Repr, Inhabited

/-- "the daemon process keeps running" and "a certificate that keeps failing does not prevent other
certificates … from being issued". -/
def runOk (r : RunObs) : Bool := r.processAlive && r.healthyIssued.all id

end AcmedVerif.Spec.C07
