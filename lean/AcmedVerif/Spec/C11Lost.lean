/-
C11 judge under uncertainty (flow part): what the first two sentences of the property demand of ONE
observed renewal on ONE endpoint when the answer to a key roll-over request did not reach the
client — in this renewal or in an earlier one.

"… key roll-overs authorised by the key the CA currently holds …": after an UNANSWERED keyChange
request no client can know which key the CA holds (the request may or may not have been processed).
The requests up to and including the first request that RECEIVES AN ANSWER may be signed by either
key of the pending exchange; from then on every request must verify under the key the CA holds, as
`Spec.C11.signerOk` demands.  A renewal that STARTS inside such a window may find that the CA
already holds the new key: then no roll-over request is due any more (`onePerItem`: at most one).
Everything else (`registerOnlyWhen`, the other counts, the order, convergence on success) is
`Spec.C11` unchanged; without a window this judge IS `Spec.C11.holds` (`Props/C04Lost.lean`).
-/
import AcmedVerif.Spec.C11

namespace AcmedVerif.Spec.C11Lost
open AcmedVerif.Spec.C11

structure ReqX where
  base : Req
  /-- an answer was delivered for this request -/
  answered : Bool
  /-- the outer signature verifies under the OTHER key of the pending exchange (meaningful inside a
  window only) -/
  outerSigOkAlt : Bool
  deriving DecidableEq, Repr, Inhabited

/-- `signerOk` with the outer signature verified under either key of the pending exchange. -/
def signerOkEither (x : ReqX) : Bool :=
  signerOk x.base || signerOk { x.base with outerSigOk := x.outerSigOkAlt }

def nextWindow (win : Bool) (x : ReqX) : Bool :=
  if x.base.kind == .keyChange && !x.answered then true else if x.answered then false else win

/-- Every request signed as demanded: strictly outside a window, by either key inside. -/
def signersOk : Bool → List ReqX → Bool
  | _, [] => true
  | win, x :: rest =>
    (if win then signerOkEither x else signerOk x.base) && signersOk (nextWindow win x) rest

/-- `Spec.C11.onePerItem`, except that a renewal that starts inside a window sends at most one
roll-over request (none when the CA turns out to hold the new key already). -/
def onePerItemFrom (pending : Bool) (o : Obs) : Bool :=
  if pending then
    if o.urlStoredBefore && !o.bindingChanged && o.success
        && o.reqs.all (fun r => r.answer != .accountDoesNotExist) then
      count .accountUpdate o.reqs == (if o.contactsChanged then 1 else 0)
      && count .keyChange o.reqs ≤ (if o.keyChanged then 1 else 0)
      && count .newAccount o.reqs == 0
    else true
  else onePerItem o

/-- `pending`: a keyChange request of an earlier renewal on this endpoint got no answer and no
request has been answered since.  `o.reqs` must be `xs.map (·.base)`. -/
def holds (pending : Bool) (o : Obs) (xs : List ReqX) : Bool :=
  registerOnlyWhen (!o.urlStoredBefore || o.bindingChanged) o.reqs
  && signersOk pending xs
  && onePerItemFrom pending o
  && bindingThenContacts o
  && keyBeforeContacts o.reqs
  && (!o.success || (o.caContactsEqual && o.caKeyIsCurrent))

/-- The window after the renewal (to be handed to the judge of the next one). -/
def windowAfter : Bool → List ReqX → Bool
  | win, [] => win
  | win, x :: rest => windowAfter (nextWindow win x) rest

end AcmedVerif.Spec.C11Lost
