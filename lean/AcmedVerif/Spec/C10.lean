/-
C10 judge: what the property demands of ONE observed hook event, stated on what can be observed
from outside (the recorder child process logs its hook name and the exit code it was told to return;
the probe reports whether the operation went on), plus the reference notions the theorems of
`Props/C10.lean` are stated with (`expectedRun`, `alternates`, `Step`/`Star`, `expectedEnv`, …).
Nothing here calls `Hooks.call`, `Hooks.expand`, `Hooks.setEnv` or `Hooks.authFragment`.
-/
import AcmedVerif.Model.Hooks

namespace AcmedVerif.Spec.C10
open AcmedVerif.Hooks

/-! ## Expected run of one event -/

/-- The attached hooks that have the event's type, declaration order, paired with the exit each
would return (`ex` in order; a missing exit counts as `ok`). -/
def zipExits : List Hook → List Exit → List (Hook × Exit)
  | [], _ => []
  | h :: hs, ex => (h, ex.headD .ok) :: zipExits hs ex.tail

/-- Up to and including the first hard failure. -/
def uptoHard : List (Hook × Exit) → List (Hook × Exit)
  | [] => []
  | p :: ps => if p.2.hard p.1.allowFailure then [p] else p :: uptoHard ps

def noHard (l : List (Hook × Exit)) : Bool := l.all fun p => !p.2.hard p.1.allowFailure

/-- What C10 demands: exactly the attached hooks with the event's type, in order, up to and
including the first hard failure. -/
def expectedRun (attached : List Hook) (ty : HookType) (ex : List Exit) : List (Hook × Exit) :=
  uptoHard (zipExits (attached.filter fun h => h.hasType ty) ex)

/-- "One at a time": every `start` is immediately followed by the `finish` of the same hook, except
possibly the very last event (a child abandoned by a failure after `spawn`, which ends the call). -/
def alternates : List ProcEvent → Bool
  | [] => true
  | [.start _] => true
  | .start n :: .finish m _ :: rest => decide (n = m) && alternates rest
  | _ => false

def ProcEvent.isStart : ProcEvent → Bool
  | .start _ => true
  | _ => false

/-- No two `start`s are adjacent. -/
def noAdjacentStarts : List ProcEvent → Bool
  | [] => true
  | [_] => true
  | a :: b :: rest => !(ProcEvent.isStart a && ProcEvent.isStart b) && noAdjacentStarts (b :: rest)

/-! ## The observed log of one event -/

/-- One recorder entry: hook name and exit code (`none` = killed by a signal). -/
structure Obs where
  name : Name
  code : Option Nat
  deriving Repr, DecidableEq, Inhabited

def obsHard (h : Hook) (code : Option Nat) : Bool := !(code == some 0) && !h.allowFailure

def holdsAux : List Hook → List Obs → Bool → Bool
  | [], [], cont => cont
  | [], _ :: _, _ => false
  | _ :: _, [], _ => false
  | h :: hs, o :: os, cont =>
    decide (o.name = h.name) &&
      (if obsHard h o.code then os.isEmpty && !cont else holdsAux hs os cont)

/-- `attached`: the expanded hook list attached to the certificate/account, in order; `ty`: the
event's type; `obs`: the recorder entries in the order they were written; `cont`: the operation
went on (`hooks::call` returned `Ok`).  Demands: the observed sequence is exactly the hooks of that
type, in order, each once, stopping right after the first non-zero exit of a hook without
`allow_failure`, and the operation went on iff there was no such exit.  (All generated hooks can be
spawned, so a hook that does not show up is a violation.) -/
def holds (attached : List Hook) (ty : HookType) (obs : List Obs) (cont : Bool) : Bool :=
  holdsAux (attached.filter fun h => h.hasType ty) obs cont

/-- What the recorder writes for an awaited child. -/
def Exit.code : Exit → Option Nat
  | .ok => some 0
  | .fail c => some c
  | _ => none

def obsOf (ran : List (Hook × Exit)) : List Obs := ran.map fun p => ⟨p.1.name, Exit.code p.2⟩

/-- Exits a recorder child can produce: it is spawned and awaited, and a failure has a non-zero
code. -/
def Exit.observable : Exit → Bool
  | .ok => true
  | .fail c => c != 0
  | .signal => true
  | _ => false

/-! ## Environment -/

/-- What C10 demands for key `k`: identifier over certificate (or account) over global over the
daemon's own environment.  For events without an identifier pass `ident = []`. -/
def expectedEnv (proc global owner ident : Env) (k : Key) : Option Val :=
  orElse (lookup ident k) (orElse (lookup owner k) (orElse (lookup global k) (lookup proc k)))

/-- `observed`: the environment the recorder child saw; `keys`: the keys of interest. -/
def envHolds (proc global owner ident observed : Env) (keys : List Key) : Bool :=
  keys.all fun k => lookup observed k == expectedEnv proc global owner ident k

/-- Driver-friendly: the value C10 demands the child sees for each key of `keys` (`none` = unset).
The identifier table only counts for `challenge`. -/
def expectedChildEnv (kind : EnvKind) (proc global owner ident : Env) (keys : List Key) :
    List (Key × Option Val) :=
  keys.map fun k =>
    (k, expectedEnv proc global owner (match kind with | .challenge => ident | _ => []) k)

/-! ## Group graph (for the cycle statements) -/

/-- `a` resolves to a group (no hook is called `a`) that lists `b`. -/
def Step (hooks : List Hook) (groups : List Group) (a b : Name) : Prop :=
  findHook hooks a = none ∧ ∃ g, findGroup groups a = some g ∧ b ∈ g.hooks

/-- Reflexive-transitive closure of `Step`. -/
inductive Star (hooks : List Hook) (groups : List Group) : Name → Name → Prop
  | refl (a : Name) : Star hooks groups a a
  | head {a b c : Name} : Step hooks groups a b → Star hooks groups b c → Star hooks groups a c

/-- At least one step. -/
def Plus (hooks : List Hook) (groups : List Group) (a c : Name) : Prop :=
  ∃ b, Step hooks groups a b ∧ Star hooks groups b c

/-! ## Authorization fragment: the event shapes -/

/-- Challenge phase when everything succeeds: hooks, POST, per challenge. -/
def okEvents (mode : EnvMode) (proc certEnv : Env) :
    List ChallengeIn → List (List (Hook × Exit)) → List AuthEvent
  | c :: cs, ran :: rans =>
    .hooks c.kind.hookTypes.1 (mkChallengeData mode proc certEnv c) ran ::
      .post (mkChallengeData mode proc certEnv c) :: okEvents mode proc certEnv cs rans
  | _, _ => []

/-- Clean phase: one call of the clean type per collected datum, with that datum. -/
def cleanEvents : List (ChallengeData × HookType) → List (List (Hook × Exit)) → List AuthEvent
  | (d, ty) :: ps, ran :: rans => .hooks ty d ran :: cleanEvents ps rans
  | _, _ => []

/-- What is collected for a challenge whose hooks succeeded. -/
def cleanEntry (mode : EnvMode) (proc certEnv : Env) (c : ChallengeIn) : ChallengeData × HookType :=
  (markClean (mkChallengeData mode proc certEnv c), c.kind.hookTypes.2)

/-- The event is a clean call (a `hooks` event whose data has `is_clean_hook`). -/
def isCleanCall : AuthEvent → Bool
  | .hooks _ d _ => d.isCleanHook
  | _ => false

end AcmedVerif.Spec.C10
