/-
C01 judge, CSR clauses: "the CSR sent at finalization has … the configured subject attributes and
digest, and a valid self-signature. The CSR's public key is the public half of the private key that
sits beside the certificate once the attempt has succeeded."  (The identifier clauses are
`Spec/C01Ident.lean`.)  Inputs come from the harness: the CSR DER-parsed by OpenSSL (vhelper), the
key file read when the post-operation hook runs.  Import-free, model-free.
-/
namespace AcmedVerif.Spec.C01

structure Obs where
  /-- configured subject attributes as (OpenSSL short name, value), sorted -/
  subjectCfg : List (String × String)
  /-- subject RDNs of the CSR as (short name, value), sorted -/
  subjectCsr : List (String × String)
  /-- configured digest: "sha256" | "sha384" | "sha512" -/
  digestCfg : String
  /-- certificate key type: "rsa2048" … "ed448" -/
  keyType : String
  /-- signature algorithm of the CSR (OpenSSL name as printed by `X509_REQ_print`) -/
  sigAlgCsr : String
  selfSigOk : Bool
  /-- identities (hashes) of the CSR's public key and of the key file's public half -/
  csrKey : Option Nat
  keyFileKey : Option Nat
  /-- the attempt reported success -/
  success : Bool
  deriving Repr, DecidableEq, Inhabited

/-- OpenSSL's name of "key family + digest"; EdDSA keys sign without a separate digest. -/
def expectedSigAlg (keyType digest : String) : List String :=
  let rsa := match digest with
    | "sha256" => ["sha256WithRSAEncryption"] | "sha384" => ["sha384WithRSAEncryption"]
    | "sha512" => ["sha512WithRSAEncryption"] | _ => []
  let ec := match digest with
    | "sha256" => ["ecdsa-with-SHA256"] | "sha384" => ["ecdsa-with-SHA384"]
    | "sha512" => ["ecdsa-with-SHA512"] | _ => []
  match keyType with
  | "rsa2048" | "rsa4096" => rsa
  | "ecdsa-p256" | "ecdsa-p384" | "ecdsa-p521" => ec
  | "ed25519" => ["ED25519"]
  | "ed448" => ["ED448"]
  | _ => []

def holds (o : Obs) : Bool :=
  o.subjectCsr == o.subjectCfg &&
  (expectedSigAlg o.keyType o.digestCfg).contains o.sigAlgCsr &&
  o.selfSigOk && o.csrKey.isSome &&
  (!o.success || o.csrKey == o.keyFileKey)

end AcmedVerif.Spec.C01
