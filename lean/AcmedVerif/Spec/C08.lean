/-
C08 judge: what the property demands of the OBSERVED transmissions of ONE logical request (one call
of `http::post`: same URL, same payload, same key), as the mock CA logged them, plus how the call
ended.  Import-free: nothing here mentions the model.

Property: "A request answered with a recoverable ACME error (badNonce, connection, dns, malformed,
rateLimited, serverInternal, tls) is sent again with the newest nonce and otherwise identical
content until it succeeds, at most 10 transmissions in all; any other error response, and any
non-2xx answer without a problem document, fails the attempt without re-sending that request and is
never taken for success."

The harness classifies each answer the mock CA gave (first matching line wins):
  `dropped`            the connection was cut before the answer was complete (no status line, or
                       the body was cut short);
  `invalidNonceHdr`    the answer carried a `Replay-Nonce` that is not a base64url string;
  `ok2xx`              status 200–299 (any body);
  `recoverableProblem` non-2xx, body a JSON object whose `type` is one of the seven recoverable URNs;
  `otherProblem`       non-2xx, body a JSON object with any other `type` string;
  `untypedProblem`     non-2xx, body a JSON object without `type`;
  `notJson`            non-2xx, anything else.
-/
namespace AcmedVerif.Spec.C08

inductive ObsAnswer
  | recoverableProblem | otherProblem | untypedProblem | notJson | dropped | ok2xx | invalidNonceHdr
  deriving DecidableEq, Repr, Inhabited

/-- One transmission.  `ν` = nonces, `κ` = "content" (URL, payload digest, key id: everything of
the request except the nonce and the signature). -/
structure ObsTx (ν κ : Type) where
  answer : ObsAnswer
  nonceSent : Option ν       -- `none`: the protected header had no nonce or the empty string
  newestIssued : Option ν    -- newest nonce the CA had handed to this client when the request arrived
  content : κ
  deriving Repr

inductive Outcome
  | ok                 -- the caller got `Ok` (the flow went on with the answer)
  | failed             -- the caller got `Err`
  | nonceFetchFailed   -- `Err`, and the CA saw a `newNonce` request after the last transmission
                       --   that it did not answer with 2xx + a valid `Replay-Nonce`
  deriving DecidableEq, Repr, Inhabited

variable {ν κ : Type} [DecidableEq ν] [DecidableEq κ]

/-- At most `maxTx` transmissions in all. -/
def countOk (maxTx : Nat) (log : List (ObsTx ν κ)) : Bool := decide (log.length ≤ maxTx)

/-- Every transmission but the last was answered with a recoverable error: a retry only follows a
recoverable answer, and nothing is sent again after any other answer (success included). -/
def retriesJustified (log : List (ObsTx ν κ)) : Bool :=
  log.dropLast.all fun t => t.answer == .recoverableProblem

/-- Success only if the last answer was 2xx (never on an error answer, never without an answer). -/
def successOnly2xx (log : List (ObsTx ν κ)) (out : Outcome) : Bool :=
  match out with
  | .ok =>
    match log.getLast? with
    | some t => t.answer == .ok2xx
    | none => false
  | _ => true

/-- "Sent again … until it succeeds, at most `maxTx`": if the last answer was still a recoverable
error, the budget is used up — unless the nonce needed for the next transmission could not be
fetched (that is a failure of another request). -/
def retriedToTheEnd (maxTx : Nat) (log : List (ObsTx ν κ)) (out : Outcome) : Bool :=
  match log.getLast? with
  | some t =>
    if t.answer == .recoverableProblem then
      decide (log.length = maxTx) || out == .nonceFetchFailed
    else true
  | none => true

/-- Each re-transmission carries a nonce, and it is the newest one the CA issued. -/
def newestNonce (log : List (ObsTx ν κ)) : Bool :=
  (log.drop 1).all fun t => t.nonceSent.isSome && t.nonceSent == t.newestIssued

/-- Otherwise identical content. -/
def sameContent (log : List (ObsTx ν κ)) : Bool :=
  match log with
  | [] => true
  | t :: ts => ts.all fun x => x.content == t.content

def holds (maxTx : Nat) (log : List (ObsTx ν κ)) (out : Outcome) : Bool :=
  countOk maxTx log && retriesJustified log && successOnly2xx log out &&
  retriedToTheEnd maxTx log out && newestNonce log && sameContent log

/-- "Polling of an authorization or order stops after at most 20 polls": `polls` = number of
requests the CA saw for the polled URL during one poll, `matched i` = "answer i showed the awaited
status".  At most `maxPolls`, and none after the first answer showing the awaited status. -/
def pollHolds (maxPolls : Nat) (matched : List Bool) : Bool :=
  decide (matched.length ≤ maxPolls) && matched.dropLast.all fun m => !m

end AcmedVerif.Spec.C08
