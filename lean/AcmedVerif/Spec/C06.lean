/-
C06 judge: what the property demands of ONE observed evaluation of a certificate.

Inputs of the evaluation: what was on disk (`Disk`: do the two files exist, does the certificate
parse, its SAN set and `notAfter − now` in seconds), the configured identifier values,
`renew_delay` and `random_early_renew` (ns).  Observation: the duration (ns) the daemon decided to
wait before requesting a certificate (0 = "request immediately"), or the fact that it reported an
error instead.  The random amount is NOT an input of the judge: it is unknown, so the judge accepts
the whole interval the property allows.

  * key or certificate file missing, or some configured identifier not in the certificate
      ⇒ observed = 0;
  * otherwise, with exp = max (notAfter − now) 0:
      hi = (exp − delay) truncated at 0            ("never longer", random amount 0)
      lo = (hi − (rer − 1 ns)) truncated at 0      (random amount < rer; = hi when rer = 0)
      lo ≤ observed ≤ hi                           ("never negative": observed is a `Nat`)

Only the data structures `Disk`/`Cert` are taken from the model; none of its functions.
-/
import AcmedVerif.Model.Renew

namespace AcmedVerif.Spec.C06
open AcmedVerif.Renew (Disk Cert)

/-- Every configured identifier value is one of the certificate's names (exact text equality). -/
def covered (ids sans : List (List Char)) : Bool := ids.all (fun i => sans.contains i)

/-- Time to expiry in ns seen by a clock that is `skewNs` off (either sign), never negative. -/
def expNs (notAfterInSecs : Int) (skewNs : Int) : Nat := (notAfterInSecs * 1000000000 + skewNs).toNat

/-- Latest admissible renewal instant, as a wait from now. -/
def hi (exp delayNs : Nat) : Nat := exp - delayNs

/-- Earliest admissible renewal instant. -/
def lo (exp delayNs rerNs : Nat) : Nat := if rerNs = 0 then hi exp delayNs else hi exp delayNs - (rerNs - 1)

/-- The judge with a clock-skew allowance `slackNs`: the harness measures `notAfterIn` a few ms
before/after the implementation reads the clock and ASN.1 times have 1 s resolution, so the upper
end is computed with the clock `slackNs` early and the lower end with it `slackNs` late. -/
def holdsWithSlack (disk : Disk) (ids : List (List Char)) (delayNs rerNs : Nat)
    (slackNs observedNs : Nat) : Bool :=
  if !(disk.keyFile && disk.certFile) then observedNs == 0
  else match disk.cert with
    | none => false     -- nothing is known about the certificate: no duration is justified
    | some c =>
      if !covered ids c.sans then observedNs == 0
      else decide (lo (expNs c.notAfterIn (-(slackNs : Int))) delayNs rerNs ≤ observedNs) &&
           decide (observedNs ≤ hi (expNs c.notAfterIn (slackNs : Int)) delayNs)

/-- The judge proper (no slack). -/
def holds (disk : Disk) (ids : List (List Char)) (delayNs rerNs : Nat) (observedNs : Nat) : Bool :=
  holdsWithSlack disk ids delayNs rerNs 0 observedNs

/-- Including the case where the daemon reports an error (`none`) instead of a duration: that is
acceptable exactly when both files exist and the certificate cannot be parsed. -/
def holdsOutcome (disk : Disk) (ids : List (List Char)) (delayNs rerNs : Nat)
    (slackNs : Nat) (observed : Option Nat) : Bool :=
  match observed with
  | some n => holdsWithSlack disk ids delayNs rerNs slackNs n
  | none => disk.keyFile && disk.certFile && disk.cert.isNone

/-- Clause C06.3 on its own: a certificate covering every identifier whose remaining life exceeds
`renew_delay` plus the largest random amount is not renewed at once. -/
def freshOk (disk : Disk) (ids : List (List Char)) (delayNs rerNs : Nat) (observedNs : Nat) : Bool :=
  match disk.cert with
  | some c =>
    if disk.keyFile && disk.certFile && covered ids c.sans &&
       decide (delayNs + rerNs < expNs c.notAfterIn 0) then decide (0 < observedNs) else true
  | none => true

end AcmedVerif.Spec.C06
