/-
C14 judge and specification vocabulary.

Property (verbatim): "For every configuration tree (a main file plus included files given by
relative or absolute paths and globs, possibly repeated or cyclic), renew_delay,
random_early_renew, file_name_format and the storage directory take the most specific value given
(certificate, then endpoint, then global, then the built-in default); sections from all files are
merged, each file is read once, a global option set in a later-included file overrides earlier
ones, and any reference a certificate or account depends on (endpoint, account, hook, group, rate
limit of its endpoint) that does not resolve, as well as a duplicate certificate id, is rejected at
start-up."

Two parts:
* specification notions the theorems of Props/C14 are stated with, defined WITHOUT fuel and without
  the model's procedures: `mostSpecific`, `lastSome`, `DfsList` (depth-first first-visit order of an
  include graph), `ExpandsList` (what a list of hook/group names denotes), `Resolves`, `Reach`;
* the decidable judge `holds` applied to what the real daemon did with a tree.
-/
import AcmedVerif.Model.Config

namespace AcmedVerif.Spec.C14
open AcmedVerif.Config

/-! ## Specification notions -/

/-- "The most specific value given": levels listed from most to least specific; the first one that
is set, else the built-in default. -/
def mostSpecific : List (Option Val) → Setting
  | [] => .builtin
  | some v :: _ => .given v
  | none :: rest => mostSpecific rest

/-- The last `some` of a list (`none` if there is none). -/
def lastSome {α : Type} (l : List (Option α)) : Option α := l.reverse.findSome? id

/-- What the file at canonical path `p` itself contains. -/
def ownOf {π : Type} (files : Files π) (p : Path) : Config :=
  match lookupFile files p with
  | some fc => fc.toConfig
  | none => Config.empty

/-- `DfsList files resolve todo visited new`: visiting the work list `todo` depth-first, left to
right, skipping whatever is in `visited` or was visited on the way, reads exactly the files `new`,
in that order (each file comes before the files it includes; the including file is earliest). -/
inductive DfsList {π : Type} (files : Files π) (resolve : Path → π → List Path) :
    List Path → List Path → List Path → Prop
  | nil (visited : List Path) : DfsList files resolve [] visited []
  | skip {p : Path} {ps visited new : List Path} :
      p ∈ visited → DfsList files resolve ps visited new →
      DfsList files resolve (p :: ps) visited new
  | visit {p : Path} {ps visited n₁ n₂ : List Path} {fc : FileContent π} :
      p ∉ visited → lookupFile files p = some fc →
      DfsList files resolve (includePaths resolve p fc) (visited ++ [p]) n₁ →
      DfsList files resolve ps (visited ++ [p] ++ n₁) n₂ →
      DfsList files resolve (p :: ps) visited (p :: n₁ ++ n₂)

/-- `ExpandsList cfg names hooks`: the list of hook-or-group names denotes `hooks`: each name in
declaration order; a name that is a hook denotes that hook (the first of that name) even if a group
has the same name; otherwise a group name denotes what its members denote, concatenated. -/
inductive ExpandsList (cfg : Config) : List String → List Hook → Prop
  | nil : ExpandsList cfg [] []
  | hook {n : String} {ns : List String} {h : Hook} {r : List Hook} :
      findHook cfg n = some h → ExpandsList cfg ns r → ExpandsList cfg (n :: ns) (h :: r)
  | group {n : String} {ns : List String} {g : Group} {r₁ r₂ : List Hook} :
      findHook cfg n = none → findGroup cfg n = some g →
      ExpandsList cfg g.hooks r₁ → ExpandsList cfg ns r₂ → ExpandsList cfg (n :: ns) (r₁ ++ r₂)

/-- The name resolves: it is a hook, or a group all of whose members resolve (transitively;
being inductive this excludes a group that contains itself). -/
inductive Resolves (cfg : Config) : String → Prop
  | hook {n : String} {h : Hook} : findHook cfg n = some h → Resolves cfg n
  | group {n : String} {g : Group} : findHook cfg n = none → findGroup cfg n = some g →
      (∀ m, m ∈ g.hooks → Resolves cfg m) → Resolves cfg n

/-- `VisitsList cfg d names k`: expanding the list `names`, met under `d` enclosing groups, visits `k`
members in all — every name counts once each time it is met, a group name then all the members of
the group one level further down — and no group is entered under MAX_HOOK_GROUP_DEPTH or more
enclosing groups.  (What `get_hook_rec` counts against its budget, defined without it.) -/
inductive VisitsList (cfg : Config) : Nat → List String → Nat → Prop
  | nil {d : Nat} : VisitsList cfg d [] 0
  | hook {d : Nat} {n : String} {ns : List String} {h : Hook} {k : Nat} :
      findHook cfg n = some h → VisitsList cfg d ns k → VisitsList cfg d (n :: ns) (k + 1)
  | group {d : Nat} {n : String} {ns : List String} {g : Group} {k₁ k₂ : Nat} :
      findHook cfg n = none → findGroup cfg n = some g → d < maxHookGroupDepth →
      VisitsList cfg (d + 1) g.hooks k₁ → VisitsList cfg d ns k₂ →
      VisitsList cfg d (n :: ns) (1 + k₁ + k₂)

/-- The name, as a certificate or an account lists it (`d = 0`), resolves within the two limits of
`get_hook_rec`: no group is entered under MAX_HOOK_GROUP_DEPTH or more enclosing groups, and its
expansion visits at most MAX_HOOK_GROUP_MEMBERS members (the budget of one `Config::get_hook`). -/
def ResolvesWithin (cfg : Config) (n : String) : Prop :=
  ∃ k, VisitsList cfg 0 [n] k ∧ k ≤ maxHookGroupMembers

/-- Every hook or group a certificate or an account names stays within the limits. -/
def WithinLimits (cfg : Config) : Prop :=
  (∀ c, c ∈ cfg.certificates → ∀ h, h ∈ c.hooks → ResolvesWithin cfg h) ∧
  (∀ a, a ∈ cfg.accounts → ∀ h, h ∈ a.hooks → ResolvesWithin cfg h)

/-- `m` is listed in the group that the name `n` denotes (`n` is not shadowed by a hook). -/
def Member (cfg : Config) (n m : String) : Prop :=
  findHook cfg n = none ∧ ∃ g, findGroup cfg n = some g ∧ m ∈ g.hooks

/-- `b` is reached from `a` through one or more group memberships. -/
inductive Reach (cfg : Config) : String → String → Prop
  | step {a b : String} : Member cfg a b → Reach cfg a b
  | trans {a b c : String} : Member cfg a b → Reach cfg b c → Reach cfg a c

/-- Everything a certificate depends on resolves. -/
def CertRefsOk (cfg : Config) (c : Certificate) : Prop :=
  (∃ ep, findEndpoint cfg c.endpoint = some ep ∧
      ∀ rl, rl ∈ ep.rateLimits → (findRateLimit cfg rl).isSome = true) ∧
  (∃ a, a ∈ cfg.accounts ∧ a.name = c.account) ∧
  (∀ h, h ∈ c.hooks → Resolves cfg h)

/-! ## Judge -/

/-- The four built-in defaults in the representation the dump uses. -/
structure Defaults where
  renewDelay : Val
  randomEarlyRenew : Val
  fileNameFormat : Val
  directory : Val
  deriving Repr, DecidableEq, Inhabited

/-- What was observed for one certificate of the running daemon. -/
structure CertObs where
  crtId : String
  renewDelay : Val
  randomEarlyRenew : Val
  fileNameFormat : Val
  directory : Val
  deriving Repr, DecidableEq, Inhabited

/-- The observation the model itself predicts for a certificate it built. -/
def CertObs.ofBuilt (d : Defaults) (bc : BuiltCert) : CertObs :=
  { crtId := bc.crtId
    renewDelay := bc.renewDelay.resolve d.renewDelay
    randomEarlyRenew := bc.randomEarlyRenew.resolve d.randomEarlyRenew
    fileNameFormat := bc.fileNameFormat.resolve d.fileNameFormat
    directory := bc.directory.resolve d.directory }

/-- What the property's first clause demands for one certificate of the merged configuration,
computed from the sections alone. -/
def expectedCert (d : Defaults) (cfg : Config) (c : Certificate) : CertObs :=
  let ep := cfg.endpoints.find? (·.name == c.endpoint)
  let g := fun o => optGet o cfg.global
  { crtId := c.crtId
    renewDelay :=
      (mostSpecific [c.renewDelay, ep.bind (·.renewDelay), g .renew_delay]).resolve d.renewDelay
    randomEarlyRenew :=
      (mostSpecific [c.randomEarlyRenew, ep.bind (·.randomEarlyRenew), g .random_early_renew]).resolve
        d.randomEarlyRenew
    fileNameFormat :=
      (mostSpecific [c.fileNameFormat, ep.bind (·.fileNameFormat), g .file_name_format]).resolve
        d.fileNameFormat
    directory := (mostSpecific [c.directory, g .certificates_directory]).resolve d.directory }

/-- Exactly one observation per configured certificate, equal to what is expected. -/
def holdsSettings (d : Defaults) (cfg : Config) (dump : List CertObs) : Bool :=
  dump.length == cfg.certificates.length &&
  cfg.certificates.all fun c =>
    dump.filter (fun o => o.crtId == c.crtId) == [expectedCert d cfg c]

inductive Outcome
  | started (dump : List CertObs)
  | rejected
  deriving Repr, DecidableEq, Inhabited

/-- Must the daemon refuse this (merged) configuration?  Exactly when a reference does not resolve,
a certificate id is repeated, or a hook group is nested or visited beyond the limits — which is when
`build` errs (`Props.C14.rejects_exactly`). -/
def mustReject (cfg : Config) : Bool := !(build cfg).isOk

/-- The daemon rejected iff it had to. -/
def startsIff (cfg : Config) (rejected : Bool) : Bool := rejected == mustReject cfg

/-- Judge for a merged configuration whose other fields are valid. -/
def holds (d : Defaults) (cfg : Config) : Outcome → Bool
  | .rejected => startsIff cfg true
  | .started dump => startsIff cfg false && holdsSettings d cfg dump

/-- Judge for a whole tree: an include that cannot be read is a start-up error too. -/
def holdsTree (d : Defaults) (files : List (Nat × FileContent (List Nat))) (main : Nat)
    (o : Outcome) : Bool :=
  match loadTree files main with
  | .error _ => o == .rejected
  | .ok cfg => holds d cfg o

/-- Every option of `struct GlobalOptions` is assigned in `read_cnf`'s merge block (evaluated on
the two lists extracted from the source text). -/
def globalMergeComplete : Bool :=
  Gen.globalOptions.all fun o => Gen.mergedOptions.contains o

/-- The options of `struct GlobalOptions` that the merge block forgets. -/
def globalMergeMissing : List String :=
  Gen.globalOptions.filter fun o => !Gen.mergedOptions.contains o

/-- Judge for the merged `[global]` table: `obs o` is the observed merged value of option `o`
(`none` = unset); `order` the files in first-read order, `own p o` what file `p` sets. -/
def holdsGlobal (order : List Path) (own : Path → GlobalOpt → Option Val)
    (obs : GlobalOpt → Option Val) : Bool :=
  GlobalOpt.all.all fun o =>
    o == .env || obs o == lastSome (order.map fun p => own p o)

end AcmedVerif.Spec.C14
