/-
C01, clause "IP addresses in canonical text form": what the property demands of the text an IP
identifier is sent with, given the text that was configured.

* `rfc5952 t`   — a description of the recommended IPv6 text form of RFC 5952 section 4 (and section 5
  for IPv4-mapped addresses), written on the TEXT (own tokeniser: split at "::", split at ':'), without
  using the model's printer:
    §4.1   no leading zeros in a field; a zero field is "0"            (`hexField`)
    §4.2.1 "::" shortens as much as possible: the fields next to it are not "0"
    §4.2.2 "::" never stands for just one field                         (at most 6 fields are written)
    §4.2.3 "::" stands for the longest run of zero fields, the first one when several are longest;
           and, since §4.2.1 says "::" MUST be used to its maximum capability, a text without "::" has
           no two adjacent "0" fields
    §4.3   lower case                                                   (`hexField`)
    §5     IPv4-mapped addresses in mixed notation `::ffff:a.b.c.d`     (`mixedMapped`)
  The description is narrower than the RFC in one place: mixed notation is accepted only behind the
  IPv4-mapped prefix `::ffff:` (RFC 5952 §5 allows it for any prefix known to embed IPv4, e.g.
  `64:ff9b::192.0.2.33`); it also accepts `::ffff:c000:201` (all-hex form of a mapped address: §5 is a
  recommendation).  Rust prints the mixed form for IPv4-mapped addresses only.
* `v4shape t`   — dotted quad: four decimal fields 0..255 without leading zeros.
* `holds configured sent` — the judge: `sent` is the canonical text of the address `configured`
  denotes (`IpText.canon`, the model of `IpAddr::from_str(..)?.to_string()`), and it has the shape above.
-/
import AcmedVerif.Model.IpText

namespace AcmedVerif.Spec.C01Ip

def isDecChar (c : Char) : Bool := '0' ≤ c && c ≤ '9'
def isLowerHexChar (c : Char) : Bool := ('0' ≤ c && c ≤ '9') || ('a' ≤ c && c ≤ 'f')

/-- Fields between separators ("a..b" has an empty field; "" is one empty field). -/
def splitOn (sep : Char) : List Char → List (List Char)
  | [] => [[]]
  | c :: t =>
    if c = sep then [] :: splitOn sep t
    else match splitOn sep t with
      | [] => [[c]]
      | f :: fs => (c :: f) :: fs

def decValue (f : List Char) : Nat := f.foldl (fun acc c => acc * 10 + (c.toNat - 48)) 0

/-- A decimal field of a dotted quad: 1..3 digits, no leading zero, at most 255. -/
def decField (f : List Char) : Bool :=
  !f.isEmpty && decide (f.length ≤ 3) && f.all isDecChar &&
  (f.length == 1 || f.head? != some '0') && decide (decValue f ≤ 255)

def v4shape (t : List Char) : Bool :=
  let fs := splitOn '.' t
  fs.length == 4 && fs.all decField

/-- A 16-bit field (§4.1, §4.3): 1..4 lower-case hex digits, no leading zero ("0" for zero). -/
def hexField (f : List Char) : Bool :=
  !f.isEmpty && decide (f.length ≤ 4) && f.all isLowerHexChar && (f.length == 1 || f.head? != some '0')

def isZeroField (f : List Char) : Bool := f == ['0']

/-- Split at the first "::". -/
def splitDC : List Char → Option (List Char × List Char)
  | [] => none
  | c :: t =>
    if c == ':' && t.head? == some ':' then some ([], t.tail)
    else (splitDC t).map fun p => (c :: p.1, p.2)

/-- The fields on one side of "::" (none when the side is empty). -/
def sideFields (side : List Char) : List (List Char) :=
  if side.isEmpty then [] else splitOn ':' side

def maxRunAux : List Bool → Nat → Nat → Nat
  | [], cur, best => max cur best
  | true :: t, cur, best => maxRunAux t (cur + 1) best
  | false :: t, cur, best => maxRunAux t 0 (max cur best)

/-- Length of the longest run of `true`. -/
def maxRun (zs : List Bool) : Nat := maxRunAux zs 0 0

/-- The run conditions (§4.2) on the zero / non-zero pattern of the fields left (`zl`) and right (`zr`)
of "::", which stands for `n = 8 - |zl| - |zr|` zero fields. -/
def runsOk (zl zr : List Bool) : Bool :=
  decide (zl.length + zr.length ≤ 6) &&                      -- §4.2.2: "::" is at least two fields
  zl.getLast? != some true && zr.head? != some true &&        -- §4.2.1: shortened as much as possible
  decide (maxRun zl < 8 - (zl.length + zr.length)) &&         -- §4.2.3: an earlier run is strictly shorter
  decide (maxRun zr ≤ 8 - (zl.length + zr.length))            --         a later run is not longer

/-- All-hexadecimal form (§4). -/
def hexForm (t : List Char) : Bool :=
  match splitDC t with
  | none =>
    let fs := splitOn ':' t
    fs.length == 8 && fs.all hexField && decide (maxRun (fs.map isZeroField) ≤ 1)
  | some (l, r) =>
    let L := sideFields l
    let R := sideFields r
    L.all hexField && R.all hexField && runsOk (L.map isZeroField) (R.map isZeroField)

/-- Mixed notation of an IPv4-mapped address (§5): `::ffff:` + dotted quad. -/
def mixedMapped : List Char → Bool
  | ':' :: ':' :: 'f' :: 'f' :: 'f' :: 'f' :: ':' :: q => v4shape q
  | _ => false

/-- RFC 5952 text form of an IPv6 address. -/
def rfc5952 (t : List Char) : Bool := mixedMapped t || hexForm t

/-- Canonical text of an IP address of either family. -/
def canonicalShape (t : List Char) : Bool := v4shape t || rfc5952 t

/-- The judge of the clause: the identifier was configured as `configured`; `sent` is the text the
implementation used (newOrder payload / the address of the CSR's iPAddress entry rendered by the
harness).  It must be THE canonical text of the configured address and have the canonical shape. -/
def holds (configured sent : String) : Bool :=
  IpText.canon configured == some sent && canonicalShape sent.toList

/-- The judge for the CSR side: the iPAddress entry carries the 4 or 16 octets `octs`; they must be
the octets of the address `configured` denotes. -/
def holdsOctets (configured : String) (octs : List UInt8) : Bool :=
  (IpText.parseIp configured.toList).map IpText.octets == some octs

end AcmedVerif.Spec.C01Ip
